import Gp.Go.Basic
import Gp.Gen.Igmp
/-
  Model of the decode-only layers of engine `ligmp`:

    /repo/layers/igmp.go    IGMPv1or2.DecodeFromBytes, IGMP.DecodeFromBytes (+ decodeIGMPv3MembershipQuery,
                            decodeIGMPv3MembershipReport with group records and source lists),
                            igmpTimeDecode (GENERATED, Gp/Gen/Igmp.lean), decodeIGMP (choice by type and length)
    /repo/layers/ipsec.go   IPSecAH.DecodeFromBytes, IPSecESP.DecodeFromBytes, decodeIPSecAH, decodeIPSecESP
    /repo/layers/gtp2.go    GTPv2.DecodeFromBytes (IE loop), decodeGTPv2
    + base.go decodingLayerDecoder, enums_generated.go IPProtocol.LayerType over the table of enums.go, and the
      DecodingLayerParser loop (layers_decoder.go / parser.go) over {IGMP | IGMPv1or2, IPSecAH, IPSecESP, GTPv2}.

  NONE of these layers has a SerializeTo method: there is no serializer to model (no C06/C07 part), and none
  has a flow accessor (no C17 part).

  The model is the code WITH proposed_fixes/ligmp-1 … ligmp-5 (GTPv2 int arithmetic, GTPv2 reset of TEID/IEs,
  IGMP reset, IGMPv1or2 Version/BaseLayer, IGMP error propagation).

  Conventions (DESIGN §3): a Go panic is `Res.panic`; a Go `[]byte` is its visible bytes plus the *foreign*
  bytes between len and cap (`GSlice`): `s[a:b]` panics iff ¬(a ≤ b ∧ b ≤ cap), `s[i]` panics iff i ≥ len.
  A Go `error` return of DecodeFromBytes is a *value* (`err := true`) so that what the call did to the
  receiver before returning the error stays visible.  Every assignment of the Go source appears, in source
  order.  Go `int` is 64-bit: all int expressions here are bounded by 8 + 65535·(8 + 4·65535) or by
  len(data) + 4 + 65535 (no overflow).  Core Lean only.
-/
namespace Gp.Igmp
open Gp Gp.Gen.Igmp

/-! ## Go slices with capacity -/

structure GSlice where
  vis  : Bytes
  tail : Bytes
  deriving Repr, DecidableEq

namespace GSlice
def len (s : GSlice) : Nat := s.vis.length
def cap (s : GSlice) : Nat := s.vis.length + s.tail.length
/-- Go `s[a:b]`: the upper bound is checked against the CAPACITY. -/
def slice (s : GSlice) (a b : Nat) : Res GSlice :=
  if a ≤ b ∧ b ≤ s.cap then
    .ok { vis := ((s.vis ++ s.tail).drop a).take (b - a), tail := (s.vis ++ s.tail).drop b }
  else .panic .slice
/-- Go `s[a:]` (= `s[a:len(s)]`): panics iff a > len. -/
def sliceFrom (s : GSlice) (a : Nat) : Res GSlice :=
  if a ≤ s.len then .ok { vis := s.vis.drop a, tail := s.tail } else .panic .slice
/-- Go `s[i]`: the bound is the LENGTH. -/
def index (s : GSlice) (i : Nat) : Res UInt8 := Gp.index s.vis i
end GSlice

/-- encoding/binary `BigEndian.Uint16(b)`: `_ = b[1]` (early bounds check), then b[0]<<8 | b[1]. -/
def uint16 (s : GSlice) : Res Nat := do
  let b1 ← s.index 1
  let b0 ← s.index 0
  pure (be16 b0 b1)

/-- `BigEndian.Uint32(b)`: `_ = b[3]`, then b[3] | b[2]<<8 | b[1]<<16 | b[0]<<24. -/
def uint32 (s : GSlice) : Res Nat := do
  let b3 ← s.index 3
  let b2 ← s.index 2
  let b1 ← s.index 1
  let b0 ← s.index 0
  pure (be32 b0 b1 b2 b3)

/-! ## Layer-type numbers, the IPProtocol table -/

def LayerTypeZero : Nat := 0
def LayerTypePayload : Nat := 2
def LayerTypeIPSecAH : Nat := 50
def LayerTypeIPSecESP : Nat := 51
def LayerTypeIGMP : Nat := 62
def LayerTypeGTPv2 : Nat := 1010

/-- enums.go `initActualTypeData`: the rows of `IPProtocolMetadata` that carry a layer type
    (IPProtocol ↦ LayerType); every other of the 256 entries has LayerType 0.  Tied by the exhaustive
    256-entry op `ligmp iptab`; the keys of the three layers of this engine are GENERATED constants. -/
def ipProtoTable : List (Nat × Nat) :=
  [ (0, 46), (1, 19), (ipProtocolIGMP, LayerTypeIGMP), (4, 20), (6, 44), (17, 45), (27, 27), (41, 21),
    (43, 47), (44, 48), (47, 18), (ipProtocolESP, LayerTypeIPSecESP), (ipProtocolAH, LayerTypeIPSecAH), (58, 57),
    (59, 2), (60, 49), (89, 123), (94, 20), (97, 16), (112, 119), (132, 28), (136, 52), (137, 24) ]

/-- enums_generated.go `IPProtocol.LayerType()`: the table entry (0 when there is none). -/
def ipProtoLayerType (p : Nat) : Nat := (ipProtoTable.lookup p).getD LayerTypeZero

/-- What one DecodeFromBytes call did: the receiver afterwards, whether it called
    `df.SetTruncated()`, and whether it returned a non-nil error. -/
structure DecOut (L : Type) where
  layer : L
  trunc : Bool
  err   : Bool
  deriving Repr, DecidableEq

/-- igmp.go `igmpTimeDecode(t uint8) time.Duration` in nanoseconds (hand-transcribed: x-gen renders the
    non-mask `&` / `|` as `Int.land` / `Int.lor`, which core Lean does not have; tied by the exhaustive
    256-value op `ligmp time`).  NOTE `mant` is a uint8, so `(mant|0x10)<<(exp+3)` is a uint8 shift,
    truncated to 8 bits: every code ≥ 0x80 with exp ≥ 2 decodes to 0 — no property of this engine speaks
    about the value. -/
def timeDecode (b : UInt8) : Int :=
  let t := b.toNat
  if t &&& 0x80 = 0 then
    Int.ofNat (100000000 * t)                                    -- time.Millisecond * 100 * time.Duration(t)
  else
    let mant := (t &&& 0x70) >>> 4                               -- mant := (t & 0x70) >> 4
    let exp := t &&& 0x0F                                        -- exp := t & 0x0F
    Int.ofNat (100000000 * (((mant ||| 0x10) <<< (exp + 3)) % 256))   -- … * time.Duration((mant|0x10)<<(exp+3))

/-! ## IGMPv1or2 (igmp.go) -/

/-- layers.IGMPv1or2: BaseLayer, Type (uint8), MaxResponseTime (time.Duration, ns), Checksum (uint16),
    GroupAddress (net.IP), Version (uint8). -/
structure IGMPv1or2 where
  contents        : Bytes
  payload         : Bytes
  typ             : Nat
  maxResponseTime : Int
  checksum        : Nat
  groupAddress    : Bytes
  version         : Nat
  deriving Repr, DecidableEq

def IGMPv1or2.fresh : IGMPv1or2 :=
  { contents := [], payload := [], typ := 0, maxResponseTime := 0, checksum := 0, groupAddress := [], version := 0 }

/-- igmp.go `(*IGMPv1or2).DecodeFromBytes` (with proposed_fixes/ligmp-4: BaseLayer and Version are assigned
    here, Version by the rules of decodeIGMP). -/
def IGMPv1or2.decodeFromBytes (old : IGMPv1or2) (data : GSlice) : Res (DecOut IGMPv1or2) :=
  if data.len < 8 then
    .ok { layer := old, trunc := false, err := true }            -- "IGMP Packet too small"
  else do
    let b ← data.index 0
    let l := { old with typ := b.toNat }                         -- i.Type = IGMPType(data[0])
    let b ← data.index 1
    let l := { l with maxResponseTime := timeDecode b }          -- i.MaxResponseTime = igmpTimeDecode(data[1])
    let s ← data.slice 2 4
    let v ← uint16 s
    let l := { l with checksum := v }                            -- i.Checksum = Uint16(data[2:4])
    let g ← data.slice 4 8
    let l := { l with groupAddress := g.vis }                    -- i.GroupAddress = net.IP(data[4:8])
    let c ← data.slice 0 8
    let p ← data.sliceFrom 8
    let l := { l with contents := c.vis, payload := p.vis }      -- i.BaseLayer = BaseLayer{data[:8], data[8:]}
    if l.typ = igmpMembershipQuery then do                       -- switch i.Type { case IGMPMembershipQuery:
      let b ← data.index 1
      if b.toNat = 0 then
        pure { layer := { l with version := 1 }, trunc := false, err := false }   -- if data[1] == 0 { Version = 1 }
      else
        pure { layer := { l with version := 2 }, trunc := false, err := false }   -- else { Version = 2 }
    else if l.typ = igmpMembershipReportV1 then
      pure { layer := { l with version := 1 }, trunc := false, err := false }
    else if l.typ = igmpLeaveGroup ∨ l.typ = igmpMembershipReportV2 then
      pure { layer := { l with version := 2 }, trunc := false, err := false }
    else
      pure { layer := { l with version := 0 }, trunc := false, err := false }

def IGMPv1or2.canDecode : Nat := LayerTypeIGMP
def IGMPv1or2.nextLayerType (_ : IGMPv1or2) : Nat := LayerTypeZero
def IGMPv1or2.layerPayload (l : IGMPv1or2) : Bytes := l.payload

/-! ## IGMP (IGMPv3 query / report, igmp.go) -/

/-- layers.IGMPv3GroupRecord. `AuxData` is never assigned by the decoder. -/
structure GroupRecord where
  typ              : Nat
  auxDataLen       : Nat
  numberOfSources  : Nat
  multicastAddress : Bytes
  sourceAddresses  : List Bytes
  auxData          : Nat
  deriving Repr, DecidableEq

/-- layers.IGMP. -/
structure IGMP where
  contents                : Bytes
  payload                 : Bytes
  typ                     : Nat
  maxResponseTime         : Int
  checksum                : Nat
  groupAddress            : Bytes
  supressRouterProcessing : Bool
  robustnessValue         : Nat
  intervalTime            : Int
  sourceAddresses         : List Bytes
  numberOfGroupRecords    : Nat
  numberOfSources         : Nat
  groupRecords            : List GroupRecord
  version                 : Nat
  deriving Repr, DecidableEq

def IGMP.fresh : IGMP :=
  { contents := [], payload := [], typ := 0, maxResponseTime := 0, checksum := 0, groupAddress := [],
    supressRouterProcessing := false, robustnessValue := 0, intervalTime := 0, sourceAddresses := [],
    numberOfGroupRecords := 0, numberOfSources := 0, groupRecords := [], version := 0 }

/-- `for j := 0; j < n; j++ { acc = append(acc, net.IP(data[lo+j*4 : hi+j*4])) }` — structural recursion on
    the number of iterations left (the loops of the query and of one group record). -/
def addrLoop (data : GSlice) (lo hi : Nat) : Nat → Nat → List Bytes → Res (List Bytes)
  | 0, _, acc => .ok acc
  | n + 1, j, acc => do
    let s ← data.slice (lo + j * 4) (hi + j * 4)
    addrLoop data lo hi n (j + 1) (acc ++ [s.vis])

/-- igmp.go `(*IGMP).decodeIGMPv3MembershipQuery`. -/
def IGMP.decodeQuery (l : IGMP) (data : GSlice) : Res (DecOut IGMP) :=
  if data.len < 12 then
    .ok { layer := l, trunc := false, err := true }              -- "IGMPv3 Membership Query too small #1"
  else do
    let b ← data.index 1
    let l := { l with maxResponseTime := timeDecode b }          -- i.MaxResponseTime = igmpTimeDecode(data[1])
    let s ← data.slice 2 4
    let v ← uint16 s
    let l := { l with checksum := v }                            -- i.Checksum = Uint16(data[2:4])
    let b ← data.index 8
    let l := { l with supressRouterProcessing := (b.toNat &&& 0x8 != 0) }   -- data[8]&0x8 != 0
    let g ← data.slice 4 8
    let l := { l with groupAddress := g.vis }                    -- i.GroupAddress = net.IP(data[4:8])
    let b ← data.index 8
    let l := { l with robustnessValue := b.toNat &&& 0x7 }       -- i.RobustnessValue = data[8] & 0x7
    let b ← data.index 9
    let l := { l with intervalTime := timeDecode b }             -- i.IntervalTime = igmpTimeDecode(data[9])
    let s ← data.slice 10 12
    let v ← uint16 s
    let l := { l with numberOfSources := v }                     -- i.NumberOfSources = Uint16(data[10:12])
    if data.len < 12 + l.numberOfSources * 4 then
      pure { layer := l, trunc := false, err := true }           -- "IGMPv3 Membership Query too small #2"
    else do
      let srcs ← addrLoop data 12 16 l.numberOfSources 0 l.sourceAddresses
      pure { layer := { l with sourceAddresses := srcs }, trunc := false, err := false }

/-- The group-record loop of `decodeIGMPv3MembershipReport`: `n` = iterations left
    (`for j := 0; j < int(i.NumberOfGroupRecords); j++`), `ro` = recordOffset. -/
def recLoop (data : GSlice) : Nat → Nat → IGMP → Res (DecOut IGMP)
  | 0, _, l => .ok { layer := l, trunc := false, err := false }
  | n + 1, ro, l =>
    if data.len < ro + 8 then
      .ok { layer := l, trunc := false, err := true }            -- "IGMPv3 Membership Report too small #2"
    else do
      let b ← data.index ro                                      -- gr.Type = data[recordOffset]
      let a ← data.index (ro + 1)                                -- gr.AuxDataLen = data[recordOffset+1]
      let s ← data.slice (ro + 2) (ro + 4)
      let ns ← uint16 s                                          -- gr.NumberOfSources = Uint16(data[ro+2 : ro+4])
      let m ← data.slice (ro + 4) (ro + 8)                       -- gr.MulticastAddress = net.IP(data[ro+4 : ro+8])
      if data.len < ro + 8 + ns * 4 then
        pure { layer := l, trunc := false, err := true }         -- "IGMPv3 Membership Report too small #3"
      else do
        let srcs ← addrLoop data (ro + 8) (ro + 12) ns 0 []      -- the inner loop (gr.SourceAddresses starts nil)
        let gr : GroupRecord := { typ := b.toNat, auxDataLen := a.toNat, numberOfSources := ns,
                                  multicastAddress := m.vis, sourceAddresses := srcs, auxData := 0 }
        let l := { l with groupRecords := l.groupRecords ++ [gr] }   -- i.GroupRecords = append(i.GroupRecords, gr)
        recLoop data n (ro + 8 + 4 * ns) l                       -- recordOffset += 8 + 4*int(gr.NumberOfSources)

/-- igmp.go `(*IGMP).decodeIGMPv3MembershipReport`. -/
def IGMP.decodeReport (l : IGMP) (data : GSlice) : Res (DecOut IGMP) :=
  if data.len < 8 then
    .ok { layer := l, trunc := false, err := true }              -- "IGMPv3 Membership Report too small #1"
  else do
    let s ← data.slice 2 4
    let v ← uint16 s
    let l := { l with checksum := v }                            -- i.Checksum = Uint16(data[2:4])
    let s ← data.slice 6 8
    let v ← uint16 s
    let l := { l with numberOfGroupRecords := v }                -- i.NumberOfGroupRecords = Uint16(data[6:8])
    recLoop data l.numberOfGroupRecords 8 l

/-- igmp.go `(*IGMP).DecodeFromBytes` (with proposed_fixes/ligmp-3: the struct is reset, Version 3, Contents =
    the message; ligmp-5: the error of the query / report decoder is returned). -/
def IGMP.decodeFromBytes (old : IGMP) (data : GSlice) : Res (DecOut IGMP) :=
  if data.len < 1 then
    .ok { layer := old, trunc := false, err := true }            -- "IGMP packet is too small"
  else do
    let l : IGMP := { IGMP.fresh with contents := data.vis, version := 3 }   -- *i = IGMP{BaseLayer{Contents: data}, Version: 3}
    let b ← data.index 0
    let l := { l with typ := b.toNat }                           -- i.Type = IGMPType(data[0])
    if l.typ = igmpMembershipQuery then l.decodeQuery data
    else if l.typ = igmpMembershipReportV3 then l.decodeReport data
    else pure { layer := l, trunc := false, err := true }        -- "unsupported IGMP type"

def IGMP.canDecode : Nat := LayerTypeIGMP
def IGMP.nextLayerType (_ : IGMP) : Nat := LayerTypeZero
def IGMP.layerPayload (l : IGMP) : Bytes := l.payload

/-! ## IPSecAH, IPSecESP (ipsec.go) -/

/-- layers.IPSecAH: ipv6ExtensionBase{BaseLayer, NextHeader, HeaderLength (uint8), ActualLength (int)},
    Reserved (uint16), SPI, Seq (uint32), AuthenticationData. -/
structure IPSecAH where
  contents           : Bytes
  payload            : Bytes
  nextHeader         : Nat
  headerLength       : Nat
  actualLength       : Nat
  reserved           : Nat
  spi                : Nat
  seq                : Nat
  authenticationData : Bytes
  deriving Repr, DecidableEq

def IPSecAH.fresh : IPSecAH :=
  { contents := [], payload := [], nextHeader := 0, headerLength := 0, actualLength := 0, reserved := 0,
    spi := 0, seq := 0, authenticationData := [] }

/-- ipsec.go `(*IPSecAH).DecodeFromBytes`.  All three error paths call SetTruncated; the two later ones
    return after the header fields have been assigned (and BaseLayer zeroed by the composite literal). -/
def IPSecAH.decodeFromBytes (old : IPSecAH) (data : GSlice) : Res (DecOut IPSecAH) :=
  if data.len < 12 then
    .ok { layer := old, trunc := true, err := true }             -- df.SetTruncated(); "IPSec AH packet less than 12 bytes"
  else do
    let b0 ← data.index 0
    let b1 ← data.index 1
    -- i.ipv6ExtensionBase = ipv6ExtensionBase{NextHeader: IPProtocol(data[0]), HeaderLength: data[1]}
    let l := { old with contents := [], payload := [], actualLength := 0, nextHeader := b0.toNat, headerLength := b1.toNat }
    let s ← data.slice 2 4
    let v ← uint16 s
    let l := { l with reserved := v }                            -- i.Reserved = Uint16(data[2:4])
    let s ← data.slice 4 8
    let v ← uint32 s
    let l := { l with spi := v }                                 -- i.SPI = Uint32(data[4:8])
    let s ← data.slice 8 12
    let v ← uint32 s
    let l := { l with seq := v }                                 -- i.Seq = Uint32(data[8:12])
    let l := { l with actualLength := (l.headerLength + 2) * 4 } -- i.ActualLength = (int(i.HeaderLength) + 2) * 4
    if l.actualLength < 12 then
      pure { layer := l, trunc := true, err := true }            -- df.SetTruncated(); "AH packet ActualLength < 12"
    else if data.len < l.actualLength then
      pure { layer := l, trunc := true, err := true }            -- df.SetTruncated(); "Truncated AH packet < ActualLength"
    else do
      let a ← data.slice 12 l.actualLength
      let l := { l with authenticationData := a.vis }            -- i.AuthenticationData = data[12:i.ActualLength]
      let c ← data.slice 0 l.actualLength
      let l := { l with contents := c.vis }                      -- i.Contents = data[:i.ActualLength]
      let p ← data.sliceFrom l.actualLength
      let l := { l with payload := p.vis }                       -- i.Payload = data[i.ActualLength:]
      pure { layer := l, trunc := false, err := false }

def IPSecAH.canDecode : Nat := LayerTypeIPSecAH
/-- ipsec.go NextLayerType = `i.NextHeader.LayerType()`. -/
def IPSecAH.nextLayerType (l : IPSecAH) : Nat := ipProtoLayerType l.nextHeader
def IPSecAH.layerPayload (l : IPSecAH) : Bytes := l.payload

/-- layers.IPSecESP: BaseLayer, SPI, Seq (uint32), Encrypted. -/
structure IPSecESP where
  contents  : Bytes
  payload   : Bytes
  spi       : Nat
  seq       : Nat
  encrypted : Bytes
  deriving Repr, DecidableEq

def IPSecESP.fresh : IPSecESP := { contents := [], payload := [], spi := 0, seq := 0, encrypted := [] }

/-- ipsec.go `(*IPSecESP).DecodeFromBytes`: Contents = the whole input, Payload = nil. -/
def IPSecESP.decodeFromBytes (old : IPSecESP) (data : GSlice) : Res (DecOut IPSecESP) :=
  if data.len < 8 then
    .ok { layer := old, trunc := true, err := true }             -- df.SetTruncated(); "IPSec ESP packet less than 8 bytes"
  else do
    let l := { old with contents := data.vis, payload := [] }    -- i.BaseLayer = BaseLayer{data, nil}
    let s ← data.slice 0 4
    let v ← uint32 s
    let l := { l with spi := v }                                 -- i.SPI = Uint32(data[:4])
    let s ← data.slice 4 8
    let v ← uint32 s
    let l := { l with seq := v }                                 -- i.Seq = Uint32(data[4:8])
    let e ← data.sliceFrom 8
    let l := { l with encrypted := e.vis }                       -- i.Encrypted = data[8:]
    pure { layer := l, trunc := false, err := false }

def IPSecESP.canDecode : Nat := LayerTypeIPSecESP
def IPSecESP.nextLayerType (_ : IPSecESP) : Nat := LayerTypePayload
def IPSecESP.layerPayload (l : IPSecESP) : Bytes := l.payload

/-! ## GTPv2 (gtp2.go) -/

structure IE where
  typ     : Nat
  content : Bytes
  deriving Repr, DecidableEq

/-- layers.GTPv2. -/
structure GTPv2 where
  contents         : Bytes
  payload          : Bytes
  version          : Nat
  piggybackingFlag : Bool
  teidFlag         : Bool
  messagePriority  : Nat
  messageType      : Nat
  messageLength    : Nat
  teid             : Nat
  sequenceNumber   : Nat
  spare            : Nat
  ies              : List IE
  deriving Repr, DecidableEq

def GTPv2.fresh : GTPv2 :=
  { contents := [], payload := [], version := 0, piggybackingFlag := false, teidFlag := false,
    messagePriority := 0, messageType := 0, messageLength := 0, teid := 0, sequenceNumber := 0, spare := 0, ies := [] }

/-- gtp2.go: the IE loop `for cIndex < dLen { … }` followed by the BaseLayer assignment, as fuel-bounded
    recursion (`.err "fuel"` when the fuel runs out: shown unreachable with the fuel `len(data) + 1` used by
    `GTPv2.decodeFromBytes` — every iteration advances cIndex by at least 4).  With proposed_fixes/ligmp-1
    cIndex is an `int`. -/
def ieLoop (data : GSlice) : Nat → Nat → GTPv2 → Res (DecOut GTPv2)
  | 0, _, _ => .err "fuel"
  | fuel + 1, cIndex, l =>
    if cIndex < data.len then
      if cIndex + 4 > data.len then
        .ok { layer := l, trunc := false, err := true }          -- "GTP packet too small for an IE header"
      else do
        let t ← data.index cIndex                                -- ieType := data[cIndex]
        let s ← data.slice (cIndex + 1) (cIndex + 3)
        let ieLength ← uint16 s                                  -- ieLength := Uint16(data[cIndex+1 : cIndex+3])
        if cIndex + 4 + ieLength > data.len then
          pure { layer := l, trunc := false, err := true }       -- "IE %d exceeds packet length"
        else do
          let c ← data.slice (cIndex + 4) (cIndex + 4 + ieLength)  -- ieContent := data[cIndex+4 : cIndex+4+int(ieLength)]
          let l := { l with ies := l.ies ++ [{ typ := t.toNat, content := c.vis }] }
          ieLoop data fuel (cIndex + 4 + ieLength) l             -- cIndex += 4 + int(ieLength)
    else do
      let c ← data.slice 0 cIndex
      let p ← data.sliceFrom cIndex
      -- g.BaseLayer = BaseLayer{Contents: data[:cIndex], Payload: data[cIndex:]}
      pure { layer := { l with contents := c.vis, payload := p.vis }, trunc := false, err := false }

/-- gtp2.go: the part of DecodeFromBytes from the sequence-number check on (`cIndex` = 4, or 8 with a TEID). -/
def gtpSeqPart (data : GSlice) (l : GTPv2) (cIndex : Nat) : Res (DecOut GTPv2) :=
  if data.len < cIndex + 4 then
    pure { layer := l, trunc := false, err := true }             -- "GTP packet too small for SequenceNumber"
  else do
    let a ← data.index cIndex
    let b ← data.index (cIndex + 1)
    let c ← data.index (cIndex + 2)
    -- g.SequenceNumber = uint32(data[cIndex])<<16 | uint32(data[cIndex+1])<<8 | uint32(data[cIndex+2])
    let l := { l with sequenceNumber := (a.toNat <<< 16) ||| (b.toNat <<< 8) ||| c.toNat }
    let d ← data.index (cIndex + 3)
    let l := { l with spare := d.toNat }                         -- g.Spare = data[cIndex+3]
    ieLoop data (data.len + 1) (cIndex + 4) l                    -- hLen += 4; cIndex += 4; the loop

/-- gtp2.go `(*GTPv2).DecodeFromBytes` (with proposed_fixes/all-9, ligmp-1: int arithmetic, ligmp-2: TEID and
    IEs are reset).  No error path calls SetTruncated. -/
def GTPv2.decodeFromBytes (old : GTPv2) (data : GSlice) : Res (DecOut GTPv2) :=
  let hLen := gtp2MinimumSizeInBytes                             -- hLen := gtp2MinimumSizeInBytes
  let dLen := data.len                                           -- dLen := len(data)
  if dLen < hLen then
    .ok { layer := old, trunc := false, err := true }            -- "GTP packet too small"
  else do
    let l := { old with teid := 0, ies := [] }                   -- g.TEID = 0; g.IEs = g.IEs[:0]
    let b ← data.index 0
    let l := { l with version := (b.toNat >>> 5) &&& 0x07 }      -- g.Version = (data[0] >> 5) & 0x07
    let b ← data.index 0
    let l := { l with piggybackingFlag := ((b.toNat >>> 4) &&& 0x01 == 1) }
    let b ← data.index 0
    let l := { l with teidFlag := ((b.toNat >>> 3) &&& 0x01 == 1) }
    let b ← data.index 0
    let l := { l with messagePriority := (b.toNat >>> 2) &&& 0x01 }
    let b ← data.index 1
    let l := { l with messageType := b.toNat }                   -- g.MessageType = data[1]
    let s ← data.slice 2 4
    let v ← uint16 s
    let l := { l with messageLength := v }                       -- g.MessageLength = Uint16(data[2:4])
    let pLen := 4 + l.messageLength                              -- pLen := 4 + int(g.MessageLength)
    if dLen < pLen then
      pure { layer := l, trunc := false, err := true }           -- "GTP packet too small"
    else
    let cIndex := hLen                                           -- cIndex := hLen
    if l.teidFlag then                                           -- if g.TEIDflag {
      if dLen < hLen + 4 then                                    --   hLen += 4; cIndex += 4; if dLen < hLen
        pure { layer := l, trunc := false, err := true }
      else do
        let s ← data.slice 4 8
        let v ← uint32 s
        gtpSeqPart data { l with teid := v } (cIndex + 4)        --   g.TEID = Uint32(data[4:8])
    else gtpSeqPart data l cIndex

def GTPv2.canDecode : Nat := LayerTypeGTPv2
def GTPv2.nextLayerType (_ : GTPv2) : Nat := LayerTypePayload
def GTPv2.layerPayload (l : GTPv2) : Bytes := l.payload

/-! ## The decoder functions registered for NewPacket, as behaviour descriptions -/

inductive Act where
  | setTruncated
  | addLayer (t : Nat)
  deriving Repr, DecidableEq

inductive Tail where
  | done                          -- return nil
  | fail                          -- return err
  | nextLayerType (t : Nat)       -- return p.NextDecoder(LayerType(t))
  deriving Repr, DecidableEq

structure Beh where
  acts : List Act
  tail : Tail
  deriving Repr, DecidableEq

def failed {L : Type} (acts : List Act) : Beh × Option L := ({ acts := acts, tail := .fail }, none)

/-- base.go `decodingLayerDecoder(d, data, p)` after `d.DecodeFromBytes(data, p)` returned `o` for a layer of
    type `typ` whose NextLayerType is `next`. -/
def decodingLayerDecoder {L : Type} (o : DecOut L) (typ next : Nat) : Beh × Option L :=
  let tr := if o.trunc then [Act.setTruncated] else []
  if o.err then ({ acts := tr, tail := .fail }, none)
  else if next = LayerTypeZero then ({ acts := tr ++ [.addLayer typ], tail := .done }, some o.layer)
  else ({ acts := tr ++ [.addLayer typ], tail := .nextLayerType next }, some o.layer)

/-- ipsec.go `decodeIPSecAH`. -/
def decodeIPSecAHFn (data : GSlice) : Res (Beh × Option IPSecAH) := do
  let o ← IPSecAH.fresh.decodeFromBytes data
  pure (decodingLayerDecoder o LayerTypeIPSecAH o.layer.nextLayerType)

/-- ipsec.go `decodeIPSecESP`. -/
def decodeIPSecESPFn (data : GSlice) : Res (Beh × Option IPSecESP) := do
  let o ← IPSecESP.fresh.decodeFromBytes data
  pure (decodingLayerDecoder o LayerTypeIPSecESP o.layer.nextLayerType)

/-- gtp2.go `decodeGTPv2`: DecodeFromBytes, AddLayer, NextDecoder(gtp.NextLayerType()). -/
def decodeGTPv2Fn (data : GSlice) : Res (Beh × Option GTPv2) := do
  let o ← GTPv2.fresh.decodeFromBytes data
  let tr := if o.trunc then [Act.setTruncated] else []
  if o.err then pure (failed tr)
  else pure ({ acts := tr ++ [.addLayer LayerTypeGTPv2], tail := .nextLayerType o.layer.nextLayerType }, some o.layer)

/-- The two structs decodeIGMP chooses between. -/
inductive AnyIgmp where
  | v3  (l : IGMP)
  | v12 (l : IGMPv1or2)
  deriving Repr, DecidableEq

def liftV3 (r : Beh × Option IGMP) : Beh × Option AnyIgmp := (r.1, r.2.map .v3)
def liftV12 (r : Beh × Option IGMPv1or2) : Beh × Option AnyIgmp := (r.1, r.2.map .v12)

/-- igmp.go `decodeIGMP`: the struct is chosen by the type byte and, for a query, by the length (≥ 12: IGMPv3;
    exactly 8: v1/v2; anything else: "Unable to determine IGMP type"). -/
def decodeIGMPFn (data : GSlice) : Res (Beh × Option AnyIgmp) :=
  if data.len < 1 then .ok (failed [])                           -- "IGMP packet is too small"
  else do
    let b ← data.index 0
    let v3 : Res (Beh × Option AnyIgmp) := do                    -- i := &IGMP{Version: 3}; decodingLayerDecoder(i, data, p)
      let o ← ({ IGMP.fresh with version := 3 }).decodeFromBytes data
      pure (liftV3 (decodingLayerDecoder o LayerTypeIGMP o.layer.nextLayerType))
    let v12 (ver : Nat) : Res (Beh × Option AnyIgmp) := do       -- i := &IGMPv1or2{Version: ver}; decodingLayerDecoder(i, data, p)
      let o ← ({ IGMPv1or2.fresh with version := ver }).decodeFromBytes data
      pure (liftV12 (decodingLayerDecoder o LayerTypeIGMP o.layer.nextLayerType))
    if b.toNat = igmpMembershipQuery then
      if data.len ≥ 12 then v3
      else if data.len = 8 then do
        let b1 ← data.index 1
        if b1.toNat = 0 then v12 1 else v12 2
      else pure (failed [])                                      -- "Unable to determine IGMP type."
    else if b.toNat = igmpMembershipReportV3 then v3
    else if b.toNat = igmpMembershipReportV1 then v12 1
    else if b.toNat = igmpLeaveGroup ∨ b.toNat = igmpMembershipReportV2 then v12 2
    else pure (failed [])

/-! ## DecodingLayerParser over {IGMP | IGMPv1or2, IPSecAH, IPSecESP, GTPv2} (layers_decoder.go loop) -/

structure DlpState where
  igmp    : IGMP
  igmp12  : IGMPv1or2
  ah      : IPSecAH
  esp     : IPSecESP
  gtp     : GTPv2
  decoded : List Nat
  trunc   : Bool
  deriving Repr, DecidableEq

/-- One run of the LayersDecoder loop followed by the tail of DecodeLayers.  `useV3` says which of the two IGMP
    structs was given to the parser for LayerTypeIGMP.  Result code: 0 = `nil`, 1 = the error of a
    DecodeFromBytes, 2 = `UnsupportedLayerType(typ)`.  Only AH can be followed by a layer of the set; every AH
    header consumes ≥ 12 bytes: `fuel = |data| + 1` suffices. -/
def dlpLoop (useV3 : Bool) : Nat → DlpState → Nat → GSlice → Res (DlpState × Nat)
  | 0, st, _, _ => .ok (st, 0)
  | fuel + 1, st, typ, data =>
    if typ = LayerTypeIPSecAH then
      match st.ah.decodeFromBytes data with
      | .panic k => .panic k
      | .err k => .err k
      | .ok o =>
        let st := { st with ah := o.layer, trunc := st.trunc || o.trunc }
        if o.err then .ok (st, 1) else
        let st := { st with decoded := st.decoded ++ [typ] }
        let rest : GSlice := { vis := o.layer.payload, tail := data.tail }
        if rest.len = 0 then .ok (st, 0) else dlpLoop useV3 fuel st o.layer.nextLayerType rest
    else if typ = LayerTypeIPSecESP then
      match st.esp.decodeFromBytes data with
      | .panic k => .panic k
      | .err k => .err k
      | .ok o =>
        let st := { st with esp := o.layer, trunc := st.trunc || o.trunc }
        if o.err then .ok (st, 1) else
        let st := { st with decoded := st.decoded ++ [typ] }
        let rest : GSlice := { vis := o.layer.payload, tail := data.tail }
        if rest.len = 0 then .ok (st, 0) else dlpLoop useV3 fuel st o.layer.nextLayerType rest
    else if typ = LayerTypeGTPv2 then
      match st.gtp.decodeFromBytes data with
      | .panic k => .panic k
      | .err k => .err k
      | .ok o =>
        let st := { st with gtp := o.layer, trunc := st.trunc || o.trunc }
        if o.err then .ok (st, 1) else
        let st := { st with decoded := st.decoded ++ [typ] }
        let rest : GSlice := { vis := o.layer.payload, tail := data.tail }
        if rest.len = 0 then .ok (st, 0) else dlpLoop useV3 fuel st o.layer.nextLayerType rest
    else if typ = LayerTypeIGMP then
      if useV3 then
        match st.igmp.decodeFromBytes data with
        | .panic k => .panic k
        | .err k => .err k
        | .ok o =>
          let st := { st with igmp := o.layer, trunc := st.trunc || o.trunc }
          if o.err then .ok (st, 1) else
          let st := { st with decoded := st.decoded ++ [typ] }
          let rest : GSlice := { vis := o.layer.payload, tail := data.tail }
          if rest.len = 0 then .ok (st, 0) else dlpLoop useV3 fuel st o.layer.nextLayerType rest
      else
        match st.igmp12.decodeFromBytes data with
        | .panic k => .panic k
        | .err k => .err k
        | .ok o =>
          let st := { st with igmp12 := o.layer, trunc := st.trunc || o.trunc }
          if o.err then .ok (st, 1) else
          let st := { st with decoded := st.decoded ++ [typ] }
          let rest : GSlice := { vis := o.layer.payload, tail := data.tail }
          if rest.len = 0 then .ok (st, 0) else dlpLoop useV3 fuel st o.layer.nextLayerType rest
    else if typ = LayerTypeZero then .ok (st, 0) else .ok (st, 2)

def DlpState.init (igmp : IGMP) (igmp12 : IGMPv1or2) (ah : IPSecAH) (esp : IPSecESP) (gtp : GTPv2) : DlpState :=
  { igmp := igmp, igmp12 := igmp12, ah := ah, esp := esp, gtp := gtp, decoded := [], trunc := false }

/-- parser.go DecodeLayers: Truncated := false, decoded := decoded[:0], run the loop from `first`. -/
def dlpDecodeLayers (useV3 : Bool) (st : DlpState) (first : Nat) (data : GSlice) : Res (DlpState × Nat) :=
  dlpLoop useV3 (data.len + 1) { st with decoded := [], trunc := false } first data

end Gp.Igmp
