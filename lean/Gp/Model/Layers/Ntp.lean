import Gp.Go.Basic
import Gp.Model.SBuf
import Gp.Gen.Ntp
/-
  Model of /repo/layers/ntp.go and /repo/layers/vrrp.go (engine `lntp`):

    NTP.DecodeFromBytes,    NTP.SerializeTo, NTP.CanDecode, NTP.NextLayerType, NTP.Payload, decodeNTP
    VRRPv2.DecodeFromBytes, VRRPv2.CanDecode, VRRPv2.NextLayerType, VRRPv2.Payload, decodeVRRP
      (VRRPv2 has no SerializeTo), VRRPv2Type.String, VRRPv2AuthType.String
    + base.go decodingLayerDecoder / BaseLayer.LayerPayload, and the DecodingLayerParser loop
      (layers_decoder.go / parser.go) restricted to these two layers.

  `decodeVRRP` is modelled WITH proposed_fixes/lntp-1 (the duplicated length check, which returned
  the error without `SetTruncated`, is gone: the function is `decodingLayerDecoder(&VRRPv2{}, …)`).

  Conventions (DESIGN §3): a Go panic is `Res.panic`; a Go `[]byte` is its visible bytes plus the
  *foreign* bytes between len and cap (`GSlice`): `s[a:b]` panics iff ¬(a ≤ b ∧ b ≤ cap), `s[i]`
  panics iff i ≥ len.  Unsigned sized integers are `Nat` with an explicit `%` wherever Go
  truncates; the two `int8` fields (Poll, Precision) are `Int` with explicit conversions.
  A Go `error` return is a *value* (`err := true`) so that what the call did to the receiver and to
  the DecodeFeedback before returning the error stays visible (VRRPv2 has three error returns that
  leave the receiver partly overwritten).  Every assignment of the Go source appears, in source
  order.  Core Lean only.
-/
namespace Gp.Ntp
open Gp Gp.SBuf Gp.Gen.Ntp

/-! ## Go slices with capacity -/

/-- A Go `[]byte`: `vis` = the `len` visible bytes, `tail` = the bytes of the backing array between
    `len` and `cap` (cap = len on the copying decode path; larger under NoCopy / Pool, where the
    tail is whatever the caller's buffer / the pool block holds there). -/
structure GSlice where
  vis  : Bytes
  tail : Bytes
  deriving Repr, DecidableEq

namespace GSlice
def len (s : GSlice) : Nat := s.vis.length
def cap (s : GSlice) : Nat := s.vis.length + s.tail.length
/-- Go `s[a:b]`: the upper bound is checked against the CAPACITY. -/
def slice (s : GSlice) (a b : Nat) : Res GSlice :=
  if a ≤ b ∧ b ≤ s.cap then
    .ok { vis := ((s.vis ++ s.tail).drop a).take (b - a), tail := (s.vis ++ s.tail).drop b }
  else .panic .slice
/-- Go `s[a:]` (= `s[a:len(s)]`): panics iff a > len. -/
def sliceFrom (s : GSlice) (a : Nat) : Res GSlice :=
  if a ≤ s.len then .ok { vis := s.vis.drop a, tail := s.tail } else .panic .slice
/-- Go `s[i]`: the bound is the LENGTH. -/
def index (s : GSlice) (i : Nat) : Res UInt8 := Gp.index s.vis i
end GSlice

/-- encoding/binary `BigEndian.Uint16(b)`: `_ = b[1]` (early bounds check), then b[1] | b[0]<<8. -/
def uint16 (s : GSlice) : Res Nat := do
  let b1 ← s.index 1
  let b0 ← s.index 0
  pure (be16 b0 b1)

/-- `BigEndian.Uint32(b)`: `_ = b[3]`, then b[3] | b[2]<<8 | b[1]<<16 | b[0]<<24. -/
def uint32be (s : GSlice) : Res Nat := do
  let b3 ← s.index 3
  let b2 ← s.index 2
  let b1 ← s.index 1
  let b0 ← s.index 0
  pure (be32 b0 b1 b2 b3)

/-- The 64-bit big-endian value of eight bytes. -/
def be64 (a b c d e f g h : UInt8) : Nat := be32 a b c d * 4294967296 + be32 e f g h

/-- `BigEndian.Uint64(b)`: `_ = b[7]`, then b[7] | b[6]<<8 | … | b[0]<<56. -/
def uint64be (s : GSlice) : Res Nat := do
  let b7 ← s.index 7
  let b6 ← s.index 6
  let b5 ← s.index 5
  let b4 ← s.index 4
  let b3 ← s.index 3
  let b2 ← s.index 2
  let b1 ← s.index 1
  let b0 ← s.index 0
  pure (be64 b0 b1 b2 b3 b4 b5 b6 b7)

/-- The eight bytes `BigEndian.PutUint64` stores. -/
def putBe64 (n : Nat) : Bytes := putBe32 (n / 4294967296) ++ putBe32 n

/-- Go conversion `int8(b)` of a byte (NTPLog2Seconds(data[i])). -/
def int8OfByte (b : UInt8) : Int := if b.toNat < 128 then (b.toNat : Int) else (b.toNat : Int) - 256

/-- Go conversion `byte(x)` of an `int8` (two's complement; total on every `Int`). -/
def byteOfInt8 (x : Int) : UInt8 := u8 (x % 256).toNat

/-! ## Layer-type numbers (layertypes.go RegisterLayerType ids; tied by the correspondence ops
    `pb`/`dlp`, which print them) -/

def LayerTypeZero : Nat := 0
def LayerTypeNTP : Nat := 117
def LayerTypeVRRP : Nat := 119

/-- What one DecodeFromBytes call did: the receiver afterwards, whether it called
    `df.SetTruncated()`, and whether it returned a non-nil error. -/
structure DecOut (L : Type) where
  layer : L
  trunc : Bool
  err   : Bool
  deriving Repr, DecidableEq

/-! ## NTP -/

/-- layers.NTP: BaseLayer{Contents, Payload}, LeapIndicator/Version/Mode/Stratum (uint8),
    Poll/Precision (int8), RootDelay/RootDispersion/ReferenceID (uint32), four 64-bit timestamps,
    ExtensionBytes. -/
structure NTP where
  contents           : Bytes
  payload            : Bytes
  leapIndicator      : Nat
  version            : Nat
  mode               : Nat
  stratum            : Nat
  poll               : Int
  precision          : Int
  rootDelay          : Nat
  rootDispersion     : Nat
  referenceID        : Nat
  referenceTimestamp : Nat
  originTimestamp    : Nat
  receiveTimestamp   : Nat
  transmitTimestamp  : Nat
  extensionBytes     : Bytes
  deriving Repr, DecidableEq

/-- `&NTP{}`. -/
def NTP.fresh : NTP :=
  { contents := [], payload := [], leapIndicator := 0, version := 0, mode := 0, stratum := 0,
    poll := 0, precision := 0, rootDelay := 0, rootDispersion := 0, referenceID := 0,
    referenceTimestamp := 0, originTimestamp := 0, receiveTimestamp := 0, transmitTimestamp := 0,
    extensionBytes := [] }

/-- ntp.go:294-347 `(*NTP).DecodeFromBytes`.  `old` is the receiver before the call.
    `ntpMinimumRecordSizeInBytes` is the constant REGENERATED from the source.  Behind the length
    check the method is straight-line code without a return: the reads (each with its Go bounds
    check) are listed in source order, then all assignments to the receiver — `d.BaseLayer = …`
    and one per public field — are applied to `old` in one update (no statement can observe an
    intermediate receiver; every field of the struct is assigned). -/
def NTP.decodeFromBytes (old : NTP) (data : GSlice) : Res (DecOut NTP) :=
  if data.len < ntpMinimumRecordSizeInBytes then
    .ok { layer := old, trunc := true, err := true }             -- df.SetTruncated(); "NTP packet too short"
  else do
    let c ← data.slice 0 data.len                                 -- data[:len(data)]
    let f ← data.index 0                                          -- f := data[0]
    let b1 ← data.index 1                                         -- data[1]
    let b2 ← data.index 2                                         -- data[2]
    let b3 ← data.index 3                                         -- data[3]
    let s ← data.slice 4 8
    let rootDelay ← uint32be s                                    -- binary.BigEndian.Uint32(data[4:8])
    let s ← data.slice 8 12
    let rootDispersion ← uint32be s                               -- …Uint32(data[8:12])
    let s ← data.slice 12 16
    let referenceID ← uint32be s                                  -- …Uint32(data[12:16])
    let s ← data.slice 16 24
    let referenceTimestamp ← uint64be s                           -- …Uint64(data[16:24])
    let s ← data.slice 24 32
    let originTimestamp ← uint64be s                              -- …Uint64(data[24:32])
    let s ← data.slice 32 40
    let receiveTimestamp ← uint64be s                             -- …Uint64(data[32:40])
    let s ← data.slice 40 48
    let transmitTimestamp ← uint64be s                            -- …Uint64(data[40:48])
    let e ← data.sliceFrom 48                                     -- data[48:]
    pure { layer :=
             { old with
               contents := c.vis, payload := [],                  -- d.BaseLayer = BaseLayer{Contents: data[:len(data)]}
               leapIndicator := (f.toNat &&& 0xC0) >>> 6,         -- d.LeapIndicator = NTPLeapIndicator((f & 0xC0) >> 6)
               version := (f.toNat &&& 0x38) >>> 3,               -- d.Version = NTPVersion((f & 0x38) >> 3)
               mode := f.toNat &&& 0x07,                          -- d.Mode = NTPMode(f & 0x07)
               stratum := b1.toNat,                               -- d.Stratum = NTPStratum(data[1])
               poll := int8OfByte b2,                             -- d.Poll = NTPLog2Seconds(data[2])
               precision := int8OfByte b3,                        -- d.Precision = NTPLog2Seconds(data[3])
               rootDelay := rootDelay,                            -- d.RootDelay = NTPFixed16Seconds(…)
               rootDispersion := rootDispersion,                  -- d.RootDispersion = NTPFixed16Seconds(…)
               referenceID := referenceID,                        -- d.ReferenceID = NTPReferenceID(…)
               referenceTimestamp := referenceTimestamp,          -- d.ReferenceTimestamp = NTPTimestamp(…)
               originTimestamp := originTimestamp,                -- d.OriginTimestamp = NTPTimestamp(…)
               receiveTimestamp := receiveTimestamp,              -- d.ReceiveTimestamp = NTPTimestamp(…)
               transmitTimestamp := transmitTimestamp,            -- d.TransmitTimestamp = NTPTimestamp(…)
               extensionBytes := e.vis },                         -- d.ExtensionBytes = data[48:]
           trunc := false, err := false }

/-- The view asked for by the engine brief: success carries the layer and its truncation
    contribution; an error return is `.err`.  `cap = |data| + |foreign|`. -/
def decodeNtp (old : NTP) (data : Bytes) (foreign : Bytes) : Res (NTP × Bool) :=
  match old.decodeFromBytes { vis := data, tail := foreign } with
  | .ok o => if o.err then .err "ntp" else .ok (o.layer, o.trunc)
  | .err k => .err k
  | .panic k => .panic k

/-- ntp.go:391 CanDecode. -/
def NTP.canDecode : Nat := LayerTypeNTP
/-- ntp.go:400 NextLayerType = gopacket.LayerTypeZero. -/
def NTP.nextLayerType (_ : NTP) : Nat := LayerTypeZero
/-- base.go `(*BaseLayer).LayerPayload` (NTP does not override it). -/
def NTP.layerPayload (l : NTP) : Bytes := l.payload
/-- ntp.go:409 `(*NTP).Payload()` (the ApplicationLayer method) returns nil. -/
def NTP.appPayload (_ : NTP) : Bytes := []

/-! ## VRRPv2 -/

/-- layers.VRRPv2: BaseLayer, Version, Type, VirtualRtrID, Priority, CountIPAddr, AuthType, AdverInt
    (uint8), Checksum (uint16), IPAddress ([]net.IP: each entry a 4-byte sub-slice of the input). -/
structure VRRP where
  contents     : Bytes
  payload      : Bytes
  version      : Nat
  type         : Nat
  virtualRtrID : Nat
  priority     : Nat
  countIPAddr  : Nat
  authType     : Nat
  adverInt     : Nat
  checksum     : Nat
  ipAddress    : List Bytes
  deriving Repr, DecidableEq

def VRRP.fresh : VRRP :=
  { contents := [], payload := [], version := 0, type := 0, virtualRtrID := 0, priority := 0,
    countIPAddr := 0, authType := 0, adverInt := 0, checksum := 0, ipAddress := [] }

/-- vrrp.go:129-132: `for i := uint8(0); i < v.CountIPAddr; i++ { v.IPAddress = append(v.IPAddress,
    data[offset:offset+4]); offset += 4 }`.  `n` = iterations still to run (CountIPAddr - i; the
    counter is a uint8 and CountIPAddr ≤ 255, so `i++` cannot wrap before the loop ends). -/
def vrrpAddrLoop (data : GSlice) : Nat → Nat → List Bytes → Res (List Bytes)
  | 0, _, acc => .ok acc
  | n + 1, offset, acc => do
    let s ← data.slice offset (offset + 4)                        -- data[offset:offset+4]
    vrrpAddrLoop data n (offset + 4) (acc ++ [s.vis])

/-- vrrp.go:93-142 `(*VRRPv2).DecodeFromBytes`.  The three later error returns happen after part of
    the receiver has been overwritten. -/
def VRRP.decodeFromBytes (old : VRRP) (data : GSlice) : Res (DecOut VRRP) :=
  if data.len < 8 then
    .ok { layer := old, trunc := true, err := true }              -- df.SetTruncated(); "Not a valid VRRP packet…"
  else do
    let c ← data.slice 0 data.len
    let l := { old with contents := c.vis, payload := [] }        -- v.BaseLayer = BaseLayer{Contents: data[:len(data)]}
    let b ← data.index 0
    let l := { l with version := b.toNat >>> 4 }                  -- v.Version = data[0] >> 4
    let b ← data.index 0
    let l := { l with type := b.toNat &&& 0x0F }                  -- v.Type = VRRPv2Type(data[0] & 0x0F)
    if l.type ≠ 1 then
      pure { layer := l, trunc := false, err := true }            -- "Unrecognized VRRPv2 type field."
    else do
    let b ← data.index 1
    let l := { l with virtualRtrID := b.toNat }                   -- v.VirtualRtrID = data[1]
    let b ← data.index 2
    let l := { l with priority := b.toNat }                       -- v.Priority = data[2]
    let b ← data.index 3
    let l := { l with countIPAddr := b.toNat }                    -- v.CountIPAddr = data[3]
    if l.countIPAddr < 1 then
      pure { layer := l, trunc := false, err := true }            -- "VRRPv2 number of IP addresses is not valid."
    else do
    let addressEnd := 8 + 4 * l.countIPAddr                       -- addressEnd := 8 + 4*int(v.CountIPAddr)
    if data.len < addressEnd then
      pure { layer := l, trunc := true, err := true }             -- df.SetTruncated(); "…too short for IP address count."
    else do
    let b ← data.index 4
    let l := { l with authType := b.toNat }                       -- v.AuthType = VRRPv2AuthType(data[4])
    let b ← data.index 5
    let l := { l with adverInt := b.toNat }                       -- v.AdverInt = uint8(data[5])
    let s ← data.slice 6 8
    let v ← uint16 s
    let l := { l with checksum := v }                             -- v.Checksum = …Uint16(data[6:8])
    let l := { l with ipAddress := [] }                           -- v.IPAddress = nil
    let addrs ← vrrpAddrLoop data l.countIPAddr 8 l.ipAddress     -- the loop (offset := 8)
    let l := { l with ipAddress := addrs }
    pure { layer := l, trunc := false, err := false }

def decodeVrrpView (old : VRRP) (data : Bytes) (foreign : Bytes) : Res (VRRP × Bool) :=
  match old.decodeFromBytes { vis := data, tail := foreign } with
  | .ok o => if o.err then .err "vrrp" else .ok (o.layer, o.trunc)
  | .err k => .err k
  | .panic k => .panic k

/-- vrrp.go:145 CanDecode. -/
def VRRP.canDecode : Nat := LayerTypeVRRP
/-- vrrp.go:150 NextLayerType = gopacket.LayerTypeZero. -/
def VRRP.nextLayerType (_ : VRRP) : Nat := LayerTypeZero
def VRRP.layerPayload (l : VRRP) : Bytes := l.payload
/-- vrrp.go:155 `(*VRRPv2).Payload()` returns nil. -/
def VRRP.appPayload (_ : VRRP) : Bytes := []

/-- vrrp.go:48-55 `VRRPv2Type.String()` over the REGENERATED constant: 1 = "VRRPv2 Advertisement",
    0 = "" (every other value). -/
def vrrpTypeString (v : Nat) : Nat := if v = vrrpv2Advertisement then 1 else 0

/-- vrrp.go:63-74 `VRRPv2AuthType.String()`: 1 = "No Authentication", 2 = "Reserved", 0 = "". -/
def vrrpAuthTypeString (v : Nat) : Nat :=
  if v = vrrpv2AuthNoAuth then 1
  else if v = vrrpv2AuthReserved1 then 2
  else if v = vrrpv2AuthReserved2 then 2
  else 0

/-! ## The decoder functions registered for NewPacket, as behaviour descriptions -/

/-- A call on the PacketBuilder. -/
inductive Act where
  | setTruncated
  | addLayer (t : Nat)
  | setApplicationLayer (t : Nat)
  deriving Repr, DecidableEq

/-- How a decoder function ends. -/
inductive Tail where
  | done                          -- return nil
  | fail                          -- return err
  | nextLayerType (t : Nat)       -- return p.NextDecoder(LayerType(t))
  deriving Repr, DecidableEq

structure Beh where
  acts : List Act
  tail : Tail
  deriving Repr, DecidableEq

/-- base.go:39-50 `decodingLayerDecoder(d, data, p)` after `d.DecodeFromBytes(data, p)` returned `o`
    for a layer of type `typ` whose NextLayerType is `next`: no Set*Layer call is made. -/
def decodingLayerDecoder {L : Type} (o : DecOut L) (typ next : Nat) : Beh × Option L :=
  let tr := if o.trunc then [Act.setTruncated] else []
  if o.err then ({ acts := tr, tail := .fail }, none)
  else if next = LayerTypeZero then ({ acts := tr ++ [.addLayer typ], tail := .done }, some o.layer)
  else ({ acts := tr ++ [.addLayer typ], tail := .nextLayerType next }, some o.layer)

/-- ntp.go:269-286 `decodeNTP`: `d := &NTP{}; err := d.DecodeFromBytes(data, p)`; on success
    `p.AddLayer(d); p.SetApplicationLayer(d); return nil` (no NextDecoder). -/
def decodeNTPFn (data : GSlice) : Res (Beh × Option NTP) := do
  let o ← NTP.fresh.decodeFromBytes data
  let tr := if o.trunc then [Act.setTruncated] else []
  if o.err then pure ({ acts := tr, tail := .fail }, none)
  else pure ({ acts := tr ++ [.addLayer LayerTypeNTP, .setApplicationLayer LayerTypeNTP], tail := .done },
             some o.layer)

/-- vrrp.go:160-163 `decodeVRRP` (with proposed_fixes/lntp-1) = `decodingLayerDecoder(&VRRPv2{}, data, p)`. -/
def decodeVRRPFn (data : GSlice) : Res (Beh × Option VRRP) := do
  let o ← VRRP.fresh.decodeFromBytes data
  pure (decodingLayerDecoder o LayerTypeVRRP o.layer.nextLayerType)

/-! ## Serialization (NTP only), written over the C18 buffer model -/

/-- `w[a:b]` on a slice handed out by the buffer.  Go checks `b` against cap(w) ≥ len(w); the model
    checks against len(w) (at least as strict: a model panic here would over-approximate, and is
    proved unreachable). -/
def winSlice (w : Win) (a b : Nat) : Res Win :=
  if a ≤ b ∧ b ≤ w.n then .ok { gen := w.gen, off := w.off + a, n := b - a } else .panic .slice

/-- Go `copy(w, src)`: copies `min(len(w), len(src))` bytes, never panics. -/
def copyTo (b : SBuf) (w : Win) (src : Bytes) : SBuf := fill b w (src.take w.n)

/-- `binary.BigEndian.PutUint32(w, v)`: `_ = b[3]` then four stores. -/
def putUint32be (b : SBuf) (w : Win) (v : Nat) : Res SBuf :=
  if w.n < 4 then .panic .index else .ok (fill b w (putBe32 v))

/-- `binary.BigEndian.PutUint64(w, v)`: `_ = b[7]` then eight stores. -/
def putUint64be (b : SBuf) (w : Win) (v : Nat) : Res SBuf :=
  if w.n < 8 then .panic .index else .ok (fill b w (putBe64 v))

/-- What one SerializeTo call did: the buffer and the receiver afterwards, and whether it returned a
    non-nil error. -/
structure SerOut (L : Type) where
  buf   : SBuf
  layer : L
  err   : Bool
  deriving Repr, DecidableEq

/-- ntp.go:359-362: `h := uint8(0); h |= (uint8(d.LeapIndicator) << 6) & 0xC0;
    h |= (uint8(d.Version) << 3) & 0x38; h |= (uint8(d.Mode)) & 0x07`. -/
def ntpFirstByte (l : NTP) : Nat :=
  ((((l.leapIndicator % 256) <<< 6) % 256) &&& 0xC0) |||
  ((((l.version % 256) <<< 3) % 256) &&& 0x38) |||
  ((l.mode % 256) &&& 0x07)

/-- ntp.go:359-375: the stores into the 48 bytes handed out by PrependBytes. -/
def ntpHeaderStores (l : NTP) (b : SBuf) (data : Win) : Res SBuf := do
  let b ← write b data 0 (u8 (ntpFirstByte l))                    -- data[0] = byte(h)
  let b ← write b data 1 (u8 l.stratum)                           -- data[1] = byte(d.Stratum)
  let b ← write b data 2 (byteOfInt8 l.poll)                      -- data[2] = byte(d.Poll)
  let b ← write b data 3 (byteOfInt8 l.precision)                 -- data[3] = byte(d.Precision)
  let w ← winSlice data 4 8
  let b ← putUint32be b w l.rootDelay                             -- PutUint32(data[4:8], uint32(d.RootDelay))
  let w ← winSlice data 8 12
  let b ← putUint32be b w l.rootDispersion                        -- PutUint32(data[8:12], uint32(d.RootDispersion))
  let w ← winSlice data 12 16
  let b ← putUint32be b w l.referenceID                           -- PutUint32(data[12:16], uint32(d.ReferenceID))
  let w ← winSlice data 16 24
  let b ← putUint64be b w l.referenceTimestamp                    -- PutUint64(data[16:24], uint64(d.ReferenceTimestamp))
  let w ← winSlice data 24 32
  let b ← putUint64be b w l.originTimestamp                       -- PutUint64(data[24:32], uint64(d.OriginTimestamp))
  let w ← winSlice data 32 40
  let b ← putUint64be b w l.receiveTimestamp                      -- PutUint64(data[32:40], uint64(d.ReceiveTimestamp))
  let w ← winSlice data 40 48
  putUint64be b w l.transmitTimestamp                             -- PutUint64(data[40:48], uint64(d.TransmitTimestamp))

/-- ntp.go:352-384 `(*NTP).SerializeTo`: PrependBytes(48), the header stores, then
    `ex, err := b.AppendBytes(len(d.ExtensionBytes)); copy(ex, d.ExtensionBytes)` — the extension
    bytes go BEHIND whatever the buffer already held.  The options are not consulted; the receiver
    is not modified.  (`PrependBytes`/`AppendBytes` of the default buffer never return an error.) -/
def NTP.serializeTo (l : NTP) (b : SBuf) (_fix _csum : Bool) : Res (SerOut NTP) := do
  let (b, data) := prepend b ntpMinimumRecordSizeInBytes          -- data, err := b.PrependBytes(ntpMinimumRecordSizeInBytes)
  let b ← ntpHeaderStores l b data
  let (b, ex) := append b l.extensionBytes.length                 -- ex, err := b.AppendBytes(len(d.ExtensionBytes))
  let b := copyTo b ex l.extensionBytes                           -- copy(ex, d.ExtensionBytes)
  pure { buf := b, layer := l, err := false }

/-- View asked for by the brief: `.err` when SerializeTo returned an error. -/
def serializeNtp (l : NTP) (b : SBuf) (fix csum : Bool) : Res (SBuf × NTP) :=
  match l.serializeTo b fix csum with
  | .ok o => if o.err then .err "ntp" else .ok (o.buf, o.layer)
  | .err k => .err k
  | .panic k => .panic k

/-- gopacket.Payload.SerializeTo: PrependBytes(len(p)); copy. -/
def serializePayload (p : Bytes) (b : SBuf) : SBuf :=
  let (b, w) := prepend b p.length
  copyTo b w p

/-! ## DecodingLayerParser over {NTP, VRRPv2} (layers_decoder.go loop) -/

structure DlpState where
  ntp     : NTP
  vrrp    : VRRP
  decoded : List Nat
  trunc   : Bool
  deriving Repr, DecidableEq

/-- One run of the LayersDecoder loop followed by the tail of DecodeLayers.  `typ` is the type about
    to be decoded.  Result code: 0 = `nil`, 1 = the error of a DecodeFromBytes, 2 =
    `UnsupportedLayerType(typ)` (type outside the set and ≠ LayerTypeZero).  Both layers hand on an
    empty LayerPayload, so the loop body runs once (`dlpLoop_once`); the fuel is `|data| + 1`. -/
def dlpLoop : Nat → DlpState → Nat → GSlice → Res (DlpState × Nat)
  | 0, st, _, _ => .ok (st, 0)
  | fuel + 1, st, typ, data =>
    if typ = LayerTypeNTP then
      match st.ntp.decodeFromBytes data with
      | .panic k => .panic k
      | .err k => .err k
      | .ok o =>
        let st := { st with ntp := o.layer, trunc := st.trunc || o.trunc }
        if o.err then .ok (st, 1) else
        let st := { st with decoded := st.decoded ++ [typ] }
        let rest : GSlice := { vis := o.layer.layerPayload, tail := data.tail }
        if rest.len = 0 then .ok (st, 0) else dlpLoop fuel st o.layer.nextLayerType rest
    else if typ = LayerTypeVRRP then
      match st.vrrp.decodeFromBytes data with
      | .panic k => .panic k
      | .err k => .err k
      | .ok o =>
        let st := { st with vrrp := o.layer, trunc := st.trunc || o.trunc }
        if o.err then .ok (st, 1) else
        let st := { st with decoded := st.decoded ++ [typ] }
        let rest : GSlice := { vis := o.layer.layerPayload, tail := data.tail }
        if rest.len = 0 then .ok (st, 0) else dlpLoop fuel st o.layer.nextLayerType rest
    else if typ = LayerTypeZero then .ok (st, 0) else .ok (st, 2)

/-- parser.go DecodeLayers: Truncated := false, decoded := decoded[:0], run the loop from `first`. -/
def dlpDecodeLayers (ntp : NTP) (vrrp : VRRP) (first : Nat) (data : GSlice) : Res (DlpState × Nat) :=
  dlpLoop (data.len + 1) { ntp := ntp, vrrp := vrrp, decoded := [], trunc := false } first data

end Gp.Ntp
