import Gp.Go.Basic
import Gp.Model.SBuf
import Gp.Model.Checksum
import Gp.Gen.Ip4
import Gp.Model.Flow
/-
  Executable model of layers/ip4.go (engine `lip4`): IPv4.DecodeFromBytes, SerializeTo
  (+ getIPv4OptionSize, flagsfrags, AddressTo4/checkIPv4Address), NextLayerType, decodeIPv4,
  NetworkFlow, VerifyChecksum.  Core Lean only.

  The model follows the source of the tree under check *with the five proposed fixes
  lip4-1 … lip4-5 applied* (proposed_fixes/lip4-*.diff):
    1. DecodeFromBytes resets Padding           (C05 stale state)
    2. SerializeTo clears the option area       (C07 dirty buffer / C06)
    3. option size computed in int, > 40 → err  (C07 panic on uint8 wrap)
    4. SerializeTo writes the Padding field     (C06 round trip of decoded layers)
    5. option length checks before the stores   (C07 panic: option shorter than 2 octets)
  The behaviour of the UNPATCHED code is kept as `Orig.*` (same transcription, without the
  fixes) so that the defects are machine-checked counterexamples (Props/C05, C06, C07).

  Integers: sized unsigned Go integers are `Nat` with an explicit `% 2^N` wherever the Go
  operation can wrap (DESIGN §3.3).  Masks/shifts by constants are written `% 2^k`, `/ 2^k`,
  `* 2^k`.  Go slices carry their capacity (`Sl`): an index panics iff `i ≥ len`, a slice
  expression panics iff `¬(a ≤ b ∧ b ≤ cap)`.
-/
namespace Gp.Ip4
open Gp

/-! ## Go slices with capacity -/

/-- A Go `[]byte`: `arr` are the bytes from the slice's first element up to the END OF ITS
    CAPACITY (so `cap = arr.length`), `len` its length.  Bytes beyond `len` are whatever the
    underlying array holds ("foreign" bytes under NoCopy/Pool, stale bytes in a serialize
    buffer). -/
structure Sl where
  arr : Bytes
  len : Nat
  deriving Repr, DecidableEq

namespace Sl
/-- The elements of the slice. -/
def bytes (s : Sl) : Bytes := s.arr.take s.len
/-- `s[i]` -/
def idx (s : Sl) (i : Nat) : Res UInt8 :=
  if i < s.len then
    match s.arr[i]? with
    | some b => .ok b
    | none => .panic .index
  else .panic .index
/-- `s[a:b]` (bounds are checked against the capacity) -/
def slice (s : Sl) (a b : Nat) : Res Sl :=
  if a ≤ b ∧ b ≤ s.arr.length then .ok ⟨s.arr.drop a, b - a⟩ else .panic .slice
/-- `s[a:]` -/
def sliceFrom (s : Sl) (a : Nat) : Res Sl := s.slice a s.len
/-- `s[:b]` -/
def sliceTo (s : Sl) (b : Nat) : Res Sl := s.slice 0 b
/-- `binary.BigEndian.Uint16(s)` (`_ = s[1]` bounds check first). -/
def be16 (s : Sl) : Res Nat := do
  let b ← s.idx 1
  let a ← s.idx 0
  pure (Gp.be16 a b)
/-- `s[i] = v` -/
def set (s : Sl) (i : Nat) (v : UInt8) : Res Sl :=
  if i < s.len then .ok { s with arr := s.arr.set i v } else .panic .index
/-- overwrite `vs` at offset `o` of the underlying array (caller has checked the bounds) -/
def splice (arr : Bytes) (o : Nat) (vs : Bytes) : Bytes :=
  arr.take o ++ vs ++ arr.drop (o + vs.length)
/-- `binary.BigEndian.PutUint16(s[o:], v)`: slice expression, `_ = b[1]`, two stores. -/
def putBe16 (s : Sl) (o : Nat) (v : Nat) : Res Sl :=
  if o ≤ s.len then
    if 1 < s.len - o then .ok { s with arr := splice s.arr o (Gp.putBe16 v) } else .panic .index
  else .panic .slice
/-- `copy(s[a:b], src)`: the slice expression is checked against the capacity; `copy` moves
    `min(b-a, len(src))` bytes. -/
def copyAt (s : Sl) (a b : Nat) (src : Bytes) : Res Sl :=
  if a ≤ b ∧ b ≤ s.arr.length then .ok { s with arr := splice s.arr a (src.take (b - a)) }
  else .panic .slice
/-- `copy(s[a:], src)` -/
def copyFrom (s : Sl) (a : Nat) (src : Bytes) : Res Sl := s.copyAt a s.len src
/-- `clear(s[a:])` -/
def clearFrom (s : Sl) (a : Nat) : Res Sl :=
  if a ≤ s.len then .ok { s with arr := splice s.arr a (List.replicate (s.len - a) 0) }
  else .panic .slice
end Sl

/-! ## The layer -/

/-- layers.IPv4Option -/
structure Opt where
  typ  : Nat      -- OptionType   uint8
  len  : Nat      -- OptionLength uint8
  data : Bytes    -- OptionData
  deriving Repr, DecidableEq

/-- layers.IPv4 (BaseLayer.Contents/Payload + every public field).  nil and empty slices
    are not distinguished (no modelled code does). -/
structure Layer where
  contents   : Bytes := []
  payload    : Bytes := []
  version    : Nat := 0     -- uint8
  ihl        : Nat := 0     -- uint8
  tos        : Nat := 0     -- uint8
  length     : Nat := 0     -- uint16
  id         : Nat := 0     -- uint16
  flags      : Nat := 0     -- IPv4Flag uint8
  fragOffset : Nat := 0     -- uint16
  ttl        : Nat := 0     -- uint8
  protocol   : Nat := 0     -- IPProtocol uint8
  checksum   : Nat := 0     -- uint16
  srcIP      : Bytes := []
  dstIP      : Bytes := []
  options    : List Opt := []
  padding    : Bytes := []
  deriving Repr, DecidableEq

/-- `&IPv4{}` -/
def fresh : Layer := {}

/-- Result of one DecodeFromBytes call: the layer object afterwards (also on error — decodeIPv4
    adds it to the packet in both cases), whether THIS call invoked `df.SetTruncated()`, and
    whether it returned an error. -/
structure DecOut where
  layer : Layer
  trunc : Bool
  err   : Bool
  deriving Repr, DecidableEq

/-! ## DecodeFromBytes -/

/-- State of the `pullOutOptions` loop when it stops. -/
structure OptOut where
  opts    : List Opt
  padding : Option Bytes    -- `some` iff `ip.Padding = …` was executed
  trunc   : Bool
  err     : Bool
  deriving Repr, DecidableEq

/-- The `pullOutOptions` loop over `headerOptionsData` (`h`), `acc` = ip.Options so far.
    `fuel` bounds the iterations; every iteration consumes ≥ 1 byte, so `h.len + 1` suffices
    (`.err "fuel"` is proved unreachable). -/
def optLoop : Nat → Sl → List Opt → Res OptOut
  | 0, _, _ => .err "fuel"
  | fuel + 1, h, acc =>
    if h.len = 0 then .ok ⟨acc, none, false, false⟩
    else do
      let t ← h.idx 0                                -- OptionType: headerOptionsData[0]
      if t.toNat = 0 then                            -- case 0: end of options
        let rest ← h.sliceFrom 1                     -- ip.Padding = headerOptionsData[1:]
        let _ ← h.sliceFrom 1                        -- headerOptionsData = headerOptionsData[1:]
        pure ⟨acc ++ [⟨0, 1, []⟩], some rest.bytes, false, false⟩
      else if t.toNat = 1 then                       -- case 1: 1 byte padding
        let rest ← h.sliceFrom 1
        optLoop fuel rest (acc ++ [⟨1, 1, []⟩])
      else
        if h.len < 2 then pure ⟨acc, none, true, true⟩
        else do
          let ol ← h.idx 1                           -- opt.OptionLength = headerOptionsData[1]
          if h.len < ol.toNat then pure ⟨acc, none, true, true⟩
          else if ol.toNat ≤ 2 then pure ⟨acc, none, false, true⟩
          else do
            let d ← h.slice 2 ol.toNat               -- headerOptionsData[2:opt.OptionLength]
            let rest ← h.sliceFrom ol.toNat          -- headerOptionsData[opt.OptionLength:]
            optLoop fuel rest (acc ++ [⟨t.toNat, ol.toNat, d.bytes⟩])

/-- The part of DecodeFromBytes after the length checks: `d` is `data` (possibly re-sliced to
    `ip.Length`), `l1` the layer with Length/IHL already assigned, `trunc` whether
    SetTruncated was already called.  `resetPadding = true` is the tree with fix lip4-1. -/
def decodeBody (resetPadding : Bool) (l1 : Layer) (ihl : Nat) (d : Sl) (trunc : Bool) : Res DecOut := do
  let c ← d.sliceTo ((ihl * 4) % 256)          -- ip.Contents = data[:ip.IHL*4]
  let p ← d.sliceFrom ((ihl * 4) % 256)        -- ip.Payload = data[ip.IHL*4:]
  let l2 := { l1 with options := [], padding := if resetPadding then [] else l1.padding,
                      contents := c.bytes, payload := p.bytes }
  let h ← d.slice 20 ((ihl * 4) % 256)         -- headerOptionsData
  let o ← optLoop (h.len + 1) h []
  let l3 := { l2 with options := o.opts,
                      padding := match o.padding with | some x => x | none => l2.padding }
  if o.err then pure ⟨l3, trunc || o.trunc, true⟩
  else do
    let ff ← (← d.slice 6 8).be16
    let v ← d.idx 0
    let tos ← d.idx 1
    let id ← (← d.slice 4 6).be16
    let ttl ← d.idx 8
    let proto ← d.idx 9
    let ck ← (← d.slice 10 12).be16
    let src ← d.slice 12 16
    let dst ← d.slice 16 20
    pure ⟨{ l3 with version := v.toNat / 16, tos := tos.toNat, id := id,
                    flags := ff / 8192, fragOffset := ff % 8192, ttl := ttl.toNat,
                    protocol := proto.toNat, checksum := ck,
                    srcIP := src.bytes, dstIP := dst.bytes }, trunc || o.trunc, false⟩

/-- IPv4.DecodeFromBytes.  `data` are the `len` bytes of the argument, `foreign` the bytes
    between its length and its capacity; `old` is the receiver before the call. -/
def decodeWith (resetPadding : Bool) (old : Layer) (data foreign : Bytes) : Res DecOut :=
  let d0 : Sl := ⟨data ++ foreign, data.length⟩
  if d0.len < 20 then .ok ⟨old, true, true⟩
  else do
    let lenField ← (← d0.slice 2 4).be16             -- ip.Length = be16(data[2:4])
    let b0 ← d0.idx 0
    let ihl := b0.toNat % 16                         -- uint8(data[0]) & 0x0F
    let length := if lenField = 0 then d0.len % 65536 else lenField
    let l1 := { old with length := length, ihl := ihl }
    if length < 20 then pure ⟨l1, false, true⟩
    else if ihl < 5 then pure ⟨l1, false, true⟩
    else if (ihl * 4) % 256 > length then pure ⟨l1, false, true⟩
    else
      -- cmp := len(data) - int(ip.Length)
      if d0.len > length then do
        let d ← d0.sliceTo length                    -- data = data[:ip.Length]
        decodeBody resetPadding l1 ihl d false
      else if d0.len < length then
        if ihl * 4 > d0.len then pure ⟨l1, true, true⟩
        else decodeBody resetPadding l1 ihl d0 true
      else decodeBody resetPadding l1 ihl d0 false

/-- IPv4.DecodeFromBytes of the (patched) tree.  `data` are the `len` bytes of the argument,
    `foreign` the bytes between its length and its capacity. -/
def decodeIp4 (old : Layer) (data foreign : Bytes) : Res DecOut := decodeWith true old data foreign

/-- The same on the unpatched tree (no Padding reset). -/
def Orig.decodeIp4 (old : Layer) (data foreign : Bytes) : Res DecOut := decodeWith false old data foreign

/-- IPv4.CanDecode / LayerType: the constant LayerTypeIPv4; LayerPayload = `payload`. -/
inductive Next where
  | fragment            -- gopacket.LayerTypeFragment
  | proto (p : Nat)     -- ip.Protocol.LayerType()
  deriving Repr, DecidableEq

/-- IPv4.NextLayerType -/
def nextLayerType (l : Layer) : Next :=
  if (l.flags % 256) &&& Gp.Gen.Ip4.ipv4MoreFragments ≠ 0 ∨ l.fragOffset ≠ 0 then .fragment
  else .proto l.protocol

/-- decodeIPv4 as NewPacket sees it: the layer is added and becomes the network layer in every
    case; on success the next decoder is `NextLayerType()`, on error the error is returned. -/
structure PktStep where
  added      : Layer
  setNetwork : Bool
  trunc      : Bool
  next       : Option Next     -- none = error returned
  deriving Repr, DecidableEq

def decodeIPv4Pkt (data foreign : Bytes) : Res PktStep := do
  let o ← decodeIp4 fresh data foreign
  pure ⟨o.layer, true, o.trunc, if o.err then none else some (nextLayerType o.layer)⟩

/-! ## Flow, checksum verification -/

/-- layers.EndpointIPv4 = gopacket.RegisterEndpointType(1, …) (layers/endpoints.go). -/
def endpointIPv4 : Int := 1

/-- IPv4.NetworkFlow = gopacket.NewFlow(EndpointIPv4, SrcIP, DstIP), over the shared model of
    flows.go (panics above 16 address bytes). -/
def networkFlow (l : Layer) : Res Gp.Flow.Flow := Gp.Flow.newFlow endpointIPv4 l.srcIP l.dstIP

/-- IPv4.VerifyChecksum: (Valid, Correct, Actual). -/
def verifyChecksum (l : Layer) : Bool × Nat × Nat :=
  let existing := l.checksum % 65536
  let verification := Cksum.compute l.contents 0
  let correct := Cksum.fold ((verification + Cksum.W32 - existing) % Cksum.W32)
  (correct == existing, correct, existing)

/-! ## SerializeTo -/

/-- net.IP.To4 / checkIPv4Address: `some` the 4-byte form, `none` = error. -/
def to4 (a : Bytes) : Option Bytes :=
  if a.length = 4 then some a
  else if a.length = 16 ∧ a.take 10 = List.replicate 10 0 ∧ a[10]? = some 255 ∧ a[11]? = some 255 then
    some (a.drop 12)
  else none

/-- Bytes one option occupies according to getIPv4OptionSize. -/
def optSize (o : Opt) : Nat :=
  if o.typ % 256 = 0 then 1 else if o.typ % 256 = 1 then 1 else o.len % 256

def optsSize (os : List Opt) : Nat := (os.map optSize).sum

def align4 (n : Nat) : Nat := if n % 4 ≠ 0 then n + (4 - n % 4) else n

/-- getIPv4OptionSize of the patched tree (`int` arithmetic, Padding included). -/
def optionSize (l : Layer) : Nat := align4 (optsSize l.options + l.padding.length)

/-- getIPv4OptionSize of the unpatched tree: `uint8` arithmetic, Padding ignored. -/
def Orig.optionSize (l : Layer) : Nat :=
  let s := l.options.foldl (fun acc o => (acc + optSize o) % 256) 0
  if s % 4 ≠ 0 then (s + (4 - s % 4)) % 256 else s

/-- ip.flagsfrags(): `uint16(ip.Flags) << 13 | ip.FragOffset`. -/
def flagsfrags (l : Layer) : Nat := ((l.flags % 256) * 8192) % 65536 ||| (l.fragOffset % 65536)

/-- The option-encoding loop of SerializeTo. `cur` = curLocation.  `checkFirst` = fix lip4-5
    (the two length checks precede the stores of the type and length octets). -/
def serOpts (checkFirst : Bool) : List Opt → Sl → Nat → Res (Sl × Nat)
  | [], s, cur => .ok (s, cur)
  | o :: rest, s, cur =>
    if o.typ % 256 = 0 then do
      let s ← s.set cur 0
      serOpts checkFirst rest s (cur + 1)
    else if o.typ % 256 = 1 then do
      let s ← s.set cur 1
      serOpts checkFirst rest s (cur + 1)
    else if checkFirst then
      if o.len % 256 < 2 then .err "optlen<2"
      else if o.data.length > (o.len % 256 - 2) % 256 then .err "optdata"
      else do
        let s ← s.set cur (u8 o.typ)
        let s ← s.set (cur + 1) (u8 o.len)
        let s ← s.copyAt (cur + 2) (cur + o.len % 256) o.data
        serOpts checkFirst rest s (cur + o.len % 256)
    else do
      let s ← s.set cur (u8 o.typ)
      let s ← s.set (cur + 1) (u8 o.len)
      if o.len % 256 < 2 then .err "optlen<2"
      else if o.data.length > (o.len % 256 - 2) % 256 then .err "optdata"
      else do
        let s ← s.copyAt (cur + 2) (cur + o.len % 256) o.data
        serOpts checkFirst rest s (cur + o.len % 256)

structure Variant where
  clearOpts    : Bool   -- fix lip4-2
  intSize      : Bool   -- fix lip4-3
  writePadding : Bool   -- fix lip4-4
  checkFirst   : Bool   -- fix lip4-5
  deriving Repr, DecidableEq

def fixedV : Variant := ⟨true, true, true, true⟩
def origV : Variant := ⟨false, false, false, false⟩

/-- `optionLength := ip.getIPv4OptionSize()` in the variant at hand. -/
def optionLengthOf (v : Variant) (l : Layer) : Nat :=
  if v.intSize then optionSize { l with padding := if v.writePadding then l.padding else [] }
  else Orig.optionSize l

/-- The FixLengths block: `ip.IHL = 5 + optionLength/4; ip.Length = uint16(len(b.Bytes()))`. -/
def fixLen (l : Layer) (optionLength total : Nat) (fix : Bool) : Layer :=
  if fix then { l with ihl := (5 + (optionLength / 4) % 256) % 256, length := total % 65536 } else l

/-- The stores of SerializeTo up to the call of AddressTo4. -/
def serFixed (l1 : Layer) (bytes : Sl) : Res Sl := do
  let s ← bytes.set 0 (u8 (((l1.version % 256) * 16) % 256 ||| (l1.ihl % 256)))
  let s ← s.set 1 (u8 l1.tos)
  let s ← s.putBe16 2 (l1.length % 65536)
  let s ← s.putBe16 4 (l1.id % 65536)
  let s ← s.putBe16 6 (flagsfrags l1)
  let s ← s.set 8 (u8 l1.ttl)
  s.set 9 (u8 l1.protocol)

/-- SerializeTo after a successful AddressTo4 (`l2` has the 4-byte addresses). -/
def serBody (v : Variant) (l2 : Layer) (s : Sl) (csum : Bool) : Res (Sl × Layer) := do
  let s ← s.copyAt 12 16 l2.srcIP
  let s ← s.copyAt 16 20 l2.dstIP
  let s ← if v.clearOpts then s.clearFrom 20 else pure s
  let (s, cur) ← serOpts v.checkFirst l2.options s 20
  let s ← if v.writePadding then s.copyFrom cur l2.padding else pure s
  let (s, l3) ← (if csum then do
      let s ← s.set 10 0
      let s ← s.set 11 0
      let c := Cksum.compute s.bytes 0
      pure (s, { l2 with checksum := Cksum.fold c })
    else pure (s, l2) : Res (Sl × Layer))
  let s ← s.putBe16 10 (l3.checksum % 65536)
  pure (s, l3)

/-- IPv4.SerializeTo over the C18 buffer model.  Returns the buffer and the MUTATED layer
    (IHL/Length under FixLengths, SrcIP/DstIP by AddressTo4, Checksum under ComputeChecksums).
    `bytes` (the slice returned by PrependBytes) aliases the buffer's array from the new start
    to the end of its capacity; all stores go through it and are committed at the end. -/
def serializeWith (v : Variant) (l : Layer) (b : SBuf.SBuf) (fix csum : Bool) : Res (SBuf.SBuf × Layer) :=
  let optionLength := optionLengthOf v l
  if v.intSize ∧ optionLength > 40 then .err "options too long"
  else
    let r := SBuf.prepend b (20 + optionLength)
    let bytes : Sl := ⟨r.1.mem.drop r.2.off, r.2.n⟩
    let l1 := fixLen l optionLength (r.1.len - r.1.start) fix
    do
      let s ← serFixed l1 bytes
      -- AddressTo4
      match to4 l1.srcIP, to4 l1.dstIP with
      | some src, some dst =>
        let (s, l3) ← serBody v { l1 with srcIP := src, dstIP := dst } s csum
        pure ({ r.1 with mem := r.1.mem.take r.2.off ++ s.arr }, l3)
      | _, _ => .err "address"

def serializeIp4 (l : Layer) (b : SBuf.SBuf) (fix csum : Bool) : Res (SBuf.SBuf × Layer) :=
  serializeWith fixedV l b fix csum

def Orig.serializeIp4 (l : Layer) (b : SBuf.SBuf) (fix csum : Bool) : Res (SBuf.SBuf × Layer) :=
  serializeWith origV l b fix csum

end Gp.Ip4
