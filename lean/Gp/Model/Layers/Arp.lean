import Gp.Go.Basic
import Gp.Model.SBuf
import Gp.Gen.Arp
/-
  Model of /repo/layers/arp.go, /repo/layers/loopback.go and /repo/layers/erspan2.go (engine `larp`):

    ARP.DecodeFromBytes,      SerializeTo, CanDecode, NextLayerType, decodeARP
    Loopback.DecodeFromBytes, SerializeTo, CanDecode, NextLayerType, decodeLoopback
    ERSPANII.DecodeFromBytes, SerializeTo, CanDecode, NextLayerType, decodeERSPANII
    + ProtocolFamily.LayerType / ProtocolFamily.Decode (enums_generated.go over the table filled in
      enums.go), decodingLayerDecoder (base.go), and the DecodingLayerParser loop
      (layers_decoder.go / parser.go) restricted to these three layers.

  Conventions (DESIGN §3): a Go panic is `Res.panic`; a Go `[]byte` is its visible bytes plus the
  *foreign* bytes between len and cap (`GSlice`): `s[a:b]` panics iff ¬(a ≤ b ∧ b ≤ cap), `s[i]`
  panics iff i ≥ len.  Sized integers are `Nat` with an explicit `%` wherever Go truncates.
  A Go `error` return is a *value* (`err := true`) so that what the call did to the receiver and
  to the DecodeFeedback/SerializeBuffer before returning the error stays visible (ARP's second
  error path returns with five header fields already overwritten).
  Every assignment of the Go source appears, in source order.  Core Lean only.
-/
namespace Gp.Arp
open Gp Gp.SBuf Gp.Gen.Arp

/-! ## Go slices with capacity -/

/-- A Go `[]byte`: `vis` = the `len` visible bytes, `tail` = the bytes of the backing array between
    `len` and `cap` (cap = len on the copying decode path; larger under NoCopy / Pool, where the
    tail is whatever the caller's buffer / the pool block holds there). -/
structure GSlice where
  vis  : Bytes
  tail : Bytes
  deriving Repr, DecidableEq

namespace GSlice
def len (s : GSlice) : Nat := s.vis.length
def cap (s : GSlice) : Nat := s.vis.length + s.tail.length
/-- Go `s[a:b]`: the upper bound is checked against the CAPACITY. -/
def slice (s : GSlice) (a b : Nat) : Res GSlice :=
  if a ≤ b ∧ b ≤ s.cap then
    .ok { vis := ((s.vis ++ s.tail).drop a).take (b - a), tail := (s.vis ++ s.tail).drop b }
  else .panic .slice
/-- Go `s[a:]` (= `s[a:len(s)]`): panics iff a > len. -/
def sliceFrom (s : GSlice) (a : Nat) : Res GSlice :=
  if a ≤ s.len then .ok { vis := s.vis.drop a, tail := s.tail } else .panic .slice
/-- Go `s[i]`: the bound is the LENGTH. -/
def index (s : GSlice) (i : Nat) : Res UInt8 := Gp.index s.vis i
end GSlice

/-- encoding/binary `BigEndian.Uint16(b)`: `_ = b[1]` (early bounds check), then b[0]<<8 | b[1]. -/
def uint16 (s : GSlice) : Res Nat := do
  let b1 ← s.index 1
  let b0 ← s.index 0
  pure (be16 b0 b1)

/-- `BigEndian.Uint32(b)`: `_ = b[3]`, then b[3] | b[2]<<8 | b[1]<<16 | b[0]<<24. -/
def uint32be (s : GSlice) : Res Nat := do
  let b3 ← s.index 3
  let b2 ← s.index 2
  let b1 ← s.index 1
  let b0 ← s.index 0
  pure (be32 b0 b1 b2 b3)

/-- `LittleEndian.Uint32(b)`: `_ = b[3]`, then b[0] | b[1]<<8 | b[2]<<16 | b[3]<<24. -/
def uint32le (s : GSlice) : Res Nat := do
  let b3 ← s.index 3
  let b0 ← s.index 0
  let b1 ← s.index 1
  let b2 ← s.index 2
  pure (be32 b3 b2 b1 b0)

/-! ## Layer-type numbers (layertypes.go / decode.go RegisterLayerType ids) and the ProtocolFamily table -/

def LayerTypeZero : Nat := 0
def LayerTypePayload : Nat := 2
def LayerTypeARP : Nat := 10
def LayerTypeEthernet : Nat := 17
def LayerTypeIPv4 : Nat := 20
def LayerTypeIPv6 : Nat := 21
def LayerTypeLoopback : Nat := 54
def LayerTypeERSPANII : Nat := 145

/-- enums.go `initActualTypeData`: the rows of `ProtocolFamilyMetadata` (ProtocolFamily ↦ LayerType);
    every other of the 256 entries has `DecodeWith == nil`.  The keys are the GENERATED constants;
    the layer-type ids and the set of rows are tied by the exhaustive 256-entry correspondence op
    `larp pftab`. -/
def pfTable : List (Nat × Nat) :=
  [ (protocolFamilyIPv4, LayerTypeIPv4), (protocolFamilyIPv6BSD, LayerTypeIPv6),
    (protocolFamilyIPv6FreeBSD, LayerTypeIPv6), (protocolFamilyIPv6Darwin, LayerTypeIPv6),
    (protocolFamilyIPv6Linux, LayerTypeIPv6) ]

/-- `ProtocolFamilyMetadata[a].DecodeWith != nil` (`ProtocolFamily.Decode` returns an error otherwise). -/
def pfKnown (a : Nat) : Bool := (pfTable.lookup a).isSome

/-- enums_generated.go `ProtocolFamily.LayerType()`: the table entry, 0 when there is no decoder. -/
def pfLayerType (a : Nat) : Nat := (pfTable.lookup a).getD LayerTypeZero

/-- What one DecodeFromBytes call did: the receiver afterwards, whether it called
    `df.SetTruncated()`, and whether it returned a non-nil error. -/
structure DecOut (L : Type) where
  layer : L
  trunc : Bool
  err   : Bool
  deriving Repr, DecidableEq

/-! ## ARP -/

/-- layers.ARP: BaseLayer{Contents, Payload}, AddrType (LinkType, uint16), Protocol (EthernetType,
    uint16), HwAddressSize, ProtAddressSize (uint8), Operation (uint16), four address slices. -/
structure ARP where
  contents          : Bytes
  payload           : Bytes
  addrType          : Nat
  protocol          : Nat
  hwAddressSize     : Nat
  protAddressSize   : Nat
  operation         : Nat
  sourceHwAddress   : Bytes
  sourceProtAddress : Bytes
  dstHwAddress      : Bytes
  dstProtAddress    : Bytes
  deriving Repr, DecidableEq

/-- `&ARP{}`. -/
def ARP.fresh : ARP :=
  { contents := [], payload := [], addrType := 0, protocol := 0, hwAddressSize := 0,
    protAddressSize := 0, operation := 0, sourceHwAddress := [], sourceProtAddress := [],
    dstHwAddress := [], dstProtAddress := [] }

/-- arp.go:42-68 `(*ARP).DecodeFromBytes`, statement by statement.  `old` is the receiver before
    the call.  NOTE the second error return (arp.go:55-58): it happens after AddrType, Protocol,
    HwAddressSize, ProtAddressSize and Operation have been assigned. -/
def ARP.decodeFromBytes (old : ARP) (data : GSlice) : Res (DecOut ARP) :=
  if data.len < 8 then
    .ok { layer := old, trunc := true, err := true }            -- df.SetTruncated(); "ARP length … too short"
  else do
    let s ← data.slice 0 2
    let v ← uint16 s
    let l := { old with addrType := v }                          -- arp.AddrType = LinkType(…Uint16(data[0:2]))
    let s ← data.slice 2 4
    let v ← uint16 s
    let l := { l with protocol := v }                            -- arp.Protocol = EthernetType(…Uint16(data[2:4]))
    let b ← data.index 4
    let l := { l with hwAddressSize := b.toNat }                 -- arp.HwAddressSize = data[4]
    let b ← data.index 5
    let l := { l with protAddressSize := b.toNat }               -- arp.ProtAddressSize = data[5]
    let s ← data.slice 6 8
    let v ← uint16 s
    let l := { l with operation := v }                           -- arp.Operation = …Uint16(data[6:8])
    let hw := l.hwAddressSize                                    -- hwAddressSize := int(arp.HwAddressSize)
    let pr := l.protAddressSize                                  -- protAddressSize := int(arp.ProtAddressSize)
    let arpLength := 8 + 2 * hw + 2 * pr
    if data.len < arpLength then
      pure { layer := l, trunc := true, err := true }            -- df.SetTruncated(); "ARP length … too short, … expected"
    else do
      let s ← data.slice 8 (8 + hw)
      let l := { l with sourceHwAddress := s.vis }               -- arp.SourceHwAddress = data[8 : 8+hw]
      let s ← data.slice (8 + hw) (8 + hw + pr)
      let l := { l with sourceProtAddress := s.vis }             -- arp.SourceProtAddress = data[8+hw : 8+hw+pr]
      let s ← data.slice (8 + hw + pr) (8 + 2 * hw + pr)
      let l := { l with dstHwAddress := s.vis }                  -- arp.DstHwAddress = data[8+hw+pr : 8+2*hw+pr]
      let s ← data.slice (8 + 2 * hw + pr) arpLength
      let l := { l with dstProtAddress := s.vis }                -- arp.DstProtAddress = data[8+2*hw+pr : arpLength]
      let c ← data.slice 0 arpLength
      let l := { l with contents := c.vis }                      -- arp.Contents = data[:arpLength]
      let p ← data.sliceFrom arpLength
      let l := { l with payload := p.vis }                       -- arp.Payload = data[arpLength:]
      pure { layer := l, trunc := false, err := false }

/-- The view asked for by the engine brief: success carries the layer and its truncation
    contribution; an error return is `.err`.  `cap = |data| + |foreign|`. -/
def decodeArp (old : ARP) (data : Bytes) (foreign : Bytes) : Res (ARP × Bool) :=
  match old.decodeFromBytes { vis := data, tail := foreign } with
  | .ok o => if o.err then .err "arp" else .ok (o.layer, o.trunc)
  | .err k => .err k
  | .panic k => .panic k

/-- arp.go:112 CanDecode. -/
def ARP.canDecode : Nat := LayerTypeARP
/-- arp.go:117 NextLayerType = gopacket.LayerTypePayload. -/
def ARP.nextLayerType (_ : ARP) : Nat := LayerTypePayload
/-- base.go LayerPayload. -/
def ARP.layerPayload (l : ARP) : Bytes := l.payload

/-! ## Loopback -/

/-- layers.Loopback: BaseLayer, Family (ProtocolFamily, uint8). -/
structure Loopback where
  contents : Bytes
  payload  : Bytes
  family   : Nat
  deriving Repr, DecidableEq

def Loopback.fresh : Loopback := { contents := [], payload := [], family := 0 }

/-- loopback.go:37-42: `if data[0] == 0 && data[1] == 0 { prot = BigEndian.Uint32(data[:4]) } else
    { prot = LittleEndian.Uint32(data[:4]) }`.  The `&&` is short-circuit: `data[1]` is read only
    when `data[0] == 0`. -/
def loBigEndian (data : GSlice) : Res Bool := do
  let b0 ← data.index 0
  if b0 = 0 then do
    let b1 ← data.index 1
    pure (decide (b1 = 0))
  else pure false

def loReadProt (data : GSlice) : Res Nat := do
  let bigEndian ← loBigEndian data
  let s ← data.slice 0 4
  if bigEndian then uint32be s else uint32le s

/-- loopback.go:29-51 `(*Loopback).DecodeFromBytes`.  Neither error path calls
    `df.SetTruncated()`; the second one evaluates `data[:4]` for the error text. -/
def Loopback.decodeFromBytes (old : Loopback) (data : GSlice) : Res (DecOut Loopback) :=
  if data.len < 4 then
    .ok { layer := old, trunc := false, err := true }           -- "Loopback packet too small"
  else do
    let prot ← loReadProt data                                   -- prot = Big/LittleEndian.Uint32(data[:4])
    if prot > 0xFF then do
      let _ ← data.slice 0 4                                     -- fmt.Errorf("Invalid loopback protocol %q", data[:4])
      pure { layer := old, trunc := false, err := true }
    else do
      let l := { old with family := prot % 256 }                 -- l.Family = ProtocolFamily(prot)
      let c ← data.slice 0 4
      let p ← data.sliceFrom 4
      let l := { l with contents := c.vis, payload := p.vis }    -- l.BaseLayer = BaseLayer{data[:4], data[4:]}
      pure { layer := l, trunc := false, err := false }

def decodeLoopbackView (old : Loopback) (data : Bytes) (foreign : Bytes) : Res (Loopback × Bool) :=
  match old.decodeFromBytes { vis := data, tail := foreign } with
  | .ok o => if o.err then .err "loopback" else .ok (o.layer, o.trunc)
  | .err k => .err k
  | .panic k => .panic k

def Loopback.canDecode : Nat := LayerTypeLoopback
/-- loopback.go:59 NextLayerType = `l.Family.LayerType()`. -/
def Loopback.nextLayerType (l : Loopback) : Nat := pfLayerType l.family
def Loopback.layerPayload (l : Loopback) : Bytes := l.payload

/-! ## ERSPAN type II -/

/-- layers.ERSPANII: BaseLayer, IsTruncated, Version/CoS/TrunkEncap (uint8),
    VLANIdentifier/SessionID/Reserved (uint16), Index (uint32). -/
structure ERSPANII where
  contents    : Bytes
  payload     : Bytes
  isTruncated : Bool
  version     : Nat
  cos         : Nat
  trunkEncap  : Nat
  vlan        : Nat
  sessionID   : Nat
  reserved    : Nat
  index       : Nat
  deriving Repr, DecidableEq

def ERSPANII.fresh : ERSPANII :=
  { contents := [], payload := [], isTruncated := false, version := 0, cos := 0, trunkEncap := 0,
    vlan := 0, sessionID := 0, reserved := 0, index := 0 }

/-- erspan2.go:36-54 `(*ERSPANII).DecodeFromBytes`.  In Go `&` and `>>` have the same precedence and
    associate to the left: `x & m >> k` is `(x & m) >> k`. -/
def ERSPANII.decodeFromBytes (old : ERSPANII) (data : GSlice) : Res (DecOut ERSPANII) :=
  let erspan2Length := 8
  if data.len < erspan2Length then
    .ok { layer := old, trunc := true, err := true }             -- df.SetTruncated(); "ERSPAN II header too short"
  else do
    let b ← data.index 0
    let l := { old with version := (b.toNat &&& 0xF0) >>> 4 }     -- erspan2.Version = data[0] & 0xF0 >> 4
    let s ← data.slice 0 2
    let v ← uint16 s
    let l := { l with vlan := v &&& 0x0FFF }                      -- erspan2.VLANIdentifier = …Uint16(data[:2]) & 0x0FFF
    let b ← data.index 2
    let l := { l with cos := (b.toNat &&& 0xE0) >>> 5 }           -- erspan2.CoS = data[2] & 0xE0 >> 5
    let b ← data.index 2
    let l := { l with trunkEncap := (b.toNat &&& 0x18) >>> 3 }    -- erspan2.TrunkEncap = data[2] & 0x18 >> 3
    let b ← data.index 2
    let l := { l with isTruncated := ((b.toNat &&& 0x4) >>> 2 != 0) }  -- erspan2.IsTruncated = data[2]&0x4>>2 != 0
    let s ← data.slice 2 4
    let v ← uint16 s
    let l := { l with sessionID := v &&& 0x03FF }                 -- erspan2.SessionID = …Uint16(data[2:4]) & 0x03FF
    let s ← data.slice 4 6
    let v ← uint16 s
    let l := { l with reserved := (v &&& 0xFFF0) >>> 4 }          -- erspan2.Reserved = …Uint16(data[4:6]) & 0xFFF0 >> 4
    let s ← data.slice 4 8
    let v ← uint32be s
    let l := { l with index := v &&& 0x000FFFFF }                 -- erspan2.Index = …Uint32(data[4:8]) & 0x000FFFFF
    let c ← data.slice 0 erspan2Length
    let l := { l with contents := c.vis }                         -- erspan2.Contents = data[:erspan2Length]
    let p ← data.sliceFrom erspan2Length
    let l := { l with payload := p.vis }                          -- erspan2.Payload = data[erspan2Length:]
    pure { layer := l, trunc := false, err := false }

def decodeErspan2View (old : ERSPANII) (data : Bytes) (foreign : Bytes) : Res (ERSPANII × Bool) :=
  match old.decodeFromBytes { vis := data, tail := foreign } with
  | .ok o => if o.err then .err "erspan2" else .ok (o.layer, o.trunc)
  | .err k => .err k
  | .panic k => .panic k

def ERSPANII.canDecode : Nat := LayerTypeERSPANII
/-- erspan2.go:86 NextLayerType = LayerTypeEthernet. -/
def ERSPANII.nextLayerType (_ : ERSPANII) : Nat := LayerTypeEthernet
def ERSPANII.layerPayload (l : ERSPANII) : Bytes := l.payload

/-! ## The decoder functions registered for NewPacket, as behaviour descriptions -/

/-- A call on the PacketBuilder. -/
inductive Act where
  | setTruncated
  | addLayer (t : Nat)
  deriving Repr, DecidableEq

/-- How a decoder function ends. -/
inductive Tail where
  | done                          -- return nil
  | fail                          -- return err
  | nextLayerType (t : Nat)       -- return p.NextDecoder(LayerType(t))
  | nextProtocolFamily (f : Nat)  -- return p.NextDecoder(ProtocolFamily(f))
  deriving Repr, DecidableEq

structure Beh where
  acts : List Act
  tail : Tail
  deriving Repr, DecidableEq

/-- base.go:39-50 `decodingLayerDecoder(d, data, p)` after `d.DecodeFromBytes(data, p)` returned `o`
    for a layer of type `typ` whose NextLayerType is `next`: no Set*Layer call is made. -/
def decodingLayerDecoder {L : Type} (o : DecOut L) (typ next : Nat) : Beh × Option L :=
  let tr := if o.trunc then [Act.setTruncated] else []
  if o.err then ({ acts := tr, tail := .fail }, none)
  else if next = LayerTypeZero then ({ acts := tr ++ [.addLayer typ], tail := .done }, some o.layer)
  else ({ acts := tr ++ [.addLayer typ], tail := .nextLayerType next }, some o.layer)

/-- arp.go:120-124 `decodeARP` = `decodingLayerDecoder(&ARP{}, data, p)`. -/
def decodeARPFn (data : GSlice) : Res (Beh × Option ARP) := do
  let o ← ARP.fresh.decodeFromBytes data
  pure (decodingLayerDecoder o LayerTypeARP o.layer.nextLayerType)

/-- erspan2.go:89-92 `decodeERSPANII` = `decodingLayerDecoder(&ERSPANII{}, data, p)`. -/
def decodeERSPANIIFn (data : GSlice) : Res (Beh × Option ERSPANII) := do
  let o ← ERSPANII.fresh.decodeFromBytes data
  pure (decodingLayerDecoder o LayerTypeERSPANII o.layer.nextLayerType)

/-- loopback.go:73-80 `decodeLoopback`: fresh layer, DecodeFromBytes with gopacket.NilDecodeFeedback
    (a SetTruncated would be swallowed — Loopback never calls it), AddLayer, NextDecoder(l.Family). -/
def decodeLoopbackFn (data : GSlice) : Res (Beh × Option Loopback) := do
  let o ← Loopback.fresh.decodeFromBytes data
  if o.err then pure ({ acts := [], tail := .fail }, none)
  else pure ({ acts := [.addLayer LayerTypeLoopback], tail := .nextProtocolFamily o.layer.family }, some o.layer)

/-! ## Serialization, written over the C18 buffer model -/

/-- `w[a:]` on a slice handed out by the buffer. -/
def winFrom (w : Win) (a : Nat) : Res Win :=
  if a ≤ w.n then .ok { gen := w.gen, off := w.off + a, n := w.n - a } else .panic .slice

/-- Go `copy(w, src)`: copies `min(len(w), len(src))` bytes, never panics. -/
def copyTo (b : SBuf) (w : Win) (src : Bytes) : SBuf := fill b w (src.take w.n)

/-- `binary.BigEndian.PutUint16(w, v)`: `_ = b[1]` then two stores. -/
def putUint16 (b : SBuf) (w : Win) (v : Nat) : Res SBuf :=
  if w.n < 2 then .panic .index else .ok (fill b w (putBe16 v))

/-- `binary.BigEndian.PutUint32(w, v)`: `_ = b[3]` then four stores. -/
def putUint32be (b : SBuf) (w : Win) (v : Nat) : Res SBuf :=
  if w.n < 4 then .panic .index else .ok (fill b w (putBe32 v))

/-- `binary.LittleEndian.PutUint32(w, v)`. -/
def putUint32le (b : SBuf) (w : Win) (v : Nat) : Res SBuf :=
  if w.n < 4 then .panic .index else .ok (fill b w (putLe32 v))

/-- What one SerializeTo call did: the buffer and the receiver afterwards (SerializeTo mutates the
    layer under FixLengths), and whether it returned a non-nil error. -/
structure SerOut (L : Type) where
  buf   : SBuf
  layer : L
  err   : Bool
  deriving Repr, DecidableEq

/-- arp.go:93-102: `for _, addr := range [][]byte{…} { copy(bytes[start:], addr); start += len(addr) }`. -/
def copyAddrs (b : SBuf) (bytes : Win) : Nat → List Bytes → Res SBuf
  | _, [] => .ok b
  | start, addr :: rest => do
    let w ← winFrom bytes start                                 -- bytes[start:]
    copyAddrs (copyTo b w addr) bytes (start + addr.length) rest

/-- arp.go:73-104 `(*ARP).SerializeTo`.  PrependBytes comes first, the FixLengths checks after it
    (an error return leaves `size` requested bytes in the buffer; the caller gets an error, no
    bytes).  Between the two checks `HwAddressSize` is already overwritten.
    (`PrependBytes` of the default buffer never returns an error; `size ≥ 8`.) -/
def ARP.serializeTo (l : ARP) (b : SBuf) (fix _csum : Bool) : Res (SerOut ARP) :=
  let size := 8 + l.sourceHwAddress.length + l.sourceProtAddress.length + l.dstHwAddress.length
                + l.dstProtAddress.length
  let (b, bytes) := prepend b size                              -- bytes, err := b.PrependBytes(size)
  if fix ∧ l.sourceHwAddress.length ≠ l.dstHwAddress.length then
    .ok { buf := b, layer := l, err := true }                   -- "mismatched hardware address sizes"
  else
  let l := if fix then { l with hwAddressSize := l.sourceHwAddress.length % 256 } else l
                                                                -- arp.HwAddressSize = uint8(len(arp.SourceHwAddress))
  if fix ∧ l.sourceProtAddress.length ≠ l.dstProtAddress.length then
    .ok { buf := b, layer := l, err := true }                   -- "mismatched prot address sizes"
  else
  let l := if fix then { l with protAddressSize := l.sourceProtAddress.length % 256 } else l
                                                                -- arp.ProtAddressSize = uint8(len(arp.SourceProtAddress))
  do
    let b ← putUint16 b bytes l.addrType                        -- PutUint16(bytes, uint16(arp.AddrType))
    let w ← winFrom bytes 2
    let b ← putUint16 b w l.protocol                            -- PutUint16(bytes[2:], uint16(arp.Protocol))
    let b ← write b bytes 4 (u8 l.hwAddressSize)                -- bytes[4] = arp.HwAddressSize
    let b ← write b bytes 5 (u8 l.protAddressSize)              -- bytes[5] = arp.ProtAddressSize
    let w ← winFrom bytes 6
    let b ← putUint16 b w l.operation                           -- PutUint16(bytes[6:], arp.Operation)
    let b ← copyAddrs b bytes 8 [l.sourceHwAddress, l.sourceProtAddress, l.dstHwAddress, l.dstProtAddress]
    pure { buf := b, layer := l, err := false }

/-- View asked for by the brief: `.err` when SerializeTo returned an error. -/
def serializeArp (l : ARP) (b : SBuf) (fix csum : Bool) : Res (SBuf × ARP) :=
  match l.serializeTo b fix csum with
  | .ok o => if o.err then .err "arp" else .ok (o.buf, o.layer)
  | .err k => .err k
  | .panic k => .panic k

/-- loopback.go:64-71 `(*Loopback).SerializeTo`: always little-endian. -/
def Loopback.serializeTo (l : Loopback) (b : SBuf) (_fix _csum : Bool) : Res (SerOut Loopback) := do
  let (b, bytes) := prepend b 4                                 -- bytes, err := b.PrependBytes(4)
  let b ← putUint32le b bytes l.family                          -- LittleEndian.PutUint32(bytes, uint32(l.Family))
  pure { buf := b, layer := l, err := false }

def serializeLoopback (l : Loopback) (b : SBuf) (fix csum : Bool) : Res (SBuf × Loopback) :=
  match l.serializeTo b fix csum with
  | .ok o => if o.err then .err "loopback" else .ok (o.buf, o.layer)
  | .err k => .err k
  | .panic k => .panic k

/-- `uint16(erspan2.Version&0xF)<<12 | erspan2.VLANIdentifier&0x0FFF`. -/
def erspanWord1 (l : ERSPANII) : Nat :=
  (((l.version &&& 0xF) <<< 12) % 65536) ||| (l.vlan &&& 0x0FFF)

/-- `uint16(CoS&0x7)<<13 | uint16(TrunkEncap&0x3)<<11 | SessionID&0x03FF`, `|= 0x400` when IsTruncated. -/
def erspanWord2 (l : ERSPANII) : Nat :=
  let w := (((l.cos &&& 0x7) <<< 13) % 65536) ||| (((l.trunkEncap &&& 0x3) <<< 11) % 65536) |||
             (l.sessionID &&& 0x03FF)
  if l.isTruncated then w ||| 0x400 else w

/-- `uint32(erspan2.Reserved&0x0FFF)<<20 | erspan2.Index&0x000FFFFF`. -/
def erspanWord3 (l : ERSPANII) : Nat :=
  (((l.reserved &&& 0x0FFF) <<< 20) % 4294967296) ||| (l.index &&& 0x000FFFFF)

/-- erspan2.go:59-79 `(*ERSPANII).SerializeTo`. -/
def ERSPANII.serializeTo (l : ERSPANII) (b : SBuf) (_fix _csum : Bool) : Res (SerOut ERSPANII) := do
  let (b, bytes) := prepend b 8                                 -- bytes, err := b.PrependBytes(8)
  let b ← putUint16 b bytes (erspanWord1 l)                     -- PutUint16(bytes, twoByteInt)
  let w ← winFrom bytes 2
  let b ← putUint16 b w (erspanWord2 l)                         -- PutUint16(bytes[2:], twoByteInt)
  let w ← winFrom bytes 4
  let b ← putUint32be b w (erspanWord3 l)                       -- PutUint32(bytes[4:], fourByteInt)
  pure { buf := b, layer := l, err := false }

def serializeErspan2 (l : ERSPANII) (b : SBuf) (fix csum : Bool) : Res (SBuf × ERSPANII) :=
  match l.serializeTo b fix csum with
  | .ok o => if o.err then .err "erspan2" else .ok (o.buf, o.layer)
  | .err k => .err k
  | .panic k => .panic k

/-- gopacket.Payload.SerializeTo: PrependBytes(len(p)); copy. -/
def serializePayload (p : Bytes) (b : SBuf) : SBuf :=
  let (b, w) := prepend b p.length
  copyTo b w p

/-! ## DecodingLayerParser over {ARP, Loopback, ERSPANII} (layers_decoder.go loop) -/

structure DlpState where
  arp      : ARP
  loopback : Loopback
  erspan   : ERSPANII
  decoded  : List Nat
  trunc    : Bool
  deriving Repr, DecidableEq

/-- One run of the LayersDecoder loop followed by the tail of DecodeLayers.  `typ` is the type about
    to be decoded.  Result code: 0 = `nil`, 1 = the error of a DecodeFromBytes, 2 =
    `UnsupportedLayerType(typ)` (next type outside the set and ≠ LayerTypeZero).
    Every iteration consumes at least 4 bytes: `fuel = |data| + 1` suffices. -/
def dlpLoop : Nat → DlpState → Nat → GSlice → Res (DlpState × Nat)
  | 0, st, _, _ => .ok (st, 0)
  | fuel + 1, st, typ, data =>
    if typ = LayerTypeARP then
      match st.arp.decodeFromBytes data with
      | .panic k => .panic k
      | .err k => .err k
      | .ok o =>
        let st := { st with arp := o.layer, trunc := st.trunc || o.trunc }
        if o.err then .ok (st, 1) else
        let st := { st with decoded := st.decoded ++ [typ] }
        let rest : GSlice := { vis := o.layer.payload, tail := data.tail }
        if rest.len = 0 then .ok (st, 0) else dlpLoop fuel st o.layer.nextLayerType rest
    else if typ = LayerTypeLoopback then
      match st.loopback.decodeFromBytes data with
      | .panic k => .panic k
      | .err k => .err k
      | .ok o =>
        let st := { st with loopback := o.layer, trunc := st.trunc || o.trunc }
        if o.err then .ok (st, 1) else
        let st := { st with decoded := st.decoded ++ [typ] }
        let rest : GSlice := { vis := o.layer.payload, tail := data.tail }
        if rest.len = 0 then .ok (st, 0) else dlpLoop fuel st o.layer.nextLayerType rest
    else if typ = LayerTypeERSPANII then
      match st.erspan.decodeFromBytes data with
      | .panic k => .panic k
      | .err k => .err k
      | .ok o =>
        let st := { st with erspan := o.layer, trunc := st.trunc || o.trunc }
        if o.err then .ok (st, 1) else
        let st := { st with decoded := st.decoded ++ [typ] }
        let rest : GSlice := { vis := o.layer.payload, tail := data.tail }
        if rest.len = 0 then .ok (st, 0) else dlpLoop fuel st o.layer.nextLayerType rest
    else if typ = LayerTypeZero then .ok (st, 0) else .ok (st, 2)

/-- parser.go DecodeLayers: Truncated := false, decoded := decoded[:0], run the loop from `first`. -/
def dlpDecodeLayers (arp : ARP) (lo : Loopback) (er : ERSPANII) (first : Nat) (data : GSlice) :
    Res (DlpState × Nat) :=
  dlpLoop (data.len + 1) { arp := arp, loopback := lo, erspan := er, decoded := [], trunc := false } first data

end Gp.Arp
