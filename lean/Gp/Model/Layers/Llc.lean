import Gp.Go.Basic
import Gp.Model.SBuf
import Gp.Gen.Llc
/-
  Model of /repo/layers/llc.go and /repo/layers/stp.go (engine `lllc`):

    LLC.DecodeFromBytes,  SerializeTo, CanDecode, NextLayerType, decodeLLC
    SNAP.DecodeFromBytes, SerializeTo, CanDecode, NextLayerType, decodeSNAP
    STP.DecodeFromBytes,  SerializeTo, CanDecode, NextLayerType, decodeSTP, checkPriority
    + EthernetType.LayerType (enums_generated.go over the table filled in enums.go; used by SNAP),
      decodingLayerDecoder (base.go; used by decodeSTP), and the DecodingLayerParser loop
      (layers_decoder.go) restricted to these three layers, first = LLC.

  None of the three layers has a LinkFlow/NetworkFlow/TransportFlow, a VerifyChecksum or a String
  method of its own.

  The serializers are the code WITH proposed_fixes/lllc-1 … lllc-4 applied (the code before each fix
  is kept as `…PreFix` below, only to state the defect it removes).

  Conventions (DESIGN §3): a Go panic is `Res.panic`; a Go `[]byte` is its visible bytes plus the
  *foreign* bytes between len and cap (`GSlice`): `s[a:b]` panics iff ¬(a ≤ b ∧ b ≤ cap), `s[i]`
  panics iff i ≥ len.  Sized integers are `Nat` with an explicit `%`/`u8` wherever Go truncates.
  A Go `error` return is a *value* (`err := true`) so that what the call did to the receiver and to
  the DecodeFeedback/SerializeBuffer before returning the error stays visible.
  Every assignment of the Go source appears, in source order.  Core Lean only.
-/
namespace Gp.Llc
open Gp Gp.SBuf Gp.Gen.Llc

/-! ## Go slices with capacity -/

/-- A Go `[]byte`: `vis` = the `len` visible bytes, `tail` = the bytes of the backing array between
    `len` and `cap` (cap = len on the copying decode path; larger under NoCopy / Pool, where the
    tail is whatever the caller's buffer / the pool block holds there). -/
structure GSlice where
  vis  : Bytes
  tail : Bytes
  deriving Repr, DecidableEq

namespace GSlice
def len (s : GSlice) : Nat := s.vis.length
def cap (s : GSlice) : Nat := s.vis.length + s.tail.length
/-- Go `s[a:b]`: the upper bound is checked against the CAPACITY. -/
def slice (s : GSlice) (a b : Nat) : Res GSlice :=
  if a ≤ b ∧ b ≤ s.cap then
    .ok { vis := ((s.vis ++ s.tail).drop a).take (b - a), tail := (s.vis ++ s.tail).drop b }
  else .panic .slice
/-- Go `s[a:]` (= `s[a:len(s)]`): panics iff a > len. -/
def sliceFrom (s : GSlice) (a : Nat) : Res GSlice :=
  if a ≤ s.len then .ok { vis := s.vis.drop a, tail := s.tail } else .panic .slice
/-- Go `s[i]`: the bound is the LENGTH. -/
def index (s : GSlice) (i : Nat) : Res UInt8 := Gp.index s.vis i
end GSlice

/-- encoding/binary `BigEndian.Uint16(b)`: `_ = b[1]` (early bounds check), then b[0]<<8 | b[1]. -/
def uint16 (s : GSlice) : Res Nat := do
  let b1 ← s.index 1
  let b0 ← s.index 0
  pure (be16 b0 b1)

/-- encoding/binary `BigEndian.Uint32(b)`: `_ = b[3]`, then the four bytes. -/
def uint32 (s : GSlice) : Res Nat := do
  let b3 ← s.index 3
  let b0 ← s.index 0
  let b1 ← s.index 1
  let b2 ← s.index 2
  pure (be32 b0 b1 b2 b3)

/-- `binary.BigEndian.Uint16(data[a:b])`. -/
def sliceU16 (s : GSlice) (a b : Nat) : Res Nat := do
  let t ← s.slice a b
  uint16 t

/-- `binary.BigEndian.Uint32(data[a:b])`. -/
def sliceU32 (s : GSlice) (a b : Nat) : Res Nat := do
  let t ← s.slice a b
  uint32 t

/-! ## Layer-type numbers (layertypes.go / decode.go RegisterLayerType ids) and the EthernetType table -/

def LayerTypeZero : Nat := 0
def LayerTypePayload : Nat := 2
def LayerTypeARP : Nat := 10
def LayerTypeCiscoDiscovery : Nat := 11
def LayerTypeEthernetCTP : Nat := 12
def LayerTypeDot1Q : Nat := 15
def LayerTypeEAPOL : Nat := 56
def LayerTypeEthernet : Nat := 17
def LayerTypeIPv4 : Nat := 20
def LayerTypeIPv6 : Nat := 21
def LayerTypeLLC : Nat := 22
def LayerTypeSNAP : Nat := 23
def LayerTypeMPLS : Nat := 24
def LayerTypePPP : Nat := 25
def LayerTypePPPoE : Nat := 26
def LayerTypeLinkLayerDiscovery : Nat := 58
def LayerTypeNortelDiscovery : Nat := 61
def LayerTypeSTP : Nat := 121
def LayerTypeERSPANII : Nat := 145
def LayerTypeMDP : Nat := 147

/-- enums.go `initActualTypeData`: the EthernetType rows of `EthernetTypeMetadata`
    (EthernetType ↦ LayerType); every other entry has `DecodeWith == nil`.  The keys are the
    GENERATED constants (Gp/Gen/Llc.lean); the layer-type ids and the set of rows are tied by the
    exhaustive 65536-entry correspondence op `lllc nlttab`. -/
def ethTypeTable : List (Nat × Nat) :=
  [ (ethernetTypeLLC, LayerTypeLLC), (ethernetTypeIPv4, LayerTypeIPv4),
    (ethernetTypeRaw, LayerTypeIPv4), (ethernetTypeIPv6, LayerTypeIPv6),
    (ethernetTypeARP, LayerTypeARP), (ethernetTypeDot1Q, LayerTypeDot1Q),
    (ethernetTypePPP, LayerTypePPP), (ethernetTypePPPoEDiscovery, LayerTypePPPoE),
    (ethernetTypePPPoESession, LayerTypePPPoE), (ethernetTypeEthernetCTP, LayerTypeEthernetCTP),
    (ethernetTypeCiscoDiscovery, LayerTypeCiscoDiscovery),
    (ethernetTypeNortelDiscovery, LayerTypeNortelDiscovery),
    (ethernetTypeLinkLayerDiscovery, LayerTypeLinkLayerDiscovery),
    (ethernetTypeMPLSUnicast, LayerTypeMPLS), (ethernetTypeMPLSMulticast, LayerTypeMPLS),
    (ethernetTypeEAPOL, LayerTypeEAPOL), (ethernetTypeQinQ, LayerTypeDot1Q),
    (ethernetTypeTransparentEthernetBridging, LayerTypeEthernet),
    (ethernetTypeERSPAN, LayerTypeERSPANII), (ethernetTypeMerakiDiscoveryProtocol, LayerTypeMDP) ]

/-- `EthernetTypeMetadata[a].DecodeWith != nil`. -/
def ethTypeKnown (a : Nat) : Bool := (ethTypeTable.lookup a).isSome

/-- enums_generated.go `EthernetType.LayerType()`: the table entry, 0 when there is no decoder. -/
def ethTypeLayerType (a : Nat) : Nat := (ethTypeTable.lookup a).getD LayerTypeZero

/-- What one DecodeFromBytes call did: the receiver afterwards, whether it called
    `df.SetTruncated()`, and whether it returned a non-nil error. -/
structure DecOut (L : Type) where
  layer : L
  trunc : Bool
  err   : Bool
  deriving Repr, DecidableEq

/-! ## LLC -/

/-- layers.LLC: BaseLayer{Contents, Payload}, DSAP, IG, SSAP, CR, Control. -/
structure LLC where
  contents : Bytes
  payload  : Bytes
  dsap     : Nat     -- uint8
  ig       : Bool
  ssap     : Nat     -- uint8
  cr       : Bool
  control  : Nat     -- uint16
  deriving Repr, DecidableEq

/-- `&LLC{}`. -/
def LLC.fresh : LLC :=
  { contents := [], payload := [], dsap := 0, ig := false, ssap := 0, cr := false, control := 0 }

/-- llc.go:31-55 `(*LLC).DecodeFromBytes`, statement by statement.  `old` is the receiver before
    the call.  NOTE the second error return (`len(data) < 4`) happens AFTER five fields have been
    assigned: a failed decode may leave the receiver half-updated (Contents/Payload untouched). -/
def LLC.decodeFromBytes (old : LLC) (data : GSlice) : Res (DecOut LLC) :=
  if data.len < 3 then
    .ok { layer := old, trunc := false, err := true }              -- "LLC header too small"
  else do
    let b0 ← data.index 0
    let l := { old with dsap := b0.toNat &&& 0xFE }                 -- l.DSAP = data[0] & 0xFE
    let b0 ← data.index 0
    let l := { l with ig := (b0.toNat &&& 0x1 != 0) }               -- l.IG = data[0]&0x1 != 0
    let b1 ← data.index 1
    let l := { l with ssap := b1.toNat &&& 0xFE }                   -- l.SSAP = data[1] & 0xFE
    let b1 ← data.index 1
    let l := { l with cr := (b1.toNat &&& 0x1 != 0) }               -- l.CR = data[1]&0x1 != 0
    let b2 ← data.index 2
    let l := { l with control := b2.toNat }                         -- l.Control = uint16(data[2])
    if l.control &&& 0x1 = 0 ∨ l.control &&& 0x3 = 0x1 then
      if data.len < 4 then
        pure { layer := l, trunc := false, err := true }            -- "LLC header too small"
      else do
        let b3 ← data.index 3
        let l := { l with control := ((l.control <<< 8) % 65536) ||| b3.toNat }  -- l.Control<<8 | uint16(data[3])
        let c ← data.slice 0 4
        let l := { l with contents := c.vis }                       -- l.Contents = data[:4]
        let p ← data.sliceFrom 4
        let l := { l with payload := p.vis }                        -- l.Payload = data[4:]
        pure { layer := l, trunc := false, err := false }
    else do
      let c ← data.slice 0 3
      let l := { l with contents := c.vis }                         -- l.Contents = data[:3]
      let p ← data.sliceFrom 3
      let l := { l with payload := p.vis }                          -- l.Payload = data[3:]
      pure { layer := l, trunc := false, err := false }

/-- The view asked for by the engine brief: success carries the layer and its truncation
    contribution; an error return is `.err`.  `cap = |data| + |foreign|`. -/
def decodeLlc (old : LLC) (data : Bytes) (foreign : Bytes) : Res (LLC × Bool) :=
  match old.decodeFromBytes { vis := data, tail := foreign } with
  | .ok o => if o.err then .err "llc" else .ok (o.layer, o.trunc)
  | .err k => .err k
  | .panic k => .panic k

/-- llc.go:58 CanDecode. -/
def LLC.canDecode : Nat := LayerTypeLLC
/-- llc.go:63-71 NextLayerType. -/
def LLC.nextLayerType (l : LLC) : Nat :=
  if l.dsap = 0xAA ∧ l.ssap = 0xAA then LayerTypeSNAP
  else if l.dsap = 0x42 ∧ l.ssap = 0x42 then LayerTypeSTP
  else LayerTypeZero
/-- base.go LayerPayload. -/
def LLC.layerPayload (l : LLC) : Bytes := l.payload

/-! ## SNAP -/

/-- layers.SNAP: BaseLayer, OrganizationalCode []byte, Type EthernetType. -/
structure SNAP where
  contents : Bytes
  payload  : Bytes
  org      : Bytes   -- OrganizationalCode
  type     : Nat     -- uint16 (EthernetType)
  deriving Repr, DecidableEq

def SNAP.fresh : SNAP := { contents := [], payload := [], org := [], type := 0 }

/-- llc.go:89-97 `(*SNAP).DecodeFromBytes`. -/
def SNAP.decodeFromBytes (old : SNAP) (data : GSlice) : Res (DecOut SNAP) :=
  if data.len < 5 then
    .ok { layer := old, trunc := false, err := true }               -- "SNAP header too small"
  else do
    let o ← data.slice 0 3
    let l := { old with org := o.vis }                              -- s.OrganizationalCode = data[:3]
    let v ← sliceU16 data 3 5
    let l := { l with type := v }                                   -- s.Type = EthernetType(…Uint16(data[3:5]))
    let c ← data.slice 0 5
    let p ← data.sliceFrom 5
    let l := { l with contents := c.vis, payload := p.vis }         -- s.BaseLayer = BaseLayer{data[:5], data[5:]}
    pure { layer := l, trunc := false, err := false }

def decodeSnap (old : SNAP) (data : Bytes) (foreign : Bytes) : Res (SNAP × Bool) :=
  match old.decodeFromBytes { vis := data, tail := foreign } with
  | .ok o => if o.err then .err "snap" else .ok (o.layer, o.trunc)
  | .err k => .err k
  | .panic k => .panic k

def SNAP.canDecode : Nat := LayerTypeSNAP
/-- llc.go:105-108 NextLayerType = `s.Type.LayerType()`. -/
def SNAP.nextLayerType (l : SNAP) : Nat := ethTypeLayerType l.type
def SNAP.layerPayload (l : SNAP) : Bytes := l.payload

/-! ## STP -/

/-- layers.STPSwitchID. -/
structure SwitchID where
  priority : Nat     -- uint16
  sysID    : Nat     -- uint16
  hwAddr   : Bytes   -- net.HardwareAddr
  deriving Repr, DecidableEq

/-- layers.STP. -/
structure STP where
  contents   : Bytes
  payload    : Bytes
  protocolID : Nat    -- uint16
  version    : Nat    -- uint8
  type       : Nat    -- uint8
  tc         : Bool
  tca        : Bool
  routeID    : SwitchID
  bridgeID   : SwitchID
  cost       : Nat    -- uint32
  portID     : Nat    -- uint16
  messageAge : Nat    -- uint16
  maxAge     : Nat    -- uint16
  helloTime  : Nat    -- uint16
  fDelay     : Nat    -- uint16
  deriving Repr, DecidableEq

def SwitchID.fresh : SwitchID := { priority := 0, sysID := 0, hwAddr := [] }
def STP.fresh : STP :=
  { contents := [], payload := [], protocolID := 0, version := 0, type := 0, tc := false, tca := false,
    routeID := SwitchID.fresh, bridgeID := SwitchID.fresh, cost := 0, portID := 0, messageAge := 0,
    maxAge := 0, helloTime := 0, fDelay := 0 }

/-- stp.go:51-80 `(*STP).DecodeFromBytes`. -/
def STP.decodeFromBytes (old : STP) (data : GSlice) : Res (DecOut STP) :=
  let stpLength := 35
  if data.len < stpLength then
    .ok { layer := old, trunc := true, err := true }     -- df.SetTruncated(); "STP length … too short"
  else do
    let s ← data.slice 0 2
    let v ← uint16 s
    let l := { old with protocolID := v }                             -- stp.ProtocolID = …Uint16(data[:2])
    let b ← data.index 2
    let l := { l with version := b.toNat }                            -- stp.Version = uint8(data[2])
    let b ← data.index 3
    let l := { l with type := b.toNat }                               -- stp.Type = uint8(data[3])
    let b ← data.index 4
    let l := { l with tc := (b.toNat &&& 0x01 != 0) }                 -- stp.TC = data[4]&0x01 != 0
    let b ← data.index 4
    let l := { l with tca := (b.toNat &&& 0x80 != 0) }                -- stp.TCA = data[4]&0x80 != 0
    let v ← sliceU16 data 5 7
    let l := { l with routeID := { l.routeID with priority := v &&& 0xf000 } }
    let v ← sliceU16 data 5 7
    let l := { l with routeID := { l.routeID with sysID := v &&& 0x0fff } }
    let s ← data.slice 7 13
    let l := { l with routeID := { l.routeID with hwAddr := s.vis } } -- net.HardwareAddr(data[7:13])
    let v ← sliceU32 data 13 17
    let l := { l with cost := v }
    let v ← sliceU16 data 17 19
    let l := { l with bridgeID := { l.bridgeID with priority := v &&& 0xf000 } }
    let v ← sliceU16 data 17 19
    let l := { l with bridgeID := { l.bridgeID with sysID := v &&& 0x0fff } }
    let s ← data.slice 19 25
    let l := { l with bridgeID := { l.bridgeID with hwAddr := s.vis } }
    let v ← sliceU16 data 25 27
    let l := { l with portID := v }
    let v ← sliceU16 data 27 29
    let l := { l with messageAge := v }
    let v ← sliceU16 data 29 31
    let l := { l with maxAge := v }
    let v ← sliceU16 data 31 33
    let l := { l with helloTime := v }
    let v ← sliceU16 data 33 35
    let l := { l with fDelay := v }
    let c ← data.slice 0 stpLength
    let l := { l with contents := c.vis }                             -- stp.Contents = data[:stpLength]
    let p ← data.sliceFrom stpLength
    let l := { l with payload := p.vis }                              -- stp.Payload = data[stpLength:]
    pure { layer := l, trunc := false, err := false }

def decodeStp (old : STP) (data : Bytes) (foreign : Bytes) : Res (STP × Bool) :=
  match old.decodeFromBytes { vis := data, tail := foreign } with
  | .ok o => if o.err then .err "stp" else .ok (o.layer, o.trunc)
  | .err k => .err k
  | .panic k => .panic k

def STP.canDecode : Nat := LayerTypeSTP
/-- stp.go:83 NextLayerType = gopacket.LayerTypePayload. -/
def STP.nextLayerType (_ : STP) : Nat := LayerTypePayload
def STP.layerPayload (l : STP) : Bytes := l.payload

/-! ## The decoder functions registered for NewPacket, as behaviour descriptions -/

/-- A call on the PacketBuilder. -/
inductive Act where
  | setTruncated
  | addLayer (t : Nat)
  deriving Repr, DecidableEq

/-- How a decoder function ends. -/
inductive Tail where
  | done                       -- return nil
  | fail                       -- return err
  | nextEthType (a : Nat)      -- return p.NextDecoder(EthernetType(a))
  | nextLayerType (t : Nat)    -- return p.NextDecoder(LayerType(t))
  deriving Repr, DecidableEq

structure Beh where
  acts : List Act
  tail : Tail
  deriving Repr, DecidableEq

/-- llc.go:110-118 `decodeLLC`: fresh layer, DecodeFromBytes, AddLayer, NextDecoder(l.NextLayerType())
    — called also when that is LayerTypeZero (whose registered decoder is DecodeUnknown). -/
def decodeLLCFn (data : GSlice) : Res (Beh × Option LLC) := do
  let o ← LLC.fresh.decodeFromBytes data
  let tr := if o.trunc then [Act.setTruncated] else []
  if o.err then pure ({ acts := tr, tail := .fail }, none)
  else pure ({ acts := tr ++ [.addLayer LayerTypeLLC], tail := .nextLayerType o.layer.nextLayerType }, some o.layer)

/-- llc.go:120-132 `decodeSNAP`: …, AddLayer, NextDecoder(s.Type) (an EthernetType). -/
def decodeSNAPFn (data : GSlice) : Res (Beh × Option SNAP) := do
  let o ← SNAP.fresh.decodeFromBytes data
  let tr := if o.trunc then [Act.setTruncated] else []
  if o.err then pure ({ acts := tr, tail := .fail }, none)
  else pure ({ acts := tr ++ [.addLayer LayerTypeSNAP], tail := .nextEthType o.layer.type }, some o.layer)

/-- stp.go:148-151 `decodeSTP` = base.go:39-50 `decodingLayerDecoder(&STP{}, data, p)`. -/
def decodeSTPFn (data : GSlice) : Res (Beh × Option STP) := do
  let o ← STP.fresh.decodeFromBytes data
  let tr := if o.trunc then [Act.setTruncated] else []
  if o.err then pure ({ acts := tr, tail := .fail }, none)
  else
    let next := o.layer.nextLayerType
    if next = LayerTypeZero then pure ({ acts := tr ++ [.addLayer LayerTypeSTP], tail := .done }, some o.layer)
    else pure ({ acts := tr ++ [.addLayer LayerTypeSTP], tail := .nextLayerType next }, some o.layer)

/-! ## Serialization, written over the C18 buffer model -/

/-- `w[a:b]` on a slice handed out by the buffer.  (Go checks `b` against the capacity of `w`, which
    reaches to the end of the backing array; the model checks against `len(w)` — it panics at least
    whenever Go does, so "never panics" carries over.) -/
def winSlice (w : Win) (a b : Nat) : Res Win :=
  if a ≤ b ∧ b ≤ w.n then .ok { gen := w.gen, off := w.off + a, n := b - a } else .panic .slice

/-- Go `copy(w, src)`: copies `min(len(w), len(src))` bytes, never panics. -/
def copyTo (b : SBuf) (w : Win) (src : Bytes) : SBuf := fill b w (src.take w.n)

/-- `w[i] = v`: index panic iff i ≥ len(w); stores one byte through the window. -/
def store (b : SBuf) (w : Win) (i : Nat) (v : UInt8) : Res SBuf :=
  if i < w.n then .ok (fill b { gen := w.gen, off := w.off + i, n := 1 } [v]) else .panic .index

/-- `binary.BigEndian.PutUint16(w, v)`: `_ = b[1]` then two stores. -/
def putUint16 (b : SBuf) (w : Win) (v : Nat) : Res SBuf :=
  if w.n < 2 then .panic .index else .ok (fill b w (putBe16 v))

/-- `binary.BigEndian.PutUint32(w, v)`: `_ = b[3]` then four stores. -/
def putUint32 (b : SBuf) (w : Win) (v : Nat) : Res SBuf :=
  if w.n < 4 then .panic .index else .ok (fill b w (putBe32 v))

/-- base.go `lotsOfZeros` (a package VARIABLE, [1024]byte; trusted never to be written). -/
def lotsOfZeros : Bytes := zeros 1024

/-- What one SerializeTo call did: the buffer and the receiver afterwards, and whether it returned a
    non-nil error. -/
structure SerOut (L : Type) where
  buf   : SBuf
  layer : L
  err   : Bool
  deriving Repr, DecidableEq

/-- Shared body of `(*LLC).SerializeTo` after `length` has been chosen (llc.go:148-181).
    (`PrependBytes` of the default buffer never returns an error.) -/
def LLC.serializeBody (l : LLC) (b : SBuf) (length : Nat) : Res (SerOut LLC) :=
  if l.dsap &&& 0x1 ≠ 0 then .ok { buf := b, layer := l, err := true }    -- "DSAP value invalid …"
  else if l.ssap &&& 0x1 ≠ 0 then .ok { buf := b, layer := l, err := true }  -- "SSAP value invalid …"
  else do
    let (b, buf) := prepend b length                              -- buf, err := b.PrependBytes(length)
    let igFlag := if l.ig then 1 else 0
    let crFlag := if l.cr then 1 else 0
    let b ← store b buf 0 (u8 (l.dsap + igFlag))                  -- buf[0] = l.DSAP + igFlag
    let b ← store b buf 1 (u8 (l.ssap + crFlag))                  -- buf[1] = l.SSAP + crFlag
    if length = 4 then do
      let b ← store b buf 2 (u8 (l.control >>> 8))                -- buf[2] = uint8(l.Control >> 8)
      let b ← store b buf 3 (u8 l.control)                        -- buf[3] = uint8(l.Control)
      pure { buf := b, layer := l, err := false }
    else do
      let b ← store b buf 2 (u8 l.control)                        -- buf[2] = uint8(l.Control)
      pure { buf := b, layer := l, err := false }

/-- llc.go:137-181 `(*LLC).SerializeTo` WITH proposed_fixes/lllc-1: the control field is written as one
    octet only for the U format (`Control ≤ 0xFF` with both low bits set); I/S-format control fields are
    two octets even when the first one is zero. -/
def LLC.serializeTo (l : LLC) (b : SBuf) (_fix _csum : Bool) : Res (SerOut LLC) :=
  let length := if l.control &&& 0xFF00 ≠ 0 ∨ l.control &&& 0x3 ≠ 0x3 then 4 else 3
  l.serializeBody b length

/-- The same function BEFORE lllc-1 (`if l.Control&0xFF00 != 0 { length = 4 } else { length = 3 }`):
    kept only to state the defect (`Gp.C06.Llc.prefix_roundtrip_counterexample`). -/
def LLC.serializeToPreFix (l : LLC) (b : SBuf) (_fix _csum : Bool) : Res (SerOut LLC) :=
  let length := if l.control &&& 0xFF00 ≠ 0 then 4 else 3
  l.serializeBody b length

def serializeLlc (l : LLC) (b : SBuf) (fix csum : Bool) : Res (SBuf × LLC) :=
  match l.serializeTo b fix csum with
  | .ok o => if o.err then .err "llc" else .ok (o.buf, o.layer)
  | .err k => .err k
  | .panic k => .panic k

/-- Go `s.OrganizationalCode[i]`. -/
def orgIndex (l : SNAP) (i : Nat) : Res UInt8 := Gp.index l.org i

/-- llc.go:186-197 `(*SNAP).SerializeTo`, body after the length check. -/
def SNAP.serializeBody (l : SNAP) (b : SBuf) : Res (SerOut SNAP) := do
  let (b, buf) := prepend b 5                                     -- buf, err := b.PrependBytes(5)
  let o0 ← orgIndex l 0
  let b ← store b buf 0 o0                                        -- buf[0] = s.OrganizationalCode[0]
  let o1 ← orgIndex l 1
  let b ← store b buf 1 o1                                        -- buf[1] = s.OrganizationalCode[1]
  let o2 ← orgIndex l 2
  let b ← store b buf 2 o2                                        -- buf[2] = s.OrganizationalCode[2]
  let w ← winSlice buf 3 5
  let b ← putUint16 b w l.type                                    -- PutUint16(buf[3:5], uint16(s.Type))
  pure { buf := b, layer := l, err := false }

/-- `(*SNAP).SerializeTo` WITH proposed_fixes/lllc-2 (an OrganizationalCode shorter than 3 bytes is an
    error, checked before anything is written). -/
def SNAP.serializeTo (l : SNAP) (b : SBuf) (_fix _csum : Bool) : Res (SerOut SNAP) :=
  if l.org.length < 3 then .ok { buf := b, layer := l, err := true }   -- "SNAP organizational code too short"
  else l.serializeBody b

/-- The same function BEFORE lllc-2 (no length check: `s.OrganizationalCode[0]` panics). -/
def SNAP.serializeToPreFix (l : SNAP) (b : SBuf) (_fix _csum : Bool) : Res (SerOut SNAP) :=
  l.serializeBody b

def serializeSnap (l : SNAP) (b : SBuf) (fix csum : Bool) : Res (SBuf × SNAP) :=
  match l.serializeTo b fix csum with
  | .ok o => if o.err then .err "snap" else .ok (o.buf, o.layer)
  | .err k => .err k
  | .panic k => .panic k

/-- stp.go:86-96 `checkPriority` WITH proposed_fixes/lllc-4 (0 is a valid priority): `true` = error. -/
def checkPriorityErr (prio : Nat) : Bool := prio % 4096 ≠ 0

/-- `checkPriority` BEFORE lllc-4: 0 was rejected although every BPDU of a priority-0 bridge decodes to it. -/
def checkPriorityErrPreFix (prio : Nat) : Bool := prio = 0 ∨ prio % 4096 ≠ 0

/-- stp.go:101-146 `(*STP).SerializeTo`, parameterised by the priority check and by whether the two
    address fields are cleared before the `copy` (proposed_fixes/lllc-3).  Note the order: PrependBytes
    first, the range checks in between the stores — a rejected layer leaves 35 partly written bytes in
    the buffer (the caller is told by the error). -/
def STP.serializeWith (chk : Nat → Bool) (clearHw : Bool) (l : STP) (b : SBuf) : Res (SerOut STP) := do
  let flags := 0x00
  let (b, bytes) := prepend b 35                                  -- bytes, err := b.PrependBytes(35)
  let b ← putUint16 b bytes l.protocolID                          -- PutUint16(bytes, s.ProtocolID)
  let b ← store b bytes 2 (u8 l.version)                          -- bytes[2] = s.Version
  let b ← store b bytes 3 (u8 l.type)                             -- bytes[3] = s.Type
  let flags := if l.tc then flags ||| 0x01 else flags
  let flags := if l.tca then flags ||| 0x80 else flags
  let b ← store b bytes 4 (u8 flags)                              -- bytes[4] = flags
  if chk l.routeID.priority then pure { buf := b, layer := l, err := true }   -- checkPriority(s.RouteID.Priority)
  else if l.routeID.sysID ≥ 4096 then pure { buf := b, layer := l, err := true }  -- "Invalid VlanID value ..!"
  else do
    let w ← winSlice bytes 5 7
    let b ← putUint16 b w (l.routeID.priority ||| l.routeID.sysID)  -- PutUint16(bytes[5:7], prioRoot|s.RouteID.SysID)
    let w ← winSlice bytes 7 13
    let b := if clearHw then copyTo b w lotsOfZeros else b        -- copy(bytes[7:13], lotsOfZeros[:])   (lllc-3)
    let w ← winSlice bytes 7 13
    let b := copyTo b w l.routeID.hwAddr                          -- copy(bytes[7:13], s.RouteID.HwAddr)
    let w ← winSlice bytes 13 17
    let b ← putUint32 b w l.cost                                  -- PutUint32(bytes[13:17], s.Cost)
    if chk l.bridgeID.priority then pure { buf := b, layer := l, err := true }
    else if l.bridgeID.sysID ≥ 4096 then pure { buf := b, layer := l, err := true }
    else do
      let w ← winSlice bytes 17 19
      let b ← putUint16 b w (l.bridgeID.priority ||| l.bridgeID.sysID)
      let w ← winSlice bytes 19 25
      let b := if clearHw then copyTo b w lotsOfZeros else b      -- copy(bytes[19:25], lotsOfZeros[:])  (lllc-3)
      let w ← winSlice bytes 19 25
      let b := copyTo b w l.bridgeID.hwAddr                       -- copy(bytes[19:25], s.BridgeID.HwAddr)
      let w ← winSlice bytes 25 27
      let b ← putUint16 b w l.portID
      let w ← winSlice bytes 27 29
      let b ← putUint16 b w l.messageAge
      let w ← winSlice bytes 29 31
      let b ← putUint16 b w l.maxAge
      let w ← winSlice bytes 31 33
      let b ← putUint16 b w l.helloTime
      let w ← winSlice bytes 33 35
      let b ← putUint16 b w l.fDelay
      pure { buf := b, layer := l, err := false }

/-- `(*STP).SerializeTo` with all-21 (errors instead of panics), lllc-3 and lllc-4 applied. -/
def STP.serializeTo (l : STP) (b : SBuf) (_fix _csum : Bool) : Res (SerOut STP) :=
  STP.serializeWith checkPriorityErr true l b

/-- `(*STP).SerializeTo` before lllc-3 and lllc-4 (kept only to state the two defects). -/
def STP.serializeToPreFix (l : STP) (b : SBuf) (_fix _csum : Bool) : Res (SerOut STP) :=
  STP.serializeWith checkPriorityErrPreFix false l b

def serializeStp (l : STP) (b : SBuf) (fix csum : Bool) : Res (SBuf × STP) :=
  match l.serializeTo b fix csum with
  | .ok o => if o.err then .err "stp" else .ok (o.buf, o.layer)
  | .err k => .err k
  | .panic k => .panic k

/-- gopacket.Payload.SerializeTo: PrependBytes(len(p)); copy. -/
def serializePayload (p : Bytes) (b : SBuf) : SBuf :=
  let (b, w) := prepend b p.length
  copyTo b w p

/-! ## DecodingLayerParser over {LLC, SNAP, STP} (layers_decoder.go loop, first = LLC) -/

structure DlpState where
  llc     : LLC
  snap    : SNAP
  stp     : STP
  decoded : List Nat
  trunc   : Bool
  deriving Repr, DecidableEq

/-- One run of the LayersDecoder loop followed by the tail of DecodeLayers.  `typ` is the type about
    to be decoded.  Result code: 0 = `nil`, 1 = the error of a DecodeFromBytes, 2 =
    `UnsupportedLayerType(typ)` (next type outside the set and ≠ LayerTypeZero).
    Each iteration consumes at least 3 bytes: `fuel = |data| + 1` suffices. -/
def dlpLoop : Nat → DlpState → Nat → GSlice → Res (DlpState × Nat)
  | 0, st, _, _ => .ok (st, 0)
  | fuel + 1, st, typ, data =>
    if typ = LayerTypeLLC then
      match st.llc.decodeFromBytes data with
      | .panic k => .panic k
      | .err k => .err k
      | .ok o =>
        let st := { st with llc := o.layer, trunc := st.trunc || o.trunc }
        if o.err then .ok (st, 1) else
        let st := { st with decoded := st.decoded ++ [typ] }
        let rest : GSlice := { vis := o.layer.payload, tail := data.tail }
        if rest.len = 0 then .ok (st, 0) else dlpLoop fuel st o.layer.nextLayerType rest
    else if typ = LayerTypeSNAP then
      match st.snap.decodeFromBytes data with
      | .panic k => .panic k
      | .err k => .err k
      | .ok o =>
        let st := { st with snap := o.layer, trunc := st.trunc || o.trunc }
        if o.err then .ok (st, 1) else
        let st := { st with decoded := st.decoded ++ [typ] }
        let rest : GSlice := { vis := o.layer.payload, tail := data.tail }
        if rest.len = 0 then .ok (st, 0) else dlpLoop fuel st o.layer.nextLayerType rest
    else if typ = LayerTypeSTP then
      match st.stp.decodeFromBytes data with
      | .panic k => .panic k
      | .err k => .err k
      | .ok o =>
        let st := { st with stp := o.layer, trunc := st.trunc || o.trunc }
        if o.err then .ok (st, 1) else
        let st := { st with decoded := st.decoded ++ [typ] }
        let rest : GSlice := { vis := o.layer.payload, tail := data.tail }
        if rest.len = 0 then .ok (st, 0) else dlpLoop fuel st o.layer.nextLayerType rest
    else if typ = LayerTypeZero then .ok (st, 0) else .ok (st, 2)

/-- parser.go DecodeLayers: Truncated := false, decoded := decoded[:0], run the loop. -/
def dlpDecodeLayers (llc : LLC) (snap : SNAP) (stp : STP) (data : GSlice) : Res (DlpState × Nat) :=
  dlpLoop (data.len + 1) { llc := llc, snap := snap, stp := stp, decoded := [], trunc := false } LayerTypeLLC data

end Gp.Llc
