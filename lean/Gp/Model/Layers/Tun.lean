import Gp.Go.Basic
import Gp.Model.SBuf
import Gp.Gen.Tun
/-
  Engine `ltun`, part 1: what the three UDP-borne tunnel codecs share, and VXLAN
  (/repo/layers/vxlan.go: DecodeFromBytes, SerializeTo, CanDecode, NextLayerType, decodeVXLAN).
  Geneve is in TunGeneve.lean, GTPv1U in TunGtp.lean.

  Conventions (DESIGN §3).  A Go panic is `Res.panic`.  A Go `[]byte` argument is its `len` visible
  bytes `data` plus the `foreign` bytes between len and cap of the backing array (empty on the
  copying decode path, whatever the caller's buffer / the pool block holds under NoCopy / Pool):
  `data[i]` panics iff i ≥ len, `data[a:b]` panics iff ¬(a ≤ b ∧ b ≤ cap) — and may expose foreign
  bytes —, `data[a:]` panics iff a > len.  Sized unsigned integers are `Nat`; every place where Go
  truncates goes through `u8`/`putBe16`/`putBe32`/an explicit `%`.  The receiver before the call is
  the argument `old`; every field the Go code assigns is set explicitly from the call's own inputs.
  A returned `error` is `Res.err k`: what a FAILED DecodeFromBytes leaves in the receiver is not
  modelled (the theorems about histories quantify over an arbitrary such state); the error text `k`
  ends in ":truncated" exactly when `df.SetTruncated()` was called before returning.
  Serializers are written over the C18 buffer model: every store goes through the window returned by
  PrependBytes; `bytes[i] = 0; bytes[i] |= …` sequences are collapsed into the value finally stored.
  Core Lean only.
-/
namespace Gp.Tun
open Gp

/-! ## Go slice / index primitives with capacity -/

/-- `data[a:b]`: panics iff ¬(a ≤ b ∧ b ≤ cap); may expose foreign bytes. -/
def sliceCap (data foreign : Bytes) (a b : Nat) : Res Bytes :=
  if a ≤ b ∧ b ≤ data.length + foreign.length then .ok (((data ++ foreign).drop a).take (b - a))
  else .panic .slice

/-- `data[a:]`: the upper bound defaults to `len(data)`, so this panics iff a > len. -/
def sliceFrom (data : Bytes) (a : Nat) : Res Bytes :=
  if a ≤ data.length then .ok (data.drop a) else .panic .slice

/-- binary.BigEndian.Uint16(s): `_ = b[1]` bounds hint, then the two bytes. -/
def beUint16 (s : Bytes) : Res Nat := do
  let b1 ← index s 1
  let b0 ← index s 0
  pure (be16 b0 b1)

/-- binary.BigEndian.Uint32(s): `_ = b[3]`, then the four bytes. -/
def beUint32 (s : Bytes) : Res Nat := do
  let b3 ← index s 3
  let b0 ← index s 0
  let b1 ← index s 1
  let b2 ← index s 2
  pure (be32 b0 b1 b2 b3)

/-- Go `copy(dst, src)`: the contents of `dst` afterwards (min(len) bytes copied, never panics). -/
def copyInto (dst src : Bytes) : Bytes := src.take dst.length ++ dst.drop src.length

/-- `var buf [4]byte; copy(buf[1:], s); binary.BigEndian.Uint32(buf[:])` — the 24-bit VNI read of
    vxlan.go:58-63 and geneve.go:95-97. -/
def vni24 (s : Bytes) : Res Nat := beUint32 ((0 : UInt8) :: copyInto [0, 0, 0] s)

/-- did the failing call invoke `df.SetTruncated()`?  (convention on the error text) -/
def errSetsTruncated (k : String) : Bool := k.endsWith ":truncated"

/-! ## Layer-type numbers (layers/layertypes.go, decode.go) and the EthernetType table -/

def LayerTypeZero : Nat := 0
def LayerTypePayload : Nat := 2
def LayerTypeARP : Nat := 10
def LayerTypeCiscoDiscovery : Nat := 11
def LayerTypeEthernetCTP : Nat := 12
def LayerTypeDot1Q : Nat := 15
def LayerTypeEthernet : Nat := 17
def LayerTypeIPv4 : Nat := 20
def LayerTypeIPv6 : Nat := 21
def LayerTypeLLC : Nat := 22
def LayerTypeMPLS : Nat := 24
def LayerTypePPP : Nat := 25
def LayerTypePPPoE : Nat := 26
def LayerTypeEAPOL : Nat := 56
def LayerTypeLinkLayerDiscovery : Nat := 58
def LayerTypeNortelDiscovery : Nat := 61
def LayerTypeVXLAN : Nat := 116
def LayerTypeGeneve : Nat := 120
def LayerTypeGTPv1U : Nat := 129
def LayerTypeERSPANII : Nat := 145
def LayerTypeMDP : Nat := 147

open Gp.Gen.Tun in
/-- enums.go `initActualTypeData`: the EthernetType rows of `EthernetTypeMetadata`
    (EthernetType ↦ LayerType); every other entry has `DecodeWith == nil`.  Keys are GENERATED
    constants; ids and rows are tied by the exhaustive correspondence op `ltun nlttab`. -/
def ethTypeTable : List (Nat × Nat) :=
  [ (ethernetTypeLLC, LayerTypeLLC), (ethernetTypeIPv4, LayerTypeIPv4),
    (ethernetTypeRaw, LayerTypeIPv4), (ethernetTypeIPv6, LayerTypeIPv6),
    (ethernetTypeARP, LayerTypeARP), (ethernetTypeDot1Q, LayerTypeDot1Q),
    (ethernetTypePPP, LayerTypePPP), (ethernetTypePPPoEDiscovery, LayerTypePPPoE),
    (ethernetTypePPPoESession, LayerTypePPPoE), (ethernetTypeEthernetCTP, LayerTypeEthernetCTP),
    (ethernetTypeCiscoDiscovery, LayerTypeCiscoDiscovery),
    (ethernetTypeNortelDiscovery, LayerTypeNortelDiscovery),
    (ethernetTypeLinkLayerDiscovery, LayerTypeLinkLayerDiscovery),
    (ethernetTypeMPLSUnicast, LayerTypeMPLS), (ethernetTypeMPLSMulticast, LayerTypeMPLS),
    (ethernetTypeEAPOL, LayerTypeEAPOL), (ethernetTypeQinQ, LayerTypeDot1Q),
    (ethernetTypeTransparentEthernetBridging, LayerTypeEthernet),
    (ethernetTypeERSPAN, LayerTypeERSPANII), (ethernetTypeMerakiDiscoveryProtocol, LayerTypeMDP) ]

/-- enums_generated.go `EthernetType.LayerType()`: the table entry, 0 when there is no decoder. -/
def ethTypeLayerType (a : Nat) : Nat := (ethTypeTable.lookup a).getD LayerTypeZero

/-! ## The registered decoder functions as behaviour on the PacketBuilder -/

/-- How a decoder function ends after `p.AddLayer(layer)`. -/
inductive Tail where
  | done                          -- return nil
  | nextLayerType (t : Nat)       -- return p.NextDecoder(gopacket.LayerType(t))
  | nextLinkType (t : Nat)        -- return p.NextDecoder(layers.LinkType(t))
  deriving Repr, DecidableEq

/-- Behaviour of a registered decoder on success: exactly one `AddLayer`, the `Set*Layer` calls
    (none of the three tunnel layers makes one), the truncation contribution, the tail call. -/
structure PktBeh (L : Type) where
  added     : L
  truncated : Bool
  setCalls  : List String
  tail      : Tail
  deriving Repr, DecidableEq

/-! ## Serialization plumbing over the C18 buffer model -/

structure Opts where
  fixLengths       : Bool
  computeChecksums : Bool
  deriving Repr, DecidableEq

/-- What one SerializeTo call did: the buffer and the receiver afterwards (SerializeTo may mutate the
    layer), and whether it returned a non-nil error. -/
structure SerOut (L : Type) where
  buf   : SBuf.SBuf
  layer : L
  err   : Bool
  deriving Repr, DecidableEq

/-- Store `vs` at indices `i …` of the slice `w` handed out by PrependBytes: the Go statement is
    either `bytes[i] = v` (|vs| = 1, index check) or a write through `bytes[i:i+|vs|]`.  The bounds
    check is made against the window LENGTH — stricter than Go's capacity check; the theorems show
    it never fails, hence all stores land inside the requested bytes. -/
def storeAt (b : SBuf.SBuf) (w : SBuf.Win) (i : Nat) (vs : Bytes) : Res SBuf.SBuf :=
  if i + vs.length ≤ w.n then
    .ok (SBuf.fill b { gen := w.gen, off := w.off + i, n := vs.length } vs)
  else .panic .slice

/-- The buffer together with a running offset into the window. -/
structure Cur where
  b   : SBuf.SBuf
  off : Nat
  deriving Repr, DecidableEq

/-- write `vs` at `offset`, then `offset += |vs|`. -/
def put (w : SBuf.Win) (c : Cur) (vs : Bytes) : Res Cur := do
  let b ← storeAt c.b w c.off vs
  pure { b := b, off := c.off + vs.length }

/-- bytes that are part of a bounds-checked slice `bytes[offset:offset+n]` but are NOT written. -/
def skip (w : SBuf.Win) (c : Cur) (n : Nat) : Res Cur :=
  if c.off + n ≤ w.n then .ok { c with off := c.off + n } else .panic .slice

/-- gopacket.Payload.SerializeTo: `bytes, _ := b.PrependBytes(len(p)); copy(bytes, p)`. -/
def putPayload (b : SBuf.SBuf) (p : Bytes) : SBuf.SBuf :=
  let (b1, w) := SBuf.prepend b p.length
  SBuf.fill b1 w p

/-- `.err` view of a `SerOut` (the form asked for by the engine brief). -/
def serView {L : Type} (r : Res (SerOut L)) (k : String) : Res (SBuf.SBuf × L) :=
  match r with
  | .ok o => if o.err then .err k else .ok (o.buf, o.layer)
  | .err e => .err e
  | .panic p => .panic p

/-- bytes produced by a successful call. -/
def outBytes {L : Type} (r : Res (SerOut L)) : Option Bytes :=
  match r with
  | .ok o => if o.err then none else some (SBuf.contents o.buf)
  | _ => none

/-! ## VXLAN (layers/vxlan.go) -/

namespace Vxlan

/-- layers.VXLAN: BaseLayer + every public field. -/
structure Layer where
  contents         : Bytes
  payload          : Bytes
  validIDFlag      : Bool
  vni              : Nat     -- uint32
  gbpExtension     : Bool
  gbpDontLearn     : Bool
  gbpApplied       : Bool
  gbpGroupPolicyID : Nat     -- uint16
  deriving Repr, DecidableEq, Inhabited

/-- `&VXLAN{}`. -/
def Layer.fresh : Layer :=
  { contents := [], payload := [], validIDFlag := false, vni := 0, gbpExtension := false,
    gbpDontLearn := false, gbpApplied := false, gbpGroupPolicyID := 0 }

/-- vxlan.go:51-80 `(*VXLAN).DecodeFromBytes`, statement by statement.  No path calls SetTruncated. -/
def decode (old : Layer) (data foreign : Bytes) : Res (Layer × Bool) :=
  if data.length < 8 then .err "vxlan packet too small" else do
    let s ← sliceCap data foreign 4 7                      -- copy(buf[1:], data[4:7])
    let d0 ← index data 0
    let l := { old with validIDFlag := decide (d0.toNat &&& 0x08 > 0) }  -- vx.ValidIDFlag = data[0]&0x08 > 0
    let v ← vni24 s
    let l := { l with vni := v }                           -- vx.VNI = Uint32(buf[:])
    let d0 ← index data 0
    let l := { l with gbpExtension := decide (d0.toNat &&& 0x80 > 0) }   -- data[0]&0x80 > 0
    let d1 ← index data 1
    let l := { l with gbpDontLearn := decide (d1.toNat &&& 0x40 > 0) }   -- data[1]&0x40 > 0
    let d1 ← index data 1
    let l := { l with gbpApplied := decide (d1.toNat &&& 0x80 > 0) }     -- data[1]&0x80 > 0
    let s ← sliceCap data foreign 2 4
    let g ← beUint16 s
    let l := { l with gbpGroupPolicyID := g }              -- Uint16(data[2:4])
    let c ← sliceCap data foreign 0 8                      -- vx.Contents = data[:vxlanLength]
    let p ← sliceFrom data 8                               -- vx.Payload = data[vxlanLength:]
    pure ({ l with contents := c, payload := p }, false)

/-- vxlan.go:41 CanDecode. -/
def canDecode : Nat := LayerTypeVXLAN
/-- vxlan.go:46 NextLayerType: always Ethernet. -/
def nextLayerType (_ : Layer) : Nat := LayerTypeEthernet

/-- `LinkTypeEthernet` (enums.go). -/
def linkTypeEthernet : Nat := 1

/-- vxlan.go:82-91 `decodeVXLAN`: fresh layer, DecodeFromBytes, AddLayer,
    `p.NextDecoder(LinkTypeEthernet)`. -/
def decodePkt (data foreign : Bytes) : Res (PktBeh Layer) := do
  let (l, tr) ← decode Layer.fresh data foreign
  pure { added := l, truncated := tr, setCalls := [], tail := .nextLinkType linkTypeEthernet }

/-- `bytes[0] = 0; if ValidIDFlag { |= 0x08 }; if GBPExtension { |= 0x80 }`. -/
def byte0 (l : Layer) : UInt8 :=
  u8 (0 ||| (if l.validIDFlag then 0x08 else 0) ||| (if l.gbpExtension then 0x80 else 0))

/-- `bytes[1] = 0; if GBPDontLearn { |= 0x40 }; if GBPApplied { |= 0x80 }`. -/
def byte1 (l : Layer) : UInt8 :=
  u8 (0 ||| (if l.gbpDontLearn then 0x40 else 0) ||| (if l.gbpApplied then 0x80 else 0))

/-- vxlan.go:96-128 `(*VXLAN).SerializeTo`: PrependBytes(8) (the default buffer never returns an
    error), the flag bytes, the policy id, THEN the range check of the VNI (an error leaves the
    first four bytes written and the last four untouched), the VNI.  The receiver is not modified;
    the options are not consulted. -/
def serializeTo (l : Layer) (b : SBuf.SBuf) (_opts : Opts) : Res (SerOut Layer) :=
  let pw := SBuf.prepend b 8                                   -- bytes, err := b.PrependBytes(8)
  do
    let c ← put pw.2 { b := pw.1, off := 0 } [byte0 l]         -- bytes[0]
    let c ← put pw.2 c [byte1 l]                               -- bytes[1]
    let c ← put pw.2 c (putBe16 l.gbpGroupPolicyID)            -- PutUint16(bytes[2:4], …)
    if l.vni ≥ 16777216 then                                   -- vx.VNI >= 1<<24
      pure { buf := c.b, layer := l, err := true }
    else do
      let c ← put pw.2 c (putBe32 ((l.vni <<< 8) % 4294967296)) -- PutUint32(bytes[4:8], vx.VNI<<8)
      pure { buf := c.b, layer := l, err := false }

/-- the view asked for by the brief. -/
def serialize (l : Layer) (b : SBuf.SBuf) (opts : Opts) : Res (SBuf.SBuf × Layer) :=
  serView (serializeTo l b opts) "vxlan"

end Vxlan

end Gp.Tun
