import Gp.Go.Basic
import Gp.Model.SBuf
import Gp.Gen.Bfd
/-
  Model of /repo/layers/bfd.go (engine `lbfd`):

    BFDAuthHeader.Length, BFD.Length, BFD.DecodeFromBytes, BFD.SerializeTo, BFD.CanDecode,
    BFD.NextLayerType, BFD.Payload, BaseLayer.LayerPayload, decodeBFD (the function registered for
    NewPacket), bool2uint8, and the DecodingLayerParser loop (layers_decoder.go / parser.go)
    restricted to a single BFD object.

  Conventions (DESIGN §3): a Go panic is `Res.panic`; a Go `[]byte` is its visible bytes plus the
  *foreign* bytes between len and cap (`GSlice`): `s[a:b]` panics iff ¬(a ≤ b ∧ b ≤ cap), `s[a:]`
  iff a > len, `s[i]` iff i ≥ len.  Sized integers are `Nat` with an explicit `%` wherever Go
  truncates.  A Go `error` return is a *value* (`err := true`) so that what the call did to the
  receiver and to the DecodeFeedback before returning stays visible.  The receiver before the call
  is an argument (`old`); every Go assignment is an explicit update of it, in source order.

  The code modelled is the code WITH the three proposed fixes lbfd-1..3; `Fix` switches each of them
  off again so that the defect each one removes can be stated about the very same transcription
  (`Fix.all` = the fixed code, used everywhere; the other settings occur only in the
  `prefix_…_counterexample` theorems).  Core Lean only.
-/
namespace Gp.Bfd
open Gp Gp.SBuf Gp.Gen.Bfd

/-! ## Go slices with capacity -/

/-- A Go `[]byte`: `vis` = the `len` visible bytes, `tail` = the bytes of the backing array between
    `len` and `cap` (cap = len on the copying decode path; larger under NoCopy / Pool, where the
    tail is whatever the caller's buffer / the pool block holds there). -/
structure GSlice where
  vis  : Bytes
  tail : Bytes
  deriving Repr, DecidableEq

namespace GSlice
def len (s : GSlice) : Nat := s.vis.length
def cap (s : GSlice) : Nat := s.vis.length + s.tail.length
/-- Go `s[a:b]`: the upper bound is checked against the CAPACITY. -/
def slice (s : GSlice) (a b : Nat) : Res GSlice :=
  if a ≤ b ∧ b ≤ s.cap then
    .ok { vis := ((s.vis ++ s.tail).drop a).take (b - a), tail := (s.vis ++ s.tail).drop b }
  else .panic .slice
/-- Go `s[a:]` (= `s[a:len(s)]`): panics iff a > len. -/
def sliceFrom (s : GSlice) (a : Nat) : Res GSlice :=
  if a ≤ s.len then .ok { vis := s.vis.drop a, tail := s.tail } else .panic .slice
/-- Go `s[i]`: the bound is the LENGTH. -/
def index (s : GSlice) (i : Nat) : Res UInt8 := Gp.index s.vis i
end GSlice

/-- `binary.BigEndian.Uint32(b)`: `_ = b[3]` (early bounds check), then b[3] | b[2]<<8 | b[1]<<16 | b[0]<<24. -/
def uint32be (s : GSlice) : Res Nat := do
  let b3 ← s.index 3
  let b2 ← s.index 2
  let b1 ← s.index 1
  let b0 ← s.index 0
  pure (be32 b0 b1 b2 b3)

/-! ## Layer-type numbers (layertypes.go RegisterLayerType ids) -/

def LayerTypeZero : Nat := 0
def LayerTypeBFD : Nat := 122

/-- What one DecodeFromBytes call did: the receiver afterwards, whether it called
    `df.SetTruncated()`, and whether it returned a non-nil error. -/
structure DecOut (L : Type) where
  layer : L
  trunc : Bool
  err   : Bool
  deriving Repr, DecidableEq

/-! ## The layer -/

/-- layers.BFDAuthHeader: AuthType (uint8), KeyID (uint8), SequenceNumber (uint32), Data ([]byte). -/
structure AuthHeader where
  authType       : Nat
  keyID          : Nat
  sequenceNumber : Nat
  data           : Bytes
  deriving Repr, DecidableEq

/-- `&BFDAuthHeader{}`. -/
def AuthHeader.zero : AuthHeader := { authType := 0, keyID := 0, sequenceNumber := 0, data := [] }

/-- layers.BFD: BaseLayer{Contents, Payload}, Version/Diagnostic/State/DetectMultiplier (uint8), six
    flag bits, two discriminators and three intervals (uint32), AuthHeader (*BFDAuthHeader: `none` = nil). -/
structure BFD where
  contents                  : Bytes
  payload                   : Bytes
  version                   : Nat
  diagnostic                : Nat
  state                     : Nat
  poll                      : Bool
  final                     : Bool
  controlPlaneIndependent   : Bool
  authPresent               : Bool
  demand                    : Bool
  multipoint                : Bool
  detectMultiplier          : Nat
  myDiscriminator           : Nat
  yourDiscriminator         : Nat
  desiredMinTxInterval      : Nat
  requiredMinRxInterval     : Nat
  requiredMinEchoRxInterval : Nat
  authHeader                : Option AuthHeader
  deriving Repr, DecidableEq

/-- `&BFD{}`. -/
def BFD.fresh : BFD :=
  { contents := [], payload := [], version := 0, diagnostic := 0, state := 0, poll := false, final := false,
    controlPlaneIndependent := false, authPresent := false, demand := false, multipoint := false,
    detectMultiplier := 0, myDiscriminator := 0, yourDiscriminator := 0, desiredMinTxInterval := 0,
    requiredMinRxInterval := 0, requiredMinEchoRxInterval := 0, authHeader := none }

/-- Which of the three proposed fixes are in the code (all three in the code that is modelled). -/
structure Fix where
  /-- lbfd-2: `d.AuthHeader = nil` before the authentication section is examined -/
  resetAuth    : Bool
  /-- lbfd-1: `if len(data) < 5 { df.SetTruncated(); return error }` in the keyed branches -/
  checkAuthLen : Bool
  /-- lbfd-3: `BFDAuthHeader.Length` returns 3 (not 0) for an unknown authentication type -/
  unknownLen3  : Bool
  deriving Repr, DecidableEq

def Fix.all : Fix := { resetAuth := true, checkAuthLen := true, unknownLen3 := true }

/-- bfd.go:231-242 `(*BFDAuthHeader).Length`. -/
def AuthHeader.lengthWith (fx : Fix) (h : AuthHeader) : Nat :=
  if h.authType = bfdAuthTypePassword then 3 + h.data.length
  else if h.authType = bfdAuthTypeKeyedMD5 ∨ h.authType = bfdAuthTypeMeticulousKeyedMD5 then 8 + h.data.length
  else if h.authType = bfdAuthTypeKeyedSHA1 ∨ h.authType = bfdAuthTypeMeticulousKeyedSHA1 then 8 + h.data.length
  else if fx.unknownLen3 then 3 else 0

def AuthHeader.length (h : AuthHeader) : Nat := h.lengthWith Fix.all

/-- The condition `d.AuthPresent && (d.AuthHeader != nil)` of BFD.Length and BFD.SerializeTo, with
    the header it then dereferences. -/
def BFD.authToWrite (l : BFD) : Option AuthHeader := if l.authPresent then l.authHeader else none

/-- bfd.go:289-295 `(*BFD).Length`. -/
def BFD.lengthWith (fx : Fix) (l : BFD) : Nat :=
  match l.authToWrite with
  | some h => bfdMinimumRecordSizeInBytes + h.lengthWith fx
  | none => bfdMinimumRecordSizeInBytes

def BFD.length (l : BFD) : Nat := l.lengthWith Fix.all

/-! ## DecodeFromBytes -/

/-- bfd.go: the two keyed cases of the switch (Keyed/Meticulous MD5, Keyed/Meticulous SHA1 — the same
    statements twice).  `h` is the header `d.AuthHeader` points to, `data` the bytes behind the key id.
    In `data, seq = data[5:], Uint32(data[1:5])` the right-hand sides are evaluated left to right:
    `data[5:]` (bound = len) first. -/
def decodeKeyed (fx : Fix) (l : BFD) (h : AuthHeader) (data : GSlice) : Res (DecOut BFD) :=
  if fx.checkAuthLen = true ∧ data.len < 5 then                   -- lbfd-1: if len(data) < 5 {
    .ok { layer := { l with authHeader := some h }, trunc := true, err := true }  -- df.SetTruncated(); return errors.New(…) }
  else do
    let rest ← data.sliceFrom 5                                   -- data[5:]
    let s ← data.slice 1 5                                        -- data[1:5]
    let v ← uint32be s                                            -- binary.BigEndian.Uint32(…)
    let h := { h with sequenceNumber := v }                       -- d.AuthHeader.SequenceNumber = …
    let h := { h with data := rest.vis }                          -- d.AuthHeader.Data = BFDAuthData(data)
    pure { layer := { l with authHeader := some h }, trunc := false, err := false }

/-- bfd.go:379-397: the optional authentication section.  `data` = what is left behind the 24
    mandatory bytes.  The header object is written through the pointer `d.AuthHeader`; the model
    keeps it in `h` and stores it into the layer wherever the function returns. -/
def decodeAuth (fx : Fix) (l : BFD) (data : GSlice) : Res (DecOut BFD) :=
  let l := if fx.resetAuth then { l with authHeader := none } else l  -- lbfd-2: d.AuthHeader = nil
  if l.authPresent = true ∧ data.len > 2 then do                  -- if d.AuthPresent && (len(data) > 2) {
    let h := AuthHeader.zero                                      -- d.AuthHeader = &BFDAuthHeader{}
    let d1 ← data.sliceFrom 1                                     -- data, d.AuthHeader.AuthType = data[1:], BFDAuthType(data[0])
    let b ← data.index 0
    let h := { h with authType := b.toNat }
    let d2 ← d1.sliceFrom 1                                       -- data, _ = data[1:], uint8(data[0])
    let _ ← d1.index 0
    let d3 ← d2.sliceFrom 1                                       -- data, d.AuthHeader.KeyID = data[1:], BFDAuthKeyID(data[0])
    let b ← d2.index 0
    let h := { h with keyID := b.toNat }
    if h.authType = bfdAuthTypePassword then                      -- switch d.AuthHeader.AuthType {
      pure { layer := { l with authHeader := some { h with data := d3.vis } }, trunc := false, err := false }
    else if h.authType = bfdAuthTypeKeyedMD5 ∨ h.authType = bfdAuthTypeMeticulousKeyedMD5 then
      decodeKeyed fx l h d3
    else if h.authType = bfdAuthTypeKeyedSHA1 ∨ h.authType = bfdAuthTypeMeticulousKeyedSHA1 then
      decodeKeyed fx l h d3
    else
      pure { layer := { l with authHeader := some h }, trunc := false, err := false }
  else
    pure { layer := l, trunc := false, err := false }

/-- bfd.go:332-400 `(*BFD).DecodeFromBytes`, statement by statement. -/
def BFD.decodeWith (fx : Fix) (old : BFD) (data : GSlice) : Res (DecOut BFD) :=
  if data.len < bfdMinimumRecordSizeInBytes then
    .ok { layer := old, trunc := true, err := true }              -- df.SetTruncated(); "BFD packet too short"
  else do
    let pLen ← data.index 3                                       -- pLen := uint8(data[3])
    if data.len ≠ pLen.toNat then
      pure { layer := old, trunc := false, err := true }          -- "BFD packet length does not match"
    else do
      let c ← data.slice 0 data.len                               -- d.BaseLayer = BaseLayer{Contents: data[:len(data)]}
      let l := { old with contents := c.vis, payload := [] }
      let b ← data.index 0
      let l := { l with version := (b.toNat &&& 0xE0) >>> 5 }      -- d.Version = BFDVersion((data[0] & 0xE0) >> 5)
      let b ← data.index 0
      let l := { l with diagnostic := b.toNat &&& 0x1F }           -- d.Diagnostic = BFDDiagnostic(data[0] & 0x1F)
      let data ← data.sliceFrom 1                                 -- data = data[1:]
      let b ← data.index 0
      let l := { l with state := (b.toNat &&& 0xC0) >>> 6 }        -- d.State = BFDState((data[0] & 0xC0) >> 6)
      let b ← data.index 0
      let l := { l with poll := (b.toNat &&& 0x20 != 0) }          -- d.Poll = data[0]&0x20 != 0
      let b ← data.index 0
      let l := { l with final := (b.toNat &&& 0x10 != 0) }         -- d.Final = data[0]&0x10 != 0
      let b ← data.index 0
      let l := { l with controlPlaneIndependent := (b.toNat &&& 0x08 != 0) }
      let b ← data.index 0
      let l := { l with authPresent := (b.toNat &&& 0x04 != 0) }   -- d.AuthPresent = data[0]&0x04 != 0
      let b ← data.index 0
      let l := { l with demand := (b.toNat &&& 0x02 != 0) }
      let b ← data.index 0
      let l := { l with multipoint := (b.toNat &&& 0x01 != 0) }
      let data ← data.sliceFrom 1                                 -- data = data[1:]
      let d' ← data.sliceFrom 1                                   -- data, d.DetectMultiplier = data[1:], BFDDetectMultiplier(data[0])
      let b ← data.index 0
      let l := { l with detectMultiplier := b.toNat }
      let data := d'
      let d' ← data.sliceFrom 1                                   -- data, _ = data[1:], uint8(data[0]) // Consume length
      let _ ← data.index 0
      let data := d'
      let d' ← data.sliceFrom 4                                   -- data, d.MyDiscriminator = data[4:], …Uint32(data[:4])
      let s ← data.slice 0 4
      let v ← uint32be s
      let l := { l with myDiscriminator := v }
      let data := d'
      let d' ← data.sliceFrom 4                                   -- data, d.YourDiscriminator = data[4:], …Uint32(data[:4])
      let s ← data.slice 0 4
      let v ← uint32be s
      let l := { l with yourDiscriminator := v }
      let data := d'
      let d' ← data.sliceFrom 4                                   -- data, d.DesiredMinTxInterval = …
      let s ← data.slice 0 4
      let v ← uint32be s
      let l := { l with desiredMinTxInterval := v }
      let data := d'
      let d' ← data.sliceFrom 4                                   -- data, d.RequiredMinRxInterval = …
      let s ← data.slice 0 4
      let v ← uint32be s
      let l := { l with requiredMinRxInterval := v }
      let data := d'
      let d' ← data.sliceFrom 4                                   -- data, d.RequiredMinEchoRxInterval = …
      let s ← data.slice 0 4
      let v ← uint32be s
      let l := { l with requiredMinEchoRxInterval := v }
      let data := d'
      decodeAuth fx l data

/-- The code with all three fixes. -/
def BFD.decodeFromBytes (old : BFD) (data : GSlice) : Res (DecOut BFD) := old.decodeWith Fix.all data

/-- The view asked for by the engine brief: success carries the layer and its truncation
    contribution; an error return is `.err`.  `cap = |data| + |foreign|`. -/
def decodeBfd (old : BFD) (data : Bytes) (foreign : Bytes) : Res (BFD × Bool) :=
  match old.decodeFromBytes { vis := data, tail := foreign } with
  | .ok o => if o.err then .err "bfd" else .ok (o.layer, o.trunc)
  | .err k => .err k
  | .panic k => .panic k

/-- bfd.go:462 CanDecode. -/
def BFD.canDecode : Nat := LayerTypeBFD
/-- bfd.go:469 NextLayerType = gopacket.LayerTypeZero. -/
def BFD.nextLayerType (_ : BFD) : Nat := LayerTypeZero
/-- base.go LayerPayload (the field BaseLayer.Payload). -/
def BFD.layerPayload (l : BFD) : Bytes := l.payload
/-- bfd.go:474 `(*BFD).Payload()` (the ApplicationLayer method) returns nil. -/
def BFD.payloadMethod (_ : BFD) : Bytes := []

/-! ## The decoder function registered for NewPacket, as a behaviour description -/

/-- A call on the PacketBuilder. -/
inductive Act where
  | setTruncated
  | addLayer (t : Nat)
  | setApplicationLayer
  deriving Repr, DecidableEq

/-- How a decoder function ends. -/
inductive Tail where
  | done                          -- return nil
  | fail                          -- return err
  deriving Repr, DecidableEq

structure Beh where
  acts : List Act
  tail : Tail
  deriving Repr, DecidableEq

/-- bfd.go:309-324 `decodeBFD`: `d := &BFD{}`, `d.DecodeFromBytes(data, p)` (the PacketBuilder is the
    DecodeFeedback: a SetTruncated reaches the packet), on success `p.AddLayer(d)`,
    `p.SetApplicationLayer(d)`, `return nil` (no NextDecoder). -/
def decodeBFDFn (data : GSlice) : Res (Beh × Option BFD) := do
  let o ← BFD.fresh.decodeFromBytes data
  let tr := if o.trunc then [Act.setTruncated] else []
  if o.err then pure ({ acts := tr, tail := .fail }, none)
  else pure ({ acts := tr ++ [.addLayer LayerTypeBFD, .setApplicationLayer], tail := .done }, some o.layer)

/-! ## Serialization, written over the C18 buffer model -/

/-- `w[a:]` on a slice handed out by the buffer. -/
def winFrom (w : Win) (a : Nat) : Res Win :=
  if a ≤ w.n then .ok { gen := w.gen, off := w.off + a, n := w.n - a } else .panic .slice

/-- Go `copy(w, src)`: copies `min(len(w), len(src))` bytes, never panics. -/
def copyTo (b : SBuf) (w : Win) (src : Bytes) : SBuf := fill b w (src.take w.n)

/-- `binary.BigEndian.PutUint32(w, v)`: `_ = b[3]` then four stores. -/
def putUint32be (b : SBuf) (w : Win) (v : Nat) : Res SBuf :=
  if w.n < 4 then .panic .index else .ok (fill b w (putBe32 v))

/-- What one SerializeTo call did: the buffer and the receiver afterwards, and whether it returned
    a non-nil error.  (BFD.SerializeTo never assigns to the receiver and ignores the options.) -/
structure SerOut (L : Type) where
  buf   : SBuf
  layer : L
  err   : Bool
  deriving Repr, DecidableEq

/-- bfd.go:479 bool2uint8. -/
def bool2uint8 (b : Bool) : Nat := if b then 1 else 0

/-- bfd.go:412 `byte(byte(d.Version<<5) | byte(d.Diagnostic))` (uint8 shift: truncated to 8 bits). -/
def byte0 (l : BFD) : Nat := ((l.version <<< 5) % 256) ||| (l.diagnostic % 256)

/-- bfd.go:413-420 `h`: State<<6 | Poll<<5 | Final<<4 | CPI<<3 | AuthPresent<<2 | Demand<<1 | Multipoint. -/
def flagByte (l : BFD) : Nat :=
  ((l.state <<< 6) % 256) ||| (bool2uint8 l.poll <<< 5) ||| (bool2uint8 l.final <<< 4) |||
    (bool2uint8 l.controlPlaneIndependent <<< 3) ||| (bool2uint8 l.authPresent <<< 2) |||
    (bool2uint8 l.demand <<< 1) ||| bool2uint8 l.multipoint

/-- bfd.go:412-430: the nine stores into the 24 prepended bytes. -/
def headerStores (fx : Fix) (l : BFD) (b : SBuf) (data : Win) : Res SBuf := do
  let b ← write b data 0 (u8 (byte0 l))                          -- data[0] = …
  let b ← write b data 1 (u8 (flagByte l))                       -- data[1] = byte(h)
  let b ← write b data 2 (u8 l.detectMultiplier)                 -- data[2] = byte(d.DetectMultiplier)
  let b ← write b data 3 (u8 (l.lengthWith fx))                  -- data[3] = byte(d.Length())
  let w ← winFrom data 4
  let b ← putUint32be b w l.myDiscriminator                      -- PutUint32(data[4:], uint32(d.MyDiscriminator))
  let w ← winFrom data 8
  let b ← putUint32be b w l.yourDiscriminator                    -- PutUint32(data[8:], …)
  let w ← winFrom data 12
  let b ← putUint32be b w l.desiredMinTxInterval                 -- PutUint32(data[12:], …)
  let w ← winFrom data 16
  let b ← putUint32be b w l.requiredMinRxInterval                -- PutUint32(data[16:], …)
  let w ← winFrom data 20
  putUint32be b w l.requiredMinEchoRxInterval                    -- PutUint32(data[20:], …)

/-- bfd.go:446-448 / 450-452: `auth[3] = 0; PutUint32(auth[4:], seq); copy(auth[8:], Data)`. -/
def keyedStores (h : AuthHeader) (b : SBuf) (auth : Win) : Res SBuf := do
  let b ← write b auth 3 0                                       -- auth[3] = byte(0)
  let w ← winFrom auth 4
  let b ← putUint32be b w h.sequenceNumber                       -- PutUint32(auth[4:], uint32(d.AuthHeader.SequenceNumber))
  let w ← winFrom auth 8
  pure (copyTo b w h.data)                                       -- copy(auth[8:], d.AuthHeader.Data)

/-- bfd.go:438-453: the stores into the appended authentication section. -/
def authStores (fx : Fix) (h : AuthHeader) (b : SBuf) (auth : Win) : Res SBuf := do
  let b ← write b auth 0 (u8 h.authType)                         -- auth[0] = byte(d.AuthHeader.AuthType)
  let b ← write b auth 1 (u8 (h.lengthWith fx))                  -- auth[1] = byte(d.AuthHeader.Length())
  let b ← write b auth 2 (u8 h.keyID)                            -- auth[2] = byte(d.AuthHeader.KeyID)
  if h.authType = bfdAuthTypePassword then do                    -- switch d.AuthHeader.AuthType {
    let w ← winFrom auth 3
    pure (copyTo b w h.data)                                     -- copy(auth[3:], d.AuthHeader.Data)
  else if h.authType = bfdAuthTypeKeyedMD5 ∨ h.authType = bfdAuthTypeMeticulousKeyedMD5 then
    keyedStores h b auth
  else if h.authType = bfdAuthTypeKeyedSHA1 ∨ h.authType = bfdAuthTypeMeticulousKeyedSHA1 then
    keyedStores h b auth
  else pure b

/-- bfd.go:405-457 `(*BFD).SerializeTo`.  The 24 mandatory bytes are PREPENDED, the authentication
    section is APPENDED (behind whatever the buffer holds: BFD carries no payload).  Neither option is
    looked at; the receiver is not assigned.  (`PrependBytes`/`AppendBytes` of the default buffer
    never return an error.) -/
def BFD.serializeWith (fx : Fix) (l : BFD) (b : SBuf) (_fix _csum : Bool) : Res (SerOut BFD) := do
  let (b, data) := prepend b bfdMinimumRecordSizeInBytes         -- data, err := b.PrependBytes(bfdMinimumRecordSizeInBytes)
  let b ← headerStores fx l b data
  match l.authToWrite with                                       -- if d.AuthPresent && (d.AuthHeader != nil) {
  | some h => do
    let (b, auth) := append b (h.lengthWith fx)                  -- auth, err := b.AppendBytes(int(d.AuthHeader.Length()))
    let b ← authStores fx h b auth
    pure { buf := b, layer := l, err := false }
  | none => pure { buf := b, layer := l, err := false }

def BFD.serializeTo (l : BFD) (b : SBuf) (fix csum : Bool) : Res (SerOut BFD) :=
  l.serializeWith Fix.all b fix csum

/-- View asked for by the brief: `.err` when SerializeTo returned an error. -/
def serializeBfd (l : BFD) (b : SBuf) (fix csum : Bool) : Res (SBuf × BFD) :=
  match l.serializeTo b fix csum with
  | .ok o => if o.err then .err "bfd" else .ok (o.buf, o.layer)
  | .err k => .err k
  | .panic k => .panic k

/-- gopacket.Payload.SerializeTo: PrependBytes(len(p)); copy. -/
def serializePayload (p : Bytes) (b : SBuf) : SBuf :=
  let (b, w) := prepend b p.length
  copyTo b w p

/-! ## DecodingLayerParser over {BFD} (layers_decoder.go loop) -/

structure DlpState where
  bfd     : BFD
  decoded : List Nat
  trunc   : Bool
  deriving Repr, DecidableEq

/-- parser.go DecodeLayers + the LayersDecoder loop for a parser holding one BFD object, first type
    `first`: `Truncated = false`, `decoded = decoded[:0]`; when there is no decoder for `first` the
    loop function returns `(first, nil)`; otherwise DecodeFromBytes, on an error `(Zero, err)`,
    else append the type, `typ = NextLayerType()` (Zero), `data = LayerPayload()`; an empty payload
    ends the loop, a non-empty one would look up the decoder of type Zero (none) and return
    `(Zero, nil)` — the same result, so the model needs no recursion.  Result code: 0 = `nil`,
    1 = the error of DecodeFromBytes, 2 = `UnsupportedLayerType`. -/
def dlpDecodeLayers (bfd : BFD) (first : Nat) (data : GSlice) : Res (DlpState × Nat) :=
  let st : DlpState := { bfd := bfd, decoded := [], trunc := false }
  if first = LayerTypeBFD then
    match bfd.decodeFromBytes data with
    | .panic k => .panic k
    | .err k => .err k
    | .ok o =>
      let st := { st with bfd := o.layer, trunc := st.trunc || o.trunc }
      if o.err then .ok (st, 1) else
      let st := { st with decoded := st.decoded ++ [first] }
      .ok (st, 0)
  else if first = LayerTypeZero then .ok (st, 0) else .ok (st, 2)

end Gp.Bfd
