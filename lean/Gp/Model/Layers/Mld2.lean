import Gp.Go.Basic
import Gp.Model.SBuf
import Gp.Model.Layers.Mld
import Gp.Gen.Mld2
/-
  Model of /repo/layers/mldv2.go (engine `lmld2`):

    MLDv2MulticastListenerQueryMessage.DecodeFromBytes / SerializeTo / serializeSourceAddressesTo /
      NextLayerType / CanDecode / LayerType / MaximumResponseDelay / QQI
    MLDv2MulticastListenerReportMessage.DecodeFromBytes / SerializeTo / NextLayerType / CanDecode
    MLDv2MulticastAddressRecord.decode / serializeTo / serializeAuxiliaryDataTo /
      serializeSourceAddressesTo
    decodeMLDv2MulticastListenerQuery / …Report (= base.go decodingLayerDecoder)

  The code is modelled WITH proposed_fixes/lmld2-1 (both DecodeFromBytes truncate their list field
  to length 0 before appending — the unpatched code appended to whatever the receiver held),
  lmld2-2 (both assign BaseLayer{Contents: data[:end], Payload: data[end:]}; the unpatched code never
  assigned it) and lmld2-3 (serializeAuxiliaryDataTo pads with `4 - remainder` zero bytes; the
  unpatched code appended `remainder` bytes).  `auxPadUnfixed` keeps the unpatched padding for the
  counterexample theorems.

  Conventions as in Gp/Model/Layers/Mld.lean (whose Go-slice type `GSlice`, `uint16`, `DecOut`,
  `SerOut`, window helpers `winSlice`/`copyTo`/`putUint16`, `to16`, `Beh`/`decodingLayerDecoder` and
  layer-type numbers are re-used here): a Go panic is `Res.panic`; `s[a:b]` panics iff
  ¬(a ≤ b ∧ b ≤ cap), `s[i]` iff i ≥ len; an `error` return is a value (`err := true`).  Sized
  unsigned integers are `Nat` (decoded values are in range by construction; the serializers
  truncate with `u8` / `putBe16` exactly where Go converts).  Core Lean only.
-/
namespace Gp.Mld2
open Gp Gp.SBuf Gp.Mld Gp.Gen.Mld2

/-! ## Layer values -/

/-- layers.MLDv2MulticastListenerQueryMessage. -/
structure Query where
  contents : Bytes
  payload  : Bytes
  mrc      : Nat            -- MaximumResponseCode uint16
  addr     : Bytes          -- MulticastAddress net.IP
  s        : Bool           -- SuppressRoutersideProcessing
  qrv      : Nat            -- QueriersRobustnessVariable uint8
  qqic     : Nat            -- QueriersQueryIntervalCode uint8
  n        : Nat            -- NumberOfSources uint16
  srcs     : List Bytes     -- SourceAddresses []net.IP
  deriving Repr, DecidableEq

def Query.fresh : Query :=
  { contents := [], payload := [], mrc := 0, addr := [], s := false, qrv := 0, qqic := 0, n := 0, srcs := [] }

/-- layers.MLDv2MulticastAddressRecord. -/
structure Rec where
  typ    : Nat              -- RecordType uint8
  auxLen : Nat              -- AuxDataLen uint8
  n      : Nat              -- N uint16
  addr   : Bytes            -- MulticastAddress
  srcs   : List Bytes       -- SourceAddresses
  aux    : Bytes            -- AuxiliaryData
  deriving Repr, DecidableEq

def Rec.fresh : Rec := { typ := 0, auxLen := 0, n := 0, addr := [], srcs := [], aux := [] }

/-- layers.MLDv2MulticastListenerReportMessage. -/
structure Report where
  contents : Bytes
  payload  : Bytes
  nrec     : Nat            -- NumberOfMulticastAddressRecords uint16
  recs     : List Rec       -- MulticastAddressRecords
  deriving Repr, DecidableEq

def Report.fresh : Report := { contents := [], payload := [], nrec := 0, recs := [] }

/-! ## Decoding -/

/-- The source-address loops of the query (`base` = 24) and of a record (`base` = 20):
    `for i := uint16(0); i < n; i++ { begin := base + int(i)*16; end = begin + 16;
       if end > len(data) { df.SetTruncated(); return error }; list = append(list, data[begin:end]) }`.
    `k` = iterations still to run (n - i): the loop runs exactly n times unless it returns early,
    so it is structural recursion (termination).  Result: the list, "returned an error", and the
    last value assigned to `end`. -/
def srcLoop (data : GSlice) (base : Nat) : Nat → Nat → Nat → List Bytes → Res (List Bytes × Bool × Nat)
  | 0, _, e, acc => .ok (acc, false, e)
  | k + 1, i, _, acc =>
    let begin_ := base + i * 16
    let end_ := begin_ + 16
    if end_ > data.len then .ok (acc, true, end_)
    else do
      let s ← data.slice begin_ end_
      srcLoop data base k (i + 1) end_ (acc ++ [s.vis])

/-- mldv2.go `(*MLDv2MulticastListenerQueryMessage).DecodeFromBytes` (with lmld2-1, lmld2-2). -/
def Query.decodeFromBytes (old : Query) (data : GSlice) : Res (DecOut Query) :=
  if data.len < 24 then
    .ok { layer := old, trunc := true, err := true }
  else do
    let s ← data.slice 0 2
    let v ← uint16 s
    let l := { old with mrc := v }                               -- m.MaximumResponseCode = Uint16(data[0:2])
    let s ← data.slice 4 20
    let l := { l with addr := s.vis }                            -- m.MulticastAddress = data[4:20]
    let b20 ← data.index 20
    let l := { l with s := decide (b20.toNat &&& mldv2SMask = mldv2STrue) }
    let b20 ← data.index 20
    let l := { l with qrv := b20.toNat &&& mldv2QRVMask }        -- data[20] & mldv2QRVMask
    let b21 ← data.index 21
    let l := { l with qqic := b21.toNat }                        -- data[21]
    let s ← data.slice 22 24
    let n ← uint16 s
    let l := { l with n := n }                                   -- m.NumberOfSources = Uint16(data[22:24])
    let l := { l with srcs := [] }                               -- m.SourceAddresses = m.SourceAddresses[:0]   (lmld2-1)
    let r ← srcLoop data 24 n 0 24 l.srcs                        -- end := 24; for …
    let l := { l with srcs := r.1 }
    if r.2.1 then pure { layer := l, trunc := true, err := true }
    else do
      let c ← data.slice 0 r.2.2
      let p ← data.sliceFrom r.2.2
      let l := { l with contents := c.vis, payload := p.vis }    -- m.BaseLayer = BaseLayer{data[:end], data[end:]}   (lmld2-2)
      pure { layer := l, trunc := false, err := false }

/-- What `MLDv2MulticastAddressRecord.decode` returns: the record, `read`, SetTruncated called,
    error returned. -/
structure RecOut where
  mar   : Rec
  read  : Nat
  trunc : Bool
  err   : Bool
  deriving Repr, DecidableEq

/-- mldv2.go `(*MLDv2MulticastAddressRecord).decode` on a zero-valued record (`mar := …Record{}`). -/
def Rec.decode (data : GSlice) : Res RecOut :=
  if data.len < 20 then
    .ok { mar := Rec.fresh, read := 0, trunc := true, err := true }
  else do
    let b0 ← data.index 0
    let b1 ← data.index 1
    let s ← data.slice 2 4
    let n ← uint16 s
    let a ← data.slice 4 20
    let r : Rec := { typ := b0.toNat, auxLen := b1.toNat, n := n, addr := a.vis, srcs := [], aux := [] }
    let lp ← srcLoop data 20 n 0 0 []
    let r := { r with srcs := lp.1 }
    if lp.2.1 then pure { mar := r, read := lp.2.2 - 16, trunc := true, err := true }   -- return begin, error
    else
      let e1 := 20 + n * 16                                      -- expectedLengthWithouAuxData
      let tot := b1.toNat * 4 + e1                               -- expectedTotalLength
      if data.len < tot then pure { mar := r, read := e1, trunc := false, err := true }   -- no SetTruncated here
      else do
        let a ← data.slice e1 tot
        pure { mar := { r with aux := a.vis }, read := tot, trunc := false, err := false }

/-- The record loop of the report: `for i < n { mar := Record{}; read, err := mar.decode(data[begin:], df);
    if err != nil { return err }; recs = append(recs, mar); begin += read }`.
    Result: records, SetTruncated called, error returned, `begin`. -/
def recLoop (data : GSlice) : Nat → Nat → List Rec → Res (List Rec × Bool × Bool × Nat)
  | 0, begin_, acc => .ok (acc, false, false, begin_)
  | k + 1, begin_, acc => do
    let sub ← data.sliceFrom begin_
    let o ← Rec.decode sub
    if o.err then pure (acc, o.trunc, true, begin_)
    else recLoop data k (begin_ + o.read) (acc ++ [o.mar])

/-- mldv2.go `(*MLDv2MulticastListenerReportMessage).DecodeFromBytes` (with lmld2-1, lmld2-2). -/
def Report.decodeFromBytes (old : Report) (data : GSlice) : Res (DecOut Report) :=
  if data.len < 4 then
    .ok { layer := old, trunc := true, err := true }
  else do
    let s ← data.slice 2 4
    let n ← uint16 s
    let l := { old with nrec := n }
    let l := { l with recs := [] }                               -- m.MulticastAddressRecords = …[:0]   (lmld2-1)
    let r ← recLoop data n 4 l.recs
    let l := { l with recs := r.1 }
    if r.2.2.1 then pure { layer := l, trunc := r.2.1, err := true }
    else do
      let c ← data.slice 0 r.2.2.2
      let p ← data.sliceFrom r.2.2.2
      let l := { l with contents := c.vis, payload := p.vis }    -- m.BaseLayer = BaseLayer{data[:begin], data[begin:]}   (lmld2-2)
      pure { layer := l, trunc := false, err := false }

/-- The view asked for by the brief: success carries the layer and its truncation contribution. -/
def decodeQuery (old : Query) (data foreign : Bytes) : Res (Query × Bool) :=
  match old.decodeFromBytes { vis := data, tail := foreign } with
  | .ok o => if o.err then .err "mld2" else .ok (o.layer, o.trunc)
  | .err e => .err e
  | .panic p => .panic p

def decodeReport (old : Report) (data foreign : Bytes) : Res (Report × Bool) :=
  match old.decodeFromBytes { vis := data, tail := foreign } with
  | .ok o => if o.err then .err "mld2" else .ok (o.layer, o.trunc)
  | .err e => .err e
  | .panic p => .panic p

/-! ## Accessors -/

def Query.layerType : Nat := LayerTypeMLDv2MulticastListenerQuery
def Query.canDecode : Nat := LayerTypeMLDv2MulticastListenerQuery
def Query.nextLayerType (_ : Query) : Nat := LayerTypeZero
def Report.layerType : Nat := LayerTypeMLDv2MulticastListenerReport
def Report.canDecode : Nat := LayerTypeMLDv2MulticastListenerReport
def Report.nextLayerType (_ : Report) : Nat := LayerTypePayload

/-- `MaximumResponseDelay()`: below 0x8000 the code itself (as a Duration: nanoseconds, as the
    source has it), otherwise `time.Millisecond * Duration(mant | 0x1000<<(exp+3))` evaluated in
    uint16 (Go: `<<` binds tighter than `|`, `&` and `>>` associate left). -/
def Query.maximumResponseDelay (l : Query) : Int :=
  if l.mrc < 0x8000 then (l.mrc : Int)
  else
    let exp := (l.mrc &&& 0x7000) >>> 12
    let mant := l.mrc &&& 0x0FFF
    1000000 * ((mant ||| ((0x1000 <<< (exp + 3)) % 65536) : Nat) : Int)

/-- `QQI()`. -/
def Query.qqi (l : Query) : Int :=
  if l.qqic < 128 then 1000000000 * (l.qqic : Int)
  else
    let exp := (l.qqic &&& 0x70) >>> 4
    let mant := l.qqic &&& 0x0F
    1000000000 * ((mant ||| ((0x1000 <<< (exp + 3)) % 65536) : Nat) : Int)

/-! ## The registered decoder functions -/

/-- mldv2.go decodeMLDv2MulticastListenerQuery. -/
def decodeQueryFn (data : GSlice) : Res (Beh × Option Query) := do
  let o ← Query.fresh.decodeFromBytes data
  pure (decodingLayerDecoder o Query.layerType o.layer.nextLayerType)

/-- mldv2.go decodeMLDv2MulticastListenerReport. -/
def decodeReportFn (data : GSlice) : Res (Beh × Option Report) := do
  let o ← Report.fresh.decodeFromBytes data
  pure (decodingLayerDecoder o Report.layerType o.layer.nextLayerType)

/-! ## Serialization over the C18 buffer model -/

/-- The reverse-order source-address loops (`serializeSourceAddressesTo` of the query — `sliced`,
    it writes through `buf[0:16]` — and of a record): the argument is the list in the order the loop
    visits it (last address first).  Result: buffer, "returned an error". -/
def serSrcs (sliced : Bool) : List Bytes → SBuf → Res (SBuf × Bool)
  | [], b => .ok (b, false)
  | a :: rest, b =>
    let (b, buf) := prepend b 16                                 -- buf, err := b.PrependBytes(16)
    match to16 a with                                            -- sa16 := m.SourceAddresses[i].To16()
    | none => .ok (b, true)                                      -- "invalid source address"
    | some a16 => do
      let w ← if sliced then winSlice buf 0 16 else pure buf
      serSrcs sliced rest (copyTo b w a16)                       -- copy(buf[0:16], sa16)

/-- The byte stored at offset 20 of the query header. -/
def byte20 (l : Query) : Nat :=
  let b := l.qrv % 256 &&& mldv2QRVMask
  let b := if l.s then b ||| mldv2STrue else b &&& (255 - mldv2STrue)
  b &&& 0x0F

/-- The stores of the query's SerializeTo into the 24 bytes handed out by `PrependBytes(24)`. -/
def Query.header (l : Query) (b : SBuf) (buf : Win) : Res (SerOut Query) := do
  let w ← winSlice buf 0 2
  let b ← putUint16 b w l.mrc                                    -- PutUint16(buf[0:2], m.MaximumResponseCode)
  let w ← winSlice buf 2 4
  let b := copyTo b w [0, 0]                                     -- copy(buf[2:4], []byte{0,0})
  match to16 l.addr with
  | none => pure { buf := b, layer := l, err := true }           -- "invalid MulticastAddress"
  | some ma16 => do
    let w ← winSlice buf 4 20
    let b := copyTo b w ma16                                     -- copy(buf[4:20], ma16)
    let b ← write b buf 20 (u8 (byte20 l))                       -- buf[20] = byte20
    let w ← winSlice buf 22 24
    let b ← putUint16 b w l.n                                    -- PutUint16(buf[22:24], m.NumberOfSources)
    let b ← write b buf 21 (u8 l.qqic)                           -- buf[21] = m.QueriersQueryIntervalCode
    pure { buf := b, layer := l, err := false }

/-- SerializeTo after the FixLengths assignment: the source addresses (last first), then the header. -/
def Query.serializeFixed (l : Query) (b : SBuf) : Res (SerOut Query) := do
  let r ← serSrcs true l.srcs.reverse b
  if r.2 then pure { buf := r.1, layer := l, err := true }
  else Query.header l (prepend r.1 24).1 (prepend r.1 24).2     -- buf, err := b.PrependBytes(24)

/-- mldv2.go `(*MLDv2MulticastListenerQueryMessage).SerializeTo` with serializeSourceAddressesTo. -/
def Query.serializeTo (l : Query) (b : SBuf) (fix _csum : Bool) : Res (SerOut Query) :=
  if l.srcs.length > 65535 then
    .ok { buf := b, layer := l, err := true }                    -- "there are more than %d source addresses"
  else
    Query.serializeFixed (if fix then { l with n := l.srcs.length } else l) b   -- m.NumberOfSources = uint16(len)

/-- The padding of `serializeAuxiliaryDataTo` with fix lmld2-3: `4 - remainder` zero bytes. -/
def auxPad (aux : Bytes) : Bytes :=
  if aux.length % 4 ≠ 0 then aux ++ List.replicate (4 - aux.length % 4) 0 else aux

/-- The padding of the UNPATCHED code: `remainder` zero bytes (5 → 6 → 8 bytes). -/
def auxPadUnfixed (aux : Bytes) : Bytes :=
  if aux.length % 4 ≠ 0 then aux ++ List.replicate (aux.length % 4) 0 else aux

/-- What a record's serializeTo did: buffer, the record afterwards, error returned. -/
structure RecSer where
  buf : SBuf
  mar : Rec
  err : Bool
  deriving Repr, DecidableEq

/-- The stores of a record's serializeTo into the 20 bytes handed out by `PrependBytes(20)`. -/
def Rec.header (r : Rec) (b : SBuf) (buf : Win) : Res RecSer := do
  let b ← write b buf 0 (u8 r.typ)                               -- buf[0] = uint8(m.RecordType)
  let b ← write b buf 1 (u8 r.auxLen)                            -- buf[1] = m.AuxDataLen
  let w ← winSlice buf 2 4
  let b ← putUint16 b w r.n                                      -- PutUint16(buf[2:4], m.N)
  match to16 r.addr with
  | none => pure { buf := b, mar := r, err := true }             -- "invalid multicast address"
  | some ma16 => do
    let w ← winSlice buf 4 20
    let b := copyTo b w ma16                                     -- copy(buf[4:20], ma16)
    pure { buf := b, mar := r, err := false }

/-- The record after serializeAuxiliaryDataTo's assignments (padding; AuxDataLen under FixLengths). -/
def Rec.fixAux (pad : Bytes → Bytes) (r : Rec) (fix : Bool) : Rec :=
  let r := { r with aux := pad r.aux }
  if fix ∧ ¬ r.aux.length / 4 > 255 then { r with auxLen := r.aux.length / 4 } else r

/-- The record after serializeSourceAddressesTo's assignment (N under FixLengths). -/
def Rec.fixN (r : Rec) (fix : Bool) : Rec :=
  if fix ∧ ¬ r.srcs.length > 65535 then { r with n := r.srcs.length } else r

/-- serializeSourceAddressesTo's loop, then the header. -/
def Rec.serializeTail (r : Rec) (b : SBuf) : Res RecSer := do
  let s ← serSrcs false r.srcs.reverse b
  if s.2 then pure { buf := s.1, mar := r, err := true }
  else Rec.header r (prepend s.1 20).1 (prepend s.1 20).2       -- buf, err := b.PrependBytes(20)

/-- mldv2.go `(*MLDv2MulticastAddressRecord).serializeTo` (aux data, source addresses, 20-byte
    header).  `pad` is the padding function (auxPad = the fixed code). -/
def Rec.serializeWith (pad : Bytes → Bytes) (r : Rec) (b : SBuf) (fix : Bool) : Res RecSer :=
  -- serializeAuxiliaryDataTo
  let r := Rec.fixAux pad r fix                                  -- m.AuxiliaryData = append(…); m.AuxDataLen = uint8(len/4)
  if fix ∧ r.aux.length / 4 > 255 then
    .ok { buf := b, mar := r, err := true }                      -- "auxilary data is %d 32-bit words"
  else
  let b := copyTo (prepend b r.aux.length).1 (prepend b r.aux.length).2 r.aux   -- PrependBytes(len(aux)); copy(buf, aux)
  -- serializeSourceAddressesTo
  if fix ∧ r.srcs.length > 65535 then
    .ok { buf := b, mar := r, err := true }                      -- "%d source addresses added"
  else
    Rec.serializeTail (Rec.fixN r fix) b                         -- m.N = uint16(len)

/-- The reverse-order record loop of the report's SerializeTo: the argument is the record list in
    visiting order (last record first); so is the returned (mutated) list. -/
def serRecs (pad : Bytes → Bytes) (fix : Bool) : List Rec → SBuf → Res (SBuf × List Rec × Bool)
  | [], b => .ok (b, [], false)
  | r :: rest, b => do
    let o ← Rec.serializeWith pad r b fix
    if o.err then pure (o.buf, o.mar :: rest, true)
    else do
      let t ← serRecs pad fix rest o.buf
      pure (t.1, o.mar :: t.2.1, t.2.2)

/-- mldv2.go `(*MLDv2MulticastListenerReportMessage).SerializeTo`. -/
def Report.serializeWith (pad : Bytes → Bytes) (l : Report) (b : SBuf) (fix _csum : Bool) : Res (SerOut Report) := do
  let t ← serRecs pad fix l.recs.reverse b
  let l := { l with recs := t.2.1.reverse }
  if t.2.2 then pure { buf := t.1, layer := l, err := true } else
  if fix ∧ l.recs.length > 65535 then
    pure { buf := t.1, layer := l, err := true }                 -- "%d multicast address records added"
  else
  let l := if fix then { l with nrec := l.recs.length } else l
  let (b, buf) := prepend t.1 4                                  -- buf, err := b.PrependBytes(4)
  let w ← winSlice buf 0 2
  let b := copyTo b w [0, 0]                                     -- copy(buf[0:2], []byte{0,0})
  let w ← winSlice buf 2 4
  let b ← putUint16 b w l.nrec                                   -- PutUint16(buf[2:4], m.NumberOf…Records)
  pure { buf := b, layer := l, err := false }

def Report.serializeTo (l : Report) (b : SBuf) (fix csum : Bool) : Res (SerOut Report) :=
  Report.serializeWith auxPad l b fix csum

/-- Views asked for by the brief. -/
def serializeQuery (l : Query) (b : SBuf) (fix csum : Bool) : Res (SBuf × Query) :=
  match l.serializeTo b fix csum with
  | .ok o => if o.err then .err "mld2" else .ok (o.buf, o.layer)
  | .err e => .err e
  | .panic p => .panic p

def serializeReport (l : Report) (b : SBuf) (fix csum : Bool) : Res (SBuf × Report) :=
  match l.serializeTo b fix csum with
  | .ok o => if o.err then .err "mld2" else .ok (o.buf, o.layer)
  | .err e => .err e
  | .panic p => .panic p

end Gp.Mld2
