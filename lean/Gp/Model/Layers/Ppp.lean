import Gp.Go.Basic
import Gp.Model.SBuf
import Gp.Gen.Ppp
/-
  Model of /repo/layers/ppp.go, /repo/layers/pppoe.go and /repo/layers/mpls.go (engine `lppp`):

    decodePPP,   (*PPP).SerializeTo,   (*PPP).LinkFlow (PPPFlow)
    decodePPPoE, (*PPPoE).SerializeTo
    decodeMPLS,  (*MPLS).SerializeTo,  ProtocolGuessingDecoder.Decode (MPLSPayloadDecoder)
    + enums_generated.go PPPType.Decode / PPPoECode.Decode over the tables filled in enums.go,
      packet.go (*eagerPacket).NextDecoder (the eager builder's "decode the payload with the next
      decoder" step) restricted to the decoders of this engine, gopacket.NewFlow/Flow.Reverse as used
      by PPPFlow, gopacket.Payload.SerializeTo.

  These three layers have NO DecodeFromBytes method: the functions modelled are the decoder
  functions registered for LayerTypePPP / LayerTypePPPoE / LayerTypeMPLS.  Each allocates a new
  layer object, so there is no receiver-before-the-call; the result is
  `Res (DecOut L)` = what the function did to the PacketBuilder (`Beh`), the layer it added and
  the Go slice (with capacity) that layer's `LayerPayload()` is.

  Conventions (DESIGN §3): a Go panic is `Res.panic`; a Go `[]byte` is its visible bytes plus the
  *foreign* bytes between len and cap (`GSlice`): `s[a:b]` panics iff ¬(a ≤ b ∧ b ≤ cap), `s[i]`
  panics iff i ≥ len.  Sized integers are `Nat` with an explicit `%` wherever Go truncates.
  Every assignment of the Go source appears, in source order.  Core Lean only.
-/
namespace Gp.Ppp
open Gp Gp.SBuf Gp.Gen.Ppp

/-! ## Go slices with capacity -/

/-- A Go `[]byte`: `vis` = the `len` visible bytes, `tail` = the bytes of the backing array between
    `len` and `cap` (cap = len on the copying decode path; larger under NoCopy / Pool, and for every
    inner layer of a packet, whose input is a sub-slice of the packet buffer). -/
structure GSlice where
  vis  : Bytes
  tail : Bytes
  deriving Repr, DecidableEq

namespace GSlice
def len (s : GSlice) : Nat := s.vis.length
def cap (s : GSlice) : Nat := s.vis.length + s.tail.length
/-- Go `s[a:b]`: the upper bound is checked against the CAPACITY. -/
def slice (s : GSlice) (a b : Nat) : Res GSlice :=
  if a ≤ b ∧ b ≤ s.cap then
    .ok { vis := ((s.vis ++ s.tail).drop a).take (b - a), tail := (s.vis ++ s.tail).drop b }
  else .panic .slice
/-- Go `s[a:]` (= `s[a:len(s)]`): panics iff a > len. -/
def sliceFrom (s : GSlice) (a : Nat) : Res GSlice :=
  if a ≤ s.len then .ok { vis := s.vis.drop a, tail := s.tail } else .panic .slice
/-- Go `s[i]`: the bound is the LENGTH. -/
def index (s : GSlice) (i : Nat) : Res UInt8 := Gp.index s.vis i
def empty : GSlice := { vis := [], tail := [] }
end GSlice

/-- encoding/binary `BigEndian.Uint16(b)`: `_ = b[1]` (early bounds check), then b[0]<<8 | b[1]. -/
def uint16 (s : GSlice) : Res Nat := do
  let b1 ← s.index 1
  let b0 ← s.index 0
  pure (be16 b0 b1)

/-- encoding/binary `BigEndian.Uint32(b)`: `_ = b[3]`, then b[0]<<24 | b[1]<<16 | b[2]<<8 | b[3]. -/
def uint32 (s : GSlice) : Res Nat := do
  let b3 ← s.index 3
  let b0 ← s.index 0
  let b1 ← s.index 1
  let b2 ← s.index 2
  pure (be32 b0 b1 b2 b3)

/-! ## Layer-type numbers (layertypes.go RegisterLayerType ids), endpoint type -/

def LayerTypeIPv4 : Nat := 20
def LayerTypeIPv6 : Nat := 21
def LayerTypeMPLS : Nat := 24
def LayerTypePPP : Nat := 25
def LayerTypePPPoE : Nat := 26
/-- endpoints.go `EndpointPPP = gopacket.RegisterEndpointType(9, …)`. -/
def EndpointPPP : Nat := 9

/-! ## The decoders a PacketBuilder can be handed by these three layers -/

/-- The decoder functions reachable from this engine's layers.  `ppp`, `pppoe`, `mpls` are this
    engine's; `ipv4`/`ipv6` (decodeIPv4/decodeIPv6) belong to engines lip4/lip6. -/
inductive Dec where
  | ppp | pppoe | mpls | ipv4 | ipv6
  deriving Repr, DecidableEq

/-- enums.go `initActualTypeData`: the rows of `PPPTypeMetadata` (PPPType ↦ DecodeWith); every other
    entry has `DecodeWith == nil`.  Keys are the GENERATED constants; the set of rows and their
    decoders are tied by the exhaustive 65536-entry correspondence op `lppp nlttab`. -/
def pppTypeTable : List (Nat × Dec) :=
  [ (pppTypeIPv4, .ipv4), (pppTypeIPv6, .ipv6),
    (pppTypeMPLSUnicast, .mpls), (pppTypeMPLSMulticast, .mpls) ]

/-- enums.go: the single row of `PPPoECodeMetadata` (PPPoECodeSession ↦ decodePPP). -/
def pppoeCodeTable : List (Nat × Dec) := [ (pppoeCodeSession, .ppp) ]

/-- A call on the PacketBuilder. -/
inductive Act where
  | setTruncated
  | addLayer (t : Nat)
  | setLinkLayer
  deriving Repr, DecidableEq

/-- How a decoder function ends. -/
inductive Tail where
  | fail                        -- return errors.New(…) / fmt.Errorf(…)
  | pppType (a : Nat)           -- return p.NextDecoder(ppp.PPPType)
  | pppoeCode (c : Nat)         -- return p.NextDecoder(pppoe.Code)
  | mplsPayload                 -- return p.NextDecoder(MPLSPayloadDecoder)   (= ProtocolGuessingDecoder{})
  | mplsFunc                    -- return p.NextDecoder(gopacket.DecodeFunc(decodeMPLS))
  deriving Repr, DecidableEq

structure Beh where
  acts : List Act
  tail : Tail
  deriving Repr, DecidableEq

/-- What one call of a registered decoder function did: its calls on the PacketBuilder and how it
    ended, the layer it handed to `AddLayer` (none on the error paths), and that layer's
    `LayerPayload()` as a Go slice — what the next decoder will be called with. -/
structure DecOut (L : Type) where
  beh   : Beh
  layer : Option L
  rest  : GSlice
  deriving Repr, DecidableEq

def DecOut.failed {L : Type} (acts : List Act) : DecOut L :=
  { beh := { acts := acts, tail := .fail }, layer := none, rest := GSlice.empty }

/-! ## PPP (ppp.go) -/

/-- layers.PPP: BaseLayer{Contents, Payload}, PPPType (uint16), HasPPTPHeader. -/
structure PPP where
  contents      : Bytes
  payload       : Bytes
  pppType       : Nat     -- uint16
  hasPPTPHeader : Bool
  deriving Repr, DecidableEq

/-- `&PPP{}`. -/
def PPP.fresh : PPP := { contents := [], payload := [], pppType := 0, hasPPTPHeader := false }

/-- ppp.go:42 `len(data) >= 2 && data[0] == 0xff && data[1] == 0x03` (short-circuit evaluation:
    `data[1]` is only read when `data[0] == 0xff`, both only when there are two bytes). -/
def hasHdr (data : GSlice) : Res Bool :=
  if data.len ≥ 2 then do
    let b0 ← data.index 0
    if b0.toNat = 0xff then do
      let b1 ← data.index 1
      pure (decide (b1.toNat = 0x03))
    else pure false
  else pure false

/-- ppp.go:39-70 `decodePPP`, statement by statement. -/
def decodePPP (data : GSlice) : Res (DecOut PPP) := do
  let ppp := PPP.fresh                                              -- ppp := &PPP{}
  let hdr ← hasHdr data                                             -- offset := 0; if len(data) >= 2 && … {
  let offset := if hdr then 2 else 0                                -- offset = 2
  let ppp := if hdr then { ppp with hasPPTPHeader := true } else ppp  -- ppp.HasPPTPHeader = true
  if data.len < offset + 1 then pure (DecOut.failed [])            -- "PPP packet too small"
  else do
    let b ← data.index offset
    if b.toNat &&& 0x1 = 0 then                                     -- if data[offset]&0x1 == 0
      if data.len < offset + 2 then pure (DecOut.failed [])        -- "PPP packet too small"
      else do
        let b' ← data.index (offset + 1)
        if b'.toNat &&& 0x1 = 0 then pure (DecOut.failed [])       -- "PPP has invalid type"
        else do
          let s ← data.slice offset (offset + 2)
          let v ← uint16 s
          let ppp := { ppp with pppType := v }                      -- ppp.PPPType = PPPType(Uint16(data[offset:offset+2]))
          let c ← data.slice offset (offset + 2)
          let ppp := { ppp with contents := c.vis }                 -- ppp.Contents = data[offset : offset+2]
          let p ← data.sliceFrom (offset + 2)
          let ppp := { ppp with payload := p.vis }                  -- ppp.Payload = data[offset+2:]
          pure { beh := { acts := [.addLayer LayerTypePPP, .setLinkLayer], tail := .pppType ppp.pppType },
                 layer := some ppp, rest := p }
    else do
      let b ← data.index offset
      let ppp := { ppp with pppType := b.toNat }                    -- ppp.PPPType = PPPType(data[offset])
      let c ← data.slice offset (offset + 1)
      let ppp := { ppp with contents := c.vis }                     -- ppp.Contents = data[offset : offset+1]
      let p ← data.sliceFrom (offset + 1)
      let ppp := { ppp with payload := p.vis }                      -- ppp.Payload = data[offset+1:]
      pure { beh := { acts := [.addLayer LayerTypePPP, .setLinkLayer], tail := .pppType ppp.pppType },
             layer := some ppp, rest := p }

/-! ## PPPoE (pppoe.go) -/

/-- layers.PPPoE: BaseLayer, Version, Type (uint8), Code (uint8), SessionId, Length (uint16). -/
structure PPPoE where
  contents  : Bytes
  payload   : Bytes
  version   : Nat     -- uint8
  type      : Nat     -- uint8
  code      : Nat     -- uint8 (PPPoECode)
  sessionId : Nat     -- uint16
  length    : Nat     -- uint16
  deriving Repr, DecidableEq

def PPPoE.fresh : PPPoE :=
  { contents := [], payload := [], version := 0, type := 0, code := 0, sessionId := 0, length := 0 }

/-- pppoe.go:32-52 `decodePPPoE`. -/
def decodePPPoE (data : GSlice) : Res (DecOut PPPoE) :=
  if data.len < 6 then
    .ok (DecOut.failed [.setTruncated])                             -- p.SetTruncated(); "PPPoE packet length … too short"
  else do
    let b0 ← data.index 0
    let version := b0.toNat >>> 4                                   -- Version: data[0] >> 4
    let b0 ← data.index 0
    let type := b0.toNat &&& 0x0F                                   -- Type: data[0] & 0x0F
    let b1 ← data.index 1                                           -- Code: PPPoECode(data[1])
    let s ← data.slice 2 4
    let sid ← uint16 s                                              -- SessionId: Uint16(data[2:4])
    let s ← data.slice 4 6
    let ln ← uint16 s                                               -- Length: Uint16(data[4:6])
    let pppoe : PPPoE := { PPPoE.fresh with version := version, type := type, code := b1.toNat,
                                            sessionId := sid, length := ln }
    let payloadEnd := 6 + pppoe.length                              -- payloadEnd := 6 + int(pppoe.Length)
    if data.len < payloadEnd then
      pure (DecOut.failed [.setTruncated])                          -- p.SetTruncated(); "… total bytes expected"
    else do
      let c ← data.slice 0 6
      let p ← data.slice 6 payloadEnd
      let pppoe := { pppoe with contents := c.vis, payload := p.vis }  -- BaseLayer{data[:6], data[6:payloadEnd]}
      pure { beh := { acts := [.addLayer LayerTypePPPoE], tail := .pppoeCode pppoe.code },
             layer := some pppoe, rest := p }

/-! ## MPLS (mpls.go) -/

/-- layers.MPLS: BaseLayer, Label (uint32), TrafficClass (uint8), StackBottom, TTL (uint8). -/
structure MPLS where
  contents     : Bytes
  payload      : Bytes
  label        : Nat     -- uint32
  trafficClass : Nat     -- uint8
  stackBottom  : Bool
  ttl          : Nat     -- uint8
  deriving Repr, DecidableEq

def MPLS.fresh : MPLS :=
  { contents := [], payload := [], label := 0, trafficClass := 0, stackBottom := false, ttl := 0 }

/-- mpls.go:61-79 `decodeMPLS`. -/
def decodeMPLS (data : GSlice) : Res (DecOut MPLS) :=
  if data.len < 4 then .ok (DecOut.failed [])                       -- "MPLS packet too small"
  else do
    let s ← data.slice 0 4
    let decoded ← uint32 s                                          -- decoded := Uint32(data[:4])
    let c ← data.slice 0 4
    let p ← data.sliceFrom 4
    let mpls : MPLS :=
      { label := decoded >>> 12,                                    -- Label: decoded >> 12
        trafficClass := ((decoded >>> 9) % 256) &&& 0x7,            -- TrafficClass: uint8(decoded>>9) & 0x7
        stackBottom := (decoded &&& 0x100 != 0),                    -- StackBottom: decoded&0x100 != 0
        ttl := decoded % 256,                                       -- TTL: uint8(decoded)
        contents := c.vis, payload := p.vis }                       -- BaseLayer{data[:4], data[4:]}
    pure { beh := { acts := [.addLayer LayerTypeMPLS],
                    tail := if mpls.stackBottom then .mplsPayload else .mplsFunc },
           layer := some mpls, rest := p }

/-- mpls.go:38-52 `ProtocolGuessingDecoder.Decode`: which decoder it hands the data to (`none` = one
    of its two errors). -/
def guess (data : GSlice) : Res (Option Dec) :=
  if data.len = 0 then .ok none                                     -- "MPLS payload too small to guess its protocol"
  else do
    let b ← data.index 0
    if 0x45 ≤ b.toNat ∧ b.toNat ≤ 0x4f then pure (some .ipv4)       -- case 0x45 … 0x4f: decodeIPv4
    else if 0x60 ≤ b.toNat ∧ b.toNat ≤ 0x6f then pure (some .ipv6)  -- case 0x60 … 0x6f: decodeIPv6
    else pure none                                                  -- "Unable to guess protocol of packet data"

/-! ## Eager packet decoding over these decoders (packet.go eagerPacket.NextDecoder) -/

inductive AnyLayer where
  | ppp (l : PPP)
  | pppoe (l : PPPoE)
  | mpls (l : MPLS)
  deriving Repr, DecidableEq

/-- How the run over this engine's layers ends: `done` = the last layer's payload is empty
    (NextDecoder returns nil without calling the next decoder); `fail` = an error was returned (it
    becomes the packet's DecodeFailure layer); `hand t` = decodeIPv4 / decodeIPv6 was called on the
    remaining bytes (their first action is AddLayer of a layer of type t). -/
inductive End where
  | done
  | fail
  | hand (t : Nat)
  deriving Repr, DecidableEq

structure RunOut where
  layers : List AnyLayer
  acts   : List Act
  end_   : End
  deriving Repr, DecidableEq

/-- What `p.NextDecoder(next)` resolves to for a non-empty payload: the decoder function that gets
    called (`none` = `PPPType.Decode` / `PPPoECode.Decode` / the guessing decoder return an error). -/
def resolve (t : Tail) (rest : GSlice) : Res (Option Dec) :=
  match t with
  | .fail => .ok none
  | .pppType a => .ok (pppTypeTable.lookup a)
  | .pppoeCode c => .ok (pppoeCodeTable.lookup c)
  | .mplsFunc => .ok (some .mpls)
  | .mplsPayload => guess rest

/-- One call of one of this engine's decoder functions, with the layer wrapped (`none` for the
    decoders of other engines). -/
structure Step where
  beh   : Beh
  layer : Option AnyLayer
  rest  : GSlice
  deriving Repr, DecidableEq

def stepOf (dec : Dec) (data : GSlice) : Res (Option Step) :=
  match dec with
  | .ipv4 => .ok none
  | .ipv6 => .ok none
  | .ppp => do let o ← decodePPP data; pure (some { beh := o.beh, layer := o.layer.map .ppp, rest := o.rest })
  | .pppoe => do let o ← decodePPPoE data; pure (some { beh := o.beh, layer := o.layer.map .pppoe, rest := o.rest })
  | .mpls => do let o ← decodeMPLS data; pure (some { beh := o.beh, layer := o.layer.map .mpls, rest := o.rest })

/-- The layer type whose AddLayer is the first action of decodeIPv4 / decodeIPv6. -/
def handType : Dec → Nat
  | .ipv6 => LayerTypeIPv6
  | _ => LayerTypeIPv4

/-- `dec.Decode(data, p)` on an eager packet, followed through every layer of this engine.  Every
    iteration consumes at least one byte of input, so `fuel = |data| + 1` suffices
    (`Gp.C19.Ppp.run_fuel_suffices`). -/
def run : Nat → Dec → GSlice → RunOut → Res RunOut
  | 0, _, _, acc => .ok { acc with end_ := .fail }
  | fuel + 1, dec, data, acc =>
    match stepOf dec data with
    | .panic k => .panic k
    | .err k => .err k
    | .ok none => .ok { acc with end_ := .hand (handType dec) }
    | .ok (some s) =>
      let acc := { acc with acts := acc.acts ++ s.beh.acts }
      match s.layer with
      | none => .ok { acc with end_ := .fail }
      | some l =>
        let acc := { acc with layers := acc.layers ++ [l] }
        if s.rest.len = 0 then .ok { acc with end_ := .done }        -- NextDecoder: len(d) == 0 → return nil
        else
          match resolve s.beh.tail s.rest with
          | .panic k => .panic k
          | .err k => .err k
          | .ok none => .ok { acc with end_ := .fail }
          | .ok (some d) => run fuel d s.rest acc

/-- `gopacket.NewPacket(data, LayerTypeX, …).Layers()` seen through this engine's layers.  An eager
    packet calls the first decoder unconditionally (packet.go initialDecode); a lazy packet never
    calls a decoder on empty data (decodeNextLayer: `if len(d) == 0 { return }`), so lazy decoding of
    the empty input yields no layers and no error (C03 excludes the empty input for this reason). -/
def newPacket (lazy : Bool) (first : Dec) (data : GSlice) : Res RunOut :=
  if lazy ∧ data.len = 0 then .ok { layers := [], acts := [], end_ := .done }
  else run (data.len + 1) first data { layers := [], acts := [], end_ := .done }

/-! ## LinkFlow (ppp.go:31,37 over flows.go NewFlow / Reverse) -/

structure Flow where
  typ  : Nat
  slen : Nat
  dlen : Nat
  src  : Bytes      -- [MaxEndpointSize]byte
  dst  : Bytes
  deriving Repr, DecidableEq

/-- `copy(f.src[:], src)` into the zero array. -/
def pad16 (b : Bytes) : Bytes := b ++ List.replicate (maxEndpointSize - b.length) 0

/-- flows.go NewFlow: explicit panic above MaxEndpointSize. -/
def newFlow (t : Nat) (src dst : Bytes) : Res Flow :=
  if src.length > maxEndpointSize ∨ dst.length > maxEndpointSize then .panic .explicit
  else .ok { typ := t, slen := src.length, dlen := dst.length, src := pad16 src, dst := pad16 dst }

def Flow.reverse (f : Flow) : Flow :=
  { typ := f.typ, slen := f.dlen, dlen := f.slen, src := f.dst, dst := f.src }
def Flow.srcBytes (f : Flow) : Bytes := f.src.take f.slen
def Flow.dstBytes (f : Flow) : Bytes := f.dst.take f.dlen

/-- ppp.go:31 `var PPPFlow = gopacket.NewFlow(EndpointPPP, nil, nil)`. -/
def pppFlow : Res Flow := newFlow EndpointPPP [] []
/-- ppp.go:37 `func (p *PPP) LinkFlow() gopacket.Flow { return PPPFlow }`. -/
def PPP.linkFlow (_ : PPP) : Res Flow := pppFlow

/-! ## Serialization, written over the C18 buffer model -/

/-- `w[a:]` on a slice handed out by the buffer. -/
def winFrom (w : Win) (a : Nat) : Res Win :=
  if a ≤ w.n then .ok { gen := w.gen, off := w.off + a, n := w.n - a } else .panic .slice

/-- Go `copy(w, src)`: copies `min(len(w), len(src))` bytes, never panics. -/
def copyTo (b : SBuf) (w : Win) (src : Bytes) : SBuf := fill b w (src.take w.n)

/-- `binary.BigEndian.PutUint16(w, v)`: `_ = b[1]` then two stores. -/
def putUint16 (b : SBuf) (w : Win) (v : Nat) : Res SBuf :=
  if w.n < 2 then .panic .index else .ok (fill b w (putBe16 v))

/-- `binary.BigEndian.PutUint32(w, v)`: `_ = b[3]` then four stores. -/
def putUint32 (b : SBuf) (w : Win) (v : Nat) : Res SBuf :=
  if w.n < 4 then .panic .index else .ok (fill b w (putBe32 v))

/-- `w[i] = v`: one store through a slice handed out by the buffer (index check against len). -/
def store (b : SBuf) (w : Win) (i : Nat) (v : Nat) : Res SBuf :=
  if i < w.n then .ok (fill b { gen := w.gen, off := w.off + i, n := 1 } [u8 v]) else .panic .index

/-- What one SerializeTo call did: the buffer and the receiver afterwards (SerializeTo mutates the
    layer under FixLengths), and whether it returned a non-nil error. -/
structure SerOut (L : Type) where
  buf   : SBuf
  layer : L
  err   : Bool
  deriving Repr, DecidableEq

/-- ppp.go:75-97 `(*PPP).SerializeTo`.  (`PrependBytes` of the default buffer never returns an
    error; its `num < 0` panic is unreachable: 1, 2 > 0.) -/
def PPP.serializeTo (l : PPP) (b : SBuf) (_fix _csum : Bool) : Res (SerOut PPP) := do
  let b ←
    if l.pppType &&& 0x100 = 0 then do                              -- if p.PPPType&0x100 == 0
      let (b, bytes) := prepend b 2                                 -- bytes, err := b.PrependBytes(2)
      putUint16 b bytes (l.pppType % 65536)                         -- PutUint16(bytes, uint16(p.PPPType))
    else do
      let (b, bytes) := prepend b 1                                 -- bytes, err := b.PrependBytes(1)
      store b bytes 0 (l.pppType % 256)                             -- bytes[0] = uint8(p.PPPType)
  if l.hasPPTPHeader then do                                        -- if p.HasPPTPHeader
    let (b, bytes) := prepend b 2                                   -- bytes, err := b.PrependBytes(2)
    let b ← store b bytes 0 0xff                                    -- bytes[0] = 0xff
    let b ← store b bytes 1 0x03                                    -- bytes[1] = 0x03
    pure { buf := b, layer := l, err := false }
  else pure { buf := b, layer := l, err := false }

/-- pppoe.go:57-71 `(*PPPoE).SerializeTo`. -/
def PPPoE.serializeTo (l : PPPoE) (b : SBuf) (fix _csum : Bool) : Res (SerOut PPPoE) := do
  let payloadLen := (Gp.SBuf.contents b).length                     -- payload := b.Bytes()
  let (b, bytes) := prepend b 6                                     -- bytes, err := b.PrependBytes(6)
  let b ← store b bytes 0 (((l.version <<< 4) % 256) ||| (l.type % 256))  -- bytes[0] = (p.Version << 4) | p.Type
  let b ← store b bytes 1 (l.code % 256)                            -- bytes[1] = byte(p.Code)
  let w ← winFrom bytes 2
  let b ← putUint16 b w (l.sessionId % 65536)                       -- PutUint16(bytes[2:], p.SessionId)
  let l := if fix then { l with length := payloadLen % 65536 } else l  -- p.Length = uint16(len(payload))
  let w ← winFrom bytes 4
  let b ← putUint16 b w (l.length % 65536)                          -- PutUint16(bytes[4:], p.Length)
  pure { buf := b, layer := l, err := false }

/-- mpls.go:84-98 `(*MPLS).SerializeTo` (uint32 arithmetic: `m.Label << 12` wraps). -/
def MPLS.encode (l : MPLS) : Nat :=
  let encoded := (l.label <<< 12) % 4294967296                      -- encoded := m.Label << 12
  let encoded := encoded ||| ((l.trafficClass % 256) <<< 9)         -- encoded |= uint32(m.TrafficClass) << 9
  let encoded := encoded ||| (l.ttl % 256)                          -- encoded |= uint32(m.TTL)
  if l.stackBottom then encoded ||| 0x100 else encoded              -- if m.StackBottom { encoded |= 0x100 }

def MPLS.serializeTo (l : MPLS) (b : SBuf) (_fix _csum : Bool) : Res (SerOut MPLS) := do
  let (b, bytes) := prepend b 4                                     -- bytes, err := b.PrependBytes(4)
  let b ← putUint32 b bytes l.encode                                -- PutUint32(bytes, encoded)
  pure { buf := b, layer := l, err := false }

/-- gopacket.Payload.SerializeTo: PrependBytes(len(p)); copy. -/
def serializePayload (p : Bytes) (b : SBuf) : SBuf :=
  let (b, w) := prepend b p.length
  copyTo b w p

/-! ## The `Res (Layer × …)` views asked for by the engine brief -/

/-- `decode : data → Res (Layer × behaviour)`: success carries the layer and the behaviour; an error
    return of the decoder function is `.err`.  `cap = |data| + |foreign|`. -/
def viewDec {L : Type} (name : String) (r : Res (DecOut L)) : Res (L × Beh) :=
  match r with
  | .ok o => match o.layer with
             | some l => .ok (l, o.beh)
             | none => .err name
  | .err k => .err k
  | .panic k => .panic k

def decodePpp (data foreign : Bytes) : Res (PPP × Beh) := viewDec "ppp" (decodePPP { vis := data, tail := foreign })
def decodePppoe (data foreign : Bytes) : Res (PPPoE × Beh) := viewDec "pppoe" (decodePPPoE { vis := data, tail := foreign })
def decodeMpls (data foreign : Bytes) : Res (MPLS × Beh) := viewDec "mpls" (decodeMPLS { vis := data, tail := foreign })

def viewSer {L : Type} (name : String) (r : Res (SerOut L)) : Res (SBuf × L) :=
  match r with
  | .ok o => if o.err then .err name else .ok (o.buf, o.layer)
  | .err k => .err k
  | .panic k => .panic k

def serializePpp (l : PPP) (b : SBuf) (fix csum : Bool) : Res (SBuf × PPP) := viewSer "ppp" (l.serializeTo b fix csum)
def serializePppoe (l : PPPoE) (b : SBuf) (fix csum : Bool) : Res (SBuf × PPPoE) := viewSer "pppoe" (l.serializeTo b fix csum)
def serializeMpls (l : MPLS) (b : SBuf) (fix csum : Bool) : Res (SBuf × MPLS) := viewSer "mpls" (l.serializeTo b fix csum)

end Gp.Ppp
