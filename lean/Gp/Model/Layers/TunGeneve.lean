import Gp.Model.Layers.Tun
/-
  Engine `ltun`, part 2: Geneve (/repo/layers/geneve.go): decodeGeneveOption, DecodeFromBytes,
  NextLayerType, CanDecode, decodeGeneve (+ base.go decodingLayerDecoder), SerializeTo.

  The model follows the tree WITH the proposed fixes ltun-1 (Version is `data[0] >> 6`), ltun-2 (the
  running offset is an `int`, not a `uint8`) and ltun-3 (an option longer than the rest of the options
  area is an error); the original behaviour stays selectable through `Variant` so that the three
  defects have machine-checked witnesses (Props/C06/Tun.lean).

  `Options []*GeneveOption`: the list holds the pointed-to structs; a nil element (on which
  SerializeTo dereferences nil) is outside the model (assumption in the props fragments).
  Under FixLengths SerializeTo assigns `o.Length` THROUGH the pointers, so the options of the receiver
  after the call are part of the result.
-/
namespace Gp.Tun.Geneve
open Gp Gp.Tun

/-- layers.GeneveOption. -/
structure GOpt where
  cls    : Nat      -- Class  uint16
  typ    : Nat      -- Type   uint8
  flags  : Nat      -- Flags  uint8 (3 bits on the wire)
  length : Nat      -- Length uint8 (bytes, header included; 5 bits of 4-byte words on the wire)
  data   : Bytes
  deriving Repr, DecidableEq, Inhabited

/-- layers.Geneve: BaseLayer + every public field. -/
structure Layer where
  contents       : Bytes
  payload        : Bytes
  version        : Nat      -- uint8 (2 bits)
  optionsLength  : Nat      -- uint8 (bytes; 6 bits of 4-byte words on the wire)
  oamPacket      : Bool
  criticalOption : Bool
  protocol       : Nat      -- EthernetType (uint16)
  vni            : Nat      -- uint32 (24 bits)
  options        : List GOpt
  deriving Repr, DecidableEq, Inhabited

/-- `&Geneve{}`. -/
def Layer.fresh : Layer :=
  { contents := [], payload := [], version := 0, optionsLength := 0, oamPacket := false,
    criticalOption := false, protocol := 0, vni := 0, options := [] }

/-- Which of the three proposed decoder fixes are in the tree.  `fixed` is the modelled target. -/
structure Variant where
  version6      : Bool   -- ltun-1: `gn.Version = data[0] >> 6` (original: `>> 7`)
  intOffset     : Bool   -- ltun-2: `offset` is an int (original: uint8, wraps modulo 256)
  rejectOverrun : Bool   -- ltun-3: `if int32(len) > length { return error }`
  deriving Repr, DecidableEq

def Variant.fixed : Variant := ⟨true, true, true⟩
def Variant.orig : Variant := ⟨false, false, false⟩

/-- geneve.go: every error return of decodeGeneveOption and the two length checks of
    DecodeFromBytes call `df.SetTruncated()` first. -/
def errTruncated {α : Type} : Res α := .err "geneve:truncated"
/-- ltun-3: the option crosses the end of the options area (no SetTruncated: nothing is missing). -/
def errOverrun {α : Type} : Res α := .err "geneve option exceeds the options length"

/-- geneve.go:59-79 `decodeGeneveOption(data, gn, df)` on the slice `d` (= `data[offset:]` of the
    caller, same spare capacity).  Returns the option and its length.  NB the first check is
    `len(data) < 3` although `data[3]` is read: with exactly 3 bytes this function panics — the
    theorems show DecodeFromBytes never calls it with fewer than 4. -/
def decodeOption (d foreign : Bytes) : Res (GOpt × Nat) :=
  if d.length < 3 then errTruncated else do
    let s ← sliceCap d foreign 0 2
    let cls ← beUint16 s                                    -- opt.Class = Uint16(data[0:2])
    let t ← index d 2                                       -- opt.Type = data[2]
    let b3 ← index d 3                                      -- opt.Flags = data[3] >> 5
    let flags := b3.toNat >>> 5
    let b3 ← index d 3
    let length := ((b3.toNat &&& 0x1f) * 4 + 4) % 256       -- opt.Length = (data[3]&0x1f)*4 + 4  (uint8)
    if d.length < length then errTruncated else do
      let dataLen := (length + 256 - 4) % 256               -- make([]byte, opt.Length-4)  (uint8)
      let s ← sliceCap d foreign 4 length                   -- copy(opt.Data, data[4:opt.Length])
      pure ({ cls := cls, typ := t.toNat, flags := flags, length := length,
              data := copyInto (SBuf.zeros dataLen) s }, length)

/-- geneve.go:105-118, the option loop `for length > 0 { … }` (`length` is an int32: `Int`).
    `fuel` bounds the iterations; running out of fuel is reported as a panic so that
    `decode_no_panic` also shows that the loop ends (every iteration takes at least 4 off `length`).
    `gn.Options = append(gn.Options, opt)` after the `[:0]` reset is the cons in front of the rest. -/
def decodeLoop (v : Variant) (data foreign : Bytes) : Nat → Nat → Int → Res (List GOpt × Nat)
  | 0, _, _ => .panic .explicit
  | fuel + 1, offset, length =>
    if length > 0 then do
      let d ← sliceFrom data offset                                       -- data[offset:]
      let (opt, n) ← decodeOption d foreign
      if v.rejectOverrun && decide ((n : Int) > length) then errOverrun   -- ltun-3
      else do
        let offset' := if v.intOffset then offset + n else (offset + n) % 256   -- offset += len
        let (rest, off) ← decodeLoop v data foreign fuel offset' (length - n)   -- length -= int32(len)
        pure (opt :: rest, off)
    else pure ([], offset)

/-- geneve.go:81-122 `(*Geneve).DecodeFromBytes`.  Every field is assigned on the way to a successful
    return (`gn.Options = gn.Options[:0]` empties the re-used slice), so `old` is not consulted. -/
def decodeV (v : Variant) (old : Layer) (data foreign : Bytes) : Res (Layer × Bool) :=
  if data.length < 8 then errTruncated else do
    let _ := old
    let d0 ← index data 0
    let version := if v.version6 then d0.toNat >>> 6 else d0.toNat >>> 7   -- gn.Version = data[0] >> 6
    let d0 ← index data 0
    let optionsLength := ((d0.toNat &&& 0x3f) * 4) % 256                   -- (data[0] & 0x3f) * 4 (uint8)
    let d1 ← index data 1
    let oam := decide (d1.toNat &&& 0x80 > 0)                              -- gn.OAMPacket
    let d1 ← index data 1
    let crit := decide (d1.toNat &&& 0x40 > 0)                             -- gn.CriticalOption
    let s ← sliceCap data foreign 2 4
    let proto ← beUint16 s                                                 -- gn.Protocol
    let s ← sliceCap data foreign 4 7
    let vni ← vni24 s                                                      -- gn.VNI
    let length : Int := optionsLength                                      -- offset, length := 8, int32(OptionsLength)
    if (data.length : Int) < length + 8 then errTruncated else do
      let (opts, offset) ← decodeLoop v data foreign data.length 8 length
      let c ← sliceCap data foreign 0 offset                               -- BaseLayer{data[:offset], data[offset:]}
      let p ← sliceFrom data offset
      pure ({ contents := c, payload := p, version := version, optionsLength := optionsLength,
              oamPacket := oam, criticalOption := crit, protocol := proto, vni := vni,
              options := opts }, false)

/-- The modelled target: the tree with ltun-1, ltun-2, ltun-3 applied. -/
def decode (old : Layer) (data foreign : Bytes) : Res (Layer × Bool) :=
  decodeV Variant.fixed old data foreign

/-- geneve.go:222 CanDecode. -/
def canDecode : Nat := LayerTypeGeneve
/-- geneve.go:124 NextLayerType = `gn.Protocol.LayerType()`. -/
def nextLayerType (l : Layer) : Nat := ethTypeLayerType l.protocol

/-- geneve.go:128-131 `decodeGeneve` = base.go `decodingLayerDecoder(&Geneve{}, data, p)`. -/
def decodePkt (data foreign : Bytes) : Res (PktBeh Layer) := do
  let (l, tr) ← decode Layer.fresh data foreign
  let next := nextLayerType l
  pure { added := l, truncated := tr, setCalls := [],
         tail := if next = LayerTypeZero then .done else .nextLayerType next }

/-! ### SerializeTo (geneve.go:136-219) -/

/-- `dataLen := len(o.Data) & ^3`: the length rounded down to a multiple of 4. -/
def dataLen (o : GOpt) : Nat := o.data.length - o.data.length % 4

/-- geneve.go:137-141 `for _, o := range gn.Options { optionsLength += 4 + dataLen }`. -/
def optsSize : List GOpt → Nat
  | [] => 0
  | o :: os => 4 + dataLen o + optsSize os

/-- `bytes[0] = 0; bytes[0] |= gn.Version << 6; bytes[0] |= (gn.OptionsLength >> 2) & 0x3f` (uint8). -/
def byte0 (l : Layer) : UInt8 :=
  u8 (0 ||| ((l.version % 256) <<< 6) % 256 ||| (((l.optionsLength % 256) >>> 2) &&& 0x3f))

/-- `bytes[1] = 0; if OAMPacket { |= 0x80 }; if CriticalOption { |= 0x40 }`. -/
def byte1 (l : Layer) : UInt8 :=
  u8 (0 ||| (if l.oamPacket then 0x80 else 0) ||| (if l.criticalOption then 0x40 else 0))

/-- `bytes[offset] = o.Flags << 5; bytes[offset] |= ((o.Length - 4) >> 2) & 0x1f` (uint8 arithmetic:
    `o.Length - 4` wraps below 4). -/
def optByte3 (o : GOpt) : UInt8 :=
  u8 (((o.flags % 256) <<< 5) % 256 ||| ((((o.length % 256) + 256 - 4) % 256) >>> 2) &&& 0x1f)

/-- the option as FixLengths leaves it: `o.Length = uint8(4 + dataLen)`. -/
def fixOpt (fix : Bool) (o : GOpt) : GOpt :=
  if fix then { o with length := (4 + dataLen o) % 256 } else o

/-- geneve.go:184-211, one iteration per option.  Returns the cursor and the options as the loop
    leaves them (Length assigned under FixLengths). -/
def putOpts (fix : Bool) (w : SBuf.Win) : Cur → List GOpt → Res (Cur × List GOpt)
  | c, [] => .ok (c, [])
  | c, o :: os => do
    let o' := fixOpt fix o                                      -- if opts.FixLengths { o.Length = … }
    let c ← put w c (putBe16 o'.cls)                            -- PutUint16(bytes[offset:offset+2], Class)
    let c ← put w c [u8 o'.typ]                                 -- bytes[offset] = o.Type
    let c ← put w c [optByte3 o']                               -- bytes[offset] = Flags<<5 | …
    -- copy(bytes[offset:offset+dataLen], o.Data): min(dataLen, len(o.Data)) bytes are copied
    let n := min (dataLen o) o.data.length
    let c ← put w c (o.data.take n)
    let c ← skip w c (dataLen o - n)                            -- (never written; always 0 bytes)
    let (c, os') ← putOpts fix w c os                           -- offset += dataLen
    pure (c, o' :: os')

/-- `(*Geneve).SerializeTo(b, opts)`; ComputeChecksums is not consulted.  The VNI range check sits
    between the stores of bytes[2:4] and bytes[4:8]: an error leaves the receiver with the
    FixLengths value of OptionsLength, the option lengths untouched, and a half-written buffer. -/
def serializeTo (l : Layer) (b : SBuf.SBuf) (opts : Opts) : Res (SerOut Layer) :=
  let optionsLength := optsSize l.options
  let l := if opts.fixLengths then { l with optionsLength := optionsLength % 256 } else l   -- uint8(optionsLength)
  let pw := SBuf.prepend b (8 + optionsLength)                  -- bytes, err := b.PrependBytes(plen)
  do
    let c ← put pw.2 { b := pw.1, off := 0 } [byte0 l]          -- bytes[0]
    let c ← put pw.2 c [byte1 l]                                -- bytes[1]
    let c ← put pw.2 c (putBe16 l.protocol)                     -- PutUint16(bytes[2:4], uint16(gn.Protocol))
    if l.vni ≥ 16777216 then                                    -- gn.VNI >= 1<<24
      pure { buf := c.b, layer := l, err := true }
    else do
      let c ← put pw.2 c (putBe32 ((l.vni <<< 8) % 4294967296)) -- PutUint32(bytes[4:8], gn.VNI<<8)
      let (c, os') ← putOpts opts.fixLengths pw.2 c l.options
      pure { buf := c.b, layer := { l with options := os' }, err := false }

/-- the view asked for by the brief. -/
def serialize (l : Layer) (b : SBuf.SBuf) (opts : Opts) : Res (SBuf.SBuf × Layer) :=
  serView (serializeTo l b opts) "geneve"

end Gp.Tun.Geneve
