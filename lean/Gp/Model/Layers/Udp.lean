import Gp.Go.Basic
import Gp.Model.SBuf
import Gp.Model.Checksum
import Gp.Gen.Udp
/-
  Model of /repo/layers/udp.go (engine `ludp`): UDP.DecodeFromBytes, decodeUDP, SerializeTo,
  CanDecode, NextLayerType (+ layers/ports.go UDPPort.LayerType with the override table),
  TransportFlow, SetInternalPortsForTesting, VerifyChecksum, and the part of layers/tcpip.go
  that UDP uses (tcpipchecksum.computeChecksum, the address checks of the two pseudo headers).

  Conventions (DESIGN §3): Go panics are `Res.panic`; a Go slice is its visible bytes plus the
  *foreign* bytes between len and cap (`GoSlice`), `s[a:b]` panics iff ¬(a ≤ b ∧ b ≤ cap);
  sized integers are `Nat` with explicit `%`.  Every assignment of the Go source appears in
  source order.  Core Lean only.
-/
namespace Gp.Udp
open Gp

/-! ## Go slices with capacity -/

/-- A Go `[]byte`: `data` are the `len` visible bytes, `foreign` the bytes of the backing array
    between `len` and `cap` (whatever the packet buffer holds there: cap = len on the copying
    decode path, larger under NoCopy / Pool). -/
structure GoSlice where
  data    : Bytes
  foreign : Bytes
  deriving Repr, DecidableEq

namespace GoSlice
def len (s : GoSlice) : Nat := s.data.length
def cap (s : GoSlice) : Nat := s.data.length + s.foreign.length
/-- Go `s[a:b]`: the bound is the CAPACITY. -/
def slice (s : GoSlice) (a b : Nat) : Res GoSlice :=
  if a ≤ b ∧ b ≤ s.cap then
    .ok { data := ((s.data ++ s.foreign).drop a).take (b - a), foreign := (s.data ++ s.foreign).drop b }
  else .panic .slice
/-- Go `s[i]`: the bound is the LENGTH. -/
def index (s : GoSlice) (i : Nat) : Res UInt8 := Gp.index s.data i
end GoSlice

/-- encoding/binary BigEndian.Uint16(b): `_ = b[1]` (early bounds check), then b[0]<<8 | b[1]. -/
def uint16 (s : GoSlice) : Res Nat := do
  let b1 ← s.index 1
  let b0 ← s.index 0
  pure (be16 b0 b1)

/-! ## The layer -/

/-- `tcpipchecksum.pseudoheader`: nil, an *IPv4 or an *IPv6 (only SrcIP/DstIP matter; they are
    arbitrary-length `net.IP`s).  Set only by SetNetworkLayerForChecksum — never by decoding. -/
inductive Pseudo where
  | none
  | v4 (src dst : Bytes)
  | v6 (src dst : Bytes)
  deriving Repr, DecidableEq, Inhabited

/-- layers.UDP: the four public fields, BaseLayer.Contents/Payload, the private port slices and
    the embedded tcpipchecksum. -/
structure Layer where
  srcPort  : Nat
  dstPort  : Nat
  length   : Nat
  checksum : Nat
  sPort    : Bytes
  dPort    : Bytes
  contents : Bytes
  payload  : Bytes
  pseudo   : Pseudo
  deriving Repr, DecidableEq

/-- `&UDP{}`. -/
def Layer.fresh : Layer :=
  { srcPort := 0, dstPort := 0, length := 0, checksum := 0, sPort := [], dPort := [],
    contents := [], payload := [], pseudo := .none }

/-- What one DecodeFromBytes call did: the layer afterwards, whether it called
    `df.SetTruncated()`, and whether it returned a non-nil error. -/
structure DecOut where
  layer : Layer
  trunc : Bool
  err   : Bool
  deriving Repr, DecidableEq

/-- udp.go:30-58 `(*UDP).DecodeFromBytes`, statement by statement. -/
def decodeFromBytes (old : Layer) (data : GoSlice) : Res DecOut :=
  if data.len < 8 then
    -- df.SetTruncated(); return error — the layer is not touched
    .ok { layer := old, trunc := true, err := true }
  else do
    let s ← data.slice 0 2
    let v ← uint16 s
    let l := { old with srcPort := v }                 -- udp.SrcPort = …(data[0:2])
    let s ← data.slice 0 2
    let l := { l with sPort := s.data }                -- udp.sPort = data[0:2]
    let s ← data.slice 2 4
    let v ← uint16 s
    let l := { l with dstPort := v }                   -- udp.DstPort = …(data[2:4])
    let s ← data.slice 2 4
    let l := { l with dPort := s.data }                -- udp.dPort = data[2:4]
    let s ← data.slice 4 6
    let v ← uint16 s
    let l := { l with length := v }                    -- udp.Length = …(data[4:6])
    let s ← data.slice 6 8
    let v ← uint16 s
    let l := { l with checksum := v }                  -- udp.Checksum = …(data[6:8])
    let s ← data.slice 0 8
    let l := { l with contents := s.data, payload := [] }  -- udp.BaseLayer = BaseLayer{Contents: data[:8]}
    if l.length ≥ 8 then
      let hlen := l.length
      if hlen > data.len then
        -- df.SetTruncated(); hlen = len(data)
        let s ← data.slice 8 data.len
        pure { layer := { l with payload := s.data }, trunc := true, err := false }
      else
        let s ← data.slice 8 hlen
        pure { layer := { l with payload := s.data }, trunc := false, err := false }
    else if l.length = 0 then
      let s ← data.slice 8 data.len                    -- jumbogram: data[8:]
      pure { layer := { l with payload := s.data }, trunc := false, err := false }
    else
      pure { layer := l, trunc := false, err := true }  -- "UDP packet too small"

/-- The view asked for by the engine brief: success carries the layer and its truncation
    contribution; an error return loses the (half-filled / untouched) layer. -/
def decodeUdp (old : Layer) (data : Bytes) (foreign : Bytes) : Res (Layer × Bool) :=
  match decodeFromBytes old { data := data, foreign := foreign } with
  | .ok o => if o.err then .err "udp" else .ok (o.layer, o.trunc)
  | .err k => .err k
  | .panic k => .panic k

/-! ## NextLayerType (udp.go:116-121, ports.go:121-171) -/

def LayerTypePayload : Nat := 2
def LayerTypeUDP : Nat := 45

/-- ports.go `UDPPort.LayerType` switch (numbers are the RegisterLayerType ids of layertypes.go;
    tied by the exhaustive 65536-port correspondence run). -/
def portDefault (p : Nat) : Nat :=
  if p = 53 then 107            -- DNS
  else if p = 67 then 118       -- DHCPv4
  else if p = 68 then 118
  else if p = 123 then 117      -- NTP
  else if p = 546 then 134      -- DHCPv6
  else if p = 547 then 134
  else if p = 623 then 142      -- RMCP
  else if p = 666 then 148      -- AGUEVar0
  else if p = 1000 then 150     -- APSP
  else if p = 1812 then 146     -- RADIUS
  else if p = 2123 then 1010    -- GTPv2
  else if p = 2152 then 129     -- GTPv1U
  else if p = 2222 then 151     -- ENIP
  else if p = 3784 then 122     -- BFD
  else if p = 3868 then 154     -- Diameter
  else if p = 4789 then 116     -- VXLAN
  else if p = 5060 then 133     -- SIP
  else if p = 5082 then 133
  else if p = 5083 then 133
  else if p = 6081 then 120     -- Geneve
  else if p = 6343 then 114     -- SFlow
  else if p = 44818 then 151    -- ENIP
  else LayerTypePayload

/-- The global override table filled by RegisterUDPPortLayerType: most recent first. -/
abbrev Overrides := List (Nat × Nat)

def portLayerType (ov : Overrides) (p : Nat) : Nat :=
  match ov.lookup p with
  | some t => t
  | none => portDefault p

def nextLayerType (ov : Overrides) (l : Layer) : Nat :=
  let lt := portLayerType ov l.dstPort
  if lt ≠ LayerTypePayload then lt else portLayerType ov l.srcPort

def canDecode : Nat := LayerTypeUDP
def layerPayload (l : Layer) : Bytes := l.payload

/-! ## decodeUDP as registered for NewPacket (udp.go:123-132) -/

/-- What `decodeUDP(data, p)` does to the PacketBuilder: the layer it adds (ALWAYS, also on
    error), SetTransportLayer, and either the error it returns or the NextDecoder request. -/
structure PktStep where
  added     : Layer
  transport : Bool          -- p.SetTransportLayer(udp) was called
  trunc     : Bool
  err       : Bool          -- decodeUDP returned the DecodeFromBytes error
  next      : Option Nat    -- p.NextDecoder(udp.NextLayerType()) was the return expression
  deriving Repr, DecidableEq

def decodeUDP (ov : Overrides) (data : GoSlice) : Res PktStep := do
  let o ← decodeFromBytes Layer.fresh data       -- udp := &UDP{}; err := udp.DecodeFromBytes(data, p)
  -- p.AddLayer(udp); p.SetTransportLayer(udp)
  if o.err then pure { added := o.layer, transport := true, trunc := o.trunc, err := true, next := none }
  else pure { added := o.layer, transport := true, trunc := o.trunc, err := false,
              next := some (nextLayerType ov o.layer) }

/-! ## Flows (udp.go:134-136, flows.go NewFlow) -/

/-- gopacket.Flow: `typ`, the two lengths and two zero-padded 16-byte arrays. -/
structure Flow where
  typ  : Nat
  slen : Nat
  dlen : Nat
  src  : Bytes
  dst  : Bytes
  deriving Repr, DecidableEq

def EndpointUDPPort : Nat := 5

def pad16 (b : Bytes) : Bytes := b ++ List.replicate (Gp.Gen.Udp.maxEndpointSize - b.length) 0

/-- flows.go NewFlow: explicit panic above MaxEndpointSize, copy into zeroed arrays. -/
def newFlow (t : Nat) (src dst : Bytes) : Res Flow :=
  if src.length > Gp.Gen.Udp.maxEndpointSize ∨ dst.length > Gp.Gen.Udp.maxEndpointSize then .panic .explicit
  else .ok { typ := t, slen := src.length, dlen := dst.length, src := pad16 src, dst := pad16 dst }

def Flow.reverse (f : Flow) : Flow := { typ := f.typ, slen := f.dlen, dlen := f.slen, src := f.dst, dst := f.src }
/-- Flow.Endpoints(): the address bytes of both ends. -/
def Flow.srcBytes (f : Flow) : Bytes := f.src.take f.slen
def Flow.dstBytes (f : Flow) : Bytes := f.dst.take f.dlen

def transportFlow (l : Layer) : Res Flow := newFlow EndpointUDPPort l.sPort l.dPort

/-- udp.go:139-144 SetInternalPortsForTesting. -/
def setInternalPorts (l : Layer) : Layer :=
  { l with sPort := putBe16 l.srcPort, dPort := putBe16 l.dstPort }

/-! ## Checksums (tcpip.go) -/

/-- net.IP.To4. -/
def to4 (a : Bytes) : Option Bytes :=
  if a.length = 4 then some a
  else if a.length = 16 ∧ (a.take 10).all (· == 0) ∧ a[10]? = some 0xff ∧ a[11]? = some 0xff then some (a.drop 12)
  else none

/-- `c.pseudoheader.pseudoheaderChecksum()` incl. the nil check of computeChecksum:
    AddressTo4 / AddressTo16 reject wrong address lengths with an error. -/
def pseudoSum : Pseudo → Res Nat
  | .none => .err "no-network-layer"
  | .v4 s d =>
    match to4 s, to4 d with
    | some s4, some d4 => .ok (Gp.Cksum.pseudo4 s4 d4)
    | _, _ => .err "bad-ipv4-address"
  | .v6 s d =>
    if s.length = 16 ∧ d.length = 16 then .ok (Gp.Cksum.pseudo6 s d 0) else .err "bad-ipv6-address"

/-- tcpip.go computeChecksum(headerAndPayload, IPProtocolUDP). -/
def computeChecksum (p : Pseudo) (headerAndPayload : Bytes) : Res Nat := do
  let ps ← pseudoSum p
  pure (Gp.Cksum.l4sum ps Gp.Gen.Udp.ipProtocolUDP headerAndPayload)

def isV6 : Pseudo → Bool
  | .v6 _ _ => true
  | _ => false

/-! ## SerializeTo (udp.go:63-110) over the C18 buffer model -/

/-- `bytes[off:]` followed by binary.BigEndian.PutUint16: the slice expression panics when
    `off > len(bytes)` (upper bound defaults to len), PutUint16 does `_ = b[1]` and two stores. -/
def put16At (b : SBuf.SBuf) (w : SBuf.Win) (off : Nat) (v : Nat) : Res SBuf.SBuf :=
  if off ≤ w.n then
    if off + 1 < w.n then do
      let b ← SBuf.write b w off (u8 (v / 256))
      SBuf.write b w (off + 1) (u8 v)
    else .panic .index
  else .panic .slice

/-- The uint16 the code stores into u.Length under FixLengths. -/
def fixedLength (p : Pseudo) (payloadLen : Nat) : Nat :=
  if isV6 p ∧ payloadLen + 8 > 65535 then 0                -- jumbo
  else (payloadLen % 65536 + 8) % 65536                     -- uint16(len(payload)) + 8

/-- RFC 768: a computed checksum of zero is transmitted as all ones. -/
def emitChecksum (sum : Nat) : Nat :=
  let folded := Gp.Cksum.fold sum
  if folded = 0 then 0xffff else folded

/-- The stores of SerializeTo through the slice `bytes` (= window `w` of buffer `b`) returned by
    PrependBytes(8); `payloadLen` is `len(payload)` taken before the prepend. -/
def serializeInto (l : Layer) (payloadLen : Nat) (b : SBuf.SBuf) (w : SBuf.Win) (fix csum : Bool) :
    Res (SBuf.SBuf × Layer) := do
  let b ← put16At b w 0 l.srcPort                       -- PutUint16(bytes, uint16(u.SrcPort))
  let b ← put16At b w 2 l.dstPort                       -- PutUint16(bytes[2:], uint16(u.DstPort))
  -- if opts.FixLengths { if jumbo { u.Length = 0 } else { u.Length = uint16(len(payload)) + 8 } }
  let l := if fix then { l with length := fixedLength l.pseudo payloadLen } else l
  let b ← put16At b w 4 l.length                        -- PutUint16(bytes[4:], u.Length)
  if csum then
    let b ← SBuf.write b w 6 0                          -- bytes[6] = 0
    let b ← SBuf.write b w 7 0                          -- bytes[7] = 0
    let sum ← computeChecksum l.pseudo (SBuf.contents b)  -- u.computeChecksum(b.Bytes(), IPProtocolUDP)
    let l := { l with checksum := emitChecksum sum }    -- 0 ↦ 0xffff; u.Checksum = csumFolded
    let b ← put16At b w 6 l.checksum                    -- PutUint16(bytes[6:], u.Checksum)
    pure (b, l)
  else
    let b ← put16At b w 6 l.checksum
    pure (b, l)

/-- `(*UDP).SerializeTo(b, opts)`: returns the buffer and the MUTATED layer.
    `payload := b.Bytes()`; `bytes, err := b.PrependBytes(8)` (err is always nil for n ≥ 0). -/
def serializeUdp (l : Layer) (b : SBuf.SBuf) (fix csum : Bool) : Res (SBuf.SBuf × Layer) :=
  serializeInto l (SBuf.contents b).length (SBuf.prepend b 8).1 (SBuf.prepend b 8).2 fix csum

/-! ## VerifyChecksum (udp.go:146-161) -/

structure Verification where
  valid   : Bool
  correct : Nat
  actual  : Nat
  deriving Repr, DecidableEq

def verifyChecksum (l : Layer) : Res Verification := do
  let bytes := l.contents ++ l.payload                   -- append(u.Contents, u.Payload...)
  let existing := l.checksum
  let verification ← computeChecksum l.pseudo bytes
  let correct := Gp.Cksum.fold ((verification + Gp.Cksum.W32 - existing % Gp.Cksum.W32) % Gp.Cksum.W32)
  -- RFC 768: a computed zero is transmitted as all ones (fix cksum-1 in udp.go)
  let correct := if correct = 0 then 0xffff else correct
  pure { valid := existing = 0 || correct = existing, correct := correct, actual := existing }

end Gp.Udp
