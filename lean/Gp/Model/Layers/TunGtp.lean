import Gp.Model.Layers.Tun
/-
  Engine `ltun`, part 3: GTPv1-U (/repo/layers/gtp.go): DecodeFromBytes, NextLayerType, CanDecode,
  decodeGTPv1u, SerializeTo.

  The model follows the tree WITH the proposed fixes ltun-4 (all length arithmetic in `int`), ltun-5
  (SequenceNumber, NPDU and GTPExtensionHeaders are reset by DecodeFromBytes) and ltun-6 (a next
  extension header type of 0 directly after the fixed header means "no extension header").
  ltun-5 and ltun-6 stay selectable through `Variant`, so these two defects have machine-checked
  witnesses; the uint16 wrap-around that ltun-4 removes needs a 65535-byte input and is witnessed by
  the corpus replay only (corpus/ltun/01-defects.ops), not inside Lean.

  NOT fixed, modelled as it is: SerializeTo hard-codes protocol type 1 and never writes the
  Reserved bit (known finding, see Props/C06/Tun.lean).
-/
namespace Gp.Tun.Gtp
open Gp Gp.Tun

/-- layers.GTPExtensionHeader. -/
structure Ext where
  typ     : Nat      -- Type uint8
  content : Bytes
  deriving Repr, DecidableEq, Inhabited

/-- layers.GTPv1U: BaseLayer + every public field. -/
structure Layer where
  contents            : Bytes
  payload             : Bytes
  version             : Nat     -- uint8 (3 bits)
  protocolType        : Nat     -- uint8 (1 bit)
  reserved            : Nat     -- uint8 (1 bit)
  extensionHeaderFlag : Bool
  sequenceNumberFlag  : Bool
  npduFlag            : Bool
  messageType         : Nat     -- uint8
  messageLength       : Nat     -- uint16
  teid                : Nat     -- uint32
  sequenceNumber      : Nat     -- uint16
  npdu                : Nat     -- uint8
  extensionHeaders    : List Ext
  deriving Repr, DecidableEq, Inhabited

/-- `&GTPv1U{}`. -/
def Layer.fresh : Layer :=
  { contents := [], payload := [], version := 0, protocolType := 0, reserved := 0,
    extensionHeaderFlag := false, sequenceNumberFlag := false, npduFlag := false,
    messageType := 0, messageLength := 0, teid := 0, sequenceNumber := 0, npdu := 0,
    extensionHeaders := [] }

/-- Which of the proposed decoder fixes are in the tree.  `fixed` is the modelled target. -/
structure Variant where
  resets         : Bool   -- ltun-5: `g.SequenceNumber = 0; g.NPDU = 0; g.GTPExtensionHeaders = …[:0]`
  stopOnZeroType : Bool   -- ltun-6: `extensionFlag := data[cIndex-1] != 0` (original: `:= true`)
  deriving Repr, DecidableEq

def Variant.fixed : Variant := ⟨true, true⟩
def Variant.orig : Variant := ⟨false, false⟩

/-- gtp.go: no error path of DecodeFromBytes calls SetTruncated. -/
def errSmall {α : Type} : Res α := .err "GTP packet too small"
def errExt {α : Type} : Res α := .err "GTP packet with invalid extension header"

/-- `data[i]` with `i` an `int` expression `j - 1` (a negative index panics). -/
def indexPred (data : Bytes) (j : Nat) : Res UInt8 :=
  if j = 0 then .panic .index else index data (j - 1)

/-- gtp.go:87-110, the body of `for extensionFlag { … }`, entered with `extensionFlag == true`;
    `cIndex` and `dLen` are ints.  `fuel` bounds the iterations (fuel exhaustion is a panic: the
    theorems show it cannot happen, every iteration advances cIndex by at least 4).  The
    `append(g.GTPExtensionHeaders, eh)` is the cons in front of what the later iterations append. -/
def decodeExts (data foreign : Bytes) : Nat → Nat → Res (List Ext × Nat)
  | 0, _ => .panic .explicit
  | fuel + 1, cIndex =>
    if cIndex ≥ data.length then errSmall else do               -- if cIndex >= dLen
      let t ← indexPred data cIndex                             -- extensionType := data[cIndex-1]
      let el ← index data cIndex                                -- extensionLength := int(data[cIndex])
      if el.toNat = 0 then errExt else do
        let lIndex := cIndex + el.toNat * 4
        if data.length < lIndex then errExt else do             -- if dLen < lIndex
          if lIndex = 0 then .panic .slice else do              -- (lIndex-1 as an int)
          let content ← sliceCap data foreign (cIndex + 1) (lIndex - 1)   -- data[cIndex+1 : lIndex-1]
          let eh : Ext := { typ := t.toNat, content := content }
          let nt ← indexPred data lIndex                        -- cIndex = lIndex; extensionFlag = data[cIndex-1] != 0
          if nt.toNat ≠ 0 then do
            let (rest, ci) ← decodeExts data foreign fuel lIndex
            pure (eh :: rest, ci)
          else pure ([eh], lIndex)

/-- gtp.go:47-116 `(*GTPv1U).DecodeFromBytes`. -/
def decodeV (v : Variant) (old : Layer) (data foreign : Bytes) : Res (Layer × Bool) :=
  let hLen := Gp.Gen.Tun.gtpMinimumSizeInBytes
  if data.length < hLen then errSmall else do
    let d0 ← index data 0
    let version := (d0.toNat >>> 5) &&& 0x07                    -- g.Version = (data[0] >> 5) & 0x07
    let d0 ← index data 0
    let pt := (d0.toNat >>> 4) &&& 0x01                         -- g.ProtocolType
    let d0 ← index data 0
    let rsv := (d0.toNat >>> 3) &&& 0x01                        -- g.Reserved
    let d0 ← index data 0
    let sFlag := decide ((d0.toNat >>> 1) &&& 0x01 = 1)         -- g.SequenceNumberFlag
    let d0 ← index data 0
    let pnFlag := decide (d0.toNat &&& 0x01 = 1)                -- g.NPDUFlag
    let d0 ← index data 0
    let eFlag := decide ((d0.toNat >>> 2) &&& 0x01 = 1)         -- g.ExtensionHeaderFlag
    let d1 ← index data 1                                       -- g.MessageType = data[1]
    let s ← sliceCap data foreign 2 4
    let ml ← beUint16 s                                         -- g.MessageLength
    if data.length < 8 + ml then errSmall else do               -- pLen := 8 + int(MessageLength); dLen < pLen
      let s ← sliceCap data foreign 4 8
      let teid ← beUint32 s                                     -- g.TEID
      let seq0 := if v.resets then 0 else old.sequenceNumber    -- ltun-5
      let npdu0 := if v.resets then 0 else old.npdu
      let exts0 := if v.resets then [] else old.extensionHeaders
      let cIndex := hLen
      let (seq, npdu, exts, cIndex) ←
        (if sFlag || pnFlag || eFlag then
          if data.length < hLen + 4 then errSmall else do       -- hLen += 4; cIndex += 4; dLen < hLen
            let seq ← (if sFlag then do
                         let s ← sliceCap data foreign 8 10
                         beUint16 s                             -- g.SequenceNumber = Uint16(data[8:10])
                       else pure seq0)
            let npdu ← (if pnFlag then do
                          let b ← index data 10                 -- g.NPDU = data[10]
                          pure b.toNat
                        else pure npdu0)
            let (exts, ci) ← (if eFlag then do
                                let t0 ← indexPred data (cIndex + 4)          -- data[cIndex-1]
                                if v.stopOnZeroType && t0.toNat == 0 then pure ([], cIndex + 4)   -- ltun-6
                                else decodeExts data foreign data.length (cIndex + 4)
                              else pure ([], cIndex + 4))
            pure (seq, npdu, exts0 ++ exts, ci)
         else pure (seq0, npdu0, exts0, cIndex) : Res (Nat × Nat × List Ext × Nat))
      let c ← sliceCap data foreign 0 cIndex                    -- BaseLayer{data[:cIndex], data[cIndex:]}
      let p ← sliceFrom data cIndex
      pure ({ contents := c, payload := p, version := version, protocolType := pt, reserved := rsv,
              extensionHeaderFlag := eFlag, sequenceNumberFlag := sFlag, npduFlag := pnFlag,
              messageType := d1.toNat, messageLength := ml, teid := teid, sequenceNumber := seq,
              npdu := npdu, extensionHeaders := exts }, false)

/-- The modelled target: the tree with ltun-4, ltun-5, ltun-6 applied. -/
def decode (old : Layer) (data foreign : Bytes) : Res (Layer × Bool) :=
  decodeV Variant.fixed old data foreign

/-- gtp.go:187 CanDecode. -/
def canDecode : Nat := LayerTypeGTPv1U

/-- gtp.go:192-207 NextLayerType (reads `LayerPayload()[0]` only after the length check). -/
def nextLayerType (l : Layer) : Nat :=
  match l.payload with
  | [] => LayerTypeZero                                         -- len(g.LayerPayload()) == 0
  | p0 :: _ =>
    if l.messageType ≠ 255 then LayerTypePayload
    else
      let version := p0.toNat >>> 4
      if version = 4 then LayerTypeIPv4 else if version = 6 then LayerTypeIPv6 else LayerTypePPP

/-- gtp.go:209-217 `decodeGTPv1u`: fresh layer, DecodeFromBytes, AddLayer,
    `p.NextDecoder(gtp.NextLayerType())` — also for LayerTypeZero (the packet builder returns nil
    for an empty payload before looking at the decoder). -/
def decodePkt (data foreign : Bytes) : Res (PktBeh Layer) := do
  let (l, tr) ← decode Layer.fresh data foreign
  pure { added := l, truncated := tr, setCalls := [], tail := .nextLayerType (nextLayerType l) }

/-! ### SerializeTo (gtp.go:121-184) -/

/-- Result of the extension-header loop: the buffer, `nextExtensionHeaderType`, and whether the
    loop returned the "invalid length" error. -/
structure ExtOut where
  b    : SBuf.SBuf
  next : Nat
  err  : Bool
  deriving Repr, DecidableEq

/-- gtp.go:123-141 `for i := len(hs)-1; i >= 0; i-- { … }`.  The iteration for a header runs AFTER
    the iterations for all headers behind it in the slice, and uses the `nextExtensionHeaderType`
    they leave: recursion on the tail first, then the head.  An error of a later header ends the
    call before the earlier ones are touched.  One PrependBytes per header; the three stores are
    `data[0] = byte((lContent+2)/4)`, `data[lContent+1] = next`, `copy(data[1:lContent+1], Content)`
    (written here in increasing offset order). -/
def putExts : SBuf.SBuf → List Ext → Res ExtOut
  | b, [] => .ok { b := b, next := 0, err := false }                     -- var nextExtensionHeaderType byte
  | b, eh :: rest => do
    let r ← putExts b rest
    if r.err then pure r
    else
      let lContent := eh.content.length
      if lContent % 4 ≠ 2 then pure { r with err := true }
      else
        let pw := SBuf.prepend r.b (lContent + 2)                        -- data, err := b.PrependBytes(lContent + 2)
        do
          let c ← put pw.2 { b := pw.1, off := 0 } [u8 ((lContent + 2) / 4)]   -- data[0]
          let c ← put pw.2 c (eh.content.take lContent)                  -- copy(data[1:lContent+1], eh.Content)
          let c ← put pw.2 c [u8 r.next]                                 -- data[lContent+1] = nextExtensionHeaderType
          pure { b := c.b, next := eh.typ, err := false }                -- nextExtensionHeaderType = eh.Type

/-- `data[0] = g.Version << 5; data[0] |= 1 << 4; if E { |= 0x04 }; if S { |= 0x02 }; if PN { |= 0x01 }`
    (uint8).  ProtocolType and Reserved are NOT consulted. -/
def byte0 (l : Layer) : UInt8 :=
  u8 (((l.version % 256) <<< 5) % 256 ||| 0x10 ||| (if l.extensionHeaderFlag then 0x04 else 0)
        ||| (if l.sequenceNumberFlag then 0x02 else 0) ||| (if l.npduFlag then 0x01 else 0))

/-- `g.ExtensionHeaderFlag = true` at the top of every loop iteration: the receiver once the loop
    over a non-empty header list has started. -/
def withFlag (l : Layer) : Layer :=
  { l with extensionHeaderFlag := l.extensionHeaderFlag || !l.extensionHeaders.isEmpty }

/-- `if opts.FixLengths { g.MessageLength = uint16(n) }`. -/
def fixML (l : Layer) (fix : Bool) (n : Nat) : Layer :=
  if fix then { l with messageLength := n % 65536 } else l

/-- `(*GTPv1U).SerializeTo(b, opts)`; ComputeChecksums is not consulted.  `g.ExtensionHeaderFlag = true`
    is assigned at the top of every loop iteration, i.e. whenever there is at least one extension
    header — also when the call then fails on that header. -/
def serializeTo (l : Layer) (b : SBuf.SBuf) (opts : Opts) : Res (SerOut Layer) := do
  let l := withFlag l
  let r ← putExts b l.extensionHeaders
  if r.err then pure { buf := r.b, layer := l, err := true }
  else do
    let b ← (if l.extensionHeaderFlag || l.sequenceNumberFlag || l.npduFlag then
               let pw := SBuf.prepend r.b 4                                  -- data, err := b.PrependBytes(4)
               do
                 let c ← put pw.2 { b := pw.1, off := 0 } (putBe16 l.sequenceNumber)  -- PutUint16(data[:2], g.SequenceNumber)
                 let c ← put pw.2 c [u8 l.npdu]                              -- data[2] = g.NPDU
                 let c ← put pw.2 c [u8 r.next]                              -- data[3] = nextExtensionHeaderType
                 pure c.b
             else pure r.b)
    let l := fixML l opts.fixLengths (SBuf.contents b).length                -- if opts.FixLengths { g.MessageLength = uint16(len(b.Bytes())) }
    let pw := SBuf.prepend b Gp.Gen.Tun.gtpMinimumSizeInBytes                -- b.PrependBytes(gtpMinimumSizeInBytes)
    let c ← put pw.2 { b := pw.1, off := 0 } [byte0 l]                       -- data[0]
    let c ← put pw.2 c [u8 l.messageType]                                    -- data[1] = g.MessageType
    let c ← put pw.2 c (putBe16 l.messageLength)                             -- PutUint16(data[2:4], g.MessageLength)
    let c ← put pw.2 c (putBe32 l.teid)                                      -- PutUint32(data[4:8], g.TEID)
    pure { buf := c.b, layer := l, err := false }

/-- the view asked for by the brief. -/
def serialize (l : Layer) (b : SBuf.SBuf) (opts : Opts) : Res (SBuf.SBuf × Layer) :=
  serView (serializeTo l b opts) "gtp"

end Gp.Tun.Gtp
