import Gp.Go.Basic
import Gp.Model.SBuf
import Gp.Model.Layers.Arp
import Gp.Gen.Diam
/-
  Model of /repo/layers/diameter.go and /repo/layers/diameter_avp_decoders.go (engine `ldiam`):

    Diameter.DecodeFromBytes, decodeDiameterAVP (recursive: Grouped AVPs), the AVP loops,
    GetDiameterAVPType (only "is it Grouped"), Diameter.SerializeTo, SerializeDiameterAVP,
    SerializedAVPLength, CanDecode, NextLayerType, Payload, LayerPayload, decodeDiameter.

  Conventions (DESIGN §3, shared with engine `larp`, whose `GSlice`/window helpers are imported
  read-only from Gp.Model.Layers.Arp): a Go panic is `Res.panic`; a Go `[]byte` is its visible bytes
  plus the foreign bytes between len and cap: `s[a:b]` panics iff ¬(a ≤ b ∧ b ≤ cap), `s[i]` panics
  iff i ≥ len.  Sized integers are `Nat` with an explicit `%` wherever Go truncates.  A Go `error`
  return is a *value* (`err := true`) so that what the call did to the receiver before returning
  stays visible (Diameter.DecodeFromBytes returns errors with Version / MessageLength already
  overwritten).  `x<<16 | y<<8 | z` over bytes is written `x*65536 + y*256 + z` (disjoint bits).

  Recursion: decodeDiameterAVP calls itself on the Data of a Grouped AVP.  The model is
  structurally recursive on a fuel argument; running out of fuel is `Res.panic .explicit`, so the
  C19 theorem "no panic" is at the same time the proof that the fuel `len(data)+2` suffices.
  Core Lean only.
-/
namespace Gp.Diam
open Gp Gp.SBuf Gp.Arp Gp.Gen.Diam

/-! ## Layer-type numbers -/
def LayerTypeZero : Nat := 0
def LayerTypePayload : Nat := 2
def LayerTypeDiameter : Nat := 154

/-! ## The structs -/

/-- layers.DiameterAVP: Code, Flags{Vendor, Mandatory, Protected}, Length (24 bit), VendorID, Data,
    GroupedAVPs (`none` = Go nil: not a Grouped type; `some l` = the non-nil slice built for a
    Grouped AVP, possibly empty). -/
structure AVP where
  code       : Nat
  fVendor    : Bool
  fMandatory : Bool
  fProtected : Bool
  length     : Nat
  vendorID   : Nat
  data       : Bytes
  grouped    : Option (List AVP)
  deriving Repr

/-- layers.Diameter: BaseLayer{Contents, Payload}, Version (uint8), MessageLength (uint32, 24 bit on
    the wire), CommandFlags{Request, Proxiable, Error, Retransmitted}, CommandCode, ApplicationID,
    HopByHopID, EndToEndID (uint32), AVPs. -/
structure Diameter where
  contents       : Bytes
  payload        : Bytes
  version        : Nat
  messageLength  : Nat
  fRequest       : Bool
  fProxiable     : Bool
  fError         : Bool
  fRetransmitted : Bool
  commandCode    : Nat
  applicationID  : Nat
  hopByHopID     : Nat
  endToEndID     : Nat
  avps           : List AVP
  deriving Repr

/-- `&Diameter{}`. -/
def Diameter.fresh : Diameter :=
  { contents := [], payload := [], version := 0, messageLength := 0, fRequest := false,
    fProxiable := false, fError := false, fRetransmitted := false, commandCode := 0,
    applicationID := 0, hopByHopID := 0, endToEndID := 0, avps := [] }

/-! ## GetDiameterAVPType(code, vendor) == (Grouped, true) -/

/-- diameter_avp_codes.go `diameterAVPTypeMap`: the standard codes of type Grouped. -/
def stdGrouped : List Nat :=
  [diameterAVPCodeFailedAVP, diameterAVPCodeProxyInfo, diameterAVPCodeExperimentalResult,
   diameterAVPCodeVendorSpecificAppID]

/-- `diameterVendorAVPTypeMap`: the (code, vendor) keys of type Grouped.  (No key of the vendor map
    has a code that is Grouped in the standard map with a different type, so the "vendor entry
    shadows the standard entry" rule of GetDiameterAVPType cannot change Grouped-ness; tied by the
    exhaustive correspondence op `ldiam grp`.) -/
def vendorGrouped : List (Nat × Nat) :=
  [(diameterAVPCode3GPPSubscriptionId, diameterVendor3GPP), (diameterAVPCode3GPPTraceData, diameterVendor3GPP),
   (diameterAVPCodeETSIVisitedNetworkID, diameterVendorETSI),
   (diameterAVPCodeETSIChargingInformation, diameterVendorETSI),
   (diameterAVPCodeETSISupportedFeatures, diameterVendorETSI)]

/-- `avpType, ok := GetDiameterAVPType(code, vendorID); ok && avpType == DiameterAVPTypeGrouped`
    for the shipped tables.  The decoder model takes this predicate as a parameter `grp`; every
    theorem holds for every predicate. -/
def isGrouped (code vendor : Nat) : Bool :=
  (vendor != 0 && vendorGrouped.contains (code, vendor)) || stdGrouped.contains code

/-! ## Reads -/

def be24 (a b c : UInt8) : Nat := a.toNat * 65536 + b.toNat * 256 + c.toNat

/-- `binary.BigEndian.Uint32(data[a:a+4])`. -/
def rd32 (data : GSlice) (a : Nat) : Res Nat := do
  let s ← data.slice a (a + 4)
  uint32be s

/-- `uint32(data[a])<<16 | uint32(data[a+1])<<8 | uint32(data[a+2])`. -/
def rd24 (data : GSlice) (a : Nat) : Res Nat := do
  let x ← data.index a
  let y ← data.index (a + 1)
  let z ← data.index (a + 2)
  pure (be24 x y z)

/-- `paddedLength := length; if length%4 != 0 { paddedLength = length + (4 - length%4) }`. -/
def padded (length : Nat) : Nat := if length % 4 ≠ 0 then length + (4 - length % 4) else length

/-! ## decodeDiameterAVP and the AVP loops -/

mutual
/-- diameter_avp_decoders.go:10-85 `decodeDiameterAVP(data)`: `none` = an error return,
    `some (avp, bytesConsumed)` otherwise. -/
def decodeAVP (grp : Nat → Nat → Bool) : Nat → GSlice → Res (Option (AVP × Nat))
  | 0, _ => .panic .explicit                                    -- out of fuel (never: C19)
  | fuel + 1, data =>
    if data.len < 8 then pure none else do                      -- "AVP too short"
    let code ← rd32 data 0                                      -- avp.Code = Uint32(data[0:4])
    let b4 ← data.index 4                                       -- data[4] (read three times)
    let fV := (b4.toNat &&& 0x80) != 0                          -- avp.Flags.Vendor
    let fM := (b4.toNat &&& 0x40) != 0                          -- avp.Flags.Mandatory
    let fP := (b4.toNat &&& 0x20) != 0                          -- avp.Flags.Protected
    let length ← rd24 data 5                                    -- avp.Length
    if length < 8 then pure none else                           -- "invalid AVP length"
    -- headerSize := 8; dataOffset := 8; if avp.Flags.Vendor { … }
    if fV && data.len < 12 then pure none else do               -- "AVP with vendor flag too short"
    let vendorID ← (if fV then rd32 data 8 else pure 0)         -- avp.VendorID = Uint32(data[8:12])
    let hdr := if fV then 12 else 8
    let paddedLength := padded length
    if data.len < paddedLength then pure none else              -- "AVP data truncated"
    if length < hdr then pure none else do                      -- "smaller than header size"
    let dataLength := length - hdr
    let src ← data.slice hdr (hdr + dataLength)                 -- data[dataOffset:dataOffset+int(dataLength)]
    let d := src.vis                                            -- avp.Data = make(dataLength); copy(avp.Data, …)
    let g ← (if grp code vendorID then do                       -- ok && avpType == Grouped
               -- avp.GroupedAVPs = []DiameterAVP{}; subAVPData := avp.Data (cap = len: made by make)
               let r ← avpLoop grp fuel { vis := d, tail := [] } []
               pure (some r.1)                                  -- `if err != nil { break }`: flag dropped
             else pure none)
    pure (some ({ code := code, fVendor := fV, fMandatory := fM, fProtected := fP, length := length,
                  vendorID := vendorID, data := d, grouped := g }, paddedLength))

/-- `for len(avpData) >= 8 { avp, n, err := decodeDiameterAVP(avpData); if err != nil { … break };
    list = append(list, avp); avpData = avpData[n:] }` — the loop of Diameter.DecodeFromBytes
    (diameter.go:162-170, where the error branch calls df.SetTruncated()) and the loop over the
    sub-AVPs (diameter_avp_decoders.go:72-79, which only breaks).  Result: the list and whether the
    loop ended in the error branch. -/
def avpLoop (grp : Nat → Nat → Bool) : Nat → GSlice → List AVP → Res (List AVP × Bool)
  | 0, _, _ => .panic .explicit                                 -- out of fuel (never: C19)
  | fuel + 1, s, acc =>
    if s.len < 8 then pure (acc, false) else do
    let r ← decodeAVP grp fuel s
    match r with
    | none => pure (acc, true)
    | some (a, n) => do
      let rest ← s.sliceFrom n                                  -- avpData[bytesConsumed:]
      avpLoop grp fuel rest (acc ++ [a])
end

/-! ## Diameter.DecodeFromBytes -/

/-- diameter.go:118-175, statement by statement.  `old` is the receiver before the call.  The four
    error returns happen before/after `d.Version`, `d.MessageLength` are assigned; none of them
    calls SetTruncated.  `uint32(len(data))`: packets are shorter than 2^32 bytes. -/
def Diameter.decodeFromBytes (grp : Nat → Nat → Bool) (old : Diameter) (data : GSlice) :
    Res (DecOut Diameter) :=
  if data.len < 20 then
    .ok { layer := old, trunc := false, err := true }           -- "diameter message too short"
  else do
    let b0 ← data.index 0
    let l := { old with version := b0.toNat }                    -- d.Version = data[0]
    if l.version ≠ 1 then
      pure { layer := l, trunc := false, err := true }           -- "unsupported diameter version"
    else do
    let ml ← rd24 data 1
    let l := { l with messageLength := ml }                      -- d.MessageLength = …data[1..3]
    if l.messageLength < 20 then
      pure { layer := l, trunc := false, err := true }           -- "message length below 20-byte header"
    else if data.len < l.messageLength then
      pure { layer := l, trunc := false, err := true }           -- "diameter message truncated"
    else do
    let b4 ← data.index 4                                        -- data[4] (read four times)
    let l := { l with fRequest := (b4.toNat &&& 0x80) != 0 }
    let l := { l with fProxiable := (b4.toNat &&& 0x40) != 0 }
    let l := { l with fError := (b4.toNat &&& 0x20) != 0 }
    let l := { l with fRetransmitted := (b4.toNat &&& 0x10) != 0 }
    let cc ← rd24 data 5
    let l := { l with commandCode := cc }                        -- d.CommandCode
    let v ← rd32 data 8
    let l := { l with applicationID := v }                       -- Uint32(data[8:12])
    let v ← rd32 data 12
    let l := { l with hopByHopID := v }                          -- Uint32(data[12:16])
    let v ← rd32 data 16
    let l := { l with endToEndID := v }                          -- Uint32(data[16:20])
    let avpData ← data.slice 20 l.messageLength                  -- avpData := data[20:d.MessageLength]
    let l := { l with avps := [] }                               -- d.AVPs = []DiameterAVP{}
    let r ← avpLoop grp (data.len + 2) avpData l.avps            -- the loop; err ⇒ df.SetTruncated()
    let l := { l with avps := r.1 }
    let c ← data.slice 0 l.messageLength                         -- data[:d.MessageLength]
    let l := { l with contents := c.vis, payload := [] }         -- d.BaseLayer = BaseLayer{Contents: …}
    pure { layer := l, trunc := r.2, err := false }

/-- The view asked for by the engine brief: success carries the layer and its truncation
    contribution; an error return is `.err`.  `cap = |data| + |foreign|`. -/
def decodeDiam (grp : Nat → Nat → Bool) (old : Diameter) (data : Bytes) (foreign : Bytes) :
    Res (Diameter × Bool) :=
  match old.decodeFromBytes grp { vis := data, tail := foreign } with
  | .ok o => if o.err then .err "diameter" else .ok (o.layer, o.trunc)
  | .err k => .err k
  | .panic k => .panic k

/-- diameter.go:91 CanDecode. -/
def Diameter.canDecode : Nat := LayerTypeDiameter
/-- diameter.go:96 NextLayerType = gopacket.LayerTypePayload. -/
def Diameter.nextLayerType (_ : Diameter) : Nat := LayerTypePayload
/-- diameter.go:101 `Payload()` returns nil (overrides BaseLayer.Payload). -/
def Diameter.payloadMethod (_ : Diameter) : Bytes := []
/-- base.go `LayerPayload()` = BaseLayer.Payload (nil after every successful decode). -/
def Diameter.layerPayload (l : Diameter) : Bytes := l.payload

/-! ## decodeDiameter, the function registered for NewPacket -/

inductive DAct where
  | setTruncated
  | addLayer (t : Nat)
  | setApplicationLayer
  deriving Repr, DecidableEq

inductive DTail where
  | done                          -- return nil
  | fail                          -- return err
  deriving Repr, DecidableEq

structure DBeh where
  acts : List DAct
  tail : DTail
  deriving Repr, DecidableEq

/-- diameter.go:106-115 `decodeDiameter`: `d := &Diameter{}; err := d.DecodeFromBytes(data, p)`
    (p is the DecodeFeedback: SetTruncated reaches the packet), on error return it; otherwise
    `p.AddLayer(d); p.SetApplicationLayer(d); return nil` — no NextDecoder: bytes behind
    MessageLength are not decoded. -/
def decodeDiameterFn (grp : Nat → Nat → Bool) (data : GSlice) : Res (DBeh × Option Diameter) := do
  let o ← Diameter.fresh.decodeFromBytes grp data
  let tr := if o.trunc then [DAct.setTruncated] else []
  if o.err then pure ({ acts := tr, tail := .fail }, none)
  else pure ({ acts := tr ++ [.addLayer LayerTypeDiameter, .setApplicationLayer], tail := .done }, some o.layer)

/-! ## DecodingLayerParser holding only a Diameter (layers_decoder.go loop, parser.go DecodeLayers) -/

structure DlpOut where
  layer   : Diameter
  decoded : List Nat
  trunc   : Bool
  code    : Nat        -- 0 = nil, 1 = the error of DecodeFromBytes, 2 = UnsupportedLayerType(Payload)
  deriving Repr

/-- `l.Truncated = false; decoded = decoded[:0]`; one `DecodeFromBytes(data, l)`; on error return it;
    `decoded = append(decoded, LayerTypeDiameter)`; `typ = NextLayerType()` (Payload);
    `data = LayerPayload()`: empty after every successful decode ⇒ break, return nil.  (Were it
    non-empty, LayerTypePayload has no decoder in this parser: UnsupportedLayerType.) -/
def dlpDecodeLayers (grp : Nat → Nat → Bool) (d : Diameter) (data : GSlice) : Res DlpOut := do
  let o ← d.decodeFromBytes grp data
  if o.err then pure { layer := o.layer, decoded := [], trunc := o.trunc, code := 1 }
  else if o.layer.layerPayload.length = 0 then
    pure { layer := o.layer, decoded := [LayerTypeDiameter], trunc := o.trunc, code := 0 }
  else pure { layer := o.layer, decoded := [LayerTypeDiameter], trunc := o.trunc, code := 2 }

/-! ## Serialization, over the C18 buffer model -/

/-- `w[a:b]` on a slice handed out by the buffer (checked against the window's length; Go checks the
    capacity, which is at least that: the model panics at least as often as the code). -/
def winSlice (w : Win) (a b : Nat) : Res Win :=
  if a ≤ b ∧ b ≤ w.n then .ok { gen := w.gen, off := w.off + a, n := b - a } else .panic .slice

/-- diameter_avp_decoders.go:150-161 `SerializedAVPLength`. -/
def serializedAVPLength (a : AVP) : Nat :=
  let headerSize := if a.fVendor then 12 else 8
  padded (headerSize + a.data.length)

/-- `bytes[4] = 0; if Vendor { bytes[4] |= 0x80 } …` -/
def avpFlagsByte (a : AVP) : Nat :=
  (if a.fVendor then 0x80 else 0) + (if a.fMandatory then 0x40 else 0) + (if a.fProtected then 0x20 else 0)

/-- diameter_avp_decoders.go:104-147 `SerializeDiameterAVP`: a fresh zeroed slice of the padded
    length (`make`), PutUint32(bytes[0:4], Code), the flag byte, the 24-bit length
    `byte(length>>16), byte(length>>8), byte(length)` of header+len(Data) (NOT avp.Length),
    PutUint32(bytes[8:12], VendorID) and `copy(bytes[12:], Data)` when the Vendor flag is set, else
    `copy(bytes[8:], Data)`; the padding keeps the zeros of `make`.  GroupedAVPs and Length are
    ignored.  All slice bounds are within the made length (≥ 8, ≥ 12 with the flag): no panic. -/
def serializeAVP (a : AVP) : Bytes :=
  let headerSize := if a.fVendor then 12 else 8
  let length := headerSize + a.data.length
  putBe32 a.code ++ [u8 (avpFlagsByte a)] ++ [u8 (length / 65536), u8 (length / 256), u8 length] ++
    (if a.fVendor then putBe32 a.vendorID else []) ++ a.data ++ zeros (padded length - length)

/-- The command-flags byte after `bytes[4] = 0` and the four conditional `bytes[4] |= …`. -/
def cmdFlagsByte (l : Diameter) : Nat :=
  (if l.fRequest then 0x80 else 0) + (if l.fProxiable then 0x40 else 0) + (if l.fError then 0x20 else 0) +
    (if l.fRetransmitted then 0x10 else 0)

/-- diameter.go:179-242 `(*Diameter).SerializeTo`.  FixLengths overwrites d.MessageLength with
    uint32(20 + Σ SerializedAVPLength) BEFORE PrependBytes; without it the field is written as it is.
    `byte(x >> 16)` keeps the low 8 bits: values ≥ 2^24 are silently cut.  The store `bytes[4] = 0`
    followed by the read-modify-write `|=`s is modelled as one store of the resulting byte.
    The AVP loop is `copyAddrs` of the `larp` model: `copy(bytes[offset:], avpBytes); offset += len`.
    (`PrependBytes` of the default buffer never returns an error.) -/
def Diameter.serializeTo (l : Diameter) (b : SBuf) (fix _csum : Bool) : Res (SerOut Diameter) :=
  let messageLength := 20 + (l.avps.map serializedAVPLength).sum
  let l := if fix then { l with messageLength := messageLength % 4294967296 } else l
  let (b, bytes) := prepend b messageLength                     -- bytes, err := b.PrependBytes(messageLength)
  do
    let b ← write b bytes 0 (u8 l.version)                      -- bytes[0] = d.Version
    let b ← write b bytes 1 (u8 (l.messageLength / 65536))      -- bytes[1] = byte(d.MessageLength >> 16)
    let b ← write b bytes 2 (u8 (l.messageLength / 256))        -- bytes[2] = byte(d.MessageLength >> 8)
    let b ← write b bytes 3 (u8 l.messageLength)                -- bytes[3] = byte(d.MessageLength)
    let b ← write b bytes 4 (u8 (cmdFlagsByte l))               -- bytes[4] = 0; |= 0x80/0x40/0x20/0x10
    let b ← write b bytes 5 (u8 (l.commandCode / 65536))        -- bytes[5] = byte(d.CommandCode >> 16)
    let b ← write b bytes 6 (u8 (l.commandCode / 256))          -- bytes[6]
    let b ← write b bytes 7 (u8 l.commandCode)                  -- bytes[7]
    let w ← winSlice bytes 8 12
    let b ← putUint32be b w l.applicationID                     -- PutUint32(bytes[8:12], d.ApplicationID)
    let w ← winSlice bytes 12 16
    let b ← putUint32be b w l.hopByHopID                        -- PutUint32(bytes[12:16], d.HopByHopID)
    let w ← winSlice bytes 16 20
    let b ← putUint32be b w l.endToEndID                        -- PutUint32(bytes[16:20], d.EndToEndID)
    let b ← copyAddrs b bytes 20 (l.avps.map serializeAVP)      -- for _, avp := range d.AVPs { copy(bytes[offset:], …) }
    pure { buf := b, layer := l, err := false }

/-- View asked for by the brief: `.err` when SerializeTo returned an error (it never does). -/
def serializeDiam (l : Diameter) (b : SBuf) (fix csum : Bool) : Res (SBuf × Diameter) :=
  match l.serializeTo b fix csum with
  | .ok o => if o.err then .err "diameter" else .ok (o.buf, o.layer)
  | .err k => .err k
  | .panic k => .panic k

end Gp.Diam
