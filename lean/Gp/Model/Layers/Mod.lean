import Gp.Go.Basic
import Gp.Gen.Mod
/-
  Model of the decode-only layers of engine `lmod`:

    /repo/layers/modbustcp.go  ModbusTCP.DecodeFromBytes, NextLayerType, CanDecode, Payload, decodeModbusTCP
    /repo/layers/lcm.go        LCM.DecodeFromBytes (with proposed_fixes/lmod-1: the conditionally present
                               fields are reset), NextLayerType, GetLCMLayerType, CanDecode, decodeLCM
    /repo/layers/pflog.go      PFLog.DecodeFromBytes (with proposed_fixes/all-14), NextLayerType, CanDecode,
                               decodePFLog (= base.go decodingLayerDecoder)
    /repo/layers/fddi.go       decodeFDDI (with proposed_fixes/all-7; NO DecodeFromBytes), FDDI.LinkFlow
    + enums_generated.go ProtocolFamily.LayerType / FDDIFrameControl.Decode over the tables filled in
      enums.go, flows.go NewFlow / Reverse as used by FDDI.LinkFlow.

  NONE of the four layers has a SerializeTo method: there is no serializer to model (no C06/C07 part).

  Conventions (DESIGN §3): a Go panic is `Res.panic`; a Go `[]byte` is its visible bytes plus the
  *foreign* bytes between len and cap (`GSlice`): `s[a:b]` panics iff ¬(a ≤ b ∧ b ≤ cap), `s[i]`
  panics iff i ≥ len.  Sized integers are `Nat` with an explicit `%` wherever Go truncates; the two
  int32 fields of PFLog are `Int`.  A Go `error` return of DecodeFromBytes is a *value* (`err := true`)
  so that what the call did to the receiver before returning the error stays visible (ModbusTCP returns
  its "wrong Length" error with Contents, Payload and three fields already overwritten; LCM its "magic"
  error with Magic overwritten; PFLog its "data size" error with all thirteen fields overwritten).
  Every assignment of the Go source appears, in source order.  Core Lean only.
-/
namespace Gp.Mod
open Gp Gp.Gen.Mod

/-! ## Go slices with capacity -/

/-- A Go `[]byte`: `vis` = the `len` visible bytes, `tail` = the bytes of the backing array between
    `len` and `cap` (cap = len on the copying decode path; larger under NoCopy / Pool, and for every
    inner layer of a packet, whose input is a sub-slice of the packet buffer). -/
structure GSlice where
  vis  : Bytes
  tail : Bytes
  deriving Repr, DecidableEq

namespace GSlice
def len (s : GSlice) : Nat := s.vis.length
def cap (s : GSlice) : Nat := s.vis.length + s.tail.length
/-- Go `s[a:b]`: the upper bound is checked against the CAPACITY. -/
def slice (s : GSlice) (a b : Nat) : Res GSlice :=
  if a ≤ b ∧ b ≤ s.cap then
    .ok { vis := ((s.vis ++ s.tail).drop a).take (b - a), tail := (s.vis ++ s.tail).drop b }
  else .panic .slice
/-- Go `s[a:]` (= `s[a:len(s)]`): panics iff a > len. -/
def sliceFrom (s : GSlice) (a : Nat) : Res GSlice :=
  if a ≤ s.len then .ok { vis := s.vis.drop a, tail := s.tail } else .panic .slice
/-- Go `s[i]`: the bound is the LENGTH. -/
def index (s : GSlice) (i : Nat) : Res UInt8 := Gp.index s.vis i
end GSlice

/-- encoding/binary `BigEndian.Uint16(b)`: `_ = b[1]` (early bounds check), then b[0]<<8 | b[1]. -/
def uint16 (s : GSlice) : Res Nat := do
  let b1 ← s.index 1
  let b0 ← s.index 0
  pure (be16 b0 b1)

/-- `BigEndian.Uint32(b)`: `_ = b[3]`, then b[3] | b[2]<<8 | b[1]<<16 | b[0]<<24. -/
def uint32 (s : GSlice) : Res Nat := do
  let b3 ← s.index 3
  let b2 ← s.index 2
  let b1 ← s.index 1
  let b0 ← s.index 0
  pure (be32 b0 b1 b2 b3)

/-- The big-endian value of eight bytes. -/
def be64 (b0 b1 b2 b3 b4 b5 b6 b7 : UInt8) : Nat :=
  be32 b0 b1 b2 b3 * 4294967296 + be32 b4 b5 b6 b7

/-- `BigEndian.Uint64(b)`: `_ = b[7]`, then b[7] | b[6]<<8 | … | b[0]<<56. -/
def uint64 (s : GSlice) : Res Nat := do
  let b7 ← s.index 7
  let b6 ← s.index 6
  let b5 ← s.index 5
  let b4 ← s.index 4
  let b3 ← s.index 3
  let b2 ← s.index 2
  let b1 ← s.index 1
  let b0 ← s.index 0
  pure (be64 b0 b1 b2 b3 b4 b5 b6 b7)

/-! ## Layer-type numbers (layertypes.go / decode.go RegisterLayerType ids), endpoint types -/

def LayerTypeZero : Nat := 0
def LayerTypePayload : Nat := 2
def LayerTypeFragment : Nat := 3
def LayerTypeIPv4 : Nat := 20
def LayerTypeIPv6 : Nat := 21
def LayerTypeLLC : Nat := 22
def LayerTypeFDDI : Nat := 53
def LayerTypePFLog : Nat := 63
def LayerTypeLCM : Nat := 131
def LayerTypeModbusTCP : Nat := 141

/-- endpoints.go `EndpointMAC = RegisterEndpointType(3, …)`. -/
def EndpointMAC : Nat := 3

/-- What one DecodeFromBytes call did: the receiver afterwards, whether it called
    `df.SetTruncated()`, and whether it returned a non-nil error. -/
structure DecOut (L : Type) where
  layer : L
  trunc : Bool
  err   : Bool
  deriving Repr, DecidableEq

/-! ## ModbusTCP (modbustcp.go) -/

/-- layers.ModbusTCP: BaseLayer{Contents, Payload}, TransactionIdentifier (uint16),
    ProtocolIdentifier (ModbusProtocol = uint16), Length (uint16), UnitIdentifier (uint8). -/
structure ModbusTCP where
  contents              : Bytes
  payload               : Bytes
  transactionIdentifier : Nat
  protocolIdentifier    : Nat
  length                : Nat
  unitIdentifier        : Nat
  deriving Repr, DecidableEq

/-- `&ModbusTCP{}`. -/
def ModbusTCP.fresh : ModbusTCP :=
  { contents := [], payload := [], transactionIdentifier := 0, protocolIdentifier := 0, length := 0,
    unitIdentifier := 0 }

/-- modbustcp.go:103-135 `(*ModbusTCP).DecodeFromBytes`, statement by statement.  `old` is the receiver
    before the call.  The two size errors (below 7+2, above 7+253 bytes) and the Length error all call
    SetTruncated.  NOTE the third error return (`Length` ≠ payload size + 1) happens after BaseLayer,
    TransactionIdentifier, ProtocolIdentifier and Length have been assigned while UnitIdentifier is still
    the previous packet's.  The protocol identifier is NOT checked (any value decodes).
    The sizes are the GENERATED constants. -/
def ModbusTCP.decodeFromBytes (old : ModbusTCP) (data : GSlice) : Res (DecOut ModbusTCP) :=
  if data.len < mbapRecordSizeInBytes + modbusPDUMinimumRecordSizeInBytes then
    .ok { layer := old, trunc := true, err := true }             -- df.SetTruncated(); "ModbusTCP packet too short"
  else if data.len > mbapRecordSizeInBytes + modbusPDUMaximumRecordSizeInBytes then
    .ok { layer := old, trunc := true, err := true }             -- df.SetTruncated(); "ModbusTCP packet too long"
  else do
    let c ← data.slice 0 mbapRecordSizeInBytes                   -- Contents: data[:mbapRecordSizeInBytes]
    let p ← data.slice mbapRecordSizeInBytes data.len            -- Payload: data[mbapRecordSizeInBytes:len(data)]
    let l := { old with contents := c.vis, payload := p.vis }    -- d.BaseLayer = BaseLayer{…}
    let s ← data.slice 0 2
    let v ← uint16 s
    let l := { l with transactionIdentifier := v }               -- d.TransactionIdentifier = Uint16(data[:2])
    let s ← data.slice 2 4
    let v ← uint16 s
    let l := { l with protocolIdentifier := v }                  -- d.ProtocolIdentifier = ModbusProtocol(Uint16(data[2:4]))
    let s ← data.slice 4 6
    let v ← uint16 s
    let l := { l with length := v }                              -- d.Length = Uint16(data[4:6])
    if l.length ≠ (l.payload.length + 1) % 65536 then            -- if d.Length != uint16(len(d.BaseLayer.Payload)+1)
      pure { layer := l, trunc := true, err := true }            -- df.SetTruncated(); "… wrong field value (Length)"
    else do
      let b ← data.index 6
      let l := { l with unitIdentifier := b.toNat }              -- d.UnitIdentifier = uint8(data[6])
      pure { layer := l, trunc := false, err := false }

/-- The view asked for by the engine brief: success carries the layer and its truncation
    contribution; an error return is `.err`.  `cap = |data| + |foreign|`. -/
def decodeModbus (old : ModbusTCP) (data : Bytes) (foreign : Bytes) : Res (ModbusTCP × Bool) :=
  match old.decodeFromBytes { vis := data, tail := foreign } with
  | .ok o => if o.err then .err "modbus" else .ok (o.layer, o.trunc)
  | .err k => .err k
  | .panic k => .panic k

/-- modbustcp.go:153 CanDecode. -/
def ModbusTCP.canDecode : Nat := LayerTypeModbusTCP
/-- modbustcp.go:140 NextLayerType = LayerTypePayload. -/
def ModbusTCP.nextLayerType (_ : ModbusTCP) : Nat := LayerTypePayload
/-- base.go LayerPayload / modbustcp.go:147 Payload. -/
def ModbusTCP.layerPayload (l : ModbusTCP) : Bytes := l.payload

/-! ## LCM (lcm.go) -/

/-- layers.LCM: Magic, SequenceNumber, PayloadSize, FragmentOffset (uint32), FragmentNumber,
    TotalFragments (uint16), ChannelName (a Go string: any bytes), Fragmented, and the PRIVATE
    fingerprint (uint64), contents, payload. -/
structure LCM where
  magic          : Nat
  sequenceNumber : Nat
  payloadSize    : Nat
  fragmentOffset : Nat
  fragmentNumber : Nat
  totalFragments : Nat
  channelName    : Bytes
  fragmented     : Bool
  fingerprint    : Nat
  contents       : Bytes
  payload        : Bytes
  deriving Repr, DecidableEq

/-- `&LCM{}`. -/
def LCM.fresh : LCM :=
  { magic := 0, sequenceNumber := 0, payloadSize := 0, fragmentOffset := 0, fragmentNumber := 0,
    totalFragments := 0, channelName := [], fragmented := false, fingerprint := 0, contents := [], payload := [] }

/-- lcm.go:169-179 `for _, b := range data[offset:] { offset++; if b == 0 { break }; buffer = append(buffer, b) }`
    as structural recursion over the ranged-over bytes: the new offset and the buffer.  Terminates with
    the slice (Lean's structural termination check): there is no NUL search past the end. -/
def scanName : Bytes → Nat → Bytes → Nat × Bytes
  | [], off, buf => (off, buf)
  | b :: rest, off, buf => if b = 0 then (off + 1, buf) else scanName rest (off + 1) (buf ++ [b])

/-- lcm.go:165-190: the part of DecodeFromBytes after the (optional) fragment header, entered with
    the running `offset`.  `len(data)-offset >= 8` is int arithmetic (= `offset + 8 ≤ len`). -/
def LCM.decodeTail (l : LCM) (data : GSlice) (offset : Nat) : Res (DecOut LCM) := do
  let (l, offset) ←
    (if !l.fragmented || (l.fragmented && l.fragmentNumber == 0) then do
      let rest ← data.sliceFrom offset                           -- range data[offset:]
      let r := scanName rest.vis offset []                       -- buffer := make([]byte, 0); the loop
      pure ({ l with channelName := r.2 }, r.1)                  -- lcm.ChannelName = string(buffer)
    else pure (l, offset) : Res (LCM × Nat))
  let l ←
    (if offset + 8 ≤ data.len then do                            -- if len(data)-offset >= 8
      let s ← data.slice offset (offset + 8)
      let v ← uint64 s
      pure { l with fingerprint := v }                           -- lcm.fingerprint = LCMFingerprint(Uint64(data[offset:offset+8]))
    else pure l : Res LCM)
  let c ← data.slice 0 offset
  let l := { l with contents := c.vis }                          -- lcm.contents = data[:offset]
  let p ← data.sliceFrom offset
  let l := { l with payload := p.vis }                           -- lcm.payload = data[offset:]
  pure { layer := l, trunc := false, err := false }

/-- lcm.go:117-193 `(*LCM).DecodeFromBytes`, statement by statement, WITH proposed_fixes/lmod-1 (the six
    conditionally assigned fields are reset after SequenceNumber).  Error returns: below 8 bytes
    (SetTruncated, receiver untouched); unknown magic (no SetTruncated, Magic already assigned);
    fragmented header below 20 bytes (proposed_fixes of the GHSA regression list: SetTruncated, with
    Magic, SequenceNumber, Fragmented assigned). -/
def LCM.decodeFromBytes (old : LCM) (data : GSlice) : Res (DecOut LCM) :=
  if data.len < 8 then
    .ok { layer := old, trunc := true, err := true }             -- df.SetTruncated(); "LCM < 8 bytes"
  else do
    -- `offset` is a compile-time-known number on every path; its value is written out (offset := 0)
    let s ← data.slice 0 4
    let v ← uint32 s
    let l := { old with magic := v }                             -- lcm.Magic = Uint32(data[offset:4]); offset += 4
    if l.magic ≠ lcmShortHeaderMagic ∧ l.magic ≠ lcmFragmentedHeaderMagic then
      pure { layer := l, trunc := false, err := true }           -- "Received LCM header magic … Dropping packet."
    else do
      let s ← data.slice 4 8
      let v ← uint32 s
      -- lcm.SequenceNumber = Uint32(data[offset:8]); offset += 4; then fix lmod-1:
      -- PayloadSize, FragmentOffset, FragmentNumber, TotalFragments = 0,0,0,0; ChannelName = ""; fingerprint = 0
      let l := { l with sequenceNumber := v, payloadSize := 0, fragmentOffset := 0, fragmentNumber := 0,
                        totalFragments := 0, channelName := [], fingerprint := 0 }
      if l.magic = lcmFragmentedHeaderMagic then
        let l := { l with fragmented := true }                   -- lcm.Fragmented = true
        if data.len < 8 + 12 then                                -- if len(data) < offset+12
          pure { layer := l, trunc := true, err := true }        -- df.SetTruncated(); "LCM fragmented header truncated"
        else do
          let s ← data.slice 8 12
          let ps ← uint32 s                                      -- lcm.PayloadSize = Uint32(data[offset:offset+4]); offset += 4
          let s ← data.slice 12 16
          let fo ← uint32 s                                      -- lcm.FragmentOffset = Uint32(data[offset:offset+4]); offset += 4
          let s ← data.slice 16 18
          let fnum ← uint16 s                                    -- lcm.FragmentNumber = Uint16(data[offset:offset+2]); offset += 2
          let s ← data.slice 18 20
          let tf ← uint16 s                                      -- lcm.TotalFragments = Uint16(data[offset:offset+2]); offset += 2
          -- the four assignments (each right-hand side reads `data` only), in source order
          let l := { l with payloadSize := ps, fragmentOffset := fo, fragmentNumber := fnum, totalFragments := tf }
          LCM.decodeTail l data 20
      else
        let l := { l with fragmented := false }                  -- lcm.Fragmented = false
        LCM.decodeTail l data 8

def decodeLcm (old : LCM) (data : Bytes) (foreign : Bytes) : Res (LCM × Bool) :=
  match old.decodeFromBytes { vis := data, tail := foreign } with
  | .ok o => if o.err then .err "lcm" else .ok (o.layer, o.trunc)
  | .err k => .err k
  | .panic k => .panic k

/-- lcm.go:197 CanDecode. -/
def LCM.canDecode : Nat := LayerTypeLCM

/-- lcm.go:98-105 `GetLCMLayerType`: a READ of the package-level map `lcmLayerTypes` (fingerprint ↦
    LayerType; written only by the user-called `RegisterLCMLayerType`, never by a decoder), here the
    association list `reg`; LayerTypePayload when the fingerprint is not registered. -/
def getLCMLayerType (reg : List (Nat × Nat)) (fp : Nat) : Nat := (reg.lookup fp).getD LayerTypePayload

/-- lcm.go:205-211 NextLayerType. -/
def LCM.nextLayerType (reg : List (Nat × Nat)) (l : LCM) : Nat :=
  if !l.fragmented || (l.fragmented && l.fragmentNumber == 0) then getLCMLayerType reg l.fingerprint
  else LayerTypeFragment

/-- lcm.go:224 LayerPayload. -/
def LCM.layerPayload (l : LCM) : Bytes := l.payload

/-! ## PFLog (pflog.go) -/

/-- `int32(x)` of a uint32 value. -/
def toInt32 (v : Nat) : Int := if v < 2147483648 then (v : Int) else (v : Int) - 4294967296

/-- layers.PFLog: BaseLayer, Length (uint8), Family (ProtocolFamily = uint8), Action, Reason (uint8),
    IFName, Ruleset ([]byte), RuleNum, SubruleNum, UID (uint32), PID (int32), RuleUID (uint32),
    RulePID (int32), Direction (PFDirection = uint8). -/
structure PFLog where
  contents   : Bytes
  payload    : Bytes
  length     : Nat
  family     : Nat
  action     : Nat
  reason     : Nat
  ifName     : Bytes
  ruleset    : Bytes
  ruleNum    : Nat
  subruleNum : Nat
  uid        : Nat
  pid        : Int
  ruleUID    : Nat
  rulePID    : Int
  direction  : Nat
  deriving Repr, DecidableEq

def PFLog.fresh : PFLog :=
  { contents := [], payload := [], length := 0, family := 0, action := 0, reason := 0, ifName := [],
    ruleset := [], ruleNum := 0, subruleNum := 0, uid := 0, pid := 0, ruleUID := 0, rulePID := 0, direction := 0 }

/-- pflog.go:42-72 `(*PFLog).DecodeFromBytes` (with proposed_fixes/all-14: 61 bytes are required, the
    direction byte is `data[60]`).  All multi-byte fields are BIG endian.  NOTE the second error return
    (`len(data) < actualLength`, no SetTruncated) happens after all thirteen fields have been assigned
    while Contents and Payload are still the previous packet's.  A Length byte below 61 is accepted:
    Contents is then SHORTER than the 61 bytes the fields were read from (Length = 0: empty Contents,
    the whole input as Payload). -/
def PFLog.decodeFromBytes (old : PFLog) (data : GSlice) : Res (DecOut PFLog) :=
  if data.len < 61 then
    .ok { layer := old, trunc := true, err := true }             -- df.SetTruncated(); "PFLog data less than 61 bytes"
  else do
    let b0 ← data.index 0                                        -- pf.Length = data[0]
    let b1 ← data.index 1                                        -- pf.Family = ProtocolFamily(data[1])
    let b2 ← data.index 2                                        -- pf.Action = data[2]
    let b3 ← data.index 3                                        -- pf.Reason = data[3]
    let ifn ← data.slice 4 20                                    -- pf.IFName = data[4:20]
    let rs ← data.slice 20 36                                    -- pf.Ruleset = data[20:36]
    let s ← data.slice 36 40
    let rn ← uint32 s                                            -- pf.RuleNum = Uint32(data[36:40])
    let s ← data.slice 40 44
    let sn ← uint32 s                                            -- pf.SubruleNum = Uint32(data[40:44])
    let s ← data.slice 44 48
    let uid ← uint32 s                                           -- pf.UID = Uint32(data[44:48])
    let s ← data.slice 48 52
    let pid ← uint32 s                                           -- pf.PID = int32(Uint32(data[48:52]))
    let s ← data.slice 52 56
    let ruid ← uint32 s                                          -- pf.RuleUID = Uint32(data[52:56])
    let s ← data.slice 56 60
    let rpid ← uint32 s                                          -- pf.RulePID = int32(Uint32(data[56:60]))
    let b60 ← data.index 60                                      -- pf.Direction = PFDirection(data[60])
    -- the thirteen assignments (each right-hand side reads `data` only; none reads `pf`), in source order
    let l := { old with length := b0.toNat, family := b1.toNat, action := b2.toNat, reason := b3.toNat,
                        ifName := ifn.vis, ruleset := rs.vis, ruleNum := rn, subruleNum := sn, uid := uid,
                        pid := toInt32 pid, ruleUID := ruid, rulePID := toInt32 rpid, direction := b60.toNat }
    let actualLength := l.length                                 -- actualLength := int(pf.Length)
    let actualLength := if l.length % 4 = 1 then actualLength + 3 else actualLength
                                                                 -- if pf.Length%4 == 1 { actualLength += 3 }
    if data.len < actualLength then
      pure { layer := l, trunc := false, err := true }           -- "PFLog data size < %d"
    else do
      let c ← data.slice 0 actualLength
      let l := { l with contents := c.vis }                      -- pf.Contents = data[:actualLength]
      let p ← data.sliceFrom actualLength
      let l := { l with payload := p.vis }                       -- pf.Payload = data[actualLength:]
      pure { layer := l, trunc := false, err := false }

def decodePflog (old : PFLog) (data : Bytes) (foreign : Bytes) : Res (PFLog × Bool) :=
  match old.decodeFromBytes { vis := data, tail := foreign } with
  | .ok o => if o.err then .err "pflog" else .ok (o.layer, o.trunc)
  | .err k => .err k
  | .panic k => .panic k

def PFLog.canDecode : Nat := LayerTypePFLog

/-- enums.go `initActualTypeData`: the ProtocolFamily rows of `ProtocolFamilyMetadata` (family ↦
    LayerType); every other entry has `DecodeWith == nil`.  Keys = GENERATED constants; the rows and
    ids are tied by the exhaustive 256-entry correspondence op `lmod tab`. -/
def familyTable : List (Nat × Nat) :=
  [ (protocolFamilyIPv4, LayerTypeIPv4), (protocolFamilyIPv6BSD, LayerTypeIPv6),
    (protocolFamilyIPv6FreeBSD, LayerTypeIPv6), (protocolFamilyIPv6Darwin, LayerTypeIPv6),
    (protocolFamilyIPv6Linux, LayerTypeIPv6) ]

/-- enums_generated.go `ProtocolFamily.LayerType()`. -/
def familyLayerType (a : Nat) : Nat := (familyTable.lookup a).getD LayerTypeZero

/-- pflog.go:78 NextLayerType = `pf.Family.LayerType()`. -/
def PFLog.nextLayerType (l : PFLog) : Nat := familyLayerType l.family
def PFLog.layerPayload (l : PFLog) : Bytes := l.payload

/-! ## The decoder functions registered for NewPacket, as behaviour descriptions -/

/-- A call on the PacketBuilder. -/
inductive Act where
  | setTruncated
  | addLayer (t : Nat)
  | setLinkLayer
  | setApplicationLayer
  deriving Repr, DecidableEq

/-- How a decoder function ends. -/
inductive Tail where
  | done                          -- return nil
  | fail                          -- return err
  | nextLayerType (t : Nat)       -- return p.NextDecoder(LayerType(t))
  | nextFrameControl (fc : Nat)   -- return p.NextDecoder(FDDIFrameControl(fc))
  deriving Repr, DecidableEq

structure Beh where
  acts : List Act
  tail : Tail
  deriving Repr, DecidableEq

/-- an error return of a decoder function after the given PacketBuilder calls -/
def failed {L : Type} (acts : List Act) : Beh × Option L := ({ acts := acts, tail := .fail }, none)

/-- modbustcp.go:78-93 `decodeModbusTCP`: fresh layer, DecodeFromBytes (the PacketBuilder is the
    DecodeFeedback), AddLayer, SetApplicationLayer, NextDecoder(d.NextLayerType()). -/
def decodeModbusTCPFn (data : GSlice) : Res (Beh × Option ModbusTCP) := do
  let o ← ModbusTCP.fresh.decodeFromBytes data
  let tr := if o.trunc then [Act.setTruncated] else []
  if o.err then pure (failed tr)
  else pure ({ acts := tr ++ [.addLayer LayerTypeModbusTCP, .setApplicationLayer],
               tail := .nextLayerType o.layer.nextLayerType }, some o.layer)

/-- lcm.go:107-119 `decodeLCM`: …, NextDecoder(lcm.NextLayerType()). -/
def decodeLCMFn (reg : List (Nat × Nat)) (data : GSlice) : Res (Beh × Option LCM) := do
  let o ← LCM.fresh.decodeFromBytes data
  let tr := if o.trunc then [Act.setTruncated] else []
  if o.err then pure (failed tr)
  else pure ({ acts := tr ++ [.addLayer LayerTypeLCM, .setApplicationLayer],
               tail := .nextLayerType (o.layer.nextLayerType reg) }, some o.layer)

/-- base.go:39-50 `decodingLayerDecoder(d, data, p)` after `d.DecodeFromBytes(data, p)` returned `o`
    for a layer of type `typ` whose NextLayerType is `next`: no Set*Layer call is made. -/
def decodingLayerDecoder {L : Type} (o : DecOut L) (typ next : Nat) : Beh × Option L :=
  let tr := if o.trunc then [Act.setTruncated] else []
  if o.err then ({ acts := tr, tail := .fail }, none)
  else if next = LayerTypeZero then ({ acts := tr ++ [.addLayer typ], tail := .done }, some o.layer)
  else ({ acts := tr ++ [.addLayer typ], tail := .nextLayerType next }, some o.layer)

/-- pflog.go:81-84 `decodePFLog` = `decodingLayerDecoder(&PFLog{}, data, p)`. -/
def decodePFLogFn (data : GSlice) : Res (Beh × Option PFLog) := do
  let o ← PFLog.fresh.decodeFromBytes data
  pure (decodingLayerDecoder o LayerTypePFLog o.layer.nextLayerType)

/-! ## FDDI (fddi.go): decoder function only -/

/-- layers.FDDI: BaseLayer, FrameControl (FDDIFrameControl = uint8), Priority (uint8), SrcMAC, DstMAC. -/
structure FDDI where
  contents     : Bytes
  payload      : Bytes
  frameControl : Nat
  priority     : Nat
  srcMAC       : Bytes
  dstMAC       : Bytes
  deriving Repr, DecidableEq

/-- fddi.go:31-46 `decodeFDDI` (with proposed_fixes/all-7: the length check; no SetTruncated).  The
    fields of the composite literal are evaluated in source order.  The layer is registered as the
    LINK layer BEFORE it is added; the next decoder is the frame-control enum value. -/
def decodeFDDI (data : GSlice) : Res (Beh × Option FDDI) :=
  if data.len < 13 then .ok (failed [])                          -- "FDDI packet too small"
  else do
    let b ← data.index 0
    let fc := b.toNat &&& 0xF8                                   -- FrameControl: FDDIFrameControl(data[0] & 0xF8)
    let b ← data.index 0
    let prio := b.toNat &&& 0x07                                 -- Priority: data[0] & 0x07
    let src ← data.slice 1 7                                     -- SrcMAC: net.HardwareAddr(data[1:7])
    let dst ← data.slice 7 13                                    -- DstMAC: net.HardwareAddr(data[7:13])
    let c ← data.slice 0 13
    let p ← data.sliceFrom 13                                    -- BaseLayer: BaseLayer{data[:13], data[13:]}
    let f : FDDI := { frameControl := fc, priority := prio, srcMAC := src.vis, dstMAC := dst.vis,
                      contents := c.vis, payload := p.vis }
    pure ({ acts := [.setLinkLayer, .addLayer LayerTypeFDDI],     -- p.SetLinkLayer(f); p.AddLayer(f)
            tail := .nextFrameControl f.frameControl }, some f)  -- return p.NextDecoder(f.FrameControl)

/-- enums.go: the only FDDIFrameControl with a decoder is LLC (0x50) → decodeLLC;
    `FDDIFrameControl.Decode` returns an error for every other value. -/
def frameControlKnown (fc : Nat) : Bool := fc == fddiFrameControlLLC

def viewFn {L : Type} (name : String) (r : Res (Beh × Option L)) : Res (L × Beh) :=
  match r with
  | .ok (b, some l) => .ok (l, b)
  | .ok (_, none) => .err name
  | .err k => .err k
  | .panic k => .panic k

def decodeFddi (data foreign : Bytes) : Res (FDDI × Beh) := viewFn "fddi" (decodeFDDI { vis := data, tail := foreign })

/-! ## Flows (flows.go NewFlow / Reverse; FDDI.LinkFlow) -/

structure Flow where
  typ  : Nat
  slen : Nat
  dlen : Nat
  src  : Bytes      -- [MaxEndpointSize]byte
  dst  : Bytes
  deriving Repr, DecidableEq

/-- `copy(f.src[:], src)` into the zero array. -/
def pad16 (b : Bytes) : Bytes := b ++ List.replicate (maxEndpointSize - b.length) 0

/-- flows.go NewFlow: explicit panic above MaxEndpointSize. -/
def newFlow (t : Nat) (src dst : Bytes) : Res Flow :=
  if src.length > maxEndpointSize ∨ dst.length > maxEndpointSize then .panic .explicit
  else .ok { typ := t, slen := src.length, dlen := dst.length, src := pad16 src, dst := pad16 dst }

def Flow.reverse (f : Flow) : Flow :=
  { typ := f.typ, slen := f.dlen, dlen := f.slen, src := f.dst, dst := f.src }
def Flow.srcBytes (f : Flow) : Bytes := f.src.take f.slen
def Flow.dstBytes (f : Flow) : Bytes := f.dst.take f.dlen

/-- fddi.go:27-29 `(*FDDI).LinkFlow` = NewFlow(EndpointMAC, f.SrcMAC, f.DstMAC) (no cut: a hand-made
    FDDI with an address above 16 bytes reaches NewFlow's panic; decoded addresses are 6 bytes). -/
def FDDI.linkFlow (f : FDDI) : Res Flow := newFlow EndpointMAC f.srcMAC f.dstMAC

/-! ## DecodingLayerParser over {ModbusTCP, LCM, PFLog} (layers_decoder.go loop) -/

structure DlpState where
  modbus  : ModbusTCP
  lcm     : LCM
  pflog   : PFLog
  decoded : List Nat
  trunc   : Bool
  deriving Repr, DecidableEq

/-- One run of the LayersDecoder loop followed by the tail of DecodeLayers.  `typ` is the type about
    to be decoded.  Result code: 0 = `nil`, 1 = the error of a DecodeFromBytes, 2 =
    `UnsupportedLayerType(typ)` (next type outside the set and ≠ LayerTypeZero).
    Fuel-bounded: a PFLog header with Length byte 0 consumes NOTHING (its payload is its whole input),
    but its next type (IPv4 / IPv6 / none) is outside the set, so no iteration follows it; ModbusTCP and
    LCM consume at least 7 / 8 bytes.  With a user-registered LCM fingerprint that maps back to one of
    the three types the run is still bounded by the fuel `|data| + 2`. -/
def dlpLoop (reg : List (Nat × Nat)) : Nat → DlpState → Nat → GSlice → Res (DlpState × Nat)
  | 0, st, _, _ => .ok (st, 0)
  | fuel + 1, st, typ, data =>
    if typ = LayerTypeModbusTCP then
      match st.modbus.decodeFromBytes data with
      | .panic k => .panic k
      | .err k => .err k
      | .ok o =>
        let st := { st with modbus := o.layer, trunc := st.trunc || o.trunc }
        if o.err then .ok (st, 1) else
        let st := { st with decoded := st.decoded ++ [typ] }
        let rest : GSlice := { vis := o.layer.payload, tail := data.tail }
        if rest.len = 0 then .ok (st, 0) else dlpLoop reg fuel st o.layer.nextLayerType rest
    else if typ = LayerTypeLCM then
      match st.lcm.decodeFromBytes data with
      | .panic k => .panic k
      | .err k => .err k
      | .ok o =>
        let st := { st with lcm := o.layer, trunc := st.trunc || o.trunc }
        if o.err then .ok (st, 1) else
        let st := { st with decoded := st.decoded ++ [typ] }
        let rest : GSlice := { vis := o.layer.payload, tail := data.tail }
        if rest.len = 0 then .ok (st, 0) else dlpLoop reg fuel st (o.layer.nextLayerType reg) rest
    else if typ = LayerTypePFLog then
      match st.pflog.decodeFromBytes data with
      | .panic k => .panic k
      | .err k => .err k
      | .ok o =>
        let st := { st with pflog := o.layer, trunc := st.trunc || o.trunc }
        if o.err then .ok (st, 1) else
        let st := { st with decoded := st.decoded ++ [typ] }
        let rest : GSlice := { vis := o.layer.payload, tail := data.tail }
        if rest.len = 0 then .ok (st, 0) else dlpLoop reg fuel st o.layer.nextLayerType rest
    else if typ = LayerTypeZero then .ok (st, 0) else .ok (st, 2)

/-- parser.go DecodeLayers: Truncated := false, decoded := decoded[:0], run the loop from `first`. -/
def dlpDecodeLayers (reg : List (Nat × Nat)) (m : ModbusTCP) (l : LCM) (p : PFLog) (first : Nat) (data : GSlice) :
    Res (DlpState × Nat) :=
  dlpLoop reg (data.len + 2) { modbus := m, lcm := l, pflog := p, decoded := [], trunc := false } first data

end Gp.Mod
