import Gp.Go.Basic
import Gp.Model.SBuf
import Gp.Model.Checksum
import Gp.Gen.Icmp
/-
  Executable model of layers/icmp4.go, layers/icmp6.go, layers/icmp6msg.go (engine `licmp`).
  Core Lean only.

  * Decoders are transcribed from the `DecodeFromBytes` methods with Go panic semantics:
    the input is a Go slice WITH CAPACITY (`CSlice`: the `len` bytes plus the "foreign"
    bytes between len and cap); `data[i]` panics iff `i ≥ len`, `data[a:b]` panics iff
    `¬(a ≤ b ∧ b ≤ cap)`.
  * A decoder returns `Res (Dec L)`: `.panic` is a Go run-time panic, `.err "fuel"` means
    the option loop ran out of fuel (never happens: `C19.decode*_terminates`), and
    `.ok d` is a normal return where `d.layer` is the receiver object AFTER the call (also
    when the call returned a Go error: `d.err = true`, the object half-updated exactly as
    the Go code leaves it), `d.trunc` = `df.SetTruncated()` was called.  Every field the Go
    code does not assign keeps the value of `old`.
  * Serializers are written over the C18 buffer model (`Gp.SBuf`): `PrependBytes(n)` returns
    a window whose bytes are whatever the buffer held; every Go store is a `put`/`setR` on
    those bytes; the window is written back with `fill`.  A requested byte that no store
    touches keeps the stale value.  `.err` = SerializeTo returned an error.
  * The model follows the tree WITH proposed_fixes/licmp-1…3 applied (see notes/licmp.md);
    the pre-fix behaviour is kept as `…Orig` definitions used only by the documented
    counterexamples in Gp/Lemmas/Layers/IcmpDefects.lean.
-/
namespace Gp.Icmp
open Gp Gp.SBuf

/-! ## Go slices with capacity -/

/-- A `[]byte` as a decoder sees it: `data` = the `len` visible bytes, `extra` = the bytes
    between len and cap (foreign bytes of the packet buffer under NoCopy/Pool). -/
structure CSlice where
  data  : Bytes
  extra : Bytes
  deriving Repr, DecidableEq

namespace CSlice
def len (s : CSlice) : Nat := s.data.length
def cap (s : CSlice) : Nat := s.data.length + s.extra.length
def all (s : CSlice) : Bytes := s.data ++ s.extra
/-- `s[i]` -/
def index (s : CSlice) (i : Nat) : Res UInt8 := Gp.index s.data i
/-- `s[a:b]` (bounds are checked against the CAPACITY) -/
def slice (s : CSlice) (a b : Nat) : Res CSlice :=
  if a ≤ b ∧ b ≤ s.cap then .ok ⟨(s.all.drop a).take (b - a), s.all.drop b⟩ else .panic .slice
/-- `s[a:]` -/
def sliceFrom (s : CSlice) (a : Nat) : Res CSlice := s.slice a s.len
/-- `s[:b]` -/
def sliceTo (s : CSlice) (b : Nat) : Res CSlice := s.slice 0 b
end CSlice

/-- binary.BigEndian.Uint16(b): `_ = b[1]` then `b[0]<<8 | b[1]`. -/
def u16 (s : CSlice) : Res Nat := do
  let b1 ← s.index 1
  let b0 ← s.index 0
  pure (be16 b0 b1)

/-- binary.BigEndian.Uint32(b): `_ = b[3]` … -/
def u32 (s : CSlice) : Res Nat := do
  let b3 ← s.index 3
  let b0 ← s.index 0
  let b1 ← s.index 1
  let b2 ← s.index 2
  pure (be32 b0 b1 b2 b3)

/-! ## Layer values -/

/-- gopacket layer types that occur as `NextLayerType` of the modelled layers. -/
inductive LT where
  | payload | icmpv4 | icmpv6 | echo | rs | ra | ns | na | redirect
  | mldv1Query | mldv2Query | mldv1Done | mldv1Report | mldv2Report
  deriving Repr, DecidableEq

def LT.name : LT → String
  | .payload => "Payload" | .icmpv4 => "ICMPv4" | .icmpv6 => "ICMPv6" | .echo => "ICMPv6Echo"
  | .rs => "ICMPv6RouterSolicitation" | .ra => "ICMPv6RouterAdvertisement"
  | .ns => "ICMPv6NeighborSolicitation" | .na => "ICMPv6NeighborAdvertisement"
  | .redirect => "ICMPv6Redirect" | .mldv1Query => "MLDv1MulticastListenerQuery"
  | .mldv2Query => "MLDv2MulticastListenerQuery" | .mldv1Done => "MLDv1MulticastListenerDone"
  | .mldv1Report => "MLDv1MulticastListenerReport" | .mldv2Report => "MLDv2MulticastListenerReport"

/-- tcpipchecksum.pseudoheader: nil, *IPv4 or *IPv6 (addresses of the enclosing network layer;
    well-formed 4- or 16-byte addresses — the network layers belong to engines lip4/lip6). -/
inductive Pseudo where
  | absent
  | v4 (src dst : Bytes)
  | v6 (src dst : Bytes)
  deriving Repr, DecidableEq

/-- pseudoheaderChecksum(); `none` = computeChecksum returns an error (nil pseudoheader). -/
def Pseudo.sum : Pseudo → Option Nat
  | .absent => none
  | .v4 s d => some (Cksum.pseudo4 s d)
  | .v6 s d => some (Cksum.pseudo6 s d 0)

structure ICMPv4 where
  contents : Bytes := []
  payload  : Bytes := []
  typeCode : Nat := 0
  checksum : Nat := 0
  id       : Nat := 0
  seq      : Nat := 0
  deriving Repr, DecidableEq

structure ICMPv6 where
  contents  : Bytes := []
  payload   : Bytes := []
  typeCode  : Nat := 0
  checksum  : Nat := 0
  typeBytes : Bytes := []          -- "deprecated and always nil": never assigned by the decoder
  pseudo    : Pseudo := .absent      -- embedded tcpipchecksum (unexported)
  deriving Repr, DecidableEq

/-- ICMPv6Option -/
structure Opt where
  typ  : Nat
  data : Bytes
  deriving Repr, DecidableEq

structure Echo where
  contents   : Bytes := []
  payload    : Bytes := []
  identifier : Nat := 0
  seqNumber  : Nat := 0
  deriving Repr, DecidableEq

structure RS where
  contents : Bytes := []
  payload  : Bytes := []
  options  : List Opt := []
  deriving Repr, DecidableEq

structure RA where
  contents       : Bytes := []
  payload        : Bytes := []
  hopLimit       : Nat := 0
  flags          : Nat := 0
  routerLifetime : Nat := 0
  reachableTime  : Nat := 0
  retransTimer   : Nat := 0
  options        : List Opt := []
  deriving Repr, DecidableEq

structure NS where
  contents      : Bytes := []
  payload       : Bytes := []
  targetAddress : Bytes := []
  options       : List Opt := []
  deriving Repr, DecidableEq

structure NA where
  contents      : Bytes := []
  payload       : Bytes := []
  flags         : Nat := 0
  targetAddress : Bytes := []
  options       : List Opt := []
  deriving Repr, DecidableEq

structure Redirect where
  contents           : Bytes := []
  payload            : Bytes := []
  targetAddress      : Bytes := []
  destinationAddress : Bytes := []
  options            : List Opt := []
  deriving Repr, DecidableEq

/-- Result of one `DecodeFromBytes` call that returned normally. -/
structure Dec (α : Type) where
  layer : α        -- the receiver object after the call
  err   : Bool     -- the call returned a non-nil error
  trunc : Bool     -- df.SetTruncated() was called
  deriving Repr, DecidableEq

/-! ## Decoders -/

/-- CreateICMPv4TypeCode / CreateICMPv6TypeCode: binary.BigEndian.Uint16([]byte{typ, code}). -/
def createTypeCode (typ code : UInt8) : Nat := be16 typ code

/-- icmp4.go (*ICMPv4).DecodeFromBytes -/
def decodeICMPv4 (old : ICMPv4) (data : CSlice) : Res (Dec ICMPv4) :=
  if data.len < 8 then .ok ⟨old, true, true⟩
  else do
    let t ← data.index 0
    let c ← data.index 1
    let ck ← data.slice 2 4 >>= u16
    let id ← data.slice 4 6 >>= u16
    let sq ← data.slice 6 8 >>= u16
    let cont ← data.sliceTo 8
    let pay ← data.sliceFrom 8
    pure ⟨{ contents := cont.data, payload := pay.data, typeCode := createTypeCode t c,
            checksum := ck, id := id, seq := sq }, false, false⟩

/-- icmp6.go (*ICMPv6).DecodeFromBytes (TypeBytes and the pseudo-header are not touched) -/
def decodeICMPv6 (old : ICMPv6) (data : CSlice) : Res (Dec ICMPv6) :=
  if data.len < 4 then .ok ⟨old, true, true⟩
  else do
    let t ← data.index 0
    let c ← data.index 1
    let ck ← data.slice 2 4 >>= u16
    let cont ← data.sliceTo 4
    let pay ← data.sliceFrom 4
    pure ⟨{ old with contents := cont.data, payload := pay.data, typeCode := createTypeCode t c,
                     checksum := ck }, false, false⟩

/-- icmp6msg.go (*ICMPv6Echo).DecodeFromBytes, with fix licmp-2 (BaseLayer is set). -/
def decodeEcho (old : Echo) (data : CSlice) : Res (Dec Echo) :=
  if data.len < 4 then .ok ⟨old, true, true⟩
  else do
    let id ← data.slice 0 2 >>= u16
    let sq ← data.slice 2 4 >>= u16
    let cont ← data.sliceTo 4
    let pay ← data.sliceFrom 4
    pure ⟨{ contents := cont.data, payload := pay.data, identifier := id, seqNumber := sq },
          false, false⟩

/-- The pinned (pre-fix) Echo decoder: BaseLayer keeps its old value. -/
def decodeEchoOrig (old : Echo) (data : CSlice) : Res (Dec Echo) :=
  if data.len < 4 then .ok ⟨old, true, true⟩
  else do
    let id ← data.slice 0 2 >>= u16
    let sq ← data.slice 2 4 >>= u16
    pure ⟨{ old with identifier := id, seqNumber := sq }, false, false⟩

/-- icmp6msg.go (*ICMPv6Options).DecodeFromBytes: `for len(data) > 0 { … }`, appending to `acc`.
    `fuel` bounds the iterations; every iteration consumes `length ≥ 8` bytes. -/
def decodeOpts : Nat → CSlice → List Opt → Res (Dec (List Opt))
  | 0, d, acc => if d.len = 0 then .ok ⟨acc, false, false⟩ else .err "fuel"
  | fuel + 1, d, acc =>
    if d.len = 0 then .ok ⟨acc, false, false⟩
    else if d.len < 2 then .ok ⟨acc, true, true⟩
    else do
      let lb ← d.index 1
      let length := lb.toNat * 8
      if length = 0 then .ok ⟨acc, true, true⟩
      else if d.len < length then .ok ⟨acc, true, true⟩
      else do
        let t ← d.index 0
        let od ← d.slice 2 length
        let d' ← d.sliceFrom length
        decodeOpts fuel d' (acc ++ [⟨t.toNat, od.data⟩])

/-- `i.Options = i.Options[:0]; return i.Options.DecodeFromBytes(rest, df)` -/
def decodeOptions (rest : CSlice) : Res (Dec (List Opt)) := decodeOpts rest.len rest []

/-- (*ICMPv6RouterSolicitation).DecodeFromBytes (BaseLayer is not assigned by this method) -/
def decodeRS (old : RS) (data : CSlice) : Res (Dec RS) :=
  if data.len < 4 then .ok ⟨old, true, true⟩
  else do
    let rest ← data.sliceFrom 4
    let r ← decodeOptions rest
    pure ⟨{ old with options := r.layer }, r.err, r.trunc⟩

/-- (*ICMPv6RouterAdvertisement).DecodeFromBytes -/
def decodeRA (old : RA) (data : CSlice) : Res (Dec RA) :=
  if data.len < 12 then .ok ⟨old, true, true⟩
  else do
    let hl ← data.index 0
    let fl ← data.index 1
    let life ← data.slice 2 4 >>= u16
    let reach ← data.slice 4 8 >>= u32
    let retr ← data.slice 8 12 >>= u32
    let rest ← data.sliceFrom 12
    let r ← decodeOptions rest
    pure ⟨{ contents := data.data, payload := [], hopLimit := hl.toNat, flags := fl.toNat,
            routerLifetime := life, reachableTime := reach, retransTimer := retr,
            options := r.layer }, r.err, r.trunc⟩

/-- (*ICMPv6NeighborSolicitation).DecodeFromBytes -/
def decodeNS (old : NS) (data : CSlice) : Res (Dec NS) :=
  if data.len < 20 then .ok ⟨old, true, true⟩
  else do
    let tgt ← data.slice 4 20
    let rest ← data.sliceFrom 20
    let r ← decodeOptions rest
    pure ⟨{ contents := data.data, payload := [], targetAddress := tgt.data,
            options := r.layer }, r.err, r.trunc⟩

/-- (*ICMPv6NeighborAdvertisement).DecodeFromBytes -/
def decodeNA (old : NA) (data : CSlice) : Res (Dec NA) :=
  if data.len < 20 then .ok ⟨old, true, true⟩
  else do
    let fl ← data.index 0
    let tgt ← data.slice 4 20
    let rest ← data.sliceFrom 20
    let r ← decodeOptions rest
    pure ⟨{ contents := data.data, payload := [], flags := fl.toNat, targetAddress := tgt.data,
            options := r.layer }, r.err, r.trunc⟩

/-- (*ICMPv6Redirect).DecodeFromBytes -/
def decodeRedirect (old : Redirect) (data : CSlice) : Res (Dec Redirect) :=
  if data.len < 36 then .ok ⟨old, true, true⟩
  else do
    let tgt ← data.slice 4 20
    let dst ← data.slice 20 36
    let rest ← data.sliceFrom 36
    let r ← decodeOptions rest
    pure ⟨{ contents := data.data, payload := [], targetAddress := tgt.data,
            destinationAddress := dst.data, options := r.layer }, r.err, r.trunc⟩

/-! ## NextLayerType -/

/-- icmp6.go (*ICMPv6).NextLayerType; `Type()` is the translated `Gen.Icmp.v6Type`. -/
def nextICMPv6 (l : ICMPv6) : LT :=
  let t := (Gen.Icmp.v6Type (Int.ofNat l.typeCode)).toNat
  if t = Gen.Icmp.typeEchoRequest then .echo
  else if t = Gen.Icmp.typeEchoReply then .echo
  else if t = Gen.Icmp.typeRouterSolicitation then .rs
  else if t = Gen.Icmp.typeRouterAdvertisement then .ra
  else if t = Gen.Icmp.typeNeighborSolicitation then .ns
  else if t = Gen.Icmp.typeNeighborAdvertisement then .na
  else if t = Gen.Icmp.typeRedirect then .redirect
  else if t = Gen.Icmp.typeMLDv1Query then
    (if l.payload.length > 20 then .mldv2Query else .mldv1Query)
  else if t = Gen.Icmp.typeMLDv1Done then .mldv1Done
  else if t = Gen.Icmp.typeMLDv1Report then .mldv1Report
  else if t = Gen.Icmp.typeMLDv2Report then .mldv2Report
  else .payload

/-! ## VerifyChecksum (ICMPv4) and the option renderer -/

/-- icmp4.go (*ICMPv4).VerifyChecksum: (Valid, Correct, Actual). -/
def verifyICMPv4 (l : ICMPv4) : Bool × Nat × Nat :=
  let bytes := l.contents ++ l.payload
  let verification := Cksum.compute bytes 0
  let correct := Cksum.fold ((verification + Cksum.W32 - l.checksum % Cksum.W32) % Cksum.W32)
  (correct == l.checksum, correct, l.checksum)

/-- The slice/index operations of icmp6msg.go (ICMPv6Option).String (the only renderer of this
    layer with unguarded accesses): the RecursiveDNSServer case slices `Data[2:6]` and
    `Data[6+j*16 : 6+(j+1)*16]` for `j < (len-6)/16`; PrefixInfo and MTU are length-guarded. -/
def optStringAccess (o : Opt) : Res Unit :=
  if o.typ = Gen.Icmp.optRecursiveDNSServer then do
    let _ ← sliceLen o.data 2 6
    let num := (o.data.length - 6) / 16
    (List.range num).forM (fun j => do let _ ← sliceLen o.data (6 + j * 16) (6 + (j + 1) * 16); pure ())
  else if o.typ = Gen.Icmp.optPrefixInfo ∧ o.data.length = 30 then do
    let _ ← index o.data 0
    let _ ← index o.data 1
    let _ ← sliceLen o.data 2 6
    let _ ← sliceLen o.data 6 10
    let _ ← sliceLen o.data 14 30
    pure ()
  else if o.typ = Gen.Icmp.optMTU ∧ o.data.length = 6 then do
    let _ ← sliceLen o.data 2 6
    pure ()
  else pure ()

/-! ## Serializers (over the C18 buffer model) -/

structure SOpts where
  fix  : Bool
  csum : Bool
  deriving Repr, DecidableEq

/-- Bytes of a window as the buffer currently holds them (stale until stored to). -/
def winBytes (b : SBuf) (w : Win) : Bytes := (b.mem.drop w.off).take w.n

/-- `copy(buf[off:], src)` for `off ≤ len(buf)`: copies `min` bytes, the rest keeps its value. -/
def put (buf : Bytes) (off : Nat) (src : Bytes) : Bytes :=
  let k := min src.length (buf.length - off)
  buf.take off ++ src.take k ++ buf.drop (off + k)

/-- `copy(buf[off:], src)` with the slice expression's bounds check. -/
def putR (buf : Bytes) (off : Nat) (src : Bytes) : Res Bytes :=
  if off ≤ buf.length then .ok (put buf off src) else .panic .slice

/-- `buf[i] = v` -/
def setR (buf : Bytes) (i : Nat) (v : UInt8) : Res Bytes :=
  if i < buf.length then .ok (put buf i [v]) else .panic .index

/-- `binary.BigEndian.PutUint16(buf[off:], v)` -/
def put16R (buf : Bytes) (off : Nat) (v : Nat) : Res Bytes :=
  if off ≤ buf.length then
    (if off + 2 ≤ buf.length then .ok (put buf off (putBe16 v)) else .panic .index)
  else .panic .slice

/-- `binary.BigEndian.PutUint32(buf[off:], v)` -/
def put32R (buf : Bytes) (off : Nat) (v : Nat) : Res Bytes :=
  if off ≤ buf.length then
    (if off + 4 ≤ buf.length then .ok (put buf off (putBe32 v)) else .panic .index)
  else .panic .slice

/-- icmp4.go (*ICMPv4).SerializeTo -/
def serializeICMPv4 (l : ICMPv4) (b : SBuf) (o : SOpts) : Res (SBuf × ICMPv4) :=
  let (b1, w) := prepend b 8
  do
    let buf ← put16R (winBytes b1 w) 0 l.typeCode
    let buf ← put16R buf 4 l.id
    let buf ← put16R buf 6 l.seq
    if o.csum then do
      let buf ← setR buf 2 0
      let buf ← setR buf 3 0
      let b2 := fill b1 w buf
      let ck := Cksum.fold (Cksum.compute (contents b2) 0)
      let buf ← put16R buf 2 ck
      pure (fill b2 w buf, { l with checksum := ck })
    else do
      let buf ← put16R buf 2 l.checksum
      pure (fill b1 w buf, l)

/-- icmp6.go (*ICMPv6).SerializeTo -/
def serializeICMPv6 (l : ICMPv6) (b : SBuf) (o : SOpts) : Res (SBuf × ICMPv6) :=
  let (b1, w) := prepend b 4
  do
    let buf ← put16R (winBytes b1 w) 0 l.typeCode
    if o.csum then do
      let buf ← setR buf 2 0
      let buf ← setR buf 3 0
      let b2 := fill b1 w buf
      match l.pseudo.sum with
      | none => .err "no network layer"
      | some ps =>
        let ck := Cksum.fold (Cksum.l4sum ps Gen.Icmp.ipProtocolICMPv6 (contents b2))
        let buf ← put16R buf 2 ck
        pure (fill b2 w buf, { l with checksum := ck })
    else do
      let buf ← put16R buf 2 l.checksum
      pure (fill b1 w buf, l)

/-- `bytes, err := b.PrependBytes(n)` followed by a straight-line sequence of stores `prog` into
    the returned slice (given its current — stale — bytes, returns its bytes after the stores). -/
def withWindow (b : SBuf) (n : Nat) (prog : Bytes → Res Bytes) : Res SBuf :=
  let (b1, w) := prepend b n
  prog (winBytes b1 w) >>= fun buf => pure (fill b1 w buf)

/-- (*ICMPv6Echo).SerializeTo -/
def serializeEcho (l : Echo) (b : SBuf) (_o : SOpts) : Res (SBuf × Echo) := do
  let b' ← withWindow b 4 fun buf => do
    let buf ← put16R buf 0 l.identifier
    put16R buf 2 l.seqNumber
  pure (b', l)

/-- One iteration of the loop of (*ICMPv6Options).SerializeTo. -/
def serializeOpt (o : Opt) (b : SBuf) : Res SBuf :=
  let length := o.data.length + 2
  withWindow b length fun buf => do
    let buf ← setR buf 0 (u8 o.typ)
    let buf ← setR buf 1 (u8 (length / 8))
    putR buf 2 o.data

/-- The options in the order the loop visits them. -/
def serializeOptsIn : List Opt → SBuf → Res SBuf
  | [], b => .ok b
  | o :: rest, b => serializeOpt o b >>= serializeOptsIn rest

/-- (*ICMPv6Options).SerializeTo with fix licmp-1: `for j := len-1; j >= 0; j--`. -/
def serializeOpts (opts : List Opt) (b : SBuf) : Res SBuf := serializeOptsIn opts.reverse b

/-- The pinned (pre-fix) loop `for _, opt := range opts`: options end up REVERSED on the wire. -/
def serializeOptsOrig (opts : List Opt) (b : SBuf) : Res SBuf := serializeOptsIn opts b

/-- (*ICMPv6RouterSolicitation).SerializeTo -/
def serializeRS (l : RS) (b : SBuf) (_o : SOpts) : Res (SBuf × RS) := do
  let b0 ← serializeOpts l.options b
  let b' ← withWindow b0 4 fun buf => putR buf 0 (zeros 4)
  pure (b', l)

/-- (*ICMPv6RouterAdvertisement).SerializeTo -/
def serializeRA (l : RA) (b : SBuf) (_o : SOpts) : Res (SBuf × RA) := do
  let b0 ← serializeOpts l.options b
  let b' ← withWindow b0 12 fun buf => do
    let buf ← setR buf 0 (u8 l.hopLimit)
    let buf ← setR buf 1 (u8 l.flags)
    let buf ← put16R buf 2 l.routerLifetime
    let buf ← put32R buf 4 l.reachableTime
    put32R buf 8 l.retransTimer
  pure (b', l)

/-- checkIPv6Address(addr) == nil -/
def isIPv6 (a : Bytes) : Bool := a.length == 16

/-- (*ICMPv6NeighborSolicitation).SerializeTo with fix licmp-3 (address length is checked). -/
def serializeNS (l : NS) (b : SBuf) (_o : SOpts) : Res (SBuf × NS) :=
  if ¬ isIPv6 l.targetAddress then .err "target address" else do
  let b0 ← serializeOpts l.options b
  let b' ← withWindow b0 20 fun buf => do
    let buf ← putR buf 0 (zeros 4)
    putR buf 4 l.targetAddress
  pure (b', l)

/-- The pinned (pre-fix) NS serializer: no address check (`copy` writes only `len` bytes) and
    the pre-fix option order. -/
def serializeNSOrig (l : NS) (b : SBuf) (_o : SOpts) : Res (SBuf × NS) := do
  let b0 ← serializeOptsOrig l.options b
  let b' ← withWindow b0 20 fun buf => do
    let buf ← putR buf 0 (zeros 4)
    putR buf 4 l.targetAddress
  pure (b', l)

/-- (*ICMPv6NeighborAdvertisement).SerializeTo with fix licmp-3. -/
def serializeNA (l : NA) (b : SBuf) (_o : SOpts) : Res (SBuf × NA) :=
  if ¬ isIPv6 l.targetAddress then .err "target address" else do
  let b0 ← serializeOpts l.options b
  let b' ← withWindow b0 20 fun buf => do
    let buf ← setR buf 0 (u8 l.flags)
    let buf ← putR buf 1 (zeros 3)
    putR buf 4 l.targetAddress
  pure (b', l)

/-- (*ICMPv6Redirect).SerializeTo with fix licmp-3. -/
def serializeRedirect (l : Redirect) (b : SBuf) (_o : SOpts) : Res (SBuf × Redirect) :=
  if ¬ isIPv6 l.targetAddress then .err "target address"
  else if ¬ isIPv6 l.destinationAddress then .err "destination address" else do
  let b0 ← serializeOpts l.options b
  let b' ← withWindow b0 36 fun buf => do
    let buf ← putR buf 0 (zeros 4)
    let buf ← putR buf 4 l.targetAddress
    putR buf 20 l.destinationAddress
  pure (b', l)

/-! ## The case's reusable objects, generic dispatch -/

inductive Kind where
  | icmp4 | icmp6 | echo | rs | ra | ns | na | redirect
  deriving Repr, DecidableEq

def Kind.lt : Kind → LT
  | .icmp4 => .icmpv4 | .icmp6 => .icmpv6 | .echo => .echo | .rs => .rs | .ra => .ra
  | .ns => .ns | .na => .na | .redirect => .redirect

def LT.kind? : LT → Option Kind
  | .icmpv4 => some .icmp4 | .icmpv6 => some .icmp6 | .echo => some .echo | .rs => some .rs
  | .ra => some .ra | .ns => some .ns | .na => some .na | .redirect => some .redirect
  | _ => none

/-- A layer object of any of the eight kinds. -/
inductive AnyLayer where
  | icmp4 (l : ICMPv4) | icmp6 (l : ICMPv6) | echo (l : Echo) | rs (l : RS) | ra (l : RA)
  | ns (l : NS) | na (l : NA) | redirect (l : Redirect)
  deriving Repr, DecidableEq

def fresh : Kind → AnyLayer
  | .icmp4 => .icmp4 {} | .icmp6 => .icmp6 {} | .echo => .echo {} | .rs => .rs {}
  | .ra => .ra {} | .ns => .ns {} | .na => .na {} | .redirect => .redirect {}

def AnyLayer.kind : AnyLayer → Kind
  | .icmp4 _ => .icmp4 | .icmp6 _ => .icmp6 | .echo _ => .echo | .rs _ => .rs | .ra _ => .ra
  | .ns _ => .ns | .na _ => .na | .redirect _ => .redirect

def mapDec {α β} (f : α → β) (r : Res (Dec α)) : Res (Dec β) :=
  r >>= fun d => pure ⟨f d.layer, d.err, d.trunc⟩

/-- DecodeFromBytes on an object of any kind. -/
def AnyLayer.decode : AnyLayer → CSlice → Res (Dec AnyLayer)
  | .icmp4 l, d => mapDec .icmp4 (decodeICMPv4 l d)
  | .icmp6 l, d => mapDec .icmp6 (decodeICMPv6 l d)
  | .echo l, d => mapDec .echo (decodeEcho l d)
  | .rs l, d => mapDec .rs (decodeRS l d)
  | .ra l, d => mapDec .ra (decodeRA l d)
  | .ns l, d => mapDec .ns (decodeNS l d)
  | .na l, d => mapDec .na (decodeNA l d)
  | .redirect l, d => mapDec .redirect (decodeRedirect l d)

/-- NextLayerType() -/
def AnyLayer.next : AnyLayer → LT
  | .icmp6 l => nextICMPv6 l
  | _ => .payload

/-- LayerPayload() -/
def AnyLayer.payload : AnyLayer → Bytes
  | .icmp4 l => l.payload | .icmp6 l => l.payload | .echo l => l.payload | .rs l => l.payload
  | .ra l => l.payload | .ns l => l.payload | .na l => l.payload | .redirect l => l.payload

def AnyLayer.serialize : AnyLayer → SBuf → SOpts → Res (SBuf × AnyLayer)
  | .icmp4 l, b, o => serializeICMPv4 l b o >>= fun r => pure (r.1, .icmp4 r.2)
  | .icmp6 l, b, o => serializeICMPv6 l b o >>= fun r => pure (r.1, .icmp6 r.2)
  | .echo l, b, o => serializeEcho l b o >>= fun r => pure (r.1, .echo r.2)
  | .rs l, b, o => serializeRS l b o >>= fun r => pure (r.1, .rs r.2)
  | .ra l, b, o => serializeRA l b o >>= fun r => pure (r.1, .ra r.2)
  | .ns l, b, o => serializeNS l b o >>= fun r => pure (r.1, .ns r.2)
  | .na l, b, o => serializeNA l b o >>= fun r => pure (r.1, .na r.2)
  | .redirect l, b, o => serializeRedirect l b o >>= fun r => pure (r.1, .redirect r.2)

/-! ## Behaviour of the registered decode functions (NewPacket) and of the layer parser -/

/-- What ends up in a packet's layer list. -/
inductive PLayer where
  | lay (l : AnyLayer)
  | payload (b : Bytes)          -- gopacket.Payload (decodePayload: AddLayer + SetApplicationLayer)
  | failure                      -- DecodeFailure added by addFinalDecodeError
  | other (t : LT)               -- a layer type outside this engine: the chain is cut here
  deriving Repr, DecidableEq

/-- Acts on the PacketBuilder: only AddLayer (and SetApplicationLayer for Payload); NO
    SetLinkLayer / SetNetworkLayer / SetTransportLayer — ICMP layers expose no flow (C17). -/
inductive Act where
  | add | setLink | setNetwork | setTransport | setApplication | setError
  deriving Repr, DecidableEq

structure PktOut where
  layers : List PLayer
  acts   : List Act
  err    : Bool
  trunc  : Bool
  deriving Repr, DecidableEq

/-- `decodeICMPv4 … decodeICMPv6Redirect` = `decodingLayerDecoder(&X{}, data, p)`:
    DecodeFromBytes; on error return it (packet adds a DecodeFailure); AddLayer;
    `p.NextDecoder(NextLayerType())`, which stops on an empty LayerPayload.  `fuel` bounds
    the depth of the chain (ICMPv6 → message → Payload needs 3). -/
def pktRun : Nat → Kind → Bytes → Res PktOut
  | 0, _, _ => .err "fuel"
  | fuel + 1, k, data => do
    let r ← (fresh k).decode ⟨data, []⟩
    if r.err then pure ⟨[.failure], [.add, .setError], true, r.trunc⟩
    else
      let l := r.layer
      let d := l.payload
      if d.length = 0 then pure ⟨[.lay l], [.add], false, r.trunc⟩
      else if l.next = .payload then
        pure ⟨[.lay l, .payload d], [.add, .add, .setApplication], false, r.trunc⟩
      else match l.next.kind? with
        | none => pure ⟨[.lay l, .other l.next], [.add], false, r.trunc⟩
        | some k2 => do
          let rest ← pktRun fuel k2 d
          pure ⟨.lay l :: rest.layers, .add :: rest.acts, rest.err, r.trunc || rest.trunc⟩

/-- The case's eight reusable layer objects (what a DecodingLayerParser is built over). -/
structure Objs where
  icmp4 : ICMPv4 := {}
  icmp6 : ICMPv6 := {}
  echo : Echo := {}
  rs : RS := {}
  ra : RA := {}
  ns : NS := {}
  na : NA := {}
  redirect : Redirect := {}
  deriving Repr, DecidableEq

def Objs.get (o : Objs) : Kind → AnyLayer
  | .icmp4 => .icmp4 o.icmp4 | .icmp6 => .icmp6 o.icmp6 | .echo => .echo o.echo | .rs => .rs o.rs
  | .ra => .ra o.ra | .ns => .ns o.ns | .na => .na o.na | .redirect => .redirect o.redirect

def Objs.set (o : Objs) : AnyLayer → Objs
  | .icmp4 l => { o with icmp4 := l } | .icmp6 l => { o with icmp6 := l }
  | .echo l => { o with echo := l } | .rs l => { o with rs := l } | .ra l => { o with ra := l }
  | .ns l => { o with ns := l } | .na l => { o with na := l } | .redirect l => { o with redirect := l }

inductive DlpStatus where
  | ok | err | unsupported
  deriving Repr, DecidableEq

structure DlpOut where
  objs    : Objs
  decoded : List PLayer
  status  : DlpStatus
  trunc   : Bool
  deriving Repr, DecidableEq

/-- layers_decoder.go LayersDecoder loop over a container holding the eight objects and a
    gopacket.Payload: decode into the object of the current type, append the type, follow
    NextLayerType while the payload is non-empty. -/
def dlpRun : Nat → Kind → Objs → Bytes → List PLayer → Bool → Res DlpOut
  | 0, _, _, _, _, _ => .err "fuel"
  | fuel + 1, k, o, data, acc, tr => do
    let r ← (o.get k).decode ⟨data, []⟩
    let o' := o.set r.layer
    let tr' := tr || r.trunc
    if r.err then pure ⟨o', acc, .err, tr'⟩
    else
      let l := r.layer
      let acc' := acc ++ [.lay l]
      let d := l.payload
      if d.length = 0 then pure ⟨o', acc', .ok, tr'⟩
      else if l.next = .payload then pure ⟨o', acc' ++ [.payload d], .ok, tr'⟩
      else match l.next.kind? with
        | none => pure ⟨o', acc', .unsupported, tr'⟩
        | some k2 => dlpRun fuel k2 o' d acc' tr'

end Gp.Icmp
