import Gp.Model.PcapNg
/-
  Executable model of the pcapng WRITER of /repo/pcapgo (ngwrite.go, ngwrite_dsb.go,
  pcapng.go: toNgOptions/ToUint32/toBytes): NewNgWriterInterface (section header + first
  interface), AddInterface, WritePacketWithOptions, WriteInterfaceStats,
  WriteDecryptionSecretsBlock, Flush — as functions to the list of bytes written.
  Files are little endian; the interface timestamp resolution is fixed to 9 by the writer.
-/
namespace Gp.PcapNg
open Gp.Gen.PcapNg

structure IfaceSpec where
  name    : Bytes := []
  comment : Bytes := []
  descr   : Bytes := []
  filter  : Bytes := []
  os      : Bytes := []
  linkType : Nat := 1      -- layers.LinkType (uint16)
  tsoff    : Nat := 0      -- uint64
  snaplen  : Nat := 0      -- uint32
  deriving DecidableEq, Repr, Inhabited

/-- NgInterfaceStatistics as given to WriteInterfaceStats; a time is `none` iff IsZero(), else UnixNano() -/
structure StatsSpec where
  lastUpdate : Option Int := none
  startTime  : Option Int := none
  endTime    : Option Int := none
  dropped    : Nat := NgNoValue64
  received   : Nat := NgNoValue64
  deriving DecidableEq, Repr, Inhabited

inductive Item where
  | pkt   (iface : Nat) (ts : Int) (len : Nat) (data : Bytes) (opts : PktOpts)  -- ts = ci.Timestamp.UnixNano()
  | iface (i : IfaceSpec)
  | stats (id : Nat) (s : StatsSpec)
  | dsb   (typ : Nat) (payload : Bytes)
  deriving DecidableEq, Repr, Inhabited

structure FileSpec where
  sect  : Section := {}
  if0   : IfaceSpec := {}
  items : List Item := []
  deriving DecidableEq, Repr, Inhabited

def zeros (n : Nat) : Bytes := List.replicate n 0

def putLe64 (n : Nat) : Bytes := putLe32 n ++ putLe32 (n / two32)

/-- padding to 32 bit: `(4 - n&3) & 3` -/
def pad4 (n : Nat) : Nat := (4 - n % 4) % 4

/-- one option as written by writeOptions after prepareNgOptions (`length` field is uint16) -/
def optBytes (o : Nat × Bytes) : Bytes :=
  putLe16 o.1 ++ putLe16 (o.2.length % 65536) ++ o.2 ++ zeros (pad4 o.2.length)

/-- writeOptions: nothing for no options, else all options followed by opt_endofopt -/
def encOpts (os : List (Nat × Bytes)) : Bytes :=
  match os with
  | [] => []
  | _ => (os.map optBytes).flatten ++ [0, 0, 0, 0]

/-- NgEpbFlags.ToUint32 (masks as arithmetic) -/
def flagsToU32 (f : Flags) : Nat :=
  f.dir % 4 + f.rcv / 4 % 8 * 4 + f.fcs / 32 % 32 * 32 + f.lle / 65536 % 65536 * 65536

/-- an optional uint64 option -/
def optU64 (code : Nat) (v : Option Nat) : List (Nat × Bytes) :=
  match v with
  | some v => [(code, putLe64 v)]
  | none => []

/-- an optional uint32 option -/
def optU32 (code : Nat) (v : Option Nat) : List (Nat × Bytes) :=
  match v with
  | some v => [(code, putLe32 v)]
  | none => []

/-- the epb_flags option -/
def optFlags (f : Option Flags) : List (Nat × Bytes) :=
  match f with
  | some f => [(ngOptionCodeEpbFlags, putLe32 (flagsToU32 f))]
  | none => []

/-- NgPacketOptions.toNgOptions, values already in their wire form -/
def pktOptList (o : PktOpts) : List (Nat × Bytes) :=
  o.comments.map (fun c => (ngOptionCodeComment, c))
  ++ optFlags o.flags
  ++ o.hashes.map (fun h => (ngOptionCodeEpbHash, u8 h.1 :: h.2))
  ++ optU64 ngOptionCodeEpbDropCount o.dropCount
  ++ optU64 ngOptionCodeEpbPacketID o.packetId
  ++ optU32 ngOptionCodeEpbQueue o.queue
  ++ o.verdicts.map (fun h => (ngOptionCodeEpbVerdict, u8 h.1 :: h.2))

def strOpt (code : Nat) (v : Bytes) : List (Nat × Bytes) := if v.isEmpty then [] else [(code, v)]

/-- int64 → the two uint32 words `uint32(ts>>32)`, `uint32(ts)` -/
def tsWords (ts : Int) : Bytes :=
  let u := (ts % 18446744073709551616).toNat
  putLe32 (u / two32) ++ putLe32 u

/-- a complete block: type, total length, body, total length (the writer's length fields are uint32) -/
def blockBytes (typ : Nat) (body : Bytes) : Bytes :=
  putLe32 typ ++ putLe32 (body.length + 12) ++ body ++ putLe32 (body.length + 12)

/-- writeSectionHeader -/
def writeSHB (i : Section) : Bytes :=
  blockBytes ngBlockTypeSectionHeader
    (putLe32 ngByteOrderMagic ++ putLe16 ngVersionMajor ++ putLe16 ngVersionMinor ++ putLe64 18446744073709551615
     ++ encOpts (strOpt ngOptionCodeUserApplication i.app ++ strOpt ngOptionCodeComment i.comment
                 ++ strOpt ngOptionCodeHardware i.hardware ++ strOpt ngOptionCodeOS i.os))

def idbOptList (i : IfaceSpec) : List (Nat × Bytes) :=
  strOpt ngOptionCodeInterfaceName i.name ++ strOpt ngOptionCodeComment i.comment
  ++ strOpt ngOptionCodeInterfaceDescription i.descr
  ++ (if i.filter.isEmpty then [] else [(ngOptionCodeInterfaceFilter, 0 :: i.filter)])
  ++ strOpt ngOptionCodeInterfaceOS i.os
  ++ (if i.tsoff = 0 then [] else [(ngOptionCodeInterfaceTimestampOffset, putLe64 i.tsoff)])
  ++ [(ngOptionCodeInterfaceTimestampResolution, [9])]

/-- AddInterface -/
def writeIDB (i : IfaceSpec) : Bytes :=
  blockBytes ngBlockTypeInterfaceDescriptor
    (putLe16 i.linkType ++ putLe16 0 ++ putLe32 i.snaplen ++ encOpts (idbOptList i))

/-- WritePacketWithOptions (CaptureLength = len(data)) -/
def writeEPB (iface : Nat) (ts : Int) (len : Nat) (data : Bytes) (opts : PktOpts) : Bytes :=
  blockBytes ngBlockTypeEnhancedPacket
    (putLe32 iface ++ tsWords ts ++ putLe32 data.length ++ putLe32 len ++ data ++ zeros (pad4 data.length)
     ++ encOpts (pktOptList opts))

def isbOptList (s : StatsSpec) : List (Nat × Bytes) :=
  (match s.startTime with | some t => [(ngOptionCodeInterfaceStatisticsStartTime, tsWords t)] | none => [])
  ++ (match s.endTime with | some t => [(ngOptionCodeInterfaceStatisticsEndTime, tsWords t)] | none => [])
  ++ (if s.dropped = NgNoValue64 then [] else [(ngOptionCodeInterfaceStatisticsInterfaceDropped, putLe64 s.dropped)])
  ++ (if s.received = NgNoValue64 then [] else [(ngOptionCodeInterfaceStatisticsInterfaceReceived, putLe64 s.received)])

/-- WriteInterfaceStats -/
def writeISB (id : Nat) (s : StatsSpec) : Bytes :=
  blockBytes ngBlockTypeInterfaceStatistics
    (putLe32 id ++ tsWords (s.lastUpdate.getD 0) ++ encOpts (isbOptList s))

def dsbTypeKnown (t : Nat) : Bool :=
  t = DSB_SECRETS_TYPE_SSH ∨ t = DSB_SECRETS_TYPE_ZIGBEE_NWK_KEY ∨ t = DSB_SECRETS_TYPE_WIREGUARD
  ∨ t = DSB_SECRETS_TYPE_ZIGBEE_APS_KEY ∨ t = DSB_SECRETS_TYPE_TLS

/-- WriteDecryptionSecretsBlock -/
def writeDSB (typ : Nat) (payload : Bytes) : Bytes :=
  blockBytes ngBlockTypeDecryptionSecrets
    (putLe32 typ ++ putLe32 payload.length ++ payload ++ zeros (pad4 payload.length))

/-- one writer call: the bytes written (none = the call returned an error and wrote nothing) and the
    number of interfaces afterwards -/
def writeItem (nIf : Nat) : Item → Option Bytes × Nat
  | .pkt iface ts len data opts =>
    if iface ≥ nIf then (none, nIf)
    else if data.length > len then (none, nIf)
    else (some (writeEPB iface ts len data opts), nIf)
  | .iface i => (some (writeIDB i), nIf + 1)
  | .stats id s => if id ≥ nIf then (none, nIf) else (some (writeISB id s), nIf)
  | .dsb typ payload => if dsbTypeKnown typ then (some (writeDSB typ payload), nIf) else (none, nIf)

/-- bytes written by the item calls, and how many of them returned an error -/
def writeItems : Nat → List Item → Bytes × Nat
  | _, [] => ([], 0)
  | nIf, it :: rest =>
    let (b, nIf') := writeItem nIf it
    let (bs, errs) := writeItems nIf' rest
    match b with
    | some b => (b ++ bs, errs)
    | none => (bs, errs + 1)

/-- the whole file after Flush -/
def writeFile (f : FileSpec) : Bytes × Nat :=
  let (bs, errs) := writeItems 1 f.items
  (writeSHB f.sect ++ writeIDB f.if0 ++ bs, errs)

end Gp.PcapNg
