import Gp.Model.PoolBase
/-
  LTS model of reassembly Assemblers sharing one StreamPool — property C12.

  Modelled source: reassembly/memory.go StreamPool.getConnection (double-checked insert, the
  `panic("FIXME: other dir added in the meantime...")`), getHalf, newConnection (+grow), remove,
  connections; reassembly/tcpassembly.go connection.reset, AssembleWithContext (locking, Accept,
  half.closed test, lifecycle part of the body), sendToConnection (End ⇒ closeHalfConnection),
  closeHalfConnection, skipFlush, FlushAll.

  Differences from the classic package that matter here:
  * one map entry per connection, stored under the key of the direction that created it; the other
    direction is found through `k.Reverse()` (getHalf) and uses the `s2c` half;
  * there is no retry loop: after `conn.mu.Lock()` only `half.closed` is tested (packet dropped);
  * both halves share one Stream; ReassemblyComplete runs when BOTH halves are closed, and the
    connection is removed only if it returns true (the scripted stream returns true);
  * `remove` deletes `conns[conn.key]` only `if _, ok := conns[conn.key]; ok`.

  `fixed = true` models the tree with proposed_fixes/pool-1 applied (the double-check returns the
  connection found through the reversed key instead of panicking); `fixed = false` is the code as
  written upstream.  Scheduling points and segments as in PoolAsm.lean.  Every packet the adapter
  sends carries SYN (seq 1000, no payload), so nothing is ever queued and every packet accepted on
  an open half produces exactly one ReassembledSG callback.
-/
namespace Gp.Pool.Reasm
open Gp.Pool

/-- `connection`: `c2s` is the half of direction `key`, `s2c` the half of `key.rev`. -/
structure Conn where
  key       : Key := ⟨0, false⟩
  stream    : Option SId := none
  c2sClosed : Bool := false
  s2cClosed : Bool := false
  mu        : Option Tid := none
  deriving DecidableEq, Repr, Inhabited

def Conn.halfClosed (o : Conn) (h : Bool) : Bool := if h then o.s2cClosed else o.c2sClosed
def Conn.closeHalf (o : Conn) (h : Bool) : Conn := if h then { o with s2cClosed := true } else { o with c2sClosed := true }

inductive PC where
  | start
  | ins (sid : SId)
  | lock (c : CId) (h : Bool)        -- h: the `half` pointer is &c.s2c (found through the reversed key)
  | cb (c : CId) (h : Bool) (fin : Bool)
  | rm (c : CId)
  | panicked
  deriving DecidableEq, Repr, Inhabited

structure Thread where
  prog : List Op := []
  pos  : Nat := 0
  pc   : PC := .start
  snap : Option (List CId) := none
  deriving DecidableEq, Repr, Inhabited

structure State where
  thr   : Tid → Thread
  conns : KMap := []
  free  : List CId := []
  obj   : CId → Conn := fun _ => {}
  nextC : Nat := 0
  nextS : Nat := 0
  skey  : SId → Key := fun _ => ⟨0, false⟩   -- ghost: key a stream was created for
  kept  : SId → Bool := fun _ => false        -- ghost: the stream's connection was stored in the map
  log   : List Ev := []

def init (progs : Tid → List Op) : State := { thr := fun t => { prog := progs t } }

def setThr (s : State) (t : Tid) (th : Thread) : State := { s with thr := upd s.thr t th }
def setObj (s : State) (c : CId) (o : Conn) : State := { s with obj := upd s.obj c o }
def addLog (s : State) (e : Ev) : State := { s with log := e :: s.log }

def finishOp (s : State) (t : Tid) : State :=
  let th := s.thr t
  setThr s t { prog := th.prog.tail, pos := th.pos + 1, pc := .start, snap := none }

def advance (s : State) (t : Tid) : State :=
  let th := s.thr t
  match th.snap with
  | some (c :: rest) => setThr s t { th with pc := .lock c false, snap := some rest }
  | _ => finishOp s t

def doPanic (s : State) (t : Tid) : State :=
  addLog (setThr s t { s.thr t with pc := .panicked }) (.panic t)

/-- memory.go getHalf: conns[k] (half = c2s) else conns[k.Reverse()] (half = s2c). -/
def getHalf (m : KMap) (k : Key) : Option (CId × Bool) :=
  match m.get k with
  | some c => some (c, false)
  | none => match m.get k.rev with
    | some c => some (c, true)
    | none => none

/-- Y1/A1(+A2). -/
def stepStart (s : State) (t : Tid) : Option State :=
  let th := s.thr t
  match th.prog with
  | [] => none
  | .flush :: _ =>
    match s.conns.vals with
    | [] => some (finishOp s t)
    | c :: rest => some (setThr s t { th with pc := .lock c false, snap := some rest })
  | .pkt k _ :: _ =>
    match getHalf s.conns k with
    | some (c, h) => some (setThr s t { th with pc := .lock c h })
    | none =>
      let sid := s.nextS
      some (addLog { (setThr s t { th with pc := .ins sid }) with nextS := sid + 1, skey := upd s.skey sid k }
                   (.new sid k t))

/-- Y2/A3: pool.Lock (deferred Unlock); newConnection (reset WITHOUT c.mu); getHalf(k) again;
    `if conn2 != nil { if conn2.key != k { panic("FIXME…") }; return conn2 }`; `conns[k] = conn`. -/
def stepIns (fixed : Bool) (s : State) (t : Tid) (sid : SId) : Option State :=
  let th := s.thr t
  match th.prog with
  | .pkt k _ :: _ =>
    let c := match s.free with | [] => s.nextC | c :: _ => c
    let s1 : State := match s.free with
      | [] => { s with nextC := s.nextC + 1 }
      | _ :: f => { s with free := f }
    let o := s1.obj c
    let s2 := setObj s1 c { o with key := k, stream := some sid, c2sClosed := false, s2cClosed := false }
    match getHalf s2.conns k with
    | some (c2, h2) =>
      if !fixed && (s2.obj c2).key != k then some (doPanic s2 t)
      else some (setThr s2 t { th with pc := .lock c2 h2 })
    | none => some (setThr { s2 with conns := s2.conns.set k c, kept := upd s2.kept sid true } t { th with pc := .lock c false })
  | _ => none

/-- closeHalfConnection after `half.closed = true`: when both halves are closed,
    ReassemblyComplete (returns true) and → Y4 (remove); otherwise Unlock. -/
def afterCloseHalf (s : State) (t : Tid) (c : CId) : State :=
  let o := s.obj c
  if o.c2sClosed && o.s2cClosed then
    match o.stream with
    | none =>
      -- nil stream: nil dereference; AssembleWithContext unlocks c.mu by `defer`, FlushAll does not
      if (s.thr t).snap.isSome then doPanic s t else doPanic (setObj s c { o with mu := none }) t
    | some sid => setThr (addLog s (.complete sid t)) t { s.thr t with pc := .rm c }
  else advance (setObj s c { o with mu := none }) t

/-- Y3/A4. -/
def stepLock (s : State) (t : Tid) (c : CId) (h : Bool) : Option State :=
  let th := s.thr t
  let o := s.obj c
  if o.mu.isSome then none else
  match th.snap, th.prog with
  | some _, _ =>
    -- FlushAll: for half in {s2c, c2s}: for !half.closed { skipFlush → closeHalfConnection }
    if o.c2sClosed && o.s2cClosed then some (advance s t)
    else some (afterCloseHalf (setObj s c { o with mu := some t, c2sClosed := true, s2cClosed := true }) t c)
  | none, .pkt k kind :: _ =>
    match o.stream with
    | none => some (doPanic s t)     -- half.stream.Accept on a nil stream; c.mu released by `defer`
    | some sid =>
      let s1 := addLog s (.accept sid t th.pos)
      if o.halfClosed h then some (advance s1 t)                         -- "got packet on closed half"; deferred Unlock
      else
        some (setThr (addLog (setObj s1 c { o with mu := some t }) (.deliv sid t th.pos k 1))
                t { th with pc := .cb c h (kind != .syn) })
  | none, _ => none

/-- Return from ReassembledSG: `if end { closeHalfConnection }`; deferred c.mu.Unlock. -/
def stepCb (s : State) (t : Tid) (c : CId) (h : Bool) (fin : Bool) : Option State :=
  let o := s.obj c
  if fin then some (afterCloseHalf (setObj s c (o.closeHalf h)) t c)
  else some (advance (setObj s c { o with mu := none }) t)

/-- Y4/A5: pool.Lock; `if _, ok := conns[conn.key]; ok { delete; free = append(free, conn) }`; Unlock; c.mu.Unlock. -/
def stepRm (s : State) (t : Tid) (c : CId) : Option State :=
  let o := s.obj c
  let s1 : State := match s.conns.get o.key with
    | some _ => { s with conns := s.conns.del o.key, free := c :: s.free }
    | none => s
  some (advance (setObj s1 c { o with mu := none }) t)

def step (fixed : Bool) (s : State) (t : Tid) : Option State :=
  match (s.thr t).pc with
  | .start => stepStart s t
  | .ins sid => stepIns fixed s t sid
  | .lock c h => stepLock s t c h
  | .cb c h fin => stepCb s t c h fin
  | .rm c => stepRm s t c
  | .panicked => none

def sys (fixed : Bool) (progs : Tid → List Op) : Sys State := { init := init progs, step := step fixed }

def Thread.done (th : Thread) : Bool := th.pc == .start && th.prog.isEmpty

end Gp.Pool.Reasm
