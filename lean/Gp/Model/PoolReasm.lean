import Gp.Model.PoolBase
/-
  LTS model of reassembly Assemblers sharing one StreamPool — property C12.

  Modelled source: reassembly/memory.go StreamPool.getConnection (double-checked insert, the
  `panic("FIXME: other dir added in the meantime...")`), getHalf, newConnection (+grow), remove,
  connections; reassembly/tcpassembly.go connection.reset, AssembleWithContext (locking, lastSeen, Accept,
  half.closed test, lifecycle part of the body), sendToConnection (End ⇒ closeHalfConnection),
  closeHalfConnection, skipFlush, FlushAll, FlushWithOptions / FlushCloseOlderThan, flushClose.

  Differences from the classic package that matter here:
  * one map entry per connection, stored under the key of the direction that created it; the other
    direction is found through `k.Reverse()` (getHalf) and uses the `s2c` half;
  * there is no retry loop: after `conn.mu.Lock()` only `half.closed` is tested (packet dropped);
  * both halves share one Stream; ReassemblyComplete runs when BOTH halves are closed, and the
    connection is removed only if it returns true (the scripted stream returns true);
  * `remove` deletes `conns[conn.key]` only `if _, ok := conns[conn.key]; ok` — it tests that SOME entry
    is stored under the key, not that the entry is this connection;
  * FlushWithOptions has no `closed` early-out per connection (flushClose tests `half.closed`), and when
    both halves are closed and older than TC it calls `remove(conn)` a second time AFTER
    `conn.mu.Unlock()` (pc `rm2`: a scheduling point at which the goroutine holds no lock).

  `fixed = true` models the tree with proposed_fixes/pool-1 applied (the double-check returns the
  connection found through the reversed key instead of panicking); `fixed = false` is the code as
  written upstream.  Scheduling points and segments as in PoolAsm.lean.  Packets: `syn`, `fin` carry SYN
  (seq 1000, no payload): accepted on an open half they produce exactly one ReassembledSG callback;
  `late ts` (FIN, seq 1101, 4 bytes) is always queued: each half has at most one queued page (a second
  `late` overlaps the first exactly: checkOverlap case 3 drops the old page), released by Flush*.
-/
namespace Gp.Pool.Reasm
open Gp.Pool

/-- `connection`: `c2s` is the half of direction `key`, `s2c` the half of `key.rev`. -/
structure Conn where
  key       : Key := ⟨0, false⟩
  stream    : Option SId := none
  c2sClosed : Bool := false
  s2cClosed : Bool := false
  c2sQ      : Option Nat := none    -- timestamp of the queued (out-of-order) page of the half, if any
  s2cQ      : Option Nat := none
  c2sSeen   : Nat := 0              -- half.lastSeen
  s2cSeen   : Nat := 0
  mu        : Option Tid := none
  deriving DecidableEq, Repr, Inhabited

def Conn.halfClosed (o : Conn) (h : Bool) : Bool := if h then o.s2cClosed else o.c2sClosed
def Conn.halfQ (o : Conn) (h : Bool) : Option Nat := if h then o.s2cQ else o.c2sQ
def Conn.setQ (o : Conn) (h : Bool) (q : Option Nat) : Conn := if h then { o with s2cQ := q } else { o with c2sQ := q }
/-- `if half.lastSeen.Before(timestamp) { half.lastSeen = timestamp }` -/
def Conn.see (o : Conn) (h : Bool) (ts : Nat) : Conn :=
  if h then { o with s2cSeen := max o.s2cSeen ts } else { o with c2sSeen := max o.c2sSeen ts }
/-- `conn.lastSeen()` -/
def Conn.lastSeen (o : Conn) : Nat := max o.c2sSeen o.s2cSeen
/-- closeHalfConnection: `half.closed = true`, the queued pages are released (`first, last = nil, nil`). -/
def Conn.closeHalf (o : Conn) (h : Bool) : Conn :=
  if h then { o with s2cClosed := true, s2cQ := none } else { o with c2sClosed := true, c2sQ := none }
def Conn.bothClosed (o : Conn) : Bool := o.c2sClosed && o.s2cClosed

inductive PC where
  | start
  | ins (sid : SId)
  | lock (c : CId) (h : Bool)        -- h: the `half` pointer is &c.s2c (found through the reversed key)
  | cb (c : CId) (h : Bool) (fin : Bool)
  | rm (c : CId) (cont : List Bool)  -- remove nested in c.mu (closeHalfConnection); Flush*: halves still to visit
  | rm2 (c : CId)                    -- FlushWithOptions: remove AFTER c.mu.Unlock()
  | panicked
  deriving DecidableEq, Repr, Inhabited

structure Thread where
  prog : List Op := []
  pos  : Nat := 0
  pc   : PC := .start
  snap : Option (List CId) := none
  deriving DecidableEq, Repr, Inhabited

structure State where
  thr   : Tid → Thread
  conns : KMap := []
  free  : List CId := []
  obj   : CId → Conn := fun _ => {}
  nextC : Nat := 0
  nextS : Nat := 0
  skey  : SId → Key := fun _ => ⟨0, false⟩   -- ghost: key a stream was created for
  kept  : SId → Bool := fun _ => false        -- ghost: the stream's connection was stored in the map
  log   : List Ev := []

def init (progs : Tid → List Op) : State := { thr := fun t => { prog := progs t } }

def setThr (s : State) (t : Tid) (th : Thread) : State := { s with thr := upd s.thr t th }
def setObj (s : State) (c : CId) (o : Conn) : State := { s with obj := upd s.obj c o }
def addLog (s : State) (e : Ev) : State := { s with log := e :: s.log }

def finishOp (s : State) (t : Tid) : State :=
  let th := s.thr t
  setThr s t { prog := th.prog.tail, pos := th.pos + 1, pc := .start, snap := none }

def advance (s : State) (t : Tid) : State :=
  let th := s.thr t
  match th.snap with
  | some (c :: rest) => setThr s t { th with pc := .lock c false, snap := some rest }
  | _ => finishOp s t

def doPanic (s : State) (t : Tid) : State :=
  addLog (setThr s t { s.thr t with pc := .panicked }) (.panic t)

/-- memory.go getHalf: conns[k] (half = c2s) else conns[k.Reverse()] (half = s2c). -/
def getHalf (m : KMap) (k : Key) : Option (CId × Bool) :=
  match m.get k with
  | some c => some (c, false)
  | none => match m.get k.rev with
    | some c => some (c, true)
    | none => none

/-- Y1/A1(+A2). -/
def stepStart (s : State) (t : Tid) : Option State :=
  let th := s.thr t
  match th.prog with
  | [] => none
  | .flush :: _ =>
    match s.conns.vals with
    | [] => some (finishOp s t)
    | c :: rest => some (setThr s t { th with pc := .lock c false, snap := some rest })
  | .flushold _ _ :: _ =>
    match s.conns.vals with
    | [] => some (finishOp s t)
    | c :: rest => some (setThr s t { th with pc := .lock c false, snap := some rest })
  | .pkt k _ :: _ =>
    match getHalf s.conns k with
    | some (c, h) => some (setThr s t { th with pc := .lock c h })
    | none =>
      let sid := s.nextS
      some (addLog { (setThr s t { th with pc := .ins sid }) with nextS := sid + 1, skey := upd s.skey sid k }
                   (.new sid k t))

/-- Y2/A3: pool.Lock (deferred Unlock); newConnection (reset WITHOUT c.mu); getHalf(k) again;
    `if conn2 != nil { if conn2.key != k { panic("FIXME…") }; return conn2 }`; `conns[k] = conn`. -/
def stepIns (fixed : Bool) (s : State) (t : Tid) (sid : SId) : Option State :=
  let th := s.thr t
  match th.prog with
  | .pkt k kind :: _ =>
    let c := match s.free with | [] => s.nextC | c :: _ => c
    let s1 : State := match s.free with
      | [] => { s with nextC := s.nextC + 1 }
      | _ :: f => { s with free := f }
    let o := s1.obj c
    let s2 := setObj s1 c { o with key := k, stream := some sid, c2sClosed := false, s2cClosed := false,
                                   c2sQ := none, s2cQ := none, c2sSeen := kind.ts, s2cSeen := kind.ts }
    match getHalf s2.conns k with
    | some (c2, h2) =>
      if !fixed && (s2.obj c2).key != k then some (doPanic s2 t)
      else some (setThr s2 t { th with pc := .lock c2 h2 })
    | none => some (setThr { s2 with conns := s2.conns.set k c, kept := upd s2.kept sid true } t { th with pc := .lock c false })
  | _ => none

/-- Which Flush* call the head of the program is. -/
inductive FMode where
  | all                      -- FlushAll
  | old (T TC : Nat)         -- FlushWithOptions{T, TC}
  deriving DecidableEq, Repr, Inhabited

def fmode : List Op → FMode
  | .flushold T TC :: _ => .old T TC
  | _ => .all

/-- End of the visit of connection `c` by a Flush* call (`t` owns c.mu).  FlushAll: Unlock.
    FlushWithOptions: `if s2c.closed && c2s.closed && s2c.lastSeen.Before(TC) && c2s.lastSeen.Before(TC)
    {remove = true}`; Unlock; `if remove { pool.remove(conn) }` → scheduling point `rm2`. -/
def flushEnd (s : State) (t : Tid) (c : CId) : State :=
  let o := s.obj c
  let s1 := setObj s c { o with mu := none }
  match fmode (s.thr t).prog with
  | .all => advance s1 t
  | .old _ TC =>
    if o.bothClosed && decide (o.s2cSeen < TC) && decide (o.c2sSeen < TC) then
      setThr s1 t { s.thr t with pc := .rm2 c }
    else advance s1 t

/-- closeHalfConnection after `half.closed = true` inside AssembleWithContext: when both halves are
    closed, ReassemblyComplete (returns true) and → Y4 (remove); otherwise (deferred) Unlock. -/
def afterCloseHalf (s : State) (t : Tid) (c : CId) : State :=
  let o := s.obj c
  if o.bothClosed then
    match o.stream with
    | none => doPanic (setObj s c { o with mu := none }) t   -- nil stream; c.mu released by `defer`
    | some sid => setThr (addLog s (.complete sid t)) t { s.thr t with pc := .rm c [] }
  else advance (setObj s c { o with mu := none }) t

/-- A Flush* call visits the halves `hs` of connection `c` (`t` owns c.mu); the loop is
    `for _, half := range []*halfconnection{&conn.s2c, &conn.c2s}`.
    FlushAll:          `for !half.closed { skipFlush }`
    FlushWithOptions:  flushClose: `if half.closed {return}`;
                       `for half.first != nil && half.first.seen.Before(T) { skipFlush; if half.closed {return} }`;
                       `if !half.closed && half.first == nil && conn.lastSeen().Before(TC) { closeHalfConnection }`.
    skipFlush with a queued page: one ReassembledSG callback (→ pc `cb`, the visit continues in stepCb);
    without: closeHalfConnection, and when both halves are closed ReassemblyComplete + nested remove
    (→ pc `rm`, which records the halves the loop has still to look at when remove returns: FlushAll
    re-tests `!half.closed` of the SAME half — it is closed unless the object was reset meanwhile —,
    flushClose returns after an idle close). -/
def wantDeliver (m : FMode) (o : Conn) (h : Bool) : Bool :=
  match o.halfQ h, m with
  | some _, .all => true
  | some ts, .old T _ => decide (ts < T)
  | none, _ => false

def wantClose (m : FMode) (o : Conn) (h : Bool) : Bool :=
  match m with
  | .all => true
  | .old _ TC => (o.halfQ h).isNone && decide (o.lastSeen < TC)

def rmCont (m : FMode) (h : Bool) (hs : List Bool) : List Bool :=
  match m with
  | .all => h :: hs
  | .old _ _ => hs

def flushHalves (s : State) (t : Tid) (c : CId) : List Bool → State
  | [] => flushEnd s t c
  | h :: hs =>
    let th := s.thr t
    let o := s.obj c
    let m := fmode th.prog
    if o.halfClosed h then flushHalves s t c hs
    else if wantDeliver m o h then
      match o.stream with
      | none => doPanic s t                -- nil stream; Flush* does not defer the Unlock
      | some sid =>
        setThr (addLog (setObj s c (o.setQ h none)) (.fdeliv sid t th.pos 1)) t { th with pc := .cb c h true }
    else if wantClose m o h then
      let o1 := o.closeHalf h
      if o1.bothClosed then
        match o.stream with
        | none => doPanic s t
        | some sid =>
          setThr (addLog (setObj s c o1) (.complete sid t)) t { th with pc := .rm c (rmCont m h hs) }
      else flushHalves (setObj s c o1) t c hs
    else flushHalves s t c hs

/-- Y3/A4. -/
def stepLock (s : State) (t : Tid) (c : CId) (h : Bool) : Option State :=
  let th := s.thr t
  let o := s.obj c
  if o.mu.isSome then none else
  match th.snap, th.prog with
  | some _, _ =>
    -- FlushAll / FlushWithOptions: conn.mu.Lock(); both halves, s2c first
    some (flushHalves (setObj s c { o with mu := some t }) t c [true, false])
  | none, .pkt k kind :: _ =>
    match o.stream with
    | none => some (doPanic s t)     -- half.stream.Accept on a nil stream; c.mu released by `defer`
    | some sid =>
      let o := o.see h kind.ts                                            -- half.lastSeen
      let s1 := addLog (setObj s c o) (.accept sid t th.pos)
      if o.halfClosed h then some (advance s1 t)                         -- "got packet on closed half"; deferred Unlock
      else
        match kind with
        | .late ts =>
          -- out of order: queued (replacing the page already queued for the same bytes); no callback
          some (advance (addLog (setObj s1 c (o.setQ h (some ts))) (.queue sid t th.pos k)) t)
        | _ =>
          some (setThr (addLog (setObj s1 c { o with mu := some t }) (.deliv sid t th.pos k 1))
                  t { th with pc := .cb c h (kind != .syn) })
  | none, _ => none

/-- Return from ReassembledSG.  AssembleWithContext: `if end { closeHalfConnection }`; deferred c.mu.Unlock.
    Flush*: the page carried FIN: closeHalfConnection(half); both closed ⇒ ReassemblyComplete + nested
    remove; else on to the next half (`h = true` is s2c, the first of the two). -/
def stepCb (s : State) (t : Tid) (c : CId) (h : Bool) (fin : Bool) : Option State :=
  let o := s.obj c
  if (s.thr t).snap.isSome then
    let o1 := o.closeHalf h
    if o1.bothClosed then
      match o.stream with
      | none => some (doPanic s t)
      | some sid =>
        -- when remove returns, skipFlush returns into the loop of the same half
        some (setThr (addLog (setObj s c o1) (.complete sid t)) t { s.thr t with pc := .rm c (h :: (if h then [false] else [])) })
    else some (flushHalves (setObj s c o1) t c (if h then [false] else []))
  else if fin then some (afterCloseHalf (setObj s c (o.closeHalf h)) t c)
  else some (advance (setObj s c { o with mu := none }) t)

/-- memory.go remove: pool.Lock; `if _, ok := conns[conn.key]; ok { delete; free = append(free, conn) }`; Unlock. -/
def doRemove (s : State) (c : CId) : State :=
  match s.conns.get (s.obj c).key with
  | some _ => { s with conns := s.conns.del (s.obj c).key, free := c :: s.free }
  | none => s

/-- Y4/A5: remove nested in c.mu (from closeHalfConnection).  AssembleWithContext: deferred c.mu.Unlock.
    Flush*: back in the loop over the halves. -/
def stepRm (s : State) (t : Tid) (c : CId) (cont : List Bool) : Option State :=
  let s1 := doRemove s c
  if (s.thr t).snap.isSome then some (flushHalves s1 t c cont)
  else some (advance (setObj s1 c { s1.obj c with mu := none }) t)

/-- FlushWithOptions: `remove(conn)` after `conn.mu.Unlock()`; then the next connection of the snapshot. -/
def stepRm2 (s : State) (t : Tid) (c : CId) : Option State :=
  some (advance (doRemove s c) t)

def step (fixed : Bool) (s : State) (t : Tid) : Option State :=
  match (s.thr t).pc with
  | .start => stepStart s t
  | .ins sid => stepIns fixed s t sid
  | .lock c h => stepLock s t c h
  | .cb c h fin => stepCb s t c h fin
  | .rm c cont => stepRm s t c cont
  | .rm2 c => stepRm2 s t c
  | .panicked => none

def sys (fixed : Bool) (progs : Tid → List Op) : Sys State := { init := init progs, step := step fixed }

def Thread.done (th : Thread) : Bool := th.pc == .start && th.prog.isEmpty

end Gp.Pool.Reasm
