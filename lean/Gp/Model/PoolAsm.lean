import Gp.Model.PoolBase
/-
  LTS model of tcpassembly (classic) Assemblers sharing one StreamPool — property C12.

  Modelled source (tcpassembly/assembly.go): StreamPool.getConnection, newConnection (+grow),
  connection.reset, remove, connections, Assembler.AssembleWithTimestamp (retry loop, lifecycle part of
  the body), sendToConnection ("why?" panic, End ⇒ closeConnection), closeConnection, skipFlush, FlushAll,
  FlushWithOptions / FlushOlderThan (`Op.flushold T c`: snapshot, per connection lock, the `closed`
  early-out, release of queued data older than T, CloseAll ⇒ close of a drained idle connection).

  Threads are assembler goroutines; a thread's program is a list of `Op`s.  One transition = one
  *atomic segment* between two scheduling points.  Scheduling points (the `verifYield` hooks) sit
  immediately before every lock acquisition, and inside the stream's `Reassembled` callback:

      start  -- Y1  get.rlock   (Assemble)            |  conns.rlock (FlushAll)
      ins    -- Y2  get.lock    (after factory.New, before the write lock)
      lock c -- Y3  asm.connlock / flush.connlock     (before c.mu.Lock())
      cb c   --     inside Stream.Reassembled         (c.mu held)
      rm c   -- Y4  remove.lock (nested: c.mu held, before pool.mu.Lock())

  The pool RW-lock is never held at a scheduling point (every critical section of pool.mu lies inside
  one segment), so its state is "free" in every state of the LTS; the only lock that is held across
  scheduling points is a connection mutex (`Conn.mu`).
  `connection.reset` writes key/stream/closed/nextSeq/pages WITHOUT holding c.mu, exactly as written;
  connection objects are recycled through `free` (LIFO: head = top).
-/
namespace Gp.Pool.Asm
open Gp.Pool

/-- `connection` (lifecycle-relevant fields). `started` ⇔ nextSeq ≠ invalidSequence.  The page list
    `first…last` is `q` pages of `rst` packets (seq 1001, seen at `Kind.ts0`; only an unstarted connection
    has them) followed by the pages of `late` packets (seq 1101), whose timestamps are `lq` in queue
    order.  Every queued page has End set.  `seen` = lastSeen.  closeConnection does NOT clear the page
    list (it only returns the pages to the page cache): `lq` of a closed connection is left as it is. -/
structure Conn where
  key     : Key := ⟨0, false⟩
  stream  : Option SId := none      -- nil until the first reset
  closed  : Bool := false
  started : Bool := false
  q       : Nat := 0
  lq      : List Nat := []
  seen    : Nat := 0
  mu      : Option Tid := none      -- owner of connection.mu
  deriving DecidableEq, Repr, Inhabited

/-- `conn.first.Seen` (none ⇔ `conn.first == nil`) -/
def Conn.firstSeen (o : Conn) : Option Nat := if o.q > 0 then some Kind.ts0 else o.lq.head?

inductive PC where
  | start
  | ins (sid : SId)
  | lock (c : CId)
  | cb (c : CId) (fin : Bool)       -- in Reassembled; fin = a.ret[len-1].End
  | rm (c : CId)
  | panicked
  deriving DecidableEq, Repr, Inhabited

structure Thread where
  prog : List Op := []              -- remaining ops; head = current
  pos  : Nat := 0                   -- index of the current op
  pc   : PC := .start
  snap : Option (List CId) := none  -- Flush* in progress: connections still to visit
  deriving DecidableEq, Repr, Inhabited

structure State where
  thr   : Tid → Thread
  conns : KMap := []
  free  : List CId := []
  obj   : CId → Conn := fun _ => {}
  nextC : Nat := 0
  nextS : Nat := 0
  skey  : SId → Key := fun _ => ⟨0, false⟩   -- ghost: key a stream was created for
  kept  : SId → Bool := fun _ => false        -- ghost: the stream's connection was stored in the map
  log   : List Ev := []                       -- newest first

def init (progs : Tid → List Op) : State := { thr := fun t => { prog := progs t } }

def setThr (s : State) (t : Tid) (th : Thread) : State := { s with thr := upd s.thr t th }
def setObj (s : State) (c : CId) (o : Conn) : State := { s with obj := upd s.obj c o }
def addLog (s : State) (e : Ev) : State := { s with log := e :: s.log }

/-- The current op is finished: pop it. -/
def finishOp (s : State) (t : Tid) : State :=
  let th := s.thr t
  setThr s t { prog := th.prog.tail, pos := th.pos + 1, pc := .start, snap := none }

/-- After releasing a connection: next connection of a Flush* snapshot, else the op is finished. -/
def advance (s : State) (t : Tid) : State :=
  let th := s.thr t
  match th.snap with
  | some (c :: rest) => setThr s t { th with pc := .lock c, snap := some rest }
  | _ => finishOp s t

/-- A Go panic in the goroutine (recovered at its top level; locks held stay held). -/
def doPanic (s : State) (t : Tid) : State :=
  addLog (setThr s t { s.thr t with pc := .panicked }) (.panic t)

/-- Y1/A1(+A2).  Assemble: RLock; conn := conns[k]; RUnlock; `if end || conn != nil {return conn}`;
    `s := factory.New(k)`.   FlushAll / FlushWithOptions: `connections()` snapshot. -/
def stepStart (s : State) (t : Tid) : Option State :=
  let th := s.thr t
  match th.prog with
  | [] => none
  | .flush :: _ =>
    match s.conns.vals with
    | [] => some (finishOp s t)
    | c :: rest => some (setThr s t { th with pc := .lock c, snap := some rest })
  | .flushold _ _ :: _ =>
    match s.conns.vals with
    | [] => some (finishOp s t)
    | c :: rest => some (setThr s t { th with pc := .lock c, snap := some rest })
  | .pkt k kind :: _ =>
    match s.conns.get k with
    | some c => some (setThr s t { th with pc := .lock c })
    | none =>
      if kind = .rst then some (finishOp s t)      -- end && conn == nil: Assemble returns
      else
        let sid := s.nextS
        some (addLog { (setThr s t { th with pc := .ins sid }) with nextS := sid + 1, skey := upd s.skey sid k }
                     (.new sid k t))

/-- Y2/A3.  pool.Lock; conn = newConnection(k, s) (pop free or grow; reset WITHOUT c.mu);
    `if conn2 := conns[k]; conn2 != nil {Unlock; return conn2}`; `conns[k] = conn`; Unlock. -/
def stepIns (s : State) (t : Tid) (sid : SId) : Option State :=
  let th := s.thr t
  match th.prog with
  | .pkt k kind :: _ =>
    let c := match s.free with | [] => s.nextC | c :: _ => c
    let s1 : State := match s.free with
      | [] => { s with nextC := s.nextC + 1 }
      | _ :: f => { s with free := f }
    let o := s1.obj c
    let s2 := setObj s1 c { o with key := k, stream := some sid, closed := false, started := false, q := 0,
                                   lq := [], seen := kind.ts }
    match s2.conns.get k with
    | some c2 => some (setThr s2 t { th with pc := .lock c2 })
    | none => some (setThr { s2 with conns := s2.conns.set k c, kept := upd s2.kept sid true } t { th with pc := .lock c })
  | _ => none

/-- closeConnection up to the nested pool lock: ReassemblyComplete; closed = true; → Y4. -/
def doClose (s : State) (t : Tid) (c : CId) : State :=
  let o := s.obj c
  match o.stream with
  | none => doPanic s t                      -- nil stream: nil dereference
  | some sid =>
    setThr (addLog (setObj s c { o with closed := true }) (.complete sid t)) t { s.thr t with pc := .rm c }

/-- skipFlush on a connection with queued pages (c.mu just taken by `t`): pop the first page and
    everything contiguous with it — the `q` rst pages if there are any (the late pages, seq 1101, are
    not contiguous with them), else ALL late pages (they cover the same bytes) — one Reassembled
    callback whose last Reassembly has End. -/
def flushDeliver (s : State) (t : Tid) (c : CId) : State :=
  let th := s.thr t
  let o := s.obj c
  match o.stream with
  | none => doPanic (setObj s c { o with mu := some t }) t     -- sendToConnection: panic("why?")
  | some sid =>
    if o.q > 0 then
      setThr (addLog (setObj s c { o with mu := some t, started := true, q := 0 }) (.fdeliv sid t th.pos o.q))
        t { th with pc := .cb c true }
    else
      setThr (addLog (setObj s c { o with mu := some t, started := true, lq := [] }) (.fdeliv sid t th.pos o.lq.length))
        t { th with pc := .cb c true }

/-- Y3/A4.  c.mu.Lock; Assemble: `if conn.closed {Unlock; retry}`; body up to the Reassembled callback.
    FlushAll: `for !conn.closed { skipFlush }`.
    FlushWithOptions{T, CloseAll}: `if conn.closed {Unlock; continue}`;
    `for conn.first != nil && conn.first.Seen.Before(T) { skipFlush; if conn.closed {break} }` (every
    queued page has End, so the first skipFlush closes); `if CloseAll && !closed && first == nil &&
    lastSeen.Before(T) { closeConnection }`. -/
def stepLock (s : State) (t : Tid) (c : CId) : Option State :=
  let th := s.thr t
  let o := s.obj c
  if o.mu.isSome then none else
  match th.snap, th.prog with
  | some _, .flushold T ca :: _ =>
    -- FlushWithOptions
    if o.closed then some (advance s t)
    else
      match o.firstSeen with
      | some fs =>
        if fs < T then some (flushDeliver s t c)
        else some (advance s t)                         -- first != nil: neither flushed nor closed
      | none =>
        if ca != 0 && o.seen < T then some (doClose (setObj s c { o with mu := some t }) t c)
        else some (advance s t)
  | some _, _ =>
    -- FlushAll
    if o.closed then some (advance s t)
    else if o.firstSeen.isSome then some (flushDeliver s t c)
    else some (doClose (setObj s c { o with mu := some t }) t c)
  | none, .pkt k kind :: _ =>
    if o.closed then some (setThr s t { th with pc := .start })        -- Unlock; loop
    else
      -- `if conn.lastSeen.Before(timestamp) { conn.lastSeen = timestamp }`
      let o := { o with seen := max o.seen kind.ts }
      -- body: lifecycle effect of the sequence logic for the four packet shapes
      let queued := (kind = .rst && !o.started) || kind.isLate
      if queued then
        let o' : Conn := match kind with
          | .late ts => { o with lq := o.lq ++ [ts] }
          | _ => { o with q := o.q + 1 }
        match o.stream with
        | none => some (advance (addLog (setObj s c o') (.queue 0 t th.pos k)) t)
        | some sid => some (advance (addLog (setObj s c o') (.queue sid t th.pos k)) t)
      else
        let n := if o.started then 1 else 1 + o.q
        let fin := if o.started then kind != .syn else decide (o.q > 0)
        match o.stream with
        | none => some (doPanic (setObj s c { o with mu := some t }) t)   -- sendToConnection: panic("why?")
        | some sid =>
          some (setThr (addLog (setObj s c { o with mu := some t, started := true, q := 0 }) (.deliv sid t th.pos k n))
                  t { th with pc := .cb c fin })
  | none, _ => none

/-- Return from Reassembled: `if End {closeConnection}` else c.mu.Unlock. -/
def stepCb (s : State) (t : Tid) (c : CId) (fin : Bool) : Option State :=
  if fin then some (doClose s t c)
  else some (advance (setObj s c { s.obj c with mu := none }) t)

/-- Y4/A5.  pool.Lock; delete(conns, conn.key); free = append(free, conn); Unlock; … c.mu.Unlock. -/
def stepRm (s : State) (t : Tid) (c : CId) : Option State :=
  let o := s.obj c
  let s1 : State := { s with conns := s.conns.del o.key, free := c :: s.free }
  some (advance (setObj s1 c { o with mu := none }) t)

def step (s : State) (t : Tid) : Option State :=
  match (s.thr t).pc with
  | .start => stepStart s t
  | .ins sid => stepIns s t sid
  | .lock c => stepLock s t c
  | .cb c fin => stepCb s t c fin
  | .rm c => stepRm s t c
  | .panicked => none

def sys (progs : Tid → List Op) : Sys State := { init := init progs, step := step }

/-- A thread has nothing left to do. -/
def Thread.done (th : Thread) : Bool := th.pc == .start && th.prog.isEmpty

end Gp.Pool.Asm
