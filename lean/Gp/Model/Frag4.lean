/-
  Executable model of ip4defrag/defrag.go (engine `frag4`, property C13).  Core Lean only.

  Modelled functions (source fingerprints in props/C13.json, correspondence by engine frag4):
    IPv4Defragmenter.DefragIPv4WithTimestamp, dontDefrag, securityChecks, flush,
    DiscardOlderThan, fragmentList.insert, fragmentList.build, newIPv4 (the map key).
  The four package constants and the two flag masks come from the generated file
  Gp/Gen/Frag.lean (regenerated from the source on every run).

  Go's sized integers: every field is a `Nat` in the range of its Go type (`Frag.inRange`);
  every uint16 operation that can wrap is written with an explicit `% 65536`.
  The model is of the code WITH proposed_fixes/frag-1 … frag-6 applied (see notes/frag.md);
  behaviour the fixes do not touch is reproduced as is, e.g. a fragment whose offset lies above
  all stored ones but below `Highest` is counted but not stored (`InsRes.miss`).
-/
import Gp.Go.Basic
import Gp.Gen.Frag

namespace Gp.Frag4
open Gp.Gen.Frag

/-- The fields of `layers.IPv4` the defragmenter reads or copies.  `off` is the FragOffset
    FIELD (8-byte units); `payload` is `ip.Payload`, whose length is independent of `length`. -/
structure Frag where
  src : Nat
  dst : Nat
  id : Nat
  ihl : Nat
  flags : Nat
  off : Nat
  length : Nat
  payload : Bytes
  opts : Bytes
  deriving DecidableEq, Repr, Inhabited

/-- Ranges of the Go field types (uint8 / uint16 / 4-byte addresses). -/
def Frag.inRange (f : Frag) : Prop :=
  f.ihl < 256 ∧ f.flags < 256 ∧ f.off < 65536 ∧ f.length < 65536 ∧ f.id < 65536

instance (f : Frag) : Decidable f.inRange := by unfold Frag.inRange; infer_instance

abbrev Key := Nat × Nat × Nat

/-- newIPv4: (NetworkFlow(src,dst), Id). -/
def Frag.key (f : Frag) : Key := (f.src, f.dst, f.id)

def u16 (n : Nat) : Nat := n % 65536
/-- uint16 subtraction `a - b` (both already in range). -/
def sub16 (a b : Nat) : Nat := (a + 65536 - b % 65536) % 65536

/-- `uint16(ip.IHL)*4` -/
def Frag.hdrLen (f : Frag) : Nat := u16 (f.ihl * 4)
/-- `ip.Length - uint16(ip.IHL)*4` in uint16 -/
def Frag.fragLength (f : Frag) : Nat := sub16 f.length f.hdrLen
/-- `ip.FragOffset * 8` in uint16 -/
def Frag.byteOff (f : Frag) : Nat := u16 (f.off * 8)
def Frag.mf (f : Frag) : Bool := f.flags &&& ip4MoreFragments != 0
def Frag.df (f : Frag) : Bool := f.flags &&& ip4DontFragment != 0

/-- dontDefrag -/
def dontDefrag (f : Frag) : Bool := f.df || (!f.mf && f.off == 0)

/-- securityChecks: `true` = no error. -/
def securityChecks (f : Frag) : Bool :=
  if f.mf && f.fragLength < ip4MinimumFragmentSize then false
  else if f.off > ip4MaximumFragmentOffset then false
  else if f.byteOff + f.length > ip4MaximumSize then false   -- uint32 arithmetic: cannot wrap
  else true

/-- fragmentList -/
structure FL where
  list : List Frag := []
  highest : Nat := 0
  current : Nat := 0
  final : Bool := false
  lastSeen : Int := 0
  deriving DecidableEq, Repr, Inhabited

/-- Outcome of the `else` branch of insert (the walk over the list). -/
inductive InsRes where
  | dup                       -- same offset already stored: insert returns (nil, nil)
  | miss                      -- fell off the end: NOT stored (but counted by the caller)
  | ins (l : List Frag)       -- InsertBefore the first element with a larger offset
  deriving DecidableEq, Repr

def insLoop (f : Frag) : List Frag → InsRes
  | [] => .miss
  | g :: t =>
    if f.off = g.off then .dup
    else if f.off < g.off then .ins (f :: g :: t)
    else match insLoop f t with
      | .ins t' => .ins (g :: t')
      | .dup => .dup
      | .miss => .miss

/-- The list after the first part of insert; `none` = duplicate (early return). -/
def place (fl : FL) (f : Frag) : Option (List Frag) :=
  if f.byteOff ≥ fl.highest then some (fl.list ++ [f])
  else match insLoop f fl.list with
    | .dup => none
    | .miss => some fl.list
    | .ins l => some l

/-- The loop of build: `cur` is currentOffset (uint16), `acc` is `final`. -/
def buildLoop : List Frag → Nat → Bytes → Res Bytes
  | [], _, acc => .ok acc
  | g :: t, cur, acc =>
    if (g.length : Int) - (g.ihl : Int) * 4 ≠ (g.payload.length : Int) then .err "payload does not match header"
    else if g.byteOff = cur then buildLoop t (u16 (cur + g.fragLength)) (acc ++ g.payload)
    else if g.byteOff < cur then
      let startAt := sub16 cur g.byteOff
      if startAt > g.fragLength then .err "invalid fragment"
      else if startAt ≤ g.payload.length then
        buildLoop t (sub16 (u16 (cur + g.fragLength)) startAt) (acc ++ g.payload.drop startAt)
      else .panic .slice                       -- frag.Payload[startAt:]
    else .err "hole found"

inductive Reply where
  | none
  | err
  | out (d : Frag)
  | panic (k : PanicKind)
  deriving DecidableEq, Repr, Inhabited

/-- build: header copied from `inp` (the fragment that completed the datagram). -/
def build (fl : FL) (inp : Frag) : Reply :=
  match buildLoop fl.list 0 [] with
  | .ok bytes => .out { inp with length := u16 (inp.hdrLen + fl.highest), flags := 0, off := 0, payload := bytes }
  | .err _ => .err
  | .panic k => .panic k

/-- The counter updates of insert (after the fragment has been placed, or not). -/
def FL.upd (fl : FL) (l : List Frag) (f : Frag) (t : Int) : FL :=
  let e := u16 (f.byteOff + f.fragLength)
  { list := l
    highest := if fl.highest < e then e else fl.highest
    current := u16 (fl.current + f.fragLength)
    final := fl.final || !f.mf
    lastSeen := t }

/-- `f.FinalReceived && f.Highest == f.Current` -/
def FL.ready (fl : FL) : Bool := fl.final && fl.highest == fl.current

/-- fragmentList.insert -/
def FL.insert (fl : FL) (f : Frag) (t : Int) : FL × Reply :=
  match place fl f with
  | none => (fl, .none)
  | some l =>
    let fl' := fl.upd l f t
    (fl', if fl'.ready then build fl' f else .none)

/-- IPv4Defragmenter: the ipFlows map as an association list (order is not observable). -/
structure State where
  flows : List (Key × FL) := []
  deriving Repr, Inhabited

def State.lookup (st : State) (k : Key) : Option FL :=
  match st.flows.find? (fun p => decide (p.1 = k)) with
  | some p => some p.2
  | none => none

/-- `fl, exist = d.ipFlows[ipf]; if !exist { fl = new(fragmentList) }` -/
def State.flOr (st : State) (k : Key) : FL :=
  match st.lookup k with
  | some fl => fl
  | none => {}

def State.erase (st : State) (k : Key) : State := { flows := st.flows.filter (fun p => !decide (p.1 = k)) }
def State.set (st : State) (k : Key) (fl : FL) : State := { flows := (k, fl) :: (st.erase k).flows }

/-- DefragIPv4WithTimestamp -/
def defrag (st : State) (f : Frag) (t : Int) : State × Reply :=
  if dontDefrag f then (st, .out f)
  else if !securityChecks f then (st, .err)
  else
    let (fl', r) := (st.flOr f.key).insert f t
    match r with
    | .out d => (st.erase f.key, .out d)               -- d.flush(ipf)
    | .panic k => (st.set f.key fl', .panic k)
    | r =>                                             -- out == nil
      if fl'.list.length + 1 > ip4MaximumFragmentListLen then (st.erase f.key, .err)
      else (st.set f.key fl', r)

/-- DiscardOlderThan: forget every flow with `LastSeen.Before(t)`; returns how many. -/
def discard (st : State) (t : Int) : State × Nat :=
  let keep := st.flows.filter (fun p => !decide (p.2.lastSeen < t))
  ({ flows := keep }, st.flows.length - keep.length)

inductive Op where
  | inp (f : Frag) (t : Int)
  | discard (t : Int)
  deriving Repr

inductive Out where
  | reply (r : Reply)
  | count (n : Nat)
  deriving Repr, DecidableEq

def step (st : State) : Op → State × Out
  | .inp f t => let (s, r) := defrag st f t; (s, .reply r)
  | .discard t => let (s, n) := discard st t; (s, .count n)

/-- Run a history; outputs in order. -/
def run (st : State) : List Op → State × List Out
  | [] => (st, [])
  | op :: ops =>
    let (s1, o) := step st op
    let (s2, os) := run s1 ops
    (s2, o :: os)

end Gp.Frag4
