/-
  Shared vocabulary of the two StreamPool models (engine `pool`, property C12):
  keys, packet kinds, thread programs, the connection map, the event log and the
  generic labelled transition system of DESIGN.md §3.6.   Core Lean only.

  A *key* is (connection pair `p`, direction `d`).  `tcpassembly` (classic) keys its map by the
  directional key; `reassembly` stores ONE entry per connection under the key of the direction
  that created it and finds the other direction through `Key.rev` (memory.go getHalf).
-/
namespace Gp.Pool

abbrev Tid := Nat
abbrev CId := Nat
abbrev SId := Nat

structure Key where
  p : Nat
  d : Bool
  deriving DecidableEq, Repr, Inhabited

/-- reassembly `key.Reverse()`. -/
def Key.rev (k : Key) : Key := ⟨k.p, !k.d⟩

/-- canonical order of keys (the order of the key strings the adapter uses): by pair, then direction. -/
def Key.lt (a b : Key) : Bool := decide (a.p < b.p) || (a.p == b.p && !a.d && b.d)

/-- Packet shapes the adapter sends (sequence numbers fixed so that the byte-level logic, which is
    C09/C10's subject, collapses to its lifecycle effect):
    * `syn` : SYN, seq 1000, no payload — always delivered (one callback);
    * `fin` : SYN|FIN, seq 1000 — delivered; ends the (half)connection
              (classic: only when the connection has already seen a SYN: the `Start` branch of
              AssembleWithTimestamp does not set `End`);
    * `rst` : RST only, seq 1001, no payload (classic only) — `end=true` in getConnection: ignored when
              the connection does not exist, queued when it exists but has not started, else delivered
              with `End`;
    * `late ts` : FIN, seq 1101, payload "late", seen at time `ts` — an OUT-OF-ORDER segment: it lies
              behind the gap 1001..1100 whatever the connection has seen, so it is always QUEUED (with
              its timestamp) and only a Flush* call releases it (one callback, `End` ⇒ close).
    Every other packet is seen at time `Kind.ts0`. -/
inductive Kind where
  | syn | fin | rst
  | late (ts : Nat)
  deriving DecidableEq, Repr, Inhabited

/-- time at which syn / fin / rst packets are seen -/
def Kind.ts0 : Nat := 5

/-- capture timestamp of a packet (small naturals; only their order matters) -/
def Kind.ts : Kind → Nat
  | .late ts => ts
  | _ => Kind.ts0

def Kind.isLate : Kind → Bool
  | .late _ => true
  | _ => false

/-- One item of a thread's program. -/
inductive Op where
  | pkt (k : Key) (kind : Kind)   -- Assemble(packet of key k)
  | flush                         -- FlushAll()
  | flushold (T : Nat) (c : Nat)  -- tcpassembly: FlushWithOptions{T, CloseAll: c ≠ 0} (c ≠ 0: FlushOlderThan(T));
                                  -- reassembly:  FlushWithOptions{T, TC: c}
  deriving DecidableEq, Repr, Inhabited

/-- Observable events (the order is the total order of the controlled schedule).
    `queue` is a ghost event (classic: a packet stored into a connection's page list; no callback). -/
inductive Ev where
  | new      (sid : SId) (k : Key) (t : Tid)                       -- StreamFactory.New for key k
  | deliv    (sid : SId) (t : Tid) (i : Nat) (k : Key) (n : Nat)    -- Reassembled on stream sid, caused by op i (key k) of thread t
  | fdeliv   (sid : SId) (t : Tid) (i : Nat) (n : Nat)              -- Reassembled during FlushAll (queued data)
  | accept   (sid : SId) (t : Tid) (i : Nat)                        -- reassembly: Stream.Accept
  | complete (sid : SId) (t : Tid)                                  -- ReassemblyComplete
  | queue    (sid : SId) (t : Tid) (i : Nat) (k : Key)              -- ghost: packet queued into the connection of stream sid
  | panic    (t : Tid)
  deriving DecidableEq, Repr, Inhabited

/-- Function update. -/
def upd {α : Type} (f : Nat → α) (i : Nat) (v : α) : Nat → α := fun j => if j = i then v else f j

/-! ### The connection map (Go `map[key]*connection`) as a key-sorted association list -/

abbrev KMap := List (Key × CId)

namespace KMap
def get : KMap → Key → Option CId
  | [], _ => none
  | (k', c) :: m, k => if k' = k then some c else get m k

def del : KMap → Key → KMap
  | [], _ => []
  | (k', c) :: m, k => if k' = k then del m k else (k', c) :: del m k

def ins : KMap → Key → CId → KMap
  | [], k, c => [(k, c)]
  | (k', c') :: m, k, c => if k.lt k' then (k, c) :: (k', c') :: m else (k', c') :: ins m k c

/-- `m[k] = c`. -/
def set (m : KMap) (k : Key) (c : CId) : KMap := ins (del m k) k c

/-- snapshot of the values in key order (`connections()` + the verif-only ordering hook). -/
def vals (m : KMap) : List CId := m.map (·.2)
end KMap

/-! ### Generic LTS (DESIGN §3.6) -/

structure Sys (σ : Type) where
  init : σ
  step : σ → Tid → Option σ

namespace Sys
variable {σ : Type}

/-- Reachable under ANY thread choice. -/
inductive Reachable (S : Sys σ) : σ → Prop where
  | init : Reachable S S.init
  | step {s s' : σ} {t : Tid} : Reachable S s → S.step s t = some s' → Reachable S s'

/-- Reachable using only steps allowed by `ok` (used for the `_partial` theorems). -/
inductive ReachableR (S : Sys σ) (ok : σ → Tid → Prop) : σ → Prop where
  | init : ReachableR S ok S.init
  | step {s s' : σ} {t : Tid} : ReachableR S ok s → ok s t → S.step s t = some s' → ReachableR S ok s'

/-- Run a schedule; entries naming a thread that cannot move are skipped. -/
def run (S : Sys σ) : σ → List Tid → σ
  | s, [] => s
  | s, t :: ts => match S.step s t with
    | some s' => run S s' ts
    | none => run S s ts

/-- Strict run: every entry must be enabled. -/
def runStrict (S : Sys σ) : σ → List Tid → Option σ
  | s, [] => some s
  | s, t :: ts => match S.step s t with
    | some s' => runStrict S s' ts
    | none => none

/-- Run a schedule, skipping entries that cannot move or that the decidable guard rejects
    (builds `ReachableR` witnesses). -/
def runG (S : Sys σ) (okb : σ → Tid → Bool) : σ → List Tid → σ
  | s, [] => s
  | s, t :: ts => if okb s t then
      match S.step s t with
      | some s' => runG S okb s' ts
      | none => runG S okb s ts
    else runG S okb s ts
end Sys

end Gp.Pool
