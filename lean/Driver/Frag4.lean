import Driver.Common
import Gp.Model.Frag4
/- Model driver for engine `frag4` (C13): same line protocol as harness/cmd/gp-frag4. -/
open Gp Gp.Frag4 Driver

def showReply : Reply → String
  | .none => "none"
  | .err => "err"
  | .panic k => "panic " ++ k.toString
  | .out d => joinSp ["out", toString d.ihl, toString d.length, toString d.flags, toString d.off,
                      hexOfBytes d.payload, hexOfBytes d.opts]

def lims : List Nat := [4294967295, 4294967295, 65535, 255, 255, 65535, 65535, 1099511627776]

def parseIn (ws : List String) : Option (Frag × Int) := do
  let (nums, rest) := (ws.take 8, ws.drop 8)
  let vs ← natList nums
  if vs.length ≠ 8 then none
  if (vs.zip lims).any (fun p => p.1 > p.2) then none
  let (ph, oh) ← match rest with
    | [p] => some (p, "-")
    | [p, o] => some (p, o)
    | _ => none
  let pay ← bytesOfHex ph
  let opts ← bytesOfHex oh
  if pay.length > 70000 || opts.length > 64 then none
  match vs with
  | [src, dst, id, ihl, flags, off, len, ts] =>
    some ({ src, dst, id, ihl, flags, off, length := len, payload := pay, opts }, Int.ofNat ts)
  | _ => none

def stepFrag4 (st : State) (ws : List String) : State × String :=
  match ws with
  | ["reset"] => ({}, "ok")
  | "frag4" :: "in" :: rest =>
    match parseIn rest with
    | some (f, t) => let (s, r) := defrag st f t; (s, showReply r)
    | none => (st, "bad-op")
  | ["frag4", "discard", t] =>
    match t.toNat? with
    | some t =>
      if t > 1099511627776 then (st, "bad-op")
      else let (s, n) := discard st (Int.ofNat t); (s, "ok " ++ toString n)
    | none => (st, "bad-op")
  | _ => (st, "bad-op")

def main : IO Unit := Driver.run ({} : State) stepFrag4
