import Driver.Common
import Gp.Model.Frag6
/- Model driver for engine `frag6` (C13): same line protocol as harness/cmd/gp-frag6. -/
open Gp Gp.Frag6 Driver

def showReply : Reply → String
  | .none => "none"
  | .panic k => "panic " ++ k.toString
  | .out s d n p => joinSp ["out", toString s, toString d, toString n, hexOfBytes p]

def lims : List Nat := [4294967295, 4294967295, 4294967295, 65535, 1, 255]

def stepFrag6 (st : State) (ws : List String) : State × String :=
  match ws with
  | ["reset"] => ({}, "ok")
  | ["frag6", "in", a, b, c, d, e, f, ph] =>
    match natList [a, b, c, d, e, f], bytesOfHex ph with
    | some [src, dst, id, off, more, nh], some pay =>
      if ([src, dst, id, off, more, nh].zip lims).any (fun p => p.1 > p.2) || pay.length > 70000 then (st, "bad-op")
      else
        let (s, r) := defrag st src dst id { hdr := none, off, payload := pay, more := more == 1, nh }
        (s, showReply r)
    | _, _ => (st, "bad-op")
  | ["frag6", "discard", w] =>
    if w == "past" then let (s, n) := discard st false; (s, "ok " ++ toString n)
    else if w == "future" then let (s, n) := discard st true; (s, "ok " ++ toString n)
    else (st, "bad-op")
  | _ => (st, "bad-op")

def main : IO Unit := Driver.run ({} : State) stepFrag6
