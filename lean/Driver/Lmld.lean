import Driver.Common
import Gp.Model.Layers.Mld
/- Model driver for engine `lmld` (MLDv1 query/report/done codecs; C19, C05, C06, C07). -/
open Gp Gp.SBuf Gp.Mld Driver

structure St where
  q   : Msg := Msg.fresh                  -- the objects re-used by `redec`
  r   : Msg := Msg.fresh
  d   : Msg := Msg.fresh
  pIc : Icmp6 := Icmp6.fresh              -- the objects owned by the DecodingLayerParser
  pQ  : Msg := Msg.fresh
  pR  : Msg := Msg.fresh
  pD  : Msg := Msg.fresh

def b01 (b : Bool) : String := if b then "1" else "0"

def boolOf (s : String) : Option Bool :=
  if s == "1" then some true else if s == "0" then some false else none

def natBelow (s : String) (bound : Nat) : Option Nat :=
  match s.toNat? with
  | some n => if n < bound then some n else none
  | none => none

/-- a time.Duration: a decimal int64 -/
def durOf (s : String) : Option Int :=
  match s.toInt? with
  | some v => if -9223372036854775808 ≤ v ∧ v ≤ 9223372036854775807 then some v else none
  | none => none

def kindOf (s : String) : Option Kind :=
  if s == "query" then some .query
  else if s == "report" then some .report
  else if s == "done" then some .done
  else none

/-- payload token: hex, `-`, or `z<n>x<hh>` (n copies of byte hh). -/
def payloadOf (s : String) : Option (List UInt8) :=
  if s.startsWith "z" then
    match (String.ofList (s.toList.drop 1)).splitOn "x" with
    | [n, hh] =>
      match n.toNat?, bytesOfHex hh with
      | some n, some [v] => if n ≤ 200000 then some (List.replicate n v) else none
      | _, _ => none
    | _ => none
  else bytesOfHex s

def renderMsg (l : Msg) : String :=
  s!"mrd={l.maximumResponseDelay} addr={hexOfBytes l.multicastAddress} gq={b01 (isGeneralQuery l)} contents={hexOfBytes l.contents} payload={hexOfBytes l.payload} next={l.nextLayerType}"

def renderIc (l : Icmp6) : String :=
  s!"tc={l.typeCode} ck={l.checksum} contents={hexOfBytes l.contents} payload={hexOfBytes l.payload} next={l.nextLayerType}"

/-- reply of a decode op: on an error the receiver is rendered too (what the failed call left behind). -/
def showDec {L : Type} (render : L → String) (r : Res (DecOut L)) : String :=
  match r with
  | .ok o => if o.err then s!"err trunc={b01 o.trunc} | {render o.layer}" else s!"ok {render o.layer} trunc={b01 o.trunc}"
  | .err _ => "err"
  | .panic k => "panic " ++ k.toString

/-- the buffer histories of the `ser` op -/
def bufOf (h : String) : Option SBuf :=
  if h == "fresh" then some (new 0 0)
  else if h.startsWith "dirty" then
    match natBelow (String.ofList (h.toList.drop 5)) 256 with
    | some v =>
      let junk := List.replicate 64 (UInt8.ofNat v)
      some (clear (step (step (new 0 0) (.append junk)) (.prepend junk)))
    | none => none
  else if h.startsWith "sized" then
    match natBelow (String.ofList (h.toList.drop 5)) 100000 with
    | some n => some (new n n)
    | none => none
  else none

/-- the buffer SerializeLayers hands to the layer: cleared, payload serialized and pushed -/
def overPayload (p : List UInt8) : SBuf := pushLayer (serializePayload p (clear (new 0 0))) 2

def againStr {L : Type} (r : Res (SerOut L)) (bytes : List UInt8) : String :=
  match r with
  | .ok o2 => if o2.err then "err" else if contents o2.buf = bytes then "same" else "diff"
  | .err _ => "err"
  | .panic k => "panic-" ++ k.toString

def rtMsg (k : Kind) (l : Msg) (p : List UInt8) : String :=
  match l.serializeTo (overPayload p) true true with
  | .panic k => "panic " ++ k.toString
  | .err _ => "ser-err"
  | .ok o =>
    if o.err then "ser-err" else
    let bytes := contents o.buf
    let d := decodeFromBytes k Msg.fresh { vis := bytes, tail := [] }
    let again :=
      match d with
      | .ok od => if od.err then "none" else againStr (od.layer.serializeTo (overPayload od.layer.payload) true true) bytes
      | _ => "none"
    s!"ok bytes={hexOfBytes bytes} | {showDec renderMsg d} | again={again}"

def showAct : Act → String
  | .setTruncated => "trunc"
  | .addLayer t => s!"add:{t}"

def showTail : Tail → String
  | .done => "done"
  | .fail => "fail"
  | .nextLayerType t => s!"lt:{t}"

def showBeh (b : Beh) : String :=
  let acts := if b.acts.isEmpty then "-" else ",".intercalate (b.acts.map showAct)
  s!"acts={acts} tail={showTail b.tail}"

def showPb {L : Type} (render : L → String) (r : Res (Beh × Option L)) : String :=
  match r with
  | .ok (b, some l) => s!"{showBeh b} | {render l}"
  | .ok (b, none) => showBeh b
  | .err _ => "err"
  | .panic k => "panic " ++ k.toString

def showPkt {L : Type} (render : L → String) (r : Res (Beh × Option L)) : String :=
  match r with
  | .ok (_, some l) => s!"ok {render l}"
  | .ok (_, none) => "fail"
  | .err _ => "err"
  | .panic k => "panic " ++ k.toString

def kindOfType (t : Nat) : Option Kind :=
  if t = LayerTypeMLDv1MulticastListenerQuery then some .query
  else if t = LayerTypeMLDv1MulticastListenerReport then some .report
  else if t = LayerTypeMLDv1MulticastListenerDone then some .done
  else none

/-- NewPacket with ICMPv6 as first decoder: the ICMPv6 layer, then (packet.go NextDecoder: nothing
    when the payload is empty) the decoder of the next type when that is one of the MLDv1 types. -/
def showPkt6 (data : GSlice) : String :=
  match decodeICMPv6Fn data with
  | .panic k => "panic " ++ k.toString
  | .err _ => "err"
  | .ok (_, none) => "fail"
  | .ok (_, some ic) =>
    let mld :=
      match kindOfType ic.nextLayerType with
      | none => "other"
      | some k =>
        if ic.payload.isEmpty then "none" else
        match decodeMLDv1Fn k { vis := ic.payload, tail := data.tail } with
        | .ok (_, some l) => renderMsg l
        | .ok (_, none) => "fail"
        | .err _ => "err"
        | .panic k => "panic " ++ k.toString
    s!"ok {renderIc ic} | mld: {mld}"

def showDlp (r : Res (DlpState × Nat)) : String :=
  match r with
  | .panic k => "panic " ++ k.toString
  | .err _ => "err"
  | .ok (st, code) =>
    let dec := if st.decoded.isEmpty then "-" else ",".intercalate (st.decoded.map toString)
    s!"code={code} decoded={dec} trunc={b01 st.trunc} | {renderIc st.icmp} | {renderMsg st.query} | {renderMsg st.report} | {renderMsg st.done}"

def firstOf (s : String) : Option Nat :=
  if s == "icmp6" then some LayerTypeICMPv6
  else match kindOf s with
    | some k => some k.layerType
    | none => none

def keep {L : Type} (dflt : L) (r : Res (DecOut L)) : L :=
  match r with | .ok o => o.layer | _ => dflt

def getObj (st : St) : Kind → Msg
  | .query => st.q | .report => st.r | .done => st.d

def setObj (st : St) (k : Kind) (l : Msg) : St :=
  match k with
  | .query => { st with q := l } | .report => { st with r := l } | .done => { st with d := l }

def stepLmld (st : St) (ws : List String) : St × String :=
  match ws with
  | ["reset"] => ({}, "ok")
  | ["lmld", "dec", kind, extra, fh, h] =>
    match kindOf kind, extra.toNat?, bytesOfHex fh, bytesOfHex h with
    | some k, some n, some foreign, some data =>
      if foreign.length ≠ n then (st, "bad-op") else
      let r := decodeFromBytes k Msg.fresh { vis := data, tail := foreign }
      (setObj st k (keep Msg.fresh r), showDec renderMsg r)
    | _, _, _, _ => (st, "bad-op")
  | ["lmld", "redec", kind, h] =>
    match kindOf kind, bytesOfHex h with
    | some k, some data =>
      let r := decodeFromBytes k (getObj st k) { vis := data, tail := [] }
      (setObj st k (keep (getObj st k) r), showDec renderMsg r)
    | _, _ => (st, "bad-op")
  | ["lmld", "ser", kind, fix, csum, hist, mrd, addr, pl] =>
    match kindOf kind, boolOf fix, boolOf csum, bufOf hist, durOf mrd, bytesOfHex addr, payloadOf pl with
    | some _, some fix, some csum, some b, some mrd, some addr, some p =>
      let l : Msg := { Msg.fresh with maximumResponseDelay := mrd, multicastAddress := addr }
      match l.serializeTo (serializePayload p b) fix csum with
      | .ok o => if o.err then (st, "err") else (st, s!"ok bytes={hexOfBytes (contents o.buf)}")
      | .err _ => (st, "err")
      | .panic k => (st, "panic " ++ k.toString)
    | _, _, _, _, _, _, _ => (st, "bad-op")
  | ["lmld", "rt", kind, mrd, addr, pl] =>
    match kindOf kind, durOf mrd, bytesOfHex addr, payloadOf pl with
    | some k, some mrd, some addr, some p =>
      (st, rtMsg k { Msg.fresh with maximumResponseDelay := mrd, multicastAddress := addr } p)
    | _, _, _, _ => (st, "bad-op")
  | ["lmld", "rtdec", kind, h] =>
    match kindOf kind, bytesOfHex h with
    | some k, some data =>
      match decodeFromBytes k Msg.fresh { vis := data, tail := [] } with
      | .ok o => if o.err then (st, "dec-err") else (st, rtMsg k o.layer o.layer.payload)
      | .err _ => (st, "dec-err")
      | .panic p => (st, "panic " ++ p.toString)
    | _, _ => (st, "bad-op")
  | ["lmld", "pb", kind, h] =>
    match bytesOfHex h with
    | some data =>
      let d : GSlice := { vis := data, tail := [] }
      if kind == "icmp6" then (st, showPb renderIc (decodeICMPv6Fn d))
      else match kindOf kind with
        | some k => (st, showPb renderMsg (decodeMLDv1Fn k d))
        | none => (st, "bad-op")
    | none => (st, "bad-op")
  | ["lmld", "pkt", kind, mode, extra, fh, h] =>
    match extra.toNat?, bytesOfHex fh, bytesOfHex h with
    | some n, some foreign, some data =>
      if foreign.length ≠ n ∨ ¬ (mode == "copy" ∨ mode == "nocopy" ∨ mode == "lazy") then (st, "bad-op") else
      -- the copying paths give the decoder a buffer with cap = len
      let d : GSlice := { vis := data, tail := if mode == "nocopy" then foreign else [] }
      if kind == "icmp6" then
        if data.isEmpty then (st, "empty") else (st, showPkt6 d)
      else match kindOf kind with
        | some k => if data.isEmpty then (st, "empty") else (st, showPkt renderMsg (decodeMLDv1Fn k d))
        | none => (st, "bad-op")
    | _, _, _ => (st, "bad-op")
  | ["lmld", "dlp", first, h] =>
    match firstOf first, bytesOfHex h with
    | some first, some data =>
      let r := dlpDecodeLayers Icmp6.fresh Msg.fresh Msg.fresh Msg.fresh first { vis := data, tail := [] }
      let st' := match r with
        | .ok (s, _) => { st with pIc := s.icmp, pQ := s.query, pR := s.report, pD := s.done }
        | _ => { st with pIc := Icmp6.fresh, pQ := Msg.fresh, pR := Msg.fresh, pD := Msg.fresh }
      (st', showDlp r)
    | _, _ => (st, "bad-op")
  | ["lmld", "redlp", first, h] =>
    match firstOf first, bytesOfHex h with
    | some first, some data =>
      let r := dlpDecodeLayers st.pIc st.pQ st.pR st.pD first { vis := data, tail := [] }
      let st' := match r with
        | .ok (s, _) => { st with pIc := s.icmp, pQ := s.query, pR := s.report, pD := s.done }
        | _ => st
      (st', showDlp r)
    | _, _ => (st, "bad-op")
  | _ => (st, "bad-op")

def main : IO Unit := run ({} : St) stepLmld
