import Driver.Common
import Gp.Model.Layers.Ntp
/- Model driver for engine `lntp` (NTP and VRRPv2 codecs; C19, C05, C06, C07). -/
open Gp Gp.SBuf Gp.Ntp Driver

structure St where
  ntp   : NTP := NTP.fresh                -- the objects re-used by `redec`
  vrrp  : VRRP := VRRP.fresh
  pNtp  : NTP := NTP.fresh                -- the objects owned by the DecodingLayerParser
  pVrrp : VRRP := VRRP.fresh

def b01 (b : Bool) : String := if b then "1" else "0"

def boolOf (s : String) : Option Bool :=
  if s == "1" then some true else if s == "0" then some false else none

def natBelow (s : String) (bound : Nat) : Option Nat :=
  match s.toNat? with
  | some n => if n < bound then some n else none
  | none => none

/-- a decimal `int8` -/
def int8Of (s : String) : Option Int :=
  match s.toInt? with
  | some n => if -128 ≤ n ∧ n ≤ 127 then some n else none
  | none => none

/-- payload token: hex, `-`, or `z<n>x<hh>` (n copies of byte hh). -/
def payloadOf (s : String) : Option (List UInt8) :=
  if s.startsWith "z" then
    match (String.ofList (s.toList.drop 1)).splitOn "x" with
    | [n, hh] =>
      match n.toNat?, bytesOfHex hh with
      | some n, some [v] => if n ≤ 200000 then some (List.replicate n v) else none
      | _, _ => none
    | _ => none
  else bytesOfHex s

def renderNtp (l : NTP) : String :=
  s!"li={l.leapIndicator} vn={l.version} mode={l.mode} stratum={l.stratum} poll={l.poll} prec={l.precision} rdelay={l.rootDelay} rdisp={l.rootDispersion} refid={l.referenceID} refts={l.referenceTimestamp} orig={l.originTimestamp} recv={l.receiveTimestamp} xmit={l.transmitTimestamp} ext={hexOfBytes l.extensionBytes} contents={hexOfBytes l.contents} payload={hexOfBytes l.layerPayload} next={l.nextLayerType} app={hexOfBytes l.appPayload}"

def renderIps (ips : List Bytes) : String :=
  if ips.isEmpty then "none" else ",".intercalate (ips.map hexOfBytes)

def renderVrrp (l : VRRP) : String :=
  s!"ver={l.version} type={l.type} vrid={l.virtualRtrID} prio={l.priority} count={l.countIPAddr} auth={l.authType} adv={l.adverInt} cksum={l.checksum} ips={renderIps l.ipAddress} contents={hexOfBytes l.contents} payload={hexOfBytes l.layerPayload} next={l.nextLayerType} app={hexOfBytes l.appPayload}"

/-- reply of a decode op: on an error the receiver is rendered too (what the failed call left behind). -/
def showDec {L : Type} (render : L → String) (r : Res (DecOut L)) : String :=
  match r with
  | .ok o => if o.err then s!"err trunc={b01 o.trunc} | {render o.layer}" else s!"ok {render o.layer} trunc={b01 o.trunc}"
  | .err _ => "err"
  | .panic k => "panic " ++ k.toString

/-- the buffer histories of the `ser` op -/
def bufOf (h : String) : Option SBuf :=
  if h == "fresh" then some (new 0 0)
  else if h.startsWith "dirty" then
    match natBelow (String.ofList (h.toList.drop 5)) 256 with
    | some v =>
      let junk := List.replicate 64 (UInt8.ofNat v)
      some (clear (step (step (new 0 0) (.append junk)) (.prepend junk)))
    | none => none
  else if h.startsWith "sized" then
    match natBelow (String.ofList (h.toList.drop 5)) 100000 with
    | some n => some (new n n)
    | none => none
  else none

/-- the buffer SerializeLayers hands to the layer: cleared, payload serialized and pushed -/
def overPayload (p : List UInt8) : SBuf := pushLayer (serializePayload p (clear (new 0 0))) 2

def againStr {L : Type} (r : Res (SerOut L)) (bytes : List UInt8) : String :=
  match r with
  | .ok o2 => if o2.err then "err" else if contents o2.buf = bytes then "same" else "diff"
  | .err _ => "err"
  | .panic k => "panic-" ++ k.toString

def rtNtp (l : NTP) (p : List UInt8) : String :=
  match l.serializeTo (overPayload p) true true with
  | .panic k => "panic " ++ k.toString
  | .err _ => "ser-err"
  | .ok o =>
    if o.err then "ser-err" else
    let bytes := contents o.buf
    let d := NTP.fresh.decodeFromBytes { vis := bytes, tail := [] }
    let again :=
      match d with
      | .ok od => if od.err then "none" else againStr (od.layer.serializeTo (overPayload od.layer.layerPayload) true true) bytes
      | _ => "none"
    s!"ok bytes={hexOfBytes bytes} | {showDec renderNtp d} | again={again}"

def showAct : Act → String
  | .setTruncated => "trunc"
  | .addLayer t => s!"add:{t}"
  | .setApplicationLayer _ => "app"

def showTail : Tail → String
  | .done => "done"
  | .fail => "fail"
  | .nextLayerType t => s!"lt:{t}"

def showBeh (b : Beh) : String :=
  let acts := if b.acts.isEmpty then "-" else ",".intercalate (b.acts.map showAct)
  s!"acts={acts} tail={showTail b.tail}"

def showPb {L : Type} (render : L → String) (r : Res (Beh × Option L)) : String :=
  match r with
  | .ok (b, some l) => s!"{showBeh b} | {render l}"
  | .ok (b, none) => showBeh b
  | .err _ => "err"
  | .panic k => "panic " ++ k.toString

/-- NewPacket: the first layer when one was added, and the packet's truncation flag -/
def showPkt {L : Type} (render : L → String) (r : Res (Beh × Option L)) : String :=
  match r with
  | .ok (b, some l) => s!"ok {render l} trunc={b01 (b.acts.contains .setTruncated)}"
  | .ok (b, none) => s!"fail trunc={b01 (b.acts.contains .setTruncated)}"
  | .err _ => "err"
  | .panic k => "panic " ++ k.toString

def showDlp (r : Res (DlpState × Nat)) : String :=
  match r with
  | .panic k => "panic " ++ k.toString
  | .err _ => "err"
  | .ok (st, code) =>
    let dec := if st.decoded.isEmpty then "-" else ",".intercalate (st.decoded.map toString)
    s!"code={code} decoded={dec} trunc={b01 st.trunc} | {renderNtp st.ntp} | {renderVrrp st.vrrp}"

def firstOf (s : String) : Option Nat :=
  if s == "ntp" then some LayerTypeNTP
  else if s == "vrrp" then some LayerTypeVRRP
  else if s == "other" then some 17          -- LayerTypeEthernet: a type outside the parser's set
  else if s == "zero" then some LayerTypeZero
  else none

def keep {L : Type} (dflt : L) (r : Res (DecOut L)) : L :=
  match r with | .ok o => o.layer | _ => dflt

/-- the 14 numeric fields + extension bytes of an NTP layer -/
def ntpOf (f : List String) : Option NTP :=
  match f with
  | [li, vn, mode, stratum, poll, prec, rdelay, rdisp, refid, refts, orig, recv, xmit, ext] =>
    match natBelow li 256, natBelow vn 256, natBelow mode 256, natBelow stratum 256, int8Of poll, int8Of prec with
    | some li, some vn, some mode, some stratum, some poll, some prec =>
      match natBelow rdelay 4294967296, natBelow rdisp 4294967296, natBelow refid 4294967296 with
      | some rdelay, some rdisp, some refid =>
        match natBelow refts 18446744073709551616, natBelow orig 18446744073709551616,
              natBelow recv 18446744073709551616, natBelow xmit 18446744073709551616, bytesOfHex ext with
        | some refts, some orig, some recv, some xmit, some ext =>
          some { NTP.fresh with leapIndicator := li, version := vn, mode := mode, stratum := stratum, poll := poll,
                                precision := prec, rootDelay := rdelay, rootDispersion := rdisp, referenceID := refid,
                                referenceTimestamp := refts, originTimestamp := orig, receiveTimestamp := recv,
                                transmitTimestamp := xmit, extensionBytes := ext }
        | _, _, _, _, _ => none
      | _, _, _ => none
    | _, _, _, _, _, _ => none
  | _ => none

def strRows (f : Nat → Nat) : String :=
  let rows := (List.range 256).filterMap (fun v => if f v = 0 then none else some s!"{v}:{f v}")
  if rows.isEmpty then "-" else ",".intercalate rows

def stepLntp (st : St) (ws : List String) : St × String :=
  match ws with
  | ["reset"] => ({}, "ok")
  | ["lntp", "dec", kind, extra, fh, h] =>
    match extra.toNat?, bytesOfHex fh, bytesOfHex h with
    | some n, some foreign, some data =>
      if foreign.length ≠ n then (st, "bad-op") else
      let d : GSlice := { vis := data, tail := foreign }
      if kind == "ntp" then
        let r := NTP.fresh.decodeFromBytes d
        ({ st with ntp := keep NTP.fresh r }, showDec renderNtp r)
      else if kind == "vrrp" then
        let r := VRRP.fresh.decodeFromBytes d
        ({ st with vrrp := keep VRRP.fresh r }, showDec renderVrrp r)
      else (st, "bad-op")
    | _, _, _ => (st, "bad-op")
  | ["lntp", "redec", kind, h] =>
    match bytesOfHex h with
    | some data =>
      let d : GSlice := { vis := data, tail := [] }
      if kind == "ntp" then
        let r := st.ntp.decodeFromBytes d
        ({ st with ntp := keep st.ntp r }, showDec renderNtp r)
      else if kind == "vrrp" then
        let r := st.vrrp.decodeFromBytes d
        ({ st with vrrp := keep st.vrrp r }, showDec renderVrrp r)
      else (st, "bad-op")
    | none => (st, "bad-op")
  | "lntp" :: "ser" :: "ntp" :: fix :: csum :: hist :: rest =>
    if rest.length ≠ 15 then (st, "bad-op") else
    match boolOf fix, boolOf csum, bufOf hist, ntpOf (rest.take 14), payloadOf (rest.getD 14 "") with
    | some fix, some csum, some b, some l, some p =>
      match l.serializeTo (serializePayload p b) fix csum with
      | .ok o => if o.err then (st, "err") else (st, s!"ok bytes={hexOfBytes (contents o.buf)}")
      | .err _ => (st, "err")
      | .panic k => (st, "panic " ++ k.toString)
    | _, _, _, _, _ => (st, "bad-op")
  | "lntp" :: "rt" :: "ntp" :: rest =>
    if rest.length ≠ 15 then (st, "bad-op") else
    match ntpOf (rest.take 14), payloadOf (rest.getD 14 "") with
    | some l, some p => (st, rtNtp l p)
    | _, _ => (st, "bad-op")
  | ["lntp", "rtdec", kind, h] =>
    match bytesOfHex h with
    | some data =>
      let d : GSlice := { vis := data, tail := [] }
      if kind == "ntp" then
        match NTP.fresh.decodeFromBytes d with
        | .ok o => if o.err then (st, "dec-err") else (st, rtNtp o.layer o.layer.layerPayload)
        | .err _ => (st, "dec-err")
        | .panic k => (st, "panic " ++ k.toString)
      else (st, "bad-op")
    | none => (st, "bad-op")
  | ["lntp", "pb", kind, h] =>
    match bytesOfHex h with
    | some data =>
      let d : GSlice := { vis := data, tail := [] }
      if kind == "ntp" then (st, showPb renderNtp (decodeNTPFn d))
      else if kind == "vrrp" then (st, showPb renderVrrp (decodeVRRPFn d))
      else (st, "bad-op")
    | none => (st, "bad-op")
  | ["lntp", "pkt", kind, mode, extra, fh, h] =>
    match extra.toNat?, bytesOfHex fh, bytesOfHex h with
    | some n, some foreign, some data =>
      if foreign.length ≠ n ∨ ¬ (mode == "copy" ∨ mode == "nocopy" ∨ mode == "lazy") then (st, "bad-op") else
      if data.isEmpty then (st, "empty") else
      -- the copying paths give the decoder a buffer with cap = len
      let d : GSlice := { vis := data, tail := if mode == "nocopy" then foreign else [] }
      if kind == "ntp" then (st, showPkt renderNtp (decodeNTPFn d))
      else if kind == "vrrp" then (st, showPkt renderVrrp (decodeVRRPFn d))
      else (st, "bad-op")
    | _, _, _ => (st, "bad-op")
  | ["lntp", "dlp", first, h] =>
    match firstOf first, bytesOfHex h with
    | some first, some data =>
      let r := dlpDecodeLayers NTP.fresh VRRP.fresh first { vis := data, tail := [] }
      let st' := match r with
        | .ok (s, _) => { st with pNtp := s.ntp, pVrrp := s.vrrp }
        | _ => { st with pNtp := NTP.fresh, pVrrp := VRRP.fresh }
      (st', showDlp r)
    | _, _ => (st, "bad-op")
  | ["lntp", "redlp", first, h] =>
    match firstOf first, bytesOfHex h with
    | some first, some data =>
      let r := dlpDecodeLayers st.pNtp st.pVrrp first { vis := data, tail := [] }
      let st' := match r with
        | .ok (s, _) => { st with pNtp := s.ntp, pVrrp := s.vrrp }
        | _ => st
      (st', showDlp r)
    | _, _ => (st, "bad-op")
  | ["lntp", "strtab"] =>
    (st, s!"ok type={strRows vrrpTypeString} auth={strRows vrrpAuthTypeString}")
  | _ => (st, "bad-op")

def main : IO Unit := run ({} : St) stepLntp
