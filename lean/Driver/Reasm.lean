import Driver.Common
import Gp.Model.ReasmPool
/- Model driver for engine `reasm` (C09, reassembly half of C11). Core Lean only. -/
open Gp Gp.Reasm Driver

structure DSt where
  st   : St := {}
  dead : Bool := false

def parseKeep (s : String) : Option KeepRule :=
  if s == "n" then some .none
  else
    match s.toList with
    | c :: rest =>
      match (String.ofList rest).toNat? with
      | some n =>
        if n > 1048576 then none
        else if c == 'a' then some (.abs n)
        else if c == 'e' then some (.fromEnd n)
        else if c == 'm' then (if n == 0 then none else some (.modulo n))
        else none
      | none => none
    | [] => none

def parseCmpl (s : String) : Option CmplRule :=
  if s == "0" then some .no else if s == "1" then some .yes else if s == "p" then some .parity else none

def parseFlags (s : String) : Option (Bool × Bool × Bool) :=
  if s.toList.all (fun c => c == 'S' || c == 'F' || c == 'R' || c == 'A' || c == '-') then
    some (s.toList.contains 'S', s.toList.contains 'F', s.toList.contains 'R')
  else none

def b01 (b : Bool) : String := if b then "1" else "0"

def showEv : Ev → String
  | .created c s => s!"new {c} {s}"
  | .sg c s d g => s!"sg {c} {s} {b01 d} {g.skip} {b01 g.start} {b01 g.fin} {hexOfBytes g.saved} {hexOfBytes g.new}"
  | .done c s a => s!"done {c} {s} {b01 a}"

def showEvs (evs : List Ev) : String := String.join (evs.map (fun e => " ; " ++ showEv e))

def status (st : St) : String :=
  s!"u={st.used} n={st.conns.length} q={queuedPages st} s={savedPages st}"

def reply (d : DSt) (r : Res Reply) (pre : Reply → String) : DSt × String :=
  match r with
  | .ok rp => ({ d with st := rp.st }, "ok " ++ pre rp ++ status rp.st ++ showEvs rp.evs)
  | .err _ => ({ d with dead := true }, "err")
  | .panic k => ({ d with dead := true }, "panic " ++ k.toString)

def u32 (n : Nat) : Bool := n ≤ 4294967295

def stepReasm (d : DSt) (ws : List String) : DSt × String :=
  match ws with
  | ["reset"] => ({}, "ok")
  | ["reasm", "seqdiff", s, t] =>
    match s.toNat?, t.toNat? with
    | some s, some t =>
      if u32 s ∧ u32 t then (d, s!"ok {Arith.real.diff s t}") else (d, "bad-op")
    | _, _ => (d, "bad-op")
  | ["reasm", "seqadd", s, t] =>
    match s.toNat?, t.toInt? with
    | some s, some t =>
      if u32 s ∧ -1099511627776 ≤ t ∧ t ≤ 1099511627776 then (d, s!"ok {Arith.real.add s t}") else (d, "bad-op")
    | _, _ => (d, "bad-op")
  | ["reasm"] => (d, "bad-op")
  | "reasm" :: rest =>
    if d.dead then
      -- malformed lines are still `bad-op`; this mirrors the adapter (it validates after the dead check
      -- only for well-formed ops), so keep it simple: any reasm op on a dead case answers `dead`
      (d, "dead")
    else
    match rest with
    | ["opts", p, t] =>
      match p.toNat?, t.toNat? with
      | some p, some t =>
        match step Arith.real d.st (.opts p t) with
        | .ok rp => ({ d with st := rp.st }, "ok")
        | _ => (d, "bad-op")
      | _, _ => (d, "bad-op")
    | ["stream", c, dir, isn, hex] =>
      match c.toNat?, dir.toNat?, isn.toNat?, bytesOfHex hex with
      | some c, some dir, some isn, some _ =>
        if c ≤ 1000 ∧ dir ≤ 1 ∧ u32 isn then (d, "ok") else (d, "bad-op")
      | _, _, _, _ => (d, "bad-op")
    | ["seg", c, dir, seq, flags, ts, acc, keep, cmpl, hex] =>
      match c.toNat?, dir.toNat?, seq.toNat?, parseFlags flags, ts.toNat?, acc.toNat?, parseKeep keep, parseCmpl cmpl,
            bytesOfHex hex with
      | some c, some dir, some seq, some (syn, fin, rst), some ts, some acc, some keep, some cmpl, some bytes =>
        if c ≤ 1000 ∧ dir ≤ 1 ∧ u32 seq ∧ ts ≤ 1073741824 ∧ acc ≤ 2 ∧ bytes.length ≤ 65536 then
          let p : Seg := { seq := seq, syn := syn, fin := fin, rst := rst, bytes := bytes, ts := ts }
          reply d (step Arith.real d.st (.seg c (dir == 1) p acc keep cmpl)) (fun _ => "")
        else (d, "bad-op")
      | _, _, _, _, _, _, _, _, _ => (d, "bad-op")
    | ["flush", t, tc, keep, cmpl] =>
      match t.toNat?, tc.toNat?, parseKeep keep, parseCmpl cmpl with
      | some t, some tc, some keep, some cmpl =>
        if t ≤ 1073741824 ∧ tc ≤ 1073741824 then
          reply d (step Arith.real d.st (.flush t tc keep cmpl)) (fun rp => s!"f={rp.flushed} c={rp.closed} ")
        else (d, "bad-op")
      | _, _, _, _ => (d, "bad-op")
    | ["flushall", keep, cmpl] =>
      match parseKeep keep, parseCmpl cmpl with
      | some keep, some cmpl =>
        reply d (step Arith.real d.st (.flushAll keep cmpl)) (fun rp => s!"c={rp.closed} ")
      | _, _ => (d, "bad-op")
    | _ => (d, "bad-op")
  | _ => (d, "bad-op")

def main : IO Unit := run ({} : DSt) stepReasm
