import Driver.Common
import Gp.Model.PcapNgWrite
/-
  Model driver for engine `pcapng` (C14, C15).  Ops (see harness/cmd/gp-pcapng/main.go):

    pcapng write S app comment hw os I <iface> {item}     build a file with the writer model → "ok <nerr> <hex>"
    pcapng read <zero|copy> <cfg> <cut|all>               read the current file cut at `cut` with the reader model
    pcapng readhex <zero|copy> <cfg> <hex>                read arbitrary bytes   (readhexbig: same)
-/
open Gp Gp.PcapNg Driver

structure DSt where
  file : Bytes := []

def hx (b : Bytes) : String := hexOfBytes b

def nat? (s : String) : Option Nat := s.toNat?

/-- parse `n` (count) followed by n groups parsed by `p` -/
partial def parseMany {α} (p : List String → Option (α × List String)) : Nat → List String → Option (List α × List String)
  | 0, ts => some ([], ts)
  | n + 1, ts => do
    let (a, ts) ← p ts
    let (as, ts) ← parseMany p n ts
    pure (a :: as, ts)

def parseHex1 : List String → Option (Bytes × List String)
  | t :: ts => do let b ← bytesOfHex t; pure (b, ts)
  | [] => none

def parseTagged : List String → Option ((Nat × Bytes) × List String)
  | a :: h :: ts => do let n ← nat? a; let b ← bytesOfHex h; pure ((n, b), ts)
  | _ => none

def parseOptNat : List String → Option (Option Nat × List String)
  | "x" :: ts => some (none, ts)
  | t :: ts => do let n ← nat? t; pure (some n, ts)
  | [] => none

def parseOptTime : String → Option (Option Int)
  | "z" => some none
  | t => do let n ← t.toInt?; pure (some n)

def parseIface : List String → Option (IfaceSpec × List String)
  | n :: c :: d :: f :: o :: lt :: off :: sn :: ts => do
    let n ← bytesOfHex n; let c ← bytesOfHex c; let d ← bytesOfHex d; let f ← bytesOfHex f; let o ← bytesOfHex o
    let lt ← nat? lt; let off ← nat? off; let sn ← nat? sn
    pure ({ name := n, comment := c, descr := d, filter := f, os := o, linkType := lt, tsoff := off, snaplen := sn }, ts)
  | _ => none

def parsePktOpts (ts : List String) : Option (PktOpts × List String) := do
  let ts ← match ts with | "C" :: ts => some ts | _ => none
  let (nc, ts) ← match ts with | n :: ts => (nat? n).map (·, ts) | [] => none
  let (comments, ts) ← parseMany parseHex1 nc ts
  let ts ← match ts with | "F" :: ts => some ts | _ => none
  let (flags, ts) ← match ts with
    | "x" :: ts => some (none, ts)
    | a :: b :: c :: d :: ts => do
      let a ← nat? a; let b ← nat? b; let c ← nat? c; let d ← nat? d
      pure (some ({ dir := a, rcv := b, fcs := c, lle := d } : Flags), ts)
    | _ => none
  let ts ← match ts with | "H" :: ts => some ts | _ => none
  let (nh, ts) ← match ts with | n :: ts => (nat? n).map (·, ts) | [] => none
  let (hashes, ts) ← parseMany parseTagged nh ts
  let ts ← match ts with | "D" :: ts => some ts | _ => none
  let (dc, ts) ← parseOptNat ts
  let ts ← match ts with | "J" :: ts => some ts | _ => none
  let (pid, ts) ← parseOptNat ts
  let ts ← match ts with | "Q" :: ts => some ts | _ => none
  let (q, ts) ← parseOptNat ts
  let ts ← match ts with | "V" :: ts => some ts | _ => none
  let (nv, ts) ← match ts with | n :: ts => (nat? n).map (·, ts) | [] => none
  let (verdicts, ts) ← parseMany parseTagged nv ts
  pure ({ comments := comments, flags := flags, hashes := hashes, dropCount := dc, packetId := pid, queue := q, verdicts := verdicts }, ts)

partial def parseItems : List String → Option (List Item)
  | [] => some []
  | "I" :: ts => do
    let (i, ts) ← parseIface ts
    let rest ← parseItems ts
    pure (.iface i :: rest)
  | "P" :: ifc :: t :: l :: d :: ts => do
    let ifc ← nat? ifc; let t ← t.toInt?; let l ← nat? l; let d ← bytesOfHex d
    let (o, ts) ← parsePktOpts ts
    let rest ← parseItems ts
    pure (.pkt ifc t l d o :: rest)
  | "T" :: id :: lu :: st :: et :: dr :: rc :: ts => do
    let id ← nat? id; let lu ← parseOptTime lu; let st ← parseOptTime st; let et ← parseOptTime et
    let dr ← nat? dr; let rc ← nat? rc
    let rest ← parseItems ts
    pure (.stats id { lastUpdate := lu, startTime := st, endTime := et, dropped := dr, received := rc } :: rest)
  | "K" :: ty :: p :: ts => do
    let ty ← nat? ty; let p ← bytesOfHex p
    let rest ← parseItems ts
    pure (.dsb ty p :: rest)
  | _ => none

def parseSpec : List String → Option FileSpec
  | "S" :: a :: c :: h :: o :: "I" :: ts => do
    let a ← bytesOfHex a; let c ← bytesOfHex c; let h ← bytesOfHex h; let o ← bytesOfHex o
    let (i0, ts) ← parseIface ts
    let items ← parseItems ts
    pure { sect := { app := a, comment := c, hardware := h, os := o }, if0 := i0, items := items }
  | _ => none

def parseCfg (s : String) : Option Cfg :=
  match s.toList with
  | [a, b, c] =>
    if (a = '0' ∨ a = '1') ∧ (b = '0' ∨ b = '1') ∧ (c = '0' ∨ c = '1') then
      some { mixed := a = '1', errMismatch := b = '1', skipUnknown := c = '1' }
    else none
  | _ => none

def errStr : Err → String
  | .eof => "eof" | .ueof => "ueof" | .err => "err" | .werr => "err" | .gzip => "gzip" | .hang => "hang"
  | .panic k => "panic:" ++ k.toString

def showOptNat : Option Nat → String
  | none => "x"
  | some n => toString n

def showTagged (l : List (Nat × Bytes)) : String :=
  ",".intercalate (l.map fun (a, b) => toString a ++ "." ++ hx b)

def showOpts (o : PktOpts) : String :=
  "c=" ++ ",".intercalate (o.comments.map hx)
  ++ ";f=" ++ (match o.flags with
               | none => "x"
               | some f => toString f.dir ++ "." ++ toString f.rcv ++ "." ++ toString f.fcs ++ "." ++ toString f.lle)
  ++ ";h=" ++ showTagged o.hashes
  ++ ";d=" ++ showOptNat o.dropCount ++ ";i=" ++ showOptNat o.packetId ++ ";q=" ++ showOptNat o.queue
  ++ ";v=" ++ showTagged o.verdicts

def showTime (t : Time) : String := toString t.sec ++ ":" ++ toString t.nsec

def showPkt (p : Pkt) : String :=
  "P:" ++ toString p.ci.iface ++ ":" ++ showTime p.ci.ts ++ ":" ++ toString p.ci.caplen ++ ":" ++ toString p.ci.len
  ++ ":" ++ hx p.data ++ ":" ++ (match p.ancil with | none => "x" | some l => toString l) ++ ":" ++ showOpts p.opts

def showIface (i : Iface) : String :=
  "i:" ++ hx i.name ++ ":" ++ hx i.comment ++ ":" ++ hx i.descr ++ ":" ++ hx i.filter ++ ":" ++ hx i.os
  ++ ":" ++ toString i.linkType ++ ":" ++ toString i.tsres ++ ":" ++ toString i.tsoff ++ ":" ++ toString i.snaplen
  ++ ":" ++ showTime i.stats.lastUpdate ++ ":" ++ showTime i.stats.startTime ++ ":" ++ showTime i.stats.endTime
  ++ ":" ++ hx i.stats.comment ++ ":" ++ toString i.stats.received ++ ":" ++ toString i.stats.dropped

def showState (s : S) : List String :=
  ["L" ++ toString s.linkType, "I" ++ toString s.ifaces.length] ++ s.ifaces.map showIface
  ++ ["S:" ++ hx s.sect.hardware ++ ":" ++ hx s.sect.os ++ ":" ++ hx s.sect.app ++ ":" ++ hx s.sect.comment,
      "N" ++ toString s.names.length]
  ++ s.names.map (fun n => "n:" ++ toString n.addrLen ++ ":" ++ ",".intercalate (n.names.map hx))

def maxErrs : Nat := 6
def maxPkts : Nat := 100000

/-- the calls of one `read` op: keep calling after plain errors (at most `maxErrs` of them) -/
partial def readLoop (r : Rd) (errs pkts : Nat) (acc : Array String) : Array String × Rd × Bool :=
  if pkts ≥ maxPkts then (acc.push "E:limit", r, true) else
  match readPacket r with
  | .ok p s w => readLoop ⟨s, w⟩ errs (pkts + 1) (acc.push (showPkt p))
  | .fail e s w =>
    let acc := acc.push ("E:" ++ errStr e)
    match e with
    | .err | .werr => if errs + 1 ≥ maxErrs then (acc, ⟨s, w⟩, true) else readLoop ⟨s, w⟩ (errs + 1) pkts acc
    | .panic _ | .hang => (acc, ⟨s, w⟩, false)
    | _ => (acc, ⟨s, w⟩, true)

def doRead (cfg : Cfg) (inp : Bytes) : String :=
  match openReader cfg inp with
  | .fail e _ _ => "new=" ++ errStr e
  | .ok _ s w =>
    let (acc, rf, dump) := readLoop ⟨s, w⟩ 0 0 #[]
    joinSp (["new=ok"] ++ acc.toList ++ (if dump then showState rf.s else []))

def stepNg (st : DSt) (ws : List String) : DSt × String :=
  match ws with
  | ["reset"] => ({}, "ok")
  | ["pcapng", "probe"] => (st, "ok")
  | "pcapng" :: "write" :: spec =>
    match parseSpec spec with
    | some f => let (b, errs) := writeFile f; ({ file := b }, "ok " ++ toString errs ++ " " ++ hx b)
    | none => (st, "bad-op")
  | ["pcapng", "read", mode, cfg, cut] =>
    if mode ≠ "zero" ∧ mode ≠ "copy" then (st, "bad-op") else
    match parseCfg cfg, (if cut = "all" then some st.file.length else cut.toNat?) with
    | some cfg, some k => if k > st.file.length then (st, "bad-op") else (st, doRead cfg (st.file.take k))
    | _, _ => (st, "bad-op")
  | ["pcapng", op, mode, cfg, h] =>
    if (op ≠ "readhex" ∧ op ≠ "readhexbig") ∨ (mode ≠ "zero" ∧ mode ≠ "copy") then (st, "bad-op") else
    match parseCfg cfg, bytesOfHex h with
    | some cfg, some b => (st, doRead cfg b)
    | _, _ => (st, "bad-op")
  | _ => (st, "bad-op")

def main : IO Unit := run ({} : DSt) stepNg
