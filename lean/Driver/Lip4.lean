import Driver.Common
import Gp.Model.Layers.Ip4
/-
  Model driver for engine `lip4` (layers/ip4.go; properties C19, C05, C06, C07, C17).
  Ops (one per line, see harness/cmd/gp-lip4/main.go for the implementation side):
    lip4 dec   <extra> <foreignhex> <hex>      DecodeFromBytes into a FRESH layer
    lip4 redec <extra> <foreignhex> <hex>      … into the layer of the previous dec/redec
    lip4 dlp   <hex>                           DecodingLayerParser over one reused IPv4
    lip4 np    <nocopy> <extra> <foreignhex> <hex>   NewPacket(Lazy, SkipDecodeRecovery), first layer
    lip4 next  <hex>                           NextLayerType of the decoded layer
    lip4 flow  <hex>                           NetworkFlow of the decoded layer
    lip4 vc    <hex>                           VerifyChecksum of the decoded layer
    lip4 ser   <fix> <csum> <bufhist> <14 fields> <payloadhex>   SerializeTo
-/
open Gp Gp.Ip4 Driver

structure St where
  cur : Layer := fresh      -- object used by dec/redec
  dlp : Layer := fresh      -- object owned by the DecodingLayerParser

def optStr (o : Opt) : String := s!"{o.typ}:{o.len}:{hexOfBytes o.data}"

def optsStr (os : List Opt) : String :=
  if os.isEmpty then "-" else ",".intercalate (os.map optStr)

def renderHdr (l : Layer) : String :=
  s!"ver={l.version} ihl={l.ihl} tos={l.tos} len={l.length} id={l.id} flags={l.flags} frag={l.fragOffset} ttl={l.ttl} proto={l.protocol} csum={l.checksum} src={hexOfBytes l.srcIP} dst={hexOfBytes l.dstIP} opts={optsStr l.options} pad={hexOfBytes l.padding}"

def render (l : Layer) : String :=
  renderHdr l ++ s!" contents={hexOfBytes l.contents} payload={hexOfBytes l.payload}"

def b01 (b : Bool) : String := if b then "1" else "0"

def renderOut (o : DecOut) : String := s!"trunc={b01 o.trunc} err={b01 o.err} " ++ render o.layer

def parseOpt (s : String) : Option Opt :=
  match s.splitOn ":" with
  | [t, l, d] => do
    let t ← t.toNat?
    let l ← l.toNat?
    let d ← bytesOfHex d
    if t < 256 ∧ l < 256 then some ⟨t, l, d⟩ else none
  | _ => none

def parseOpts (s : String) : Option (List Opt) :=
  if s == "-" then some [] else (s.splitOn ",").mapM parseOpt

def parseLayer : List String → Option Layer
  | [ver, ihl, tos, len, id, flags, frag, ttl, proto, csum, src, dst, opts, pad] => do
    let ver ← ver.toNat?
    let ihl ← ihl.toNat?
    let tos ← tos.toNat?
    let len ← len.toNat?
    let id ← id.toNat?
    let flags ← flags.toNat?
    let frag ← frag.toNat?
    let ttl ← ttl.toNat?
    let proto ← proto.toNat?
    let csum ← csum.toNat?
    let src ← bytesOfHex src
    let dst ← bytesOfHex dst
    let opts ← parseOpts opts
    let pad ← bytesOfHex pad
    if ver < 256 ∧ ihl < 256 ∧ tos < 256 ∧ len < 65536 ∧ id < 65536 ∧ flags < 256 ∧ frag < 65536 ∧
       ttl < 256 ∧ proto < 256 ∧ csum < 65536 then
      some { version := ver, ihl := ihl, tos := tos, length := len, id := id, flags := flags,
             fragOffset := frag, ttl := ttl, protocol := proto, checksum := csum,
             srcIP := src, dstIP := dst, options := opts, padding := pad }
    else none
  | _ => none

def parseBool (s : String) : Option Bool :=
  if s == "1" then some true else if s == "0" then some false else none

/-- Buffer histories: fresh | dirty<hexbyte> | sized<n>. -/
def parseBuf (s : String) : Option SBuf.SBuf :=
  if s == "fresh" then some (SBuf.new 0 0)
  else if s.startsWith "dirty" then
    match bytesOfHex (s.drop 5).toString with
    | some [v] =>
      let b := SBuf.new 0 0
      let b := SBuf.step b (.prepend (List.replicate 48 v))
      let b := SBuf.step b (.append (List.replicate 8 v))
      some (SBuf.clear b)
    | _ => none
  else if s.startsWith "sized" then
    match (s.drop 5).toString.toNat? with
    | some n => if n ≤ 100000 then some (SBuf.new n n) else none
    | none => none
  else none

def decArgs (extra foreign hex : String) : Option (Bytes × Bytes) := do
  let n ← extra.toNat?
  let f ← bytesOfHex foreign
  let d ← bytesOfHex hex
  if f.length = n then some (d, f) else none

def showRes (r : Res DecOut) : String :=
  match r with
  | .ok o => renderOut o
  | .err e => "model-error " ++ e
  | .panic k => "panic " ++ k.toString

def stepLip4 (st : St) (ws : List String) : St × String :=
  match ws with
  | ["reset"] => ({}, "ok")
  | ["lip4", "dec", extra, foreign, hex] =>
    match decArgs extra foreign hex with
    | some (d, f) =>
      let r := decodeIp4 fresh d f
      match r with
      | .ok o => ({ st with cur := o.layer }, showRes r)
      | _ => ({ st with cur := fresh }, showRes r)
    | none => (st, "bad-op")
  | ["lip4", "redec", extra, foreign, hex] =>
    match decArgs extra foreign hex with
    | some (d, f) =>
      let r := decodeIp4 st.cur d f
      match r with
      | .ok o => ({ st with cur := o.layer }, showRes r)
      | _ => (st, showRes r)
    | none => (st, "bad-op")
  | ["lip4", "dlp", hex] =>
    match bytesOfHex hex with
    | some d =>
      match decodeIp4 st.dlp d [] with
      | .ok o => ({ st with dlp := o.layer }, s!"n={if o.err then 0 else 1} trunc={b01 o.trunc} " ++ render o.layer)
      | .err e => (st, "model-error " ++ e)
      | .panic k => (st, "panic " ++ k.toString)
    | none => (st, "bad-op")
  | ["lip4", "np", nocopy, extra, foreign, hex] =>
    match parseBool nocopy, decArgs extra foreign hex with
    | some nc, some (d, f) =>
      -- packet.go lazyPacket.decodeNextLayer: no decoder is run on empty data
      if d.isEmpty then (st, "nolayer") else
      match decodeIPv4Pkt d (if nc then f else []) with
      | .ok p => (st, s!"net={b01 p.setNetwork} trunc={b01 p.trunc} " ++ render p.added)
      | .err e => (st, "model-error " ++ e)
      | .panic k => (st, "panic " ++ k.toString)
    | _, _ => (st, "bad-op")
  | ["lip4", "next", hex] =>
    match bytesOfHex hex with
    | some d =>
      match decodeIp4 fresh d [] with
      | .ok o =>
        if o.err then (st, "err") else
        match nextLayerType o.layer with
        | .fragment => (st, "next=frag")
        | .proto p => (st, s!"next=proto:{p}")
      | .err e => (st, "model-error " ++ e)
      | .panic k => (st, "panic " ++ k.toString)
    | none => (st, "bad-op")
  | ["lip4", "flow", hex] =>
    match bytesOfHex hex with
    | some d =>
      match decodeIp4 fresh d [] with
      | .ok o =>
        if o.err then (st, "err") else
        match networkFlow o.layer with
        | .ok f => (st, s!"flow typ={f.typ} src={hexOfBytes f.srcBytes} dst={hexOfBytes f.dstBytes}")
        | .err _ => (st, "err")
        | .panic k => (st, "panic " ++ k.toString)
      | .err e => (st, "model-error " ++ e)
      | .panic k => (st, "panic " ++ k.toString)
    | none => (st, "bad-op")
  | ["lip4", "vc", hex] =>
    match bytesOfHex hex with
    | some d =>
      match decodeIp4 fresh d [] with
      | .ok o =>
        if o.err then (st, "err") else
        let (v, c, a) := verifyChecksum o.layer
        (st, s!"vc valid={b01 v} correct={c} actual={a}")
      | .err e => (st, "model-error " ++ e)
      | .panic k => (st, "panic " ++ k.toString)
    | none => (st, "bad-op")
  | ["lip4", "rtd", hex] =>
    match bytesOfHex hex with
    | some d =>
      match decodeIp4 fresh d [] with
      | .ok o =>
        if o.err then (st, "err") else
        let b := SBuf.step (SBuf.new 0 0) (.prepend o.layer.payload)
        match serializeIp4 { o.layer with contents := [], payload := [] } b true true with
        | .ok (b', _) => (st, "rtd " ++ showRes (decodeIp4 fresh (SBuf.contents b') []))
        | .err _ => (st, "sererr")
        | .panic k => (st, "panic " ++ k.toString)
      | .err e => (st, "model-error " ++ e)
      | .panic k => (st, "panic " ++ k.toString)
    | none => (st, "bad-op")
  | "lip4" :: "ser" :: fix :: csum :: bufh :: rest =>
    if rest.length = 15 then
      match parseBool fix, parseBool csum, parseBuf bufh, parseLayer (rest.take 14), bytesOfHex (rest.getD 14 "") with
      | some fix, some csum, some b, some l, some payload =>
        let b := SBuf.step b (.prepend payload)
        match serializeIp4 l b fix csum with
        | .ok (b', l') => (st, s!"ok out={hexOfBytes (SBuf.contents b')} " ++ renderHdr l')
        | .err _ => (st, "err")
        | .panic k => (st, "panic " ++ k.toString)
      | _, _, _, _, _ => (st, "bad-op")
    else (st, "bad-op")
  | _ => (st, "bad-op")

def main : IO Unit := run ({} : St) stepLip4
