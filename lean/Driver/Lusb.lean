import Driver.Common
import Gp.Model.Layers.Usb
/- Model driver for engine `lusb` (USB usbmon header, USBRequestBlockSetup, USBControl / USBInterrupt /
   USBBulk decoders, registered decoder functions, parser loop; C19, C05). -/
open Gp Gp.Usb Driver

structure St where
  usb   : USB := USB.fresh          -- the objects re-used by `redec`
  setup : Setup := Setup.fresh
  ctl   : Raw := Raw.fresh
  intr  : Raw := Raw.fresh
  bulk  : Raw := Raw.fresh

def b01 (b : Bool) : String := if b then "1" else "0"

def renderUsb (l : USB) : String :=
  s!"id={l.id} ev={l.eventType} tt={l.transferType} dir={l.direction} ep={l.endpointNumber} dev={l.deviceAddress} bus={l.busID} sec={l.timestampSec} usec={l.timestampUsec} setup={b01 l.setup} data={b01 l.data} status={l.status} urblen={l.urbLength} urbdlen={l.urbDataLength} ival={l.urbInterval} sframe={l.urbStartFrame} tflags={l.urbCopyOfTransferFlags} isond={l.isoNumDesc} contents={hexOfBytes l.contents} payload={hexOfBytes l.payload} next={l.nextLayerType}"

def renderSetup (l : Setup) : String :=
  s!"rt={l.requestType} req={l.request} val={l.value} idx={l.index} len={l.length} contents={hexOfBytes l.contents} payload={hexOfBytes l.payload} next={l.nextLayerType}"

def renderRaw (l : Raw) : String :=
  s!"contents={hexOfBytes l.contents} payload={hexOfBytes l.payload} next={l.nextLayerType}"

/-- reply of a DecodeFromBytes op: on an error the receiver is rendered too (what the failed call left behind). -/
def showDec {L : Type} (render : L → String) (r : Res (DecOut L)) : String :=
  match r with
  | .ok o => if o.err then s!"err trunc={b01 o.trunc} | {render o.layer}" else s!"ok {render o.layer} trunc={b01 o.trunc}"
  | .err _ => "err"
  | .panic k => "panic " ++ k.toString

def showAct : Act → String
  | .setTruncated => "trunc"
  | .addLayer t => s!"add:{t}"

def showTail : Tail → String
  | .done => "done"
  | .fail => "fail"
  | .nextLayerType t => s!"lt:{t}"

def showBeh (b : Beh) : String :=
  let acts := if b.acts.isEmpty then "-" else ",".intercalate (b.acts.map showAct)
  s!"acts={acts} tail={showTail b.tail}"

def showFn {L : Type} (render : L → String) (r : Res (Beh × Option L)) : String :=
  match r with
  | .ok (b, some l) => s!"{showBeh b} | {render l}"
  | .ok (b, none) => showBeh b
  | .err _ => "err"
  | .panic k => "panic " ++ k.toString

def showPkt {L : Type} (render : L → String) (r : Res (Beh × Option L)) : String :=
  match r with
  | .ok (_, some l) => s!"ok {render l}"
  | .ok (b, none) => s!"fail trunc={b01 (b.acts.contains .setTruncated)}"
  | .err _ => "err"
  | .panic k => "panic " ++ k.toString

def showPLayer : PLayer → String
  | .usb l => "usb " ++ renderUsb l
  | .setup l => "setup " ++ renderSetup l
  | .raw t l => s!"raw{t} " ++ renderRaw l
  | .payload b => "payload " ++ hexOfBytes b
  | .failure b => "failure " ++ hexOfBytes b

def showChain (r : Res Pkt) : String :=
  match r with
  | .ok p => s!"layers={p.layers.length} trunc={b01 p.trunc} failed={b01 p.failed}" ++
      String.join (p.layers.map (fun l => " | " ++ showPLayer l))
  | .err _ => "err"
  | .panic k => "panic " ++ k.toString

def chainOf (kind : String) (d : GSlice) : Option (Res Pkt) :=
  if kind == "usb" then some (packetUSB d)
  else if kind == "setup" then some (packetSetup d)
  else if kind == "control" then some (packetRaw LayerTypeUSBControl d)
  else if kind == "interrupt" then some (packetRaw LayerTypeUSBInterrupt d)
  else if kind == "bulk" then some (packetRaw LayerTypeUSBBulk d)
  else none

def typeOf (s : String) : Option Nat :=
  if s == "usb" then some LayerTypeUSB
  else if s == "setup" then some LayerTypeUSBRequestBlockSetup
  else if s == "control" then some LayerTypeUSBControl
  else if s == "interrupt" then some LayerTypeUSBInterrupt
  else if s == "bulk" then some LayerTypeUSBBulk
  else none

def keep {L : Type} (dflt : L) (r : Res (DecOut L)) : L :=
  match r with | .ok o => o.layer | _ => dflt

/-- the registered decoder function of a kind, rendered by `f` -/
def fnOf (kind : String) (d : GSlice)
    (f : {L : Type} → (L → String) → Res (Beh × Option L) → String) : Option String :=
  if kind == "usb" then some (f renderUsb (decodeUSBFn d))
  else if kind == "setup" then some (f renderSetup (decodeSetupFn d))
  else if kind == "control" then some (f renderRaw (decodeRawFn LayerTypeUSBControl d))
  else if kind == "interrupt" then some (f renderRaw (decodeRawFn LayerTypeUSBInterrupt d))
  else if kind == "bulk" then some (f renderRaw (decodeRawFn LayerTypeUSBBulk d))
  else none

def stepLusb (st : St) (ws : List String) : St × String :=
  match ws with
  | ["reset"] => ({}, "ok")
  | ["lusb", "dec", kind, extra, fh, h] =>
    match extra.toNat?, bytesOfHex fh, bytesOfHex h with
    | some n, some foreign, some data =>
      if foreign.length ≠ n then (st, "bad-op") else
      let d : GSlice := { vis := data, tail := foreign }
      if kind == "usb" then
        let r := USB.fresh.decodeFromBytes d
        ({ st with usb := keep USB.fresh r }, showDec renderUsb r)
      else if kind == "setup" then
        let r := Setup.fresh.decodeFromBytes d
        ({ st with setup := keep Setup.fresh r }, showDec renderSetup r)
      else if kind == "control" then
        let r := Raw.fresh.decodeFromBytes d
        ({ st with ctl := keep Raw.fresh r }, showDec renderRaw r)
      else if kind == "interrupt" then
        let r := Raw.fresh.decodeFromBytes d
        ({ st with intr := keep Raw.fresh r }, showDec renderRaw r)
      else if kind == "bulk" then
        let r := Raw.fresh.decodeFromBytes d
        ({ st with bulk := keep Raw.fresh r }, showDec renderRaw r)
      else (st, "bad-op")
    | _, _, _ => (st, "bad-op")
  | ["lusb", "redec", kind, h] =>
    match bytesOfHex h with
    | some data =>
      let d : GSlice := { vis := data, tail := [] }
      if kind == "usb" then
        let r := st.usb.decodeFromBytes d
        ({ st with usb := keep st.usb r }, showDec renderUsb r)
      else if kind == "setup" then
        let r := st.setup.decodeFromBytes d
        ({ st with setup := keep st.setup r }, showDec renderSetup r)
      else if kind == "control" then
        let r := st.ctl.decodeFromBytes d
        ({ st with ctl := keep st.ctl r }, showDec renderRaw r)
      else if kind == "interrupt" then
        let r := st.intr.decodeFromBytes d
        ({ st with intr := keep st.intr r }, showDec renderRaw r)
      else if kind == "bulk" then
        let r := st.bulk.decodeFromBytes d
        ({ st with bulk := keep st.bulk r }, showDec renderRaw r)
      else (st, "bad-op")
    | none => (st, "bad-op")
  | ["lusb", "fn", kind, extra, fh, h] =>
    match extra.toNat?, bytesOfHex fh, bytesOfHex h with
    | some n, some foreign, some data =>
      if foreign.length ≠ n then (st, "bad-op") else
      match fnOf kind { vis := data, tail := foreign } showFn with
      | some s => (st, s)
      | none => (st, "bad-op")
    | _, _, _ => (st, "bad-op")
  | ["lusb", "pkt", kind, mode, extra, fh, h] =>
    match extra.toNat?, bytesOfHex fh, bytesOfHex h with
    | some n, some foreign, some data =>
      if foreign.length ≠ n ∨ ¬ (mode == "copy" ∨ mode == "nocopy" ∨ mode == "lazy" ∨ mode == "pool") then (st, "bad-op") else
      if (fnOf kind { vis := [], tail := [] } showPkt).isNone then (st, "bad-op") else
      if data.isEmpty then (st, "empty") else
      -- the copying paths give the decoder a buffer with cap = len
      let d : GSlice := { vis := data, tail := if mode == "nocopy" then foreign else [] }
      match fnOf kind d showPkt with
      | some s => (st, s)
      | none => (st, "bad-op")
    | _, _, _ => (st, "bad-op")
  | ["lusb", "chain", kind, mode, extra, fh, h] =>
    match extra.toNat?, bytesOfHex fh, bytesOfHex h with
    | some n, some foreign, some data =>
      if foreign.length ≠ n ∨ ¬ (mode == "copy" ∨ mode == "nocopy" ∨ mode == "lazy" ∨ mode == "pool") then (st, "bad-op") else
      if (chainOf kind { vis := [], tail := [] }).isNone then (st, "bad-op") else
      if data.isEmpty then (st, "empty") else
      let d : GSlice := { vis := data, tail := if mode == "nocopy" then foreign else [] }
      match chainOf kind d with
      | some r => (st, showChain r)
      | none => (st, "bad-op")
    | _, _, _ => (st, "bad-op")
  | ["lusb", "nlttab"] =>
    let rows := (List.range 256).filterMap (fun t =>
      if transportLayerType t ≠ 0 then some s!"{t}:{transportLayerType t}" else none)
    (st, "ok " ++ ",".intercalate rows ++
      s!" lt={LayerTypeUSB},{LayerTypeUSBRequestBlockSetup},{LayerTypeUSBControl},{LayerTypeUSBInterrupt},{LayerTypeUSBBulk},{LayerTypePayload}" ++
      s!" dir={Gp.Gen.Usb.usbDirectionTypeUnknown},{Gp.Gen.Usb.usbDirectionTypeIn},{Gp.Gen.Usb.usbDirectionTypeOut}")
  | _ => (st, "bad-op")

def main : IO Unit := run ({} : St) stepLusb
