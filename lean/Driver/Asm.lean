import Driver.Common
import Gp.Model.Asm
/- Model driver for engine `asm` (C10, C11): the classic assembler tcpassembly/assembly.go.

   asm opt <perconn> <total>
   asm seg <conn> <dir> <seq> <flags> <ts> <hex>      flags: 1 SYN, 2 FIN, 4 RST
   asm flush <ts> <closeall>     (FlushWithOptions)    asm flusholder <ts>    asm flushall
   reply: ok {N<key>.<sid> | R<key>.<sid>[hex,skip,flags;…] | C<key>.<sid>}* [f=<flushed> c=<closed>] u=<used> n=<conns> p=<key:pages,…>
-/
open Gp Gp.Asm Driver

/-- canonical form of one Reassembled call: adjacent items without an intervening skip are merged -/
def mergeItems : List Reasm → List Reasm
  | [] => []
  | r :: rs =>
    match mergeItems rs with
    | [] => [r]
    | r2 :: rest =>
      if r2.skip == 0 && !r2.start && !r.fin then
        { r with bytes := r.bytes ++ r2.bytes, fin := r2.fin } :: rest
      else r :: r2 :: rest

def showItem (r : Reasm) : String :=
  hexOfBytes r.bytes ++ "," ++ toString r.skip ++ "," ++ (if r.start then "S" else "") ++ (if r.fin then "E" else "")

def showEv : Ev → String
  | .new k s => "N" ++ toString k ++ "." ++ toString s
  | .data k s items => "R" ++ toString k ++ "." ++ toString s ++ "[" ++ ";".intercalate ((mergeItems items).map showItem) ++ "]"
  | .complete k s => "C" ++ toString k ++ "." ++ toString s

def showPool (P : Pool) : List String :=
  ["u=" ++ toString P.used, "n=" ++ toString P.conns.length,
   "p=" ++ ",".intercalate (P.conns.map (fun kc => toString kc.1 ++ ":" ++ toString kc.2.npages ++ "/" ++ toString kc.2.pages.length))]

def reply (P : Pool) (o : OpOut) : String :=
  joinSp (["ok"] ++ o.evs.map showEv ++
    (match o.ret with | some (f, c) => ["f=" ++ toString f, "c=" ++ toString c] | none => []) ++ showPool P)

structure St where
  P : Pool := {}
  dead : Bool := false     -- after a panic the real assembler is unusable (mutex held); the case ends

def doOp (st : St) (op : Op) : St × String :=
  if st.dead then (st, "dead") else
  match step wrapArith st.P op with
  | .ok (P', o) => ({ st with P := P' }, reply P' o)
  | .err _ => (st, "err")
  | .panic k => ({ st with dead := true }, "panic " ++ k.toString)

def stepAsm (st : St) (ws : List String) : St × String :=
  match ws with
  | ["reset"] => ({}, "ok")
  | ["asm", "opt", a, b] =>
    match a.toInt?, b.toInt? with
    | some a, some b => doOp st (.opt a b)
    | _, _ => (st, "bad-op")
  | ["asm", "seg", c, d, q, f, t, h] =>
    match c.toNat?, d.toNat?, q.toNat?, f.toNat?, t.toNat?, bytesOfHex h with
    | some c, some d, some q, some f, some t, some bs =>
      if c < 64 ∧ d < 2 ∧ q < 4294967296 ∧ f < 8 ∧ t < 1000000000 then
        doOp st (.seg { key := 2 * c + d, seq := q, syn := f % 2 == 1, fin := (f / 2) % 2 == 1,
                        rst := (f / 4) % 2 == 1, ts := t, bytes := bs })
      else (st, "bad-op")
    | _, _, _, _, _, _ => (st, "bad-op")
  | ["asm", "flush", t, ca] =>
    match t.toNat?, ca.toNat? with
    | some t, some ca => if t < 1000000000 ∧ ca < 2 then doOp st (.flush t (ca == 1)) else (st, "bad-op")
    | _, _ => (st, "bad-op")
  | ["asm", "flusholder", t] =>
    match t.toNat? with
    | some t => if t < 1000000000 then doOp st (.flush t true) else (st, "bad-op")
    | none => (st, "bad-op")
  | ["asm", "flushall"] => doOp st .flushAll
  | ["asm", "stream", c, d, i, h] =>   -- declaration of the sender stream: input of the Go-side oracles only
    match c.toNat?, d.toNat?, i.toNat?, bytesOfHex h with
    | some c, some d, some i, some _ => if c < 64 ∧ d < 2 ∧ i < 4294967296 then (st, "ok") else (st, "bad-op")
    | _, _, _, _ => (st, "bad-op")
  | _ => (st, "bad-op")

def main : IO Unit := run ({} : St) stepAsm
