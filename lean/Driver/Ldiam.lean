import Driver.Common
import Gp.Model.Layers.Diam
/- Model driver for engine `ldiam` (Diameter codec; C19, C05, C06, C07). -/
open Gp Gp.SBuf Gp.Arp Gp.Diam Driver

structure St where
  d  : Diameter := Diameter.fresh          -- the object re-used by `redec`
  p  : Diameter := Diameter.fresh          -- the object owned by the DecodingLayerParser

def b01 (b : Bool) : String := if b then "1" else "0"

def boolOf (s : String) : Option Bool :=
  if s == "1" then some true else if s == "0" then some false else none

def natBelow (s : String) (bound : Nat) : Option Nat :=
  match s.toNat? with
  | some n => if n < bound then some n else none
  | none => none

/-- payload token: hex, `-`, or `z<n>x<hh>` (n copies of byte hh). -/
def payloadOf (s : String) : Option (List UInt8) :=
  if s.startsWith "z" then
    match (String.ofList (s.toList.drop 1)).splitOn "x" with
    | [n, hh] =>
      match n.toNat?, bytesOfHex hh with
      | some n, some [v] => if n ≤ 200000 then some (List.replicate n v) else none
      | _, _ => none
    | _ => none
  else bytesOfHex s

mutual
def renderAVP : AVP → String
  | ⟨c, v, m, p, len, vid, d, g⟩ =>
    "{" ++ toString c ++ "," ++ b01 v ++ b01 m ++ b01 p ++ "," ++ toString len ++ "," ++ toString vid ++ ","
      ++ hexOfBytes d ++ "," ++ renderGrp g ++ "}"
def renderGrp : Option (List AVP) → String
  | none => "n"
  | some l => "[" ++ renderAVPs l ++ "]"
def renderAVPs : List AVP → String
  | [] => ""
  | a :: r => renderAVP a ++ ";" ++ renderAVPs r
end

def renderDiam (l : Diameter) : String :=
  s!"ver={l.version} ml={l.messageLength} fl={b01 l.fRequest}{b01 l.fProxiable}{b01 l.fError}{b01 l.fRetransmitted} cc={l.commandCode} app={l.applicationID} hbh={l.hopByHopID} e2e={l.endToEndID} avps=[{renderAVPs l.avps}] contents={hexOfBytes l.contents} payload={hexOfBytes l.payload} next={l.nextLayerType}"

def showDec (r : Res (DecOut Diameter)) : String :=
  match r with
  | .ok o => if o.err then s!"err trunc={b01 o.trunc} | {renderDiam o.layer}" else s!"ok {renderDiam o.layer} trunc={b01 o.trunc}"
  | .err _ => "err"
  | .panic k => "panic " ++ k.toString

def bufOf (h : String) : Option SBuf :=
  if h == "fresh" then some (new 0 0)
  else if h.startsWith "dirty" then
    match natBelow (String.ofList (h.toList.drop 5)) 256 with
    | some v =>
      let junk := List.replicate 64 (UInt8.ofNat v)
      some (clear (step (step (new 0 0) (.append junk)) (.prepend junk)))
    | none => none
  else if h.startsWith "sized" then
    match natBelow (String.ofList (h.toList.drop 5)) 100000 with
    | some n => some (new n n)
    | none => none
  else none

def overPayload (p : List UInt8) : SBuf := pushLayer (serializePayload p (clear (new 0 0))) 2

/-- `code:VMP:length:vendor:datahex` -/
def avpOf (s : String) : Option AVP :=
  match s.splitOn ":" with
  | [c, f, len, vid, d] =>
    match natBelow c 4294967296, f.toList, natBelow len 4294967296, natBelow vid 4294967296, payloadOf d with
    | some c, [v, m, p], some len, some vid, some d =>
      match boolOf (String.singleton v), boolOf (String.singleton m), boolOf (String.singleton p) with
      | some v, some m, some p =>
        some { code := c, fVendor := v, fMandatory := m, fProtected := p, length := len, vendorID := vid,
               data := d, grouped := none }
      | _, _, _ => none
    | _, _, _, _, _ => none
  | _ => none

def avpsOf (s : String) : Option (List AVP) :=
  if s == "-" then some [] else (s.splitOn ";").mapM avpOf

def layerOf (ver ml fl cc app hbh e2e avps : String) : Option Diameter :=
  match natBelow ver 256, natBelow ml 4294967296, fl.toList, natBelow cc 4294967296, natBelow app 4294967296,
        natBelow hbh 4294967296, natBelow e2e 4294967296, avpsOf avps with
  | some ver, some ml, [r, p, e, t], some cc, some app, some hbh, some e2e, some avps =>
    match boolOf (String.singleton r), boolOf (String.singleton p), boolOf (String.singleton e),
          boolOf (String.singleton t) with
    | some r, some p, some e, some t =>
      some { Diameter.fresh with version := ver, messageLength := ml, fRequest := r, fProxiable := p, fError := e,
                                 fRetransmitted := t, commandCode := cc, applicationID := app, hopByHopID := hbh,
                                 endToEndID := e2e, avps := avps }
    | _, _, _, _ => none
  | _, _, _, _, _, _, _, _ => none

def againStr (r : Res (SerOut Diameter)) (bytes : List UInt8) : String :=
  match r with
  | .ok o2 => if o2.err then "err" else if contents o2.buf = bytes then "same" else "diff"
  | .err _ => "err"
  | .panic k => "panic-" ++ k.toString

def rtDiam (l : Diameter) (p : List UInt8) : String :=
  match l.serializeTo (overPayload p) true true with
  | .panic k => "panic " ++ k.toString
  | .err _ => "ser-err"
  | .ok o =>
    if o.err then "ser-err" else
    let bytes := contents o.buf
    let d := Diameter.fresh.decodeFromBytes isGrouped { vis := bytes, tail := [] }
    let again :=
      match d with
      | .ok od => if od.err then "none" else againStr (od.layer.serializeTo (overPayload p) true true) bytes
      | _ => "none"
    s!"ok bytes={hexOfBytes bytes} | {showDec d} | again={again}"

def showAct : DAct → String
  | .setTruncated => "trunc"
  | .addLayer t => s!"add:{t}"
  | .setApplicationLayer => "app"

def showTail : DTail → String
  | .done => "done"
  | .fail => "fail"

def showBeh (b : DBeh) : String :=
  let acts := if b.acts.isEmpty then "-" else ",".intercalate (b.acts.map showAct)
  s!"acts={acts} tail={showTail b.tail}"

def showPb (r : Res (DBeh × Option Diameter)) : String :=
  match r with
  | .ok (b, some l) => s!"{showBeh b} | {renderDiam l}"
  | .ok (b, none) => showBeh b
  | .err _ => "err"
  | .panic k => "panic " ++ k.toString

def showPkt (r : Res (DBeh × Option Diameter)) : String :=
  match r with
  | .ok (b, some l) => s!"ok {renderDiam l} trunc={b01 (b.acts.contains DAct.setTruncated)}"
  | .ok (_, none) => "fail"
  | .err _ => "err"
  | .panic k => "panic " ++ k.toString

def showDlp (r : Res (DlpOut)) : String :=
  match r with
  | .panic k => "panic " ++ k.toString
  | .err _ => "err"
  | .ok o =>
    let dec := if o.decoded.isEmpty then "-" else ",".intercalate (o.decoded.map toString)
    s!"code={o.code} decoded={dec} trunc={b01 o.trunc} | {renderDiam o.layer}"

def keep (dflt : Diameter) (r : Res (DecOut Diameter)) : Diameter :=
  match r with | .ok o => o.layer | _ => dflt

def stepLdiam (st : St) (ws : List String) : St × String :=
  match ws with
  | ["reset"] => ({}, "ok")
  | ["ldiam", "dec", extra, fh, h] =>
    match extra.toNat?, bytesOfHex fh, bytesOfHex h with
    | some n, some foreign, some data =>
      if foreign.length ≠ n then (st, "bad-op") else
      let r := Diameter.fresh.decodeFromBytes isGrouped { vis := data, tail := foreign }
      ({ st with d := keep Diameter.fresh r }, showDec r)
    | _, _, _ => (st, "bad-op")
  | ["ldiam", "redec", h] =>
    match bytesOfHex h with
    | some data =>
      let r := st.d.decodeFromBytes isGrouped { vis := data, tail := [] }
      ({ st with d := keep st.d r }, showDec r)
    | none => (st, "bad-op")
  | ["ldiam", "ser", fix, csum, hist, ver, ml, fl, cc, app, hbh, e2e, avps, pl] =>
    match boolOf fix, boolOf csum, bufOf hist, layerOf ver ml fl cc app hbh e2e avps, payloadOf pl with
    | some fix, some csum, some b, some l, some p =>
      match l.serializeTo (serializePayload p b) fix csum with
      | .ok o =>
        if o.err then (st, s!"err ml={o.layer.messageLength}")
        else (st, s!"ok bytes={hexOfBytes (contents o.buf)} ml={o.layer.messageLength}")
      | .err _ => (st, "err")
      | .panic k => (st, "panic " ++ k.toString)
    | _, _, _, _, _ => (st, "bad-op")
  | ["ldiam", "rt", ver, ml, fl, cc, app, hbh, e2e, avps, pl] =>
    match layerOf ver ml fl cc app hbh e2e avps, payloadOf pl with
    | some l, some p => (st, rtDiam l p)
    | _, _ => (st, "bad-op")
  | ["ldiam", "rtdec", h] =>
    match bytesOfHex h with
    | some data =>
      match Diameter.fresh.decodeFromBytes isGrouped { vis := data, tail := [] } with
      | .ok o => if o.err then (st, "dec-err") else (st, rtDiam o.layer o.layer.payload)
      | .err _ => (st, "dec-err")
      | .panic k => (st, "panic " ++ k.toString)
    | none => (st, "bad-op")
  | ["ldiam", "pb", h] =>
    match bytesOfHex h with
    | some data => (st, showPb (decodeDiameterFn isGrouped { vis := data, tail := [] }))
    | none => (st, "bad-op")
  | ["ldiam", "pkt", mode, extra, fh, h] =>
    match extra.toNat?, bytesOfHex fh, bytesOfHex h with
    | some n, some foreign, some data =>
      if foreign.length ≠ n ∨ ¬ (mode == "copy" ∨ mode == "nocopy" ∨ mode == "lazy") then (st, "bad-op") else
      if data.isEmpty then (st, "empty") else
      let d : GSlice := { vis := data, tail := if mode == "nocopy" then foreign else [] }
      (st, showPkt (decodeDiameterFn isGrouped d))
    | _, _, _ => (st, "bad-op")
  | ["ldiam", "dlp", h] =>
    match bytesOfHex h with
    | some data =>
      let r := dlpDecodeLayers isGrouped Diameter.fresh { vis := data, tail := [] }
      let st' := match r with
        | .ok o => { st with p := o.layer }
        | _ => { st with p := Diameter.fresh }
      (st', showDlp r)
    | none => (st, "bad-op")
  | ["ldiam", "redlp", h] =>
    match bytesOfHex h with
    | some data =>
      let r := dlpDecodeLayers isGrouped st.p { vis := data, tail := [] }
      let st' := match r with
        | .ok o => { st with p := o.layer }
        | _ => st
      (st', showDlp r)
    | none => (st, "bad-op")
  | ["ldiam", "grp", c, v] =>
    match natBelow c 4294967296, natBelow v 4294967296 with
    | some c, some v => (st, b01 (isGrouped c v))
    | _, _ => (st, "bad-op")
  | _ => (st, "bad-op")

def main : IO Unit := run ({} : St) stepLdiam
