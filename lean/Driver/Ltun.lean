import Driver.Common
import Gp.Model.Layers.Tun
import Gp.Model.Layers.TunGeneve
import Gp.Model.Layers.TunGtp
/-
  Model driver for engine `ltun` (layers/vxlan.go, layers/geneve.go, layers/gtp.go).
  Line protocol (see harness/cmd/gp-ltun):

    ltun dec   <kind> <foreign-hex> <hex>   decode into a FRESH layer; the data sits in a buffer whose
                                            spare capacity holds the foreign bytes
    ltun redec <kind> <hex>                 decode into the layer object of the previous dec/redec
    ltun pkt   <kind> <hex>                 behaviour of the registered decoder on a PacketBuilder
    ltun ser   <kind> <fix> <csum> <hist> <layer…> <payload>   SerializeTo over the payload
    ltun ser2  …                            serialize, then serialize the (mutated) layer again
    ltun rt    …                            serialize, then decode the bytes into a fresh layer
    ltun rtdec <kind> <hex>                 decode, serialize the decoded layer (fix+csum, fresh buffer) over
                                            its payload, decode again
    ltun nlttab                             EthernetType ↦ LayerType rows (Geneve.NextLayerType)
    <kind>    = vxlan | geneve | gtp
    <layer…>  = vxlan : <I G D A: four 0/1 chars> vni pid
                geneve: <O C: two 0/1 chars> ver optlen proto vni <opts>
                        <opts> = - | class.type.flags.length.hex[,…]
                gtp   : <E S PN: three 0/1 chars> ver pt rsv mtype mlen teid seq npdu <ehs>
                        <ehs>  = - | type.hex[,…]
    <hist>    = fresh | dirty:<byte>:<n> | sized:<pre>:<app>
    <payload> = hex | - | z<n>x<hh>   (n bytes hh)
-/
open Gp Gp.Tun Driver

inductive Kind where | vxlan | geneve | gtp
  deriving DecidableEq

structure St where
  vx : Vxlan.Layer := Vxlan.Layer.fresh
  gn : Geneve.Layer := Geneve.Layer.fresh
  gt : Gtp.Layer := Gtp.Layer.fresh

def b01 (b : Bool) : String := if b then "1" else "0"

def joinOr (xs : List String) : String := if xs.isEmpty then "-" else ",".intercalate xs

/-! rendering -/

def showVxFields (l : Vxlan.Layer) : String :=
  s!"i={b01 l.validIDFlag} vni={l.vni} g={b01 l.gbpExtension} d={b01 l.gbpDontLearn} a={b01 l.gbpApplied} pid={l.gbpGroupPolicyID}"

def showGOpt (o : Geneve.GOpt) : String :=
  s!"{o.cls}.{o.typ}.{o.flags}.{o.length}.{hexOfBytes o.data}"

def showGnFields (l : Geneve.Layer) : String :=
  s!"ver={l.version} ol={l.optionsLength} oam={b01 l.oamPacket} crit={b01 l.criticalOption} proto={l.protocol} vni={l.vni} opts={joinOr (l.options.map showGOpt)}"

def showExt (e : Gtp.Ext) : String := s!"{e.typ}.{hexOfBytes e.content}"

def showGtFields (l : Gtp.Layer) : String :=
  s!"ver={l.version} pt={l.protocolType} rsv={l.reserved} e={b01 l.extensionHeaderFlag} s={b01 l.sequenceNumberFlag} pn={b01 l.npduFlag} mt={l.messageType} ml={l.messageLength} teid={l.teid} seq={l.sequenceNumber} npdu={l.npdu} ehs={joinOr (l.extensionHeaders.map showExt)}"

def showBase (c p : Bytes) : String := s!"c={hexOfBytes c} p={hexOfBytes p}"

def showDecWith {L : Type} (fields : L → String) (base : L → String) (next : L → Nat)
    (r : Res (L × Bool)) : String :=
  match r with
  | .ok (l, tr) => s!"ok {fields l} {base l} trunc={b01 tr} next={next l}"
  | .err k => s!"err trunc={b01 (errSetsTruncated k)}"
  | .panic k => "panic " ++ k.toString

def showVxDec := showDecWith showVxFields (fun l => showBase l.contents l.payload) Vxlan.nextLayerType
def showGnDec := showDecWith showGnFields (fun l => showBase l.contents l.payload) Geneve.nextLayerType
def showGtDec := showDecWith showGtFields (fun l => showBase l.contents l.payload) Gtp.nextLayerType

def showTail : Tail → String
  | .done => "next=none"
  | .nextLayerType t => s!"next=lt:{t}"
  | .nextLinkType t => s!"next=link:{t}"

def showPktWith {L : Type} (fields : L → String) (base : L → String) (can : Nat) (r : Res (PktBeh L)) : String :=
  match r with
  | .ok beh => s!"ok {fields beh.added} {base beh.added} trunc={b01 beh.truncated} sets={joinOr beh.setCalls} can={can} {showTail beh.tail}"
  | .err k => s!"err trunc={b01 (errSetsTruncated k)}"
  | .panic k => "panic " ++ k.toString

def showSerWith {L : Type} (fields : L → String) (r : Res (SerOut L)) : String :=
  match r with
  | .ok o => if o.err then s!"err {fields o.layer}" else s!"ok {hexOfBytes (SBuf.contents o.buf)} {fields o.layer}"
  | .err _ => "err"
  | .panic k => "panic " ++ k.toString

/-! parsing -/

def parseKind (s : String) : Option Kind :=
  if s == "vxlan" then some .vxlan else if s == "geneve" then some .geneve
  else if s == "gtp" then some .gtp else none

def parseBit (c : Char) : Option Bool :=
  if c == '1' then some true else if c == '0' then some false else none

def natLt (s : String) (bound : Nat) : Option Nat := do
  let n ← s.toNat?
  if n < bound then pure n else none

def parsePayload (s : String) : Option Bytes :=
  if s.startsWith "z" then
    match (String.ofList (s.toList.drop 1)).splitOn "x" with
    | [n, h] => do
      let n ← natLt n 200001
      let hb ← bytesOfHex h
      match hb with
      | [v] => pure (List.replicate n v)
      | _ => none
    | _ => none
  else bytesOfHex s

def parseHist (s : String) : Option SBuf.SBuf :=
  match s.splitOn ":" with
  | ["fresh"] => some (SBuf.new 0 0)
  | ["dirty", v, n] => do
    let v ← natLt v 256
    let n ← natLt n 1000000
    let (b, w) := SBuf.prepend (SBuf.new 0 0) n
    pure (SBuf.clear (SBuf.fill b w (List.replicate n (UInt8.ofNat v))))
  | ["sized", p, a] => do
    let p ← natLt p 1000000
    let a ← natLt a 1000000
    pure (SBuf.new p a)
  | _ => none

def parseVx (ws : List String) : Option Vxlan.Layer :=
  match ws with
  | [bits, vni, pid] =>
    match bits.toList with
    | [c1, c2, c3, c4] => do
      let i ← parseBit c1
      let g ← parseBit c2
      let d ← parseBit c3
      let a ← parseBit c4
      let vni ← natLt vni 4294967296
      let pid ← natLt pid 65536
      pure { contents := [], payload := [], validIDFlag := i, vni := vni, gbpExtension := g,
             gbpDontLearn := d, gbpApplied := a, gbpGroupPolicyID := pid }
    | _ => none
  | _ => none

def parseGOpt (s : String) : Option Geneve.GOpt :=
  match s.splitOn "." with
  | [c, t, f, n, h] => do
    let c ← natLt c 65536
    let t ← natLt t 256
    let f ← natLt f 256
    let n ← natLt n 256
    let h ← bytesOfHex h
    pure { cls := c, typ := t, flags := f, length := n, data := h }
  | _ => none

def parseGn (ws : List String) : Option Geneve.Layer :=
  match ws with
  | [bits, ver, ol, proto, vni, opts] =>
    match bits.toList with
    | [c1, c2] => do
      let oam ← parseBit c1
      let crit ← parseBit c2
      let ver ← natLt ver 256
      let ol ← natLt ol 256
      let proto ← natLt proto 65536
      let vni ← natLt vni 4294967296
      let opts ← (if opts == "-" then some [] else (opts.splitOn ",").mapM parseGOpt)
      pure { contents := [], payload := [], version := ver, optionsLength := ol, oamPacket := oam,
             criticalOption := crit, protocol := proto, vni := vni, options := opts }
    | _ => none
  | _ => none

def parseExt (s : String) : Option Gtp.Ext :=
  match s.splitOn "." with
  | [t, h] => do
    let t ← natLt t 256
    let h ← bytesOfHex h
    pure { typ := t, content := h }
  | _ => none

def parseGt (ws : List String) : Option Gtp.Layer :=
  match ws with
  | [bits, ver, pt, rsv, mt, ml, teid, seq, npdu, ehs] =>
    match bits.toList with
    | [c1, c2, c3] => do
      let e ← parseBit c1
      let s ← parseBit c2
      let pn ← parseBit c3
      let ver ← natLt ver 256
      let pt ← natLt pt 256
      let rsv ← natLt rsv 256
      let mt ← natLt mt 256
      let ml ← natLt ml 65536
      let teid ← natLt teid 4294967296
      let seq ← natLt seq 65536
      let npdu ← natLt npdu 256
      let ehs ← (if ehs == "-" then some [] else (ehs.splitOn ",").mapM parseExt)
      pure { contents := [], payload := [], version := ver, protocolType := pt, reserved := rsv,
             extensionHeaderFlag := e, sequenceNumberFlag := s, npduFlag := pn, messageType := mt,
             messageLength := ml, teid := teid, sequenceNumber := seq, npdu := npdu,
             extensionHeaders := ehs }
    | _ => none
  | _ => none

structure SerHead where
  opts    : Opts
  buf     : SBuf.SBuf
  fields  : List String
  payload : Bytes

/-- `<fix> <csum> <hist> <layer…> <payload>` -/
def parseSerHead (ws : List String) : Option SerHead :=
  match ws with
  | fix :: cs :: hist :: rest =>
    match rest.reverse with
    | ph :: lrev => do
      let fix ← natLt fix 2
      let cs ← natLt cs 2
      let b ← parseHist hist
      let p ← parsePayload ph
      pure { opts := { fixLengths := fix == 1, computeChecksums := cs == 1 }, buf := b,
             fields := lrev.reverse, payload := p }
    | [] => none
  | _ => none

/-- the three serialization ops for one layer kind. -/
def serOp {L : Type} (op : String) (h : SerHead) (l : L)
    (ser : L → SBuf.SBuf → Opts → Res (SerOut L)) (fields : L → String)
    (dec : Bytes → String) : String :=
  let first := ser l (putPayload h.buf h.payload) h.opts
  if op == "ser" then showSerWith fields first
  else if op == "ser2" then
    match first with
    | .ok o => showSerWith fields (ser o.layer (putPayload (SBuf.new 0 0) h.payload) h.opts)
    | r => showSerWith fields r
  else
    match first with
    | .ok o => if o.err then "err" else dec (SBuf.contents o.buf)
    | .err _ => "err"
    | .panic k => "panic " ++ k.toString


/-- decode, serialize the decoded layer over its payload (fix+csum on, fresh buffer), decode again. -/
def rtDec {L : Type} (dec : Bytes → Res (L × Bool)) (payload : L → Bytes)
    (ser : L → SBuf.SBuf → Opts → Res (SerOut L)) (fields : L → String) (showDec : Res (L × Bool) → String)
    (d : Bytes) : String :=
  match dec d with
  | .panic k => "panic " ++ k.toString
  | .err _ => "decerr"
  | .ok (l, _) =>
    match ser l (putPayload (SBuf.new 0 0) (payload l)) ⟨true, true⟩ with
    | .panic k => "panic " ++ k.toString
    | .err _ => "sererr"
    | .ok o => if o.err then s!"sererr {fields o.layer}" else showDec (dec (SBuf.contents o.buf))

def insertSorted (r : Nat × Nat) : List (Nat × Nat) → List (Nat × Nat)
  | [] => [r]
  | x :: xs => if r.1 ≤ x.1 then r :: x :: xs else x :: insertSorted r xs

def stepLtun (st : St) (ws : List String) : St × String :=
  match ws with
  | ["reset"] => ({}, "ok")
  | ["ltun", "dec", k, f, h] =>
    match parseKind k, bytesOfHex f, bytesOfHex h with
    | some .vxlan, some f, some d =>
      let r := Vxlan.decode Vxlan.Layer.fresh d f
      ({ st with vx := match r with | .ok (l, _) => l | _ => Vxlan.Layer.fresh }, showVxDec r)
    | some .geneve, some f, some d =>
      let r := Geneve.decode Geneve.Layer.fresh d f
      ({ st with gn := match r with | .ok (l, _) => l | _ => Geneve.Layer.fresh }, showGnDec r)
    | some .gtp, some f, some d =>
      let r := Gtp.decode Gtp.Layer.fresh d f
      ({ st with gt := match r with | .ok (l, _) => l | _ => Gtp.Layer.fresh }, showGtDec r)
    | _, _, _ => (st, "bad-op")
  | ["ltun", "redec", k, h] =>
    match parseKind k, bytesOfHex h with
    | some .vxlan, some d =>
      let r := Vxlan.decode st.vx d []
      ((match r with | .ok (l, _) => { st with vx := l } | _ => st), showVxDec r)
    | some .geneve, some d =>
      let r := Geneve.decode st.gn d []
      ((match r with | .ok (l, _) => { st with gn := l } | _ => st), showGnDec r)
    | some .gtp, some d =>
      let r := Gtp.decode st.gt d []
      ((match r with | .ok (l, _) => { st with gt := l } | _ => st), showGtDec r)
    | _, _ => (st, "bad-op")
  | ["ltun", "pkt", k, h] =>
    match parseKind k, bytesOfHex h with
    | some .vxlan, some d =>
      (st, showPktWith showVxFields (fun l => showBase l.contents l.payload) Vxlan.canDecode (Vxlan.decodePkt d []))
    | some .geneve, some d =>
      (st, showPktWith showGnFields (fun l => showBase l.contents l.payload) Geneve.canDecode (Geneve.decodePkt d []))
    | some .gtp, some d =>
      (st, showPktWith showGtFields (fun l => showBase l.contents l.payload) Gtp.canDecode (Gtp.decodePkt d []))
    | _, _ => (st, "bad-op")
  | ["ltun", "rtdec", k, h] =>
    match parseKind k, bytesOfHex h with
    | some .vxlan, some d =>
      (st, rtDec (fun bs => Vxlan.decode Vxlan.Layer.fresh bs []) (·.payload) Vxlan.serializeTo showVxFields showVxDec d)
    | some .geneve, some d =>
      (st, rtDec (fun bs => Geneve.decode Geneve.Layer.fresh bs []) (·.payload) Geneve.serializeTo showGnFields showGnDec d)
    | some .gtp, some d =>
      (st, rtDec (fun bs => Gtp.decode Gtp.Layer.fresh bs []) (·.payload) Gtp.serializeTo showGtFields showGtDec d)
    | _, _ => (st, "bad-op")
  | "ltun" :: op :: k :: rest =>
    if op == "ser" || op == "ser2" || op == "rt" then
      match parseKind k, parseSerHead rest with
      | some .vxlan, some h =>
        match parseVx h.fields with
        | some l => (st, serOp op h l Vxlan.serializeTo showVxFields
                        (fun bs => showVxDec (Vxlan.decode Vxlan.Layer.fresh bs [])))
        | none => (st, "bad-op")
      | some .geneve, some h =>
        match parseGn h.fields with
        | some l => (st, serOp op h l Geneve.serializeTo showGnFields
                        (fun bs => showGnDec (Geneve.decode Geneve.Layer.fresh bs [])))
        | none => (st, "bad-op")
      | some .gtp, some h =>
        match parseGt h.fields with
        | some l => (st, serOp op h l Gtp.serializeTo showGtFields
                        (fun bs => showGtDec (Gtp.decode Gtp.Layer.fresh bs [])))
        | none => (st, "bad-op")
      | _, _ => (st, "bad-op")
    else (st, "bad-op")
  | ["ltun", "nlttab"] =>
    let rows := ethTypeTable.foldr insertSorted []
    (st, "ok " ++ ",".intercalate (rows.map (fun r => s!"{r.1}:{r.2}")))
  | _ => (st, "bad-op")

def main : IO Unit := run ({} : St) stepLtun
