import Driver.Common
import Gp.Model.Layers.Tcp
/- Model driver for engine `ltcp` (layers/tcp.go codec; C19/C05/C06/C07/C17/C01 parts). -/
open Gp Gp.Tcp Driver

structure St where
  v : Variant := Variant.fixed      -- survives `reset` (set once per ops file by the generator's probe)
  cur : Option Layer := none

def b01 (b : Bool) : String := if b then "1" else "0"

def slashed (xs : List String) : String := "(" ++ "/".intercalate xs ++ ")"

def ptr {α} (f : α → String) : Option α → String
  | none => "-"
  | some a => f a

def showOpt (o : TcpOption) : String :=
  ":".intercalate
    [ toString o.optionType, toString o.optionLength, hexOfBytes o.optionData, toString o.optionMultipath,
      ptr (fun (c : MPCapable) => slashed [toString c.version,
          b01 c.a ++ b01 c.b ++ b01 c.c ++ b01 c.d ++ b01 c.e ++ b01 c.f ++ b01 c.g ++ b01 c.h,
          hexOfBytes c.sendKey, hexOfBytes c.receivKey, toString c.dataLength, toString c.checksum]) o.mpCapable,
      ptr (fun (d : Dss) => slashed [b01 d.fF ++ b01 d.fm ++ b01 d.fM ++ b01 d.fa ++ b01 d.fA,
          hexOfBytes d.dataAck, hexOfBytes d.dsn, toString d.ssn, toString d.dataLength, toString d.checksum]) o.dss,
      ptr (fun (j : MPJoin) => slashed [b01 j.backup, toString j.addrID, toString j.receivToken,
          toString j.sendRandNum, hexOfBytes j.sendHMAC]) o.mpJoin,
      ptr (fun (p : MPPrio) => slashed [b01 p.backup, toString p.addrID]) o.mpPrio,
      ptr (fun (a : AddAddr) => slashed [toString a.ipVer, b01 a.e, toString a.addrID, hexOfBytes a.address,
          toString a.port, hexOfBytes a.sendHMAC]) o.addAddr,
      ptr (fun (r : RemAddr) => slashed [hexOfBytes r.addrIDs]) o.remAddr,
      ptr (fun (f : MPFClose) => slashed [hexOfBytes f.receivKey]) o.mpFastClose,
      ptr (fun (t : MPTcpRst) => slashed [b01 t.u ++ b01 t.v ++ b01 t.w ++ b01 t.t, toString t.reason]) o.mpTcpRst,
      ptr (fun (f : MPFail) => slashed [toString f.dsn]) o.mpFail ]

def showOpts (os : List TcpOption) : String :=
  if os.isEmpty then "-" else ",".intercalate (os.map showOpt)

def showLayer (l : Layer) : String :=
  joinSp
    [ "sp=" ++ toString l.srcPort, "dp=" ++ toString l.dstPort, "seq=" ++ toString l.seq,
      "ack=" ++ toString l.ack, "off=" ++ toString l.dataOffset,
      "fl=" ++ b01 l.fin ++ b01 l.syn ++ b01 l.rst ++ b01 l.psh ++ b01 l.ackF ++ b01 l.urg ++ b01 l.ece ++
        b01 l.cwr ++ b01 l.ns,
      "win=" ++ toString l.window, "ck=" ++ toString l.checksum, "urg=" ++ toString l.urgent,
      "opts=" ++ showOpts l.options, "pad=" ++ hexOfBytes l.padding, "mp=" ++ b01 l.multipath,
      "contents=" ++ hexOfBytes l.contents, "payload=" ++ hexOfBytes l.payload,
      "flow=" ++ hexOfBytes l.sPort ++ ">" ++ hexOfBytes l.dPort ]

def showDec (o : DecOut) : String :=
  "ok err=" ++ b01 o.err ++ " trunc=" ++ b01 o.trunc ++ " " ++ showLayer o.layer

def parseBool (s : String) : Option Bool :=
  if s == "1" then some true else if s == "0" then some false else none

def parseOpt (s : String) : Option TcpOption :=
  match s.splitOn ":" with
  | [t, n, d] => do
    let t ← t.toNat?
    let n ← n.toNat?
    let d ← bytesOfHex d
    if t < 256 ∧ n < 256 then pure { optionType := t, optionLength := n, optionData := d } else none
  | _ => none

def parseOpts (s : String) : Option (List TcpOption) :=
  if s == "-" then some [] else (s.splitOn ",").mapM parseOpt

def parseFlags (s : String) : Option (List Bool) :=
  let cs := s.toList
  if cs.length = 9 then cs.mapM (fun c => if c = '1' then some true else if c = '0' then some false else none)
  else none

def parsePseudo (s : String) : Option Pseudo :=
  match s.splitOn ":" with
  | ["4", a, b] => do let a ← bytesOfHex a; let b ← bytesOfHex b; pure (.ip4 a b)
  | ["6", a, b] => do let a ← bytesOfHex a; let b ← bytesOfHex b; pure (.ip6 a b)
  | _ => none

/-- bufhist ∈ fresh | dirty<byte> | sized<pre>_<app> — the same history the adapter applies. -/
def parseHist (s : String) : Option SBuf.SBuf :=
  if s == "fresh" then some (SBuf.new 0 0)
  else if s.startsWith "dirty" then
    match (String.ofList (s.toList.drop 5)).toNat? with
    | some v =>
      if v < 256 then
        let b := SBuf.new 0 0
        let b := SBuf.step b (.append (List.replicate 1600 (UInt8.ofNat v)))
        let b := SBuf.step b (.prepend (List.replicate 128 (UInt8.ofNat v)))
        some (SBuf.clear b)
      else none
    | none => none
  else if s.startsWith "sized" then
    match (String.ofList (s.toList.drop 5)).splitOn "_" with
    | [p, a] =>
      match p.toNat?, a.toNat? with
      | some p, some a => if p ≤ 100000 ∧ a ≤ 100000 then some (SBuf.new p a) else none
      | _, _ => none
    | _ => none
  else none

/-- Go does not fix the evaluation order of index vs. slice expressions inside one composite
    literal, so which of the two bounds panics fires first is not observable: both are `oob`. -/
def showPanic (k : PanicKind) : String :=
  match k with
  | .index | .slice => "panic oob"
  | k => "panic " ++ k.toString

def doSer (st : St) (fix csum : Bool) (b0 : SBuf.SBuf) (payload : Bytes) : St × String :=
  match st.cur with
  | none => (st, "bad-op")
  | some l =>
    let b1 := SBuf.step b0 (.append payload)
    match serializeTcp l b1 fix csum with
    | .ok (b2, l2) =>
      ({ st with cur := some l2 },
        "ok " ++ hexOfBytes (SBuf.contents b2) ++ " off=" ++ toString l2.dataOffset ++ " ck=" ++
          toString l2.checksum ++ " pad=" ++ hexOfBytes l2.padding)
    | .err _ => ({ st with cur := some (if fix then fixLengths l else l) }, "err")
    | .panic k => (st, showPanic k)

def payloadArg (st : St) (s : String) : Option Bytes :=
  if s == "@" then st.cur.map (·.payload) else bytesOfHex s

def stepLtcp (st : St) (ws : List String) : St × String :=
  match ws with
  | ["reset"] => ({ st with cur := none }, "ok")
  | ["ltcp", "variant", a, b, c] =>
    match parseBool a, parseBool b, parseBool c with
    | some a, some b, some c => ({ st with v := ⟨a, b, c⟩ }, "ok")
    | _, _, _ => (st, "bad-op")
  | ["ltcp", "dec", n, f, h] =>
    match n.toNat?, bytesOfHex f, bytesOfHex h with
    | some n, some f, some h =>
      if f.length ≠ n then (st, "bad-op") else
      match decode st.v fresh h f with
      | .ok o => ({ st with cur := some o.layer }, showDec o)
      | .err _ => ({ st with cur := none }, "err")
      | .panic k => ({ st with cur := none }, showPanic k)
    | _, _, _ => (st, "bad-op")
  | ["ltcp", "redec", h] =>
    match bytesOfHex h with
    | some h =>
      match decode st.v (st.cur.getD fresh) h [] with
      | .ok o => ({ st with cur := some o.layer }, showDec o)
      | .err _ => ({ st with cur := none }, "err")
      | .panic k => ({ st with cur := none }, showPanic k)
    | none => (st, "bad-op")
  | ["ltcp", "pb", d, n, f, h] =>
    match parseBool d, n.toNat?, bytesOfHex f, bytesOfHex h with
    | some d, some n, some f, some h =>
      if f.length ≠ n then (st, "bad-op") else
      match decodeTCP st.v d ⟨h, f⟩ with
      | .ok r =>
        ({ st with cur := some r.added },
          "ok add=1 transport=" ++ b01 r.setTransport ++ " trunc=" ++ b01 r.trunc ++ " next=" ++
            (match r.next with | none => "err" | some t => t.name) ++ " " ++ showLayer r.added)
      | .err _ => ({ st with cur := none }, "err")
      | .panic k => ({ st with cur := none }, showPanic k)
    | _, _, _, _ => (st, "bad-op")
  | ["ltcp", "str"] =>
    match st.cur with
    | none => (st, "bad-op")
    | some l =>
      match renderOptions st.v l.options with
      | .ok ss => (st, "ok " ++ " | ".intercalate ss)
      | .err _ => (st, "err")
      | .panic k => (st, showPanic k)
  | ["ltcp", "flow"] =>
    match st.cur with
    | none => (st, "bad-op")
    | some l =>
      match transportFlow l with
      | .ok f => (st, "ok " ++ toString f.typ ++ " " ++ hexOfBytes f.srcBytes ++ ">" ++ hexOfBytes f.dstBytes ++
                        " rev " ++ hexOfBytes f.reverse.srcBytes ++ ">" ++ hexOfBytes f.reverse.dstBytes ++
                        " hash=" ++ toString f.fastHash ++ " rhash=" ++ toString f.reverse.fastHash)
      | .err _ => (st, "err")
      | .panic k => (st, showPanic k)
  | ["ltcp", "nlt"] =>
    match st.cur with
    | none => (st, "bad-op")
    | some l => (st, "ok " ++ (nextLayerType l).name)
  | ["ltcp", "set", sp, dp, sq, ak, dof, fl, win, ck, urg, opts, pad] =>
    match sp.toNat?, dp.toNat?, sq.toNat?, ak.toNat?, dof.toNat?, parseFlags fl, win.toNat?, ck.toNat?,
          urg.toNat?, parseOpts opts, bytesOfHex pad with
    | some sp, some dp, some sq, some ak, some dof, some [f0, f1, f2, f3, f4, f5, f6, f7, f8], some win,
      some ck, some urg, some opts, some pad =>
      if sp < 65536 ∧ dp < 65536 ∧ sq < 4294967296 ∧ ak < 4294967296 ∧ dof < 256 ∧ win < 65536 ∧
         ck < 65536 ∧ urg < 65536 then
        ({ st with cur := some {
              srcPort := sp, dstPort := dp, seq := sq, ack := ak, dataOffset := dof,
              fin := f0, syn := f1, rst := f2, psh := f3, ackF := f4, urg := f5, ece := f6, cwr := f7, ns := f8,
              window := win, checksum := ck, urgent := urg, options := opts, padding := pad } }, "ok")
      else (st, "bad-op")
    | _, _, _, _, _, _, _, _, _, _, _ => (st, "bad-op")
  | ["ltcp", "pseudo", p] =>
    match st.cur, parsePseudo p with
    | some l, some p => ({ st with cur := some { l with pseudo := some p } }, "ok")
    | _, _ => (st, "bad-op")
  | ["ltcp", "ser", fix, csum, hist, pl] =>
    match parseBool fix, parseBool csum, parseHist hist, payloadArg st pl with
    | some fix, some csum, some b0, some pl => doSer st fix csum b0 pl
    | _, _, _, _ => (st, "bad-op")
  | ["ltcp", "rt", fix, csum, pl] =>
    match parseBool fix, parseBool csum, payloadArg st pl, st.cur with
    | some fix, some csum, some pl, some l =>
      let b1 := SBuf.step (SBuf.new 0 0) (.append pl)
      match serializeTcp l b1 fix csum with
      | .ok (b2, _) =>
        match decode st.v fresh (SBuf.contents b2) [] with
        | .ok o =>
          let l' := { o.layer with pseudo := l.pseudo }
          let refix :=
            match serializeTcp l' (SBuf.step (SBuf.new 0 0) (.append l'.payload)) fix csum with
            | .ok (b3, _) => SBuf.contents b3 == SBuf.contents b2
            | _ => false
          ({ st with cur := some l' }, showDec o ++ " refix=" ++ b01 refix)
        | .err _ => ({ st with cur := none }, "err")
        | .panic k => ({ st with cur := none }, showPanic k)
      | .err _ => ({ st with cur := some (if fix then fixLengths l else l) }, "sererr")
      | .panic k => (st, showPanic k)
    | _, _, _, _ => (st, "bad-op")
  | ["ltcp", "vcs"] =>
    match st.cur with
    | none => (st, "bad-op")
    | some l =>
      match verifyChecksum l with
      | some r => (st, "ok valid=" ++ b01 r.valid ++ " correct=" ++ toString r.correct ++ " actual=" ++ toString r.actual)
      | none => (st, "err")
  | _ => (st, "bad-op")

def main : IO Unit := run ({} : St) stepLtcp
