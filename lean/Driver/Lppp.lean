import Driver.Common
import Gp.Model.Layers.Ppp
/- Model driver for engine `lppp` (PPP, PPPoE, MPLS codec; C19, C05, C06, C07, C17).
   Every op is a pure function of its line: the decoder functions of these layers allocate a new
   layer object per call, so there is no per-case state. -/
open Gp Gp.SBuf Gp.Ppp Driver

def b01 (b : Bool) : String := if b then "1" else "0"

def boolOf (s : String) : Option Bool :=
  if s == "1" then some true else if s == "0" then some false else none

def natBelow (s : String) (bound : Nat) : Option Nat :=
  match s.toNat? with
  | some n => if n < bound then some n else none
  | none => none

/-- payload token: hex, `-`, or `z<n>x<hh>` (n copies of byte hh). -/
def payloadOf (s : String) : Option (List UInt8) :=
  if s.startsWith "z" then
    match (String.ofList (s.toList.drop 1)).splitOn "x" with
    | [n, hh] =>
      match n.toNat?, bytesOfHex hh with
      | some n, some [v] => if n ≤ 200000 then some (List.replicate n v) else none
      | _, _ => none
    | _ => none
  else bytesOfHex s

def renderPPP (l : PPP) : String :=
  s!"type={l.pppType} pptp={b01 l.hasPPTPHeader} contents={hexOfBytes l.contents} payload={hexOfBytes l.payload}"

def renderPPPoE (l : PPPoE) : String :=
  s!"ver={l.version} type={l.type} code={l.code} sid={l.sessionId} len={l.length} contents={hexOfBytes l.contents} payload={hexOfBytes l.payload}"

def renderMPLS (l : MPLS) : String :=
  s!"label={l.label} tc={l.trafficClass} s={b01 l.stackBottom} ttl={l.ttl} contents={hexOfBytes l.contents} payload={hexOfBytes l.payload}"

def renderAny : AnyLayer → String
  | .ppp l => "ppp " ++ renderPPP l
  | .pppoe l => "pppoe " ++ renderPPPoE l
  | .mpls l => "mpls " ++ renderMPLS l

def showAct : Act → String
  | .setTruncated => "trunc"
  | .addLayer t => s!"add:{t}"
  | .setLinkLayer => "link"

def showTail : Tail → String
  | .fail => "fail"
  | .pppType a => s!"ppp:{a}"
  | .pppoeCode c => s!"code:{c}"
  | .mplsPayload => "guess"
  | .mplsFunc => "mpls"

def showBeh (b : Beh) : String :=
  let acts := if b.acts.isEmpty then "-" else ",".intercalate (b.acts.map showAct)
  s!"acts={acts} tail={showTail b.tail}"

def showDec {L : Type} (render : L → String) (r : Res (DecOut L)) : String :=
  match r with
  | .ok o =>
    match o.layer with
    | some l => s!"{showBeh o.beh} | {render l}"
    | none => showBeh o.beh
  | .err _ => "err"
  | .panic k => "panic " ++ k.toString

def showEnd : End → String
  | .done => "done"
  | .fail => "fail"
  | .hand t => s!"hand:{t}"

def decOfKind (k : String) : Option Dec :=
  if k == "ppp" then some .ppp else if k == "pppoe" then some .pppoe else if k == "mpls" then some .mpls else none

def showRun (r : Res RunOut) : String :=
  match r with
  | .panic k => "panic " ++ k.toString
  | .err _ => "err"
  | .ok o =>
    let ls := o.layers.map renderAny
    let body := if ls.isEmpty then "" else " | " ++ " | ".intercalate ls
    let tr := match o.end_ with
      | .hand _ => "x"
      | _ => b01 (o.acts.contains .setTruncated)
    s!"n={o.layers.length}{body} | end={showEnd o.end_} link={b01 (o.acts.contains .setLinkLayer)} trunc={tr}"

/-- the buffer histories of the `ser` op -/
def bufOf (h : String) : Option SBuf :=
  if h == "fresh" then some (new 0 0)
  else if h.startsWith "dirty" then
    match natBelow (String.ofList (h.toList.drop 5)) 256 with
    | some v =>
      let junk := List.replicate 64 (UInt8.ofNat v)
      some (clear (step (step (new 0 0) (.append junk)) (.prepend junk)))
    | none => none
  else if h.startsWith "sized" then
    match natBelow (String.ofList (h.toList.drop 5)) 100000 with
    | some n => some (new n n)
    | none => none
  else none

/-- the buffer of `SerializeLayers(buf, opts, layer, Payload(p))` when `layer.SerializeTo` is called -/
def overPayload (p : List UInt8) : SBuf := pushLayer (serializePayload p (clear (new 0 0))) 2

def againOf {L : Type} (bytes : List UInt8) (r : Res (SerOut L)) : String :=
  match r with
  | .ok o2 => if o2.err then "err" else if contents o2.buf = bytes then "same" else "diff"
  | .err _ => "err"
  | .panic k => "panic-" ++ k.toString

def rtPPP (l : PPP) (p : List UInt8) : String :=
  match l.serializeTo (overPayload p) true true with
  | .panic k => "panic " ++ k.toString
  | .err _ => "ser-err"
  | .ok o =>
    if o.err then "ser-err" else
    let bytes := contents o.buf
    let d := decodePPP { vis := bytes, tail := [] }
    let again := match d with
      | .ok od => match od.layer with
        | some dl => againOf bytes (dl.serializeTo (overPayload dl.payload) true true)
        | none => "none"
      | _ => "none"
    s!"ok bytes={hexOfBytes bytes} | {showDec renderPPP d} | again={again}"

def rtPPPoE (l : PPPoE) (p : List UInt8) : String :=
  match l.serializeTo (overPayload p) true true with
  | .panic k => "panic " ++ k.toString
  | .err _ => "ser-err"
  | .ok o =>
    if o.err then "ser-err" else
    let bytes := contents o.buf
    let d := decodePPPoE { vis := bytes, tail := [] }
    let again := match d with
      | .ok od => match od.layer with
        | some dl => againOf bytes (dl.serializeTo (overPayload dl.payload) true true)
        | none => "none"
      | _ => "none"
    s!"ok bytes={hexOfBytes bytes} | {showDec renderPPPoE d} | again={again}"

def rtMPLS (l : MPLS) (p : List UInt8) : String :=
  match l.serializeTo (overPayload p) true true with
  | .panic k => "panic " ++ k.toString
  | .err _ => "ser-err"
  | .ok o =>
    if o.err then "ser-err" else
    let bytes := contents o.buf
    let d := decodeMPLS { vis := bytes, tail := [] }
    let again := match d with
      | .ok od => match od.layer with
        | some dl => againOf bytes (dl.serializeTo (overPayload dl.payload) true true)
        | none => "none"
      | _ => "none"
    s!"ok bytes={hexOfBytes bytes} | {showDec renderMPLS d} | again={again}"

def showFlow (l : PPP) : String :=
  match l.linkFlow with
  | .panic k => "panic " ++ k.toString
  | .err _ => "err"
  | .ok f =>
    s!"ok et={f.typ} src={hexOfBytes f.srcBytes} dst={hexOfBytes f.dstBytes} rsrc={hexOfBytes f.reverse.srcBytes} rdst={hexOfBytes f.reverse.dstBytes} sym={b01 (f.reverse = f)}"

def insertSorted (x : Nat × Dec) : List (Nat × Dec) → List (Nat × Dec)
  | [] => [x]
  | y :: ys => if x.1 ≤ y.1 then x :: y :: ys else y :: insertSorted x ys

def showDecName : Dec → String
  | .ppp => "ppp" | .pppoe => "pppoe" | .mpls => "mpls" | .ipv4 => "ipv4" | .ipv6 => "ipv6"

def showSer {L : Type} (extra : L → String) (r : Res (SerOut L)) : String :=
  match r with
  | .ok o => if o.err then "err" else s!"ok bytes={hexOfBytes (contents o.buf)}{extra o.layer}"
  | .err _ => "err"
  | .panic k => "panic " ++ k.toString

def stepLppp (st : Unit) (ws : List String) : Unit × String :=
  match ws with
  | ["reset"] => (st, "ok")
  | ["lppp", "dec", kind, extra, fh, h] =>
    match extra.toNat?, bytesOfHex fh, bytesOfHex h with
    | some n, some foreign, some data =>
      if foreign.length ≠ n then (st, "bad-op") else
      let d : GSlice := { vis := data, tail := foreign }
      if kind == "ppp" then (st, showDec renderPPP (decodePPP d))
      else if kind == "pppoe" then (st, showDec renderPPPoE (decodePPPoE d))
      else if kind == "mpls" then (st, showDec renderMPLS (decodeMPLS d))
      else (st, "bad-op")
    | _, _, _ => (st, "bad-op")
  | ["lppp", "guess", extra, fh, h] =>
    match extra.toNat?, bytesOfHex fh, bytesOfHex h with
    | some n, some foreign, some data =>
      if foreign.length ≠ n then (st, "bad-op") else
      match guess { vis := data, tail := foreign } with
      | .ok none => (st, "fail")
      | .ok (some d) => (st, s!"hand:{handType d}")
      | .err _ => (st, "err")
      | .panic k => (st, "panic " ++ k.toString)
    | _, _, _ => (st, "bad-op")
  | ["lppp", "pkt", kind, mode, extra, fh, h] =>
    match decOfKind kind, extra.toNat?, bytesOfHex fh, bytesOfHex h with
    | some dec, some n, some foreign, some data =>
      if foreign.length ≠ n ∨ ¬ (mode == "copy" ∨ mode == "nocopy" ∨ mode == "lazy" ∨ mode == "pool") then (st, "bad-op") else
      -- NewPacket clamps the capacity of the packet buffer to its length in every mode
      -- (`data = data[:len(data):len(data)]`), so the first decoder always sees cap = len
      let tail : List UInt8 := []
      (st, showRun (newPacket (mode == "lazy") dec { vis := data, tail := tail }))
    | _, _, _, _ => (st, "bad-op")
  | ["lppp", "ser", "ppp", fix, csum, hist, ty, pptp, pl] =>
    match boolOf fix, boolOf csum, bufOf hist, natBelow ty 65536, boolOf pptp, payloadOf pl with
    | some fix, some csum, some b, some ty, some pptp, some p =>
      let l : PPP := { PPP.fresh with pppType := ty, hasPPTPHeader := pptp }
      (st, showSer (fun _ => "") (l.serializeTo (serializePayload p b) fix csum))
    | _, _, _, _, _, _ => (st, "bad-op")
  | ["lppp", "ser", "pppoe", fix, csum, hist, ver, ty, code, sid, len, pl] =>
    match boolOf fix, boolOf csum, bufOf hist, natBelow ver 256, natBelow ty 256, natBelow code 256,
          natBelow sid 65536, natBelow len 65536, payloadOf pl with
    | some fix, some csum, some b, some ver, some ty, some code, some sid, some len, some p =>
      let l : PPPoE := { PPPoE.fresh with version := ver, type := ty, code := code, sessionId := sid, length := len }
      (st, showSer (fun (l : PPPoE) => s!" len={l.length}") (l.serializeTo (serializePayload p b) fix csum))
    | _, _, _, _, _, _, _, _, _ => (st, "bad-op")
  | ["lppp", "ser", "mpls", fix, csum, hist, label, tc, s, ttl, pl] =>
    match boolOf fix, boolOf csum, bufOf hist, natBelow label 4294967296, natBelow tc 256, boolOf s,
          natBelow ttl 256, payloadOf pl with
    | some fix, some csum, some b, some label, some tc, some s, some ttl, some p =>
      let l : MPLS := { MPLS.fresh with label := label, trafficClass := tc, stackBottom := s, ttl := ttl }
      (st, showSer (fun _ => "") (l.serializeTo (serializePayload p b) fix csum))
    | _, _, _, _, _, _, _, _ => (st, "bad-op")
  | ["lppp", "rt", "ppp", ty, pptp, pl] =>
    match natBelow ty 65536, boolOf pptp, payloadOf pl with
    | some ty, some pptp, some p => (st, rtPPP { PPP.fresh with pppType := ty, hasPPTPHeader := pptp } p)
    | _, _, _ => (st, "bad-op")
  | ["lppp", "rt", "pppoe", ver, ty, code, sid, len, pl] =>
    match natBelow ver 256, natBelow ty 256, natBelow code 256, natBelow sid 65536, natBelow len 65536, payloadOf pl with
    | some ver, some ty, some code, some sid, some len, some p =>
      (st, rtPPPoE { PPPoE.fresh with version := ver, type := ty, code := code, sessionId := sid, length := len } p)
    | _, _, _, _, _, _ => (st, "bad-op")
  | ["lppp", "rt", "mpls", label, tc, s, ttl, pl] =>
    match natBelow label 4294967296, natBelow tc 256, boolOf s, natBelow ttl 256, payloadOf pl with
    | some label, some tc, some s, some ttl, some p =>
      (st, rtMPLS { MPLS.fresh with label := label, trafficClass := tc, stackBottom := s, ttl := ttl } p)
    | _, _, _, _, _ => (st, "bad-op")
  | ["lppp", "rtdec", kind, h] =>
    match bytesOfHex h with
    | some data =>
      let d : GSlice := { vis := data, tail := [] }
      if kind == "ppp" then
        match decodePPP d with
        | .ok o => match o.layer with
          | some l => (st, rtPPP l l.payload)
          | none => (st, "dec-err")
        | .err _ => (st, "dec-err")
        | .panic k => (st, "panic " ++ k.toString)
      else if kind == "pppoe" then
        match decodePPPoE d with
        | .ok o => match o.layer with
          | some l => (st, rtPPPoE l l.payload)
          | none => (st, "dec-err")
        | .err _ => (st, "dec-err")
        | .panic k => (st, "panic " ++ k.toString)
      else if kind == "mpls" then
        match decodeMPLS d with
        | .ok o => match o.layer with
          | some l => (st, rtMPLS l l.payload)
          | none => (st, "dec-err")
        | .err _ => (st, "dec-err")
        | .panic k => (st, "panic " ++ k.toString)
      else (st, "bad-op")
    | none => (st, "bad-op")
  | ["lppp", "flow", h] =>
    match bytesOfHex h with
    | some data =>
      match decodePPP { vis := data, tail := [] } with
      | .ok o => match o.layer with
        | some l => (st, showFlow l)
        | none => (st, "err")
      | .err _ => (st, "err")
      | .panic k => (st, "panic " ++ k.toString)
    | none => (st, "bad-op")
  | ["lppp", "nlttab"] =>
    let rows := (pppTypeTable.foldr insertSorted []).map (fun r => s!"ppp:{r.1}={showDecName r.2}")
    let rows2 := (pppoeCodeTable.foldr insertSorted []).map (fun r => s!"code:{r.1}={showDecName r.2}")
    (st, "ok " ++ ",".intercalate (rows ++ rows2) ++ s!" lt={LayerTypePPP},{LayerTypePPPoE},{LayerTypeMPLS} ep={EndpointPPP} mplspayload=guess")
  | _ => (st, "bad-op")

def main : IO Unit := run () stepLppp
