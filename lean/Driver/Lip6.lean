import Driver.Common
import Gp.Model.Layers.Ip6Ser
/-
  Model driver for engine `lip6` (layers/ip6.go).  Line protocol: see harness/cmd/gp-lip6/main.go.
  Core Lean only.
-/
open Gp Gp.Ip6 Driver

namespace Lip6

/-! ## rendering -/

def digest (bs : List UInt8) : Nat := bs.foldl (fun h b => (h * 33 + b.toNat) % 4294967296) 5381

def bytesR (bs : List UInt8) : String :=
  if bs.length ≤ 128 then hexOfBytes bs else "#" ++ toString bs.length ++ "." ++ toString (digest bs)

def tlvR (o : Tlv) : String :=
  let d := match o.data with
    | none => "nil"
    | some b => bytesR b
  s!"{o.typ}:{o.len}:{o.alen}:{d}:{o.ax}:{o.ay}"

def optsR (os : List Tlv) : String :=
  if os.isEmpty then "e" else "|".intercalate (os.map tlvR)

def extR (e : TlvExt) : String :=
  "ext{nh=" ++ toString e.base.nextHeader ++ ",hlen=" ++ toString e.base.headerLength ++
  ",alen=" ++ toString e.base.actualLength ++ ",c=" ++ bytesR e.base.contents ++
  ",p=" ++ bytesR e.base.payload ++ ",opts=" ++ optsR e.options ++ "}"

def ip6R (l : IPv6) : String :=
  let h := match l.hopByHop with
    | none => "nil"
    | some e => extR e
  "ip6{v=" ++ toString l.version ++ ",tc=" ++ toString l.trafficClass ++ ",fl=" ++ toString l.flowLabel ++
  ",len=" ++ toString l.length ++ ",nh=" ++ toString l.nextHeader ++ ",hl=" ++ toString l.hopLimit ++
  ",src=" ++ bytesR l.srcIP ++ ",dst=" ++ bytesR l.dstIP ++ ",hbh=" ++ h ++
  ",c=" ++ bytesR l.contents ++ ",p=" ++ bytesR l.payload ++ "}"

def skipR (s : Skipper) : String :=
  "skip{nh=" ++ toString s.nextHeader ++ ",c=" ++ bytesR s.contents ++ ",p=" ++ bytesR s.payload ++ "}"

def ipsR (ips : List Bytes) : String :=
  if ips.isEmpty then "e" else "|".intercalate (ips.map bytesR)

def rtR (r : Routing) : String :=
  "rt{nh=" ++ toString r.base.nextHeader ++ ",hlen=" ++ toString r.base.headerLength ++
  ",alen=" ++ toString r.base.actualLength ++ ",c=" ++ bytesR r.base.contents ++
  ",p=" ++ bytesR r.base.payload ++ ",type=" ++ toString r.routingType ++
  ",segs=" ++ toString r.segmentsLeft ++ ",res=" ++ bytesR r.reserved ++
  ",ips=" ++ ipsR r.sourceRoutingIPs ++ "}"

def fragR (f : Fragment) : String :=
  "frag{nh=" ++ toString f.nextHeader ++ ",r1=" ++ toString f.reserved1 ++
  ",off=" ++ toString f.fragmentOffset ++ ",r2=" ++ toString f.reserved2 ++
  ",mf=" ++ (if f.moreFragments then "1" else "0") ++ ",id=" ++ toString f.identification ++
  ",c=" ++ bytesR f.contents ++ ",p=" ++ bytesR f.payload ++ "}"

def resR : Res Unit → String
  | .ok _ => "ok"
  | .err _ => "err"
  | .panic k => "panic " ++ k.toString

def trR (b : Bool) : String := if b then "tr=1" else "tr=0"

def flowR (l : IPv6) : String :=
  match l.networkFlow with
  | .ok f => s!"flow={f.typ}:{bytesR f.srcBytes}:{bytesR f.dstBytes}"
  | .err _ => "flow=err"
  | .panic _ => "flow=panic"

/-! ## parsing -/

/-- one part of a byte argument: hex | `-` | `pat:a:n` (byte i = (a + i) % 251) -/
def partBytes (s : String) : Option (List UInt8) :=
  match s.splitOn ":" with
  | ["pat", a, n] =>
    match a.toNat?, n.toNat? with
    | some a, some n => some ((List.range n).map (fun i => UInt8.ofNat ((a + i) % 251)))
    | _, _ => none
  | _ => bytesOfHex s

/-- `+`-joined parts -/
def bytesArg (s : String) : Option (List UInt8) := do
  let parts ← (s.splitOn "+").mapM partBytes
  pure parts.flatten

def tlvArg (s : String) : Option Tlv :=
  match s.splitOn ":" with
  | [t, l, a, d, x, y] => do
    let t ← t.toNat?
    let l ← l.toNat?
    let a ← a.toNat?
    let x ← x.toNat?
    let y ← y.toNat?
    let d ← (if d == "nil" then some none else (bytesOfHex d).map some)
    pure { typ := t, len := l, alen := a, data := d, ax := x, ay := y }
  | _ => none

def optsArg (s : String) : Option (List Tlv) :=
  if s == "e" then some [] else (s.splitOn "|").mapM tlvArg

def extArg (s : String) : Option TlvExt :=
  match s.splitOn "/" with
  | [nh, hl, os] => do
    let nh ← nh.toNat?
    let hl ← hl.toNat?
    let os ← optsArg os
    pure { base := { ExtBase.zero with nextHeader := nh, headerLength := hl }, options := os }
  | _ => none

def ipsArg (s : String) : Option (List Bytes) :=
  if s == "e" then some [] else (s.splitOn "|").mapM bytesOfHex

def layersArg (s : String) : Option (List Int) :=
  if s == "-" then some [] else (s.splitOn ",").mapM String.toInt?

def boolArg (s : String) : Option Bool :=
  if s == "1" then some true else if s == "0" then some false else none

def dirtyLen : Nat := 2200
def dirtyApp : Nat := 64

/-- the buffer history named by `bufhist` -/
def bufArg (s : String) : Option SBuf.SBuf :=
  if s == "fresh" then some (SBuf.new 0 0)
  else if s.startsWith "dirty" then
    match (s.drop 5).toNat? with
    | some v =>
      if v < 256 then
        let b0 := SBuf.new 0 0
        let b1 := SBuf.step b0 (.prepend (List.replicate dirtyLen (UInt8.ofNat v)))
        let b2 := SBuf.step b1 (.append (List.replicate dirtyApp (UInt8.ofNat v)))
        some (SBuf.clear b2)
      else none
    | none => none
  else if s.startsWith "sized" then
    match (s.drop 5).toNat? with
    | some n => if n ≤ 200000 then some (SBuf.new n n) else none
    | none => none
  else none

def protoArg (s : String) : Option (Nat × Int) :=
  match s.splitOn ":" with
  | [p, t] => do
    let p ← p.toNat?
    let t ← t.toInt?
    pure (p, t)
  | _ => none

/-! ## state -/

structure St where
  pm   : List (Nat × Int) := []
  ip6  : IPv6 := IPv6.zero
  hbh  : TlvExt := TlvExt.zero
  dst  : TlvExt := TlvExt.zero
  skip : Skipper := Skipper.zero

def St.ltOf (st : St) (p : Nat) : Int :=
  match st.pm.find? (fun e => e.1 = p) with
  | some e => e.2
  | none => 0

def decReply (st : St) (kind : String) (useOld : Bool) (v : View) : Option (St × String) :=
  if kind == "ip6" then
    let o := decodeIPv6 (if useOld then st.ip6 else IPv6.zero) v
    some ({ st with ip6 := o.layer },
      joinSp [resR o.res, trR o.tr, ip6R o.layer, s!"nlt={o.layer.nextLayerType st.ltOf}", flowR o.layer])
  else if kind == "hbh" then
    let o := decodeTlvExt .hopByHop (if useOld then st.hbh else TlvExt.zero) v
    some ({ st with hbh := o.layer }, joinSp [resR o.res, trR o.tr, extR o.layer])
  else if kind == "dst" then
    let o := decodeTlvExt .destination (if useOld then st.dst else TlvExt.zero) v
    some ({ st with dst := o.layer }, joinSp [resR o.res, trR o.tr, extR o.layer])
  else if kind == "skip" then
    let o := decodeSkipper (if useOld then st.skip else Skipper.zero) v
    some ({ st with skip := o.layer },
      joinSp [resR o.res, trR o.tr, skipR o.layer, s!"nlt={o.layer.nextLayerType st.ltOf}"])
  else none

def nextR : NextDec → String
  | .layerType t => s!"next:lt:{t}"
  | .ipProto p => s!"next:ipproto:{p}"
  | .fragment => "next:fragment"

def evR : Ev → String
  | .addIPv6 l => "add:" ++ ip6R l
  | .setNetwork => "setnet"
  | .addHbh h => "add:hbh:" ++ extR h
  | .addDst h => "add:dst:" ++ extR h
  | .addRouting r => "add:" ++ rtR r
  | .addFragment f => "add:" ++ fragR f
  | .next d => nextR d

def bldReply (st : St) (kind : String) (v : View) : Option String :=
  let r : Option (List Ev × Bool × Res Unit) :=
    if kind == "ip6" then some (decodeIPv6Fn st.ltOf v)
    else if kind == "hbh" then some (decodeHopByHopFn v)
    else if kind == "dst" then some (decodeDestinationFn v)
    else if kind == "rt" then some (decodeRoutingFn v)
    else if kind == "frag" then some (decodeFragmentFn v)
    else none
  r.map (fun (evs, tr, res) => joinSp ([resR res, trR tr] ++ evs.map evR))

/-- prepare the buffer: history, payload (prepended as gopacket.Payload does), pushed layers -/
def prepBuf (hist layers payload : String) : Option SBuf.SBuf := do
  let b ← bufArg hist
  let ls ← layersArg layers
  let p ← bytesArg payload
  let b := if p.isEmpty then b else SBuf.step b (.prepend p)
  pure (ls.foldl SBuf.pushLayer b)

def serOut {α} (r : Res (SBuf.SBuf × α)) (render : α → String) : String :=
  match r with
  | .ok (b, l) => joinSp ["ok", "out=" ++ bytesR (SBuf.contents b), "l=" ++ render l]
  | .err _ => "err"
  | .panic k => "panic " ++ k.toString

def step (st : St) (ws : List String) : St × String :=
  match ws with
  | ["reset"] => ({}, "ok")
  | "lip6" :: "protomap" :: rest =>
    match rest.mapM protoArg with
    | some pm => ({ st with pm := pm }, "ok")
    | none => (st, "bad-op")
  | ["lip6", "dec", kind, xc, foreign, hex] =>
    match xc.toNat?, bytesArg foreign, bytesArg hex with
    | some xc, some f, some d =>
      if f.length = xc then
        match decReply st kind false ⟨d, f⟩ with
        | some (st', r) => (st', r)
        | none => (st, "bad-op")
      else (st, "bad-op")
    | _, _, _ => (st, "bad-op")
  | ["lip6", "redec", kind, hex] =>
    match bytesArg hex with
    | some d =>
      match decReply st kind true ⟨d, []⟩ with
      | some (st', r) => (st', r)
      | none => (st, "bad-op")
    | none => (st, "bad-op")
  | ["lip6", "bld", kind, hex] =>
    match bytesArg hex with
    | some d =>
      match bldReply st kind ⟨d, []⟩ with
      | some r => (st, r)
      | none => (st, "bad-op")
    | none => (st, "bad-op")
  | ["lip6", "pkt", kind, flags, hex] =>
    -- NewPacket / DecodingLayerParser runs: implementation-side monitors only
    match flags.toNat?, bytesArg hex with
    | some _, some _ =>
      if kind == "ip6" || kind == "hbh" || kind == "dst" || kind == "rt" || kind == "frag" then (st, "ok")
      else (st, "bad-op")
    | _, _ => (st, "bad-op")
  | ["lip6", "ser", "ip6", fix, csum, hist, layers, v, tc, fl, len, nh, hl, src, dst, hbh, payload] =>
    let r : Option String := do
      let fix ← boolArg fix
      let _ ← boolArg csum
      let b ← prepBuf hist layers payload
      let v ← v.toNat?
      let tc ← tc.toNat?
      let fl ← fl.toNat?
      let len ← len.toNat?
      let nh ← nh.toNat?
      let hl ← hl.toNat?
      let src ← bytesOfHex src
      let dst ← bytesOfHex dst
      let hbh ← (if hbh == "nil" then some none else (extArg hbh).map some)
      let l : IPv6 := { IPv6.zero with version := v, trafficClass := tc, flowLabel := fl, length := len,
                                       nextHeader := nh, hopLimit := hl, srcIP := src, dstIP := dst,
                                       hopByHop := hbh }
      pure (serOut (serializeIPv6 l b fix) ip6R)
    (st, r.getD "bad-op")
  | ["lip6", "ser", kind, fix, csum, hist, layers, ext, payload] =>
    let r : Option String := do
      let fix ← boolArg fix
      let _ ← boolArg csum
      let b ← prepBuf hist layers payload
      let e ← extArg ext
      if kind == "hbh" || kind == "dst" then pure (serOut (serializeTlvExt e b fix) extR) else none
    (st, r.getD "bad-op")
  | ["lip6", "ser", "rt", fix, csum, hist, layers, nh, typ, segs, res, ips, payload] =>
    let r : Option String := do
      let _ ← boolArg fix
      let _ ← boolArg csum
      let b ← prepBuf hist layers payload
      let nh ← nh.toNat?
      let typ ← typ.toNat?
      let segs ← segs.toNat?
      let res ← bytesOfHex res
      let ips ← ipsArg ips
      let rt : Routing := { base := { ExtBase.zero with nextHeader := nh }, routingType := typ,
                            segmentsLeft := segs, reserved := res, sourceRoutingIPs := ips }
      pure (serOut ((serializeRouting rt b).bind (fun b => .ok (b, rt))) rtR)
    (st, r.getD "bad-op")
  | ["lip6", "ser", "frag", fix, csum, hist, layers, nh, r1, off, r2, mf, idn, payload] =>
    let r : Option String := do
      let _ ← boolArg fix
      let _ ← boolArg csum
      let b ← prepBuf hist layers payload
      let nh ← nh.toNat?
      let r1 ← r1.toNat?
      let off ← off.toNat?
      let r2 ← r2.toNat?
      let mf ← boolArg mf
      let idn ← idn.toNat?
      let f : Fragment := { contents := [], payload := [], nextHeader := nh, reserved1 := r1,
                            fragmentOffset := off, reserved2 := r2, moreFragments := mf,
                            identification := idn }
      pure (serOut ((serializeFragment f b).bind (fun b => .ok (b, f))) fragR)
    (st, r.getD "bad-op")
  | _ => (st, "bad-op")

end Lip6

def main : IO Unit := run ({} : Lip6.St) Lip6.step
