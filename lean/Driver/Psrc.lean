import Driver.Common
import Gp.Model.PSource
/- Model driver for engine `psrc` (C16).  Mirrors harness/cmd/gp-psrc: the controller's
   schedule (gated reads, consumer script, cancel point) is replayed on the LTS of
   Gp/Model/PSource.lean.  By Gp.C16.channel_closes / channel_prefix the outcome without cancel
   does not depend on the schedule; with cancel the schedule below is the controller's. -/
open Gp Gp.PSource Driver

/-- the scripted decoder of the adapter: truncated iff first byte ≥ 0x80 -/
def dtDrv : Bytes → Bool
  | b :: _ => decide (b ≥ 128)
  | [] => false

def termOfNat : Nat → Option TermKind
  | 0 => some .eof | 1 => some .unexpectedEOF | 2 => some .noProgress | 3 => some .closedPipe
  | 4 => some .shortBuffer | 5 => some .ebadf | 6 => some .closedFile | _ => none

def natOfTerm : TermKind → Nat
  | .eof => 0 | .unexpectedEOF => 1 | .noProgress => 2 | .closedPipe => 3
  | .shortBuffer => 4 | .ebadf => 5 | .closedFile => 6

def maxData : Nat := 64

def parseEv (tok : String) : Option Ev :=
  match tok.toList with
  | ['t'] => some Ev.timeout
  | ['e'] => some Ev.temp
  | ['o'] => some Ev.temp
  | [c, k] =>
    if c == 'p' then none else
    match termOfNat (k.toNat - 48) with
    | some t =>
      if k.toNat < 48 then none
      else if c == 'T' || c == 'W' then some (.err ⟨false, some t⟩)
      else if c == 'X' then some (.err ⟨true, some t⟩)
      else none
    | none => none
  | 'p' :: rest =>
    match (String.ofList rest).splitOn ":" with
    | [d, c, l, t] =>
      match bytesOfHex d, c.toInt?, l.toInt?, t.toNat? with
      | some d, some c, some l, some t =>
        if d.length ≤ maxData ∧ t ≤ 1073741824 then some (.pkt d ⟨c, l, t⟩) else none
      | _, _, _, _ => none
    | _ => none
  | _ => none

def parseHist (s : String) : Option (List Ev) :=
  if s == "-" then some [] else (s.splitOn ",").mapM parseEv

/-- options token: letters n l p s d, or "-"; only NoCopy matters to the model. -/
def parseOpts (s : String) : Option Bool :=
  if s == "-" then some false
  else if s.toList.all (fun c => c == 'n' || c == 'l' || c == 'p' || c == 's' || c == 'd') then
    some (s.toList.contains 'n')
  else none

def mkCfg (zero noCopy : Bool) : Cfg :=
  if zero then newZeroCopyPacketSource noCopy dtDrv else newPacketSource noCopy dtDrv

def b01 (b : Bool) : String := if b then "1" else "0"

def errClass (e : SrcErr) : String :=
  "e:" ++ b01 e.netTimeout ++ ":" ++ (match e.term with | some t => toString (natOfTerm t) | none => "-")

def hexOpt : Option Bytes → String
  | some b => hexOfBytes b
  | none => "?"

/-- data-at-delivery is the ghost `orig` iff the model says so (Gp.C16.next_packet_meta); the
    driver prints the heap view at both times. -/
def renderPull (now final : Option Bytes) (p : Pkt) : String :=
  "p:" ++ hexOpt now ++ ":" ++ hexOpt final ++ ":" ++ toString p.ci.caplen ++ ":" ++ toString p.ci.len ++ ":" ++
    toString p.ci.tag ++ ":" ++ b01 p.trunc

/-- n NextPacket calls, remembering the view of each packet right after its own read. -/
def pullTrace (cfg : Cfg) : Nat → Src → List (NP × Option Bytes) × Src
  | 0, s => ([], s)
  | n + 1, s =>
    match nextPacket cfg s with
    | none => ([], s)
    | some (r, s1) =>
      let now := match r with | .pkt p => view s1.heap p | .err _ => none
      let (rs, s2) := pullTrace cfg n s1
      ((r, now) :: rs, s2)

def doPull (zero : Bool) (noCopy : Bool) (n : Nat) (h : List Ev) : String :=
  let cfg := mkCfg zero noCopy
  let (rs, s) := pullTrace cfg n { hist := h ++ List.replicate n eofEv }
  joinSp ("ok" :: rs.map (fun (r, now) =>
    match r with
    | .pkt p => renderPull now (view s.heap p) p
    | .err e => errClass e))

def doConcat (noCopy : Bool) (n : Nat) (hs : List (List Ev)) : String :=
  let (evs, _) := concatReadN n hs
  doPull false noCopy n evs

/-! channel interface -/

inductive Consumer where
  | stalled | lag (k : Nat)

inductive CancelAt where
  | never | pre | read (i : Nat)

structure Ctl where
  s : St
  reads : Nat := 0
  relPk : Nat := 0
  cancelled : Bool := false
  det : Nat := 0
  race : Bool := false
  hang : Bool := false

def prodFuel : Nat := 16

/-- receive one packet (the producer first runs on to its next blocking point) -/
def recvOne (cfg : Cfg) (s : St) : St :=
  let s1 := prodUntilRead cfg prodFuel s
  match stepRecv s1 with
  | some s2 => s2
  | none => s1

partial def recvWhile (cfg : Cfg) (lag : Nat) (c : Ctl) : Ctl :=
  if c.relPk - c.s.recvd.length > lag then
    let s' := recvOne cfg c.s
    if s'.recvd.length == c.s.recvd.length then { c with s := s' } else recvWhile cfg lag { c with s := s' }
  else c

/-- phase 1 of the controller: one iteration per data-source read -/
partial def phase1 (cfg : Cfg) (cons : Consumer) (can : CancelAt) (c : Ctl) : Ctl :=
  if c.cancelled then c else
  let s := prodUntilRead cfg prodFuel c.s
  match s.pc with
  | .reading =>
    let i := c.reads
    -- cancel point: the producer is inside read #i
    let (s, c) := match can with
      | .read j =>
        if j == i then
          let full := s.chan.length == cfg.cap
          let isPkt := match s.hist with | .pkt _ _ :: _ => true | _ => false
          (match stepCancel s with | some s' => s' | none => s,
           { c with cancelled := true, det := s.recvd.length + s.chan.length, race := isPkt && !full })
        else (s, c)
      | _ => (s, c)
    let isPkt := match s.hist with | .pkt _ _ :: _ => true | _ => false
    match stepReadRet cfg s with
    | none => { c with s := s, hang := true }
    | some s1 =>
      let c := { c with s := s1, reads := c.reads + 1, relPk := c.relPk + (if isPkt then 1 else 0) }
      if c.cancelled then c
      else
        let c := match cons with
          | .stalled => c
          | .lag k => recvWhile cfg k c
        phase1 cfg cons can c
  | .sending _ =>
    -- blocked on a full channel and nobody will receive: deadlock by construction of the script
    { c with s := s, hang := true }
  | _ => { c with s := s }

def renderChanPkt (heap : Heap) (p : Pkt) : String :=
  hexOpt (view heap p) ++ ":" ++ toString p.ci.caplen ++ ":" ++ toString p.ci.len ++ ":" ++ toString p.ci.tag ++ ":" ++ b01 p.trunc

def doChan (zero noCopy : Bool) (cons : Consumer) (can : CancelAt) (h : List Ev) : String :=
  let cfg := mkCfg zero noCopy
  let pre := match can with | .pre => true | _ => false
  match packetsCtx cfg (h ++ [eofEv, eofEv]) pre with
  | .panic _ => "refused"
  | .err _ => "refused"
  | .ok s0 =>
    let c := phase1 cfg cons can { s := s0, cancelled := pre }
    if c.hang then "hang" else
    -- phase 2: the producer finishes (it is cancelled or gone), the consumer drains
    let s := prodUntilRead cfg prodFuel c.s
    match s.pc with
    | .exited =>
      match drain s.chan.length s with
      | none => "hang"
      | some s' =>
        let shown := if c.race then s'.recvd.take c.det else s'.recvd
        let body := if shown.isEmpty then "none" else ",".intercalate (shown.map (renderChanPkt s'.heap))
        "ok recv=" ++ body ++ " closed=" ++ b01 s'.closed ++ " leak=0 reads=" ++ toString c.reads ++
          " same=1 race=" ++ b01 c.race
    | _ => "hang"

def parseConsumer (s : String) : Option Consumer :=
  if s == "f" then some (.lag 0)
  else if s == "z" then some .stalled
  else match s.toList with
    | 'g' :: rest => match (String.ofList rest).toNat? with
      | some k => if 1 ≤ k ∧ k ≤ 100000 then some (.lag k) else none
      | none => none
    | _ => none

def parseCancel (s : String) : Option CancelAt :=
  if s == "-" then some .never
  else if s == "pre" then some .pre
  else match s.toList with
    | 'r' :: rest => (String.ofList rest).toNat?.map .read
    | _ => none

def parse01 (s : String) : Option Bool :=
  if s == "0" then some false else if s == "1" then some true else none

def stepPsrc (st : Unit) (ws : List String) : Unit × String :=
  match ws with
  | ["reset"] => (st, "ok")
  | ["psrc", "cap"] => (st, "ok " ++ toString chanCap)
  | ["psrc", "pull", z, o, n, h] =>
    match parse01 z, parseOpts o, n.toNat?, parseHist h with
    | some z, some nc, some n, some h => if n ≤ 5000 then (st, doPull z nc n h) else (st, "bad-op")
    | _, _, _, _ => (st, "bad-op")
  | ["psrc", "chan", z, o, c, k, h] =>
    match parse01 z, parseOpts o, parseConsumer c, parseCancel k, parseHist h with
    | some z, some nc, some c, some k, some h => (st, doChan z nc c k h)
    | _, _, _, _, _ => (st, "bad-op")
  | ["psrc", "concat", o, n, hs] =>
    match parseOpts o, n.toNat?, (hs.splitOn "|").mapM parseHist with
    | some nc, some n, some hs => if n ≤ 5000 then (st, doConcat nc n hs) else (st, "bad-op")
    | _, _, _ => (st, "bad-op")
  | _ => (st, "bad-op")

def main : IO Unit := run () stepPsrc
