import Driver.Common
import Gp.Model.Packet
import Gp.Model.PacketMem
/-
  Model driver for engine `pkt` (C01 framework part, C03, C04).  Line protocol (see notes/pkt.md):

    pkt dec <i> <beh…>                 define scripted decoder i            -> ok
    pkt buf <k> <hex>                  caller buffer k                      -> ok
    pkt new <slot> <opts> <first|nil> <k>    NewPacket(buf k, scripted decoder, opts)
    pkt rnew <slot> <opts> <ltype> <k>       same on the model side with first = 0 (trace table),
                                             short layer tokens
    pkt acc <slot> <accessor> [arg]    accessor call
    pkt mut <k> <off> <byte>           write into caller buffer k           -> ok
    pkt obs <slot>                     Data() and all layer bytes
    pkt dispose <slot>                                                      -> ok
    pkt conc …                         concurrent pool stress (monitor only) -> ok
-/
open Gp Gp.Pkt Gp.PktMem Driver

structure Slot where
  lazy    : Bool
  recover : Bool
  real    : Bool
  built   : Bool
  st      : LPkt
  view    : View
  pooled  : Bool
  disposed : Bool := false

structure St where
  scripts : List (Nat × SBeh) := []
  heap    : Heap := { bufs := [] }
  cbufs   : List (Nat × BufId) := []
  slots   : List (Nat × Slot) := []

def fuelC : Nat := 4096

def lookup {α} (k : Nat) : List (Nat × α) → Option α
  | [] => none
  | (k', v) :: rest => if k == k' then some v else lookup k rest

def upsert {α} (k : Nat) (v : α) : List (Nat × α) → List (Nat × α)
  | [] => [(k, v)]
  | (k', v') :: rest => if k == k' then (k, v) :: rest else (k', v') :: upsert k v rest

/-- scripts as a dense list (undefined ids = a decoder that returns nil). -/
def tableOf (scripts : List (Nat × SBeh)) : Table :=
  fun d _ off len =>
    match lookup d scripts with
    | some s => s.inst off len
    | none => .ret false

/-! parsing -/

def parseBool (s : String) : Option Bool := if s == "1" then some true else if s == "0" then some false else none

def parseLSpec (s : String) : Option LSpec :=
  let isAbs := s.startsWith "@"
  let body := if isAbs then (s.drop 1).toString else s
  match (body.splitOn ":").mapM String.toNat? with
  | some [id, ty, c, skip, pl, f] => if isAbs then none else if f ≤ 1 then some (.rel id ty c skip pl (f == 1)) else none
  | some [id, ty, coff, clen, poff, plen, f] => if isAbs && f ≤ 1 then some (.abs id ty coff clen poff plen (f == 1)) else none
  | _ => none

def parseDec (s : String) : Option (Option DecId) :=
  if s == "nil" then some none else s.toNat?.map some

/-- Prefix notation; returns the behaviour and the unread tokens. -/
def parseBeh : Nat → List String → Option (SBeh × List String)
  | 0, _ => none
  | _ + 1, [] => none
  | n + 1, t :: rest =>
    let actWith (mk : LSpec → SAct) : Option (SBeh × List String) :=
      match rest with
      | l :: rest' =>
        match parseLSpec l, parseBeh n rest' with
        | some ls, some (k, r) => some (.act (mk ls) k, r)
        | _, _ => none
      | [] => none
    match t with
    | "r0" => some (.ret false, rest)
    | "r1" => some (.ret true, rest)
    | "px" => some (.panic, rest)
    | "A" => actWith .add
    | "L" => actWith .setLink
    | "N" => actWith .setNet
    | "T" => actWith .setTrans
    | "P" => actWith .setApp
    | "E" => actWith .setErr
    | "t" => match parseBeh n rest with
             | some (k, r) => some (.act .trunc k, r)
             | none => none
    | "nr" => match rest with                       -- return p.NextDecoder(d)
              | d :: rest' => match parseDec d with
                              | some d => some (.next d (.ret false) (.ret true), rest')
                              | none => none
              | [] => none
    | "ni" => match rest with                       -- p.NextDecoder(d) with the result ignored
              | d :: rest' => match parseDec d, parseBeh n rest' with
                              | some d, some (k, r) => some (.next d k k, r)
                              | _, _ => none
              | [] => none
    | "n" => match rest with                        -- general: n d <kOk> <kErr>
             | d :: rest' =>
               match parseDec d, parseBeh n rest' with
               | some d, some (k1, r1) =>
                 match parseBeh n r1 with
                 | some (k2, r2) => some (.next d k1 k2, r2)
                 | none => none
               | _, _ => none
             | [] => none
    | _ => none

def parseAcc (ws : List String) : Option Acc :=
  match ws with
  | ["layers"] => some .layers
  | ["layer", t] => t.toNat?.map .layer
  | ["class", c] => ((c.splitOn ",").mapM String.toNat?).map .layerClass
  | ["link"] => some .link
  | ["net"] => some .net
  | ["trans"] => some .trans
  | ["app"] => some .app
  | ["err"] => some .err
  | ["string"] => some .string
  | ["dump"] => some .dump
  | _ => none

/-! printing -/

def z (len off : Nat) : Nat := if len == 0 then 0 else off

def layerTok (real : Bool) (l : Layer) : String :=
  let idS := if l.fail && l.id == 0 then "F" else toString l.id
  if real then s!"{idS}:{l.ty}:{l.clen}:{l.payLen}"
  else s!"{idS}:{l.ty}:{z l.clen l.coff}:{l.clen}:{z l.payLen l.poff}:{l.payLen}"

def optTok (real : Bool) : Option Layer → String
  | none => "-"
  | some l => layerTok real l

def layersTok (real : Bool) (ls : List Layer) : String := "[" ++ joinSp (ls.map (layerTok real)) ++ "]"

def sigOf (real : Bool) (p : Pkt) : String :=
  s!"L={layersTok real p.layers} lk={optTok real p.link} nw={optTok real p.net} tr={optTok real p.trans} ap={optTok real p.app} er={optTok real p.failure} tc={if p.truncated then 1 else 0}"

def memTok (len : Nat) : MemKind → String
  | .pool => "pool"
  | .copy => if len == 0 then "-" else "copy"
  | .alias => if len == 0 then "-" else "alias"

def bit (n k : Nat) : Bool := (n / k) % 2 == 1

def doNew (st : St) (slot opts : Nat) (first : Option DecId) (k : Nat) (real : Bool) : St × String :=
  match lookup k st.cbufs with
  | none => (st, "bad-op")
  | some cb =>
    match st.heap.bufs[cb]? with
    | none => (st, "bad-op")
    | some cbytes =>
      let lazy := bit opts 1
      let noCopy := bit opts 2
      let pool := bit opts 4
      let recover := !(bit opts 8)
      let src : View := { buf := cb, off := 0, len := cbytes.length }
      match newData st.heap noCopy pool src .brandNew with
      | none => (st, "bad-op")
      | some (h', dv, blk) =>
        let data := (h'.read dv).getD []
        let mk := memKind noCopy pool src.len
        let tab := tableOf st.scripts
        if lazy then
          let s : Slot := { lazy := true, recover := recover, real := real, built := true, st := newLazy data first, view := dv, pooled := blk.isSome }
          ({ st with heap := h', slots := upsert slot s st.slots }, s!"ok mem={memTok src.len mk} lazy")
        else
          match newEager tab fuelC recover data first with
          | .ok p =>
            let s : Slot := { lazy := false, recover := recover, real := real, built := true, st := { p := p, next := none }, view := dv, pooled := blk.isSome }
            ({ st with heap := h', slots := upsert slot s st.slots }, s!"ok mem={memTok src.len mk} {sigOf real p}")
          | .panic =>
            let s : Slot := { lazy := false, recover := recover, real := real, built := false, st := newLazy data none, view := dv, pooled := false }
            ({ st with heap := h', slots := upsert slot s st.slots }, "panic")
          | .diverge => ({ st with heap := h' }, "diverge")

def ansTok (real : Bool) (p : Pkt) : Ans → String
  | .layer l => "ok " ++ optTok real l
  | .layers ls => "ok " ++ layersTok real ls
  | .rendered _ _ => "ok " ++ sigOf real p
  | .panic => "panic"
  | .diverge => "diverge"

def stepPkt (st : St) (ws : List String) : St × String :=
  match ws with
  | ["reset"] => ({}, "ok")
  | "pkt" :: "dec" :: i :: toks =>
    match i.toNat?, parseBeh (toks.length + 1) toks with
    | some i, some (b, []) => ({ st with scripts := upsert i b st.scripts }, "ok")
    | _, _ => (st, "bad-op")
  | ["pkt", "buf", k, hex, _tail] =>   -- the tail only fills the spare capacity behind the input (not part of the packet)
    match k.toNat?, bytesOfHex hex with
    | some k, some bs =>
      let (h', b) := st.heap.alloc bs
      ({ st with heap := h', cbufs := upsert k b st.cbufs }, "ok")
    | _, _ => (st, "bad-op")
  | ["pkt", "buf", k, hex] =>
    match k.toNat?, bytesOfHex hex with
    | some k, some bs =>
      let (h', b) := st.heap.alloc bs
      ({ st with heap := h', cbufs := upsert k b st.cbufs }, "ok")
    | _, _ => (st, "bad-op")
  | ["pkt", "new", slot, opts, first, k] =>
    match slot.toNat?, opts.toNat?, parseDec first, k.toNat? with
    | some slot, some opts, some first, some k => doNew st slot opts first k false
    | _, _, _, _ => (st, "bad-op")
  | ["pkt", "rnew", slot, opts, _ltype, k] =>
    match slot.toNat?, opts.toNat?, k.toNat? with
    | some slot, some opts, some k => doNew st slot opts (some 0) k true
    | _, _, _ => (st, "bad-op")
  | ["pkt", "rnewx", opts, _ltype, k] =>
    match opts.toNat?, k.toNat? with
    | some opts, some k =>
      match (lookup k st.cbufs).bind (fun cb => st.heap.bufs[cb]?) with
      | some cbytes => (st, s!"ok mem={memTok cbytes.length (memKind (bit opts 2) (bit opts 4) cbytes.length)}")
      | none => (st, "bad-op")
    | _, _ => (st, "bad-op")
  | "pkt" :: "acc" :: slot :: rest =>
    match slot.toNat?.bind (fun s => (lookup s st.slots).map (fun x => (s, x))) with
    | none => (st, "bad-op")
    | some (sn, s) =>
      if !s.built then (st, "nopkt")
      else if s.disposed then (st, "disposed")
      else match rest with
      | ["trunc"] => (st, s!"ok {if s.st.p.truncated then 1 else 0}")
      | _ =>
        match parseAcc rest with
        | none => (st, "bad-op")
        | some a =>
          if s.lazy then
            let data := (st.heap.read s.view).getD []
            let lp : LPkt := { s.st with p := { s.st.p with data := data } }
            let r := lazyAcc (tableOf st.scripts) s.recover fuelC a lp
            ({ st with slots := upsert sn { s with st := r.1 } st.slots }, ansTok s.real r.1.p r.2)
          else (st, ansTok s.real s.st.p (evalEager a s.st.p))
  | ["pkt", "mut", k, off, v] =>
    match k.toNat?, off.toNat?, v.toNat? with
    | some k, some off, some v =>
      match lookup k st.cbufs with
      | some cb =>
        match st.heap.bufs[cb]? with
        | some b => if off < b.length && v < 256 then ({ st with heap := st.heap.write cb off [UInt8.ofNat v] }, "ok") else (st, "bad-op")
        | none => (st, "bad-op")
      | none => (st, "bad-op")
    | _, _, _ => (st, "bad-op")
  | ["pkt", "obs", slot] =>
    match slot.toNat?.bind (fun s => (lookup s st.slots).map (fun x => (s, x))) with
    | none => (st, "bad-op")
    | some (sn, s) =>
      if !s.built then (st, "nopkt")
      else if s.disposed then (st, "disposed")
      else
        let data := (st.heap.read s.view).getD []
        let lp : LPkt := { s.st with p := { s.st.p with data := data } }
        let r := if s.lazy then lazyAcc (tableOf st.scripts) s.recover fuelC .layers lp else (lp, .layers lp.p.layers)
        match r.2 with
        | .layers _ =>
          let o := observe st.heap s.view r.1.p
          let sl := (o.slices.getD []).map (fun cp => hexOfBytes cp.1 ++ "/" ++ hexOfBytes cp.2)
          ({ st with slots := upsert sn { s with st := r.1 } st.slots }, joinSp ("ok" :: hexOfBytes (o.data.getD []) :: sl))
        | .panic => ({ st with slots := upsert sn { s with st := r.1 } st.slots }, "panic")
        | _ => (st, "diverge")
  | ["pkt", "dispose", slot] =>
    match slot.toNat?.bind (fun s => (lookup s st.slots).map (fun x => (s, x))) with
    | none => (st, "bad-op")
    | some (sn, s) =>
      if s.pooled && !s.disposed then ({ st with slots := upsert sn { s with disposed := true } st.slots }, "ok")
      else (st, "bad-op")
  | "pkt" :: "conc" :: _ => (st, "ok")
  | _ => (st, "bad-op")

def main : IO Unit := run ({} : St) stepPkt
