import Driver.Common
import Gp.Model.Layers.Radius
/- Model driver for engine `lradius` (RADIUS codec; C19, C05, C06, C07).  Drives the `.fixed` variant
   of the model = the tree with proposed_fixes/lradius-{1,2} applied. -/
open Gp Gp.SBuf Gp.Radius Driver

structure St where
  cur  : RADIUS := RADIUS.fresh            -- the object re-used by `redec`
  pObj : RADIUS := RADIUS.fresh            -- the object owned by the DecodingLayerParser

def b01 (b : Bool) : String := if b then "1" else "0"

def boolOf (s : String) : Option Bool :=
  if s == "1" then some true else if s == "0" then some false else none

def natBelow (s : String) (bound : Nat) : Option Nat :=
  match s.toNat? with
  | some n => if n < bound then some n else none
  | none => none

/-- payload token: hex, `-`, or `z<n>x<hh>` (n copies of byte hh). -/
def payloadOf (s : String) : Option (List UInt8) :=
  if s.startsWith "z" then
    match (String.ofList (s.toList.drop 1)).splitOn "x" with
    | [n, hh] =>
      match n.toNat?, bytesOfHex hh with
      | some n, some [v] => if n ≤ 200000 then some (List.replicate n v) else none
      | _, _ => none
    | _ => none
  else bytesOfHex s

def renderOpt (o : Attr) : String := s!"{o.typ}:{o.length}:{hexOfBytes o.value}"

def renderOpts (os : List Attr) : String :=
  if os.isEmpty then "-" else ",".intercalate (os.map renderOpt)

def render (l : RADIUS) : String :=
  s!"code={l.code} id={l.identifier} len={l.length} auth={hexOfBytes l.authenticator} attrs={renderOpts l.attributes} contents={hexOfBytes l.contents} payload={hexOfBytes l.payload} next={l.nextLayerType}"

/-- option token `t:l:hex` -/
def optOf (s : String) : Option Attr :=
  match s.splitOn ":" with
  | [t, l, h] =>
    match natBelow t 256, natBelow l 256, bytesOfHex h with
    | some t, some l, some d => some { typ := t, length := l, value := d }
    | _, _, _ => none
  | _ => none

/-- option list token: `-` or `t:l:hex,t:l:hex,…`; `r<n>x<t:l:hex>` = n copies of one option. -/
def optsOf (s : String) : Option (List Attr) :=
  if s == "-" then some []
  else if s.startsWith "r" then
    match (String.ofList (s.toList.drop 1)).splitOn "x" with
    | [n, o] =>
      match n.toNat?, optOf o with
      | some n, some o => if n ≤ 3000 then some (List.replicate n o) else none
      | _, _ => none
    | _ => none
  else (s.splitOn ",").mapM optOf

/-- reply of a decode op: on an error the receiver is rendered too (what the failed call left behind). -/
def showDec (r : Res (DecOut RADIUS)) : String :=
  match r with
  | .ok o => if o.err then s!"err trunc={b01 o.trunc} | {render o.layer}" else s!"ok {render o.layer} trunc={b01 o.trunc}"
  | .err _ => "err"
  | .panic k => "panic " ++ k.toString

/-- the buffer histories of the `ser` op; `dirty<v>`: 1024 bytes of v appended, 1024 prepended, Clear -/
def bufOf (h : String) : Option SBuf :=
  if h == "fresh" then some (new 0 0)
  else if h.startsWith "dirty" then
    match natBelow (String.ofList (h.toList.drop 5)) 256 with
    | some v =>
      let junk := List.replicate 1024 (UInt8.ofNat v)
      some (clear (step (step (new 0 0) (.append junk)) (.prepend junk)))
    | none => none
  else if h.startsWith "sized" then
    match natBelow (String.ofList (h.toList.drop 5)) 100000 with
    | some n => some (new n n)
    | none => none
  else none

/-- the buffer SerializeLayers hands to the layer: cleared, payload serialized and pushed -/
def overPayload (p : List UInt8) : SBuf := pushLayer (serializePayload p (clear (new 0 0))) 2

/-- fields: code id length auth(16 bytes) attrs -/
def layerOf (a : List String) : Option RADIUS :=
  match a with
  | [code, ident, len, auth, attrs] =>
    match natBelow code 256, natBelow ident 256, natBelow len 65536, bytesOfHex auth, optsOf attrs with
    | some code, some ident, some len, some auth, some attrs =>
      if auth.length ≠ 16 then none else
      some { RADIUS.fresh with code := code, identifier := ident, length := len, authenticator := auth,
                               attributes := attrs }
    | _, _, _, _, _ => none
  | _ => none

def againStr (r : Res (SerOut RADIUS)) (bytes : List UInt8) : String :=
  match r with
  | .ok o2 => if o2.err then "err" else if contents o2.buf = bytes then "same" else "diff"
  | .err _ => "err"
  | .panic k => "panic-" ++ k.toString

def rt (l : RADIUS) (p : List UInt8) : String :=
  match l.serializeTo .fixed (overPayload p) true true with
  | .panic k => "panic " ++ k.toString
  | .err _ => "ser-err"
  | .ok o =>
    if o.err then "ser-err" else
    let bytes := contents o.buf
    let d := RADIUS.fresh.decodeFromBytes .fixed { vis := bytes, tail := [] }
    let again :=
      match d with
      | .ok od => if od.err then "none" else againStr (od.layer.serializeTo .fixed (overPayload p) true true) bytes
      | _ => "none"
    s!"ok bytes={hexOfBytes bytes} | {showDec d} | again={again}"

def showAct : Act → String
  | .setTruncated => "trunc"
  | .addLayer t => s!"add:{t}"
  | .setApplicationLayer => "app"

def showTail : Tail → String
  | .fail => "fail"
  | .done => "done"
  | .nextLayerType t => s!"lt:{t}"

def showBeh (b : Beh) : String :=
  let acts := if b.acts.isEmpty then "-" else ",".intercalate (b.acts.map showAct)
  s!"acts={acts} tail={showTail b.tail}"

def showPb (r : Res (Beh × Option RADIUS)) : String :=
  match r with
  | .ok (b, some l) => s!"{showBeh b} | {render l}"
  | .ok (b, none) => showBeh b
  | .err _ => "err"
  | .panic k => "panic " ++ k.toString

def showPkt (r : Res (Beh × Option RADIUS)) : String :=
  match r with
  | .ok (b, some l) =>
    -- with a non-empty payload an EAP decoder runs behind this layer: the packet's flag is not this layer's alone
    let tr := if l.nextLayerType = LayerTypeZero then b01 (b.acts.contains .setTruncated) else "x"
    s!"ok {render l} trunc={tr}"
  | .ok (b, none) => s!"fail trunc={b01 (b.acts.contains .setTruncated)}"
  | .err _ => "err"
  | .panic k => "panic " ++ k.toString

def showDlp (r : Res DlpOut) : String :=
  match r with
  | .panic k => "panic " ++ k.toString
  | .err _ => "err"
  | .ok o =>
    let dec := if o.decoded.isEmpty then "-" else ",".intercalate (o.decoded.map toString)
    s!"code={o.code} decoded={dec} trunc={b01 o.trunc} | {render o.layer}"

def keep (dflt : RADIUS) (r : Res (DecOut RADIUS)) : RADIUS :=
  match r with | .ok o => o.layer | _ => dflt

def stepLradius (st : St) (ws : List String) : St × String :=
  match ws with
  | ["reset"] => ({}, "ok")
  | ["lradius", "dec", extra, fh, h] =>
    match extra.toNat?, bytesOfHex fh, bytesOfHex h with
    | some n, some foreign, some data =>
      if foreign.length ≠ n then (st, "bad-op") else
      let r := RADIUS.fresh.decodeFromBytes .fixed { vis := data, tail := foreign }
      ({ st with cur := keep RADIUS.fresh r }, showDec r)
    | _, _, _ => (st, "bad-op")
  | ["lradius", "redec", h] =>
    match bytesOfHex h with
    | some data =>
      let r := st.cur.decodeFromBytes .fixed { vis := data, tail := [] }
      ({ st with cur := keep st.cur r }, showDec r)
    | none => (st, "bad-op")
  | "lradius" :: "ser" :: fix :: csum :: hist :: rest =>
    if rest.length ≠ 6 then (st, "bad-op") else
    match boolOf fix, boolOf csum, bufOf hist, layerOf (rest.take 5), payloadOf (rest.getD 5 "") with
    | some fix, some csum, some b, some l, some p =>
      match l.serializeTo .fixed (serializePayload p b) fix csum with
      | .ok o =>
        if o.err then (st, s!"err len={o.layer.length}")
        else (st, s!"ok bytes={hexOfBytes (contents o.buf)} len={o.layer.length}")
      | .err _ => (st, "err")
      | .panic k => (st, "panic " ++ k.toString)
    | _, _, _, _, _ => (st, "bad-op")
  | "lradius" :: "rt" :: rest =>
    if rest.length ≠ 6 then (st, "bad-op") else
    match layerOf (rest.take 5), payloadOf (rest.getD 5 "") with
    | some l, some p => (st, rt l p)
    | _, _ => (st, "bad-op")
  | ["lradius", "rtdec", h] =>
    match bytesOfHex h with
    | some data =>
      match RADIUS.fresh.decodeFromBytes .fixed { vis := data, tail := [] } with
      | .ok o => if o.err then (st, "dec-err") else (st, rt o.layer [])
      | .err _ => (st, "dec-err")
      | .panic k => (st, "panic " ++ k.toString)
    | none => (st, "bad-op")
  | ["lradius", "pb", h] =>
    match bytesOfHex h with
    | some data => (st, showPb (decodeRADIUSFn .fixed { vis := data, tail := [] }))
    | none => (st, "bad-op")
  | ["lradius", "pkt", mode, extra, fh, h] =>
    match extra.toNat?, bytesOfHex fh, bytesOfHex h with
    | some n, some foreign, some data =>
      if foreign.length ≠ n ∨ ¬ (mode == "copy" ∨ mode == "nocopy" ∨ mode == "lazy" ∨ mode == "pool") then (st, "bad-op") else
      if data.isEmpty then (st, "empty") else
      -- NewPacket clamps the capacity of the packet buffer (data[:len:len]): the first decoder sees cap = len
      (st, showPkt (decodeRADIUSFn .fixed { vis := data, tail := [] }))
    | _, _, _ => (st, "bad-op")
  | ["lradius", "dlp", h] =>
    match bytesOfHex h with
    | some data =>
      let r := dlpDecodeLayers .fixed RADIUS.fresh { vis := data, tail := [] }
      let st' := match r with
        | .ok o => { st with pObj := o.layer }
        | _ => { st with pObj := RADIUS.fresh }
      (st', showDlp r)
    | none => (st, "bad-op")
  | ["lradius", "redlp", h] =>
    match bytesOfHex h with
    | some data =>
      let r := dlpDecodeLayers .fixed st.pObj { vis := data, tail := [] }
      let st' := match r with
        | .ok o => { st with pObj := o.layer }
        | _ => st
      (st', showDlp r)
    | none => (st, "bad-op")
  | ["lradius", "len", opts] =>
    match optsOf opts with
    | some os =>
      match ({ RADIUS.fresh with attributes := os }).len .fixed with
      | some n => (st, s!"ok {n}")
      | none => (st, "err")
    | none => (st, "bad-op")
  | _ => (st, "bad-op")

def main : IO Unit := run ({} : St) stepLradius
