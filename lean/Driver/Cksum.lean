import Driver.Common
import Gp.Model.ChecksumEmit
/- Model driver for engine `cksum` (C08).  Line protocol: see notes/cksum.md. -/
open Gp Gp.Cksum Gp.CksumEmit Driver

/-- what the last `emit` produced: protocol, attached network layer (if any), the bytes -/
structure St where
  proto : String := ""
  net : Option Net := none
  bytes : Bytes := []

/-- bytes token: `-`, plain hex, or `r<count>x<hex>+<hex|->` (pattern repeated count times, then a tail) -/
def bytesSpec (s : String) : Option Bytes :=
  if s.startsWith "r" then
    match ((s.drop 1).toString).splitOn "x" with
    | [cnt, rest] =>
      match rest.splitOn "+" with
      | [pat, tail] =>
        match cnt.toNat?, bytesOfHex pat, bytesOfHex tail with
        | some n, some p, some t =>
          if n * p.length + t.length > 1100000 then none
          else some ((List.replicate n p).flatten ++ t)
        | _, _, _ => none
      | _ => none
    | _ => none
  else bytesOfHex s

def fnv32 (bs : Bytes) : Nat :=
  bs.foldl (fun h b => ((h ^^^ b.toNat) * 16777619) % 4294967296) 2166136261

/-- canonical rendering of a byte string: full hex up to 2048 bytes, otherwise head + length + FNV-1a -/
def showBytes (bs : Bytes) : String :=
  if bs.length ≤ 2048 then hexOfBytes bs
  else hexOfBytes (bs.take 64) ++ "..len=" ++ toString bs.length ++ ",fnv=" ++ toString (fnv32 bs)

def parseNet (ipver src dst : String) : Option (Option Net) :=
  if ipver == "-" then (if src == "-" ∧ dst == "-" then some none else none)
  else match bytesOfHex src, bytesOfHex dst with
    | some s, some d =>
      if ipver == "4" then (if s.length = 4 ∧ d.length = 4 then some (some (.v4 s d)) else none)
      else if ipver == "6" then (if s.length = 16 ∧ d.length = 16 then some (some (.v6 s d)) else none)
      else none
    | _, _ => none

def showVer (r : VerRes) : String :=
  (if r.valid then "valid " else "invalid ") ++ toString r.correct ++ " " ++ toString r.actual

def showRes : Res VerRes → String
  | .ok r => showVer r
  | .err _ => "err"
  | .panic k => "panic " ++ k.toString

def showOpt : Option (Res VerRes) → String
  | none => "err"
  | some r => showRes r

/-- VerifyChecksum of the layer decoded from `bytes` -/
def verifyProto (proto : String) (net : Option Net) (bytes : Bytes) : Option String :=
  match proto, net with
  | "ip4", none => some (showOpt (verifyIp4 bytes))
  | "tcp", some n =>
    some (match tcpDelim bytes with
      | .err => "err"
      | .unmodelled => "unmodelled"
      | .ok => showRes (verifyTcp n bytes))
  | "udp", some n => some (showOpt (verifyUdp n bytes))
  | "icmp4", none => some (showOpt (verifyIcmp4 bytes))
  | "icmp6", some n => some (showOpt (verifyIcmp6 n bytes))
  | "gre", none => some (showOpt (verifyGre bytes))
  | _, _ => none

def ipProtoNum (proto : String) : Nat :=
  if proto == "tcp" then 6 else if proto == "udp" then 17 else if proto == "icmp4" then 1
  else if proto == "icmp6" then 58 else 47

/-- VerifyChecksum outcome of the transport layer decoded from `seg` (none: decoding fails) -/
def l4Result (proto : String) (net : Option Net) (seg : Bytes) : Option (Res VerRes) :=
  match proto, net with
  | "tcp", some n => (match tcpDelim seg with | .ok => some (verifyTcp n seg) | _ => none)
  | "udp", some n => verifyUdp n seg
  | "icmp4", none => verifyIcmp4 seg
  | "icmp6", some n => verifyIcmp6 n seg
  | "gre", none => verifyGre seg
  | _, _ => none

/-- Packet.VerifyChecksums on [IPv4|IPv6 header built by the serializer][segment] -/
def pverify (proto : String) (net : Option Net) (src4 dst4 : Bytes) (seg : Bytes) : String :=
  -- the network layer used on the wire: the attached one, or (for icmp4/gre) a fixed IPv4 header
  let wire : Net := match net with
    | some n => n
    | none => .v4 src4 dst4
  let ipLayer : Option (Res VerRes) :=
    match wire with
    | .v4 s d =>
      let hdr := emitIp4 { tos := 0, id := 0, ff := 0, ttl := 64, proto := ipProtoNum proto, src := s, dst := d, opts := [] } seg
      (match verifyIp4 hdr with
       | some r => some r
       | none => some (.err "ip4"))
    | .v6 _ _ => none     -- IPv6 has no checksum: not a LayerWithChecksum
  match verifyProto proto net seg with
  | none => "bad-op"
  | some "err" => "err"
  | some "unmodelled" => "unmodelled"
  | some _ =>
    match packetVerify [ipLayer, l4Result proto net seg] 0 with
    | .ok ms =>
      joinSp (["ok", toString ms.length] ++ ms.map (fun (i, c, a) => toString i ++ ":" ++ toString c ++ ":" ++ toString a))
    | _ => "err"

def nat? (s : String) : Option Nat := s.toNat?

def bool? (s : String) : Option Bool := if s == "0" then some false else if s == "1" then some true else none

def optsOf (nnop okind : Nat) (odata : Bytes) : Option Bytes :=
  if okind ≥ 256 ∨ okind = 1 ∨ nnop > 64 ∨ odata.length > 64 then none
  else
    let o := optBytes nnop okind odata
    if o.length > 40 then none else some o

def emitReply (st : St) (proto : String) (net : Option Net) (off : Option Nat) (bytes : Bytes) : St × String :=
  let ck := match off with
    | none => "none"
    | some o => match get16At? bytes o with
      | some v => toString v
      | none => "none"
  ({ st with proto := proto, net := net, bytes := bytes }, "ok " ++ ck ++ " " ++ showBytes bytes)

def stepCksum (st : St) (ws : List String) : St × String :=
  match ws with
  | ["reset"] => ({}, "ok")
  | ["cksum", "fold", c] =>
    match nat? c with
    | some c => if c < W32 then (st, "ok " ++ toString (fold c)) else (st, "bad-op")
    | none => (st, "bad-op")
  | ["cksum", "foldsweep", lo, hi] =>
    -- the implementation side compares the real FoldChecksum with the closed form on [lo, hi);
    -- on the model side the closed form holds for every c < 2^32 by theorem C08.fold_spec.
    match nat? lo, nat? hi with
    | some lo, some hi => if lo ≤ hi ∧ hi ≤ W32 then (st, "ok") else (st, "bad-op")
    | _, _ => (st, "bad-op")
  | ["cksum", "sum", d, c] =>
    match bytesSpec d, nat? c with
    | some d, some c => if c < W32 then (st, "ok " ++ toString (compute d c)) else (st, "bad-op")
    | _, _ => (st, "bad-op")
  | ["cksum", "pseudo4", s, d] =>
    match bytesOfHex s, bytesOfHex d with
    | some s, some d => if s.length = 4 ∧ d.length = 4 then (st, "ok " ++ toString (pseudo4 s d)) else (st, "bad-op")
    | _, _ => (st, "bad-op")
  | ["cksum", "pseudo6", s, d] =>
    match bytesOfHex s, bytesOfHex d with
    | some s, some d => if s.length = 16 ∧ d.length = 16 then (st, "ok " ++ toString (pseudo6 s d 0)) else (st, "bad-op")
    | _, _ => (st, "bad-op")
  | ["cksum", "emit", "ip4", "-", s, d, tos, id, ff, ttl, pr, nnop, okind, odata, pl] =>
    match bytesOfHex s, bytesOfHex d, [tos, id, ff, ttl, pr, nnop, okind].mapM nat?, bytesOfHex odata, bytesSpec pl with
    | some s, some d, some [tos, id, ff, ttl, pr, nnop, okind], some odata, some pl =>
      match optsOf nnop okind odata with
      | some o =>
        if s.length = 4 ∧ d.length = 4 ∧ tos < 256 ∧ id < 65536 ∧ ff < 65536 ∧ ttl < 256 ∧ pr < 256 then
          emitReply st "ip4" none (some 10) (emitIp4 { tos := tos, id := id, ff := ff, ttl := ttl, proto := pr, src := s, dst := d, opts := o } pl)
        else (st, "bad-op")
      | none => (st, "bad-op")
    | _, _, _, _, _ => (st, "bad-op")
  | ["cksum", "emit", "ip4p", "-", s, d, tos, id, ff, ttl, pr, nnop, okind, odata, pad, pl] =>
    -- IPv4 with a Padding field: `copy(bytes[curLocation:], ip.Padding)` overlays the alignment area behind the options
    match bytesOfHex s, bytesOfHex d, [tos, id, ff, ttl, pr, nnop, okind].mapM nat?, bytesOfHex odata, bytesOfHex pad, bytesSpec pl with
    | some s, some d, some [tos, id, ff, ttl, pr, nnop, okind], some odata, some pad, some pl =>
      match optsOf nnop okind odata with
      | some o =>
        -- getIPv4OptionSize counts len(Padding) too: options, then the padding bytes, then zeros up to a multiple of 4
        let raw := nnop + (if okind = 0 then 0 else 2 + odata.length)
        let o' := o.take raw ++ pad ++ zeros ((4 - (raw + pad.length) % 4) % 4)
        if s.length = 4 ∧ d.length = 4 ∧ tos < 256 ∧ id < 65536 ∧ ff < 65536 ∧ ttl < 256 ∧ pr < 256 ∧ pad.length ≤ 8 ∧ o'.length ≤ 40 then
          emitReply st "ip4" none (some 10) (emitIp4 { tos := tos, id := id, ff := ff, ttl := ttl, proto := pr, src := s, dst := d, opts := o' } pl)
        else (st, "bad-op")
      | none => (st, "bad-op")
    | _, _, _, _, _, _ => (st, "bad-op")
  | ["cksum", "emit", "tcp", v, s, d, sp, dp, sq, ak, fl, win, urg, nnop, okind, odata, pl] =>
    match parseNet v s d, [sp, dp, sq, ak, fl, win, urg, nnop, okind].mapM nat?, bytesOfHex odata, bytesSpec pl with
    | some (some net), some [sp, dp, sq, ak, fl, win, urg, nnop, okind], some odata, some pl =>
      match optsOf nnop okind odata with
      | some o =>
        if sp < 65536 ∧ dp < 65536 ∧ sq < W32 ∧ ak < W32 ∧ fl < 512 ∧ win < 65536 ∧ urg < 65536 ∧ okind ≠ 30 then
          emitReply st "tcp" (some net) (some 16) (emitTcp net { sport := sp, dport := dp, seq := sq, ack := ak, flags := fl, window := win, urgent := urg, opts := o } pl)
        else (st, "bad-op")
      | none => (st, "bad-op")
    | _, _, _, _ => (st, "bad-op")
  | ["cksum", "emit", "udp", v, s, d, sp, dp, pl] =>
    match parseNet v s d, nat? sp, nat? dp, bytesSpec pl with
    | some (some net), some sp, some dp, some pl =>
      if sp < 65536 ∧ dp < 65536 then emitReply st "udp" (some net) (some 6) (emitUdp net sp dp pl) else (st, "bad-op")
    | _, _, _, _ => (st, "bad-op")
  | ["cksum", "emit", "icmp4", "-", "-", "-", ty, co, id, sq, pl] =>
    match [ty, co, id, sq].mapM nat?, bytesSpec pl with
    | some [ty, co, id, sq], some pl =>
      if ty < 256 ∧ co < 256 ∧ id < 65536 ∧ sq < 65536 then emitReply st "icmp4" none (some 2) (emitIcmp4 ty co id sq pl) else (st, "bad-op")
    | _, _ => (st, "bad-op")
  | ["cksum", "emit", "icmp6", v, s, d, ty, co, pl] =>
    match parseNet v s d, nat? ty, nat? co, bytesSpec pl with
    | some (some net), some ty, some co, some pl =>
      if ty < 256 ∧ co < 256 then emitReply st "icmp6" (some net) (some 2) (emitIcmp6 net ty co pl) else (st, "bad-op")
    | _, _, _, _ => (st, "bad-op")
  | ["cksum", "emit", "gre", "-", "-", "-", c, k, s, a, rc, fl, ver, pr, off, key, sq, ak, pl] =>
    match [c, k, s, a].mapM bool?, [rc, fl, ver, pr, off, key, sq, ak].mapM nat?, bytesSpec pl with
    | some [c, k, s, a], some [rc, fl, ver, pr, off, key, sq, ak], some pl =>
      if rc < 8 ∧ fl < 32 ∧ ver < 8 ∧ pr < 65536 ∧ off < 65536 ∧ key < W32 ∧ sq < W32 ∧ ak < W32 then
        emitReply st "gre" none (if c then some 4 else none)
          (emitGre { c := c, k := k, s := s, a := a, recur := rc, flags := fl, ver := ver, proto := pr, offset := off, key := key, seq := sq, ack := ak } pl)
      else (st, "bad-op")
    | _, _, _ => (st, "bad-op")
  | ["cksum", "verify", proto, v, s, d, b] =>
    match parseNet v s d, bytesSpec b with
    | some net, some b =>
      match verifyProto proto net b with
      | some r => (st, r)
      | none => (st, "bad-op")
    | _, _ => (st, "bad-op")
  | ["cksum", "vlast"] =>
    match verifyProto st.proto st.net st.bytes with
    | some r => (st, r)
    | none => (st, "bad-op")
  | ["cksum", "flip", i] =>
    match nat? i with
    | some i =>
      if i < 8 * st.bytes.length then
        match verifyProto st.proto st.net (flipBit st.bytes i) with
        | some r => (st, r)
        | none => (st, "bad-op")
      else (st, "bad-op")
    | none => (st, "bad-op")
  | ["cksum", "pverify", i] =>
    if st.proto == "" ∨ st.proto == "ip4" then (st, "bad-op") else
    match (if i == "-" then some st.bytes else
            match nat? i with
            | some i => if i < 8 * st.bytes.length then some (flipBit st.bytes i) else none
            | none => none) with
    | some seg => if seg.length > 60000 then (st, "bad-op") else (st, pverify st.proto st.net [10, 0, 0, 1] [10, 0, 0, 2] seg)
    | none => (st, "bad-op")
  | _ => (st, "bad-op")

def main : IO Unit := run ({} : St) stepCksum
