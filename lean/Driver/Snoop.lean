import Driver.Common
import Gp.Model.Snoop
/- Model driver for engine `snoop` (C15): snoop reader. -/
open Gp Gp.Pcap Gp.Snoop Driver

structure St where
  file : List UInt8 := []

def stopStr : Stop → String
  | .eof => "eof" | .ueof => "ueof" | .ioerr => "ioerr"

def outStr : Out → String
  | .pkt p => s!"p {p.sec} {p.nsec} {p.caplen} {p.len} {hexOfBytes p.data}"
  | .stop k => stopStr k
  | .err => "err"
  | .panic k => "panic " ++ k.toString

def isFinal : Out → Bool
  | .pkt _ => false | .err => false | _ => true

def parsePattern (s : String) : Option (Array Bool) :=
  if s.isEmpty then none else
  s.toList.foldl (fun acc c => match acc with
    | none => none
    | some a => if c == 'z' then some (a.push true) else if c == 'c' then some (a.push false) else none) (some #[])

partial def trace (pat : Array Bool) (i : Nat) (r : Reader) (acc : Array Out) : Array Out :=
  let zc := pat[i % pat.size]!
  let st := read zc r
  let acc := acc.push st.out
  if isFinal st.out || i > 2000000 then acc else trace pat (i + 1) st.r acc

def uniform (pat : Array Bool) : Option Bool :=
  if pat.all (· == true) then some true else if pat.all (· == false) then some false else none

def consistent (pat : Array Bool) (r : Reader) (tr : Array Out) : Bool :=
  match uniform pat with
  | some zc =>
    let (ps, o) := readAll zc r
    let pre := tr.toList.takeWhile (fun o => match o with | .pkt _ => true | _ => false)
    let nxt := tr.toList.drop pre.length |>.head?
    pre == ps.map Out.pkt && nxt == some o
  | none => true

def doRead (pat : Array Bool) (s : Stream) : String :=
  match openReader s with
  | .fail o => "open " ++ outStr o
  | .ok r _ =>
    let tr := trace pat 0 r #[]
    let lt := match linkTypeOf r.linkType with | some l => toString l | none => "none"
    let hdr := s!"hdr {r.linkType} {lt}"
    let body := tr.foldl (fun acc o => acc ++ " | " ++ outStr o) hdr
    if consistent pat r tr then body else body ++ " MODEL-INCONSISTENT"

def stepSnoop (st : St) (ws : List String) : St × String :=
  match ws with
  | ["reset"] => ({}, "ok")
  | ["snoop", "file", hx] =>
    match bytesOfHex hx with
    | some f => ({ file := f }, "ok")
    | none => (st, "bad-op")
  | ["snoop", "read", pat, cut, term] =>
    match parsePattern pat, cut.toNat? with
    | some pat, some cut =>
      if term == "eof" || term == "fail" then
        (st, doRead pat { data := st.file.take cut, fail := term == "fail" })
      else (st, "bad-op")
    | _, _ => (st, "bad-op")
  | ["snoop", "readhex", pat, hx] =>
    match parsePattern pat, bytesOfHex hx with
    | some pat, some f => ({ file := f }, doRead pat { data := f, fail := false })
    | _, _ => (st, "bad-op")
  | _ => (st, "bad-op")

def main : IO Unit := run ({} : St) stepSnoop
