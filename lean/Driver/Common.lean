/-
  Line-protocol plumbing shared by all model drivers (DESIGN.md App. A).
  One operation per line in, one reply line out.  Core Lean only.
-/
namespace Driver

def hexDigit (n : Nat) : Char :=
  if n < 10 then Char.ofNat (48 + n) else Char.ofNat (87 + n)

def hexOfBytes (bs : List UInt8) : String :=
  if bs.isEmpty then "-" else
  String.ofList (bs.foldr (fun b acc => hexDigit (b.toNat / 16) :: hexDigit (b.toNat % 16) :: acc) [])

def hexVal (c : Char) : Option Nat :=
  if '0' ≤ c ∧ c ≤ '9' then some (c.toNat - 48)
  else if 'a' ≤ c ∧ c ≤ 'f' then some (c.toNat - 87)
  else if 'A' ≤ c ∧ c ≤ 'F' then some (c.toNat - 55)
  else none

def bytesOfHexChars : List Char → Option (List UInt8)
  | [] => some []
  | [_] => none
  | a :: b :: rest => do
    let x ← hexVal a
    let y ← hexVal b
    let r ← bytesOfHexChars rest
    pure (UInt8.ofNat (x * 16 + y) :: r)

/-- `-` is the empty byte string. A malformed token is `none` (the driver answers bad-op). -/
def bytesOfHex (s : String) : Option (List UInt8) :=
  if s == "-" then some [] else bytesOfHexChars s.toList

def words (line : String) : List String :=
  (line.splitOn " ").filter (fun w => w != "") |>.map (fun w => (w.replace "\n" "").replace "\r" "")
    |>.filter (fun w => w != "")

def natList (ws : List String) : Option (List Nat) := ws.mapM String.toNat?

def intOf (s : String) : Option Int := s.toInt?

partial def loop {σ : Type} (h : IO.FS.Stream) (out : IO.FS.Stream) (step : σ → List String → σ × String) (st : σ) : IO Unit := do
  let line ← h.getLine
  if line.isEmpty then
    out.flush
    return ()
  let ws := words line
  match ws with
  | [] => loop h out step st
  | w :: _ =>
    if w.startsWith "#" then loop h out step st
    else
      let (st', reply) := step st ws
      out.putStrLn reply
      loop h out step st'

def run {σ : Type} (init : σ) (step : σ → List String → σ × String) : IO Unit := do
  let stdin ← IO.getStdin
  let stdout ← IO.getStdout
  loop stdin stdout step init

def joinSp (xs : List String) : String := " ".intercalate xs

end Driver
