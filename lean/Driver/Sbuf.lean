import Driver.Common
import Gp.Model.SBuf
/- Model driver for engine `sbuf` (C18). -/
open Gp Gp.SBuf Driver

structure St where
  b : SBuf := new 0 0
  slots : Array Win := #[]

def showBytes (b : SBuf) : String := "ok " ++ hexOfBytes (contents b)

def stepSbuf (st : St) (ws : List String) : St × String :=
  match ws with
  | ["reset"] => ({}, "ok")
  | ["sbuf", "new", p, q] =>
    match p.toNat?, q.toNat? with
    | some p, some q => let b := new p q; ({ b := b, slots := #[] }, showBytes b)
    | _, _ => (st, "bad-op")
  | ["sbuf", "prepend", n, f] =>
    match n.toNat?, bytesOfHex f with
    | some n, some vs =>
      if vs.length = n then
        let (b', w) := prepend st.b n
        let b'' := fill b' w vs
        ({ b := b'', slots := st.slots.push w }, showBytes b'')
      else (st, "bad-op")
    | _, _ => (st, "bad-op")
  | ["sbuf", "append", n, f] =>
    match n.toNat?, bytesOfHex f with
    | some n, some vs =>
      if vs.length = n then
        let (b', w) := append st.b n
        let b'' := fill b' w vs
        ({ b := b'', slots := st.slots.push w }, showBytes b'')
      else (st, "bad-op")
    | _, _ => (st, "bad-op")
  | ["sbuf", "rawprepend", n] =>
    match n.toNat? with
    | some n => let (b', w) := prepend st.b n; ({ b := b', slots := st.slots.push w }, showBytes b')
    | none => (st, "bad-op")
  | ["sbuf", "rawappend", n] =>
    match n.toNat? with
    | some n => let (b', w) := append st.b n; ({ b := b', slots := st.slots.push w }, showBytes b')
    | none => (st, "bad-op")
  | ["sbuf", "clear"] => let b := clear st.b; ({ st with b := b }, showBytes b)
  | ["sbuf", "write", s, i, v] =>
    match s.toNat?, i.toNat?, v.toNat? with
    | some s, some i, some v =>
      match st.slots[s]? with
      | some w =>
        if v < 256 then
          match write st.b w i (UInt8.ofNat v) with
          | .ok b => ({ st with b := b }, showBytes b)
          | .err _ => (st, "err")
          | .panic k => (st, "panic " ++ k.toString)
        else (st, "bad-op")
      | none => (st, "bad-op")
    | _, _, _ => (st, "bad-op")
  | ["sbuf", "push", t] =>
    match t.toInt? with
    | some t => ({ st with b := pushLayer st.b t }, "ok")
    | none => (st, "bad-op")
  | "sbuf" :: "stack" :: specs =>
    -- scripted SerializableLayers, outermost first: <type>:<hdrlen>:<1|0>
    let parse (w : String) : Option Ser :=
      match w.splitOn ":" with
      | [t, h, o] =>
        match t.toNat?, h.toNat?, o.toNat? with
        | some t, some h, some o =>
          if o ≤ 1 then
            some { typ := Int.ofNat t,
                   hdr := fun p => (List.range h).map (fun j => UInt8.ofNat ((t * 16 + j + p.length) % 256)),
                   ok := fun _ => o == 1 }
          else none
        | _, _, _ => none
      | _ => none
    match specs.mapM parse with
    | none => (st, "bad-op")
    | some ls =>
      let (r, b', obs) := serializeLayersObs st.b ls
      let tag := match r with | .ok _ => "ok" | .err _ => "err" | .panic k => "panic " ++ k.toString
      let showL (l : List Int) : String := if l.isEmpty then "-" else ",".intercalate (l.map toString)
      ({ b := b', slots := #[] },
       joinSp [tag, "L=" ++ showL b'.layers, "O=" ++ ";".intercalate (obs.map showL), "B=" ++ hexOfBytes (contents b')])
  | ["sbuf", "layers"] => (st, joinSp ("ok" :: st.b.layers.map toString))
  | ["sbuf", "bytes"] => (st, showBytes st.b)
  | _ => (st, "bad-op")

def main : IO Unit := run ({} : St) stepSbuf
