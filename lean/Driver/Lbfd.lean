import Driver.Common
import Gp.Model.Layers.Bfd
/- Model driver for engine `lbfd` (BFD control packet codec; C19, C05, C06, C07). -/
open Gp Gp.SBuf Gp.Bfd Driver

structure St where
  bfd  : BFD := BFD.fresh                -- the object re-used by `redec`
  pBfd : BFD := BFD.fresh                -- the object owned by the DecodingLayerParser

def b01 (b : Bool) : String := if b then "1" else "0"

def boolOf (s : String) : Option Bool :=
  if s == "1" then some true else if s == "0" then some false else none

def natBelow (s : String) (bound : Nat) : Option Nat :=
  match s.toNat? with
  | some n => if n < bound then some n else none
  | none => none

/-- byte-string token: hex, `-`, or `z<n>x<hh>` (n copies of byte hh). -/
def payloadOf (s : String) : Option (List UInt8) :=
  if s.startsWith "z" then
    match (String.ofList (s.toList.drop 1)).splitOn "x" with
    | [n, hh] =>
      match n.toNat?, bytesOfHex hh with
      | some n, some [v] => if n ≤ 200000 then some (List.replicate n v) else none
      | _, _ => none
    | _ => none
  else bytesOfHex s

/-- authentication header token: `-` (nil pointer) or `type:key:seq:data`. -/
def authOf (s : String) : Option (Option AuthHeader) :=
  if s == "-" then some none else
  match s.splitOn ":" with
  | [t, k, q, d] =>
    match natBelow t 256, natBelow k 256, natBelow q 4294967296, payloadOf d with
    | some t, some k, some q, some d => some (some { authType := t, keyID := k, sequenceNumber := q, data := d })
    | _, _, _, _ => none
  | _ => none

def renderAuth : Option AuthHeader → String
  | none => "-"
  | some h => s!"{h.authType}:{h.keyID}:{h.sequenceNumber}:{hexOfBytes h.data}"

def renderBfd (l : BFD) : String :=
  s!"ver={l.version} diag={l.diagnostic} state={l.state} p={b01 l.poll} f={b01 l.final} c={b01 l.controlPlaneIndependent} a={b01 l.authPresent} d={b01 l.demand} m={b01 l.multipoint} mult={l.detectMultiplier} my={l.myDiscriminator} your={l.yourDiscriminator} tx={l.desiredMinTxInterval} rx={l.requiredMinRxInterval} echo={l.requiredMinEchoRxInterval} auth={renderAuth l.authHeader} contents={hexOfBytes l.contents} payload={hexOfBytes l.payload} next={l.nextLayerType} len={l.length}"

/-- reply of a decode op: on an error the receiver is rendered too (what the failed call left behind). -/
def showDec (r : Res (DecOut BFD)) : String :=
  match r with
  | .ok o => if o.err then s!"err trunc={b01 o.trunc} | {renderBfd o.layer}" else s!"ok {renderBfd o.layer} trunc={b01 o.trunc}"
  | .err _ => "err"
  | .panic k => "panic " ++ k.toString

/-- the buffer histories of the `ser` op -/
def bufOf (h : String) : Option SBuf :=
  if h == "fresh" then some (new 0 0)
  else if h.startsWith "dirty" then
    match natBelow (String.ofList (h.toList.drop 5)) 256 with
    | some v =>
      let junk := List.replicate 64 (UInt8.ofNat v)
      some (clear (step (step (new 0 0) (.append junk)) (.prepend junk)))
    | none => none
  else if h.startsWith "sized" then
    match natBelow (String.ofList (h.toList.drop 5)) 100000 with
    | some n => some (new n n)
    | none => none
  else none

/-- the buffer SerializeLayers hands to the layer: cleared, payload serialized and pushed -/
def overPayload (p : List UInt8) : SBuf := pushLayer (serializePayload p (clear (new 0 0))) 2

def againStr (r : Res (SerOut BFD)) (bytes : List UInt8) : String :=
  match r with
  | .ok o2 => if o2.err then "err" else if contents o2.buf = bytes then "same" else "diff"
  | .err _ => "err"
  | .panic k => "panic-" ++ k.toString

def rtBfd (l : BFD) (p : List UInt8) : String :=
  match l.serializeTo (overPayload p) true true with
  | .panic k => "panic " ++ k.toString
  | .err _ => "ser-err"
  | .ok o =>
    if o.err then "ser-err" else
    let bytes := contents o.buf
    let d := BFD.fresh.decodeFromBytes { vis := bytes, tail := [] }
    let again :=
      match d with
      | .ok od => if od.err then "none" else againStr (od.layer.serializeTo (overPayload od.layer.payload) true true) bytes
      | _ => "none"
    s!"ok bytes={hexOfBytes bytes} | {showDec d} | again={again}"

def showAct : Act → String
  | .setTruncated => "trunc"
  | .addLayer t => s!"add:{t}"
  | .setApplicationLayer => "app"

def showTail : Tail → String
  | .done => "done"
  | .fail => "fail"

def showBeh (b : Beh) : String :=
  let acts := if b.acts.isEmpty then "-" else ",".intercalate (b.acts.map showAct)
  s!"acts={acts} tail={showTail b.tail}"

def showPb (r : Res (Beh × Option BFD)) : String :=
  match r with
  | .ok (b, some l) => s!"{showBeh b} | {renderBfd l}"
  | .ok (b, none) => showBeh b
  | .err _ => "err"
  | .panic k => "panic " ++ k.toString

def showPkt (r : Res (Beh × Option BFD)) : String :=
  match r with
  | .ok (b, some l) => s!"ok {renderBfd l} trunc={b01 (b.acts.contains Act.setTruncated)} app={b01 (b.acts.contains Act.setApplicationLayer)}"
  | .ok (b, none) => s!"fail trunc={b01 (b.acts.contains Act.setTruncated)}"
  | .err _ => "err"
  | .panic k => "panic " ++ k.toString

def showDlp (r : Res (DlpState × Nat)) : String :=
  match r with
  | .panic k => "panic " ++ k.toString
  | .err _ => "err"
  | .ok (st, code) =>
    let dec := if st.decoded.isEmpty then "-" else ",".intercalate (st.decoded.map toString)
    s!"code={code} decoded={dec} trunc={b01 st.trunc} | {renderBfd st.bfd}"

def keep (dflt : BFD) (r : Res (DecOut BFD)) : BFD :=
  match r with | .ok o => o.layer | _ => dflt

/-- the 16 field tokens of `ser` / `rt`: ver diag state p f c a d m mult my your tx rx echo auth -/
def layerOf (ws : List String) : Option BFD :=
  match ws with
  | [ver, diag, state, p, f, c, a, d, m, mult, my, your, tx, rx, echo, auth] =>
    match natBelow ver 256, natBelow diag 256, natBelow state 256, boolOf p, boolOf f, boolOf c, boolOf a, boolOf d with
    | some ver, some diag, some state, some p, some f, some c, some a, some d =>
      match boolOf m, natBelow mult 256, natBelow my 4294967296, natBelow your 4294967296, natBelow tx 4294967296,
            natBelow rx 4294967296, natBelow echo 4294967296, authOf auth with
      | some m, some mult, some my, some your, some tx, some rx, some echo, some auth =>
        some { BFD.fresh with version := ver, diagnostic := diag, state := state, poll := p, final := f,
                              controlPlaneIndependent := c, authPresent := a, demand := d, multipoint := m,
                              detectMultiplier := mult, myDiscriminator := my, yourDiscriminator := your,
                              desiredMinTxInterval := tx, requiredMinRxInterval := rx,
                              requiredMinEchoRxInterval := echo, authHeader := auth }
      | _, _, _, _, _, _, _, _ => none
    | _, _, _, _, _, _, _, _ => none
  | _ => none

def stepLbfd (st : St) (ws : List String) : St × String :=
  match ws with
  | ["reset"] => ({}, "ok")
  | ["lbfd", "dec", extra, fh, h] =>
    match extra.toNat?, bytesOfHex fh, bytesOfHex h with
    | some n, some foreign, some data =>
      if foreign.length ≠ n then (st, "bad-op") else
      let r := BFD.fresh.decodeFromBytes { vis := data, tail := foreign }
      ({ st with bfd := keep BFD.fresh r }, showDec r)
    | _, _, _ => (st, "bad-op")
  | ["lbfd", "redec", h] =>
    match bytesOfHex h with
    | some data =>
      let r := st.bfd.decodeFromBytes { vis := data, tail := [] }
      ({ st with bfd := keep st.bfd r }, showDec r)
    | none => (st, "bad-op")
  | "lbfd" :: "ser" :: fix :: csum :: hist :: rest =>
    if rest.length ≠ 17 then (st, "bad-op") else
    match boolOf fix, boolOf csum, bufOf hist, layerOf (rest.take 16), payloadOf (rest.getD 16 "") with
    | some fix, some csum, some b, some l, some p =>
      match l.serializeTo (serializePayload p b) fix csum with
      | .ok o => if o.err then (st, "err") else (st, s!"ok bytes={hexOfBytes (contents o.buf)} len={o.layer.length}")
      | .err _ => (st, "err")
      | .panic k => (st, "panic " ++ k.toString)
    | _, _, _, _, _ => (st, "bad-op")
  | "lbfd" :: "rt" :: rest =>
    if rest.length ≠ 17 then (st, "bad-op") else
    match layerOf (rest.take 16), payloadOf (rest.getD 16 "") with
    | some l, some p => (st, rtBfd l p)
    | _, _ => (st, "bad-op")
  | ["lbfd", "rtdec", h] =>
    match bytesOfHex h with
    | some data =>
      match BFD.fresh.decodeFromBytes { vis := data, tail := [] } with
      | .ok o => if o.err then (st, "dec-err") else (st, rtBfd o.layer o.layer.payload)
      | .err _ => (st, "dec-err")
      | .panic k => (st, "panic " ++ k.toString)
    | none => (st, "bad-op")
  | ["lbfd", "pb", h] =>
    match bytesOfHex h with
    | some data => (st, showPb (decodeBFDFn { vis := data, tail := [] }))
    | none => (st, "bad-op")
  | ["lbfd", "pkt", mode, extra, fh, h] =>
    match extra.toNat?, bytesOfHex fh, bytesOfHex h with
    | some n, some foreign, some data =>
      if foreign.length ≠ n ∨ ¬ (mode == "copy" ∨ mode == "nocopy" ∨ mode == "lazy") then (st, "bad-op") else
      if data.isEmpty then (st, "empty") else
      -- the copying paths give the decoder a buffer with cap = len
      (st, showPkt (decodeBFDFn { vis := data, tail := if mode == "nocopy" then foreign else [] }))
    | _, _, _ => (st, "bad-op")
  | ["lbfd", "dlp", first, h] =>
    match natBelow first 1000, bytesOfHex h with
    | some first, some data =>
      let r := dlpDecodeLayers BFD.fresh first { vis := data, tail := [] }
      let st' := match r with
        | .ok (s, _) => { st with pBfd := s.bfd }
        | _ => { st with pBfd := BFD.fresh }
      (st', showDlp r)
    | _, _ => (st, "bad-op")
  | ["lbfd", "redlp", first, h] =>
    match natBelow first 1000, bytesOfHex h with
    | some first, some data =>
      let r := dlpDecodeLayers st.pBfd first { vis := data, tail := [] }
      let st' := match r with
        | .ok (s, _) => { st with pBfd := s.bfd }
        | _ => st
      (st', showDlp r)
    | _, _ => (st, "bad-op")
  | _ => (st, "bad-op")

def main : IO Unit := run ({} : St) stepLbfd
