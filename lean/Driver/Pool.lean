import Driver.Common
import Gp.Model.PoolAsm
import Gp.Model.PoolReasm
import Std.Data.HashSet
/-
  Model driver for engine `pool` (C12): runs a schedule on the LTS of the selected package and prints
  the canonical observables (event sequence, final map size, per-thread status).

    pool pkg asm|reasm|reasm0     (reasm0 = reassembly as written upstream, with the FIXME panic)
    pool threads n
    pool prog <tid> <item>…       item = <pair>:<dir>:<syn|fin|rst|late<ts>> | flush | flushold:<T>:<c>
    pool sched t0 t1 …            entries naming a thread that cannot move are skipped; afterwards
                                  round-robin over the threads until nobody can move
    pool explore <maxstates>      (development aid) exhaustive exploration, checks the executable invariants
-/
open Gp.Pool Driver

inductive Pkg where | asm | reasm (fixed : Bool)
  deriving DecidableEq

structure DSt where
  pkg : Pkg := .asm
  n : Nat := 0
  progs : Array (List Op) := #[]

def parseKind (k : String) : Option Kind :=
  if k == "syn" then some .syn else if k == "fin" then some .fin else if k == "rst" then some .rst
  else if k.startsWith "late" then
    match (k.drop 4).toNat? with
    | some ts => if ts ≤ 9 then some (.late ts) else none
    | none => none
  else none

def parseItem (w : String) : Option Op :=
  if w == "flush" then some .flush else
  match w.splitOn ":" with
  | ["flushold", a, b] =>
    match a.toNat?, b.toNat? with
    | some T, some c => if T ≤ 9 ∧ c ≤ 9 then some (.flushold T c) else none
    | _, _ => none
  | [p, d, k] =>
    match p.toNat?, d.toNat? with
    | some p, some d =>
      if d > 1 ∨ p > 9 then none else
      (parseKind k).map (fun kd => Op.pkt ⟨p, d == 1⟩ kd)
    | _, _ => none
  | _ => none

def showKey (k : Key) : String := toString k.p ++ (if k.d then "b" else "a")

def showEv : Ev → Option String
  | .new sid k t => some s!"n{sid}:{showKey k}@{t}"
  | .deliv sid t i _ n => some s!"r{sid}@{t}.{i}/{n}"
  | .fdeliv sid t i n => some s!"r{sid}@{t}.{i}/{n}"
  | .accept sid t i => some s!"a{sid}@{t}.{i}"
  | .complete sid t => some s!"c{sid}@{t}"
  | .queue .. => none
  | .panic t => some s!"P@{t}"

/-- schedule, then fair round-robin until quiescent (fuel-bounded). -/
def runAll {σ : Type} (step : σ → Tid → Option σ) (n : Nat) (s : σ) (sched : List Nat) : σ := Id.run do
  let mut s := s
  for t in sched do
    if t < n then
      match step s t with
      | some s' => s := s'
      | none => pure ()
  let mut fuel := 20000
  let mut moved := true
  while moved && fuel > 0 do
    moved := false
    for t in [0:n] do
      match step s t with
      | some s' => s := s'; moved := true; fuel := fuel - 1
      | none => pure ()
  return s

/-- reassembly: `t`'s next step is the un-nested remove of FlushWithOptions and it will delete a map entry
    (the known defect `pool:reasm:flush-remove-foreign`). -/
def foreignRemove (s : Reasm.State) (t : Tid) : Bool :=
  match (s.thr t).pc with
  | .rm2 c => (s.conns.get (s.obj c).key).isSome
  | _ => false

/-- As `runAll` for reassembly; also returns the length of the log just BEFORE the first foreign remove.
    From there on the free list holds a live object and what follows depends on byte-level state (a flusher
    writes `half.nextSeq` into an object that was recycled while it held the mutex) which the model
    abstracts: the compared event sequence is cut at that point on both sides. -/
def runReasm (fixed : Bool) (n : Nat) (s : Reasm.State) (sched : List Nat) : Reasm.State × Option Nat := Id.run do
  let mut s := s
  let mut cut : Option Nat := none
  for t in sched do
    if t < n then
      match Reasm.step fixed s t with
      | some s' =>
        if cut.isNone && foreignRemove s t then cut := some s.log.length
        s := s'
      | none => pure ()
  let mut fuel := 20000
  let mut moved := true
  while moved && fuel > 0 do
    moved := false
    for t in [0:n] do
      match Reasm.step fixed s t with
      | some s' =>
        if cut.isNone && foreignRemove s t then cut := some s.log.length
        s := s'; moved := true; fuel := fuel - 1
      | none => pure ()
  return (s, cut)

def progsFn (d : DSt) : Tid → List Op := fun t => d.progs.getD t []

def hasRst (d : DSt) : Bool := d.progs.any (fun p => p.any (fun o => match o with | .pkt _ .rst => true | _ => false))

def doSched (d : DSt) (sched : List Nat) : String :=
  match d.pkg with
  | .asm =>
    let s := runAll Asm.step d.n (Asm.init (progsFn d)) sched
    let evs := (s.log.reverse.filterMap showEv)
    let sts := (List.range d.n).map (fun t =>
      let th := s.thr t
      if th.pc == .panicked then "panic" else if th.done then "done" else "stuck")
    let ms := if sts.all (· == "done") then toString s.conns.length else "?"
    joinSp (["ok"] ++ evs ++ ["|", "map=" ++ ms, "|"] ++ sts)
  | .reasm fixed =>
    if hasRst d then "bad-op" else
    let (s, cut) := runReasm fixed d.n (Reasm.init (progsFn d)) sched
    match cut with
    | some k =>
      joinSp (["ok"] ++ ((s.log.reverse.take k).filterMap showEv) ++ ["FRM", "|", "map=?", "|", "cut"])
    | none =>
    let evs := (s.log.reverse.filterMap showEv)
    let sts := (List.range d.n).map (fun t =>
      let th := s.thr t
      if th.pc == .panicked then "panic" else if th.done then "done" else "stuck")
    let ms := if sts.all (· == "done") then toString s.conns.length else "?"
    joinSp (["ok"] ++ evs ++ ["|", "map=" ++ ms, "|"] ++ sts)


/-! ### Development aid: exhaustive exploration with executable (bounded) versions of the invariants -/

namespace AsmX
open Gp.Pool.Asm

def ptrs (th : Thread) : List CId :=
  (match th.pc with | .lock c => [c] | .cb c _ => [c] | .rm c => [c] | _ => []) ++ (th.snap.getD [])

def stale (n : Nat) (s : State) (t : Tid) : Bool :=
  match (s.thr t).pc, s.free with
  | .ins _, c :: _ => (List.range n).any (fun t' => (ptrs (s.thr t')).contains c)
  | _, _ => false

def ncomp (s : State) (sid : SId) : Nat := (s.log.filter (fun e => match e with | .complete x _ => x == sid | _ => false)).length

def key (n : Nat) (s : State) : String :=
  let th := (List.range n).map (fun t => let x := s.thr t; s!"{x.prog.length},{x.pos},{repr x.pc},{x.snap}")
  let ob := (List.range s.nextC).map (fun c => let o := s.obj c; s!"{o.key.p}{o.key.d},{o.stream},{o.closed},{o.started},{o.q},{o.lq},{o.seen},{o.mu}")
  s!"{th}|{s.conns.map (fun (k, c) => (k.p, k.d, c))}|{s.free}|{ob}|{s.nextS}|{(List.range s.nextS).map (fun i => ((s.skey i).p, (s.skey i).d, s.kept i, ncomp s i))}"

def headKey (th : Thread) : Option Key := match th.prog with | .pkt k _ :: _ => some k | _ => none

/-- returns the name of the first violated candidate invariant -/
def check (n : Nat) (ns : Bool) (s : State) (only6 : Bool := false) : Option String := Id.run do
  let ts := List.range n
  let cs := List.range s.nextC
  let ss := List.range s.nextS
  for t in ts do
    let th := s.thr t
    match th.pc with
    | .cb c _ => if (s.obj c).mu != some t then return some "M1"
    | .rm c => if (s.obj c).mu != some t then return some "M1"
    | .panicked => return some "P"
    | .ins sid =>
      if !(sid < s.nextS) then return some "F7a"
      if headKey th != some (s.skey sid) then return some "F7b"
      if cs.any (fun c => (s.obj c).stream == some sid) then return some "F7c"
      if ts.any (fun t' => t' != t && (s.thr t').pc == .ins sid) then return some "F7d"
      if s.kept sid then return some "F7e"
    | _ => pure ()
    for c in ptrs th do
      if !(c < s.nextC) then return some "S-ptr"
    -- well-formedness
    match th.pc, th.snap, th.prog with
    | .start, some _, _ => return some "W1"
    | .ins _, some _, _ => return some "W2"
    | .ins _, none, .pkt .. :: _ => pure ()
    | .ins _, none, _ => return some "W3"
    | _, some _, .flush :: _ => pure ()
    | _, some _, _ => return some "W4"
    | .lock _, none, .pkt .. :: _ => pure ()
    | .cb .., none, .pkt .. :: _ => pure ()
    | .rm _, none, .pkt .. :: _ => pure ()
    | .start, none, _ => pure ()
    | _, _, _ => return some "W5"
  for c in cs do
    let o := s.obj c
    match o.mu with
    | some t => match (s.thr t).pc with
      | .cb c' _ => if c' != c then return some "M2"
      | .rm c' => if c' != c then return some "M2"
      | _ => return some "M2"
    | none => pure ()
    match o.stream with
    | none => return some "S-init"
    | some sid =>
      if !(sid < s.nextS) then return some "R1"
      if s.skey sid != o.key then return some "R2"
      if cs.any (fun c' => c' != c && (s.obj c').stream == some sid) then return some "U"
      if ns && !only6 then
        if !o.closed && ncomp s sid != 0 then return some "N5"
  for (_, c) in s.conns do if !(c < s.nextC) then return some "S-map"
  for c in s.free do if !(c < s.nextC) then return some "S-free"
  if ns && only6 then
    for sid in ss do
      if s.kept sid then
        if ncomp s sid > 1 then return some "N6a"
        if ncomp s sid == 0 then
          match s.conns.get (s.skey sid) with
          | some c => if (s.obj c).stream != some sid || (s.obj c).closed then return some "N6b"
          | none => return some "N6c"
  if ns && !only6 then
    for (k, c) in s.conns do
      if (s.obj c).key != k then return some "N1a"
      if s.free.contains c then return some "N1b"
    if !s.free.Nodup then return some "N2c"
    for c in s.free do
      if !(s.obj c).closed then return some "N2a"
      if (s.obj c).mu.isSome then return some "N2d"
    for t in ts do
      let th := s.thr t
      match th.pc, th.snap, headKey th with
      | .lock c, none, some k =>
        if (s.obj c).key != k then return some "N3a"
        if !(s.obj c).closed && s.conns.get k != some c then return some "N3b"
      | .cb c _, none, some k =>
        if (s.obj c).key != k || s.conns.get k != some c || (s.obj c).closed then return some "N4a"
      | .rm c, none, some k =>
        if (s.obj c).key != k || s.conns.get k != some c || !(s.obj c).closed then return some "N4b"
      | .cb c _, some _, _ => if s.conns.get (s.obj c).key != some c || (s.obj c).closed then return some "N4c"
      | .rm c, some _, _ => if s.conns.get (s.obj c).key != some c || !(s.obj c).closed then return some "N4d"
      | _, _, _ => pure ()
    for sid in ss do
      if s.kept sid then
        if ncomp s sid > 1 then return some "N6a"
        if ncomp s sid == 0 then
          match s.conns.get (s.skey sid) with
          | some c => if (s.obj c).stream != some sid || (s.obj c).closed then return some "N6b"
          | none => return some "N6c"
    for e in s.log do
      match e with
      | .deliv sid _ _ k _ => if s.skey sid != k then return some "N7"
      | .queue sid _ _ k => if s.skey sid != k then return some "N7q"
      | _ => pure ()
  return none

partial def explore (n : Nat) (ns : Bool) (chk : Bool) (only6 : Bool) (init : State) (maxStates : Nat) : String := Id.run do
  let mut seen : Std.HashSet String := {}
  let mut stack : List (State × List Nat) := [(init, [])]
  let mut count := 0
  let mut deadlocks := 0
  while !stack.isEmpty && count < maxStates do
    match stack with
    | [] => pure ()
    | (s, path) :: rest =>
      stack := rest
      let k := key n s
      if seen.contains k then continue
      seen := seen.insert k
      count := count + 1
      match check n chk s only6 with
      | some bad => if !only6 || bad.startsWith "N6" then return s!"violated {bad} after schedule {path.reverse} ({count} states)"
      | none => pure ()
      let mut any := false
      for t in List.range n do
        if ns && stale n s t then continue
        match step s t with
        | some s' => stack := (s', t :: path) :: stack; any := true
        | none => pure ()
      if !any && (List.range n).any (fun t => !(s.thr t).done) && !ns then deadlocks := deadlocks + 1
  return s!"ok {count} states, {deadlocks} deadlocks{if stack.isEmpty then "" else " (truncated)"}"
end AsmX

def stepPool (d : DSt) (ws : List String) : DSt × String :=
  match ws with
  | ["reset"] => ({}, "ok")
  | ["pool", "pkg", p] =>
    if p == "asm" then ({ d with pkg := .asm }, "ok")
    else if p == "reasm" then ({ d with pkg := .reasm true }, "ok")
    else if p == "reasm0" then ({ d with pkg := .reasm false }, "ok")
    else (d, "bad-op")
  | ["pool", "threads", n] =>
    match n.toNat? with
    | some n => if n ≥ 1 ∧ n ≤ 8 then ({ d with n := n, progs := Array.replicate n [] }, "ok") else (d, "bad-op")
    | none => (d, "bad-op")
  | "pool" :: "prog" :: t :: items =>
    match t.toNat?, items.mapM parseItem with
    | some t, some ops => if t < d.n then ({ d with progs := d.progs.set! t ops }, "ok") else (d, "bad-op")
    | _, _ => (d, "bad-op")
  | ["pool", "explore", m, nsf] =>
    match m.toNat? with
    | some m =>
      match d.pkg with
      | .asm => (d, AsmX.explore d.n (nsf == "ns") (nsf == "ns" || nsf == "chk" || nsf == "n6") (nsf == "n6") (Asm.init (progsFn d)) m)
      | .reasm _ => (d, "todo")
    | none => (d, "bad-op")
  | "pool" :: "inspect" :: ts =>
    match natList ts, d.pkg with
    | some sched, .asm =>
      let s := runAll Asm.step d.n (Asm.init (progsFn d)) sched
      (d, s!"{AsmX.check d.n true s true} {AsmX.check d.n true s false} {AsmX.key d.n s}")
    | _, _ => (d, "bad-op")
  | "pool" :: "sched" :: ts =>
    match natList ts with
    | some sched => if d.n = 0 then (d, "bad-op") else (d, doSched d sched)
    | none => (d, "bad-op")
  | _ => (d, "bad-op")

def main : IO Unit := run ({} : DSt) stepPool
