import Driver.Common
import Gp.Model.PoolAsm
import Gp.Model.PoolReasm
/-
  Model driver for engine `pool` (C12): runs a schedule on the LTS of the selected package and prints
  the canonical observables (event sequence, final map size, per-thread status).

    pool pkg asm|reasm|reasm0     (reasm0 = reassembly as written upstream, with the FIXME panic)
    pool threads n
    pool prog <tid> <item>…       item = <pair>:<dir>:<syn|fin|rst> | flush
    pool sched t0 t1 …            entries naming a thread that cannot move are skipped; afterwards
                                  round-robin over the threads until nobody can move
    pool explore <maxstates>      (development aid) exhaustive exploration, checks the executable invariants
-/
open Gp.Pool Driver

inductive Pkg where | asm | reasm (fixed : Bool)
  deriving DecidableEq

structure DSt where
  pkg : Pkg := .asm
  n : Nat := 0
  progs : Array (List Op) := #[]

def parseItem (w : String) : Option Op :=
  if w == "flush" then some .flush else
  match w.splitOn ":" with
  | [p, d, k] =>
    match p.toNat?, d.toNat? with
    | some p, some d =>
      if d > 1 then none else
      let kind : Option Kind := if k == "syn" then some .syn else if k == "fin" then some .fin else if k == "rst" then some .rst else none
      kind.map (fun kd => Op.pkt ⟨p, d == 1⟩ kd)
    | _, _ => none
  | _ => none

def showKey (k : Key) : String := toString k.p ++ (if k.d then "b" else "a")

def showEv : Ev → Option String
  | .new sid k t => some s!"n{sid}:{showKey k}@{t}"
  | .deliv sid t i _ n => some s!"r{sid}@{t}.{i}/{n}"
  | .fdeliv sid t i n => some s!"r{sid}@{t}.{i}/{n}"
  | .accept sid t i => some s!"a{sid}@{t}.{i}"
  | .complete sid t => some s!"c{sid}@{t}"
  | .queue .. => none
  | .panic t => some s!"P@{t}"

/-- schedule, then fair round-robin until quiescent (fuel-bounded). -/
def runAll {σ : Type} (step : σ → Tid → Option σ) (n : Nat) (s : σ) (sched : List Nat) : σ := Id.run do
  let mut s := s
  for t in sched do
    if t < n then
      match step s t with
      | some s' => s := s'
      | none => pure ()
  let mut fuel := 20000
  let mut moved := true
  while moved && fuel > 0 do
    moved := false
    for t in [0:n] do
      match step s t with
      | some s' => s := s'; moved := true; fuel := fuel - 1
      | none => pure ()
  return s

def progsFn (d : DSt) : Tid → List Op := fun t => d.progs.getD t []

def hasRst (d : DSt) : Bool := d.progs.any (fun p => p.any (fun o => match o with | .pkt _ .rst => true | _ => false))

def doSched (d : DSt) (sched : List Nat) : String :=
  match d.pkg with
  | .asm =>
    let s := runAll Asm.step d.n (Asm.init (progsFn d)) sched
    let evs := (s.log.reverse.filterMap showEv)
    let sts := (List.range d.n).map (fun t =>
      let th := s.thr t
      if th.pc == .panicked then "panic" else if th.done then "done" else "stuck")
    let ms := if sts.all (· == "done") then toString s.conns.length else "?"
    joinSp (["ok"] ++ evs ++ ["|", "map=" ++ ms, "|"] ++ sts)
  | .reasm fixed =>
    if hasRst d then "bad-op" else
    let s := runAll (Reasm.step fixed) d.n (Reasm.init (progsFn d)) sched
    let evs := (s.log.reverse.filterMap showEv)
    let sts := (List.range d.n).map (fun t =>
      let th := s.thr t
      if th.pc == .panicked then "panic" else if th.done then "done" else "stuck")
    let ms := if sts.all (· == "done") then toString s.conns.length else "?"
    joinSp (["ok"] ++ evs ++ ["|", "map=" ++ ms, "|"] ++ sts)

def stepPool (d : DSt) (ws : List String) : DSt × String :=
  match ws with
  | ["reset"] => ({}, "ok")
  | ["pool", "pkg", p] =>
    if p == "asm" then ({ d with pkg := .asm }, "ok")
    else if p == "reasm" then ({ d with pkg := .reasm true }, "ok")
    else if p == "reasm0" then ({ d with pkg := .reasm false }, "ok")
    else (d, "bad-op")
  | ["pool", "threads", n] =>
    match n.toNat? with
    | some n => if n ≥ 1 ∧ n ≤ 8 then ({ d with n := n, progs := Array.replicate n [] }, "ok") else (d, "bad-op")
    | none => (d, "bad-op")
  | "pool" :: "prog" :: t :: items =>
    match t.toNat?, items.mapM parseItem with
    | some t, some ops => if t < d.n then ({ d with progs := d.progs.set! t ops }, "ok") else (d, "bad-op")
    | _, _ => (d, "bad-op")
  | "pool" :: "sched" :: ts =>
    match natList ts with
    | some sched => if d.n = 0 then (d, "bad-op") else (d, doSched d sched)
    | none => (d, "bad-op")
  | _ => (d, "bad-op")

def main : IO Unit := run ({} : DSt) stepPool
