import Driver.Common
import Gp.Model.Layers.Mod
/- Model driver for engine `lmod` (ModbusTCP, LCM, PFLog DecodeFromBytes + registered decoders + parser loop,
   FDDI registered decoder and LinkFlow; C19, C05, C17). -/
open Gp Gp.Mod Driver

/-- The LCM fingerprints the adapter registers at start-up (RegisterLCMLayerType with explicit numbers). -/
def lcmReg : List (Nat × Nat) := [(0x1122334455667788, 1999), (0x0102030405060708, 1998)]

structure St where
  modbus  : ModbusTCP := ModbusTCP.fresh     -- the objects re-used by `redec`
  lcm     : LCM := LCM.fresh
  pflog   : PFLog := PFLog.fresh
  pModbus : ModbusTCP := ModbusTCP.fresh     -- the objects owned by the DecodingLayerParser
  pLcm    : LCM := LCM.fresh
  pPflog  : PFLog := PFLog.fresh

def b01 (b : Bool) : String := if b then "1" else "0"

def showFlowBytes (r : Res Flow) : String × String :=
  match r with
  | .ok f => (hexOfBytes f.srcBytes, hexOfBytes f.dstBytes)
  | .err _ => ("err", "err")
  | .panic k => ("panic-" ++ k.toString, "panic-" ++ k.toString)

def renderModbus (l : ModbusTCP) : String :=
  s!"tid={l.transactionIdentifier} pid={l.protocolIdentifier} len={l.length} uid={l.unitIdentifier} contents={hexOfBytes l.contents} payload={hexOfBytes l.payload} next={l.nextLayerType}"

def renderLcm (l : LCM) : String :=
  s!"magic={l.magic} seq={l.sequenceNumber} psize={l.payloadSize} foff={l.fragmentOffset} fnum={l.fragmentNumber} ftot={l.totalFragments} chan={hexOfBytes l.channelName} frag={b01 l.fragmented} fp={l.fingerprint} contents={hexOfBytes l.contents} payload={hexOfBytes l.payload} next={l.nextLayerType lcmReg}"

def renderPflog (l : PFLog) : String :=
  s!"len={l.length} fam={l.family} act={l.action} reason={l.reason} ifname={hexOfBytes l.ifName} ruleset={hexOfBytes l.ruleset} rulenum={l.ruleNum} subrule={l.subruleNum} uid={l.uid} pid={l.pid} ruleuid={l.ruleUID} rulepid={l.rulePID} dir={l.direction} contents={hexOfBytes l.contents} payload={hexOfBytes l.payload} next={l.nextLayerType}"

def renderFddi (l : FDDI) : String :=
  let (fs, fd) := showFlowBytes l.linkFlow
  s!"fc={l.frameControl} prio={l.priority} src={hexOfBytes l.srcMAC} dst={hexOfBytes l.dstMAC} fsrc={fs} fdst={fd} contents={hexOfBytes l.contents} payload={hexOfBytes l.payload}"

/-- reply of a DecodeFromBytes op: on an error the receiver is rendered too (what the failed call left behind). -/
def showDec {L : Type} (render : L → String) (r : Res (DecOut L)) : String :=
  match r with
  | .ok o => if o.err then s!"err trunc={b01 o.trunc} | {render o.layer}" else s!"ok {render o.layer} trunc={b01 o.trunc}"
  | .err _ => "err"
  | .panic k => "panic " ++ k.toString

def showAct : Act → String
  | .setTruncated => "trunc"
  | .addLayer t => s!"add:{t}"
  | .setLinkLayer => "link"
  | .setApplicationLayer => "app"

def showTail : Tail → String
  | .done => "done"
  | .fail => "fail"
  | .nextLayerType t => s!"lt:{t}"
  | .nextFrameControl e => s!"fc:{e}"

def showBeh (b : Beh) : String :=
  let acts := if b.acts.isEmpty then "-" else ",".intercalate (b.acts.map showAct)
  s!"acts={acts} tail={showTail b.tail}"

def showFn {L : Type} (render : L → String) (r : Res (Beh × Option L)) : String :=
  match r with
  | .ok (b, some l) => s!"{showBeh b} | {render l}"
  | .ok (b, none) => showBeh b
  | .err _ => "err"
  | .panic k => "panic " ++ k.toString

def showPkt {L : Type} (render : L → String) (r : Res (Beh × Option L)) : String :=
  match r with
  | .ok (b, some l) => s!"ok {render l} link={b01 (b.acts.contains .setLinkLayer)} app={b01 (b.acts.contains .setApplicationLayer)}"
  | .ok (b, none) => s!"fail trunc={b01 (b.acts.contains .setTruncated)}"
  | .err _ => "err"
  | .panic k => "panic " ++ k.toString

def showFlow (r : Res Flow) : String :=
  match r with
  | .ok f =>
    let g := f.reverse
    s!"ok et={f.typ} src={hexOfBytes f.srcBytes} dst={hexOfBytes f.dstBytes} rsrc={hexOfBytes g.srcBytes} rdst={hexOfBytes g.dstBytes}"
  | .err _ => "err"
  | .panic k => "panic " ++ k.toString

def showFlowOf {L : Type} (flow : L → Res Flow) (r : Res (Beh × Option L)) : String :=
  match r with
  | .ok (_, some l) => showFlow (flow l)
  | .ok (_, none) => "err"
  | .err _ => "err"
  | .panic k => "panic " ++ k.toString

def showDlp (r : Res (DlpState × Nat)) : String :=
  match r with
  | .panic k => "panic " ++ k.toString
  | .err _ => "err"
  | .ok (st, code) =>
    let dec := if st.decoded.isEmpty then "-" else ",".intercalate (st.decoded.map toString)
    s!"code={code} decoded={dec} trunc={b01 st.trunc} | {renderModbus st.modbus} | {renderLcm st.lcm} | {renderPflog st.pflog}"

def firstOf (s : String) : Option Nat :=
  if s == "modbus" then some LayerTypeModbusTCP
  else if s == "lcm" then some LayerTypeLCM
  else if s == "pflog" then some LayerTypePFLog
  else none

def keep {L : Type} (dflt : L) (r : Res (DecOut L)) : L :=
  match r with | .ok o => o.layer | _ => dflt

/-- the registered decoder function of a kind, rendered by `f` -/
def fnOf (kind : String) (d : GSlice)
    (f : {L : Type} → (L → String) → Res (Beh × Option L) → String) : Option String :=
  if kind == "modbus" then some (f renderModbus (decodeModbusTCPFn d))
  else if kind == "lcm" then some (f renderLcm (decodeLCMFn lcmReg d))
  else if kind == "pflog" then some (f renderPflog (decodePFLogFn d))
  else if kind == "fddi" then some (f renderFddi (decodeFDDI d))
  else none

def insertSorted (x : Nat × Nat) : List (Nat × Nat) → List (Nat × Nat)
  | [] => [x]
  | y :: ys => if x.1 ≤ y.1 then x :: y :: ys else y :: insertSorted x ys

def stepLmod (st : St) (ws : List String) : St × String :=
  match ws with
  | ["reset"] => ({}, "ok")
  | ["lmod", "dec", kind, extra, fh, h] =>
    match extra.toNat?, bytesOfHex fh, bytesOfHex h with
    | some n, some foreign, some data =>
      if foreign.length ≠ n then (st, "bad-op") else
      let d : GSlice := { vis := data, tail := foreign }
      if kind == "modbus" then
        let r := ModbusTCP.fresh.decodeFromBytes d
        ({ st with modbus := keep ModbusTCP.fresh r }, showDec renderModbus r)
      else if kind == "lcm" then
        let r := LCM.fresh.decodeFromBytes d
        ({ st with lcm := keep LCM.fresh r }, showDec renderLcm r)
      else if kind == "pflog" then
        let r := PFLog.fresh.decodeFromBytes d
        ({ st with pflog := keep PFLog.fresh r }, showDec renderPflog r)
      else if kind == "fddi" then (st, showFn renderFddi (decodeFDDI d))
      else (st, "bad-op")
    | _, _, _ => (st, "bad-op")
  | ["lmod", "redec", kind, h] =>
    match bytesOfHex h with
    | some data =>
      let d : GSlice := { vis := data, tail := [] }
      if kind == "modbus" then
        let r := st.modbus.decodeFromBytes d
        ({ st with modbus := keep st.modbus r }, showDec renderModbus r)
      else if kind == "lcm" then
        let r := st.lcm.decodeFromBytes d
        ({ st with lcm := keep st.lcm r }, showDec renderLcm r)
      else if kind == "pflog" then
        let r := st.pflog.decodeFromBytes d
        ({ st with pflog := keep st.pflog r }, showDec renderPflog r)
      else (st, "bad-op")
    | none => (st, "bad-op")
  | ["lmod", "fn", kind, extra, fh, h] =>
    match extra.toNat?, bytesOfHex fh, bytesOfHex h with
    | some n, some foreign, some data =>
      if foreign.length ≠ n then (st, "bad-op") else
      match fnOf kind { vis := data, tail := foreign } showFn with
      | some s => (st, s)
      | none => (st, "bad-op")
    | _, _, _ => (st, "bad-op")
  | ["lmod", "pkt", kind, mode, extra, fh, h] =>
    match extra.toNat?, bytesOfHex fh, bytesOfHex h with
    | some n, some foreign, some data =>
      if foreign.length ≠ n ∨ ¬ (mode == "copy" ∨ mode == "nocopy" ∨ mode == "lazy" ∨ mode == "pool") then (st, "bad-op") else
      if (fnOf kind { vis := [], tail := [] } showPkt).isNone then (st, "bad-op") else
      if data.isEmpty then (st, "empty") else
      -- the copying paths give the decoder a buffer with cap = len
      let d : GSlice := { vis := data, tail := if mode == "nocopy" then foreign else [] }
      match fnOf kind d showPkt with
      | some s => (st, s)
      | none => (st, "bad-op")
    | _, _, _ => (st, "bad-op")
  | ["lmod", "dlp", first, h] =>
    match firstOf first, bytesOfHex h with
    | some first, some data =>
      let r := dlpDecodeLayers lcmReg ModbusTCP.fresh LCM.fresh PFLog.fresh first { vis := data, tail := [] }
      let st' := match r with
        | .ok (s, _) => { st with pModbus := s.modbus, pLcm := s.lcm, pPflog := s.pflog }
        | _ => { st with pModbus := ModbusTCP.fresh, pLcm := LCM.fresh, pPflog := PFLog.fresh }
      (st', showDlp r)
    | _, _ => (st, "bad-op")
  | ["lmod", "redlp", first, h] =>
    match firstOf first, bytesOfHex h with
    | some first, some data =>
      let r := dlpDecodeLayers lcmReg st.pModbus st.pLcm st.pPflog first { vis := data, tail := [] }
      let st' := match r with
        | .ok (s, _) => { st with pModbus := s.modbus, pLcm := s.lcm, pPflog := s.pflog }
        | _ => st
      (st', showDlp r)
    | _, _ => (st, "bad-op")
  | ["lmod", "flow", kind, h] =>
    match bytesOfHex h with
    | some data =>
      let d : GSlice := { vis := data, tail := [] }
      if kind == "fddi" then (st, showFlowOf FDDI.linkFlow (decodeFDDI d))
      else if kind == "modbus" ∨ kind == "lcm" ∨ kind == "pflog" then (st, "none")
      else (st, "bad-op")
    | none => (st, "bad-op")
  | ["lmod", "flowraw", "fddi", sh, dh] =>
    match bytesOfHex sh, bytesOfHex dh with
    | some s, some d =>
      (st, showFlow ({ contents := [], payload := [], frameControl := 0, priority := 0, srcMAC := s, dstMAC := d } : FDDI).linkFlow)
    | _, _ => (st, "bad-op")
  | ["lmod", "tab"] =>
    let rows := familyTable.foldr insertSorted []
    let fcs := (List.range 256).filter frameControlKnown
    let reg := lcmReg.foldr insertSorted []
    (st, "ok fam=" ++ ",".intercalate (rows.map (fun r => s!"{r.1}:{r.2}")) ++
      " fc=" ++ ",".intercalate (fcs.map toString) ++
      s!" lt={LayerTypeModbusTCP},{LayerTypeLCM},{LayerTypePFLog},{LayerTypeFDDI},{LayerTypePayload},{LayerTypeFragment},{LayerTypeLLC}" ++
      s!" ep={EndpointMAC} max={Gp.Gen.Mod.maxEndpointSize}" ++
      " lcmreg=" ++ ",".intercalate (reg.map (fun r => s!"{r.1}:{r.2}")))
  | _ => (st, "bad-op")

def main : IO Unit := run ({} : St) stepLmod
