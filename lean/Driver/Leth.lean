import Driver.Common
import Gp.Model.Layers.Eth
/- Model driver for engine `leth` (Ethernet + Dot1Q codec; C19, C05, C06, C07, C17). -/
open Gp Gp.SBuf Gp.Eth Driver

structure St where
  eth    : Ethernet := Ethernet.fresh      -- the object re-used by `redec eth`
  dot1q  : Dot1Q := Dot1Q.fresh            -- the object re-used by `redec dot1q`
  pEth   : Ethernet := Ethernet.fresh      -- the objects owned by the DecodingLayerParser
  pDot1q : Dot1Q := Dot1Q.fresh

def b01 (b : Bool) : String := if b then "1" else "0"

def boolOf (s : String) : Option Bool :=
  if s == "1" then some true else if s == "0" then some false else none

def natBelow (s : String) (bound : Nat) : Option Nat :=
  match s.toNat? with
  | some n => if n < bound then some n else none
  | none => none

/-- payload token: hex, `-`, or `z<n>x<hh>` (n copies of byte hh). -/
def payloadOf (s : String) : Option (List UInt8) :=
  if s.startsWith "z" then
    match (String.ofList (s.toList.drop 1)).splitOn "x" with
    | [n, hh] =>
      match n.toNat?, bytesOfHex hh with
      | some n, some [v] => if n ≤ 200000 then some (List.replicate n v) else none
      | _, _ => none
    | _ => none
  else bytesOfHex s

def renderEth (l : Ethernet) : String :=
  s!"dst={hexOfBytes l.dstMAC} src={hexOfBytes l.srcMAC} type={l.ethernetType} len={l.length} contents={hexOfBytes l.contents} payload={hexOfBytes l.payload} next={l.nextLayerType}"

def renderDot1Q (l : Dot1Q) : String :=
  s!"prio={l.priority} dei={b01 l.dropEligible} vlan={l.vlan} type={l.type} contents={hexOfBytes l.contents} payload={hexOfBytes l.payload} next={l.nextLayerType}"

def showDec {L : Type} (render : L → String) (r : Res (DecOut L)) : String :=
  match r with
  | .ok o => if o.err then s!"err trunc={b01 o.trunc}" else s!"ok {render o.layer} trunc={b01 o.trunc}"
  | .err _ => "err"
  | .panic k => "panic " ++ k.toString

/-- the buffer histories of the `ser` op -/
def bufOf (h : String) : Option SBuf :=
  if h == "fresh" then some (new 0 0)
  else if h.startsWith "dirty" then
    match natBelow (String.ofList (h.toList.drop 5)) 256 with
    | some v =>
      let junk := List.replicate 64 (UInt8.ofNat v)
      some (clear (step (step (new 0 0) (.append junk)) (.prepend junk)))
    | none => none
  else if h.startsWith "sized" then
    match natBelow (String.ofList (h.toList.drop 5)) 100000 with
    | some n => some (new n n)
    | none => none
  else none

/-- SerializeLayers(buf, opts, layer, Payload(p)) into a fresh buffer, Ethernet. -/
def serEthOver (l : Ethernet) (p : List UInt8) (fix csum : Bool) : Res (SerOut Ethernet) :=
  l.serializeTo (pushLayer (serializePayload p (clear (new 0 0))) 2) fix csum

def serDot1QOver (l : Dot1Q) (p : List UInt8) (fix csum : Bool) : Res (SerOut Dot1Q) :=
  l.serializeTo (pushLayer (serializePayload p (clear (new 0 0))) 2) fix csum

def rtEth (l : Ethernet) (p : List UInt8) : String :=
  match serEthOver l p true true with
  | .panic k => "panic " ++ k.toString
  | .err _ => "ser-err"
  | .ok o =>
    if o.err then "ser-err" else
    let bytes := contents o.buf
    let d := Ethernet.fresh.decodeFromBytes { vis := bytes, tail := [] }
    let again :=
      match d with
      | .ok od =>
        if od.err then "none" else
        match serEthOver od.layer od.layer.payload true true with
        | .ok o2 => if o2.err then "err" else if contents o2.buf = bytes then "same" else "diff"
        | .err _ => "err"
        | .panic k => "panic-" ++ k.toString
      | _ => "none"
    s!"ok bytes={hexOfBytes bytes} | {showDec renderEth d} | again={again}"

def rtDot1Q (l : Dot1Q) (p : List UInt8) : String :=
  match serDot1QOver l p true true with
  | .panic k => "panic " ++ k.toString
  | .err _ => "ser-err"
  | .ok o =>
    if o.err then "ser-err" else
    let bytes := contents o.buf
    let d := Dot1Q.fresh.decodeFromBytes { vis := bytes, tail := [] }
    let again :=
      match d with
      | .ok od =>
        if od.err then "none" else
        match serDot1QOver od.layer od.layer.payload true true with
        | .ok o2 => if o2.err then "err" else if contents o2.buf = bytes then "same" else "diff"
        | .err _ => "err"
        | .panic k => "panic-" ++ k.toString
      | _ => "none"
    s!"ok bytes={hexOfBytes bytes} | {showDec renderDot1Q d} | again={again}"

def showAct : Act → String
  | .setTruncated => "trunc"
  | .addLayer t => s!"add:{t}"
  | .setLinkLayer => "link"

def showTail : Tail → String
  | .done => "done"
  | .fail => "fail"
  | .nextEthType a => s!"eth:{a}"
  | .nextLayerType t => s!"lt:{t}"

def showBeh (b : Beh) : String :=
  let acts := if b.acts.isEmpty then "-" else ",".intercalate (b.acts.map showAct)
  s!"acts={acts} tail={showTail b.tail}"

def showFlow (l : Ethernet) (data : List UInt8) : String :=
  match l.linkFlow with
  | .panic k => "panic " ++ k.toString
  | .err _ => "err"
  | .ok f =>
    -- the same frame seen in the other direction: addresses swapped
    let swapped := (data.drop 6).take 6 ++ data.take 6 ++ data.drop 12
    let sym :=
      match Ethernet.fresh.decodeFromBytes { vis := swapped, tail := [] } with
      | .ok o2 =>
        if o2.err then "x" else
        match o2.layer.linkFlow with
        | .ok f2 => b01 (f2 = f.reverse)
        | _ => "x"
      | _ => "x"
    s!"ok et={f.typ} src={hexOfBytes f.srcBytes} dst={hexOfBytes f.dstBytes} rsrc={hexOfBytes f.reverse.srcBytes} rdst={hexOfBytes f.reverse.dstBytes} sym={sym}"

def insertSorted (x : Nat × Nat) : List (Nat × Nat) → List (Nat × Nat)
  | [] => [x]
  | y :: ys => if x.1 ≤ y.1 then x :: y :: ys else y :: insertSorted x ys

def showDlp (r : Res (DlpState × Nat)) : String :=
  match r with
  | .panic k => "panic " ++ k.toString
  | .err _ => "err"
  | .ok (st, code) =>
    let dec := if st.decoded.isEmpty then "-" else ",".intercalate (st.decoded.map toString)
    s!"code={code} decoded={dec} trunc={b01 st.trunc} | {renderEth st.eth} | {renderDot1Q st.dot1q}"

def stepLeth (st : St) (ws : List String) : St × String :=
  match ws with
  | ["reset"] => ({}, "ok")
  | ["leth", "dec", "eth", extra, fh, h] =>
    match extra.toNat?, bytesOfHex fh, bytesOfHex h with
    | some n, some foreign, some data =>
      if foreign.length ≠ n then (st, "bad-op") else
      let r := Ethernet.fresh.decodeFromBytes { vis := data, tail := foreign }
      let obj := match r with | .ok o => o.layer | _ => Ethernet.fresh
      ({ st with eth := obj }, showDec renderEth r)
    | _, _, _ => (st, "bad-op")
  | ["leth", "dec", "dot1q", extra, fh, h] =>
    match extra.toNat?, bytesOfHex fh, bytesOfHex h with
    | some n, some foreign, some data =>
      if foreign.length ≠ n then (st, "bad-op") else
      let r := Dot1Q.fresh.decodeFromBytes { vis := data, tail := foreign }
      let obj := match r with | .ok o => o.layer | _ => Dot1Q.fresh
      ({ st with dot1q := obj }, showDec renderDot1Q r)
    | _, _, _ => (st, "bad-op")
  | ["leth", "redec", "eth", h] =>
    match bytesOfHex h with
    | some data =>
      let r := st.eth.decodeFromBytes { vis := data, tail := [] }
      let obj := match r with | .ok o => o.layer | _ => st.eth
      ({ st with eth := obj }, showDec renderEth r)
    | none => (st, "bad-op")
  | ["leth", "redec", "dot1q", h] =>
    match bytesOfHex h with
    | some data =>
      let r := st.dot1q.decodeFromBytes { vis := data, tail := [] }
      let obj := match r with | .ok o => o.layer | _ => st.dot1q
      ({ st with dot1q := obj }, showDec renderDot1Q r)
    | none => (st, "bad-op")
  | ["leth", "ser", "eth", fix, csum, hist, dst, src, ty, len, pl] =>
    match boolOf fix, boolOf csum, bufOf hist, bytesOfHex dst, bytesOfHex src, natBelow ty 65536,
          natBelow len 65536, payloadOf pl with
    | some fix, some csum, some b, some dst, some src, some ty, some len, some p =>
      let l : Ethernet := { Ethernet.fresh with dstMAC := dst, srcMAC := src, ethernetType := ty, length := len }
      match l.serializeTo (serializePayload p b) fix csum with
      | .ok o =>
        if o.err then (st, "err")
        else (st, s!"ok bytes={hexOfBytes (contents o.buf)} len={o.layer.length}")
      | .err _ => (st, "err")
      | .panic k => (st, "panic " ++ k.toString)
    | _, _, _, _, _, _, _, _ => (st, "bad-op")
  | ["leth", "ser", "dot1q", fix, csum, hist, prio, dei, vlan, ty, pl] =>
    match boolOf fix, boolOf csum, bufOf hist, natBelow prio 256, boolOf dei, natBelow vlan 65536,
          natBelow ty 65536, payloadOf pl with
    | some fix, some csum, some b, some prio, some dei, some vlan, some ty, some p =>
      let l : Dot1Q := { Dot1Q.fresh with priority := prio, dropEligible := dei, vlan := vlan, type := ty }
      match l.serializeTo (serializePayload p b) fix csum with
      | .ok o =>
        if o.err then (st, "err") else (st, s!"ok bytes={hexOfBytes (contents o.buf)}")
      | .err _ => (st, "err")
      | .panic k => (st, "panic " ++ k.toString)
    | _, _, _, _, _, _, _, _ => (st, "bad-op")
  | ["leth", "rt", "eth", dst, src, ty, len, pl] =>
    match bytesOfHex dst, bytesOfHex src, natBelow ty 65536, natBelow len 65536, payloadOf pl with
    | some dst, some src, some ty, some len, some p =>
      (st, rtEth { Ethernet.fresh with dstMAC := dst, srcMAC := src, ethernetType := ty, length := len } p)
    | _, _, _, _, _ => (st, "bad-op")
  | ["leth", "rt", "dot1q", prio, dei, vlan, ty, pl] =>
    match natBelow prio 256, boolOf dei, natBelow vlan 65536, natBelow ty 65536, payloadOf pl with
    | some prio, some dei, some vlan, some ty, some p =>
      (st, rtDot1Q { Dot1Q.fresh with priority := prio, dropEligible := dei, vlan := vlan, type := ty } p)
    | _, _, _, _, _ => (st, "bad-op")
  | ["leth", "rtdec", "eth", h] =>
    match bytesOfHex h with
    | some data =>
      match Ethernet.fresh.decodeFromBytes { vis := data, tail := [] } with
      | .ok o => if o.err then (st, "dec-err") else (st, rtEth o.layer o.layer.payload)
      | .err _ => (st, "dec-err")
      | .panic k => (st, "panic " ++ k.toString)
    | none => (st, "bad-op")
  | ["leth", "rtdec", "dot1q", h] =>
    match bytesOfHex h with
    | some data =>
      match Dot1Q.fresh.decodeFromBytes { vis := data, tail := [] } with
      | .ok o => if o.err then (st, "dec-err") else (st, rtDot1Q o.layer o.layer.payload)
      | .err _ => (st, "dec-err")
      | .panic k => (st, "panic " ++ k.toString)
    | none => (st, "bad-op")
  | ["leth", "flow", h] =>
    match bytesOfHex h with
    | some data =>
      match Ethernet.fresh.decodeFromBytes { vis := data, tail := [] } with
      | .ok o => if o.err then (st, "err") else (st, showFlow o.layer data)
      | .err _ => (st, "err")
      | .panic k => (st, "panic " ++ k.toString)
    | none => (st, "bad-op")
  | ["leth", "pb", "eth", h] =>
    match bytesOfHex h with
    | some data =>
      match decodeEthernet { vis := data, tail := [] } with
      | .ok (b, some l) => (st, s!"{showBeh b} | {renderEth l}")
      | .ok (b, none) => (st, showBeh b)
      | .err _ => (st, "err")
      | .panic k => (st, "panic " ++ k.toString)
    | none => (st, "bad-op")
  | ["leth", "pb", "dot1q", h] =>
    match bytesOfHex h with
    | some data =>
      match decodeDot1QFn { vis := data, tail := [] } with
      | .ok (b, some l) => (st, s!"{showBeh b} | {renderDot1Q l}")
      | .ok (b, none) => (st, showBeh b)
      | .err _ => (st, "err")
      | .panic k => (st, "panic " ++ k.toString)
    | none => (st, "bad-op")
  | ["leth", "pkt", "eth", mode, extra, fh, h] =>
    match extra.toNat?, bytesOfHex fh, bytesOfHex h with
    | some n, some foreign, some data =>
      if foreign.length ≠ n ∨ ¬ (mode == "copy" ∨ mode == "nocopy" ∨ mode == "lazy") then (st, "bad-op") else
      if data.isEmpty then (st, "empty") else
      -- the copying paths give the decoder a buffer with cap = len
      let tail := if mode == "nocopy" then foreign else []
      match decodeEthernet { vis := data, tail := tail } with
      | .ok (b, some l) => (st, s!"ok {renderEth l} link={b01 (b.acts.contains .setLinkLayer)}")
      | .ok (_, none) => (st, "fail")
      | .err _ => (st, "err")
      | .panic k => (st, "panic " ++ k.toString)
    | _, _, _ => (st, "bad-op")
  | ["leth", "pkt", "dot1q", mode, extra, fh, h] =>
    match extra.toNat?, bytesOfHex fh, bytesOfHex h with
    | some n, some foreign, some data =>
      if foreign.length ≠ n ∨ ¬ (mode == "copy" ∨ mode == "nocopy" ∨ mode == "lazy") then (st, "bad-op") else
      if data.isEmpty then (st, "empty") else
      let tail := if mode == "nocopy" then foreign else []
      match decodeDot1QFn { vis := data, tail := tail } with
      | .ok (_, some l) => (st, s!"ok {renderDot1Q l}")
      | .ok (_, none) => (st, "fail")
      | .err _ => (st, "err")
      | .panic k => (st, "panic " ++ k.toString)
    | _, _, _ => (st, "bad-op")
  | ["leth", "dlp", h] =>
    match bytesOfHex h with
    | some data =>
      let r := dlpDecodeLayers Ethernet.fresh Dot1Q.fresh { vis := data, tail := [] }
      let st' := match r with | .ok (s, _) => { st with pEth := s.eth, pDot1q := s.dot1q } | _ => { st with pEth := Ethernet.fresh, pDot1q := Dot1Q.fresh }
      (st', showDlp r)
    | none => (st, "bad-op")
  | ["leth", "redlp", h] =>
    match bytesOfHex h with
    | some data =>
      let r := dlpDecodeLayers st.pEth st.pDot1q { vis := data, tail := [] }
      let st' := match r with | .ok (s, _) => { st with pEth := s.eth, pDot1q := s.dot1q } | _ => st
      (st', showDlp r)
    | none => (st, "bad-op")
  | ["leth", "nlttab"] =>
    let rows := ethTypeTable.foldr insertSorted []
    (st, "ok " ++ ",".intercalate (rows.map (fun r => s!"{r.1}:{r.2}")))
  | _ => (st, "bad-op")

def main : IO Unit := run ({} : St) stepLeth
