import Driver.Common
import Gp.Model.Layers.Gre
/-
  Model driver for engine `lgre` (layers/gre.go).  Line protocol (see harness/cmd/gp-lgre):

    lgre dec <foreign-hex> <hex>      decode into a FRESH layer; the data sits in a buffer whose spare
                                      capacity holds the foreign bytes
    lgre redec <hex>                  decode into the layer object of the previous dec/redec
    lgre pkt <hex>                    behaviour of the registered decoder decodeGRE on a PacketBuilder
    lgre ser  <fix> <csum> <hist> <layer…> <payload-hex>     SerializeTo over the payload
    lgre ser2 …                       serialize, then serialize the mutated layer again (fresh history)
    lgre rt   …                       serialize, then decode the bytes into a fresh layer
    <layer…> = <cp rp kp sp ssr ap as six 0/1 chars> rc flags ver proto csum off key seq ack <routing>
    <routing> = `-` | af.off.len.hex[,af.off.len.hex…]
    <hist>    = fresh | dirty:<byte>:<n> | sized:<pre>:<app>
-/
open Gp Gp.Gre Driver

structure St where
  last : Layer := Layer.fresh

def b01 (b : Bool) : String := if b then "1" else "0"

def showSRE (r : SRE) : String :=
  s!"{r.addressFamily}.{r.sreOffset}.{r.sreLength}.{hexOfBytes r.routingInformation}"

def showRouting (rs : List SRE) : String :=
  if rs.isEmpty then "-" else ",".intercalate (rs.map showSRE)

def showLayer (l : Layer) : String :=
  s!"cp={b01 l.checksumPresent} rp={b01 l.routingPresent} kp={b01 l.keyPresent} sp={b01 l.seqPresent} ssr={b01 l.strictSourceRoute} ap={b01 l.ackPresent} rc={l.recursionControl} fl={l.flags} ver={l.version} proto={l.protocol} csum={l.checksum} off={l.offset} key={l.key} seq={l.seq} ack={l.ack} rt={showRouting l.routing} c={hexOfBytes l.contents} p={hexOfBytes l.payload}"

def showVerify (l : Layer) : String :=
  let r := verifyChecksum l
  s!"vc={b01 r.valid}.{r.correct}.{r.actual}"

def showDec (r : Res (Layer × Bool)) : String :=
  match r with
  | .ok (l, tr) => s!"ok {showLayer l} trunc={b01 tr} next={nextLayerType l} {showVerify l}"
  | .err _ => "err trunc=1"
  | .panic k => "panic " ++ k.toString

def parseSRE (s : String) : Option SRE :=
  match s.splitOn "." with
  | [a, o, n, h] => do
    let a ← a.toNat?
    let o ← o.toNat?
    let n ← n.toNat?
    let h ← bytesOfHex h
    if a < 65536 ∧ o < 256 ∧ n < 256 then
      pure { addressFamily := a, sreOffset := o, sreLength := n, routingInformation := h }
    else none
  | _ => none

def parseRouting (s : String) : Option (List SRE) :=
  if s == "-" then some [] else (s.splitOn ",").mapM parseSRE

def parseBit (c : Char) : Option Bool :=
  if c == '1' then some true else if c == '0' then some false else none

def natLt (s : String) (bound : Nat) : Option Nat := do
  let n ← s.toNat?
  if n < bound then pure n else none

def parseLayer (ws : List String) : Option Layer :=
  match ws with
  | [bits, rc, fl, ver, proto, cs, off, key, seq, ack, rt] =>
    match bits.toList with
    | [c1, c2, c3, c4, c5, c6] => do
      let cp ← parseBit c1
      let rp ← parseBit c2
      let kp ← parseBit c3
      let sp ← parseBit c4
      let ssr ← parseBit c5
      let ap ← parseBit c6
      let rc ← natLt rc 256
      let fl ← natLt fl 256
      let ver ← natLt ver 256
      let proto ← natLt proto 65536
      let cs ← natLt cs 65536
      let off ← natLt off 65536
      let key ← natLt key 4294967296
      let seq ← natLt seq 4294967296
      let ack ← natLt ack 4294967296
      let rt ← parseRouting rt
      pure { contents := [], payload := [], checksumPresent := cp, routingPresent := rp,
             keyPresent := kp, seqPresent := sp, strictSourceRoute := ssr, ackPresent := ap,
             recursionControl := rc, flags := fl, version := ver, protocol := proto,
             checksum := cs, offset := off, key := key, seq := seq, ack := ack, routing := rt }
    | _ => none
  | _ => none

def parseHist (s : String) : Option SBuf.SBuf :=
  match s.splitOn ":" with
  | ["fresh"] => some (SBuf.new 0 0)
  | ["dirty", v, n] => do
    let v ← natLt v 256
    let n ← natLt n 1000000
    let (b, w) := SBuf.prepend (SBuf.new 0 0) n
    pure (SBuf.clear (SBuf.fill b w (List.replicate n (UInt8.ofNat v))))
  | ["sized", p, a] => do
    let p ← natLt p 1000000
    let a ← natLt a 1000000
    pure (SBuf.new p a)
  | _ => none

structure SerArgs where
  opts    : Opts
  buf     : SBuf.SBuf
  layer   : Layer
  payload : Bytes

def parseSer (ws : List String) : Option SerArgs :=
  match ws with
  | fix :: cs :: hist :: rest =>
    match rest.reverse with
    | ph :: lrev => do
      let fix ← natLt fix 2
      let cs ← natLt cs 2
      let b ← parseHist hist
      let l ← parseLayer lrev.reverse
      let p ← bytesOfHex ph
      pure { opts := { fixLengths := fix == 1, computeChecksums := cs == 1 }, buf := b, layer := l, payload := p }
    | [] => none
  | _ => none

def showSer (r : Res (SBuf.SBuf × Layer)) : String :=
  match r with
  | .ok (b, l) => s!"ok {hexOfBytes (SBuf.contents b)} csum={l.checksum}"
  | .err _ => "err"
  | .panic k => "panic " ++ k.toString

def stepLgre (st : St) (ws : List String) : St × String :=
  match ws with
  | ["reset"] => ({}, "ok")
  | ["lgre", "dec", f, h] =>
    match bytesOfHex f, bytesOfHex h with
    | some f, some d =>
      let r := decodeGre Layer.fresh d f
      let st' : St := match r with | .ok (l, _) => { last := l } | _ => { last := Layer.fresh }
      (st', showDec r)
    | _, _ => (st, "bad-op")
  | ["lgre", "redec", h] =>
    match bytesOfHex h with
    | some d =>
      let r := decodeGre st.last d []
      let st' : St := match r with | .ok (l, _) => { last := l } | _ => st
      (st', showDec r)
    | none => (st, "bad-op")
  | ["lgre", "pkt", h] =>
    match bytesOfHex h with
    | some d =>
      match decodeGREPkt d [] with
      | .ok beh =>
        let tail := match beh.tail with
          | .done => "next=none"
          | .next t p => s!"next={t} np={hexOfBytes p}"
        (st, s!"ok {showLayer beh.added} trunc={b01 beh.truncated} sets={if beh.setCalls.isEmpty then "-" else ",".intercalate beh.setCalls} {tail}")
      | .err _ => (st, "err trunc=1")
      | .panic k => (st, "panic " ++ k.toString)
    | none => (st, "bad-op")
  | "lgre" :: "ser" :: rest =>
    match parseSer rest with
    | some a => (st, showSer (serializeGre a.layer (putPayload a.buf a.payload) a.opts))
    | none => (st, "bad-op")
  | "lgre" :: "ser2" :: rest =>
    match parseSer rest with
    | some a =>
      match serializeGre a.layer (putPayload a.buf a.payload) a.opts with
      | .ok (_, l') => (st, showSer (serializeGre l' (putPayload (SBuf.new 0 0) a.payload) a.opts))
      | r => (st, showSer r)
    | none => (st, "bad-op")
  | "lgre" :: "rt" :: rest =>
    match parseSer rest with
    | some a =>
      match serializeGre a.layer (putPayload a.buf a.payload) a.opts with
      | .ok (b, _) => (st, showDec (decodeGre Layer.fresh (SBuf.contents b) []))
      | .err _ => (st, "err")
      | .panic k => (st, "panic " ++ k.toString)
    | none => (st, "bad-op")
  | _ => (st, "bad-op")

def main : IO Unit := run ({} : St) stepLgre
