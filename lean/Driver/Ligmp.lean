import Driver.Common
import Gp.Model.Layers.Igmp
/- Model driver for engine `ligmp` (IGMPv1or2, IGMP (v3), IPSecAH, IPSecESP, GTPv2 decoders; C19, C05). -/
open Gp Gp.Igmp Driver

structure St where
  igmp12 : IGMPv1or2 := IGMPv1or2.fresh      -- the objects re-used by `redec`
  igmp3  : IGMP := IGMP.fresh
  ah     : IPSecAH := IPSecAH.fresh
  esp    : IPSecESP := IPSecESP.fresh
  gtp    : GTPv2 := GTPv2.fresh
  dlp    : DlpState := DlpState.init IGMP.fresh IGMPv1or2.fresh IPSecAH.fresh IPSecESP.fresh GTPv2.fresh

def b01 (b : Bool) : String := if b then "1" else "0"

def listOr (xs : List String) (sep : String) : String := if xs.isEmpty then "-" else sep.intercalate xs

def renderIgmp12 (l : IGMPv1or2) : String :=
  s!"type={l.typ} mrt={l.maxResponseTime} ck={l.checksum} group={hexOfBytes l.groupAddress} ver={l.version} contents={hexOfBytes l.contents} payload={hexOfBytes l.payload}"

def renderRec (g : GroupRecord) : String :=
  s!"{g.typ}/{g.auxDataLen}/{g.numberOfSources}/{hexOfBytes g.multicastAddress}/{listOr (g.sourceAddresses.map hexOfBytes) ";"}/{g.auxData}"

def renderIgmp3 (l : IGMP) : String :=
  s!"type={l.typ} mrt={l.maxResponseTime} ck={l.checksum} group={hexOfBytes l.groupAddress} s={b01 l.supressRouterProcessing} qrv={l.robustnessValue} qqi={l.intervalTime} nsrc={l.numberOfSources} srcs={listOr (l.sourceAddresses.map hexOfBytes) ","} nrec={l.numberOfGroupRecords} recs={listOr (l.groupRecords.map renderRec) ","} ver={l.version} contents={hexOfBytes l.contents} payload={hexOfBytes l.payload}"

def renderAh (l : IPSecAH) : String :=
  s!"nh={l.nextHeader} hl={l.headerLength} al={l.actualLength} res={l.reserved} spi={l.spi} seq={l.seq} auth={hexOfBytes l.authenticationData} contents={hexOfBytes l.contents} payload={hexOfBytes l.payload} next={l.nextLayerType}"

def renderEsp (l : IPSecESP) : String :=
  s!"spi={l.spi} seq={l.seq} enc={hexOfBytes l.encrypted} contents={hexOfBytes l.contents} payload={hexOfBytes l.payload}"

def renderIe (e : IE) : String := s!"{e.typ}:{hexOfBytes e.content}"

def renderGtp (l : GTPv2) : String :=
  s!"ver={l.version} p={b01 l.piggybackingFlag} t={b01 l.teidFlag} prio={l.messagePriority} mt={l.messageType} ml={l.messageLength} teid={l.teid} seq={l.sequenceNumber} spare={l.spare} ies={listOr (l.ies.map renderIe) ","} contents={hexOfBytes l.contents} payload={hexOfBytes l.payload}"

/-- digest of a GTPv2 layer decoded from a very large input (`gtp2big`): lengths instead of bytes -/
def renderGtpBig (l : GTPv2) : String :=
  s!"ver={l.version} t={b01 l.teidFlag} mt={l.messageType} ml={l.messageLength} teid={l.teid} seq={l.sequenceNumber} spare={l.spare} nies={l.ies.length} ies={listOr ((l.ies.take 6).map (fun e => s!"{e.typ}:{e.content.length}")) ","} contents={l.contents.length} payload={l.payload.length}"

def renderAny : AnyIgmp → String
  | .v3 l => "igmp3 " ++ renderIgmp3 l
  | .v12 l => "igmp12 " ++ renderIgmp12 l

/-- reply of a DecodeFromBytes op: on an error the receiver is rendered too (what the failed call left behind). -/
def showDec {L : Type} (render : L → String) (r : Res (DecOut L)) : String :=
  match r with
  | .ok o => if o.err then s!"err trunc={b01 o.trunc} | {render o.layer}" else s!"ok {render o.layer} trunc={b01 o.trunc}"
  | .err _ => "err"
  | .panic k => "panic " ++ k.toString

def showAct : Act → String
  | .setTruncated => "trunc"
  | .addLayer t => s!"add:{t}"

def showTail : Tail → String
  | .done => "done"
  | .fail => "fail"
  | .nextLayerType t => s!"lt:{t}"

def showBeh (b : Beh) : String :=
  let acts := if b.acts.isEmpty then "-" else ",".intercalate (b.acts.map showAct)
  s!"acts={acts} tail={showTail b.tail}"

def showFn {L : Type} (render : L → String) (r : Res (Beh × Option L)) : String :=
  match r with
  | .ok (b, some l) => s!"{showBeh b} | {render l}"
  | .ok (b, none) => showBeh b
  | .err _ => "err"
  | .panic k => "panic " ++ k.toString

def showPkt {L : Type} (render : L → String) (r : Res (Beh × Option L)) : String :=
  match r with
  | .ok (_, some l) => s!"ok {render l}"
  | .ok (b, none) => s!"fail trunc={b01 (b.acts.contains .setTruncated)}"
  | .err _ => "err"
  | .panic k => "panic " ++ k.toString

def showDlp (useV3 : Bool) (r : Res (DlpState × Nat)) : String :=
  match r with
  | .panic k => "panic " ++ k.toString
  | .err _ => "err"
  | .ok (st, code) =>
    let dec := if st.decoded.isEmpty then "-" else ",".intercalate (st.decoded.map toString)
    let ig := if useV3 then renderIgmp3 st.igmp else renderIgmp12 st.igmp12
    s!"code={code} decoded={dec} trunc={b01 st.trunc} | {ig} | {renderAh st.ah} | {renderEsp st.esp} | {renderGtp st.gtp}"

def firstOf (s : String) : Option Nat :=
  if s == "igmp" then some LayerTypeIGMP
  else if s == "ah" then some LayerTypeIPSecAH
  else if s == "esp" then some LayerTypeIPSecESP
  else if s == "gtp2" then some LayerTypeGTPv2
  else none

def keep {L : Type} (dflt : L) (r : Res (DecOut L)) : L :=
  match r with | .ok o => o.layer | _ => dflt

def fnOf (kind : String) (d : GSlice)
    (f : {L : Type} → (L → String) → Res (Beh × Option L) → String) : Option String :=
  if kind == "igmp" then some (f renderAny (decodeIGMPFn d))
  else if kind == "ah" then some (f renderAh (decodeIPSecAHFn d))
  else if kind == "esp" then some (f renderEsp (decodeIPSecESPFn d))
  else if kind == "gtp2" then some (f renderGtp (decodeGTPv2Fn d))
  else none

/-- `off:hex` patches over a zero-filled buffer -/
def applyPatch (buf : Bytes) (off : Nat) (p : Bytes) : Bytes :=
  buf.take off ++ p ++ buf.drop (off + p.length)

def parsePatches (s : String) : Option (List (Nat × Bytes)) :=
  if s == "-" then some [] else
  (s.splitOn ",").mapM (fun w =>
    match w.splitOn ":" with
    | [o, h] => do
      let off ← o.toNat?
      let b ← bytesOfHex h
      pure (off, b)
    | _ => none)

def timeTable : String :=
  " ".intercalate ((List.range 256).map (fun t => toString (timeDecode (UInt8.ofNat t))))

def stepLigmp (st : St) (ws : List String) : St × String :=
  match ws with
  | ["reset"] => ({}, "ok")
  | ["ligmp", "dec", kind, extra, fh, h] =>
    match extra.toNat?, bytesOfHex fh, bytesOfHex h with
    | some n, some foreign, some data =>
      if foreign.length ≠ n then (st, "bad-op") else
      let d : GSlice := { vis := data, tail := foreign }
      if kind == "igmp12" then
        let r := IGMPv1or2.fresh.decodeFromBytes d
        ({ st with igmp12 := keep IGMPv1or2.fresh r }, showDec renderIgmp12 r)
      else if kind == "igmp3" then
        let r := IGMP.fresh.decodeFromBytes d
        ({ st with igmp3 := keep IGMP.fresh r }, showDec renderIgmp3 r)
      else if kind == "ah" then
        let r := IPSecAH.fresh.decodeFromBytes d
        ({ st with ah := keep IPSecAH.fresh r }, showDec renderAh r)
      else if kind == "esp" then
        let r := IPSecESP.fresh.decodeFromBytes d
        ({ st with esp := keep IPSecESP.fresh r }, showDec renderEsp r)
      else if kind == "gtp2" then
        let r := GTPv2.fresh.decodeFromBytes d
        ({ st with gtp := keep GTPv2.fresh r }, showDec renderGtp r)
      else (st, "bad-op")
    | _, _, _ => (st, "bad-op")
  | ["ligmp", "redec", kind, h] =>
    match bytesOfHex h with
    | some data =>
      let d : GSlice := { vis := data, tail := [] }
      if kind == "igmp12" then
        let r := st.igmp12.decodeFromBytes d
        ({ st with igmp12 := keep st.igmp12 r }, showDec renderIgmp12 r)
      else if kind == "igmp3" then
        let r := st.igmp3.decodeFromBytes d
        ({ st with igmp3 := keep st.igmp3 r }, showDec renderIgmp3 r)
      else if kind == "ah" then
        let r := st.ah.decodeFromBytes d
        ({ st with ah := keep st.ah r }, showDec renderAh r)
      else if kind == "esp" then
        let r := st.esp.decodeFromBytes d
        ({ st with esp := keep st.esp r }, showDec renderEsp r)
      else if kind == "gtp2" then
        let r := st.gtp.decodeFromBytes d
        ({ st with gtp := keep st.gtp r }, showDec renderGtp r)
      else (st, "bad-op")
    | none => (st, "bad-op")
  | ["ligmp", "fn", kind, extra, fh, h] =>
    match extra.toNat?, bytesOfHex fh, bytesOfHex h with
    | some n, some foreign, some data =>
      if foreign.length ≠ n then (st, "bad-op") else
      match fnOf kind { vis := data, tail := foreign } showFn with
      | some s => (st, s)
      | none => (st, "bad-op")
    | _, _, _ => (st, "bad-op")
  | ["ligmp", "pkt", kind, mode, extra, fh, h] =>
    match extra.toNat?, bytesOfHex fh, bytesOfHex h with
    | some n, some foreign, some data =>
      if foreign.length ≠ n ∨ ¬ (mode == "copy" ∨ mode == "nocopy" ∨ mode == "lazy" ∨ mode == "pool") then (st, "bad-op") else
      if (fnOf kind { vis := [], tail := [] } showPkt).isNone then (st, "bad-op") else
      if data.isEmpty then (st, "empty") else
      let d : GSlice := { vis := data, tail := if mode == "nocopy" then foreign else [] }
      match fnOf kind d showPkt with
      | some s => (st, s)
      | none => (st, "bad-op")
    | _, _, _ => (st, "bad-op")
  | ["ligmp", op, variant, first, h] =>
    if ¬ (op == "dlp" ∨ op == "redlp") ∨ ¬ (variant == "v3" ∨ variant == "v12") then (st, "bad-op") else
    match firstOf first, bytesOfHex h with
    | some first, some data =>
      let useV3 := variant == "v3"
      let fresh := DlpState.init IGMP.fresh IGMPv1or2.fresh IPSecAH.fresh IPSecESP.fresh GTPv2.fresh
      let st0 := if op == "dlp" then fresh else st.dlp
      let r := dlpDecodeLayers useV3 st0 first { vis := data, tail := [] }
      let st' := match r with
        | .ok (s, _) => { st with dlp := s }
        | _ => { st with dlp := st0 }
      (st', showDlp useV3 r)
    | _, _ => (st, "bad-op")
  | ["ligmp", "gtp2big", n, ps] =>
    match n.toNat?, parsePatches ps with
    | some n, some patches =>
      if n > 200000 ∨ patches.any (fun p => p.1 + p.2.length > n) then (st, "bad-op") else
      let data := patches.foldl (fun b p => applyPatch b p.1 p.2) (List.replicate n (0 : UInt8))
      (st, showDec renderGtpBig (GTPv2.fresh.decodeFromBytes { vis := data, tail := [] }))
    | _, _ => (st, "bad-op")
  | ["ligmp", "iptab"] =>
    (st, "ok " ++ ",".intercalate ((List.range 256).map (fun p => toString (ipProtoLayerType p))) ++
      s!" lt={LayerTypeIGMP},{LayerTypeIPSecAH},{LayerTypeIPSecESP},{LayerTypeGTPv2},{LayerTypePayload}")
  | ["ligmp", "time"] => (st, "ok " ++ timeTable)
  | _ => (st, "bad-op")

def main : IO Unit := run ({} : St) stepLigmp
