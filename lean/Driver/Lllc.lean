import Driver.Common
import Gp.Model.Layers.Llc
/- Model driver for engine `lllc` (LLC + SNAP + STP codec; C19, C05, C06, C07). -/
open Gp Gp.SBuf Gp.Llc Driver

structure St where
  llc   : LLC := LLC.fresh       -- the objects re-used by `redec …`
  snap  : SNAP := SNAP.fresh
  stp   : STP := STP.fresh
  pLlc  : LLC := LLC.fresh       -- the objects owned by the DecodingLayerParser
  pSnap : SNAP := SNAP.fresh
  pStp  : STP := STP.fresh

def b01 (b : Bool) : String := if b then "1" else "0"

def boolOf (s : String) : Option Bool :=
  if s == "1" then some true else if s == "0" then some false else none

def natBelow (s : String) (bound : Nat) : Option Nat :=
  match s.toNat? with
  | some n => if n < bound then some n else none
  | none => none

/-- payload token: hex, `-`, or `z<n>x<hh>` (n copies of byte hh). -/
def payloadOf (s : String) : Option (List UInt8) :=
  if s.startsWith "z" then
    match (String.ofList (s.toList.drop 1)).splitOn "x" with
    | [n, hh] =>
      match n.toNat?, bytesOfHex hh with
      | some n, some [v] => if n ≤ 200000 then some (List.replicate n v) else none
      | _, _ => none
    | _ => none
  else bytesOfHex s

def renderLlc (l : LLC) : String :=
  s!"dsap={l.dsap} ig={b01 l.ig} ssap={l.ssap} cr={b01 l.cr} control={l.control} contents={hexOfBytes l.contents} payload={hexOfBytes l.payload} next={l.nextLayerType}"

def renderSnap (l : SNAP) : String :=
  s!"org={hexOfBytes l.org} type={l.type} contents={hexOfBytes l.contents} payload={hexOfBytes l.payload} next={l.nextLayerType}"

def renderStp (l : STP) : String :=
  s!"pid={l.protocolID} ver={l.version} type={l.type} tc={b01 l.tc} tca={b01 l.tca} rprio={l.routeID.priority} rsys={l.routeID.sysID} rhw={hexOfBytes l.routeID.hwAddr} cost={l.cost} bprio={l.bridgeID.priority} bsys={l.bridgeID.sysID} bhw={hexOfBytes l.bridgeID.hwAddr} port={l.portID} age={l.messageAge} max={l.maxAge} hello={l.helloTime} fdelay={l.fDelay} contents={hexOfBytes l.contents} payload={hexOfBytes l.payload} next={l.nextLayerType}"

def showDec {L : Type} (render : L → String) (r : Res (DecOut L)) : String :=
  match r with
  | .ok o => if o.err then s!"err trunc={b01 o.trunc}" else s!"ok {render o.layer} trunc={b01 o.trunc}"
  | .err _ => "err"
  | .panic k => "panic " ++ k.toString

/-- the buffer histories of the `ser` op -/
def bufOf (h : String) : Option SBuf :=
  if h == "fresh" then some (new 0 0)
  else if h.startsWith "dirty" then
    match natBelow (String.ofList (h.toList.drop 5)) 256 with
    | some v =>
      let junk := List.replicate 64 (UInt8.ofNat v)
      some (clear (step (step (new 0 0) (.append junk)) (.prepend junk)))
    | none => none
  else if h.startsWith "sized" then
    match natBelow (String.ofList (h.toList.drop 5)) 100000 with
    | some n => some (new n n)
    | none => none
  else none

/-- the buffer of SerializeLayers(buf, opts, layer, Payload(p)) just before the layer's SerializeTo -/
def overPayload (p : List UInt8) : SBuf := pushLayer (serializePayload p (clear (new 0 0))) 2

def showSer {L : Type} (r : Res (SerOut L)) : String :=
  match r with
  | .ok o => if o.err then "err" else s!"ok bytes={hexOfBytes (contents o.buf)}"
  | .err _ => "err"
  | .panic k => "panic " ++ k.toString

/-- round trip: serialize (fix+csum) over `p`, decode into a fresh object, serialize the decoded layer
    over its own payload again. -/
def rt {L : Type} (ser : L → SBuf → Res (SerOut L)) (dec : GSlice → Res (DecOut L)) (pay : L → List UInt8)
    (render : L → String) (l : L) (p : List UInt8) : String :=
  match ser l (overPayload p) with
  | .panic k => "panic " ++ k.toString
  | .err _ => "ser-err"
  | .ok o =>
    if o.err then "ser-err" else
    let bytes := contents o.buf
    let d := dec { vis := bytes, tail := [] }
    let again :=
      match d with
      | .ok od =>
        if od.err then "none" else
        match ser od.layer (overPayload (pay od.layer)) with
        | .ok o2 => if o2.err then "err" else if contents o2.buf = bytes then "same" else "diff"
        | .err _ => "err"
        | .panic k => "panic-" ++ k.toString
      | _ => "none"
    s!"ok bytes={hexOfBytes bytes} | {showDec render d} | again={again}"

def rtLlc := rt (fun (l : LLC) b => l.serializeTo b true true) LLC.fresh.decodeFromBytes LLC.payload renderLlc
def rtSnap := rt (fun (l : SNAP) b => l.serializeTo b true true) SNAP.fresh.decodeFromBytes SNAP.payload renderSnap
def rtStp := rt (fun (l : STP) b => l.serializeTo b true true) STP.fresh.decodeFromBytes STP.payload renderStp

def showAct : Act → String
  | .setTruncated => "trunc"
  | .addLayer t => s!"add:{t}"

def showTail : Tail → String
  | .done => "done"
  | .fail => "fail"
  | .nextEthType a => s!"eth:{a}"
  | .nextLayerType t => s!"lt:{t}"

def showBeh (b : Beh) : String :=
  let acts := if b.acts.isEmpty then "-" else ",".intercalate (b.acts.map showAct)
  s!"acts={acts} tail={showTail b.tail}"

def showPb {L : Type} (render : L → String) (r : Res (Beh × Option L)) : String :=
  match r with
  | .ok (b, some l) => s!"{showBeh b} | {render l}"
  | .ok (b, none) => showBeh b
  | .err _ => "err"
  | .panic k => "panic " ++ k.toString

def showPkt {L : Type} (render : L → String) (r : Res (Beh × Option L)) : String :=
  match r with
  | .ok (_, some l) => s!"ok {render l}"
  | .ok (_, none) => "fail"
  | .err _ => "err"
  | .panic k => "panic " ++ k.toString

def insertSorted (x : Nat × Nat) : List (Nat × Nat) → List (Nat × Nat)
  | [] => [x]
  | y :: ys => if x.1 ≤ y.1 then x :: y :: ys else y :: insertSorted x ys

def showDlp (r : Res (DlpState × Nat)) : String :=
  match r with
  | .panic k => "panic " ++ k.toString
  | .err _ => "err"
  | .ok (st, code) =>
    let dec := if st.decoded.isEmpty then "-" else ",".intercalate (st.decoded.map toString)
    s!"code={code} decoded={dec} trunc={b01 st.trunc} | {renderLlc st.llc} | {renderSnap st.snap} | {renderStp st.stp}"

def mkLlc (dsap : Nat) (ig : Bool) (ssap : Nat) (cr : Bool) (control : Nat) : LLC :=
  { LLC.fresh with dsap := dsap, ig := ig, ssap := ssap, cr := cr, control := control }

def parseLlc : List String → Option LLC
  | [dsap, ig, ssap, cr, control] =>
    match natBelow dsap 256, boolOf ig, natBelow ssap 256, boolOf cr, natBelow control 65536 with
    | some dsap, some ig, some ssap, some cr, some control => some (mkLlc dsap ig ssap cr control)
    | _, _, _, _, _ => none
  | _ => none

def parseSnap : List String → Option SNAP
  | [org, ty] =>
    match bytesOfHex org, natBelow ty 65536 with
    | some org, some ty => some { SNAP.fresh with org := org, type := ty }
    | _, _ => none
  | _ => none

def parseStp : List String → Option STP
  | [pid, ver, ty, tc, tca, rprio, rsys, rhw, cost, bprio, bsys, bhw, port, age, mx, hello, fd] =>
    match natBelow pid 65536, natBelow ver 256, natBelow ty 256, boolOf tc, boolOf tca,
          natBelow rprio 65536, natBelow rsys 65536, bytesOfHex rhw, natBelow cost 4294967296 with
    | some pid, some ver, some ty, some tc, some tca, some rprio, some rsys, some rhw, some cost =>
      match natBelow bprio 65536, natBelow bsys 65536, bytesOfHex bhw, natBelow port 65536,
            natBelow age 65536, natBelow mx 65536, natBelow hello 65536, natBelow fd 65536 with
      | some bprio, some bsys, some bhw, some port, some age, some mx, some hello, some fd =>
        some { STP.fresh with protocolID := pid, version := ver, type := ty, tc := tc, tca := tca,
                              routeID := { priority := rprio, sysID := rsys, hwAddr := rhw }, cost := cost,
                              bridgeID := { priority := bprio, sysID := bsys, hwAddr := bhw }, portID := port,
                              messageAge := age, maxAge := mx, helloTime := hello, fDelay := fd }
      | _, _, _, _, _, _, _, _ => none
    | _, _, _, _, _, _, _, _, _ => none
  | _ => none

/-- `fix csum hist` prefix of a `ser` op -/
def parseOpts : String → String → String → Option (Bool × Bool × SBuf)
  | fix, csum, hist =>
    match boolOf fix, boolOf csum, bufOf hist with
    | some f, some c, some b => some (f, c, b)
    | _, _, _ => none

def dropLast (xs : List String) : List String := xs.take (xs.length - 1)

def stepLllc (st : St) (ws : List String) : St × String :=
  match ws with
  | ["reset"] => ({}, "ok")
  | ["lllc", "dec", kind, extra, fh, h] =>
    match extra.toNat?, bytesOfHex fh, bytesOfHex h with
    | some n, some foreign, some data =>
      if foreign.length ≠ n then (st, "bad-op") else
      let d : GSlice := { vis := data, tail := foreign }
      if kind == "llc" then
        let r := LLC.fresh.decodeFromBytes d
        ({ st with llc := match r with | .ok o => o.layer | _ => LLC.fresh }, showDec renderLlc r)
      else if kind == "snap" then
        let r := SNAP.fresh.decodeFromBytes d
        ({ st with snap := match r with | .ok o => o.layer | _ => SNAP.fresh }, showDec renderSnap r)
      else if kind == "stp" then
        let r := STP.fresh.decodeFromBytes d
        ({ st with stp := match r with | .ok o => o.layer | _ => STP.fresh }, showDec renderStp r)
      else (st, "bad-op")
    | _, _, _ => (st, "bad-op")
  | ["lllc", "redec", kind, h] =>
    match bytesOfHex h with
    | some data =>
      let d : GSlice := { vis := data, tail := [] }
      if kind == "llc" then
        let r := st.llc.decodeFromBytes d
        ({ st with llc := match r with | .ok o => o.layer | _ => st.llc }, showDec renderLlc r)
      else if kind == "snap" then
        let r := st.snap.decodeFromBytes d
        ({ st with snap := match r with | .ok o => o.layer | _ => st.snap }, showDec renderSnap r)
      else if kind == "stp" then
        let r := st.stp.decodeFromBytes d
        ({ st with stp := match r with | .ok o => o.layer | _ => st.stp }, showDec renderStp r)
      else (st, "bad-op")
    | none => (st, "bad-op")
  | "lllc" :: "ser" :: kind :: fix :: csum :: hist :: rest =>
    match parseOpts fix csum hist, rest.getLast? with
    | some (fix, csum, b), some pl =>
      match payloadOf pl with
      | none => (st, "bad-op")
      | some p =>
        let b := serializePayload p b
        let fields := dropLast rest
        if kind == "llc" then
          match parseLlc fields with
          | some l => (st, showSer (l.serializeTo b fix csum))
          | none => (st, "bad-op")
        else if kind == "snap" then
          match parseSnap fields with
          | some l => (st, showSer (l.serializeTo b fix csum))
          | none => (st, "bad-op")
        else if kind == "stp" then
          match parseStp fields with
          | some l => (st, showSer (l.serializeTo b fix csum))
          | none => (st, "bad-op")
        else (st, "bad-op")
    | _, _ => (st, "bad-op")
  | "lllc" :: "rt" :: kind :: rest =>
    match rest.getLast? with
    | some pl =>
      match payloadOf pl with
      | none => (st, "bad-op")
      | some p =>
        let fields := dropLast rest
        if kind == "llc" then
          match parseLlc fields with
          | some l => (st, rtLlc l p)
          | none => (st, "bad-op")
        else if kind == "snap" then
          match parseSnap fields with
          | some l => (st, rtSnap l p)
          | none => (st, "bad-op")
        else if kind == "stp" then
          match parseStp fields with
          | some l => (st, rtStp l p)
          | none => (st, "bad-op")
        else (st, "bad-op")
    | none => (st, "bad-op")
  | ["lllc", "rtdec", kind, h] =>
    match bytesOfHex h with
    | some data =>
      let d : GSlice := { vis := data, tail := [] }
      if kind == "llc" then
        match LLC.fresh.decodeFromBytes d with
        | .ok o => if o.err then (st, "dec-err") else (st, rtLlc o.layer o.layer.payload)
        | .err _ => (st, "dec-err")
        | .panic k => (st, "panic " ++ k.toString)
      else if kind == "snap" then
        match SNAP.fresh.decodeFromBytes d with
        | .ok o => if o.err then (st, "dec-err") else (st, rtSnap o.layer o.layer.payload)
        | .err _ => (st, "dec-err")
        | .panic k => (st, "panic " ++ k.toString)
      else if kind == "stp" then
        match STP.fresh.decodeFromBytes d with
        | .ok o => if o.err then (st, "dec-err") else (st, rtStp o.layer o.layer.payload)
        | .err _ => (st, "dec-err")
        | .panic k => (st, "panic " ++ k.toString)
      else (st, "bad-op")
    | none => (st, "bad-op")
  | ["lllc", "pb", kind, h] =>
    match bytesOfHex h with
    | some data =>
      let d : GSlice := { vis := data, tail := [] }
      if kind == "llc" then (st, showPb renderLlc (decodeLLCFn d))
      else if kind == "snap" then (st, showPb renderSnap (decodeSNAPFn d))
      else if kind == "stp" then (st, showPb renderStp (decodeSTPFn d))
      else (st, "bad-op")
    | none => (st, "bad-op")
  | ["lllc", "pkt", kind, mode, extra, fh, h] =>
    match extra.toNat?, bytesOfHex fh, bytesOfHex h with
    | some n, some foreign, some data =>
      if foreign.length ≠ n ∨ ¬ (mode == "copy" ∨ mode == "nocopy" ∨ mode == "lazy") then (st, "bad-op") else
      if ¬ (kind == "llc" ∨ kind == "snap" ∨ kind == "stp") then (st, "bad-op") else
      if data.isEmpty then (st, "empty") else
      -- the copying paths give the decoder a buffer with cap = len
      let d : GSlice := { vis := data, tail := if mode == "nocopy" then foreign else [] }
      if kind == "llc" then (st, showPkt renderLlc (decodeLLCFn d))
      else if kind == "snap" then (st, showPkt renderSnap (decodeSNAPFn d))
      else (st, showPkt renderStp (decodeSTPFn d))
    | _, _, _ => (st, "bad-op")
  | ["lllc", "dlp", h] =>
    match bytesOfHex h with
    | some data =>
      let r := dlpDecodeLayers LLC.fresh SNAP.fresh STP.fresh { vis := data, tail := [] }
      let st' := match r with
        | .ok (s, _) => { st with pLlc := s.llc, pSnap := s.snap, pStp := s.stp }
        | _ => { st with pLlc := LLC.fresh, pSnap := SNAP.fresh, pStp := STP.fresh }
      (st', showDlp r)
    | none => (st, "bad-op")
  | ["lllc", "redlp", h] =>
    match bytesOfHex h with
    | some data =>
      let r := dlpDecodeLayers st.pLlc st.pSnap st.pStp { vis := data, tail := [] }
      let st' := match r with
        | .ok (s, _) => { st with pLlc := s.llc, pSnap := s.snap, pStp := s.stp }
        | _ => st
      (st', showDlp r)
    | none => (st, "bad-op")
  | ["lllc", "nlttab"] =>
    let rows := ethTypeTable.foldr insertSorted []
    (st, "ok " ++ ",".intercalate (rows.map (fun r => s!"{r.1}:{r.2}")))
  | _ => (st, "bad-op")

def main : IO Unit := run ({} : St) stepLllc
