import Driver.Common
import Gp.Model.Layers.Mld2
/- Model driver for engine `lmld2` (MLDv2 query/report codecs; C19, C05, C06, C07).
   Protocol: notes/lmld2.md. -/
open Gp Gp.SBuf Gp.Mld Gp.Mld2 Driver

structure St where
  q  : Query := Query.fresh                -- the objects re-used by `redec`
  r  : Report := Report.fresh
  pQ : Query := Query.fresh                -- the objects owned by the DecodingLayerParser
  pR : Report := Report.fresh

def b01 (b : Bool) : String := if b then "1" else "0"

def boolOf (s : String) : Option Bool :=
  if s == "1" then some true else if s == "0" then some false else none

def natBelow (s : String) (bound : Nat) : Option Nat :=
  match s.toNat? with
  | some n => if n < bound then some n else none
  | none => none

def dropStr (s : String) (n : Nat) : String := String.ofList (s.toList.drop n)

/-- `z<n>x<hh>` -/
def zForm (s : String) (maxN : Nat) : Option (List UInt8) :=
  match (dropStr s 1).splitOn "x" with
  | [n, hh] =>
    match n.toNat?, bytesOfHex hh with
    | some n, some [v] => if n ≤ maxN then some (List.replicate n v) else none
    | _, _ => none
  | _ => none

/-- payload token: hex, `-`, or `z<n>x<hh>`. -/
def payloadOf (s : String) : Option (List UInt8) :=
  if s.startsWith "z" then zForm s 200000 else bytesOfHex s

/-- a byte string inside a list / record: hex or `_`. -/
def itemOf (s : String) : Option (List UInt8) :=
  if s == "_" then some [] else if s == "-" ∨ s == "" then none else bytesOfHexChars s.toList

/-- top-level address: hex, `-` or `_`. -/
def addrOf (s : String) : Option (List UInt8) :=
  if s == "_" then some [] else bytesOfHex s

def itemGroup (s : String) : Option (List (List UInt8)) :=
  if s.startsWith "r" then
    match (dropStr s 1).splitOn "x" with
    | [n, it] =>
      match n.toNat?, itemOf it with
      | some n, some v => if n ≤ 70000 then some (List.replicate n v) else none
      | _, _ => none
    | _ => none
  else (itemOf s).map (fun v => [v])

def itemsOf (s : String) : Option (List (List UInt8)) :=
  if s == "." then some []
  else ((s.splitOn ",").mapM itemGroup).map List.flatten

def auxOf (s : String) : Option (List UInt8) :=
  if s.startsWith "z" then zForm s 200000 else itemOf s

def recOf (s : String) : Option Rec :=
  match s.splitOn ":" with
  | [t, al, n, addr, srcs, aux] =>
    match natBelow t 256, natBelow al 256, natBelow n 65536, itemOf addr, itemsOf srcs, auxOf aux with
    | some t, some al, some n, some addr, some srcs, some aux =>
      some { typ := t, auxLen := al, n := n, addr := addr, srcs := srcs, aux := aux }
    | _, _, _, _, _, _ => none
  | _ => none

def recsOf (s : String) : Option (List Rec) :=
  if s == "." then some [] else (s.splitOn ";").mapM recOf

def showItem (b : List UInt8) : String := if b.isEmpty then "_" else hexOfBytes b

def showItems (l : List (List UInt8)) : String :=
  if l.isEmpty then "." else ",".intercalate (l.map showItem)

def showRec (r : Rec) : String :=
  s!"{r.typ}:{r.auxLen}:{r.n}:{showItem r.addr}:{showItems r.srcs}:{showItem r.aux}"

def showRecs (l : List Rec) : String :=
  if l.isEmpty then "." else ";".intercalate (l.map showRec)

def renderQ (l : Query) : String :=
  s!"mrc={l.mrc} addr={hexOfBytes l.addr} s={b01 l.s} qrv={l.qrv} qqic={l.qqic} n={l.n} srcs={showItems l.srcs} mrd={l.maximumResponseDelay} qqi={l.qqi} contents={hexOfBytes l.contents} payload={hexOfBytes l.payload} next={l.nextLayerType}"

def renderR (l : Report) : String :=
  s!"nrec={l.nrec} recs={showRecs l.recs} contents={hexOfBytes l.contents} payload={hexOfBytes l.payload} next={l.nextLayerType}"

def showDec {L : Type} (render : L → String) (r : Res (DecOut L)) : String :=
  match r with
  | .ok o => if o.err then s!"err trunc={b01 o.trunc} | {render o.layer}" else s!"ok {render o.layer} trunc={b01 o.trunc}"
  | .err _ => "err"
  | .panic k => "panic " ++ k.toString

def bufOf (h : String) : Option SBuf :=
  if h == "fresh" then some (new 0 0)
  else if h.startsWith "dirty" then
    match natBelow (dropStr h 5) 256 with
    | some v =>
      let junk := List.replicate 64 (UInt8.ofNat v)
      some (clear (step (step (new 0 0) (.append junk)) (.prepend junk)))
    | none => none
  else if h.startsWith "sized" then
    match natBelow (dropStr h 5) 100000 with
    | some n => some (new n n)
    | none => none
  else none

/-- the buffer SerializeLayers hands to the layer: cleared, payload serialized and pushed -/
def overPayload (p : List UInt8) : SBuf := pushLayer (serializePayload p (clear (new 0 0))) 2

def againStr {L : Type} (r : Res (SerOut L)) (bytes : List UInt8) : String :=
  match r with
  | .ok o2 => if o2.err then "err" else if contents o2.buf = bytes then "same" else "diff"
  | .err _ => "err"
  | .panic k => "panic-" ++ k.toString

def showSer {L : Type} (render : L → String) (ser : L → SBuf → Res (SerOut L)) (l : L) (b : SBuf) (p : List UInt8) : String :=
  match ser l (serializePayload p b) with
  | .panic k => "panic " ++ k.toString
  | .err _ => "err"
  | .ok o =>
    if o.err then s!"err | {render o.layer}"
    else
      let bytes := contents o.buf
      s!"ok bytes={hexOfBytes bytes} | {render o.layer} | again={againStr (ser o.layer (serializePayload p b)) bytes}"

def showRt {L : Type} (render : L → String) (ser : L → SBuf → Res (SerOut L))
    (dec : GSlice → Res (DecOut L)) (pl : L → List UInt8) (l : L) (p : List UInt8) : String :=
  match ser l (overPayload p) with
  | .panic k => "panic " ++ k.toString
  | .err _ => "ser-err"
  | .ok o =>
    if o.err then "ser-err" else
    let bytes := contents o.buf
    let d := dec { vis := bytes, tail := [] }
    let again :=
      match d with
      | .ok od => if od.err then "none" else againStr (ser od.layer (overPayload (pl od.layer))) bytes
      | _ => "none"
    s!"ok bytes={hexOfBytes bytes} | {showDec render d} | again={again}"

def showPkt {L : Type} (render : L → String) (pl : L → List UInt8) (r : Res (Beh × Option L)) : String :=
  match r with
  | .ok (b, some l) =>
    let tr := b.acts.contains Act.setTruncated
    let extra := match b.tail with
      | .nextLayerType _ => if (pl l).isEmpty then 0 else 1     -- gopacket.Payload layer behind a report
      | _ => 0
    s!"ok {render l} trunc={b01 tr} layers={1 + extra}"
  | .ok (b, none) => s!"fail trunc={b01 (b.acts.contains Act.setTruncated)}"
  | .err _ => "err"
  | .panic k => "panic " ++ k.toString

/-- DecodingLayerParser over {query, report}: one DecodeFromBytes into the parser's object; the
    loop ends behind it (empty payload → nil; next type Zero → nil; Payload is not in the set →
    UnsupportedLayerType). -/
def showDlp {L : Type} (render : L → String) (typ : Nat) (next : L → Nat) (pl : L → List UInt8)
    (r : Res (DecOut L)) : String :=
  match r with
  | .panic k => "panic " ++ k.toString
  | .err _ => "err"
  | .ok o =>
    if o.err then s!"decoded=- code=1 trunc={b01 o.trunc} | {render o.layer}"
    else
      let code := if (pl o.layer).isEmpty then 0 else if next o.layer = LayerTypeZero then 0 else 2
      s!"decoded={typ} code={code} trunc={b01 o.trunc} | {render o.layer}"

def keep {L : Type} (dflt : L) (r : Res (DecOut L)) : L :=
  match r with | .ok o => o.layer | _ => dflt

def stepLmld2 (st : St) (ws : List String) : St × String :=
  match ws with
  | ["reset"] => ({}, "ok")
  | ["lmld2", "dec", kind, extra, fh, h] =>
    match extra.toNat?, bytesOfHex fh, bytesOfHex h with
    | some n, some foreign, some data =>
      if foreign.length ≠ n then (st, "bad-op") else
      let d : GSlice := { vis := data, tail := foreign }
      if kind == "query" then
        let r := Query.fresh.decodeFromBytes d
        ({ st with q := keep Query.fresh r }, showDec renderQ r)
      else if kind == "report" then
        let r := Report.fresh.decodeFromBytes d
        ({ st with r := keep Report.fresh r }, showDec renderR r)
      else (st, "bad-op")
    | _, _, _ => (st, "bad-op")
  | ["lmld2", "redec", kind, h] =>
    match bytesOfHex h with
    | some data =>
      let d : GSlice := { vis := data, tail := [] }
      if kind == "query" then
        let r := st.q.decodeFromBytes d
        ({ st with q := keep st.q r }, showDec renderQ r)
      else if kind == "report" then
        let r := st.r.decodeFromBytes d
        ({ st with r := keep st.r r }, showDec renderR r)
      else (st, "bad-op")
    | none => (st, "bad-op")
  | ["lmld2", "ser", "query", fix, csum, hist, mrc, addr, s, qrv, qqic, n, srcs, pl] =>
    match boolOf fix, boolOf csum, bufOf hist, natBelow mrc 65536, addrOf addr, boolOf s, natBelow qrv 256 with
    | some fix, some csum, some b, some mrc, some addr, some s, some qrv =>
      match natBelow qqic 256, natBelow n 65536, itemsOf srcs, payloadOf pl with
      | some qqic, some n, some srcs, some p =>
        let l : Query := { Query.fresh with mrc := mrc, addr := addr, s := s, qrv := qrv, qqic := qqic, n := n, srcs := srcs }
        (st, showSer renderQ (fun l b => l.serializeTo b fix csum) l b p)
      | _, _, _, _ => (st, "bad-op")
    | _, _, _, _, _, _, _ => (st, "bad-op")
  | ["lmld2", "ser", "report", fix, csum, hist, nrec, recs, pl] =>
    match boolOf fix, boolOf csum, bufOf hist, natBelow nrec 65536, recsOf recs, payloadOf pl with
    | some fix, some csum, some b, some nrec, some recs, some p =>
      let l : Report := { Report.fresh with nrec := nrec, recs := recs }
      (st, showSer renderR (fun l b => l.serializeTo b fix csum) l b p)
    | _, _, _, _, _, _ => (st, "bad-op")
  | ["lmld2", "rt", "query", mrc, addr, s, qrv, qqic, n, srcs, pl] =>
    match natBelow mrc 65536, addrOf addr, boolOf s, natBelow qrv 256, natBelow qqic 256, natBelow n 65536, itemsOf srcs, payloadOf pl with
    | some mrc, some addr, some s, some qrv, some qqic, some n, some srcs, some p =>
      let l : Query := { Query.fresh with mrc := mrc, addr := addr, s := s, qrv := qrv, qqic := qqic, n := n, srcs := srcs }
      (st, showRt renderQ (fun l b => l.serializeTo b true true) (fun d => Query.fresh.decodeFromBytes d) (·.payload) l p)
    | _, _, _, _, _, _, _, _ => (st, "bad-op")
  | ["lmld2", "rt", "report", nrec, recs, pl] =>
    match natBelow nrec 65536, recsOf recs, payloadOf pl with
    | some nrec, some recs, some p =>
      let l : Report := { Report.fresh with nrec := nrec, recs := recs }
      (st, showRt renderR (fun l b => l.serializeTo b true true) (fun d => Report.fresh.decodeFromBytes d) (·.payload) l p)
    | _, _, _ => (st, "bad-op")
  | ["lmld2", "pkt", kind, mode, extra, fh, h] =>
    match extra.toNat?, bytesOfHex fh, bytesOfHex h with
    | some n, some foreign, some data =>
      if foreign.length ≠ n ∨ ¬ (mode == "copy" ∨ mode == "nocopy" ∨ mode == "lazy") then (st, "bad-op") else
      let d : GSlice := { vis := data, tail := if mode == "copy" then [] else foreign }
      -- packet.go lazyPacket.decodeNextLayer: no data, no decoder call at all
      if mode == "lazy" ∧ data.isEmpty ∧ (kind == "query" ∨ kind == "report") then (st, "fail trunc=0") else
      if kind == "query" then (st, showPkt renderQ (·.payload) (decodeQueryFn d))
      else if kind == "report" then (st, showPkt renderR (·.payload) (decodeReportFn d))
      else (st, "bad-op")
    | _, _, _ => (st, "bad-op")
  | ["lmld2", "dlp", kind, h] =>
    match bytesOfHex h with
    | some data =>
      let d : GSlice := { vis := data, tail := [] }
      if kind == "query" then
        let r := Query.fresh.decodeFromBytes d
        ({ st with pQ := keep Query.fresh r, pR := Report.fresh },
          showDlp renderQ Query.layerType Query.nextLayerType (·.payload) r)
      else if kind == "report" then
        let r := Report.fresh.decodeFromBytes d
        ({ st with pR := keep Report.fresh r, pQ := Query.fresh },
          showDlp renderR Report.layerType Report.nextLayerType (·.payload) r)
      else (st, "bad-op")
    | none => (st, "bad-op")
  | ["lmld2", "redlp", kind, h] =>
    match bytesOfHex h with
    | some data =>
      let d : GSlice := { vis := data, tail := [] }
      if kind == "query" then
        let r := st.pQ.decodeFromBytes d
        ({ st with pQ := keep st.pQ r }, showDlp renderQ Query.layerType Query.nextLayerType (·.payload) r)
      else if kind == "report" then
        let r := st.pR.decodeFromBytes d
        ({ st with pR := keep st.pR r }, showDlp renderR Report.layerType Report.nextLayerType (·.payload) r)
      else (st, "bad-op")
    | none => (st, "bad-op")
  | _ => (st, "bad-op")

def main : IO Unit := run ({} : St) stepLmld2
