import Driver.Common
import Gp.Model.ParserScript
/- Model driver for engine `dlp` (C05, parser part).  Ops: see harness/cmd/gp-dlp/main.go. -/
open Gp Gp.Parser Gp.Parser.Script Driver

structure Obj where
  sticky : Bool
  types  : List LType
  deriving Inhabited

structure St where
  objs    : List (Nat × Obj) := []          -- sorted by id
  store   : Nat → SState := fun _ => {}
  puts    : List Nat := []                  -- Put history of the four look-up containers
  sparse  : Option Sparse := some []        -- none: a Put panicked, the container is dead
  arr     : Arr := []
  map     : MapC := mapEmpty
  parser  : Option (Parser SState) := none
  pkind   : String := ""
  pputs   : List Nat := []                  -- Put history of the parser's own container
  truncated : Bool := false
  decoded : List LType := []

def fuel : Nat := 4000

def insObj (l : List (Nat × Obj)) (i : Nat) (o : Obj) : List (Nat × Obj) :=
  match l with
  | [] => [(i, o)]
  | (j, p) :: r => if i < j then (i, o) :: (j, p) :: r else if i = j then (i, o) :: r else (j, p) :: insObj r i o

def findObj (st : St) (i : Nat) : Option Obj := (st.objs.find? (·.1 == i)).map (·.2)

def clsOf (st : St) : Nat → DLayer SState := fun i =>
  match findObj st i with
  | some o => sLayer o.sticky o.types
  | none => sLayer false []

def putOpOf (st : St) (i : Nat) : PutOp := ((findObj st i).map (·.types) |>.getD [], i)

def typesOf (s : String) : Option (List LType) :=
  if s == "-" then some [] else (s.splitOn ",").mapM String.toInt?

def showLook : Look → String
  | .found i => toString i
  | .missing => "-"
  | .panic k => "panic:" ++ k.toString

def showTypes (ts : List LType) : String :=
  if ts.isEmpty then "-" else ",".intercalate (ts.map toString)

def showState (s : SState) : String :=
  s!"{s.val}:{s.extra}:{s.next}:{hexOfBytes s.contents}:{hexOfBytes s.payload}"

def showObjs (st : St) (store : Nat → SState) : String :=
  if st.objs.isEmpty then "-" else ";".intercalate (st.objs.map (fun (i, _) => s!"{i}:{showState (store i)}"))

def showRet : Ret → String
  | .nil => "nil"
  | .unsupported t => s!"unsup:{t}"
  | .err => "err"
  | .panicErr => "perr"
  | .panic k => "panic:" ++ k.toString
  | .diverge => "diverge"

def bit (s : String) : Option Bool := if s == "1" then some true else if s == "0" then some false else none

/-- look function of a container of kind `k` freshly built from the Put history `ps`;
    `none`: building it panicked (sparse with a negative type). -/
def lookOfKind (st : St) (k : String) (ps : List Nat) : Option (Res (LType → Look)) :=
  let ops := ps.map (putOpOf st)
  if k == "s" then
    match sparseOf ops with
    | .ok dl => some (.ok (sparseLook dl))
    | .panic pk => some (.panic pk)
    | .err e => some (.err e)
  else if k == "a" then some (.ok (arrLook (arrOf ops)))
  else if k == "m" || k == "c" || k == "n" then some (.ok (mapLook (mapOf ops)))
  else none

def mkP (st : St) (k : String) (ps : List Nat) (first : LType) (o : Opts) : Option (St × String) :=
  match lookOfKind st k ps with
  | none => none
  | some (.panic pk) => some ({ st with parser := none, pkind := k, pputs := ps }, "panic " ++ pk.toString)
  | some (.err _) => some (st, "bad-op")
  | some (.ok look) =>
    match mkParser (clsOf st) look first o with
    | .ok p => some ({ st with parser := some p, pkind := k, pputs := ps, truncated := false }, "ok")
    | .panic pk => some ({ st with parser := none, pkind := k, pputs := ps }, "panic " ++ pk.toString)
    | .err _ => some (st, "bad-op")

def showItem : PItem SState → String
  | .layer t s => s!"{t}:{showState s}"
  | .failure => "F"

def stepDlp (st : St) (ws : List String) : St × String :=
  match ws with
  | ["reset"] => ({}, "ok")
  | ["dlp", "obj", i, sticky, ts] =>
    match i.toNat?, bit sticky, typesOf ts with
    | some i, some sticky, some ts =>
      ({ st with objs := insObj st.objs i ⟨sticky, ts⟩, store := upd st.store i {} }, "ok")
    | _, _, _ => (st, "bad-op")
  | ["dlp", "put", i] =>
    match i.toNat? with
    | some i =>
      match findObj st i with
      | none => (st, "bad-op")
      | some _ =>
        let op := putOpOf st i
        let (sp, spMsg) :=
          match st.sparse with
          | none => (none, "dead")
          | some dl =>
            match sparsePut dl op with
            | .ok dl' => (some dl', "ok")
            | .panic k => (none, "panic:" ++ k.toString)
            | .err _ => (none, "err")
        ({ st with puts := st.puts ++ [i], sparse := sp, arr := arrPut st.arr op, map := mapPut st.map op },
         "ok s=" ++ spMsg)
    | none => (st, "bad-op")
  | ["dlp", "look", t] =>
    match t.toInt? with
    | some t =>
      let s := match st.sparse with | some dl => showLook (sparseLook dl t) | none => "dead"
      (st, s!"ok s={s} a={showLook (arrLook st.arr t)} m={showLook (mapLook st.map t)} c={showLook (mapLook st.map t)}")
    | none => (st, "bad-op")
  | ["dlp", "parser", k, first, ip, iu] =>
    match first.toInt?, bit ip, bit iu with
    | some first, some ip, some iu =>
      match mkP st k st.puts first ⟨ip, iu⟩ with
      | some r => r
      | none => (st, "bad-op")
    | _, _, _ => (st, "bad-op")
  | ["dlp", "add", i] =>
    match i.toNat?, st.parser with
    | some i, some p =>
      match findObj st i with
      | none => (st, "bad-op")
      | some _ =>
        match mkP st st.pkind (st.pputs ++ [i]) p.first p.opts with
        | some (st', r) => ({ st' with truncated := st.truncated }, r)
        | none => (st, "bad-op")
    | some _, none => (st, "noparser")
    | _, _ => (st, "bad-op")
  | ["dlp", "seed", ts] =>
    match typesOf ts with
    | some ts => ({ st with decoded := ts }, "ok")
    | none => (st, "bad-op")
  | ["dlp", "settr", b] =>
    match bit b with
    | some b => ({ st with truncated := b }, "ok")
    | none => (st, "bad-op")
  | ["dlp", "dec", h] =>
    match bytesOfHex h with
    | none => (st, "bad-op")
    | some data =>
      match st.parser with
      | none => (st, "noparser")
      | some p =>
        let (ps, ret) := decodeLayers p fuel ⟨st.store, st.truncated, st.decoded⟩ data
        let st' := { st with store := ps.store, truncated := ps.truncated, decoded := ps.decoded }
        (st', s!"ret={showRet ret} dec={showTypes ps.decoded} tr={if ps.truncated then 1 else 0} objs={showObjs st' ps.store}")
  | ["dlp", "pkt", first, skip, h] =>
    match first.toInt?, bit skip, bytesOfHex h with
    | some first, some skip, some data =>
      match newPacket reg fuel skip first data with
      | .pkt ls tr =>
        let l := if ls.isEmpty then "-" else ",".intercalate (ls.map showItem)
        (st, s!"layers={l} tr={if tr then 1 else 0}")
      | .panic k => (st, "panic " ++ k.toString)
      | .opaque => (st, "opaque")
      | .diverge => (st, "diverge")
    | _, _, _ => (st, "bad-op")
  -- monitor-only ops on the REAL layers: no model, constant reply on both sides
  | "dlp" :: "real" :: _ => (st, "ok")
  | _ => (st, "bad-op")

def main : IO Unit := run ({} : St) stepDlp
