import Driver.Common
import Gp.Model.Layers.Eap
/- Model driver for engine `leap` (EAP, EAPOL, EAPOL-Key codecs; C19, C05, C06, C07). -/
open Gp Gp.SBuf Gp.Eap Driver

structure St where
  eap   : EAP := EAP.fresh                -- the objects re-used by `redec`
  eapol : EAPOL := EAPOL.fresh
  key   : EAPOLKey := EAPOLKey.fresh
  pEapol : EAPOL := EAPOL.fresh           -- the objects owned by the DecodingLayerParser
  pEap   : EAP := EAP.fresh

def b01 (b : Bool) : String := if b then "1" else "0"

def boolOf (s : String) : Option Bool :=
  if s == "1" then some true else if s == "0" then some false else none

def natBelow (s : String) (bound : Nat) : Option Nat :=
  match s.toNat? with
  | some n => if n < bound then some n else none
  | none => none

/-- payload token: hex, `-`, or `z<n>x<hh>` (n copies of byte hh). -/
def payloadOf (s : String) : Option (List UInt8) :=
  if s.startsWith "z" then
    match (String.ofList (s.toList.drop 1)).splitOn "x" with
    | [n, hh] =>
      match n.toNat?, bytesOfHex hh with
      | some n, some [v] => if n ≤ 200000 then some (List.replicate n v) else none
      | _, _ => none
    | _ => none
  else bytesOfHex s

def renderEap (l : EAP) : String :=
  s!"code={l.code} id={l.id} len={l.length} type={l.typ} data={hexOfBytes l.typeData} contents={hexOfBytes l.contents} payload={hexOfBytes l.payload} next={l.nextLayerType}"

def renderEapol (l : EAPOL) : String :=
  s!"ver={l.version} type={l.typ} len={l.length} contents={hexOfBytes l.contents} payload={hexOfBytes l.payload} next={l.nextLayerType}"

def flagsOf (l : EAPOLKey) : String :=
  b01 l.install ++ b01 l.keyACK ++ b01 l.keyMIC ++ b01 l.secure ++ b01 l.micError ++ b01 l.request ++
    b01 l.hasEncryptedKeyData ++ b01 l.smkMessage

def renderKey (l : EAPOLKey) : String :=
  s!"kdt={l.keyDescriptorType} ver={l.keyDescriptorVersion} kt={l.keyType} ki={l.keyIndex} flags={flagsOf l} klen={l.keyLength} rc={l.replayCounter} nonce={hexOfBytes l.nonce} iv={hexOfBytes l.iv} rsc={l.rsc} id={l.id} mic={hexOfBytes l.mic} kdl={l.keyDataLength} ekd={hexOfBytes l.encryptedKeyData} contents={hexOfBytes l.contents} payload={hexOfBytes l.payload} next={l.nextLayerType}"

/-- reply of a decode op: on an error the receiver is rendered too (what the failed call left behind). -/
def showDec {L : Type} (render : L → String) (r : Res (DecOut L)) : String :=
  match r with
  | .ok o => if o.err then s!"err trunc={b01 o.trunc} | {render o.layer}" else s!"ok {render o.layer} trunc={b01 o.trunc}"
  | .err _ => "err"
  | .panic k => "panic " ++ k.toString

/-- the buffer histories of the `ser` op -/
def bufOf (h : String) : Option SBuf :=
  if h == "fresh" then some (new 0 0)
  else if h.startsWith "dirty" then
    match natBelow (String.ofList (h.toList.drop 5)) 256 with
    | some v =>
      let junk := List.replicate 200 (UInt8.ofNat v)
      some (clear (step (step (new 0 0) (.append junk)) (.prepend junk)))
    | none => none
  else if h.startsWith "sized" then
    match natBelow (String.ofList (h.toList.drop 5)) 100000 with
    | some n => some (new n n)
    | none => none
  else none

/-- the buffer SerializeLayers hands to the layer: cleared, payload serialized and pushed -/
def overPayload (p : List UInt8) : SBuf := pushLayer (serializePayload p (clear (new 0 0))) 2

def againStr {L : Type} (r : Res (SerOut L)) (bytes : List UInt8) : String :=
  match r with
  | .ok o2 => if o2.err then "err" else if contents o2.buf = bytes then "same" else "diff"
  | .err _ => "err"
  | .panic k => "panic-" ++ k.toString

def rtEap (l : EAP) (p : List UInt8) : String :=
  match l.serializeTo (overPayload p) true true with
  | .panic k => "panic " ++ k.toString
  | .err _ => "ser-err"
  | .ok o =>
    if o.err then "ser-err" else
    let bytes := contents o.buf
    let d := EAP.fresh.decodeFromBytes { vis := bytes, tail := [] }
    let again :=
      match d with
      | .ok od => if od.err then "none" else againStr (od.layer.serializeTo (overPayload od.layer.payload) true true) bytes
      | _ => "none"
    s!"ok bytes={hexOfBytes bytes} | {showDec renderEap d} | again={again}"

def rtEapol (l : EAPOL) (p : List UInt8) : String :=
  match l.serializeTo (overPayload p) true true with
  | .panic k => "panic " ++ k.toString
  | .err _ => "ser-err"
  | .ok o =>
    if o.err then "ser-err" else
    let bytes := contents o.buf
    let d := EAPOL.fresh.decodeFromBytes { vis := bytes, tail := [] }
    let again :=
      match d with
      | .ok od => if od.err then "none" else againStr (od.layer.serializeTo (overPayload od.layer.payload) true true) bytes
      | _ => "none"
    s!"ok bytes={hexOfBytes bytes} | {showDec renderEapol d} | again={again}"

def rtKey (l : EAPOLKey) (p : List UInt8) : String :=
  match l.serializeTo (overPayload p) true true with
  | .panic k => "panic " ++ k.toString
  | .err _ => "ser-err"
  | .ok o =>
    if o.err then "ser-err" else
    let bytes := contents o.buf
    let d := EAPOLKey.fresh.decodeFromBytes { vis := bytes, tail := [] }
    let again :=
      match d with
      | .ok od => if od.err then "none" else againStr (od.layer.serializeTo (overPayload od.layer.payload) true true) bytes
      | _ => "none"
    s!"ok bytes={hexOfBytes bytes} | {showDec renderKey d} | again={again}"

def showAct : Act → String
  | .setTruncated => "trunc"
  | .addLayer t => s!"add:{t}"

def showTail : Tail → String
  | .done => "done"
  | .fail => "fail"
  | .nextLayerType t => s!"lt:{t}"

def showBeh (b : Beh) : String :=
  let acts := if b.acts.isEmpty then "-" else ",".intercalate (b.acts.map showAct)
  s!"acts={acts} tail={showTail b.tail}"

def showPb {L : Type} (render : L → String) (r : Res (Beh × Option L)) : String :=
  match r with
  | .ok (b, some l) => s!"{showBeh b} | {render l}"
  | .ok (b, none) => showBeh b
  | .err _ => "err"
  | .panic k => "panic " ++ k.toString

def showPkt {L : Type} (render : L → String) (r : Res (Beh × Option L)) : String :=
  match r with
  | .ok (_, some l) => s!"ok {render l}"
  | .ok (_, none) => "fail"
  | .err _ => "err"
  | .panic k => "panic " ++ k.toString

def insertSorted (x : Nat × Nat) : List (Nat × Nat) → List (Nat × Nat)
  | [] => [x]
  | y :: ys => if x.1 ≤ y.1 then x :: y :: ys else y :: insertSorted x ys

def showDlp (r : Res (DlpState × Nat)) : String :=
  match r with
  | .panic k => "panic " ++ k.toString
  | .err _ => "err"
  | .ok (st, code) =>
    let dec := if st.decoded.isEmpty then "-" else ",".intercalate (st.decoded.map toString)
    s!"code={code} decoded={dec} trunc={b01 st.trunc} | {renderEapol st.eapol} | {renderEap st.eap}"

def firstOf (s : String) : Option Nat :=
  if s == "eapol" then some LayerTypeEAPOL
  else if s == "eap" then some LayerTypeEAP
  else none

def keep {L : Type} (dflt : L) (r : Res (DecOut L)) : L :=
  match r with | .ok o => o.layer | _ => dflt

/-- code id length type typedata -/
def eapOf (a : List String) : Option EAP :=
  match a with
  | [code, id, len, typ, td] =>
    match natBelow code 256, natBelow id 256, natBelow len 65536, natBelow typ 256, payloadOf td with
    | some code, some id, some len, some typ, some td =>
      some { EAP.fresh with code := code, id := id, length := len, typ := typ, typeData := td }
    | _, _, _, _, _ => none
  | _ => none

/-- version type length -/
def eapolOf (a : List String) : Option EAPOL :=
  match a with
  | [ver, typ, len] =>
    match natBelow ver 256, natBelow typ 256, natBelow len 65536 with
    | some ver, some typ, some len => some { EAPOL.fresh with version := ver, typ := typ, length := len }
    | _, _, _ => none
  | _ => none

def flagBits (s : String) : Option (List Bool) :=
  if s.length ≠ 8 then none else s.toList.mapM (fun c => if c == '1' then some true else if c == '0' then some false else none)

/-- kdt ver kt ki flags klen rc nonce iv rsc id mic kdl ekd -/
def keyOf (a : List String) : Option EAPOLKey :=
  match a with
  | [kdt, ver, kt, ki, flags, klen, rc, nonce, iv, rsc, id, mic, kdl, ekd] =>
    match natBelow kdt 256, natBelow ver 256, natBelow kt 256, natBelow ki 256, flagBits flags, natBelow klen 65536,
          natBelow rc 18446744073709551616 with
    | some kdt, some ver, some kt, some ki, some [f0, f1, f2, f3, f4, f5, f6, f7], some klen, some rc =>
      match bytesOfHex nonce, bytesOfHex iv, natBelow rsc 18446744073709551616, natBelow id 18446744073709551616,
            bytesOfHex mic, natBelow kdl 65536, bytesOfHex ekd with
      | some nonce, some iv, some rsc, some id, some mic, some kdl, some ekd =>
        some { EAPOLKey.fresh with keyDescriptorType := kdt, keyDescriptorVersion := ver, keyType := kt, keyIndex := ki,
                                   install := f0, keyACK := f1, keyMIC := f2, secure := f3, micError := f4, request := f5,
                                   hasEncryptedKeyData := f6, smkMessage := f7, keyLength := klen, replayCounter := rc,
                                   nonce := nonce, iv := iv, rsc := rsc, id := id, mic := mic, keyDataLength := kdl,
                                   encryptedKeyData := ekd }
      | _, _, _, _, _, _, _ => none
    | _, _, _, _, _, _, _ => none
  | _ => none

def serReply {L : Type} (tail : L → String) (r : Res (SerOut L)) : String :=
  match r with
  | .ok o => if o.err then "err" ++ tail o.layer else s!"ok bytes={hexOfBytes (contents o.buf)}" ++ tail o.layer
  | .err _ => "err"
  | .panic k => "panic " ++ k.toString

def dropLast {α : Type} (l : List α) : List α := l.take (l.length - 1)

def stepLeap (st : St) (ws : List String) : St × String :=
  match ws with
  | ["reset"] => ({}, "ok")
  | ["leap", "dec", kind, extra, fh, h] =>
    match extra.toNat?, bytesOfHex fh, bytesOfHex h with
    | some n, some foreign, some data =>
      if foreign.length ≠ n then (st, "bad-op") else
      let d : GSlice := { vis := data, tail := foreign }
      if kind == "eap" then
        let r := EAP.fresh.decodeFromBytes d
        ({ st with eap := keep EAP.fresh r }, showDec renderEap r)
      else if kind == "eapol" then
        let r := EAPOL.fresh.decodeFromBytes d
        ({ st with eapol := keep EAPOL.fresh r }, showDec renderEapol r)
      else if kind == "eapolkey" then
        let r := EAPOLKey.fresh.decodeFromBytes d
        ({ st with key := keep EAPOLKey.fresh r }, showDec renderKey r)
      else (st, "bad-op")
    | _, _, _ => (st, "bad-op")
  | ["leap", "redec", kind, h] =>
    match bytesOfHex h with
    | some data =>
      let d : GSlice := { vis := data, tail := [] }
      if kind == "eap" then
        let r := st.eap.decodeFromBytes d
        ({ st with eap := keep st.eap r }, showDec renderEap r)
      else if kind == "eapol" then
        let r := st.eapol.decodeFromBytes d
        ({ st with eapol := keep st.eapol r }, showDec renderEapol r)
      else if kind == "eapolkey" then
        let r := st.key.decodeFromBytes d
        ({ st with key := keep st.key r }, showDec renderKey r)
      else (st, "bad-op")
    | none => (st, "bad-op")
  | "leap" :: "ser" :: kind :: fix :: csum :: hist :: rest =>
    match boolOf fix, boolOf csum, bufOf hist, rest.getLast? with
    | some fix, some csum, some b, some pl =>
      match payloadOf pl with
      | none => (st, "bad-op")
      | some p =>
        let fields := dropLast rest
        if kind == "eap" then
          match eapOf fields with
          | some l => (st, serReply (fun (x : EAP) => s!" len={x.length}") (l.serializeTo (serializePayload p b) fix csum))
          | none => (st, "bad-op")
        else if kind == "eapol" then
          match eapolOf fields with
          | some l => (st, serReply (fun (_ : EAPOL) => "") (l.serializeTo (serializePayload p b) fix csum))
          | none => (st, "bad-op")
        else if kind == "eapolkey" then
          match keyOf fields with
          | some l => (st, serReply (fun (_ : EAPOLKey) => "") (l.serializeTo (serializePayload p b) fix csum))
          | none => (st, "bad-op")
        else (st, "bad-op")
    | _, _, _, _ => (st, "bad-op")
  | "leap" :: "rt" :: kind :: rest =>
    match rest.getLast? with
    | none => (st, "bad-op")
    | some pl =>
      match payloadOf pl with
      | none => (st, "bad-op")
      | some p =>
        let fields := dropLast rest
        if kind == "eap" then
          match eapOf fields with
          | some l => (st, rtEap l p)
          | none => (st, "bad-op")
        else if kind == "eapol" then
          match eapolOf fields with
          | some l => (st, rtEapol l p)
          | none => (st, "bad-op")
        else if kind == "eapolkey" then
          match keyOf fields with
          | some l => (st, rtKey l p)
          | none => (st, "bad-op")
        else (st, "bad-op")
  | ["leap", "rtdec", kind, h] =>
    match bytesOfHex h with
    | some data =>
      let d : GSlice := { vis := data, tail := [] }
      if kind == "eap" then
        match EAP.fresh.decodeFromBytes d with
        | .ok o => if o.err then (st, "dec-err") else (st, rtEap o.layer o.layer.payload)
        | .err _ => (st, "dec-err")
        | .panic k => (st, "panic " ++ k.toString)
      else if kind == "eapol" then
        match EAPOL.fresh.decodeFromBytes d with
        | .ok o => if o.err then (st, "dec-err") else (st, rtEapol o.layer o.layer.payload)
        | .err _ => (st, "dec-err")
        | .panic k => (st, "panic " ++ k.toString)
      else if kind == "eapolkey" then
        match EAPOLKey.fresh.decodeFromBytes d with
        | .ok o => if o.err then (st, "dec-err") else (st, rtKey o.layer o.layer.payload)
        | .err _ => (st, "dec-err")
        | .panic k => (st, "panic " ++ k.toString)
      else (st, "bad-op")
    | none => (st, "bad-op")
  | ["leap", "pb", kind, h] =>
    match bytesOfHex h with
    | some data =>
      let d : GSlice := { vis := data, tail := [] }
      if kind == "eap" then (st, showPb renderEap (decodeEAPFn d))
      else if kind == "eapol" then (st, showPb renderEapol (decodeEAPOLFn d))
      else if kind == "eapolkey" then (st, showPb renderKey (decodeEAPOLKeyFn d))
      else (st, "bad-op")
    | none => (st, "bad-op")
  | ["leap", "pkt", kind, mode, extra, fh, h] =>
    match extra.toNat?, bytesOfHex fh, bytesOfHex h with
    | some n, some foreign, some data =>
      if foreign.length ≠ n ∨ ¬ (mode == "copy" ∨ mode == "nocopy" ∨ mode == "lazy" ∨ mode == "pool") then (st, "bad-op") else
      if data.isEmpty then (st, "empty") else
      -- NewPacket clamps the capacity of the packet buffer (`data[:len:len]`): the first decoder sees cap = len in every mode
      let d : GSlice := { vis := data, tail := [] }
      if kind == "eap" then (st, showPkt renderEap (decodeEAPFn d))
      else if kind == "eapol" then (st, showPkt renderEapol (decodeEAPOLFn d))
      else if kind == "eapolkey" then (st, showPkt renderKey (decodeEAPOLKeyFn d))
      else (st, "bad-op")
    | _, _, _ => (st, "bad-op")
  | ["leap", "dlp", first, h] =>
    match firstOf first, bytesOfHex h with
    | some first, some data =>
      let r := dlpDecodeLayers EAPOL.fresh EAP.fresh first { vis := data, tail := [] }
      let st' := match r with
        | .ok (s, _) => { st with pEapol := s.eapol, pEap := s.eap }
        | _ => { st with pEapol := EAPOL.fresh, pEap := EAP.fresh }
      (st', showDlp r)
    | _, _ => (st, "bad-op")
  | ["leap", "redlp", first, h] =>
    match firstOf first, bytesOfHex h with
    | some first, some data =>
      let r := dlpDecodeLayers st.pEapol st.pEap first { vis := data, tail := [] }
      let st' := match r with
        | .ok (s, _) => { st with pEapol := s.eapol, pEap := s.eap }
        | _ => st
      (st', showDlp r)
    | _, _ => (st, "bad-op")
  | ["leap", "nlttab"] =>
    let rows := eapolTable.foldr insertSorted []
    (st, "ok " ++ ",".intercalate (rows.map (fun r => s!"{r.1}:{r.2}")))
  | _ => (st, "bad-op")

def main : IO Unit := run ({} : St) stepLeap
