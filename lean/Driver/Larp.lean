import Driver.Common
import Gp.Model.Layers.Arp
/- Model driver for engine `larp` (ARP, Loopback, ERSPAN II codecs; C19, C05, C06, C07). -/
open Gp Gp.SBuf Gp.Arp Driver

structure St where
  arp   : ARP := ARP.fresh                -- the objects re-used by `redec`
  lo    : Loopback := Loopback.fresh
  er    : ERSPANII := ERSPANII.fresh
  pArp  : ARP := ARP.fresh                -- the objects owned by the DecodingLayerParser
  pLo   : Loopback := Loopback.fresh
  pEr   : ERSPANII := ERSPANII.fresh

def b01 (b : Bool) : String := if b then "1" else "0"

def boolOf (s : String) : Option Bool :=
  if s == "1" then some true else if s == "0" then some false else none

def natBelow (s : String) (bound : Nat) : Option Nat :=
  match s.toNat? with
  | some n => if n < bound then some n else none
  | none => none

/-- payload token: hex, `-`, or `z<n>x<hh>` (n copies of byte hh). -/
def payloadOf (s : String) : Option (List UInt8) :=
  if s.startsWith "z" then
    match (String.ofList (s.toList.drop 1)).splitOn "x" with
    | [n, hh] =>
      match n.toNat?, bytesOfHex hh with
      | some n, some [v] => if n ≤ 200000 then some (List.replicate n v) else none
      | _, _ => none
    | _ => none
  else bytesOfHex s

def renderArp (l : ARP) : String :=
  s!"at={l.addrType} proto={l.protocol} hs={l.hwAddressSize} ps={l.protAddressSize} op={l.operation} shw={hexOfBytes l.sourceHwAddress} sp={hexOfBytes l.sourceProtAddress} dhw={hexOfBytes l.dstHwAddress} dp={hexOfBytes l.dstProtAddress} contents={hexOfBytes l.contents} payload={hexOfBytes l.payload} next={l.nextLayerType}"

def renderLo (l : Loopback) : String :=
  s!"family={l.family} contents={hexOfBytes l.contents} payload={hexOfBytes l.payload} next={l.nextLayerType}"

def renderEr (l : ERSPANII) : String :=
  s!"ver={l.version} vlan={l.vlan} cos={l.cos} te={l.trunkEncap} t={b01 l.isTruncated} sid={l.sessionID} res={l.reserved} idx={l.index} contents={hexOfBytes l.contents} payload={hexOfBytes l.payload} next={l.nextLayerType}"

/-- reply of a decode op: on an error the receiver is rendered too (what the failed call left behind). -/
def showDec {L : Type} (render : L → String) (r : Res (DecOut L)) : String :=
  match r with
  | .ok o => if o.err then s!"err trunc={b01 o.trunc} | {render o.layer}" else s!"ok {render o.layer} trunc={b01 o.trunc}"
  | .err _ => "err"
  | .panic k => "panic " ++ k.toString

/-- the buffer histories of the `ser` op -/
def bufOf (h : String) : Option SBuf :=
  if h == "fresh" then some (new 0 0)
  else if h.startsWith "dirty" then
    match natBelow (String.ofList (h.toList.drop 5)) 256 with
    | some v =>
      let junk := List.replicate 64 (UInt8.ofNat v)
      some (clear (step (step (new 0 0) (.append junk)) (.prepend junk)))
    | none => none
  else if h.startsWith "sized" then
    match natBelow (String.ofList (h.toList.drop 5)) 100000 with
    | some n => some (new n n)
    | none => none
  else none

/-- the buffer SerializeLayers hands to the layer: cleared, payload serialized and pushed -/
def overPayload (p : List UInt8) : SBuf := pushLayer (serializePayload p (clear (new 0 0))) 2

def againStr {L : Type} (r : Res (SerOut L)) (bytes : List UInt8) : String :=
  match r with
  | .ok o2 => if o2.err then "err" else if contents o2.buf = bytes then "same" else "diff"
  | .err _ => "err"
  | .panic k => "panic-" ++ k.toString

def rtArp (l : ARP) (p : List UInt8) : String :=
  match l.serializeTo (overPayload p) true true with
  | .panic k => "panic " ++ k.toString
  | .err _ => "ser-err"
  | .ok o =>
    if o.err then "ser-err" else
    let bytes := contents o.buf
    let d := ARP.fresh.decodeFromBytes { vis := bytes, tail := [] }
    let again :=
      match d with
      | .ok od => if od.err then "none" else againStr (od.layer.serializeTo (overPayload od.layer.payload) true true) bytes
      | _ => "none"
    s!"ok bytes={hexOfBytes bytes} | {showDec renderArp d} | again={again}"

def rtLo (l : Loopback) (p : List UInt8) : String :=
  match l.serializeTo (overPayload p) true true with
  | .panic k => "panic " ++ k.toString
  | .err _ => "ser-err"
  | .ok o =>
    if o.err then "ser-err" else
    let bytes := contents o.buf
    let d := Loopback.fresh.decodeFromBytes { vis := bytes, tail := [] }
    let again :=
      match d with
      | .ok od => if od.err then "none" else againStr (od.layer.serializeTo (overPayload od.layer.payload) true true) bytes
      | _ => "none"
    s!"ok bytes={hexOfBytes bytes} | {showDec renderLo d} | again={again}"

def rtEr (l : ERSPANII) (p : List UInt8) : String :=
  match l.serializeTo (overPayload p) true true with
  | .panic k => "panic " ++ k.toString
  | .err _ => "ser-err"
  | .ok o =>
    if o.err then "ser-err" else
    let bytes := contents o.buf
    let d := ERSPANII.fresh.decodeFromBytes { vis := bytes, tail := [] }
    let again :=
      match d with
      | .ok od => if od.err then "none" else againStr (od.layer.serializeTo (overPayload od.layer.payload) true true) bytes
      | _ => "none"
    s!"ok bytes={hexOfBytes bytes} | {showDec renderEr d} | again={again}"

def showAct : Act → String
  | .setTruncated => "trunc"
  | .addLayer t => s!"add:{t}"

def showTail : Tail → String
  | .done => "done"
  | .fail => "fail"
  | .nextLayerType t => s!"lt:{t}"
  | .nextProtocolFamily f => s!"pf:{f}"

def showBeh (b : Beh) : String :=
  let acts := if b.acts.isEmpty then "-" else ",".intercalate (b.acts.map showAct)
  s!"acts={acts} tail={showTail b.tail}"

def showPb {L : Type} (render : L → String) (r : Res (Beh × Option L)) : String :=
  match r with
  | .ok (b, some l) => s!"{showBeh b} | {render l}"
  | .ok (b, none) => showBeh b
  | .err _ => "err"
  | .panic k => "panic " ++ k.toString

def showPkt {L : Type} (render : L → String) (r : Res (Beh × Option L)) : String :=
  match r with
  | .ok (_, some l) => s!"ok {render l}"
  | .ok (_, none) => "fail"
  | .err _ => "err"
  | .panic k => "panic " ++ k.toString

def insertSorted (x : Nat × Nat) : List (Nat × Nat) → List (Nat × Nat)
  | [] => [x]
  | y :: ys => if x.1 ≤ y.1 then x :: y :: ys else y :: insertSorted x ys

def showDlp (r : Res (DlpState × Nat)) : String :=
  match r with
  | .panic k => "panic " ++ k.toString
  | .err _ => "err"
  | .ok (st, code) =>
    let dec := if st.decoded.isEmpty then "-" else ",".intercalate (st.decoded.map toString)
    s!"code={code} decoded={dec} trunc={b01 st.trunc} | {renderArp st.arp} | {renderLo st.loopback} | {renderEr st.erspan}"

def firstOf (s : String) : Option Nat :=
  if s == "arp" then some LayerTypeARP
  else if s == "loopback" then some LayerTypeLoopback
  else if s == "erspan2" then some LayerTypeERSPANII
  else none

def keep {L : Type} (dflt : L) (r : Res (DecOut L)) : L :=
  match r with | .ok o => o.layer | _ => dflt

def stepLarp (st : St) (ws : List String) : St × String :=
  match ws with
  | ["reset"] => ({}, "ok")
  | ["larp", "dec", kind, extra, fh, h] =>
    match extra.toNat?, bytesOfHex fh, bytesOfHex h with
    | some n, some foreign, some data =>
      if foreign.length ≠ n then (st, "bad-op") else
      let d : GSlice := { vis := data, tail := foreign }
      if kind == "arp" then
        let r := ARP.fresh.decodeFromBytes d
        ({ st with arp := keep ARP.fresh r }, showDec renderArp r)
      else if kind == "loopback" then
        let r := Loopback.fresh.decodeFromBytes d
        ({ st with lo := keep Loopback.fresh r }, showDec renderLo r)
      else if kind == "erspan2" then
        let r := ERSPANII.fresh.decodeFromBytes d
        ({ st with er := keep ERSPANII.fresh r }, showDec renderEr r)
      else (st, "bad-op")
    | _, _, _ => (st, "bad-op")
  | ["larp", "redec", kind, h] =>
    match bytesOfHex h with
    | some data =>
      let d : GSlice := { vis := data, tail := [] }
      if kind == "arp" then
        let r := st.arp.decodeFromBytes d
        ({ st with arp := keep st.arp r }, showDec renderArp r)
      else if kind == "loopback" then
        let r := st.lo.decodeFromBytes d
        ({ st with lo := keep st.lo r }, showDec renderLo r)
      else if kind == "erspan2" then
        let r := st.er.decodeFromBytes d
        ({ st with er := keep st.er r }, showDec renderEr r)
      else (st, "bad-op")
    | none => (st, "bad-op")
  | ["larp", "ser", "arp", fix, csum, hist, at', proto, hs, ps, op, shw, sp, dhw, dp, pl] =>
    match boolOf fix, boolOf csum, bufOf hist, natBelow at' 65536, natBelow proto 65536, natBelow hs 256,
          natBelow ps 256, natBelow op 65536 with
    | some fix, some csum, some b, some at', some proto, some hs, some ps, some op =>
      match bytesOfHex shw, bytesOfHex sp, bytesOfHex dhw, bytesOfHex dp, payloadOf pl with
      | some shw, some sp, some dhw, some dp, some p =>
        let l : ARP := { ARP.fresh with addrType := at', protocol := proto, hwAddressSize := hs,
                                        protAddressSize := ps, operation := op, sourceHwAddress := shw,
                                        sourceProtAddress := sp, dstHwAddress := dhw, dstProtAddress := dp }
        match l.serializeTo (serializePayload p b) fix csum with
        | .ok o =>
          if o.err then (st, s!"err hs={o.layer.hwAddressSize} ps={o.layer.protAddressSize}")
          else (st, s!"ok bytes={hexOfBytes (contents o.buf)} hs={o.layer.hwAddressSize} ps={o.layer.protAddressSize}")
        | .err _ => (st, "err")
        | .panic k => (st, "panic " ++ k.toString)
      | _, _, _, _, _ => (st, "bad-op")
    | _, _, _, _, _, _, _, _ => (st, "bad-op")
  | ["larp", "ser", "loopback", fix, csum, hist, fam, pl] =>
    match boolOf fix, boolOf csum, bufOf hist, natBelow fam 256, payloadOf pl with
    | some fix, some csum, some b, some fam, some p =>
      let l : Loopback := { Loopback.fresh with family := fam }
      match l.serializeTo (serializePayload p b) fix csum with
      | .ok o => if o.err then (st, "err") else (st, s!"ok bytes={hexOfBytes (contents o.buf)}")
      | .err _ => (st, "err")
      | .panic k => (st, "panic " ++ k.toString)
    | _, _, _, _, _ => (st, "bad-op")
  | ["larp", "ser", "erspan2", fix, csum, hist, ver, vlan, cos, te, t, sid, res, idx, pl] =>
    match boolOf fix, boolOf csum, bufOf hist, natBelow ver 256, natBelow vlan 65536, natBelow cos 256,
          natBelow te 256, boolOf t with
    | some fix, some csum, some b, some ver, some vlan, some cos, some te, some t =>
      match natBelow sid 65536, natBelow res 65536, natBelow idx 4294967296, payloadOf pl with
      | some sid, some res, some idx, some p =>
        let l : ERSPANII := { ERSPANII.fresh with version := ver, vlan := vlan, cos := cos, trunkEncap := te,
                                                  isTruncated := t, sessionID := sid, reserved := res, index := idx }
        match l.serializeTo (serializePayload p b) fix csum with
        | .ok o => if o.err then (st, "err") else (st, s!"ok bytes={hexOfBytes (contents o.buf)}")
        | .err _ => (st, "err")
        | .panic k => (st, "panic " ++ k.toString)
      | _, _, _, _ => (st, "bad-op")
    | _, _, _, _, _, _, _, _ => (st, "bad-op")
  | ["larp", "rt", "arp", at', proto, hs, ps, op, shw, sp, dhw, dp, pl] =>
    match natBelow at' 65536, natBelow proto 65536, natBelow hs 256, natBelow ps 256, natBelow op 65536 with
    | some at', some proto, some hs, some ps, some op =>
      match bytesOfHex shw, bytesOfHex sp, bytesOfHex dhw, bytesOfHex dp, payloadOf pl with
      | some shw, some sp, some dhw, some dp, some p =>
        (st, rtArp { ARP.fresh with addrType := at', protocol := proto, hwAddressSize := hs,
                                    protAddressSize := ps, operation := op, sourceHwAddress := shw,
                                    sourceProtAddress := sp, dstHwAddress := dhw, dstProtAddress := dp } p)
      | _, _, _, _, _ => (st, "bad-op")
    | _, _, _, _, _ => (st, "bad-op")
  | ["larp", "rt", "loopback", fam, pl] =>
    match natBelow fam 256, payloadOf pl with
    | some fam, some p => (st, rtLo { Loopback.fresh with family := fam } p)
    | _, _ => (st, "bad-op")
  | ["larp", "rt", "erspan2", ver, vlan, cos, te, t, sid, res, idx, pl] =>
    match natBelow ver 256, natBelow vlan 65536, natBelow cos 256, natBelow te 256, boolOf t with
    | some ver, some vlan, some cos, some te, some t =>
      match natBelow sid 65536, natBelow res 65536, natBelow idx 4294967296, payloadOf pl with
      | some sid, some res, some idx, some p =>
        (st, rtEr { ERSPANII.fresh with version := ver, vlan := vlan, cos := cos, trunkEncap := te,
                                        isTruncated := t, sessionID := sid, reserved := res, index := idx } p)
      | _, _, _, _ => (st, "bad-op")
    | _, _, _, _, _ => (st, "bad-op")
  | ["larp", "rtdec", kind, h] =>
    match bytesOfHex h with
    | some data =>
      let d : GSlice := { vis := data, tail := [] }
      if kind == "arp" then
        match ARP.fresh.decodeFromBytes d with
        | .ok o => if o.err then (st, "dec-err") else (st, rtArp o.layer o.layer.payload)
        | .err _ => (st, "dec-err")
        | .panic k => (st, "panic " ++ k.toString)
      else if kind == "loopback" then
        match Loopback.fresh.decodeFromBytes d with
        | .ok o => if o.err then (st, "dec-err") else (st, rtLo o.layer o.layer.payload)
        | .err _ => (st, "dec-err")
        | .panic k => (st, "panic " ++ k.toString)
      else if kind == "erspan2" then
        match ERSPANII.fresh.decodeFromBytes d with
        | .ok o => if o.err then (st, "dec-err") else (st, rtEr o.layer o.layer.payload)
        | .err _ => (st, "dec-err")
        | .panic k => (st, "panic " ++ k.toString)
      else (st, "bad-op")
    | none => (st, "bad-op")
  | ["larp", "pb", kind, h] =>
    match bytesOfHex h with
    | some data =>
      let d : GSlice := { vis := data, tail := [] }
      if kind == "arp" then (st, showPb renderArp (decodeARPFn d))
      else if kind == "loopback" then (st, showPb renderLo (decodeLoopbackFn d))
      else if kind == "erspan2" then (st, showPb renderEr (decodeERSPANIIFn d))
      else (st, "bad-op")
    | none => (st, "bad-op")
  | ["larp", "pkt", kind, mode, extra, fh, h] =>
    match extra.toNat?, bytesOfHex fh, bytesOfHex h with
    | some n, some foreign, some data =>
      if foreign.length ≠ n ∨ ¬ (mode == "copy" ∨ mode == "nocopy" ∨ mode == "lazy") then (st, "bad-op") else
      if data.isEmpty then (st, "empty") else
      -- the copying paths give the decoder a buffer with cap = len
      let d : GSlice := { vis := data, tail := if mode == "nocopy" then foreign else [] }
      if kind == "arp" then (st, showPkt renderArp (decodeARPFn d))
      else if kind == "loopback" then (st, showPkt renderLo (decodeLoopbackFn d))
      else if kind == "erspan2" then (st, showPkt renderEr (decodeERSPANIIFn d))
      else (st, "bad-op")
    | _, _, _ => (st, "bad-op")
  | ["larp", "dlp", first, h] =>
    match firstOf first, bytesOfHex h with
    | some first, some data =>
      let r := dlpDecodeLayers ARP.fresh Loopback.fresh ERSPANII.fresh first { vis := data, tail := [] }
      let st' := match r with
        | .ok (s, _) => { st with pArp := s.arp, pLo := s.loopback, pEr := s.erspan }
        | _ => { st with pArp := ARP.fresh, pLo := Loopback.fresh, pEr := ERSPANII.fresh }
      (st', showDlp r)
    | _, _ => (st, "bad-op")
  | ["larp", "redlp", first, h] =>
    match firstOf first, bytesOfHex h with
    | some first, some data =>
      let r := dlpDecodeLayers st.pArp st.pLo st.pEr first { vis := data, tail := [] }
      let st' := match r with
        | .ok (s, _) => { st with pArp := s.arp, pLo := s.loopback, pEr := s.erspan }
        | _ => st
      (st', showDlp r)
    | _, _ => (st, "bad-op")
  | ["larp", "pftab"] =>
    let rows := pfTable.foldr insertSorted []
    (st, "ok " ++ ",".intercalate (rows.map (fun r => s!"{r.1}:{r.2}")))
  | _ => (st, "bad-op")

def main : IO Unit := run ({} : St) stepLarp
