import Driver.Common
import Gp.Model.Reader
/-
  Model driver for engine `rdr` (C20).

    rdr run <loss 0|1> deliver=<batch>|<batch>|…  prog=<op>,<op>,…
       batch = <slice>,<slice>,… | e        deliver=none: no batch at all
       slice = <hex|->[^<skip>]
       op    = r<n> | d<n> (n ≥ 1) | c      prog=none: empty program

  Reply: results of the Reads in order, then asm=done|blocked|panic cons=done|blocked|panic.
  The LTS is run under ONE fixed fair schedule (`Gp.Reader.runInit`); `Gp.C20.schedule_independent`
  proves every maximal execution gives the same reply.
-/
open Gp Gp.Reader Driver

def lowerHex (s : String) : Bool := s.toList.all (fun c => !('A' ≤ c ∧ c ≤ 'F'))

def parseSkip (s : String) : Option Int :=
  if s.startsWith "+" then none else
  match s.toInt? with
  | some k => if -1000000 ≤ k ∧ k ≤ 1000000 then some k else none
  | none => none

def parseSlice (s : String) : Option Slice :=
  match s.splitOn "^" with
  | [h] => if h == "" || !lowerHex h then none else (bytesOfHex h).map (fun b => { bytes := b, skip := 0 })
  | [h, k] =>
    if h == "" || !lowerHex h then none else
    match bytesOfHex h, parseSkip k with
    | some b, some k => some { bytes := b, skip := k }
    | _, _ => none
  | _ => none

def parseBatch (s : String) : Option Batch :=
  if s == "e" then some [] else (s.splitOn ",").mapM parseSlice

def parseDeliver (s : String) : Option (List Batch) :=
  match s.splitOn "=" with
  | ["deliver", r] => if r == "none" then some [] else (r.splitOn "|").mapM parseBatch
  | _ => none

def parseOp (s : String) : Option COp :=
  match s.toList with
  | ['c'] => some .close
  | k :: ds =>
    if ds.isEmpty || !ds.all Char.isDigit then none else
    match (String.ofList ds).toNat? with
    | some n =>
      if n > 65536 then none
      else if k == 'r' then some (.rd n false)
      else if k == 'd' then (if n == 0 then none else some (.rd (n - 1) true))
      else none
    | none => none
  | [] => none

def parseProg (s : String) : Option (List COp) :=
  match s.splitOn "=" with
  | ["prog", r] => if r == "none" then some [] else (r.splitOn ",").mapM parseOp
  | _ => none

def showObs : Obs → String
  | .data bs => hexOfBytes bs
  | .eof => "eof"
  | .lost => "lost"

def asmStatus (s : State) : String :=
  match s.apc with
  | .fin => "done"
  | .panicked => "panic"
  | _ => "blocked"

def consStatus (s : State) : String :=
  match s.cpc with
  | .idle => if s.cprog.isEmpty then "done" else "blocked"
  | .panicked => "panic"
  | _ => "blocked"

def stepRdr (st : Unit) (ws : List String) : Unit × String :=
  match ws with
  | ["reset"] => (st, "ok")
  | ["rdr", "run", l, d, p] =>
    if l != "0" && l != "1" then (st, "bad-op") else
    match parseDeliver d, parseProg p with
    | some bs, some prog =>
      let s := runInit (l == "1") bs prog
      (st, joinSp (s.out.map showObs ++ ["asm=" ++ asmStatus s, "cons=" ++ consStatus s]))
    | _, _ => (st, "bad-op")
  | _ => (st, "bad-op")

def main : IO Unit := run () stepRdr
