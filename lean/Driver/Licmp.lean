import Driver.Common
import Gp.Model.Layers.Icmp
/- Model driver for LAYER engine `licmp` (ICMPv4, ICMPv6, ICMPv6 NDP/Echo messages).
   Line protocol: see harness/cmd/gp-licmp/main.go. -/
open Gp Gp.SBuf Gp.Icmp Driver

namespace Licmp

def b01 (b : Bool) : String := if b then "1" else "0"

def kindOf : String → Option Kind
  | "icmp4" => some .icmp4 | "icmp6" => some .icmp6 | "echo" => some .echo | "rs" => some .rs
  | "ra" => some .ra | "ns" => some .ns | "na" => some .na | "redirect" => some .redirect
  | _ => none

def optsStr (os : List Opt) : String :=
  if os.isEmpty then "-" else
  ",".intercalate (os.map fun o => toString o.typ ++ ":" ++ hexOfBytes o.data)

/-- public fields (without BaseLayer), `k=v` in the adapter's order -/
def pubFields : AnyLayer → List (String × String)
  | .icmp4 l => [("tc", toString l.typeCode), ("ck", toString l.checksum), ("id", toString l.id), ("seq", toString l.seq)]
  | .icmp6 l => [("tc", toString l.typeCode), ("ck", toString l.checksum), ("tb", hexOfBytes l.typeBytes)]
  | .echo l => [("id", toString l.identifier), ("seq", toString l.seqNumber)]
  | .rs l => [("opts", optsStr l.options)]
  | .ra l => [("hl", toString l.hopLimit), ("fl", toString l.flags), ("life", toString l.routerLifetime),
              ("reach", toString l.reachableTime), ("retr", toString l.retransTimer), ("opts", optsStr l.options)]
  | .ns l => [("tgt", hexOfBytes l.targetAddress), ("opts", optsStr l.options)]
  | .na l => [("fl", toString l.flags), ("tgt", hexOfBytes l.targetAddress), ("opts", optsStr l.options)]
  | .redirect l => [("tgt", hexOfBytes l.targetAddress), ("dst", hexOfBytes l.destinationAddress), ("opts", optsStr l.options)]

def contentsOf : AnyLayer → Bytes
  | .icmp4 l => l.contents | .icmp6 l => l.contents | .echo l => l.contents | .rs l => l.contents
  | .ra l => l.contents | .ns l => l.contents | .na l => l.contents | .redirect l => l.contents

def kvStr (f : List (String × String)) : String := joinSp (f.map fun (k, v) => k ++ "=" ++ v)

def renderLayer (l : AnyLayer) : String :=
  let s := "next=" ++ l.next.name ++ " " ++
    kvStr (pubFields l ++ [("c", hexOfBytes (contentsOf l)), ("p", hexOfBytes l.payload)])
  match l with
  | .icmp4 v =>
    let (valid, correct, actual) := verifyICMPv4 v
    s ++ " vc=" ++ b01 valid ++ ":" ++ toString correct ++ ":" ++ toString actual
  | _ => s

def renderPLayer : PLayer → String
  | .lay l => l.kind.lt.name ++ " " ++ renderLayer l
  | .payload b => "Payload " ++ hexOfBytes b
  | .failure => "DecodeFailure"
  | .other t => "+" ++ t.name

def isOther : PLayer → Bool | .other _ => true | _ => false

def panicStr (k : PanicKind) : String := "panic " ++ k.toString

/-! parsing -/

def isDigits (s : String) : Bool := !s.isEmpty && s.all Char.isDigit

/-- decimal without sign/underscore/leading zeros, below `bound` -/
def parseNat (s : String) (bound : Nat) : Option Nat :=
  if isDigits s && s.length ≤ 12 && !(s.length > 1 && s.front == '0') then
    match s.toNat? with
    | some n => if n < bound then some n else none
    | none => none
  else none

def splitKV (t : String) : Option (String × String) :=
  match t.splitOn "=" with
  | k :: v :: rest => if k.isEmpty then none else some (k, "=".intercalate (v :: rest))
  | _ => none

def parseKVs (ts : List String) : Option (List (String × String)) := do
  let kvs ← ts.mapM splitKV
  let keys := kvs.map Prod.fst
  if keys.eraseDups.length = keys.length then some kvs else none

def look (m : List (String × String)) (k : String) : Option String := (m.find? (·.1 == k)).map (·.2)

def getU (m : List (String × String)) (k : String) (bits : Nat) : Option Nat := do
  let s ← look m k
  parseNat s (2 ^ bits)

def getH (m : List (String × String)) (k : String) : Option Bytes := do
  let s ← look m k
  bytesOfHex s

def parseOpt (part : String) : Option Opt :=
  match part.splitOn ":" with
  | [t, d] => do
    let t ← parseNat t 256
    let d ← bytesOfHex d
    some ⟨t, d⟩
  | _ => none

def getOpts (m : List (String × String)) : Option (List Opt) := do
  let s ← look m "opts"
  if s == "-" then some [] else (s.splitOn ",").mapM parseOpt

def nFields : Kind → Nat
  | .icmp4 => 4 | .icmp6 => 3 | .echo => 2 | .rs => 1 | .ra => 6 | .ns => 2 | .na => 3 | .redirect => 3

def build (k : Kind) (m : List (String × String)) (ps : Pseudo) : Option AnyLayer :=
  if m.length ≠ nFields k then none else
  match k with
  | .icmp4 => do
    let tc ← getU m "tc" 16; let ck ← getU m "ck" 16; let id ← getU m "id" 16; let sq ← getU m "seq" 16
    some (.icmp4 { typeCode := tc, checksum := ck, id := id, seq := sq })
  | .icmp6 => do
    let tc ← getU m "tc" 16; let ck ← getU m "ck" 16; let tb ← getH m "tb"
    some (.icmp6 { typeCode := tc, checksum := ck, typeBytes := tb, pseudo := ps })
  | .echo => do
    let id ← getU m "id" 16; let sq ← getU m "seq" 16
    some (.echo { identifier := id, seqNumber := sq })
  | .rs => do
    let os ← getOpts m
    some (.rs { options := os })
  | .ra => do
    let hl ← getU m "hl" 8; let fl ← getU m "fl" 8; let life ← getU m "life" 16
    let reach ← getU m "reach" 32; let retr ← getU m "retr" 32; let os ← getOpts m
    some (.ra { hopLimit := hl, flags := fl, routerLifetime := life, reachableTime := reach, retransTimer := retr, options := os })
  | .ns => do
    let tgt ← getH m "tgt"; let os ← getOpts m
    some (.ns { targetAddress := tgt, options := os })
  | .na => do
    let fl ← getU m "fl" 8; let tgt ← getH m "tgt"; let os ← getOpts m
    some (.na { flags := fl, targetAddress := tgt, options := os })
  | .redirect => do
    let tgt ← getH m "tgt"; let dst ← getH m "dst"; let os ← getOpts m
    some (.redirect { targetAddress := tgt, destinationAddress := dst, options := os })

def parseNet (s : String) : Option Pseudo :=
  if s == "none" then some .absent else
  match s.splitOn ":" with
  | [v, a, b] => do
    let a ← bytesOfHex a
    let b ← bytesOfHex b
    if v == "v4" && a.length = 4 && b.length = 4 then some (.v4 a b)
    else if v == "v6" && a.length = 16 && b.length = 16 then some (.v6 a b)
    else none
  | _ => none

def sizeOk (s : String) : Option Nat := parseNat s 1048577

def mkBuf (hist : String) : Option SBuf :=
  if hist == "fresh" then some (new 0 0) else
  match hist.splitOn ":" with
  | ["sized", a, b] => do
    let a ← sizeOk a; let b ← sizeOk b
    some (new a b)
  | ["dirty", v, a, b] => do
    let v ← bytesOfHex v
    let a ← sizeOk a; let b ← sizeOk b
    match v with
    | [x] =>
      let b0 := step (new 0 0) (.prepend (List.replicate a x))
      let b1 := step b0 (.append (List.replicate b x))
      some (clear b1)
    | _ => none
  | _ => none

def bool01 (s : String) : Option Bool := if s == "1" then some true else if s == "0" then some false else none

def pktReply (r : Res PktOut) : String :=
  match r with
  | .panic k => panicStr k
  | .err e => e
  | .ok o =>
    let cut := o.layers.any isOther
    let te := if cut then "t=? e=?" else "t=" ++ b01 o.trunc ++ " e=" ++ b01 o.err
    "ok " ++ te ++ " | " ++ " | ".intercalate (o.layers.map renderPLayer)

structure St where
  objs : Objs := {}

def decReply (r : Res (Dec AnyLayer)) : String :=
  match r with
  | .panic k => panicStr k
  | .err e => e
  | .ok d => if d.err then "err t=" ++ b01 d.trunc else "ok t=" ++ b01 d.trunc ++ " " ++ renderLayer d.layer

def keep (st : St) (r : Res (Dec AnyLayer)) : St :=
  match r with
  | .ok d => { st with objs := st.objs.set d.layer }
  | _ => st

/-- SerializeLayers(buf, {fix,csum}, layers…, Payload(p)) on a fresh buffer; layers outermost first. -/
def serStack (ls : List AnyLayer) (p : Bytes) : Res SBuf :=
  let b0 := step (clear (new 0 0)) (.prepend p)
  ls.reverse.foldlM (fun b l => do let r ← l.serialize b ⟨true, true⟩; pure r.1) b0

def stepLicmp (st : St) (ws : List String) : St × String :=
  match ws with
  | ["reset"] => ({}, "ok")
  | ["licmp", "dec", k, extra, foreign, hex] =>
    match kindOf k, parseNat extra 100000000, bytesOfHex foreign, bytesOfHex hex with
    | some k, some extra, some foreign, some data =>
      if extra ≠ foreign.length then (st, "bad-op") else
      let r := (fresh k).decode ⟨data, foreign⟩
      (keep { st with objs := st.objs.set (fresh k) } r, decReply r)
    | _, _, _, _ => (st, "bad-op")
  | ["licmp", "redec", k, hex] =>
    match kindOf k, bytesOfHex hex with
    | some k, some data =>
      let r := (st.objs.get k).decode ⟨data, []⟩
      (keep st r, decReply r)
    | _, _ => (st, "bad-op")
  | "licmp" :: "ser" :: k :: fix :: csum :: hist :: net :: rest =>
    match kindOf k, bool01 fix, bool01 csum, mkBuf hist, parseNet net, parseKVs rest with
    | some k, some fix, some csum, some buf, some ps, some m =>
      match getH m "p", build k (m.filter (·.1 != "p")) ps with
      | some p, some l =>
        if rest.isEmpty then (st, "bad-op") else
        let b := step buf (.prepend p)
        match l.serialize b ⟨fix, csum⟩ with
        | .ok (b', l') => (st, "ok b=" ++ hexOfBytes (contents b') ++ " " ++ kvStr (pubFields l'))
        | .err _ => (st, "err")
        | .panic pk => (st, panicStr pk)
      | _, _ => (st, "bad-op")
    | _, _, _, _, _, _ => (st, "bad-op")
  | ["licmp", "decser", k, hist, net, hex] =>
    match kindOf k, mkBuf hist, parseNet net, bytesOfHex hex with
    | some k, some buf, some ps, some data =>
      match (fresh k).decode ⟨data, []⟩ with
      | .panic pk => (st, panicStr pk)
      | .err e => (st, e)
      | .ok d =>
        if d.err then (st, "err") else
        let l := match d.layer with
          | .icmp6 v => AnyLayer.icmp6 { v with pseudo := ps }
          | x => x
        match l.serialize (step buf (.prepend l.payload)) ⟨true, true⟩ with
        | .ok (b', l') => (st, "ok b=" ++ hexOfBytes (contents b') ++ " " ++ kvStr (pubFields l'))
        | .err _ => (st, "serr")
        | .panic pk => (st, panicStr pk)
    | _, _, _, _ => (st, "bad-op")
  | "licmp" :: "rt4" :: rest =>
    match parseKVs rest with
    | some m =>
      match getH m "p", build .icmp4 (m.filter (·.1 != "p")) .absent with
      | some p, some l =>
        match serStack [l] p with
        | .ok b => let out := contents b; (st, match pktReply (pktRun 3 .icmp4 out) with
            | r => if r.startsWith "ok " then "ok b=" ++ hexOfBytes out ++ " " ++ (r.drop 3).toString else r)
        | .err _ => (st, "err")
        | .panic pk => (st, panicStr pk)
      | _, _ => (st, "bad-op")
    | none => (st, "bad-op")
  | "licmp" :: "rt" :: net :: tc :: ck :: k :: rest =>
    match parseNet net, parseKVs [tc, ck], kindOf k, parseKVs rest with
    | some ps, some hm, some k, some m =>
      if k == .icmp4 || k == .icmp6 || rest.isEmpty then (st, "bad-op") else
      match build .icmp6 (hm ++ [("tb", "-")]) ps, getH m "p", build k (m.filter (·.1 != "p")) .absent with
      | some h, some p, some l =>
        match serStack [h, l] p with
        | .ok b => let out := contents b; (st, match pktReply (pktRun 3 .icmp6 out) with
            | r => if r.startsWith "ok " then "ok b=" ++ hexOfBytes out ++ " " ++ (r.drop 3).toString else r)
        | .err _ => (st, "err")
        | .panic pk => (st, panicStr pk)
      | _, _, _ => (st, "bad-op")
    | _, _, _, _ => (st, "bad-op")
  | ["licmp", "pkt", k, flags, hex] =>
    match kindOf k, parseNat flags 4, bytesOfHex hex with
    | some k, some fl, some data =>
      -- packet.go lazyPacket.decodeNextLayer: with Lazy an empty input never reaches the first decoder
      if fl % 2 = 1 && data.isEmpty then (st, "ok t=0 e=0 | ") else (st, pktReply (pktRun 3 k data))
    | _, _, _ => (st, "bad-op")
  | ["licmp", "dlp", k, hex] =>
    match kindOf k, bytesOfHex hex with
    | some k, some data =>
      match dlpRun 3 k st.objs data [] false with
      | .panic pk => (st, panicStr pk)
      | .err e => (st, e)
      | .ok o =>
        let s := match o.status with | .ok => "ok" | .err => "err" | .unsupported => "unsup"
        let parts := o.decoded.map fun pl =>
          match pl with
          | .lay l => renderPLayer (.lay (o.objs.get l.kind))
          | x => renderPLayer x
        ({ st with objs := o.objs }, s ++ " t=" ++ b01 o.trunc ++ " | " ++ " | ".intercalate parts)
    | _, _ => (st, "bad-op")
  | _ => (st, "bad-op")

end Licmp

def main : IO Unit := run ({} : Licmp.St) Licmp.stepLicmp
