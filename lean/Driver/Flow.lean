import Driver.Common
import Gp.Model.Flow
/- Model driver for engine `flow` (C17).  Every op is self-contained (no state between lines).

   flow ep <typ> <hex>                          -> ok <typ> <hex>            | panic explicit
   flow flow <typ> <src> <dst>                  -> ok <typ> <src> <dst>      | panic explicit
   flow fromeps <t1> <a> <t2> <b>               -> ok <typ> <src> <dst>      | err | panic explicit
   flow split <typ> <src> <dst>                 -> ok <typ> <src> <typ> <dst>
   flow reverse <typ> <src> <dst>               -> ok <typ> <dst> <src>
   flow chain <typ> <src> <dst> <word over r,j> -> ok <typ> <src> <dst>      (r = Reverse, j = Endpoints+FlowFromEndpoints)
   flow lt <t1> <a> <t2> <b>                    -> ok true|false
   flow order <t1> <a> <t2> <b> <t3> <c>        -> ok <6 bits: ab ba bc cb ac ca>
   flow eq ep <t1> <a> <t2> <b>                 -> ok <==> <found as map key>
   flow eq flow <t1> <s1> <d1> <t2> <s2> <d2>   -> ok <==> <found as map key>
   flow hash ep <typ> <a>                       -> ok <uint64>
   flow hash flow <typ> <src> <dst>             -> ok <uint64>
   flow layerflow …                             -> ok     (monitor-only op of the Go adapter; no model)
-/
open Gp Gp.Flow Driver

def typOf (s : String) : Option Int :=
  match s.toInt? with
  | some t => if -9223372036854775808 ≤ t ∧ t ≤ 9223372036854775807 then some t else none
  | none => none

def showRes {α} (f : α → String) : Res α → String
  | .ok a => "ok " ++ f a
  | .err _ => "err"
  | .panic k => "panic " ++ k.toString

def showEp (e : Endpoint) : String := toString e.typ ++ " " ++ hexOfBytes e.bytes
def showFlow (f : Flow) : String :=
  toString f.typ ++ " " ++ hexOfBytes f.srcBytes ++ " " ++ hexOfBytes f.dstBytes
def showBool (b : Bool) : String := if b then "true" else "false"
def bit (b : Bool) : String := if b then "1" else "0"

def applyChain (f : Flow) : List Char → Option (Res Flow)
  | [] => some (.ok f)
  | 'r' :: rest => applyChain f.reverse rest
  | 'j' :: rest =>
    match flowFromEndpoints f.endpoints.1 f.endpoints.2 with
    | .ok g => applyChain g rest
    | r => some r
  | _ => none

def ep2 (t1 a t2 b : String) : Option (Res (Endpoint × Endpoint)) := do
  let t1 ← typOf t1
  let a ← bytesOfHex a
  let t2 ← typOf t2
  let b ← bytesOfHex b
  pure (do
    let x ← newEndpoint t1 a
    let y ← newEndpoint t2 b
    pure (x, y))

def stepFlow (st : Unit) (ws : List String) : Unit × String :=
  (st, match ws with
  | ["reset"] => "ok"
  | "flow" :: "layerflow" :: _ => "ok"
  | ["flow", "ep", t, a] =>
    match typOf t, bytesOfHex a with
    | some t, some a => showRes showEp (newEndpoint t a)
    | _, _ => "bad-op"
  | ["flow", "flow", t, s, d] =>
    match typOf t, bytesOfHex s, bytesOfHex d with
    | some t, some s, some d => showRes showFlow (newFlow t s d)
    | _, _, _ => "bad-op"
  | ["flow", "fromeps", t1, a, t2, b] =>
    match ep2 t1 a t2 b with
    | some r => showRes showFlow (r >>= fun (x, y) => flowFromEndpoints x y)
    | none => "bad-op"
  | ["flow", "split", t, s, d] =>
    match typOf t, bytesOfHex s, bytesOfHex d with
    | some t, some s, some d =>
      showRes (fun (f : Flow) => showEp f.srcEp ++ " " ++ showEp f.dstEp) (newFlow t s d)
    | _, _, _ => "bad-op"
  | ["flow", "reverse", t, s, d] =>
    match typOf t, bytesOfHex s, bytesOfHex d with
    | some t, some s, some d => showRes (fun (f : Flow) => showFlow f.reverse) (newFlow t s d)
    | _, _, _ => "bad-op"
  | ["flow", "chain", t, s, d, w] =>
    match typOf t, bytesOfHex s, bytesOfHex d with
    | some t, some s, some d =>
      match newFlow t s d with
      | .ok f =>
        match applyChain f w.toList with
        | some r => showRes showFlow r
        | none => "bad-op"
      | r => if (applyChain Flow.zero w.toList).isSome then showRes showFlow r else "bad-op"
    | _, _, _ => "bad-op"
  | ["flow", "lt", t1, a, t2, b] =>
    match ep2 t1 a t2 b with
    | some r => showRes (fun (x, y) => showBool (x.lessThan y)) r
    | none => "bad-op"
  | ["flow", "order", t1, a, t2, b, t3, c] =>
    match ep2 t1 a t2 b, typOf t3, bytesOfHex c with
    | some r, some t3, some c =>
      showRes (fun ((x, y), z) =>
          bit (x.lessThan y) ++ bit (y.lessThan x) ++ bit (y.lessThan z) ++ bit (z.lessThan y)
            ++ bit (x.lessThan z) ++ bit (z.lessThan x))
        (r >>= fun xy => (newEndpoint t3 c) >>= fun z => pure (xy, z))
    | _, _, _ => "bad-op"
  | ["flow", "eq", "ep", t1, a, t2, b] =>
    match ep2 t1 a t2 b with
    | some r => showRes (fun (x, y) => showBool (decide (x = y)) ++ " " ++ showBool (decide (x = y))) r
    | none => "bad-op"
  | ["flow", "eq", "flow", t1, s1, d1, t2, s2, d2] =>
    match typOf t1, bytesOfHex s1, bytesOfHex d1, typOf t2, bytesOfHex s2, bytesOfHex d2 with
    | some t1, some s1, some d1, some t2, some s2, some d2 =>
      showRes (fun ((f, g) : Flow × Flow) => showBool (decide (f = g)) ++ " " ++ showBool (decide (f = g)))
        (newFlow t1 s1 d1 >>= fun f => newFlow t2 s2 d2 >>= fun g => pure (f, g))
    | _, _, _, _, _, _ => "bad-op"
  | ["flow", "hash", "ep", t, a] =>
    match typOf t, bytesOfHex a with
    | some t, some a => showRes (fun (e : Endpoint) => toString e.fastHash) (newEndpoint t a)
    | _, _ => "bad-op"
  | ["flow", "hash", "flow", t, s, d] =>
    match typOf t, bytesOfHex s, bytesOfHex d with
    | some t, some s, some d => showRes (fun (f : Flow) => toString f.fastHash) (newFlow t s d)
    | _, _, _ => "bad-op"
  | _ => "bad-op")

def main : IO Unit := run () stepFlow
