import Driver.Common
import Gp.Model.Pcap
/- Model driver for engine `pcap` (C14, C15): classic pcap writer and reader. -/
open Gp Gp.Pcap Driver

structure St where
  file : List UInt8 := []

def stopStr : Stop → String
  | .eof => "eof" | .ueof => "ueof" | .ioerr => "ioerr"

def outStr : Out → String
  | .pkt p => s!"p {p.sec} {p.nsec} {p.caplen} {p.len} {hexOfBytes p.data}"
  | .stop k => stopStr k
  | .err => "err"
  | .panic k => "panic " ++ k.toString

def isFinal : Out → Bool
  | .pkt _ => false | .err => false | _ => true

/-- `z`/`c` pattern, cycled over the read calls. -/
def parsePattern (s : String) : Option (Array Bool) :=
  if s.isEmpty then none else
  s.toList.foldl (fun acc c => match acc with
    | none => none
    | some a => if c == 'z' then some (a.push true) else if c == 'c' then some (a.push false) else none) (some #[])

def parseSnaps : List String → Option (List (Nat × Nat))
  | [] => some []
  | "snap" :: i :: n :: rest =>
    match i.toNat?, n.toNat?, parseSnaps rest with
    | some i, some n, some r => if n < 4294967296 then some ((i, n) :: r) else none
    | _, _, _ => none
  | _ => none

/-- Protective cap shared with the adapter: a call that would request more than 16 MiB is
    not executed; the trace ends with `huge`. -/
def hugeAlloc : Nat := 16777216

/-- All reads until a final outcome (eof / ueof / ioerr / panic); `err` results continue. -/
partial def trace (pat : Array Bool) (snaps : List (Nat × Nat)) (i : Nat) (r : Reader) (acc : Array Out) : Array Out × Bool :=
  let r := snaps.foldl (fun r (j, n) => if j = i then setSnaplen r n else r) r
  let zc := pat[i % pat.size]!
  let st := read zc r
  if st.alloc.any (· > hugeAlloc) then (acc, true) else
  let acc := acc.push st.out
  if isFinal st.out || i > 2000000 then (acc, false) else trace pat snaps (i + 1) st.r acc

def uniform (pat : Array Bool) : Option Bool :=
  if pat.all (· == true) then some true else if pat.all (· == false) then some false else none

/-- The `readAll` of the theorems must be the prefix of the trace up to the first non-packet. -/
def consistent (pat : Array Bool) (snaps : List (Nat × Nat)) (r : Reader) (tr : Array Out) : Bool :=
  match uniform pat, snaps with
  | some zc, [] =>
    let (ps, o) := readAll zc r
    let pre := tr.toList.takeWhile (fun o => match o with | .pkt _ => true | _ => false)
    let nxt := tr.toList.drop pre.length |>.head?
    pre == ps.map Out.pkt && nxt == some o
  | _, _ => true

def doOpen (pat : Array Bool) (snaps : List (Nat × Nat)) (o : Open) : String :=
  match o with
  | .fail o => "open " ++ outStr o
  | .ok r _ =>
    let (tr, huge) := trace pat snaps 0 r #[]
    let hdr := s!"hdr {r.linkType} {r.snaplen} {if r.nanoFactor == 1 then "ns" else "us"}"
    let body := tr.foldl (fun acc o => acc ++ " | " ++ outStr o) hdr
    if huge then body ++ " | huge"
    else if consistent pat snaps r tr then body else body ++ " MODEL-INCONSISTENT"

def doRead (pat : Array Bool) (snaps : List (Nat × Nat)) (s : Stream) : String :=
  match s.data with
  | 0x1f :: 0x8b :: _ => "open gzip"
  | _ => doOpen pat snaps (openReader noGz s)

def parsePkts : List String → Option (List (CI × Bytes))
  | [] => some []
  | sec :: nsec :: cl :: ln :: hx :: rest =>
    match sec.toInt?, nsec.toNat?, cl.toInt?, ln.toInt?, bytesOfHex hx, parsePkts rest with
    | some sec, some nsec, some cl, some ln, some d, some r =>
      if sec < -8589934592 || sec > 1099511627776 || nsec ≥ 1000000000 || cl < -1099511627776 || cl > 1099511627776
         || ln < -1099511627776 || ln > 1099511627776 then none
      else some (({ sec := sec, nsec := nsec, caplen := cl, len := ln }, d) :: r)
    | _, _, _, _, _, _ => none
  | _ => none

def stepPcap (st : St) (ws : List String) : St × String :=
  match ws with
  | ["reset"] => ({}, "ok")
  | "pcap" :: "write" :: ns :: snap :: lt :: rest =>
    match ns.toNat?, snap.toNat?, lt.toNat?, parsePkts rest with
    | some ns, some snap, some lt, some ps =>
      if ns > 1 || snap ≥ 4294967296 || lt ≥ 65536 then (st, "bad-op") else
      let nanos := ns == 1
      let f := writeFile nanos snap lt ps
      let oks := (writePackets nanos ps).2
      let flags := if oks.isEmpty then "-" else String.ofList (oks.map (fun b => if b then '1' else '0'))
      ({ file := f }, "ok " ++ hexOfBytes f ++ " " ++ flags)
    | _, _, _, _ => (st, "bad-op")
  | ["pcap", "file", hx] =>
    match bytesOfHex hx with
    | some f => ({ file := f }, "ok")
    | none => (st, "bad-op")
  | "pcap" :: "read" :: pat :: cut :: term :: rest =>
    match parsePattern pat, cut.toNat?, parseSnaps rest with
    | some pat, some cut, some snaps =>
      if term == "eof" || term == "fail" then
        (st, doRead pat snaps { data := st.file.take cut, fail := term == "fail" })
      else (st, "bad-op")
    | _, _, _ => (st, "bad-op")
  | ["pcap", "readhex", pat, hx] =>
    match parsePattern pat, bytesOfHex hx with
    | some pat, some f => ({ file := f }, doRead pat [] { data := f, fail := false })
    | _, _ => (st, "bad-op")
  | ["pcap", "readgz", pat] =>
    -- the adapter gzip-compresses the current file; compress/gzip is trusted: the reader sees the plain bytes
    match parsePattern pat with
    | some pat =>
      (st, doOpen pat [] (openReader (fun _ => some { data := st.file, fail := false }) { data := [0x1f, 0x8b], fail := false }))
    | none => (st, "bad-op")
  | _ => (st, "bad-op")

def main : IO Unit := run ({} : St) stepPcap
