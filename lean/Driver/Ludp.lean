import Driver.Common
import Gp.Model.Layers.Udp
/- Model driver for engine `ludp` (layers/udp.go; properties C19 C05 C06 C07 C17). Core Lean only. -/
open Gp Gp.Udp Driver

namespace Ludp

/-- tail-recursive hex parser (payloads may be > 64 KiB) -/
def hexGo : List Char → List UInt8 → Option (List UInt8)
  | [], acc => some acc.reverse
  | [_], _ => none
  | a :: b :: rest, acc =>
    match hexVal a, hexVal b with
    | some x, some y => hexGo rest (UInt8.ofNat (x * 16 + y) :: acc)
    | _, _ => none

/-- bytes token: `-` | lower/upper hex | `pat:<n>:<a>:<b>` (byte i = (a + i*b) mod 256) -/
def bytesTok (s : String) : Option Bytes :=
  if s == "-" then some []
  else if s.startsWith "pat:" then
    match (s.splitOn ":") with
    | [_, n, a, b] =>
      match n.toNat?, a.toNat?, b.toNat? with
      | some n, some a, some b =>
        if n ≤ 200000 then some ((List.range n).map (fun i => UInt8.ofNat ((a + i * b) % 256))) else none
      | _, _, _ => none
    | _ => none
  else hexGo s.toList []

def fnv32 (bs : Bytes) : Nat :=
  bs.foldl (fun h b => ((h ^^^ b.toNat) * 16777619) % 4294967296) 2166136261

/-- canonical rendering of a byte string: hex up to 128 bytes, else prefix + length + FNV-1a/32 -/
def rb (bs : Bytes) : String :=
  if bs.length ≤ 128 then hexOfBytes bs
  else hexOfBytes (bs.take 16) ++ ".." ++ toString bs.length ++ "h" ++ toString (fnv32 bs)

def showLayer (l : Layer) : String :=
  "src=" ++ toString l.srcPort ++ " dst=" ++ toString l.dstPort ++ " len=" ++ toString l.length ++
  " csum=" ++ toString l.checksum ++ " sport=" ++ rb l.sPort ++ " dport=" ++ rb l.dPort ++
  " contents=" ++ rb l.contents ++ " payload=" ++ rb l.payload

def b01 (b : Bool) : String := if b then "1" else "0"

def showFlow (l : Layer) : String :=
  match transportFlow l with
  | .ok f => toString f.typ ++ ":" ++ rb f.srcBytes ++ ":" ++ rb f.dstBytes
  | .err _ => "err"
  | .panic _ => "panic"

def showDec (ov : Overrides) (o : DecOut) : String :=
  (if o.err then "err " else "ok ") ++ showLayer o.layer ++ " trunc=" ++ b01 o.trunc ++
  " next=" ++ toString (nextLayerType ov o.layer) ++ " flow=" ++ showFlow o.layer

def pseudoTok (s : String) : Option Pseudo :=
  if s == "none" then some .none
  else match s.splitOn ":" with
    | ["v4", a, b] => do let a ← bytesTok a; let b ← bytesTok b; pure (.v4 a b)
    | ["v6", a, b] => do let a ← bytesTok a; let b ← bytesTok b; pure (.v6 a b)
    | _ => none

def boolTok (s : String) : Option Bool :=
  if s == "1" then some true else if s == "0" then some false else none

def u16Tok (s : String) : Option Nat :=
  match s.toNat? with
  | some n => if n < 65536 then some n else none
  | none => none

/-- buffer history token: fresh | sized<p>_<a> | dirty<byte> (append 24, prepend plen+40 of that byte, Clear) -/
def bufTok (s : String) (plen : Nat) : Option SBuf.SBuf :=
  if s == "fresh" then some (SBuf.new 0 0)
  else if s.startsWith "sized" then
    match ((s.drop 5).toString.splitOn "_") with
    | [p, a] =>
      match p.toNat?, a.toNat? with
      | some p, some a => if p ≤ 200000 ∧ a ≤ 200000 then some (SBuf.new p a) else none
      | _, _ => none
    | _ => none
  else if s.startsWith "dirty" then
    match (s.drop 5).toString.toNat? with
    | some v =>
      if v < 256 then
        let x := UInt8.ofNat v
        let b := SBuf.new 0 0
        let b := SBuf.step b (.append (List.replicate 24 x))
        let b := SBuf.step b (.prepend (List.replicate (plen + 40) x))
        some (SBuf.clear b)
      else none
    | none => none
  else none

structure SerState where
  l : Layer
  payload : Bytes
  fix : Bool
  csum : Bool

structure St where
  cur : Layer := Layer.fresh
  dlp : Layer := Layer.fresh
  ov : Overrides := []
  ser : Option SerState := none

def showSer (r : Res (SBuf.SBuf × Layer)) : String :=
  match r with
  | .ok (b, l) => "ok " ++ rb (SBuf.contents b) ++ " len=" ++ toString l.length ++ " csum=" ++ toString l.checksum
  | .err _ => "err"
  | .panic k => "panic " ++ k.toString

def runSer (l : Layer) (b0 : SBuf.SBuf) (payload : Bytes) (fix csum : Bool) : Res (SBuf.SBuf × Layer) :=
  serializeUdp l (SBuf.step b0 (.prepend payload)) fix csum

def mkLayer (ps : Pseudo) (sp dp ln cs : Nat) : Layer :=
  { Layer.fresh with srcPort := sp, dstPort := dp, length := ln, checksum := cs, pseudo := ps }

def step (st : St) (ws : List String) : St × String :=
  match ws with
  | ["reset"] => ({}, "ok")
  | ["ludp", "dec", extra, foreign, hex] =>
    match extra.toNat?, bytesTok foreign, bytesTok hex with
    | some e, some f, some d =>
      if f.length = e then
        match decodeFromBytes Layer.fresh { data := d, foreign := f } with
        | .ok o => ({ st with cur := o.layer }, showDec st.ov o)
        | .err _ => (st, "err")
        | .panic k => (st, "panic " ++ k.toString)
      else (st, "bad-op")
    | _, _, _ => (st, "bad-op")
  | ["ludp", "redec", hex] =>
    match bytesTok hex with
    | some d =>
      match decodeFromBytes st.cur { data := d, foreign := [] } with
      | .ok o => ({ st with cur := o.layer }, showDec st.ov o)
      | .err _ => (st, "err")
      | .panic k => (st, "panic " ++ k.toString)
    | none => (st, "bad-op")
  | ["ludp", "dlp", kind, hex] =>
    match (if kind == "map" ∨ kind == "sparse" ∨ kind == "array" then bytesTok hex else none) with
    | some d =>
      match decodeFromBytes st.dlp { data := d, foreign := [] } with
      | .ok o => ({ st with dlp := o.layer },
          (if o.err then "err " else "ok ") ++ showLayer o.layer ++ " trunc=" ++ b01 o.trunc ++
          " decoded=" ++ (if o.err then "0" else "1"))
      | .err _ => (st, "err")
      | .panic k => (st, "panic " ++ k.toString)
    | none => (st, "bad-op")
  | ["ludp", "pkt", flags, extra, foreign, hex] =>
    match flags.toNat?, extra.toNat?, bytesTok foreign, bytesTok hex with
    | some fl, some e, some f, some d =>
      if f.length = e ∧ fl < 16 then
        -- packet.go: a lazy packet never calls the first decoder on empty data
        if fl % 2 = 1 ∧ d.isEmpty then (st, "ok nolayer") else
        match decodeUDP st.ov { data := d, foreign := f } with
        | .ok s =>
          let tail :=
            if s.err then " n=2 second=fail"
            else if s.added.payload.isEmpty then " n=1 second=-"
            else if s.next = some LayerTypePayload then " n=2 second=payload"
            else " n=+ second=?"
          (st, (if s.err then "err " else "ok ") ++ showLayer s.added ++ " trunc=" ++ b01 s.trunc ++
               " tl=" ++ b01 s.transport ++ tail)
        | .err _ => (st, "err")
        | .panic k => (st, "panic " ++ k.toString)
      else (st, "bad-op")
    | _, _, _, _ => (st, "bad-op")
  | ["ludp", "nlt", sp, dp] =>
    match u16Tok sp, u16Tok dp with
    | some sp, some dp => (st, "ok " ++ toString (nextLayerType st.ov (mkLayer .none sp dp 0 0)))
    | _, _ => (st, "bad-op")
  | ["ludp", "regport", p, t] =>
    match u16Tok p, t.toNat? with
    | some p, some t => ({ st with ov := (p, t) :: st.ov }, "ok")
    | _, _ => (st, "bad-op")
  | ["ludp", "setports"] =>
    let l := setInternalPorts st.cur
    ({ st with cur := l }, "ok " ++ showLayer l ++ " flow=" ++ showFlow l)
  | ["ludp", "flowpair", ha, hb] =>
    match bytesTok ha, bytesTok hb with
    | some a, some b =>
      match decodeUdp Layer.fresh a [], decodeUdp Layer.fresh b [] with
      | .ok (la, _), .ok (lb, _) =>
        match transportFlow la, transportFlow lb with
        | .ok fa, .ok fb => (st, "ok rev=" ++ b01 (decide (fb = fa.reverse)))
        | _, _ => (st, "panic explicit")
      | .panic k, _ => (st, "panic " ++ k.toString)
      | _, .panic k => (st, "panic " ++ k.toString)
      | _, _ => (st, "err")
    | _, _ => (st, "bad-op")
  | ["ludp", "ser", fix, csum, hist, ps, sp, dp, ln, cs, payload] =>
    match boolTok fix, boolTok csum, pseudoTok ps, u16Tok sp, u16Tok dp, u16Tok ln, u16Tok cs, bytesTok payload with
    | some fix, some csum, some ps, some sp, some dp, some ln, some cs, some payload =>
      match bufTok hist payload.length with
      | some b0 =>
        let l := mkLayer ps sp dp ln cs
        let r := runSer l b0 payload fix csum
        let st' := match r with
          | .ok (_, l') => { st with ser := some { l := l', payload := payload, fix := fix, csum := csum } }
          | _ => { st with ser := none }
        (st', showSer r)
      | none => (st, "bad-op")
    | _, _, _, _, _, _, _, _ => (st, "bad-op")
  | ["ludp", "reser", hist] =>
    match st.ser with
    | some s =>
      match bufTok hist s.payload.length with
      | some b0 =>
        let r := runSer s.l b0 s.payload s.fix s.csum
        let st' := match r with
          | .ok (_, l') => { st with ser := some { s with l := l' } }
          | _ => st
        (st', showSer r)
      | none => (st, "bad-op")
    | none => (st, "bad-op")
  | ["ludp", "rt", ps, sp, dp, ln, cs, payload] =>
    match pseudoTok ps, u16Tok sp, u16Tok dp, u16Tok ln, u16Tok cs, bytesTok payload with
    | some ps, some sp, some dp, some ln, some cs, some payload =>
      match runSer (mkLayer ps sp dp ln cs) (SBuf.new 0 0) payload true true with
      | .ok (b, _) =>
        let wire := SBuf.contents b
        match decodeFromBytes Layer.fresh { data := wire, foreign := [] } with
        | .ok o =>
          -- serialise the decoded layer once more (same network layer) over its payload
          let again := runSer { o.layer with pseudo := ps } (SBuf.new 0 0) o.layer.payload true true
          let same := match again with
            | .ok (b2, _) => decide (SBuf.contents b2 = wire)
            | _ => false
          (st, (if o.err then "err " else "ok ") ++ showLayer o.layer ++ " trunc=" ++ b01 o.trunc ++ " refix=" ++ b01 same)
        | .err _ => (st, "err")
        | .panic k => (st, "panic " ++ k.toString)
      | .err _ => (st, "err")
      | .panic k => (st, "panic " ++ k.toString)
    | _, _, _, _, _, _ => (st, "bad-op")
  | ["ludp", "verify", ps, hex] =>
    match pseudoTok ps, bytesTok hex with
    | some ps, some d =>
      match decodeFromBytes Layer.fresh { data := d, foreign := [] } with
      | .ok o =>
        if o.err then (st, "err")
        else match verifyChecksum { o.layer with pseudo := ps } with
          | .ok v => (st, "ok valid=" ++ b01 v.valid ++ " correct=" ++ toString v.correct ++ " actual=" ++ toString v.actual)
          | .err _ => (st, "verr")
          | .panic k => (st, "panic " ++ k.toString)
      | .err _ => (st, "err")
      | .panic k => (st, "panic " ++ k.toString)
    | _, _ => (st, "bad-op")
  | _ => (st, "bad-op")

end Ludp

def main : IO Unit := run ({} : Ludp.St) Ludp.step
