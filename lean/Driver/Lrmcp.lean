import Driver.Common
import Gp.Model.Layers.Rmcp
import Gp.Model.Layers.RmcpMdp
/- Model driver for engine `lrmcp` (RMCP, ASF, AGUEVar0, MDP codecs; C19, C05, C06, C07). -/
open Gp Gp.SBuf Gp.Rmcp Driver

structure St where
  rmcp  : RMCP := RMCP.fresh              -- the objects re-used by `redec`
  asf   : ASF := ASF.fresh
  ague  : AGUE := AGUE.fresh
  mdp   : MDP := MDP.fresh
  pRmcp : RMCP := RMCP.fresh              -- the objects owned by the DecodingLayerParser
  pAsf  : ASF := ASF.fresh
  pAgue : AGUE := AGUE.fresh

def b01 (b : Bool) : String := if b then "1" else "0"

def boolOf (s : String) : Option Bool :=
  if s == "1" then some true else if s == "0" then some false else none

def natBelow (s : String) (bound : Nat) : Option Nat :=
  match s.toNat? with
  | some n => if n < bound then some n else none
  | none => none

/-- payload token: hex, `-`, or `z<n>x<hh>` (n copies of byte hh). -/
def payloadOf (s : String) : Option (List UInt8) :=
  if s.startsWith "z" then
    match (String.ofList (s.toList.drop 1)).splitOn "x" with
    | [n, hh] =>
      match n.toNat?, bytesOfHex hh with
      | some n, some [v] => if n ≤ 200000 then some (List.replicate n v) else none
      | _, _ => none
    | _ => none
  else bytesOfHex s

def showNext (r : Res Nat) : String :=
  match r with
  | .ok n => toString n
  | .err _ => "err"
  | .panic _ => "panic"

def renderRmcp (l : RMCP) : String :=
  s!"ver={l.version} seq={l.sequence} ack={b01 l.ack} cls={l.cls} contents={hexOfBytes l.contents} payload={hexOfBytes l.payload} next={showNext l.nextLayerType}"

def renderAsf (l : ASF) : String :=
  s!"ent={l.enterprise} type={l.typ} tag={l.tag} len={l.length} contents={hexOfBytes l.contents} payload={hexOfBytes l.payload} next={l.nextLayerType}"

def renderAgue (l : AGUE) : String :=
  s!"ver={l.version} c={b01 l.c} proto={l.protocol} flags={l.flags} ext={hexOfBytes l.extensions} data={hexOfBytes l.data} contents={hexOfBytes l.layerContents} next={l.nextLayerType}"

def renderMdp (l : MDP) : String :=
  s!"pre={hexOfBytes l.preambleData} dev={hexOfBytes l.deviceInfo} net={hexOfBytes l.networkInfo} lon={hexOfBytes l.longitude} lat={hexOfBytes l.latitude} t6={hexOfBytes l.type6UUID} t7={hexOfBytes l.type7UUID} ip={hexOfBytes l.ipAddress} b13={hexOfBytes l.type13Bool} type={l.typ} length={l.length} contents={hexOfBytes l.contents} payload={hexOfBytes l.payload} next={l.nextLayerType}"

/-- reply of a decode op: on an error the receiver is rendered too (what the failed call left behind). -/
def showDec {L : Type} (render : L → String) (r : Res (DecOut L)) : String :=
  match r with
  | .ok o => if o.err then s!"err trunc={b01 o.trunc} | {render o.layer}" else s!"ok {render o.layer} trunc={b01 o.trunc}"
  | .err _ => "err"
  | .panic k => "panic " ++ k.toString

/-- MDP: what a failed decode leaves in the parsed fields is not under correspondence. -/
def showDecMdp (r : Res (DecOut MDP)) : String :=
  match r with
  | .ok o => if o.err then s!"err trunc={b01 o.trunc}" else s!"ok {renderMdp o.layer} trunc={b01 o.trunc}"
  | .err _ => "err"
  | .panic k => "panic " ++ k.toString

/-- the buffer histories of the `ser` op -/
def bufOf (h : String) : Option SBuf :=
  if h == "fresh" then some (new 0 0)
  else if h.startsWith "dirty" then
    match natBelow (String.ofList (h.toList.drop 5)) 256 with
    | some v =>
      let junk := List.replicate 64 (UInt8.ofNat v)
      some (clear (step (step (new 0 0) (.append junk)) (.prepend junk)))
    | none => none
  else if h.startsWith "sized" then
    match natBelow (String.ofList (h.toList.drop 5)) 100000 with
    | some n => some (new n n)
    | none => none
  else none

/-- the buffer SerializeLayers hands to the layer: cleared, payload serialized and pushed -/
def overPayload (p : List UInt8) : SBuf := pushLayer (serializePayload p (clear (new 0 0))) 2

def againStr {L : Type} (r : Res (SerOut L)) (bytes : List UInt8) : String :=
  match r with
  | .ok o2 => if o2.err then "err" else if contents o2.buf = bytes then "same" else "diff"
  | .err _ => "err"
  | .panic k => "panic-" ++ k.toString

/-- serialize (fix+csum) → decode into a fresh object → serialize the decoded layer again -/
def rtGen {L : Type} (ser : L → SBuf → Bool → Bool → Res (SerOut L)) (dec : GSlice → Res (DecOut L))
    (pay : L → List UInt8) (render : L → String) (l : L) (p : List UInt8) : String :=
  match ser l (overPayload p) true true with
  | .panic k => "panic " ++ k.toString
  | .err _ => "ser-err"
  | .ok o =>
    if o.err then "ser-err" else
    let bytes := contents o.buf
    let d := dec { vis := bytes, tail := [] }
    let again :=
      match d with
      | .ok od => if od.err then "none" else againStr (ser od.layer (overPayload (pay od.layer)) true true) bytes
      | _ => "none"
    s!"ok bytes={hexOfBytes bytes} | {showDec render d} | again={again}"

def rtRmcp := rtGen RMCP.serializeTo RMCP.fresh.decodeFromBytes RMCP.layerPayload renderRmcp
def rtAsf := rtGen ASF.serializeTo ASF.fresh.decodeFromBytes ASF.layerPayload renderAsf
def rtAgue := rtGen AGUE.serializeTo AGUE.fresh.decodeFromBytes AGUE.layerPayload renderAgue

def showAct : Act → String
  | .setTruncated => "trunc"
  | .addLayer t => s!"add:{t}"
  | .setApplicationLayer => "app"

def showTail : Tail → String
  | .done => "done"
  | .fail => "fail"
  | .nextLayerType t => s!"lt:{t}"
  | .agueVar1 => "var1"

def showBeh (b : Beh) : String :=
  let acts := if b.acts.isEmpty then "-" else ",".intercalate (b.acts.map showAct)
  s!"acts={acts} tail={showTail b.tail}"

def showPb {L : Type} (render : L → String) (r : Res (Beh × Option L)) : String :=
  match r with
  | .ok (b, some l) => s!"{showBeh b} | {render l}"
  | .ok (b, none) => showBeh b
  | .err _ => "err"
  | .panic k => "panic " ++ k.toString

def showPkt {L : Type} (render : L → String) (r : Res (Beh × Option L)) : String :=
  match r with
  | .ok (_, some l) => s!"ok {render l}"
  | .ok (_, none) => "fail"
  | .err _ => "err"
  | .panic k => "panic " ++ k.toString

def insertSorted (x : Nat × Nat) : List (Nat × Nat) → List (Nat × Nat)
  | [] => [x]
  | y :: ys => if x.1 ≤ y.1 then x :: y :: ys else y :: insertSorted x ys

def showDlp (r : Res (DlpState × Nat)) : String :=
  match r with
  | .panic k => "panic " ++ k.toString
  | .err _ => "err"
  | .ok (st, code) =>
    let dec := if st.decoded.isEmpty then "-" else ",".intercalate (st.decoded.map toString)
    s!"code={code} decoded={dec} trunc={b01 st.trunc} | {renderRmcp st.rmcp} | {renderAsf st.asf} | {renderAgue st.ague}"

def firstOf (s : String) : Option Nat :=
  if s == "rmcp" then some LayerTypeRMCP
  else if s == "asf" then some LayerTypeASF
  else if s == "ague" then some LayerTypeAGUEVar0
  else none

def keep {L : Type} (dflt : L) (r : Res (DecOut L)) : L :=
  match r with | .ok o => o.layer | _ => dflt

def showSer {L : Type} (tail : L → String) (r : Res (SerOut L)) : String :=
  match r with
  | .ok o => if o.err then s!"err{tail o.layer}" else s!"ok bytes={hexOfBytes (contents o.buf)}{tail o.layer}"
  | .err _ => "err"
  | .panic k => "panic " ++ k.toString

def rmcpOf (ver seq ack cls : String) : Option RMCP :=
  match natBelow ver 256, natBelow seq 256, boolOf ack, natBelow cls 256 with
  | some ver, some seq, some ack, some cls => some { RMCP.fresh with version := ver, sequence := seq, ack := ack, cls := cls }
  | _, _, _, _ => none

def asfOf (ent typ tag len : String) : Option ASF :=
  match natBelow ent 4294967296, natBelow typ 256, natBelow tag 256, natBelow len 256 with
  | some ent, some typ, some tag, some len => some { ASF.fresh with enterprise := ent, typ := typ, tag := tag, length := len }
  | _, _, _, _ => none

def agueOf (ver c proto flags ext : String) : Option AGUE :=
  match natBelow ver 256, boolOf c, natBelow proto 256, natBelow flags 65536, bytesOfHex ext with
  | some ver, some c, some proto, some flags, some ext =>
    some { AGUE.fresh with version := ver, c := c, protocol := proto, flags := flags, extensions := ext }
  | _, _, _, _, _ => none

def stepLrmcp (st : St) (ws : List String) : St × String :=
  match ws with
  | ["reset"] => ({}, "ok")
  | ["lrmcp", "dec", kind, extra, fh, h] =>
    match extra.toNat?, bytesOfHex fh, bytesOfHex h with
    | some n, some foreign, some data =>
      if foreign.length ≠ n then (st, "bad-op") else
      let d : GSlice := { vis := data, tail := foreign }
      if kind == "rmcp" then
        let r := RMCP.fresh.decodeFromBytes d
        ({ st with rmcp := keep RMCP.fresh r }, showDec renderRmcp r)
      else if kind == "asf" then
        let r := ASF.fresh.decodeFromBytes d
        ({ st with asf := keep ASF.fresh r }, showDec renderAsf r)
      else if kind == "ague" then
        let r := AGUE.fresh.decodeFromBytes d
        ({ st with ague := keep AGUE.fresh r }, showDec renderAgue r)
      else if kind == "mdp" then
        let r := MDP.fresh.decodeFromBytes d
        ({ st with mdp := keep MDP.fresh r }, showDecMdp r)
      else (st, "bad-op")
    | _, _, _ => (st, "bad-op")
  | ["lrmcp", "redec", kind, h] =>
    match bytesOfHex h with
    | some data =>
      let d : GSlice := { vis := data, tail := [] }
      if kind == "rmcp" then
        let r := st.rmcp.decodeFromBytes d
        ({ st with rmcp := keep st.rmcp r }, showDec renderRmcp r)
      else if kind == "asf" then
        let r := st.asf.decodeFromBytes d
        ({ st with asf := keep st.asf r }, showDec renderAsf r)
      else if kind == "ague" then
        let r := st.ague.decodeFromBytes d
        ({ st with ague := keep st.ague r }, showDec renderAgue r)
      else if kind == "mdp" then
        let r := st.mdp.decodeFromBytes d
        ({ st with mdp := keep st.mdp r }, showDecMdp r)
      else (st, "bad-op")
    | none => (st, "bad-op")
  | ["lrmcp", "ser", "rmcp", fix, csum, hist, ver, seq, ack, cls, pl] =>
    match boolOf fix, boolOf csum, bufOf hist, rmcpOf ver seq ack cls, payloadOf pl with
    | some fix, some csum, some b, some l, some p =>
      (st, showSer (fun _ => "") (l.serializeTo (serializePayload p b) fix csum))
    | _, _, _, _, _ => (st, "bad-op")
  | ["lrmcp", "ser", "asf", fix, csum, hist, ent, typ, tag, len, pl] =>
    match boolOf fix, boolOf csum, bufOf hist, asfOf ent typ tag len, payloadOf pl with
    | some fix, some csum, some b, some l, some p =>
      (st, showSer (fun (l : ASF) => s!" len={l.length}") (l.serializeTo (serializePayload p b) fix csum))
    | _, _, _, _, _ => (st, "bad-op")
  | ["lrmcp", "ser", "ague", fix, csum, hist, ver, c, proto, flags, ext, pl] =>
    match boolOf fix, boolOf csum, bufOf hist, agueOf ver c proto flags ext, payloadOf pl with
    | some fix, some csum, some b, some l, some p =>
      (st, showSer (fun _ => "") (l.serializeTo (serializePayload p b) fix csum))
    | _, _, _, _, _ => (st, "bad-op")
  | ["lrmcp", "ser", "mdp", fix, csum, hist, pl] =>
    match boolOf fix, boolOf csum, bufOf hist, payloadOf pl with
    | some fix, some csum, some b, some p =>
      (st, showSer (fun _ => "") (MDP.fresh.serializeTo (serializePayload p b) fix csum))
    | _, _, _, _ => (st, "bad-op")
  | ["lrmcp", "rt", "rmcp", ver, seq, ack, cls, pl] =>
    match rmcpOf ver seq ack cls, payloadOf pl with
    | some l, some p => (st, rtRmcp l p)
    | _, _ => (st, "bad-op")
  | ["lrmcp", "rt", "asf", ent, typ, tag, len, pl] =>
    match asfOf ent typ tag len, payloadOf pl with
    | some l, some p => (st, rtAsf l p)
    | _, _ => (st, "bad-op")
  | ["lrmcp", "rt", "ague", ver, c, proto, flags, ext, pl] =>
    match agueOf ver c proto flags ext, payloadOf pl with
    | some l, some p => (st, rtAgue l p)
    | _, _ => (st, "bad-op")
  | ["lrmcp", "rtdec", kind, h] =>
    match bytesOfHex h with
    | some data =>
      let d : GSlice := { vis := data, tail := [] }
      if kind == "rmcp" then
        match RMCP.fresh.decodeFromBytes d with
        | .ok o => if o.err then (st, "dec-err") else (st, rtRmcp o.layer o.layer.payload)
        | .err _ => (st, "dec-err")
        | .panic k => (st, "panic " ++ k.toString)
      else if kind == "asf" then
        match ASF.fresh.decodeFromBytes d with
        | .ok o => if o.err then (st, "dec-err") else (st, rtAsf o.layer o.layer.payload)
        | .err _ => (st, "dec-err")
        | .panic k => (st, "panic " ++ k.toString)
      else if kind == "ague" then
        match AGUE.fresh.decodeFromBytes d with
        | .ok o => if o.err then (st, "dec-err") else (st, rtAgue o.layer o.layer.data)
        | .err _ => (st, "dec-err")
        | .panic k => (st, "panic " ++ k.toString)
      else if kind == "mdp" then
        match MDP.fresh.decodeFromBytes d with
        | .ok o =>
          if o.err then (st, "dec-err") else
          (st, showSer (fun _ => "") (o.layer.serializeTo (clear (new 0 0)) true true))
        | .err _ => (st, "dec-err")
        | .panic k => (st, "panic " ++ k.toString)
      else (st, "bad-op")
    | none => (st, "bad-op")
  | ["lrmcp", "pb", kind, h] =>
    match bytesOfHex h with
    | some data =>
      let d : GSlice := { vis := data, tail := [] }
      if kind == "rmcp" then (st, showPb renderRmcp (decodeRMCPFn d))
      else if kind == "asf" then (st, showPb renderAsf (decodeASFFn d))
      else if kind == "ague" then (st, showPb renderAgue (decodeAGUEFn d))
      else if kind == "mdp" then (st, showPb renderMdp (decodeMDPFn d))
      else (st, "bad-op")
    | none => (st, "bad-op")
  | ["lrmcp", "pkt", kind, mode, extra, fh, h] =>
    match extra.toNat?, bytesOfHex fh, bytesOfHex h with
    | some n, some foreign, some data =>
      if foreign.length ≠ n ∨ ¬ (mode == "copy" ∨ mode == "nocopy" ∨ mode == "lazy") then (st, "bad-op") else
      if data.isEmpty then (st, "empty") else
      -- the copying paths give the decoder a buffer with cap = len
      let d : GSlice := { vis := data, tail := if mode == "nocopy" then foreign else [] }
      if kind == "rmcp" then (st, showPkt renderRmcp (decodeRMCPFn d))
      else if kind == "asf" then (st, showPkt renderAsf (decodeASFFn d))
      else if kind == "ague" then (st, showPkt renderAgue (decodeAGUEFn d))
      else if kind == "mdp" then (st, showPkt renderMdp (decodeMDPFn d))
      else (st, "bad-op")
    | _, _, _ => (st, "bad-op")
  | ["lrmcp", "dlp", first, h] =>
    match firstOf first, bytesOfHex h with
    | some first, some data =>
      let r := dlpDecodeLayers RMCP.fresh ASF.fresh AGUE.fresh first { vis := data, tail := [] }
      let st' := match r with
        | .ok (s, _) => { st with pRmcp := s.rmcp, pAsf := s.asf, pAgue := s.ague }
        | _ => { st with pRmcp := RMCP.fresh, pAsf := ASF.fresh, pAgue := AGUE.fresh }
      (st', showDlp r)
    | _, _ => (st, "bad-op")
  | ["lrmcp", "redlp", first, h] =>
    match firstOf first, bytesOfHex h with
    | some first, some data =>
      let r := dlpDecodeLayers st.pRmcp st.pAsf st.pAgue first { vis := data, tail := [] }
      let st' := match r with
        | .ok (s, _) => { st with pRmcp := s.rmcp, pAsf := s.asf, pAgue := s.ague }
        | _ => st
      (st', showDlp r)
    | _, _ => (st, "bad-op")
  | ["lrmcp", "classtab"] =>
    -- RMCPClass(c).LayerType() for c = 0..15 (Payload entries omitted), then the first class that panics
    let rows := (List.range 16).filterMap (fun c =>
      match rmcpClassLayerType c with
      | .ok t => if t = LayerTypePayload then none else some s!"{c}:{t}"
      | _ => some s!"{c}:panic")
    (st, "ok " ++ ",".intercalate rows ++ " 16=" ++ showNext (rmcpClassLayerType 16) ++ " 255=" ++ showNext (rmcpClassLayerType 255))
  | ["lrmcp", "asftab", ent, typ] =>
    match natBelow ent 4294967296, natBelow typ 256 with
    | some ent, some typ => (st, s!"ok {asfDataLayerType ent typ}")
    | _, _ => (st, "bad-op")
  | ["lrmcp", "iptab"] =>
    let rows := ipProtoTable.foldr insertSorted []
    (st, "ok " ++ ",".intercalate (rows.map (fun r => s!"{r.1}:{r.2}")))
  | _ => (st, "bad-op")

def main : IO Unit := run ({} : St) stepLrmcp
