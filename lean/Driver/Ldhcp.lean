import Driver.Common
import Gp.Model.Layers.Dhcp
/- Model driver for engine `ldhcp` (DHCPv4 codec; C19, C05, C06, C07).  Drives the `.fixed` variant
   of the model = the tree with proposed_fixes/ldhcp-{1,2,3} applied. -/
open Gp Gp.SBuf Gp.Dhcp Driver

structure St where
  cur  : DHCPv4 := DHCPv4.fresh            -- the object re-used by `redec`
  pObj : DHCPv4 := DHCPv4.fresh            -- the object owned by the DecodingLayerParser

def b01 (b : Bool) : String := if b then "1" else "0"

def boolOf (s : String) : Option Bool :=
  if s == "1" then some true else if s == "0" then some false else none

def natBelow (s : String) (bound : Nat) : Option Nat :=
  match s.toNat? with
  | some n => if n < bound then some n else none
  | none => none

/-- payload token: hex, `-`, or `z<n>x<hh>` (n copies of byte hh). -/
def payloadOf (s : String) : Option (List UInt8) :=
  if s.startsWith "z" then
    match (String.ofList (s.toList.drop 1)).splitOn "x" with
    | [n, hh] =>
      match n.toNat?, bytesOfHex hh with
      | some n, some [v] => if n ≤ 200000 then some (List.replicate n v) else none
      | _, _ => none
    | _ => none
  else bytesOfHex s

def renderOpt (o : DHCPOption) : String := s!"{o.typ}:{o.length}:{hexOfBytes o.data}"

def renderOpts (os : List DHCPOption) : String :=
  if os.isEmpty then "-" else ",".intercalate (os.map renderOpt)

def render (l : DHCPv4) : String :=
  s!"op={l.operation} ht={l.hardwareType} hlen={l.hardwareLen} hops={l.relayHops} xid={l.xid} secs={l.secs} flags={l.flags} cip={hexOfBytes l.clientIP} yip={hexOfBytes l.yourClientIP} sip={hexOfBytes l.nextServerIP} gip={hexOfBytes l.relayAgentIP} chaddr={hexOfBytes l.clientHWAddr} sname={hexOfBytes l.serverName} file={hexOfBytes l.file} opts={renderOpts l.options} contents={hexOfBytes l.contents} payload={hexOfBytes l.payload} next={l.nextLayerType}"

/-- option token `t:l:hex` -/
def optOf (s : String) : Option DHCPOption :=
  match s.splitOn ":" with
  | [t, l, h] =>
    match natBelow t 256, natBelow l 256, bytesOfHex h with
    | some t, some l, some d => some { typ := t, length := l, data := d }
    | _, _, _ => none
  | _ => none

/-- option list token: `-` or `t:l:hex,t:l:hex,…`; `r<n>x<t:l:hex>` = n copies of one option. -/
def optsOf (s : String) : Option (List DHCPOption) :=
  if s == "-" then some []
  else if s.startsWith "r" then
    match (String.ofList (s.toList.drop 1)).splitOn "x" with
    | [n, o] =>
      match n.toNat?, optOf o with
      | some n, some o => if n ≤ 2000 then some (List.replicate n o) else none
      | _, _ => none
    | _ => none
  else (s.splitOn ",").mapM optOf

/-- reply of a decode op: on an error the receiver is rendered too (what the failed call left behind). -/
def showDec (r : Res (DecOut DHCPv4)) : String :=
  match r with
  | .ok o => if o.err then s!"err trunc={b01 o.trunc} | {render o.layer}" else s!"ok {render o.layer} trunc={b01 o.trunc}"
  | .err _ => "err"
  | .panic k => "panic " ++ k.toString

/-- the buffer histories of the `ser` op; `dirty<v>`: 1024 bytes of v appended, 1024 prepended, Clear -/
def bufOf (h : String) : Option SBuf :=
  if h == "fresh" then some (new 0 0)
  else if h.startsWith "dirty" then
    match natBelow (String.ofList (h.toList.drop 5)) 256 with
    | some v =>
      let junk := List.replicate 1024 (UInt8.ofNat v)
      some (clear (step (step (new 0 0) (.append junk)) (.prepend junk)))
    | none => none
  else if h.startsWith "sized" then
    match natBelow (String.ofList (h.toList.drop 5)) 100000 with
    | some n => some (new n n)
    | none => none
  else none

/-- the buffer SerializeLayers hands to the layer: cleared, payload serialized and pushed -/
def overPayload (p : List UInt8) : SBuf := pushLayer (serializePayload p (clear (new 0 0))) 2

/-- fields: op ht hlen hops xid secs flags cip yip sip gip chaddr sname file opts -/
def layerOf (a : List String) : Option DHCPv4 :=
  match a with
  | [op, ht, hlen, hops, xid, secs, flags, cip, yip, sip, gip, ch, sn, fl, opts] =>
    match natBelow op 256, natBelow ht 256, natBelow hlen 256, natBelow hops 256, natBelow xid 4294967296,
          natBelow secs 65536, natBelow flags 65536 with
    | some op, some ht, some hlen, some hops, some xid, some secs, some flags =>
      match bytesOfHex cip, bytesOfHex yip, bytesOfHex sip, bytesOfHex gip, bytesOfHex ch, bytesOfHex sn,
            bytesOfHex fl, optsOf opts with
      | some cip, some yip, some sip, some gip, some ch, some sn, some fl, some opts =>
        some { DHCPv4.fresh with operation := op, hardwareType := ht, hardwareLen := hlen, relayHops := hops,
                                 xid := xid, secs := secs, flags := flags, clientIP := cip, yourClientIP := yip,
                                 nextServerIP := sip, relayAgentIP := gip, clientHWAddr := ch, serverName := sn,
                                 file := fl, options := opts }
      | _, _, _, _, _, _, _, _ => none
    | _, _, _, _, _, _, _ => none
  | _ => none

def againStr (r : Res (SerOut DHCPv4)) (bytes : List UInt8) : String :=
  match r with
  | .ok o2 => if o2.err then "err" else if contents o2.buf = bytes then "same" else "diff"
  | .err _ => "err"
  | .panic k => "panic-" ++ k.toString

def rt (l : DHCPv4) (p : List UInt8) : String :=
  match l.serializeTo .fixed (overPayload p) true true with
  | .panic k => "panic " ++ k.toString
  | .err _ => "ser-err"
  | .ok o =>
    if o.err then "ser-err" else
    let bytes := contents o.buf
    let d := DHCPv4.fresh.decodeFromBytes .fixed { vis := bytes, tail := [] }
    let again :=
      match d with
      | .ok od => if od.err then "none" else againStr (od.layer.serializeTo .fixed (overPayload od.layer.payload) true true) bytes
      | _ => "none"
    s!"ok bytes={hexOfBytes bytes} | {showDec d} | again={again}"

def showAct : Act → String
  | .setTruncated => "trunc"
  | .addLayer t => s!"add:{t}"

def showTail : Tail → String
  | .fail => "fail"
  | .nextLayerType t => s!"lt:{t}"

def showBeh (b : Beh) : String :=
  let acts := if b.acts.isEmpty then "-" else ",".intercalate (b.acts.map showAct)
  s!"acts={acts} tail={showTail b.tail}"

def showPb (r : Res (Beh × Option DHCPv4)) : String :=
  match r with
  | .ok (b, some l) => s!"{showBeh b} | {render l}"
  | .ok (b, none) => showBeh b
  | .err _ => "err"
  | .panic k => "panic " ++ k.toString

def showPkt (r : Res (Beh × Option DHCPv4)) : String :=
  match r with
  | .ok (b, some l) => s!"ok {render l} trunc={b01 (b.acts.contains .setTruncated)}"
  | .ok (b, none) => s!"fail trunc={b01 (b.acts.contains .setTruncated)}"
  | .err _ => "err"
  | .panic k => "panic " ++ k.toString

def showDlp (r : Res DlpOut) : String :=
  match r with
  | .panic k => "panic " ++ k.toString
  | .err _ => "err"
  | .ok o =>
    let dec := if o.decoded.isEmpty then "-" else ",".intercalate (o.decoded.map toString)
    s!"code={o.code} decoded={dec} trunc={b01 o.trunc} | {render o.layer}"

def keep (dflt : DHCPv4) (r : Res (DecOut DHCPv4)) : DHCPv4 :=
  match r with | .ok o => o.layer | _ => dflt

def stepLdhcp (st : St) (ws : List String) : St × String :=
  match ws with
  | ["reset"] => ({}, "ok")
  | ["ldhcp", "dec", extra, fh, h] =>
    match extra.toNat?, bytesOfHex fh, bytesOfHex h with
    | some n, some foreign, some data =>
      if foreign.length ≠ n then (st, "bad-op") else
      let r := DHCPv4.fresh.decodeFromBytes .fixed { vis := data, tail := foreign }
      ({ st with cur := keep DHCPv4.fresh r }, showDec r)
    | _, _, _ => (st, "bad-op")
  | ["ldhcp", "redec", h] =>
    match bytesOfHex h with
    | some data =>
      let r := st.cur.decodeFromBytes .fixed { vis := data, tail := [] }
      ({ st with cur := keep st.cur r }, showDec r)
    | none => (st, "bad-op")
  | "ldhcp" :: "ser" :: fix :: csum :: hist :: rest =>
    if rest.length ≠ 16 then (st, "bad-op") else
    match boolOf fix, boolOf csum, bufOf hist, layerOf (rest.take 15), payloadOf (rest.getD 15 "") with
    | some fix, some csum, some b, some l, some p =>
      match l.serializeTo .fixed (serializePayload p b) fix csum with
      | .ok o =>
        if o.err then (st, s!"err hlen={o.layer.hardwareLen}")
        else (st, s!"ok bytes={hexOfBytes (contents o.buf)} hlen={o.layer.hardwareLen}")
      | .err _ => (st, "err")
      | .panic k => (st, "panic " ++ k.toString)
    | _, _, _, _, _ => (st, "bad-op")
  | "ldhcp" :: "rt" :: rest =>
    if rest.length ≠ 16 then (st, "bad-op") else
    match layerOf (rest.take 15), payloadOf (rest.getD 15 "") with
    | some l, some p => (st, rt l p)
    | _, _ => (st, "bad-op")
  | ["ldhcp", "rtdec", h] =>
    match bytesOfHex h with
    | some data =>
      match DHCPv4.fresh.decodeFromBytes .fixed { vis := data, tail := [] } with
      | .ok o => if o.err then (st, "dec-err") else (st, rt o.layer o.layer.payload)
      | .err _ => (st, "dec-err")
      | .panic k => (st, "panic " ++ k.toString)
    | none => (st, "bad-op")
  | ["ldhcp", "pb", h] =>
    match bytesOfHex h with
    | some data => (st, showPb (decodeDHCPv4Fn .fixed { vis := data, tail := [] }))
    | none => (st, "bad-op")
  | ["ldhcp", "pkt", mode, extra, fh, h] =>
    match extra.toNat?, bytesOfHex fh, bytesOfHex h with
    | some n, some foreign, some data =>
      if foreign.length ≠ n ∨ ¬ (mode == "copy" ∨ mode == "nocopy" ∨ mode == "lazy" ∨ mode == "pool") then (st, "bad-op") else
      if data.isEmpty then (st, "empty") else
      -- NewPacket clamps the capacity of the packet buffer (data[:len:len]): the first decoder sees cap = len
      (st, showPkt (decodeDHCPv4Fn .fixed { vis := data, tail := [] }))
    | _, _, _ => (st, "bad-op")
  | ["ldhcp", "dlp", h] =>
    match bytesOfHex h with
    | some data =>
      let r := dlpDecodeLayers .fixed DHCPv4.fresh { vis := data, tail := [] }
      let st' := match r with
        | .ok o => { st with pObj := o.layer }
        | _ => { st with pObj := DHCPv4.fresh }
      (st', showDlp r)
    | none => (st, "bad-op")
  | ["ldhcp", "redlp", h] =>
    match bytesOfHex h with
    | some data =>
      let r := dlpDecodeLayers .fixed st.pObj { vis := data, tail := [] }
      let st' := match r with
        | .ok o => { st with pObj := o.layer }
        | _ => st
      (st', showDlp r)
    | none => (st, "bad-op")
  | ["ldhcp", "len", opts] =>
    match optsOf opts with
    | some os => (st, s!"ok {({ DHCPv4.fresh with options := os }).len}")
    | none => (st, "bad-op")
  | ["ldhcp", "newopt", t, d] =>
    match natBelow t 256 with
    | some t =>
      if d == "nil" then (st, "ok " ++ renderOpt (newDHCPOption t none))
      else match payloadOf d with
        | some bs => (st, "ok " ++ renderOpt (newDHCPOption t (some bs)))
        | none => (st, "bad-op")
    | none => (st, "bad-op")
  | ["ldhcp", "to4", h] =>
    match bytesOfHex h with
    | some ip => (st, "ok " ++ hexOfBytes (to4 ip))
    | none => (st, "bad-op")
  | _ => (st, "bad-op")

def main : IO Unit := run ({} : St) stepLdhcp
