import Driver.Common
import Gp.Model.Layers.Sll
/- Model driver for engine `lsll` (LinuxSLL, LinuxSLL2, EtherIP, UDPLite, RUDP decoders and flows; C19, C05, C17). -/
open Gp Gp.Sll Driver

structure St where
  sll   : LinuxSLL := LinuxSLL.fresh        -- the objects re-used by `redec`
  sll2  : LinuxSLL2 := LinuxSLL2.fresh
  eip   : EtherIP := EtherIP.fresh
  pSll  : LinuxSLL := LinuxSLL.fresh        -- the objects owned by the DecodingLayerParser
  pSll2 : LinuxSLL2 := LinuxSLL2.fresh
  pEip  : EtherIP := EtherIP.fresh

def b01 (b : Bool) : String := if b then "1" else "0"

def showFlowBytes (r : Res Flow) : String × String :=
  match r with
  | .ok f => (hexOfBytes f.srcBytes, hexOfBytes f.dstBytes)
  | .err _ => ("err", "err")
  | .panic k => ("panic-" ++ k.toString, "panic-" ++ k.toString)

def renderSll (l : LinuxSLL) : String :=
  s!"pt={l.packetType} at={l.addrType} alen={l.addrLen} addr={hexOfBytes l.addr} et={l.ethernetType} contents={hexOfBytes l.contents} payload={hexOfBytes l.payload} next={l.nextLayerType}"

def renderSll2 (l : LinuxSLL2) : String :=
  s!"proto={l.protocolType} ifidx={l.interfaceIndex} hatype={l.arpHardwareType} pt={l.packetType} alen={l.addrLength} addr={hexOfBytes l.addr} contents={hexOfBytes l.contents} payload={hexOfBytes l.payload} next={l.nextLayerType}"

def renderEip (l : EtherIP) : String :=
  s!"ver={l.version} res={l.reserved} contents={hexOfBytes l.contents} payload={hexOfBytes l.payload} next={l.nextLayerType}"

def renderUdplite (l : UDPLite) : String :=
  let (fs, fd) := showFlowBytes l.transportFlow
  s!"sp={l.srcPort} dp={l.dstPort} cov={l.checksumCoverage} ck={l.checksum} fsrc={fs} fdst={fd} contents={hexOfBytes l.contents} payload={hexOfBytes l.payload}"

def renderRudp (l : RUDP) : String :=
  let synh := match l.headerSYN with
    | some h => s!"{h.maxOutstandingSegments}/{h.maxSegmentSize}/{h.optionFlags}"
    | none => "-"
  let eackh := match l.headerEACK with
    | some xs => "[" ++ ",".intercalate (xs.map toString) ++ "]"
    | none => "-"
  s!"syn={b01 l.syn} ack={b01 l.ack} eack={b01 l.eack} rst={b01 l.rst} nul={b01 l.nul} ver={l.version} hl={l.headerLength} sp={l.srcPort} dp={l.dstPort} dl={l.dataLength} seq={l.seq} acknum={l.ackNum} ck={l.checksum} vha={hexOfBytes l.variableHeaderArea} synhdr={synh} eackhdr={eackh} contents={hexOfBytes l.contents} payload={hexOfBytes l.payload}"

/-- reply of a DecodeFromBytes op: on an error the receiver is rendered too (what the failed call left behind). -/
def showDec {L : Type} (render : L → String) (r : Res (DecOut L)) : String :=
  match r with
  | .ok o => if o.err then s!"err trunc={b01 o.trunc} | {render o.layer}" else s!"ok {render o.layer} trunc={b01 o.trunc}"
  | .err _ => "err"
  | .panic k => "panic " ++ k.toString

def showAct : Act → String
  | .setTruncated => "trunc"
  | .addLayer t => s!"add:{t}"
  | .setLinkLayer => "link"
  | .setTransportLayer => "transport"

def showTail : Tail → String
  | .done => "done"
  | .fail => "fail"
  | .nextLayerType t => s!"lt:{t}"
  | .nextEthernetType e => s!"eth:{e}"

def showBeh (b : Beh) : String :=
  let acts := if b.acts.isEmpty then "-" else ",".intercalate (b.acts.map showAct)
  s!"acts={acts} tail={showTail b.tail}"

def showFn {L : Type} (render : L → String) (r : Res (Beh × Option L)) : String :=
  match r with
  | .ok (b, some l) => s!"{showBeh b} | {render l}"
  | .ok (b, none) => showBeh b
  | .err _ => "err"
  | .panic k => "panic " ++ k.toString

def showPkt {L : Type} (render : L → String) (r : Res (Beh × Option L)) : String :=
  match r with
  | .ok (b, some l) => s!"ok {render l} link={b01 (b.acts.contains .setLinkLayer)} transport={b01 (b.acts.contains .setTransportLayer)}"
  | .ok (b, none) => s!"fail trunc={b01 (b.acts.contains .setTruncated)}"
  | .err _ => "err"
  | .panic k => "panic " ++ k.toString

def showFlow (r : Res Flow) : String :=
  match r with
  | .ok f =>
    let g := f.reverse
    s!"ok et={f.typ} src={hexOfBytes f.srcBytes} dst={hexOfBytes f.dstBytes} rsrc={hexOfBytes g.srcBytes} rdst={hexOfBytes g.dstBytes}"
  | .err _ => "err"
  | .panic k => "panic " ++ k.toString

def showFlowOf {L : Type} (flow : L → Res Flow) (r : Res (Beh × Option L)) : String :=
  match r with
  | .ok (_, some l) => showFlow (flow l)
  | .ok (_, none) => "err"
  | .err _ => "err"
  | .panic k => "panic " ++ k.toString

def insertSorted (x : Nat × Nat) : List (Nat × Nat) → List (Nat × Nat)
  | [] => [x]
  | y :: ys => if x.1 ≤ y.1 then x :: y :: ys else y :: insertSorted x ys

def showDlp (r : Res (DlpState × Nat)) : String :=
  match r with
  | .panic k => "panic " ++ k.toString
  | .err _ => "err"
  | .ok (st, code) =>
    let dec := if st.decoded.isEmpty then "-" else ",".intercalate (st.decoded.map toString)
    s!"code={code} decoded={dec} trunc={b01 st.trunc} | {renderSll st.sll} | {renderSll2 st.sll2} | {renderEip st.etherip}"

def firstOf (s : String) : Option Nat :=
  if s == "sll" then some LayerTypeLinuxSLL
  else if s == "sll2" then some LayerTypeLinuxSLL2
  else if s == "etherip" then some LayerTypeEtherIP
  else none

def keep {L : Type} (dflt : L) (r : Res (DecOut L)) : L :=
  match r with | .ok o => o.layer | _ => dflt

/-- the registered decoder function of a kind, rendered by `f` -/
def fnOf (kind : String) (d : GSlice)
    (f : {L : Type} → (L → String) → Res (Beh × Option L) → String) : Option String :=
  if kind == "sll" then some (f renderSll (decodeLinuxSLLFn d))
  else if kind == "sll2" then some (f renderSll2 (decodeLinuxSLL2Fn d))
  else if kind == "etherip" then some (f renderEip (decodeEtherIPFn d))
  else if kind == "udplite" then some (f renderUdplite (decodeUDPLite d))
  else if kind == "rudp" then some (f renderRudp (decodeRUDP d))
  else none

def stepLsll (st : St) (ws : List String) : St × String :=
  match ws with
  | ["reset"] => ({}, "ok")
  | ["lsll", "dec", kind, extra, fh, h] =>
    match extra.toNat?, bytesOfHex fh, bytesOfHex h with
    | some n, some foreign, some data =>
      if foreign.length ≠ n then (st, "bad-op") else
      let d : GSlice := { vis := data, tail := foreign }
      if kind == "sll" then
        let r := LinuxSLL.fresh.decodeFromBytes d
        ({ st with sll := keep LinuxSLL.fresh r }, showDec renderSll r)
      else if kind == "sll2" then
        let r := LinuxSLL2.fresh.decodeFromBytes d
        ({ st with sll2 := keep LinuxSLL2.fresh r }, showDec renderSll2 r)
      else if kind == "etherip" then
        let r := EtherIP.fresh.decodeFromBytes d
        ({ st with eip := keep EtherIP.fresh r }, showDec renderEip r)
      else if kind == "udplite" then (st, showFn renderUdplite (decodeUDPLite d))
      else if kind == "rudp" then (st, showFn renderRudp (decodeRUDP d))
      else (st, "bad-op")
    | _, _, _ => (st, "bad-op")
  | ["lsll", "redec", kind, h] =>
    match bytesOfHex h with
    | some data =>
      let d : GSlice := { vis := data, tail := [] }
      if kind == "sll" then
        let r := st.sll.decodeFromBytes d
        ({ st with sll := keep st.sll r }, showDec renderSll r)
      else if kind == "sll2" then
        let r := st.sll2.decodeFromBytes d
        ({ st with sll2 := keep st.sll2 r }, showDec renderSll2 r)
      else if kind == "etherip" then
        let r := st.eip.decodeFromBytes d
        ({ st with eip := keep st.eip r }, showDec renderEip r)
      else (st, "bad-op")
    | none => (st, "bad-op")
  | ["lsll", "fn", kind, extra, fh, h] =>
    match extra.toNat?, bytesOfHex fh, bytesOfHex h with
    | some n, some foreign, some data =>
      if foreign.length ≠ n then (st, "bad-op") else
      match fnOf kind { vis := data, tail := foreign } showFn with
      | some s => (st, s)
      | none => (st, "bad-op")
    | _, _, _ => (st, "bad-op")
  | ["lsll", "pkt", kind, mode, extra, fh, h] =>
    match extra.toNat?, bytesOfHex fh, bytesOfHex h with
    | some n, some foreign, some data =>
      if foreign.length ≠ n ∨ ¬ (mode == "copy" ∨ mode == "nocopy" ∨ mode == "lazy" ∨ mode == "pool") then (st, "bad-op") else
      if (fnOf kind { vis := [], tail := [] } showPkt).isNone then (st, "bad-op") else
      if data.isEmpty then (st, "empty") else
      -- the copying paths give the decoder a buffer with cap = len
      let d : GSlice := { vis := data, tail := if mode == "nocopy" then foreign else [] }
      match fnOf kind d showPkt with
      | some s => (st, s)
      | none => (st, "bad-op")
    | _, _, _ => (st, "bad-op")
  | ["lsll", "dlp", first, h] =>
    match firstOf first, bytesOfHex h with
    | some first, some data =>
      let r := dlpDecodeLayers LinuxSLL.fresh LinuxSLL2.fresh EtherIP.fresh first { vis := data, tail := [] }
      let st' := match r with
        | .ok (s, _) => { st with pSll := s.sll, pSll2 := s.sll2, pEip := s.etherip }
        | _ => { st with pSll := LinuxSLL.fresh, pSll2 := LinuxSLL2.fresh, pEip := EtherIP.fresh }
      (st', showDlp r)
    | _, _ => (st, "bad-op")
  | ["lsll", "redlp", first, h] =>
    match firstOf first, bytesOfHex h with
    | some first, some data =>
      let r := dlpDecodeLayers st.pSll st.pSll2 st.pEip first { vis := data, tail := [] }
      let st' := match r with
        | .ok (s, _) => { st with pSll := s.sll, pSll2 := s.sll2, pEip := s.etherip }
        | _ => st
      (st', showDlp r)
    | _, _ => (st, "bad-op")
  | ["lsll", "flow", kind, h] =>
    match bytesOfHex h with
    | some data =>
      let d : GSlice := { vis := data, tail := [] }
      if kind == "sll" then (st, showFlowOf LinuxSLL.linkFlow (decodeLinuxSLLFn d))
      else if kind == "sll2" then (st, showFlowOf LinuxSLL2.linkFlow (decodeLinuxSLL2Fn d))
      else if kind == "udplite" then (st, showFlowOf UDPLite.transportFlow (decodeUDPLite d))
      else if kind == "rudp" then (st, showFlowOf RUDP.transportFlow (decodeRUDP d))
      else if kind == "etherip" then (st, "none")
      else (st, "bad-op")
    | none => (st, "bad-op")
  | ["lsll", "flowraw", kind, h] =>
    match bytesOfHex h with
    | some addr =>
      if kind == "sll" then (st, showFlow ({ LinuxSLL.fresh with addr := addr }).linkFlow)
      else if kind == "sll2" then (st, showFlow ({ LinuxSLL2.fresh with addr := addr }).linkFlow)
      else (st, "bad-op")
    | none => (st, "bad-op")
  | ["lsll", "nlttab"] =>
    let rows := ethTypeTable.foldr insertSorted []
    let sll2 (ha proto : Nat) : Nat := ({ LinuxSLL2.fresh with arpHardwareType := ha, protocolType := proto }).nextLayerType
    (st, "ok " ++ ",".intercalate (rows.map (fun r => s!"{r.1}:{r.2}")) ++
      s!" lt={LayerTypeLinuxSLL},{LayerTypeLinuxSLL2},{LayerTypeEtherIP},{LayerTypeUDPLite},{LayerTypeRUDP},{LayerTypePayload}" ++
      s!" ep={EndpointMAC},{EndpointUDPLitePort},{EndpointRUDPPort} max={Gp.Gen.Sll.maxEndpointSize}" ++
      s!" sll2={sll2 770 2048},{sll2 803 2048},{sll2 778 2048},{sll2 1 1},{sll2 1 3},{sll2 1 4},{sll2 1 12},{sll2 1 2048}")
  | ["lsll", "sll2next", ha, proto] =>
    match ha.toNat?, proto.toNat? with
    | some ha, some proto =>
      if ha < 65536 ∧ proto < 65536 then
        (st, s!"ok {({ LinuxSLL2.fresh with arpHardwareType := ha, protocolType := proto }).nextLayerType}")
      else (st, "bad-op")
    | _, _ => (st, "bad-op")
  | _ => (st, "bad-op")

def main : IO Unit := run ({} : St) stepLsll
