import Driver.Common
