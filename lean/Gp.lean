import Gp.Go.Basic
