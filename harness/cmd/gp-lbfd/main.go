// gp-lbfd: correspondence adapter + monitors for engine `lbfd`
// (layers/bfd.go: BFD.DecodeFromBytes, BFD.SerializeTo, BFD.Length, BFDAuthHeader.Length, NextLayerType,
// CanDecode, Payload, decodeBFD, and the DecodingLayerParser over one BFD object).
//
// Properties served: C19 (no panics), C05 (no stale state / capacity independence / packet path =
// preallocated path), C06 (round trip), C07 (serializer totality, buffer independence, idempotence).
// BFD exposes no flow (C17 has no instance here).
package main

import (
	"bytes"
	"errors"
	"fmt"
	"os"
	"runtime/debug"
	"strings"

	"github.com/gopacket/gopacket"
	"github.com/gopacket/gopacket/layers"
	"verif/harness/lib"
)

// ---------------------------------------------------------------- state of one case

var (
	cur     *layers.BFD // object re-used by `redec`
	pBfd    *layers.BFD // object owned by the DecodingLayerParsers
	parsers map[int]*gopacket.DecodingLayerParser
)

func reset() {
	cur = &layers.BFD{}
	newParser()
}

func newParser() {
	pBfd = &layers.BFD{}
	parsers = map[int]*gopacket.DecodingLayerParser{}
}

func parserFor(first int) *gopacket.DecodingLayerParser {
	if p, ok := parsers[first]; ok {
		return p
	}
	p := gopacket.NewDecodingLayerParser(gopacket.LayerType(first), pBfd)
	p.IgnorePanic = true // let panics through (C19: "a layer parser that lets panics through")
	parsers[first] = p
	return p
}

type feedback struct{ truncated bool }

func (f *feedback) SetTruncated() { f.truncated = true }

func b01(b bool) string {
	if b {
		return "1"
	}
	return "0"
}

func renderAuth(h *layers.BFDAuthHeader) string {
	if h == nil {
		return "-"
	}
	return fmt.Sprintf("%d:%d:%d:%s", uint8(h.AuthType), uint8(h.KeyID), uint32(h.SequenceNumber), lib.Hex(h.Data))
}

func render(l *layers.BFD) string {
	return fmt.Sprintf("ver=%d diag=%d state=%d p=%s f=%s c=%s a=%s d=%s m=%s mult=%d my=%d your=%d tx=%d rx=%d echo=%d auth=%s contents=%s payload=%s next=%d len=%d",
		uint8(l.Version), uint8(l.Diagnostic), uint8(l.State), b01(l.Poll), b01(l.Final), b01(l.ControlPlaneIndependent),
		b01(l.AuthPresent), b01(l.Demand), b01(l.Multipoint), uint8(l.DetectMultiplier), uint32(l.MyDiscriminator),
		uint32(l.YourDiscriminator), uint32(l.DesiredMinTxInterval), uint32(l.RequiredMinRxInterval),
		uint32(l.RequiredMinEchoRxInterval), renderAuth(l.AuthHeader), lib.Hex(l.Contents), lib.Hex(l.LayerPayload()),
		int(l.NextLayerType()), l.Length())
}

// differingField names the first public field (incl. Contents/Payload) in which two layers differ.
func differingField(x, y *layers.BFD) string {
	switch {
	case x.Version != y.Version:
		return "Version"
	case x.Diagnostic != y.Diagnostic:
		return "Diagnostic"
	case x.State != y.State:
		return "State"
	case x.Poll != y.Poll:
		return "Poll"
	case x.Final != y.Final:
		return "Final"
	case x.ControlPlaneIndependent != y.ControlPlaneIndependent:
		return "ControlPlaneIndependent"
	case x.AuthPresent != y.AuthPresent:
		return "AuthPresent"
	case x.Demand != y.Demand:
		return "Demand"
	case x.Multipoint != y.Multipoint:
		return "Multipoint"
	case x.DetectMultiplier != y.DetectMultiplier:
		return "DetectMultiplier"
	case x.MyDiscriminator != y.MyDiscriminator:
		return "MyDiscriminator"
	case x.YourDiscriminator != y.YourDiscriminator:
		return "YourDiscriminator"
	case x.DesiredMinTxInterval != y.DesiredMinTxInterval:
		return "DesiredMinTxInterval"
	case x.RequiredMinRxInterval != y.RequiredMinRxInterval:
		return "RequiredMinRxInterval"
	case x.RequiredMinEchoRxInterval != y.RequiredMinEchoRxInterval:
		return "RequiredMinEchoRxInterval"
	case (x.AuthHeader == nil) != (y.AuthHeader == nil):
		return "AuthHeader"
	case x.AuthHeader != nil && (x.AuthHeader.AuthType != y.AuthHeader.AuthType || x.AuthHeader.KeyID != y.AuthHeader.KeyID ||
		x.AuthHeader.SequenceNumber != y.AuthHeader.SequenceNumber || !bytes.Equal(x.AuthHeader.Data, y.AuthHeader.Data)):
		return "AuthHeader"
	case !bytes.Equal(x.Contents, y.Contents):
		return "Contents"
	case !bytes.Equal(x.LayerPayload(), y.LayerPayload()):
		return "Payload"
	}
	return ""
}

// inBuf places data at the start of a backing array with `len(foreign)` spare bytes of capacity holding
// the foreign bytes, and returns the slice data[:len] with cap = len + len(foreign).
func inBuf(data, foreign []byte) []byte {
	back := make([]byte, len(data)+len(foreign))
	copy(back, data)
	copy(back[len(data):], foreign)
	return back[:len(data)]
}

func exact(data []byte) []byte { // cap == len
	c := make([]byte, len(data))
	copy(c, data)
	return c[:len(data):len(data)]
}

func isOurSite(site string) bool {
	return strings.HasPrefix(site, "layers/bfd.go") || strings.HasPrefix(site, "layers/base.go")
}

// protect is lib.Protect with a panic-site extraction that also works when the repository under test
// is a scratch tree (VERIF_REPO): the site is the top-most stack frame inside the repository.
var lastSite, lastMsg string

func protect(f func() string) (reply string, panicked bool) {
	defer func() {
		if v := recover(); v != nil {
			lastMsg = fmt.Sprint(v)
			lastSite = siteOf(string(debug.Stack()))
			reply = "panic " + lib.PanicKind(v)
			panicked = true
		}
	}()
	return f(), false
}

func siteOf(stack string) string {
	root := os.Getenv("VERIF_REPO")
	if root == "" {
		root = "/repo"
	}
	root = strings.TrimRight(root, "/") + "/"
	for _, l := range strings.Split(stack, "\n") {
		l = strings.TrimSpace(l)
		if !strings.Contains(l, ".go:") {
			continue
		}
		f := strings.Fields(l)[0]
		if strings.HasPrefix(f, root) {
			return f[len(root):]
		}
		if j := strings.LastIndex(f, "gopacket/"); j >= 0 && !strings.Contains(f, "/verif/") {
			return f[j+len("gopacket/"):]
		}
	}
	return "?"
}

// guarded runs f; a panic is reported as a C19 finding with its site and returned as "panic <kind>".
func guarded(what string, f func() string) string {
	reply, panicked := protect(f)
	if panicked {
		lib.Finding("C19", "lbfd:panic:"+lastSite, what+" panicked: "+lastMsg)
		lib.Stat("panic")
	}
	return reply
}

// ---------------------------------------------------------------- decode ops

// decInto: DecodeFromBytes into obj; the reply renders the receiver on an error too (what the failed call left).
func decInto(obj *layers.BFD, data []byte) (string, error, bool) {
	fb := &feedback{}
	err := obj.DecodeFromBytes(data, fb)
	if err != nil {
		return "err trunc=" + b01(fb.truncated) + " | " + render(obj), err, fb.truncated
	}
	return "ok " + render(obj) + " trunc=" + b01(fb.truncated), nil, fb.truncated
}

func statDec(obj *layers.BFD, err error, tr bool) {
	if err != nil {
		if tr {
			lib.Stat("dec:err:truncated")
		} else {
			lib.Stat("dec:err:length-mismatch")
		}
		if obj.AuthHeader != nil && len(obj.Contents) > 0 && tr {
			lib.Stat("dec:err:short-keyed-section")
		}
		return
	}
	lib.Stat("dec:ok")
	lib.Nontrivial()
	switch {
	case obj.AuthHeader == nil && obj.AuthPresent:
		lib.Stat("dec:ok:A-bit-without-section")
	case obj.AuthHeader == nil:
		lib.Stat("dec:ok:no-auth")
	default:
		t := int(obj.AuthHeader.AuthType)
		if t > 5 || t == 0 {
			lib.Stat("dec:ok:auth-unknown-type")
		} else {
			lib.Stat(fmt.Sprintf("dec:ok:auth-type-%d", t))
		}
		if len(obj.AuthHeader.Data) == 0 {
			lib.Stat("dec:ok:auth-empty-data")
		}
	}
	if !obj.AuthPresent && len(obj.Contents) > 24 {
		lib.Stat("dec:ok:trailing-bytes-without-A-bit")
	}
}

func opDec(extra int, foreign, data []byte) string {
	if len(foreign) != extra {
		return "bad-op"
	}
	return guarded("BFD.DecodeFromBytes", func() string {
		obj := &layers.BFD{}
		cur = obj
		reply, err, tr := decInto(obj, inBuf(data, foreign))
		statDec(obj, err, tr)
		if got := obj.CanDecode(); got != gopacket.LayerClass(layers.LayerTypeBFD) {
			lib.Finding("C05", "lbfd:candecode", "CanDecode is not the layer's own type")
		}
		// C05/C04 oracle: the same bytes in a buffer with cap == len
		ref := &layers.BFD{}
		refReply, _, _ := decInto(ref, exact(data))
		if reply != refReply {
			lib.Finding("C05", "lbfd:cap-dependent", "BFD decode depends on spare capacity / foreign bytes: "+reply+" vs "+refReply)
		}
		if extra > 0 {
			lib.Stat("dec:spare-cap")
		}
		return reply
	})
}

func opRedec(data []byte) string {
	return guarded("BFD.DecodeFromBytes", func() string {
		obj := cur
		hadAuth := obj.AuthHeader != nil
		reply, err, tr := decInto(obj, exact(data))
		statDec(obj, err, tr)
		lib.Stat("redec")
		fresh := &layers.BFD{}
		fb := &feedback{}
		ferr := fresh.DecodeFromBytes(exact(data), fb)
		if (ferr != nil) != (err != nil) {
			lib.Finding("C05", "lbfd:stale:error", "reused object and fresh object disagree on the error")
		} else {
			if err == nil {
				if hadAuth && fresh.AuthHeader == nil {
					lib.Stat("redec:auth-then-no-auth")
				}
				if f := differingField(obj, fresh); f != "" {
					lib.Finding("C05", "lbfd:stale:"+f, "BFD."+f+" differs between a reused and a fresh object")
				}
			}
			if fb.truncated != tr {
				lib.Finding("C05", "lbfd:stale:Truncated", "truncation flag differs between a reused and a fresh object")
			}
		}
		return reply
	})
}

// ---------------------------------------------------------------- serialize ops

func mkBuffer(hist string) (gopacket.SerializeBuffer, bool) {
	switch {
	case hist == "fresh":
		return gopacket.NewSerializeBuffer(), true
	case strings.HasPrefix(hist, "dirty"):
		v, ok := lib.Atoi(hist[5:])
		if !ok || v < 0 || v > 255 {
			return nil, false
		}
		b := gopacket.NewSerializeBuffer()
		s, _ := b.AppendBytes(64)
		for i := range s {
			s[i] = byte(v)
		}
		s, _ = b.PrependBytes(64)
		for i := range s {
			s[i] = byte(v)
		}
		b.Clear()
		return b, true
	case strings.HasPrefix(hist, "sized"):
		n, ok := lib.Atoi(hist[5:])
		if !ok || n < 0 || n >= 100000 {
			return nil, false
		}
		return gopacket.NewSerializeBufferExpectedSize(n, n), true
	}
	return nil, false
}

func parsePayload(s string) ([]byte, bool) {
	if strings.HasPrefix(s, "z") {
		parts := strings.Split(s[1:], "x")
		if len(parts) != 2 {
			return nil, false
		}
		n, ok := lib.Atoi(parts[0])
		v, ok2 := lib.UnHex(parts[1])
		if !ok || !ok2 || len(v) != 1 || n < 0 || n > 200000 {
			return nil, false
		}
		return bytes.Repeat(v, n), true
	}
	return lib.UnHex(s)
}

func parseBool(s string) (bool, bool) {
	switch s {
	case "1":
		return true, true
	case "0":
		return false, true
	}
	return false, false
}

func atoiBelow(s string, bound int64) (int64, bool) {
	if s == "" || s[0] == '+' || s[0] == '-' {
		return 0, false
	}
	n, ok := lib.Atou(s)
	if !ok || int64(n) < 0 || int64(n) >= bound {
		return 0, false
	}
	return int64(n), true
}

func putPayload(b gopacket.SerializeBuffer, p []byte) {
	gopacket.Payload(p).SerializeTo(b, gopacket.SerializeOptions{})
}

// serOnce serialises layer l over payload p into buffer b; returns (bytes, error?) and converts a
// panic into a C07 finding.
func serOnce(l gopacket.SerializableLayer, b gopacket.SerializeBuffer, p []byte, opts gopacket.SerializeOptions) (out []byte, failed bool, panicked bool) {
	reply, pk := protect(func() string {
		putPayload(b, p)
		if err := l.SerializeTo(b, opts); err != nil {
			return "err"
		}
		return "ok"
	})
	if pk {
		lib.Finding("C07", "lbfd:ser-panic:"+lastSite, "SerializeTo panicked: "+lastMsg)
		return nil, false, true
	}
	if reply == "err" {
		return nil, true, false
	}
	return append([]byte(nil), b.Bytes()...), false, false
}

// serMonitors: the C07 oracles on the real code for one (layer, payload, options).
// mk must return a NEW layer object with the same public field values on every call.
func serMonitors(mk func() *layers.BFD, p []byte, opts gopacket.SerializeOptions, got []byte, gotErr bool) {
	// (a) buffer independence: fresh, dirty 0xA5 / 0x5A, pre-sized
	for _, h := range []string{"fresh", "dirty165", "dirty90", "sized7", "sized2000"} {
		b, _ := mkBuffer(h)
		out, failed, pk := serOnce(mk(), b, p, opts)
		if pk {
			return
		}
		if failed != gotErr || (!failed && !bytes.Equal(out, got)) {
			lib.Finding("C07", "lbfd:dirty-buffer", "BFD: output differs between buffer histories ("+h+")")
			return
		}
	}
	// (b) idempotence: the same object again over the same payload
	l := mk()
	o1, f1, pk := serOnce(l, gopacket.NewSerializeBuffer(), p, opts)
	if pk {
		return
	}
	o2, f2, pk := serOnce(l, gopacket.NewSerializeBuffer(), p, opts)
	if pk {
		return
	}
	if f1 != f2 || !bytes.Equal(o1, o2) {
		what := "bytes differ"
		if f1 != f2 {
			what = fmt.Sprintf("first call error=%v, second call error=%v", f1, f2)
		}
		lib.Finding("C07", "lbfd:not-idempotent", "BFD: serialising the same layer twice differs: "+what)
	}
	if ref := mk(); differingField(l, ref) != "" {
		lib.Finding("C07", "lbfd:not-idempotent", "BFD.SerializeTo changed the receiver: "+differingField(l, ref))
	}
}

// parseAuth: `-` or type:key:seq:data
func parseAuth(s string) (func() *layers.BFDAuthHeader, bool) {
	if s == "-" {
		return func() *layers.BFDAuthHeader { return nil }, true
	}
	parts := strings.Split(s, ":")
	if len(parts) != 4 {
		return nil, false
	}
	t, ok1 := atoiBelow(parts[0], 256)
	k, ok2 := atoiBelow(parts[1], 256)
	q, ok3 := atoiBelow(parts[2], 1<<32)
	d, ok4 := parsePayload(parts[3])
	if !(ok1 && ok2 && ok3 && ok4) {
		return nil, false
	}
	return func() *layers.BFDAuthHeader {
		h := &layers.BFDAuthHeader{AuthType: layers.BFDAuthType(t), KeyID: layers.BFDAuthKeyID(k), SequenceNumber: layers.BFDAuthSequenceNumber(q)}
		if len(d) > 0 {
			h.Data = append([]byte{}, d...)
		}
		return h
	}, true
}

// parseBfd: ver diag state p f c a d m mult my your tx rx echo auth
func parseBfd(a []string) (func() *layers.BFD, bool) {
	if len(a) != 16 {
		return nil, false
	}
	var n [15]int64
	bounds := []int64{256, 256, 256, 2, 2, 2, 2, 2, 2, 256, 1 << 32, 1 << 32, 1 << 32, 1 << 32, 1 << 32}
	for i := 0; i < 15; i++ {
		v, ok := atoiBelow(a[i], bounds[i])
		if !ok {
			return nil, false
		}
		n[i] = v
	}
	mkAuth, ok := parseAuth(a[15])
	if !ok {
		return nil, false
	}
	return func() *layers.BFD {
		return &layers.BFD{Version: layers.BFDVersion(n[0]), Diagnostic: layers.BFDDiagnostic(n[1]), State: layers.BFDState(n[2]),
			Poll: n[3] == 1, Final: n[4] == 1, ControlPlaneIndependent: n[5] == 1, AuthPresent: n[6] == 1, Demand: n[7] == 1,
			Multipoint: n[8] == 1, DetectMultiplier: layers.BFDDetectMultiplier(n[9]), MyDiscriminator: layers.BFDDiscriminator(n[10]),
			YourDiscriminator: layers.BFDDiscriminator(n[11]), DesiredMinTxInterval: layers.BFDTimeInterval(n[12]),
			RequiredMinRxInterval: layers.BFDTimeInterval(n[13]), RequiredMinEchoRxInterval: layers.BFDTimeInterval(n[14]),
			AuthHeader: mkAuth()}
	}, true
}

func statLayer(prefix string, l *layers.BFD) {
	switch {
	case l.AuthHeader == nil:
		lib.Stat(prefix + ":auth-nil")
	case !l.AuthPresent:
		lib.Stat(prefix + ":auth-header-without-A-bit")
	default:
		t := int(l.AuthHeader.AuthType)
		if t > 5 || t == 0 {
			lib.Stat(prefix + ":auth-unknown-type")
		} else {
			lib.Stat(fmt.Sprintf("%s:auth-type-%d", prefix, t))
		}
	}
	if l.Length() > 255 {
		lib.Stat(prefix + ":length>255")
	}
}

func opSer(a []string) string {
	// fix csum hist <16 fields> payload
	if len(a) != 20 {
		return "bad-op"
	}
	fix, ok1 := parseBool(a[0])
	csum, ok2 := parseBool(a[1])
	b, ok3 := mkBuffer(a[2])
	p, ok4 := parsePayload(a[19])
	mk, ok5 := parseBfd(a[3:19])
	if !(ok1 && ok2 && ok3 && ok4 && ok5) {
		return "bad-op"
	}
	opts := gopacket.SerializeOptions{FixLengths: fix, ComputeChecksums: csum}
	l := mk()
	out, failed, pk := serOnce(l, b, p, opts)
	if pk {
		return "panic " + lib.PanicKind(lastMsg)
	}
	serMonitors(mk, p, opts, out, failed)
	if a[2] != "fresh" {
		lib.Stat("ser:buf:" + strings.TrimRight(a[2], "0123456789"))
	}
	lib.Stat(fmt.Sprintf("ser:opts:fix%s-csum%s", a[0], a[1]))
	statLayer("ser", l)
	if len(p) > 0 {
		lib.Stat("ser:over-payload")
	}
	if failed {
		lib.Stat("ser:err")
		return "err"
	}
	lib.Stat("ser:ok")
	lib.Nontrivial()
	return fmt.Sprintf("ok bytes=%s len=%d", lib.Hex(out), l.Length())
}

// ---------------------------------------------------------------- round trip

var rtOpts = gopacket.SerializeOptions{FixLengths: true, ComputeChecksums: true}

func copyLayer(x *layers.BFD) *layers.BFD {
	c := *x
	if x.AuthHeader != nil {
		h := *x.AuthHeader
		h.Data = append([]byte{}, x.AuthHeader.Data...)
		c.AuthHeader = &h
	}
	return &c
}

// wfExpect: is (layer, payload) inside the round-trip claim?  Independent statement of the
// well-formedness predicate: bit-field widths, an authentication header only together with the A bit,
// per-type shape of the header, total length expressible in the one-byte Length field, no payload
// (BFD control packets carry none: the serializer appends the authentication section BEHIND whatever
// is in the buffer).
func wfExpect(l *layers.BFD, p []byte) bool {
	if len(p) != 0 || l.Version > 7 || l.Diagnostic > 31 || l.State > 3 {
		return false
	}
	h := l.AuthHeader
	if h == nil {
		return true
	}
	if !l.AuthPresent {
		return false
	}
	switch h.AuthType {
	case layers.BFDAuthTypePassword:
		return h.SequenceNumber == 0 && 24+3+len(h.Data) <= 255
	case layers.BFDAuthTypeKeyedMD5, layers.BFDAuthTypeMeticulousKeyedMD5, layers.BFDAuthTypeKeyedSHA1, layers.BFDAuthTypeMeticulousKeyedSHA1:
		return 24+8+len(h.Data) <= 255
	}
	return h.SequenceNumber == 0 && len(h.Data) == 0
}

// publicDiff compares the public protocol fields only (≈ of the property: Contents/Payload are ignored).
func publicDiff(a, b *layers.BFD) string {
	ca, cb := copyLayer(a), copyLayer(b)
	ca.BaseLayer, cb.BaseLayer = layers.BaseLayer{}, layers.BaseLayer{}
	return differingField(ca, cb)
}

// rt: SerializeLayers(layer, payload) with fix+csum, decode, serialise the decoded layer again.
func rt(l *layers.BFD, p []byte, decoded bool) string {
	wf := wfExpect(l, p)
	want := copyLayer(l)
	buf := gopacket.NewSerializeBuffer()
	if err := gopacket.SerializeLayers(buf, rtOpts, l, gopacket.Payload(p)); err != nil {
		lib.Stat("rt:ser-err")
		if wf {
			lib.Finding("C06", "lbfd:roundtrip:ser-error", "serialising a well-formed BFD layer fails")
		}
		return "ser-err"
	}
	out := append([]byte(nil), buf.Bytes()...)
	d := &layers.BFD{}
	dreply, derr, dtr := decInto(d, exact(out))
	again := "none"
	if derr == nil {
		buf2 := gopacket.NewSerializeBuffer()
		if err := gopacket.SerializeLayers(buf2, rtOpts, d, gopacket.Payload(d.LayerPayload())); err != nil {
			again = "err"
		} else if bytes.Equal(buf2.Bytes(), out) {
			again = "same"
		} else {
			again = "diff"
		}
	}
	// C06 oracle (independent statement of the property for this layer)
	if wf {
		lib.Stat("rt:wf")
		statLayer("rt:wf", l)
		lib.Nontrivial()
		switch {
		case derr != nil:
			lib.Finding("C06", "lbfd:roundtrip:error", "decoding the serialised well-formed BFD layer fails")
		case dtr:
			lib.Finding("C06", "lbfd:roundtrip:Truncated", "truncation flag set on a round trip")
		case publicDiff(d, want) != "":
			lib.Finding("C06", "lbfd:roundtrip:"+publicDiff(d, want), "BFD."+publicDiff(d, want)+" changed on a round trip")
		case !bytes.Equal(d.LayerPayload(), p):
			lib.Finding("C06", "lbfd:roundtrip:Payload", "payload changed on a round trip")
		case again != "same":
			lib.Finding("C06", "lbfd:roundtrip:reserialize", "serialising the decoded layer again gives "+again)
		}
	} else if decoded {
		// every decoded layer must be inside the claim
		lib.Finding("C06", "lbfd:roundtrip:decoded-not-wf", "a decoded BFD layer is outside the well-formedness predicate")
	} else {
		lib.Stat("rt:not-wf")
		if len(p) > 0 {
			lib.Stat("rt:not-wf:payload")
		}
	}
	return "ok bytes=" + lib.Hex(out) + " | " + dreply + " | again=" + again
}

func opRt(a []string) string {
	if len(a) != 17 {
		return "bad-op"
	}
	p, ok := parsePayload(a[16])
	mk, ok2 := parseBfd(a[:16])
	if !ok || !ok2 {
		return "bad-op"
	}
	r, pk := protect(func() string { return rt(mk(), p, false) })
	if pk {
		lib.Finding("C07", "lbfd:ser-panic:"+lastSite, "round trip panicked: "+lastMsg)
	}
	return r
}

func opRtDec(data []byte) string {
	var l *layers.BFD
	r := guarded("BFD.DecodeFromBytes", func() string {
		l = &layers.BFD{}
		if err := l.DecodeFromBytes(exact(data), &feedback{}); err != nil {
			l = nil
			return "dec-err"
		}
		return ""
	})
	if l == nil {
		return r
	}
	lib.Stat("rtdec")
	r, pk := protect(func() string { return rt(l, l.LayerPayload(), true) })
	if pk {
		lib.Finding("C07", "lbfd:ser-panic:"+lastSite, "serialising a decoded layer panicked: "+lastMsg)
	}
	return r
}

// ---------------------------------------------------------------- tracing PacketBuilder

type tracer struct {
	acts  []string
	tail  string
	added gopacket.Layer
}

func (t *tracer) SetTruncated() { t.acts = append(t.acts, "trunc") }
func (t *tracer) AddLayer(l gopacket.Layer) {
	t.acts = append(t.acts, fmt.Sprintf("add:%d", int(l.LayerType())))
	t.added = l
}
func (t *tracer) SetLinkLayer(gopacket.LinkLayer)               { t.acts = append(t.acts, "link") }
func (t *tracer) SetNetworkLayer(gopacket.NetworkLayer)         { t.acts = append(t.acts, "net") }
func (t *tracer) SetTransportLayer(gopacket.TransportLayer)     { t.acts = append(t.acts, "transport") }
func (t *tracer) SetApplicationLayer(gopacket.ApplicationLayer) { t.acts = append(t.acts, "app") }
func (t *tracer) SetErrorLayer(gopacket.ErrorLayer)             { t.acts = append(t.acts, "errlayer") }
func (t *tracer) DumpPacketData()                               {}
func (t *tracer) DecodeOptions() *gopacket.DecodeOptions        { return &gopacket.DecodeOptions{} }
func (t *tracer) NextDecoder(next gopacket.Decoder) error {
	switch d := next.(type) {
	case gopacket.LayerType:
		t.tail = fmt.Sprintf("lt:%d", int(d))
	case nil:
		t.tail = "nil"
	default:
		t.tail = "other"
	}
	return nil
}

func opPb(data []byte) string {
	return guarded("decode function of BFD", func() string {
		t := &tracer{}
		err := layers.LayerTypeBFD.Decode(exact(data), t)
		tail := t.tail
		if err != nil {
			tail = "fail"
		} else if tail == "" {
			tail = "done"
		}
		acts := "-"
		if len(t.acts) > 0 {
			acts = strings.Join(t.acts, ",")
		}
		lib.Stat("pb:" + strings.SplitN(tail, ":", 2)[0])
		s := "acts=" + acts + " tail=" + tail
		if t.added != nil {
			added, ok := t.added.(*layers.BFD)
			if !ok {
				return s + " | ?"
			}
			s += " | " + render(added)
			// C05 oracle: the layer added to the packet = a direct fresh DecodeFromBytes
			ref := &layers.BFD{}
			if rerr := ref.DecodeFromBytes(exact(data), &feedback{}); rerr != nil || differingField(added, ref) != "" {
				lib.Finding("C05", "lbfd:pkt-differs", "layer added by the registered decoder differs from a direct fresh DecodeFromBytes")
			}
			lib.Nontrivial()
		}
		return s
	})
}

// ---------------------------------------------------------------- NewPacket / DecodingLayerParser

func opPkt(mode string, extra int, foreign, data []byte) string {
	if len(foreign) != extra || (mode != "copy" && mode != "nocopy" && mode != "lazy") {
		return "bad-op"
	}
	if len(data) == 0 {
		return "empty"
	}
	build := func(skipRecovery bool) (gopacket.Packet, []gopacket.Layer) {
		opts := gopacket.DecodeOptions{SkipDecodeRecovery: skipRecovery}
		in := exact(data)
		switch mode {
		case "nocopy":
			opts.NoCopy = true
			in = inBuf(data, foreign)
		case "lazy":
			opts.Lazy = true
		}
		p := gopacket.NewPacket(in, layers.LayerTypeBFD, opts)
		return p, p.Layers()
	}
	var p gopacket.Packet
	var ls []gopacket.Layer
	_, panicked := protect(func() string { p, ls = build(true); return "" })
	if panicked {
		lib.Finding("C19", "lbfd:panic:"+lastSite, "NewPacket(SkipDecodeRecovery) panicked: "+lastMsg)
		lib.Stat("panic")
		return "panic " + lib.PanicKind(lastMsg)
	}
	lib.Stat("pkt:" + mode)
	tr := b01(p.Metadata().Truncated)
	if len(ls) == 0 || ls[0].LayerType() != layers.LayerTypeBFD {
		if p.ErrorLayer() == nil {
			lib.Finding("C05", "lbfd:pkt-differs", "NewPacket produced neither a BFD layer nor an error layer")
		}
		return "fail trunc=" + tr
	}
	first, ok := ls[0].(*layers.BFD)
	if !ok {
		return "fail trunc=" + tr
	}
	// oracle: the first layer equals a direct fresh decode; it is the application layer
	ref := &layers.BFD{}
	if err := ref.DecodeFromBytes(exact(data), &feedback{}); err != nil || differingField(first, ref) != "" {
		lib.Finding("C05", "lbfd:pkt-differs", "first layer built by NewPacket("+mode+") differs from a direct fresh DecodeFromBytes")
	}
	app := p.ApplicationLayer()
	if len(ls) != 1 {
		lib.Finding("C05", "lbfd:pkt-differs", "NewPacket decoded something behind the BFD layer")
	}
	// read-only uses of the packet (AuthHeader may be a nil pointer): must not panic
	_, pk := protect(func() string {
		_ = p.String()
		_ = p.Dump()
		_ = gopacket.LayerString(first)
		_ = gopacket.LayerGoString(first)
		return ""
	})
	if pk {
		lib.Stat("pkt:render-panic:" + lastSite)
	} else {
		lib.Stat("pkt:render-ok")
	}
	lib.Nontrivial()
	return "ok " + render(first) + " trunc=" + tr + " app=" + b01(app != nil && app == gopacket.ApplicationLayer(first) && app.Payload() == nil)
}

func opDlp(re bool, first int, data []byte) string {
	if !re {
		newParser()
	}
	parser := parserFor(first)
	return guarded("DecodingLayerParser.DecodeLayers", func() string {
		var decoded []gopacket.LayerType
		err := parser.DecodeLayers(exact(data), &decoded)
		code := 0
		var unsup gopacket.UnsupportedLayerType
		if errors.As(err, &unsup) {
			code = 2
		} else if err != nil {
			code = 1
		}
		ds := make([]string, len(decoded))
		for i, t := range decoded {
			ds[i] = lib.Itoa(int(t))
		}
		dec := "-"
		if len(ds) > 0 {
			dec = strings.Join(ds, ",")
		}
		lib.Stat(fmt.Sprintf("dlp:first=%d:layers=%d:code=%d", first, len(decoded), code))
		if len(decoded) >= 1 {
			lib.Nontrivial()
		}
		// C05 oracle: the run equals the leading run of NewPacket's layers with equal fields
		if len(data) > 0 && first == int(layers.LayerTypeBFD) {
			var pl []gopacket.Layer
			var ptr bool
			_, pk := protect(func() string {
				pk := gopacket.NewPacket(exact(data), layers.LayerTypeBFD, gopacket.DecodeOptions{})
				pl = pk.Layers()
				ptr = pk.Metadata().Truncated
				return ""
			})
			if !pk {
				for i, t := range decoded {
					if i >= len(pl) || pl[i].LayerType() != t {
						lib.Finding("C05", "lbfd:dlp-differs", "parser run is not a prefix of the packet's layers")
						break
					}
					if pb, ok := pl[i].(*layers.BFD); !ok || differingField(pb, pBfd) != "" {
						lib.Finding("C05", "lbfd:dlp-differs", "parser's layer differs from the packet's")
					}
				}
				if len(decoded) == 0 && len(pl) > 0 && pl[0].LayerType() == layers.LayerTypeBFD {
					lib.Finding("C05", "lbfd:dlp-differs", "the packet has a BFD layer, the parser run has none")
				}
				if parser.Truncated != ptr {
					lib.Finding("C05", "lbfd:dlp-differs", "parser and packet disagree on truncation")
				}
			}
		}
		return fmt.Sprintf("code=%d decoded=%s trunc=%s | %s", code, dec, b01(parser.Truncated), render(pBfd))
	})
}

// ---------------------------------------------------------------- dispatcher

func exec(a []string) string {
	if len(a) < 2 || a[0] != "lbfd" {
		return "bad-op"
	}
	switch a[1] {
	case "dec":
		if len(a) != 5 {
			return "bad-op"
		}
		extra, ok1 := atoiBelow(a[2], 1<<20)
		foreign, ok2 := lib.UnHex(a[3])
		data, ok3 := lib.UnHex(a[4])
		if !ok1 || !ok2 || !ok3 {
			return "bad-op"
		}
		return opDec(int(extra), foreign, data)
	case "redec":
		if len(a) != 3 {
			return "bad-op"
		}
		data, ok := lib.UnHex(a[2])
		if !ok {
			return "bad-op"
		}
		return opRedec(data)
	case "ser":
		return opSer(a[2:])
	case "rt":
		return opRt(a[2:])
	case "rtdec":
		if len(a) != 3 {
			return "bad-op"
		}
		data, ok := lib.UnHex(a[2])
		if !ok {
			return "bad-op"
		}
		return opRtDec(data)
	case "pb":
		if len(a) != 3 {
			return "bad-op"
		}
		data, ok := lib.UnHex(a[2])
		if !ok {
			return "bad-op"
		}
		return opPb(data)
	case "pkt":
		if len(a) != 6 {
			return "bad-op"
		}
		extra, ok1 := atoiBelow(a[3], 1<<20)
		foreign, ok2 := lib.UnHex(a[4])
		data, ok3 := lib.UnHex(a[5])
		if !ok1 || !ok2 || !ok3 {
			return "bad-op"
		}
		return opPkt(a[2], int(extra), foreign, data)
	case "dlp", "redlp":
		if len(a) != 4 {
			return "bad-op"
		}
		first, ok1 := atoiBelow(a[2], 1000)
		data, ok := lib.UnHex(a[3])
		if !ok || !ok1 {
			return "bad-op"
		}
		return opDlp(a[1] == "redlp", int(first), data)
	}
	return "bad-op"
}

func main() {
	reset()
	lib.Main(lib.Engine{Name: "lbfd", Gen: gen, Reset: reset, Exec: exec})
}
