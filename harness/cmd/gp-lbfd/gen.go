package main

import (
	"fmt"
	"go/ast"
	goparser "go/parser"
	"go/token"
	"os"
	"path/filepath"
	"sort"
	"strconv"

	"github.com/gopacket/gopacket"
	"github.com/gopacket/gopacket/layers"
	"verif/harness/lib"
)

// ---------------------------------------------------------------- fixtures

// literals collects every `[]byte{…}` literal (all elements literal) from the repository's own
// layers/*_test.go files.
func literals() [][]byte {
	repo := os.Getenv("VERIF_REPO")
	if repo == "" {
		repo = "/repo"
	}
	files, _ := filepath.Glob(filepath.Join(repo, "layers", "*_test.go"))
	sort.Strings(files)
	var out [][]byte
	fset := token.NewFileSet()
	for _, fn := range files {
		f, err := goparser.ParseFile(fset, fn, nil, 0)
		if err != nil {
			continue
		}
		ast.Inspect(f, func(n ast.Node) bool {
			cl, ok := n.(*ast.CompositeLit)
			if !ok {
				return true
			}
			at, ok := cl.Type.(*ast.ArrayType)
			if !ok || at.Len != nil {
				return true
			}
			id, ok := at.Elt.(*ast.Ident)
			if !ok || (id.Name != "byte" && id.Name != "uint8") {
				return true
			}
			b := make([]byte, 0, len(cl.Elts))
			for _, e := range cl.Elts {
				bl, ok := e.(*ast.BasicLit)
				if !ok {
					return true
				}
				switch bl.Kind {
				case token.INT:
					v, err := strconv.ParseUint(bl.Value, 0, 8)
					if err != nil {
						return true
					}
					b = append(b, byte(v))
				case token.CHAR:
					s, err := strconv.Unquote(bl.Value)
					if err != nil || len(s) != 1 {
						return true
					}
					b = append(b, s[0])
				default:
					return true
				}
			}
			if len(b) >= 4 && len(b) <= 1600 {
				out = append(out, b)
			}
			return true
		})
	}
	return out
}

// harvest: every BFD layer found by decoding the repository's test literals as Ethernet / IPv4 / UDP, and
// every literal that decodes as BFD itself (the expected `Contents` of bfd_test.go).
func harvest() [][]byte {
	var out [][]byte
	seen := map[string]bool{}
	add := func(b []byte) {
		if len(b) > 300 {
			b = b[:300]
		}
		if !seen[string(b)] {
			seen[string(b)] = true
			out = append(out, append([]byte(nil), b...))
		}
	}
	firsts := []gopacket.Decoder{layers.LayerTypeEthernet, layers.LayerTypeIPv4, layers.LayerTypeUDP, layers.LayerTypeBFD}
	for _, lit := range literals() {
		for _, first := range firsts {
			func() {
				defer func() { recover() }()
				p := gopacket.NewPacket(lit, first, gopacket.DecodeOptions{})
				for _, l := range p.Layers() {
					if l.LayerType() == layers.LayerTypeBFD {
						add(append(append([]byte(nil), l.LayerContents()...), l.LayerPayload()...))
					}
				}
			}()
		}
	}
	return out
}

// raw builds a control packet from its parts and stores the total length into the Length byte.
func raw(b0, flags, mult byte, words [5]uint32, rest []byte) []byte {
	b := []byte{b0, flags, mult, 0}
	for _, w := range words {
		b = append(b, byte(w>>24), byte(w>>16), byte(w>>8), byte(w))
	}
	b = append(b, rest...)
	b[3] = byte(len(b))
	return b
}

func fixLen(b []byte) []byte {
	c := append([]byte(nil), b...)
	if len(c) > 3 {
		c[3] = byte(len(c))
	}
	return c
}

// built: packets produced by the repository's own serializer (a panicking or failing serializer must
// not kill the generator: the executor's monitors report it) and hand-made ones.
func built(r *lib.Rand) [][]byte {
	var out [][]byte
	ser := func(l *layers.BFD) {
		defer func() { recover() }()
		b := gopacket.NewSerializeBuffer()
		if err := gopacket.SerializeLayers(b, gopacket.SerializeOptions{FixLengths: true, ComputeChecksums: true}, l); err == nil {
			out = append(out, append([]byte(nil), b.Bytes()...))
		}
	}
	base := func() *layers.BFD {
		return &layers.BFD{Version: 1, Diagnostic: layers.BFDDiagnostic(r.Intn(9)), State: layers.BFDState(r.Intn(4)), Poll: r.Bool(), Final: r.Bool(),
			DetectMultiplier: 3, MyDiscriminator: layers.BFDDiscriminator(r.U64()), YourDiscriminator: layers.BFDDiscriminator(r.U64()),
			DesiredMinTxInterval: 1000000, RequiredMinRxInterval: 1000000, RequiredMinEchoRxInterval: layers.BFDTimeInterval(r.Intn(3))}
	}
	ser(base())
	for _, t := range []int{1, 2, 3, 4, 5, 0, 6, 255} {
		for _, n := range []int{0, 1, 6, 16, 20} {
			l := base()
			l.AuthPresent = true
			l.AuthHeader = &layers.BFDAuthHeader{AuthType: layers.BFDAuthType(t), KeyID: layers.BFDAuthKeyID(r.Intn(256))}
			if t >= 1 && t <= 5 {
				l.AuthHeader.Data = r.Bytes(n)
			}
			if t >= 2 && t <= 5 {
				l.AuthHeader.SequenceNumber = layers.BFDAuthSequenceNumber(r.U64())
			}
			ser(l)
		}
	}
	w := [5]uint32{1, 2, 1000000, 1000000, 0}
	out = append(out,
		raw(0x20, 0xc0, 3, w, nil),                               // no authentication
		raw(0x20, 0xc4, 3, w, nil),                               // A bit, nothing behind the mandatory section
		raw(0x20, 0xc4, 3, w, []byte{1}),                         // A bit, 1 byte
		raw(0x20, 0xc4, 3, w, []byte{1, 9}),                      // A bit, 2 bytes
		raw(0x20, 0xc4, 3, w, []byte{1, 3, 7}),                   // password, empty
		raw(0x20, 0xc4, 3, w, []byte{1, 9, 2, 's', 'e', 'c', 'r', 'e', 't'}),
		raw(0x20, 0xc0, 3, w, []byte{1, 9, 2, 's', 'e', 'c', 'r', 'e', 't'}), // section present, A bit clear
		raw(0x20, 0xc4, 3, w, []byte{2, 3, 1}),                   // keyed MD5, 3 of 8 bytes
		raw(0x20, 0xc4, 3, w, []byte{3, 7, 1, 0, 0, 0, 0}),       // 7 of 8 bytes
		raw(0x20, 0xc4, 3, w, []byte{4, 8, 1, 0, 0, 0, 0, 9}),    // keyed SHA1, exactly 8: empty digest
		raw(0x20, 0xc4, 3, w, append([]byte{2, 24, 1, 0, 0, 0, 0, 5}, r.Bytes(16)...)),
		raw(0x20, 0xc4, 3, w, append([]byte{5, 28, 1, 0, 0, 0, 0, 5}, r.Bytes(20)...)),
		raw(0x20, 0xc4, 3, w, []byte{9, 3, 1}),                   // unknown type
		raw(0x20, 0xc4, 3, w, append([]byte{0, 3, 1}, r.Bytes(5)...)),
		raw(0xff, 0xff, 0xff, [5]uint32{0xffffffff, 0xffffffff, 0xffffffff, 0xffffffff, 0xffffffff}, append([]byte{5, 255, 255, 255}, r.Bytes(223)...)), // 255 bytes
	)
	return out
}

func hx(b []byte) string { return lib.Hex(b) }

func setByte(b []byte, off int, v int) []byte {
	c := append([]byte(nil), b...)
	if off < len(c) {
		c[off] = byte(v)
	}
	return c
}

// ---------------------------------------------------------------- generator

func gen(r *lib.Rand, tier string, emit func(string)) {
	thorough := tier == "thorough"
	fx := append(built(r), harvest()...)
	{
		var keep [][]byte
		for _, f := range fx {
			if len(f) >= 4 {
				keep = append(keep, f)
			}
		}
		fx = keep
	}
	for i := len(fx) - 1; i > 0; i-- { // seeded shuffle: different seeds favour different fixtures
		j := r.Intn(i + 1)
		fx[i], fx[j] = fx[j], fx[i]
	}
	lim := func(n, quick int) int {
		if !thorough && n > quick {
			return quick
		}
		return n
	}
	const bfd = 122

	// A. every fixture through every decode path
	for i := 0; i < lim(len(fx), 80); i++ {
		f := fx[i]
		emit("reset")
		emit(fmt.Sprintf("lbfd dec 0 - %s", hx(f)))
		n := 1 + r.Intn(40)
		emit(fmt.Sprintf("lbfd dec %d %s %s", n, hx(r.Bytes(n)), hx(f)))
		emit("lbfd pb " + hx(f))
		emit(fmt.Sprintf("lbfd pkt copy 0 - %s", hx(f)))
		emit(fmt.Sprintf("lbfd pkt nocopy %d %s %s", n, hx(r.Bytes(n)), hx(f)))
		emit(fmt.Sprintf("lbfd pkt lazy 0 - %s", hx(f)))
		emit(fmt.Sprintf("lbfd dlp %d %s", bfd, hx(f)))
		emit(fmt.Sprintf("lbfd dlp 0 %s", hx(f)))
		emit(fmt.Sprintf("lbfd dlp %d %s", 45+r.Intn(3), hx(f)))
		emit("lbfd rtdec " + hx(f))
		emit("lbfd redec " + hx(f))
	}

	// B. truncations 0…len of each fixture — as they are (Length byte no longer matches) and with the Length
	// byte repaired (so that the shortened authentication section is really looked at), with spare capacity
	for i := 0; i < lim(len(fx), 40); i++ {
		f := fx[i]
		emit("reset")
		for n := 0; n <= len(f); n++ {
			if !(n <= 64 || n >= len(f)-2 || thorough || r.Chance(5)) {
				continue
			}
			for _, t := range [][]byte{f[:n], fixLen(f[:n])} {
				c := r.Intn(12)
				emit(fmt.Sprintf("lbfd dec %d %s %s", c, hx(r.Bytes(c)), hx(t)))
				if n >= 24 || r.Chance(20) {
					emit("lbfd pb " + hx(t))
					emit(fmt.Sprintf("lbfd pkt nocopy %d %s %s", c, hx(r.Bytes(c)), hx(t)))
					emit(fmt.Sprintf("lbfd redlp %d %s", bfd, hx(t)))
					emit("lbfd redec " + hx(t))
					emit("lbfd rtdec " + hx(t))
				}
			}
		}
	}

	// C. single-field mutations to boundary values
	for i := 0; i < lim(len(fx), 12); i++ {
		f := fx[i]
		if len(f) < 24 {
			continue
		}
		emit("reset")
		// every value of the two bit-field bytes and of the Length byte (thorough), boundary values (quick)
		for _, off := range []int{0, 1, 2, 3} {
			for v := 0; v < 256; v++ {
				if !thorough && !(v < 4 || v > 251 || v&(v-1) == 0 || v == len(f) || v == len(f)-1 || v == len(f)+1 || r.Chance(10)) {
					continue
				}
				m := setByte(f, off, v)
				emit("lbfd redec " + hx(m))
				if thorough || r.Chance(40) {
					emit("lbfd rtdec " + hx(m))
				}
			}
		}
		// each of the five 32-bit words at its extremes
		for w := 0; w < 5; w++ {
			for _, v := range []byte{0, 0xff, 0x80} {
				m := append([]byte(nil), f...)
				for k := 0; k < 4; k++ {
					m[4+4*w+k] = v
				}
				emit("lbfd redec " + hx(m))
				emit("lbfd rtdec " + hx(m))
			}
		}
		// the authentication type / length / key id bytes
		if len(f) > 26 {
			for _, off := range []int{24, 25, 26} {
				for v := 0; v < 256; v++ {
					if !thorough && !(v < 8 || v > 251 || v == len(f)-24 || r.Chance(6)) {
						continue
					}
					m := setByte(setByte(f, off, v), 1, int(f[1])|4)
					emit("lbfd redec " + hx(m))
					emit("lbfd rtdec " + hx(m))
					if r.Chance(20) {
						emit("lbfd pb " + hx(m))
						emit(fmt.Sprintf("lbfd redlp %d %s", bfd, hx(m)))
					}
				}
			}
		}
	}
	// exhaustive small scope: A bit on/off x every section length 0..12 (+ 16, 24, 28, 231) x every authentication type 0..8, 255
	{
		w := [5]uint32{uint32(r.U64()), uint32(r.U64()), 1000000, 1000000, 0}
		for _, flags := range []byte{0xc4, 0xc0, 0x04, 0xff} {
			emit("reset")
			for _, n := range []int{0, 1, 2, 3, 4, 5, 6, 7, 8, 9, 10, 11, 12, 16, 24, 28, 231} {
				for _, t := range []int{0, 1, 2, 3, 4, 5, 6, 7, 8, 255} {
					rest := r.Bytes(n)
					if n > 0 {
						rest[0] = byte(t)
					}
					if n > 1 {
						rest[1] = byte(n)
					}
					m := raw(0x20, flags, 3, w, rest)
					c := r.Intn(10)
					emit(fmt.Sprintf("lbfd dec %d %s %s", c, hx(r.Bytes(c)), hx(m)))
					emit("lbfd redec " + hx(m))
					emit("lbfd rtdec " + hx(m))
					if thorough || r.Chance(25) {
						emit("lbfd pb " + hx(m))
						emit(fmt.Sprintf("lbfd pkt nocopy %d %s %s", c, hx(r.Bytes(c)), hx(m)))
						emit(fmt.Sprintf("lbfd redlp %d %s", bfd, hx(m)))
					}
					if n == 0 {
						break
					}
				}
			}
		}
	}

	// D. stale-state sequences: ordered pairs…quintuples into the same object (direct and via the parser)
	nseq := 200
	if thorough {
		nseq = 4000
	}
	pick := func() []byte {
		f := fx[r.Intn(len(fx))]
		switch r.Intn(10) {
		case 0:
			return f[:r.Intn(len(f)+1)] // truncated: an error
		case 1:
			return fixLen(f[:r.Intn(len(f)+1)]) // truncated with a matching Length byte
		case 2:
			if len(f) >= 27 {
				return fixLen(f[:24+r.Intn(4)]) // at most 3 bytes behind the mandatory section
			}
		case 3:
			if len(f) >= 24 {
				return setByte(f, 1, int(f[1])&^4) // A bit cleared
			}
		case 4:
			if len(f) > 24 {
				return setByte(f, 24, r.Intn(8)) // another authentication type
			}
		case 5:
			return r.Bytes(r.Intn(40))
		}
		return f
	}
	for c := 0; c < nseq; c++ {
		emit("reset")
		n := 2 + r.Intn(4)
		for i := 0; i < n; i++ {
			f := pick()
			emit("lbfd redec " + hx(f))
			emit(fmt.Sprintf("lbfd redlp %d %s", bfd, hx(f)))
		}
	}

	// E. serialisation: in-range and out-of-range layer values, all four option sets, buffer histories
	psizes := []int{0, 0, 0, 0, 1, 3, 17, 1480, 1500, 1520}
	hists := []string{"fresh", "dirty165", "dirty90", "dirty255", "sized0", "sized8", "sized60", "sized3000"}
	nser := 600
	if thorough {
		nser = 15000
	}
	tok := func(n int) string {
		if n > 200 && r.Chance(70) {
			return fmt.Sprintf("z%dx%02x", n, r.Intn(256))
		}
		return hx(r.Bytes(n))
	}
	authTok := func() string {
		if r.Chance(20) {
			return "-"
		}
		t := r.Pick([]int{1, 1, 2, 3, 4, 5, 0, 6, 7, 255, r.Intn(256)})
		n := r.Pick([]int{0, 1, 6, 16, 16, 20, 20, 24, 28, 100, 222, 223, 224, 227, 228, 229, 255, 256, 300, r.Intn(240)})
		if r.Chance(3) {
			n = r.Pick([]int{65535, 70000})
		}
		seq := uint32(r.U64())
		if r.Chance(40) {
			seq = 0
		}
		if (t == 0 || t > 5) && r.Chance(70) {
			n, seq = 0, 0
		}
		if t == 1 && r.Chance(70) {
			seq = 0
		}
		return fmt.Sprintf("%d:%d:%d:%s", t, r.Intn(256), seq, tok(n))
	}
	fields := func() string {
		ver, diag, state := r.Intn(8), r.Intn(32), r.Intn(4)
		if r.Chance(15) { // beyond the bit-field widths: bits spill / are cut
			switch r.Intn(3) {
			case 0:
				ver = 8 + r.Intn(248)
			case 1:
				diag = 32 + r.Intn(224)
			case 2:
				state = 4 + r.Intn(252)
			}
		}
		auth := authTok()
		a := 1
		if auth == "-" && r.Chance(70) || auth != "-" && r.Chance(12) {
			a = 0
		}
		u32 := func() uint32 {
			switch r.Intn(5) {
			case 0:
				return 0
			case 1:
				return 0xffffffff
			case 2:
				return 1000000
			}
			return uint32(r.U64())
		}
		return fmt.Sprintf("%d %d %d %d %d %d %d %d %d %d %d %d %d %d %d %s", ver, diag, state, r.Intn(2), r.Intn(2), r.Intn(2), a, r.Intn(2), r.Intn(2),
			r.Intn(256), u32(), u32(), u32(), u32(), u32(), auth)
	}
	for c := 0; c < nser; c++ {
		emit("reset")
		f := fields()
		n := r.Pick(psizes)
		emit(fmt.Sprintf("lbfd ser %d %d %s %s %s", r.Intn(2), r.Intn(2), hists[r.Intn(len(hists))], f, tok(n)))
		emit(fmt.Sprintf("lbfd rt %s -", f))
		if n > 0 || r.Chance(10) {
			emit(fmt.Sprintf("lbfd rt %s %s", f, tok(r.Pick(psizes))))
		}
	}
	// every {fix,csum} x every history on fixed shapes
	for _, shape := range []string{
		"1 0 3 0 0 0 0 0 0 3 1 2 1000000 1000000 0 -",                                     // no authentication
		"1 0 3 0 0 0 1 0 0 3 1 2 1000000 1000000 0 -",                                     // A bit, nil header
		"1 0 3 0 0 0 0 0 0 3 1 2 1000000 1000000 0 1:2:0:736563726574",                    // header, A bit clear
		"1 0 3 0 0 0 1 0 0 3 1 2 1000000 1000000 0 1:2:0:736563726574",                    // simple password
		"1 7 1 1 1 1 1 1 1 255 4294967295 0 1 2 3 2:9:5:000102030405060708090a0b0c0d0e0f", // keyed MD5
		"1 0 3 0 0 0 1 0 0 3 1 2 1000000 1000000 0 5:1:4294967295:-",                      // meticulous SHA1, empty hash
		"1 0 3 0 0 0 1 0 0 3 1 2 1000000 1000000 0 9:2:0:-",                               // unknown type (panicked before lbfd-3)
		"1 0 3 0 0 0 1 0 0 3 1 2 1000000 1000000 0 0:2:7:aabb",                            // unknown type with data and sequence number
		"255 255 255 1 1 1 1 1 1 255 1 2 3 4 5 1:2:0:z300x41",                              // everything out of range
	} {
		for _, n := range []int{0, 5, 1500} {
			for fix := 0; fix < 2; fix++ {
				for cs := 0; cs < 2; cs++ {
					emit("reset")
					for _, h := range hists {
						emit(fmt.Sprintf("lbfd ser %d %d %s %s %s", fix, cs, h, shape, tok(n)))
					}
				}
			}
		}
		emit("reset")
		emit(fmt.Sprintf("lbfd rt %s -", shape))
	}
	// payloads beyond 64 KiB (the serializer does not look at the payload; decoding then fails on the Length byte)
	big := []int{65535, 65536, 65537, 70000}
	if !thorough {
		big = []int{65537}
	}
	for _, n := range big {
		emit("reset")
		emit(fmt.Sprintf("lbfd ser 1 1 dirty165 1 0 3 0 0 0 1 0 0 3 1 2 1000000 1000000 0 1:2:0:736563726574 z%dx5a", n))
		emit(fmt.Sprintf("lbfd rt 1 0 3 0 0 0 1 0 0 3 1 2 1000000 1000000 0 1:2:0:736563726574 z%dx5a", n))
	}

	// F. malformed stream: random bytes of every small length, often with a matching Length byte
	nmal := 400
	if thorough {
		nmal = 12000
	}
	for c := 0; c < nmal; c++ {
		emit("reset")
		n := r.Intn(48)
		if r.Chance(10) {
			n = r.Intn(300)
		}
		d := r.Bytes(n)
		if n > 3 && r.Chance(80) {
			d[3] = byte(n)
		}
		if n > 24 && r.Chance(60) {
			d[1] |= 4
			d[24] = byte(r.Intn(7))
		}
		sp := r.Intn(20)
		emit(fmt.Sprintf("lbfd dec %d %s %s", sp, hx(r.Bytes(sp)), hx(d)))
		emit(fmt.Sprintf("lbfd dlp %d %s", bfd, hx(d)))
		emit("lbfd rtdec " + hx(d))
		if r.Chance(30) {
			emit(fmt.Sprintf("lbfd pkt nocopy %d %s %s", sp, hx(r.Bytes(sp)), hx(d)))
			emit("lbfd pb " + hx(d))
		}
	}
	// unparseable ops: both sides answer bad-op
	emit("reset")
	emit("lbfd dec x - 00")
	emit("lbfd dec 1 - 00")
	emit("lbfd ser 1 1 fresh 1 2 3")
	emit("lbfd ser 1 1 fresh 1 0 3 0 0 0 1 0 0 3 1 2 3 4 5 1:2:-")
	emit("lbfd dlp x 00")
	emit("lbfd nonsense")
}
