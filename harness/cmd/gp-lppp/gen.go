package main

import (
	"fmt"
	"go/ast"
	goparser "go/parser"
	"go/token"
	"net"
	"os"
	"path/filepath"
	"sort"
	"strconv"

	"github.com/gopacket/gopacket"
	"github.com/gopacket/gopacket/layers"
	"verif/harness/lib"
)

// ---------------------------------------------------------------- fixtures

// harvestFrames collects every `[]byte{…}` literal (all elements literal) from the repository's own
// layers/*_test.go files; almost all of them are captured Ethernet frames.
func harvestFrames() [][]byte {
	repo := os.Getenv("VERIF_REPO")
	if repo == "" {
		repo = "/repo"
	}
	files, _ := filepath.Glob(filepath.Join(repo, "layers", "*_test.go"))
	sort.Strings(files)
	var out [][]byte
	fset := token.NewFileSet()
	for _, fn := range files {
		f, err := goparser.ParseFile(fset, fn, nil, 0)
		if err != nil {
			continue
		}
		ast.Inspect(f, func(n ast.Node) bool {
			cl, ok := n.(*ast.CompositeLit)
			if !ok {
				return true
			}
			at, ok := cl.Type.(*ast.ArrayType)
			if !ok || at.Len != nil {
				return true
			}
			id, ok := at.Elt.(*ast.Ident)
			if !ok || (id.Name != "byte" && id.Name != "uint8") {
				return true
			}
			b := make([]byte, 0, len(cl.Elts))
			for _, e := range cl.Elts {
				bl, ok := e.(*ast.BasicLit)
				if !ok {
					return true
				}
				switch bl.Kind {
				case token.INT:
					v, err := strconv.ParseUint(bl.Value, 0, 8)
					if err != nil {
						return true
					}
					b = append(b, byte(v))
				case token.CHAR:
					s, err := strconv.Unquote(bl.Value)
					if err != nil || len(s) != 1 {
						return true
					}
					b = append(b, s[0])
				default:
					return true
				}
			}
			if len(b) >= 14 && len(b) <= 1600 {
				out = append(out, b)
			}
			return true
		})
	}
	return out
}

type fixture struct {
	kind string
	data []byte
}

// inputsOf decodes a frame with the repository's own decoders (recovery on) and returns, for every
// PPP / PPPoE / MPLS layer in it, the bytes its decoder function was called with (= the previous
// layer's payload).
func inputsOf(frame []byte, first gopacket.Decoder) (out []fixture) {
	defer func() { recover() }()
	p := gopacket.NewPacket(frame, first, gopacket.DecodeOptions{})
	ls := p.Layers()
	for i, l := range ls {
		k := kindOf(l)
		if k == "" {
			continue
		}
		if i == 0 {
			out = append(out, fixture{k, frame})
		} else {
			out = append(out, fixture{k, append([]byte(nil), ls[i-1].LayerPayload()...)})
		}
	}
	return out
}

// built fixtures: packets produced by the repository's own serializers.
func built(r *lib.Rand) (out []fixture) {
	add := func(kind string, ls ...gopacket.SerializableLayer) {
		b := gopacket.NewSerializeBuffer()
		if err := gopacket.SerializeLayers(b, gopacket.SerializeOptions{FixLengths: true, ComputeChecksums: true}, ls...); err == nil {
			out = append(out, fixture{kind, append([]byte(nil), b.Bytes()...)})
		}
	}
	ip4 := func(proto layers.IPProtocol) *layers.IPv4 {
		return &layers.IPv4{Version: 4, IHL: 5, TTL: 64, Protocol: proto, SrcIP: net.IP{10, 0, 0, 1}, DstIP: net.IP{10, 0, 0, 2}}
	}
	ip6 := &layers.IPv6{Version: 6, HopLimit: 3, NextHeader: layers.IPProtocolNoNextHeader,
		SrcIP: net.ParseIP("fe80::1"), DstIP: net.ParseIP("ff02::1")}
	for _, n := range []int{0, 1, 7, 100} {
		i4 := ip4(layers.IPProtocolUDP)
		udp := &layers.UDP{SrcPort: 1000, DstPort: 2000}
		udp.SetNetworkLayerForChecksum(i4)
		pl := gopacket.Payload(r.Bytes(n))
		add("pppoe", &layers.PPPoE{Version: 1, Type: 1, Code: layers.PPPoECodeSession, SessionId: 0x11}, &layers.PPP{PPPType: layers.PPPTypeIPv4}, i4, udp, pl)
		add("pppoe", &layers.PPPoE{Version: 1, Type: 1, Code: layers.PPPoECodeSession, SessionId: 0xffff}, &layers.PPP{PPPType: layers.PPPTypeIPv6}, ip6, pl)
		add("pppoe", &layers.PPPoE{Version: 1, Type: 1, Code: layers.PPPoECodeSession, SessionId: 7}, &layers.PPP{PPPType: layers.PPPTypeMPLSUnicast},
			&layers.MPLS{Label: 17, TrafficClass: 3, TTL: 9}, &layers.MPLS{Label: 0xfffff, TrafficClass: 7, StackBottom: true, TTL: 255}, i4, udp, pl)
		add("pppoe", &layers.PPPoE{Version: 1, Type: 1, Code: layers.PPPoECodePADI}, pl)
		add("pppoe", &layers.PPPoE{Version: 1, Type: 1, Code: layers.PPPoECodePADT, SessionId: 0x1234}, pl)
		add("ppp", &layers.PPP{PPPType: layers.PPPTypeIPv4, HasPPTPHeader: true}, i4, udp, pl)
		add("ppp", &layers.PPP{PPPType: layers.PPPTypeIPv4}, i4, udp, pl)
		add("ppp", &layers.PPP{PPPType: layers.PPPTypeIPv6, HasPPTPHeader: true}, ip6, pl)
		add("ppp", &layers.PPP{PPPType: layers.PPPTypeMPLSMulticast}, &layers.MPLS{Label: 1 << 19, StackBottom: true, TTL: 1}, ip6, pl)
		add("ppp", &layers.PPP{PPPType: 0xc021}, pl) // LCP: no decoder registered
		add("ppp", &layers.PPP{PPPType: 0x8021, HasPPTPHeader: true}, pl)
		add("mpls", &layers.MPLS{Label: 29, StackBottom: true, TTL: 255}, i4, udp, pl)
		add("mpls", &layers.MPLS{Label: 18, TTL: 255}, &layers.MPLS{Label: 16, StackBottom: true, TTL: 255}, i4, udp, pl)
		add("mpls", &layers.MPLS{Label: 1, TTL: 1}, &layers.MPLS{Label: 2, TTL: 2}, &layers.MPLS{Label: 3, TTL: 3}, &layers.MPLS{Label: 4, TrafficClass: 5, StackBottom: true}, ip6, pl)
		add("mpls", &layers.MPLS{Label: 5, StackBottom: true}, pl)
		add("mpls", &layers.MPLS{Label: 5}, pl) // no bottom-of-stack: the payload is read as more labels
	}
	return out
}

func hx(b []byte) string { return lib.Hex(b) }

func setByte(b []byte, off int, v int) []byte {
	c := append([]byte(nil), b...)
	if off < len(c) {
		c[off] = byte(v)
	}
	return c
}

func setU16(b []byte, off int, v int) []byte {
	c := append([]byte(nil), b...)
	if off+1 < len(c) {
		c[off] = byte(v >> 8)
		c[off+1] = byte(v)
	}
	return c
}

// ---------------------------------------------------------------- generator

func gen(r *lib.Rand, tier string, emit func(string)) {
	thorough := tier == "thorough"
	emit("reset")
	emit("lppp nlttab")

	// fixtures: from the repository's tests (as the bytes each of our decoders saw) + built ones
	var fx []fixture
	seen := map[string]bool{}
	addFx := func(f fixture) {
		k := f.kind + ":" + string(f.data)
		if !seen[k] && len(f.data) > 0 {
			seen[k] = true
			fx = append(fx, f)
		}
	}
	for _, fr := range harvestFrames() {
		for _, f := range inputsOf(fr, layers.LayerTypeEthernet) {
			addFx(f)
		}
	}
	for _, f := range built(r) {
		addFx(f)
		var first gopacket.LayerType
		switch f.kind {
		case "ppp":
			first = layers.LayerTypePPP
		case "pppoe":
			first = layers.LayerTypePPPoE
		default:
			first = layers.LayerTypeMPLS
		}
		for _, g := range inputsOf(f.data, first) {
			addFx(g)
		}
	}
	for i := len(fx) - 1; i > 0; i-- {
		j := r.Intn(i + 1)
		fx[i], fx[j] = fx[j], fx[i]
	}
	foreignOf := func(n int) []byte { return r.Bytes(n) }
	modes := []string{"copy", "nocopy", "lazy", "pool"}

	// A. every fixture through every decode path
	for _, f := range fx {
		emit("reset")
		emit(fmt.Sprintf("lppp dec %s 0 - %s", f.kind, hx(f.data)))
		k := 1 + r.Intn(40)
		emit(fmt.Sprintf("lppp dec %s %d %s %s", f.kind, k, hx(foreignOf(k)), hx(f.data)))
		for _, m := range modes {
			k := 0
			if m == "nocopy" {
				k = 1 + r.Intn(20)
			}
			emit(fmt.Sprintf("lppp pkt %s %s %d %s %s", f.kind, m, k, hx(foreignOf(k)), hx(f.data)))
		}
		emit(fmt.Sprintf("lppp rtdec %s %s", f.kind, hx(f.data)))
		if f.kind == "ppp" {
			emit("lppp flow " + hx(f.data))
		}
	}

	// B. truncations 0…len (all for short inputs, head and tail otherwise), each as every kind
	ntr := 40
	if thorough {
		ntr = len(fx)
	}
	for i := 0; i < ntr && i < len(fx); i++ {
		f := fx[i]
		emit("reset")
		for n := 0; n <= len(f.data); n++ {
			if !(n <= 24 || n >= len(f.data)-2 || (thorough && len(f.data) <= 160) || r.Chance(3)) {
				continue
			}
			t := f.data[:n]
			k := r.Intn(8)
			emit(fmt.Sprintf("lppp dec %s %d %s %s", f.kind, k, hx(foreignOf(k)), hx(t)))
			if n <= 12 || r.Chance(15) {
				emit(fmt.Sprintf("lppp pkt %s %s 0 - %s", f.kind, modes[r.Intn(4)], hx(t)))
			}
			if n <= 8 {
				for _, other := range []string{"ppp", "pppoe", "mpls"} {
					if other != f.kind {
						emit(fmt.Sprintf("lppp dec %s %d %s %s", other, k, hx(foreignOf(k)), hx(t)))
						emit(fmt.Sprintf("lppp pkt %s nocopy %d %s %s", other, k, hx(foreignOf(k)), hx(t)))
					}
				}
				emit(fmt.Sprintf("lppp guess %d %s %s", k, hx(foreignOf(k)), hx(t)))
			}
		}
	}

	// C. single-field mutations to boundary values
	// C1. PPP: small scope over the first bytes (address/control prefix, one- or two-byte protocol field)
	{
		seconds := []int{0x00, 0x01, 0x02, 0x03, 0x20, 0x21, 0x57, 0x81, 0x83, 0xfe, 0xff}
		tails := [][]byte{{}, {0x45}, {0x00, 0x21, 0x45, 0x00}, {0xff, 0x03, 0x00, 0x21}}
		emit("reset")
		for b0 := 0; b0 < 256; b0++ {
			if !(thorough || b0 < 8 || b0 >= 0xfc || b0%2 == 1 && b0 < 0x60 || r.Chance(12)) {
				continue
			}
			emit(fmt.Sprintf("lppp dec ppp 0 - %02x", b0))
			for _, b1 := range seconds {
				for ti, tl := range tails {
					if !thorough && ti > 0 && !r.Chance(25) {
						continue
					}
					d := append([]byte{byte(b0), byte(b1)}, tl...)
					emit("lppp dec ppp 0 - " + hx(d))
					if r.Chance(20) {
						emit("lppp pkt ppp copy 0 - " + hx(d))
						emit("lppp rtdec ppp " + hx(d))
					}
				}
			}
		}
		// every two-byte protocol field behind the ff03 prefix and without it (thorough: all 65536)
		emit("reset")
		for v := 0; v < 65536; v++ {
			if thorough || v < 0x0300 && v%2 == 1 || r.Chance(1) {
				emit("lppp dec ppp 0 - " + hx([]byte{0xff, 0x03, byte(v >> 8), byte(v), 0x45}))
				emit("lppp rtdec ppp " + hx([]byte{byte(v >> 8), byte(v), 0x60, 0x00}))
			}
		}
	}
	// C2. PPPoE: version/type byte, code, length field against the actual payload
	{
		base := []byte{0x11, 0x00, 0x00, 0x11, 0x00, 0x08, 0x00, 0x21, 0x45, 0x00, 0x00, 0x14, 0xde, 0xad}
		emit("reset")
		for v := 0; v < 256; v++ {
			if thorough || v < 0x24 || v%17 == 0 || r.Chance(10) {
				emit("lppp dec pppoe 0 - " + hx(setByte(base, 0, v)))
				emit("lppp rtdec pppoe " + hx(setByte(base, 0, v)))
			}
		}
		for v := 0; v < 256; v++ {
			if thorough || v < 16 || r.Chance(10) {
				emit("lppp dec pppoe 0 - " + hx(setByte(base, 1, v)))
				emit("lppp pkt pppoe copy 0 - " + hx(setByte(base, 1, v)))
			}
		}
		pl := len(base) - 6
		for _, v := range []int{0, 1, 2, pl - 2, pl - 1, pl, pl + 1, pl + 2, 255, 256, 0x7fff, 0x8000, 0xfffe, 0xffff} {
			m := setU16(base, 4, v)
			k := r.Intn(12)
			emit(fmt.Sprintf("lppp dec pppoe %d %s %s", k, hx(foreignOf(k)), hx(m)))
			emit(fmt.Sprintf("lppp pkt pppoe nocopy %d %s %s", k, hx(foreignOf(k)), hx(m)))
			emit("lppp pkt pppoe pool 0 - " + hx(m))
			emit("lppp rtdec pppoe " + hx(m))
		}
		nf := 12
		if thorough {
			nf = 200
		}
		for i := 0; i < nf; i++ {
			f := fx[r.Intn(len(fx))]
			if f.kind != "pppoe" || len(f.data) < 6 {
				continue
			}
			d := f.data
			if len(d) > 200 {
				d = d[:200]
			}
			pl := len(d) - 6
			emit("reset")
			for _, v := range []int{0, 1, pl - 1, pl, pl + 1, 0xffff} {
				if v < 0 {
					continue
				}
				emit("lppp dec pppoe 0 - " + hx(setU16(d, 4, v)))
				emit("lppp pkt pppoe lazy 0 - " + hx(setU16(d, 4, v)))
				emit("lppp rtdec pppoe " + hx(setU16(d, 4, v)))
			}
		}
	}
	// C3. MPLS: label / TC / S / TTL packing at the boundaries; first payload byte for the guessing decoder
	{
		emit("reset")
		for _, lab := range []int{0, 1, 15, 16, 0x7ffff, 0x80000, 0xffffe, 0xfffff} {
			for tc := 0; tc < 8; tc++ {
				for s := 0; s < 2; s++ {
					for _, ttl := range []int{0, 1, 0x7f, 0x80, 0xff} {
						if !thorough && !r.Chance(25) {
							continue
						}
						v := uint32(lab)<<12 | uint32(tc)<<9 | uint32(s)<<8 | uint32(ttl)
						d := []byte{byte(v >> 24), byte(v >> 16), byte(v >> 8), byte(v), 0x45, 0x00}
						emit("lppp dec mpls 0 - " + hx(d))
						emit("lppp rtdec mpls " + hx(d))
					}
				}
			}
		}
		emit("reset")
		for b := 0; b < 256; b++ {
			k := r.Intn(6)
			emit(fmt.Sprintf("lppp guess %d %s %02x", k, hx(foreignOf(k)), b))
			if thorough || b >= 0x40 && b < 0x72 || r.Chance(10) {
				emit(fmt.Sprintf("lppp pkt mpls copy 0 - 0001d1ff%02x000014", b))
				emit(fmt.Sprintf("lppp pkt mpls lazy 0 - 0001d0ff0001d1ff%02x", b))
			}
		}
		// label stacks of every small depth, with and without a bottom-of-stack entry
		maxDepth := 12
		if thorough {
			maxDepth = 300
		}
		for depth := 1; depth <= maxDepth; depth++ {
			if depth > 12 && !r.Chance(10) {
				continue
			}
			emit("reset")
			var d []byte
			for i := 0; i < depth; i++ {
				v := uint32(r.Intn(1<<20))<<12 | uint32(r.Intn(8))<<9 | uint32(r.Intn(256))
				if i == depth-1 && r.Chance(80) {
					v |= 0x100
				}
				d = append(d, byte(v>>24), byte(v>>16), byte(v>>8), byte(v))
			}
			for _, tl := range [][]byte{{}, {0x45}, {0x60, 0, 0}, {0x00}, r.Bytes(3)} {
				x := append(append([]byte(nil), d...), tl...)
				emit(fmt.Sprintf("lppp pkt mpls %s 0 - %s", modes[r.Intn(4)], hx(x)))
			}
		}
	}

	// D. history sequences: the same decoder on A, B, A … (no state may survive between calls)
	nseq := 80
	if thorough {
		nseq = 2000
	}
	for c := 0; c < nseq; c++ {
		emit("reset")
		n := 3 + r.Intn(3)
		for i := 0; i < n; i++ {
			f := fx[r.Intn(len(fx))]
			d := f.data
			if len(d) > 300 {
				d = d[:300]
			}
			switch r.Intn(6) {
			case 0:
				d = d[:r.Intn(len(d)+1)]
			case 1:
				d = setByte(d, r.Intn(8), r.Intn(256))
			}
			k := r.Intn(5)
			emit(fmt.Sprintf("lppp dec %s %d %s %s", f.kind, k, hx(foreignOf(k)), hx(d)))
		}
	}

	// E. serialisation: in-range and out-of-range layer values, all four option sets, buffer histories
	psizes := []int{0, 1, 2, 3, 7, 45, 46, 101, 1480, 1492, 1499, 1500, 1501, 1520}
	hists := []string{"fresh", "dirty165", "dirty90", "dirty255", "sized0", "sized1", "sized6", "sized3000"}
	payloadTok := func(n int) string {
		if n > 200 && r.Chance(70) {
			return fmt.Sprintf("z%dx%02x", n, r.Intn(256))
		}
		return hx(r.Bytes(n))
	}
	pppTypes := []int{0x0021, 0x0057, 0x0281, 0x0283, 0xc021, 0x8021, 0x00ff, 0x0001, 0xfeff, 0x0100, 0x0121, 0x01ff, 0xff03, 0xffff, 0x0000, 0x0020, 0xff21}
	nser := 500
	if thorough {
		nser = 15000
	}
	for c := 0; c < nser; c++ {
		emit("reset")
		n := r.Pick(psizes)
		if r.Chance(25) {
			n = r.Intn(1600)
		}
		// PPP
		ty := r.Pick(pppTypes)
		if r.Chance(40) {
			ty = (r.Intn(128)*2)<<8 | (r.Intn(128)*2 + 1) // in range: high byte even, low byte odd
		} else if r.Chance(30) {
			ty = r.Intn(65536)
		}
		pptp := r.Intn(2)
		emit(fmt.Sprintf("lppp ser ppp %d %d %s %d %d %s", r.Intn(2), r.Intn(2), hists[r.Intn(len(hists))], ty, pptp, payloadTok(n)))
		if r.Chance(60) {
			emit(fmt.Sprintf("lppp rt ppp %d %d %s", ty, pptp, payloadTok(n)))
		}
		// PPPoE
		ver, typ := r.Intn(16), r.Intn(16)
		if r.Chance(12) {
			ver = r.Pick([]int{15, 16, 17, 128, 255})
		}
		if r.Chance(12) {
			typ = r.Pick([]int{15, 16, 17, 128, 255})
		}
		code := r.Pick([]int{0, 0, 0x09, 0x07, 0x19, 0x65, 0xa7, r.Intn(256)})
		sid := r.Pick([]int{0, 1, 0x11, 0xffff, r.Intn(65536)})
		ln := r.Pick([]int{0, n, n, n + 1, 0xffff, r.Intn(65536)}) & 0xffff
		emit(fmt.Sprintf("lppp ser pppoe %d %d %s %d %d %d %d %d %s", r.Intn(2), r.Intn(2), hists[r.Intn(len(hists))], ver, typ, code, sid, ln, payloadTok(n)))
		if r.Chance(60) {
			emit(fmt.Sprintf("lppp rt pppoe %d %d %d %d %d %s", ver, typ, code, sid, ln, payloadTok(n)))
		}
		// MPLS
		label := r.Intn(1 << 20)
		if r.Chance(15) {
			label = r.Pick([]int{0, 1, 1<<20 - 1, 1 << 20, 1<<20 + 1, 1 << 31, 1<<32 - 1, r.Intn(1 << 32)})
		}
		tc := r.Intn(8)
		if r.Chance(12) {
			tc = r.Pick([]int{7, 8, 9, 128, 255})
		}
		ttl := r.Pick([]int{0, 1, 64, 255, r.Intn(256)})
		s := r.Intn(2)
		emit(fmt.Sprintf("lppp ser mpls %d %d %s %d %d %d %d %s", r.Intn(2), r.Intn(2), hists[r.Intn(len(hists))], label, tc, s, ttl, payloadTok(n)))
		if r.Chance(60) {
			emit(fmt.Sprintf("lppp rt mpls %d %d %d %d %s", label, tc, s, ttl, payloadTok(n)))
		}
	}
	// every {fix,csum} x every history on a few shapes
	for _, n := range []int{0, 5, 1500} {
		for fix := 0; fix < 2; fix++ {
			for cs := 0; cs < 2; cs++ {
				emit("reset")
				for _, h := range hists {
					emit(fmt.Sprintf("lppp ser ppp %d %d %s 33 1 %s", fix, cs, h, payloadTok(n)))
					emit(fmt.Sprintf("lppp ser ppp %d %d %s 289 0 %s", fix, cs, h, payloadTok(n)))
					emit(fmt.Sprintf("lppp ser pppoe %d %d %s 1 1 0 17 9 %s", fix, cs, h, payloadTok(n)))
					emit(fmt.Sprintf("lppp ser mpls %d %d %s 29 0 1 255 %s", fix, cs, h, payloadTok(n)))
				}
			}
		}
	}
	// payloads beyond 64 KiB (PPP and MPLS carry them; the PPPoE length field cannot express them)
	big := []int{65535, 65536, 65537, 70000}
	if !thorough {
		big = []int{65535, 65536 + 9}
	}
	for _, n := range big {
		emit("reset")
		emit(fmt.Sprintf("lppp ser pppoe 1 1 fresh 1 1 0 17 0 z%dx5a", n))
		emit(fmt.Sprintf("lppp ser pppoe 1 0 dirty165 1 1 0 17 0 z%dx5a", n))
		emit(fmt.Sprintf("lppp rt pppoe 1 1 0 17 0 z%dx5a", n))
		emit(fmt.Sprintf("lppp rt ppp 33 1 z%dx5a", n))
		emit(fmt.Sprintf("lppp rt mpls 1048575 7 1 255 z%dx5a", n))
	}

	// F. malformed stream: random bytes of every small length, as every kind
	nmal := 250
	if thorough {
		nmal = 8000
	}
	for c := 0; c < nmal; c++ {
		emit("reset")
		n := r.Intn(24)
		if r.Chance(10) {
			n = r.Intn(1700)
		}
		d := r.Bytes(n)
		if n >= 6 && r.Chance(50) {
			d = setU16(d, 4, r.Intn(n)) // a plausible PPPoE length
		}
		if n >= 2 && r.Chance(30) {
			d[0], d[1] = 0xff, 0x03
		}
		k := r.Intn(20)
		for _, kind := range []string{"ppp", "pppoe", "mpls"} {
			emit(fmt.Sprintf("lppp dec %s %d %s %s", kind, k, hx(foreignOf(k)), hx(d)))
			emit(fmt.Sprintf("lppp pkt %s %s %d %s %s", kind, "nocopy", k, hx(foreignOf(k)), hx(d)))
			emit(fmt.Sprintf("lppp rtdec %s %s", kind, hx(d)))
		}
		emit("lppp flow " + hx(d))
		emit(fmt.Sprintf("lppp guess %d %s %s", k, hx(foreignOf(k)), hx(d)))
	}
}
