// gp-lppp: correspondence adapter + monitors for engine `lppp`
// (layers/ppp.go, layers/pppoe.go, layers/mpls.go: the registered decoder functions decodePPP,
// decodePPPoE, decodeMPLS, ProtocolGuessingDecoder, the three SerializeTo methods, PPP.LinkFlow).
//
// These layers have no DecodeFromBytes method; the decoder functions are reached through
// LayerTypePPP/LayerTypePPPoE/LayerTypeMPLS.Decode with a tracing PacketBuilder, and through
// gopacket.NewPacket (SkipDecodeRecovery) in every DecodeOptions mode.
//
// Properties served: C19 (no panics), C05 (no hidden state / capacity independence / packet path =
// direct path), C06 (round trip), C07 (serializer totality, buffer independence, idempotence),
// C17 (LinkFlow).
package main

import (
	"bytes"
	"fmt"
	"os"
	"reflect"
	"runtime/debug"
	"sort"
	"strings"

	"github.com/gopacket/gopacket"
	"github.com/gopacket/gopacket/layers"
	"verif/harness/lib"
)

// ---------------------------------------------------------------- state of one case

var prevInput = map[string][]byte{} // kind -> input of the previous dec op of this case

func reset() { prevInput = map[string][]byte{} }

func b01(b bool) string {
	if b {
		return "1"
	}
	return "0"
}

func renderPPP(l *layers.PPP) string {
	return fmt.Sprintf("type=%d pptp=%s contents=%s payload=%s", uint16(l.PPPType), b01(l.HasPPTPHeader), lib.Hex(l.Contents), lib.Hex(l.Payload))
}

func renderPPPoE(l *layers.PPPoE) string {
	return fmt.Sprintf("ver=%d type=%d code=%d sid=%d len=%d contents=%s payload=%s", l.Version, l.Type, uint8(l.Code), l.SessionId, l.Length,
		lib.Hex(l.Contents), lib.Hex(l.Payload))
}

func renderMPLS(l *layers.MPLS) string {
	return fmt.Sprintf("label=%d tc=%d s=%s ttl=%d contents=%s payload=%s", l.Label, l.TrafficClass, b01(l.StackBottom), l.TTL,
		lib.Hex(l.Contents), lib.Hex(l.Payload))
}

// renderOurs renders a layer of one of this engine's three types ("" for any other layer).
func renderOurs(l gopacket.Layer) string {
	switch v := l.(type) {
	case *layers.PPP:
		return renderPPP(v)
	case *layers.PPPoE:
		return renderPPPoE(v)
	case *layers.MPLS:
		return renderMPLS(v)
	}
	return ""
}

func kindOf(l gopacket.Layer) string {
	switch l.(type) {
	case *layers.PPP:
		return "ppp"
	case *layers.PPPoE:
		return "pppoe"
	case *layers.MPLS:
		return "mpls"
	}
	return ""
}

// inBuf places data at the start of a backing array with `len(foreign)` spare bytes of capacity holding
// the foreign bytes, and returns the slice data[:len] with cap = len + len(foreign).
func inBuf(data, foreign []byte) []byte {
	back := make([]byte, len(data)+len(foreign))
	copy(back, data)
	copy(back[len(data):], foreign)
	return back[:len(data)]
}

func exact(data []byte) []byte { // cap == len
	c := make([]byte, len(data))
	copy(c, data)
	return c[:len(data):len(data)]
}

func isOurSite(site string) bool {
	return strings.HasPrefix(site, "layers/ppp.go") || strings.HasPrefix(site, "layers/pppoe.go") || strings.HasPrefix(site, "layers/mpls.go")
}

// protect is lib.Protect with a panic-site extraction that also works when the repository under test
// is a scratch tree (VERIF_REPO): the site is the top-most stack frame inside the repository.
var lastSite, lastMsg string

func protect(f func() string) (reply string, panicked bool) {
	defer func() {
		if v := recover(); v != nil {
			lastMsg = fmt.Sprint(v)
			lastSite = siteOf(string(debug.Stack()))
			reply = "panic " + lib.PanicKind(v)
			panicked = true
		}
	}()
	return f(), false
}

func siteOf(stack string) string {
	root := os.Getenv("VERIF_REPO")
	if root == "" {
		root = "/repo"
	}
	root = strings.TrimRight(root, "/") + "/"
	for _, l := range strings.Split(stack, "\n") {
		l = strings.TrimSpace(l)
		if !strings.Contains(l, ".go:") {
			continue
		}
		f := strings.Fields(l)[0]
		if strings.HasPrefix(f, root) {
			return f[len(root):]
		}
		if j := strings.LastIndex(f, "gopacket/"); j >= 0 && !strings.Contains(f, "/verif/") {
			return f[j+len("gopacket/"):]
		}
	}
	return "?"
}

// guarded runs f; a panic is reported as a C19 finding with its site and returned as "panic <kind>".
func guarded(what string, f func() string) string {
	reply, panicked := protect(f)
	if panicked {
		lib.Finding("C19", "lppp:panic:"+lastSite, what+" panicked: "+lastMsg)
		lib.Stat("panic")
	}
	return reply
}

// ---------------------------------------------------------------- decoder identities

func fnPtr(d gopacket.Decoder) uintptr {
	if d == nil {
		return 0
	}
	v := reflect.ValueOf(d)
	if v.Kind() != reflect.Func {
		return 0
	}
	return v.Pointer()
}

// names of decoder FUNCTIONS by code pointer, taken from exported tables that are known to hold them
func decoderName(d gopacket.Decoder) string {
	p := fnPtr(d)
	if p == 0 {
		return "other"
	}
	switch p {
	case fnPtr(layers.EthernetTypeMetadata[layers.EthernetTypeIPv4].DecodeWith):
		return "ipv4"
	case fnPtr(layers.EthernetTypeMetadata[layers.EthernetTypeIPv6].DecodeWith):
		return "ipv6"
	case fnPtr(layers.EthernetTypeMetadata[layers.EthernetTypeMPLSUnicast].DecodeWith):
		return "mpls"
	case fnPtr(layers.EthernetTypeMetadata[layers.EthernetTypePPP].DecodeWith):
		return "ppp"
	case fnPtr(layers.EthernetTypeMetadata[layers.EthernetTypePPPoESession].DecodeWith):
		return "pppoe"
	}
	return "other"
}

func layerTypeOf(kind string) (gopacket.LayerType, bool) {
	switch kind {
	case "ppp":
		return layers.LayerTypePPP, true
	case "pppoe":
		return layers.LayerTypePPPoE, true
	case "mpls":
		return layers.LayerTypeMPLS, true
	}
	return 0, false
}

// ---------------------------------------------------------------- tracing PacketBuilder (does not recurse)

type tracer struct {
	acts    []string
	tail    string
	next    gopacket.Decoder
	added   gopacket.Layer // first layer handed to AddLayer
	stopped bool           // a layer of another engine was added: everything after it is not ours
}

func (t *tracer) act(s string) {
	if !t.stopped {
		t.acts = append(t.acts, s)
	}
}
func (t *tracer) SetTruncated() { t.act("trunc") }
func (t *tracer) AddLayer(l gopacket.Layer) {
	if t.stopped {
		return
	}
	if t.added != nil || kindOf(l) == "" {
		if t.added == nil {
			t.added = l
		}
		t.stopped = true
		return
	}
	t.acts = append(t.acts, fmt.Sprintf("add:%d", int(l.LayerType())))
	t.added = l
}
func (t *tracer) SetLinkLayer(gopacket.LinkLayer)               { t.act("link") }
func (t *tracer) SetNetworkLayer(gopacket.NetworkLayer)         { t.act("net") }
func (t *tracer) SetTransportLayer(gopacket.TransportLayer)     { t.act("transport") }
func (t *tracer) SetApplicationLayer(gopacket.ApplicationLayer) { t.act("app") }
func (t *tracer) SetErrorLayer(gopacket.ErrorLayer)             { t.act("errlayer") }
func (t *tracer) DumpPacketData()                               {}
func (t *tracer) DecodeOptions() *gopacket.DecodeOptions        { return &gopacket.DecodeOptions{} }
func (t *tracer) NextDecoder(next gopacket.Decoder) error {
	if t.stopped {
		return nil
	}
	t.next = next
	switch d := next.(type) {
	case layers.PPPType:
		t.tail = fmt.Sprintf("ppp:%d", uint16(d))
	case layers.PPPoECode:
		t.tail = fmt.Sprintf("code:%d", uint8(d))
	case layers.ProtocolGuessingDecoder:
		t.tail = "guess"
	case gopacket.DecodeFunc:
		t.tail = decoderName(d)
	case nil:
		t.tail = "nil"
	default:
		t.tail = "other"
	}
	return nil
}

func (t *tracer) render(err error) string {
	tail := t.tail
	if err != nil {
		tail = "fail"
	} else if tail == "" {
		tail = "done"
	}
	acts := "-"
	if len(t.acts) > 0 {
		acts = strings.Join(t.acts, ",")
	}
	s := "acts=" + acts + " tail=" + tail
	if t.added != nil && kindOf(t.added) != "" {
		s += " | " + renderOurs(t.added)
	}
	return s
}

// decodeWith runs one decoder once on a tracing builder.
func decodeWith(dec gopacket.Decoder, in []byte) (*tracer, error) {
	t := &tracer{}
	err := dec.Decode(in, t)
	return t, err
}

// ---------------------------------------------------------------- decode ops

func opDec(kind string, extra int, foreign, data []byte) string {
	lt, ok := layerTypeOf(kind)
	if !ok || len(foreign) != extra {
		return "bad-op"
	}
	return guarded("decoder function of "+kind, func() string {
		t, err := decodeWith(lt, inBuf(data, foreign))
		reply := t.render(err)
		switch {
		case err != nil:
			lib.Stat(kind + ":dec:err")
		default:
			lib.Stat(kind + ":dec:" + strings.SplitN(t.tail, ":", 2)[0])
			lib.Nontrivial()
		}
		if l, ok := t.added.(*layers.PPP); ok && err == nil {
			if l.HasPPTPHeader {
				lib.Stat("ppp:dec:pptp")
			}
			if len(l.Contents) == 1 {
				lib.Stat("ppp:dec:compressed-type")
			}
		}
		if l, ok := t.added.(*layers.PPPoE); ok && err == nil && 6+len(l.Payload) < len(data) {
			lib.Stat("pppoe:dec:trailing-bytes")
		}
		if extra > 0 {
			lib.Stat(kind + ":dec:spare-cap")
		}
		// C05/C04 oracle: the same bytes in a buffer with cap == len
		t2, err2 := decodeWith(lt, exact(data))
		ref := t2.render(err2)
		if ref != reply {
			lib.Finding("C05", "lppp:cap-dependent", kind+": decode depends on spare capacity / foreign bytes: "+reply+" vs "+ref)
		}
		// C05 oracle (no hidden state): decode the previous input of this case, then this one again
		if prev, ok := prevInput[kind]; ok {
			decodeWith(lt, exact(prev))
			t3, err3 := decodeWith(lt, exact(data))
			if again := t3.render(err3); again != ref {
				lib.Finding("C05", "lppp:stale:history", kind+": the same bytes decode differently after another packet was decoded: "+ref+" vs "+again)
			}
			if t3.added != nil && (t3.added == t.added || t3.added == t2.added) {
				lib.Finding("C05", "lppp:stale:object", kind+": two decoder calls returned the same layer object")
			}
			lib.Stat(kind + ":dec:after-other")
		}
		prevInput[kind] = append([]byte(nil), data...)
		return reply
	})
}

func opGuess(extra int, foreign, data []byte) string {
	if len(foreign) != extra {
		return "bad-op"
	}
	if _, ok := layers.MPLSPayloadDecoder.(layers.ProtocolGuessingDecoder); !ok {
		return "mplspayload-replaced"
	}
	return guarded("ProtocolGuessingDecoder.Decode", func() string {
		t, err := decodeWith(layers.MPLSPayloadDecoder, inBuf(data, foreign))
		if t.added != nil {
			lib.Stat(fmt.Sprintf("guess:hand:%d", int(t.added.LayerType())))
			lib.Nontrivial()
			return fmt.Sprintf("hand:%d", int(t.added.LayerType()))
		}
		if err == nil {
			return "none"
		}
		lib.Stat("guess:fail")
		return "fail"
	})
}

// ---------------------------------------------------------------- NewPacket

// chain follows the decoders by hand, one call per layer on a fresh tracing builder, the way
// eagerPacket.NextDecoder does (empty payload: stop; otherwise call the next decoder on the payload).
func chain(first gopacket.Decoder, data []byte) (renders []string, end string, link, trunc bool) {
	dec, in := first, exact(data)
	for depth := 0; depth < 100000; depth++ {
		t, err := decodeWith(dec, in)
		for _, a := range t.acts {
			if a == "link" {
				link = true
			}
			if a == "trunc" {
				trunc = true
			}
		}
		if t.added == nil {
			if err != nil {
				return renders, "fail", link, trunc
			}
			return renders, "done", link, trunc
		}
		if kindOf(t.added) == "" {
			return renders, fmt.Sprintf("hand:%d", int(t.added.LayerType())), link, trunc
		}
		renders = append(renders, kindOf(t.added)+" "+renderOurs(t.added))
		if err != nil {
			return renders, "fail", link, trunc
		}
		p := t.added.LayerPayload()
		if len(p) == 0 {
			return renders, "done", link, trunc
		}
		if t.next == nil {
			return renders, "fail", link, trunc
		}
		dec, in = t.next, p
	}
	return renders, "runaway", link, trunc
}

func opPkt(kind, mode string, extra int, foreign, data []byte) string {
	first, ok := layerTypeOf(kind)
	if !ok || len(foreign) != extra || (mode != "copy" && mode != "nocopy" && mode != "lazy" && mode != "pool") {
		return "bad-op"
	}
	type obs struct {
		renders []string
		end     string
		link    bool
		trunc   bool
	}
	build := func(skipRecovery bool) obs {
		opts := gopacket.DecodeOptions{SkipDecodeRecovery: skipRecovery}
		in := exact(data)
		switch mode {
		case "nocopy":
			opts.NoCopy = true
			in = inBuf(data, foreign)
		case "lazy":
			opts.Lazy = true
		case "pool":
			opts.Pool = true
		}
		p := gopacket.NewPacket(in, first, opts)
		ls := p.Layers()
		var o obs
		i := 0
		var ours []gopacket.Layer
		for ; i < len(ls); i++ {
			if kindOf(ls[i]) == "" {
				break
			}
			ours = append(ours, ls[i])
			o.renders = append(o.renders, kindOf(ls[i])+" "+renderOurs(ls[i]))
		}
		switch {
		case i < len(ls):
			if _, isFail := ls[i].(*gopacket.DecodeFailure); isFail {
				o.end = "fail"
			} else {
				o.end = fmt.Sprintf("hand:%d", int(ls[i].LayerType()))
			}
		case p.ErrorLayer() != nil:
			o.end = "fail"
		default:
			o.end = "done"
		}
		if ll := p.LinkLayer(); ll != nil {
			for _, l := range ours {
				if gopacket.Layer(ll.(gopacket.Layer)) == l {
					o.link = true
				}
			}
		}
		o.trunc = p.Metadata().Truncated
		if pp, ok := p.(gopacket.PooledPacket); ok {
			pp.Dispose()
		}
		return o
	}
	var o obs
	_, panicked := protect(func() string { o = build(true); return "" })
	if panicked {
		if isOurSite(lastSite) {
			lib.Finding("C19", "lppp:panic:"+lastSite, "NewPacket(SkipDecodeRecovery) panicked in this layer: "+lastMsg)
			return "panic " + lib.PanicKind(lastMsg)
		}
		// a decoder of a LATER layer panicked (other engines' business): observe these layers with recovery on
		lib.Stat("pkt:later-layer-panic")
		o = build(false)
	}
	lib.Stat("pkt:" + kind + ":" + mode)
	lib.Stat(fmt.Sprintf("pkt:layers=%d", len(o.renders)))
	lib.Stat("pkt:end:" + strings.SplitN(o.end, ":", 2)[0])
	if len(o.renders) >= 2 {
		lib.Nontrivial()
	}
	nm := 0
	for _, r := range o.renders {
		if strings.HasPrefix(r, "mpls ") {
			nm++
		}
	}
	if nm >= 2 {
		lib.Stat("pkt:mpls-stack")
	}
	// C05 oracle: the packet's leading layers = the decoders called by hand on fresh builders
	_, pk := protect(func() string {
		if mode == "lazy" && len(data) == 0 {
			return "" // a lazy packet never calls a decoder on empty data (C03 excludes the empty input)
		}
		renders, end, link, trunc := chain(first, data)
		same := len(renders) == len(o.renders) && end == o.end && link == o.link
		for i := 0; same && i < len(renders); i++ {
			same = renders[i] == o.renders[i]
		}
		if same && !strings.HasPrefix(end, "hand") && trunc != o.trunc {
			same = false
		}
		if !same {
			lib.Finding("C05", "lppp:pkt-differs", fmt.Sprintf("NewPacket(%s) layers differ from direct decoder calls: %v end=%s vs %v end=%s", mode, o.renders, o.end, renders, end))
		}
		return ""
	})
	if pk && isOurSite(lastSite) {
		lib.Finding("C19", "lppp:panic:"+lastSite, "decoder function panicked: "+lastMsg)
	}
	tr := b01(o.trunc)
	if strings.HasPrefix(o.end, "hand") {
		tr = "x" // layers of other engines may have set the flag
	}
	body := ""
	if len(o.renders) > 0 {
		body = " | " + strings.Join(o.renders, " | ")
	}
	return fmt.Sprintf("n=%d%s | end=%s link=%s trunc=%s", len(o.renders), body, o.end, b01(o.link), tr)
}

// ---------------------------------------------------------------- serialize ops

func mkBuffer(hist string) (gopacket.SerializeBuffer, bool) {
	switch {
	case hist == "fresh":
		return gopacket.NewSerializeBuffer(), true
	case strings.HasPrefix(hist, "dirty"):
		v, ok := lib.Atoi(hist[5:])
		if !ok || v < 0 || v > 255 {
			return nil, false
		}
		b := gopacket.NewSerializeBuffer()
		s, _ := b.AppendBytes(64)
		for i := range s {
			s[i] = byte(v)
		}
		s, _ = b.PrependBytes(64)
		for i := range s {
			s[i] = byte(v)
		}
		b.Clear()
		return b, true
	case strings.HasPrefix(hist, "sized"):
		n, ok := lib.Atoi(hist[5:])
		if !ok || n < 0 || n >= 100000 {
			return nil, false
		}
		return gopacket.NewSerializeBufferExpectedSize(n, n), true
	}
	return nil, false
}

func parsePayload(s string) ([]byte, bool) {
	if strings.HasPrefix(s, "z") {
		parts := strings.Split(s[1:], "x")
		if len(parts) != 2 {
			return nil, false
		}
		n, ok := lib.Atoi(parts[0])
		v, ok2 := lib.UnHex(parts[1])
		if !ok || !ok2 || len(v) != 1 || n < 0 || n > 200000 {
			return nil, false
		}
		return bytes.Repeat(v, n), true
	}
	return lib.UnHex(s)
}

func putPayload(b gopacket.SerializeBuffer, p []byte) {
	gopacket.Payload(p).SerializeTo(b, gopacket.SerializeOptions{})
}

// serOnce serialises layer l over payload p into buffer b; returns (bytes, error?) and converts a
// panic into a C07 finding.
func serOnce(l gopacket.SerializableLayer, b gopacket.SerializeBuffer, p []byte, opts gopacket.SerializeOptions) (out []byte, failed bool, panicked bool) {
	reply, pk := protect(func() string {
		putPayload(b, p)
		if err := l.SerializeTo(b, opts); err != nil {
			return "err"
		}
		return "ok"
	})
	if pk {
		lib.Finding("C07", "lppp:ser-panic:"+lastSite, "SerializeTo panicked: "+lastMsg)
		return nil, false, true
	}
	if reply == "err" {
		return nil, true, false
	}
	return append([]byte(nil), b.Bytes()...), false, false
}

// serMonitors: the C07 oracles on the real code for one (layer, payload, options).
// mk must return a NEW layer object with the same public field values on every call.
func serMonitors(name string, mk func() gopacket.SerializableLayer, p []byte, opts gopacket.SerializeOptions, got []byte, gotErr bool) {
	// (a) buffer independence: fresh, dirty 0xA5 / 0x5A, pre-sized
	for _, h := range []string{"fresh", "dirty165", "dirty90", "sized3", "sized2000"} {
		b, _ := mkBuffer(h)
		out, failed, pk := serOnce(mk(), b, p, opts)
		if pk {
			return
		}
		if failed != gotErr || (!failed && !bytes.Equal(out, got)) {
			lib.Finding("C07", "lppp:dirty-buffer", name+": output differs between buffer histories ("+h+")")
			return
		}
	}
	// (b) idempotence: the same (mutated) object again over the same payload
	l := mk()
	o1, f1, pk := serOnce(l, gopacket.NewSerializeBuffer(), p, opts)
	if pk {
		return
	}
	o2, f2, pk := serOnce(l, gopacket.NewSerializeBuffer(), p, opts)
	if pk {
		return
	}
	if f1 != f2 || !bytes.Equal(o1, o2) {
		what := "bytes differ"
		if f1 != f2 {
			what = fmt.Sprintf("first call error=%v, second call error=%v", f1, f2)
		}
		lib.Finding("C07", "lppp:not-idempotent", name+": serialising the same layer twice differs: "+what)
	}
}

func parseBool(s string) (bool, bool) {
	switch s {
	case "1":
		return true, true
	case "0":
		return false, true
	}
	return false, false
}

func atoiBelow(s string, bound int) (int, bool) {
	n, ok := lib.Atoi(s)
	if !ok || n < 0 || n >= bound {
		return 0, false
	}
	return n, true
}

// field parsers (shared by ser and rt)
func parsePPP(a []string) (func() *layers.PPP, bool) {
	ty, ok1 := atoiBelow(a[0], 65536)
	pptp, ok2 := parseBool(a[1])
	if !ok1 || !ok2 {
		return nil, false
	}
	return func() *layers.PPP { return &layers.PPP{PPPType: layers.PPPType(ty), HasPPTPHeader: pptp} }, true
}

func parsePPPoE(a []string) (func() *layers.PPPoE, bool) {
	ver, ok1 := atoiBelow(a[0], 256)
	ty, ok2 := atoiBelow(a[1], 256)
	code, ok3 := atoiBelow(a[2], 256)
	sid, ok4 := atoiBelow(a[3], 65536)
	ln, ok5 := atoiBelow(a[4], 65536)
	if !(ok1 && ok2 && ok3 && ok4 && ok5) {
		return nil, false
	}
	return func() *layers.PPPoE {
		return &layers.PPPoE{Version: uint8(ver), Type: uint8(ty), Code: layers.PPPoECode(code), SessionId: uint16(sid), Length: uint16(ln)}
	}, true
}

func parseMPLS(a []string) (func() *layers.MPLS, bool) {
	label, ok1 := atoiBelow(a[0], 1<<32)
	tc, ok2 := atoiBelow(a[1], 256)
	s, ok3 := parseBool(a[2])
	ttl, ok4 := atoiBelow(a[3], 256)
	if !(ok1 && ok2 && ok3 && ok4) {
		return nil, false
	}
	return func() *layers.MPLS {
		return &layers.MPLS{Label: uint32(label), TrafficClass: uint8(tc), StackBottom: s, TTL: uint8(ttl)}
	}, true
}

func opSer(kind string, a []string) string {
	// fix csum hist <fields…> payload
	if len(a) < 5 {
		return "bad-op"
	}
	fix, ok1 := parseBool(a[0])
	csum, ok2 := parseBool(a[1])
	b, ok3 := mkBuffer(a[2])
	p, ok4 := parsePayload(a[len(a)-1])
	if !(ok1 && ok2 && ok3 && ok4) {
		return "bad-op"
	}
	fields := a[3 : len(a)-1]
	opts := gopacket.SerializeOptions{FixLengths: fix, ComputeChecksums: csum}
	var mk func() gopacket.SerializableLayer
	var tailOf func(gopacket.SerializableLayer) string
	switch kind {
	case "ppp":
		if len(fields) != 2 {
			return "bad-op"
		}
		f, ok := parsePPP(fields)
		if !ok {
			return "bad-op"
		}
		mk = func() gopacket.SerializableLayer { return f() }
		tailOf = func(gopacket.SerializableLayer) string { return "" }
		if f().PPPType&0x100 != 0 {
			lib.Stat("ppp:ser:one-byte-type")
		}
	case "pppoe":
		if len(fields) != 5 {
			return "bad-op"
		}
		f, ok := parsePPPoE(fields)
		if !ok {
			return "bad-op"
		}
		mk = func() gopacket.SerializableLayer { return f() }
		tailOf = func(l gopacket.SerializableLayer) string { return fmt.Sprintf(" len=%d", l.(*layers.PPPoE).Length) }
		if len(p) > 65535 {
			lib.Stat("pppoe:ser:payload>64k")
		}
	case "mpls":
		if len(fields) != 4 {
			return "bad-op"
		}
		f, ok := parseMPLS(fields)
		if !ok {
			return "bad-op"
		}
		mk = func() gopacket.SerializableLayer { return f() }
		tailOf = func(gopacket.SerializableLayer) string { return "" }
		if f().Label >= 1<<20 {
			lib.Stat("mpls:ser:label>=2^20")
		}
	default:
		return "bad-op"
	}
	l := mk()
	out, failed, pk := serOnce(l, b, p, opts)
	if pk {
		return "panic " + lib.PanicKind(lastMsg)
	}
	serMonitors(kind, mk, p, opts, out, failed)
	if a[2] != "fresh" {
		lib.Stat("ser:buf:" + strings.TrimRight(a[2], "0123456789"))
	}
	lib.Stat(fmt.Sprintf("ser:opts:fix=%s,csum=%s", a[0], a[1]))
	if failed {
		lib.Stat(kind + ":ser:err")
		return "err"
	}
	lib.Stat(kind + ":ser:ok")
	lib.Nontrivial()
	return "ok bytes=" + lib.Hex(out) + tailOf(l)
}

// ---------------------------------------------------------------- round trip

var rtOpts = gopacket.SerializeOptions{FixLengths: true, ComputeChecksums: true}

// rt: SerializeLayers(layer, payload) with fix+csum, decode with the registered decoder, serialise
// the decoded layer again.  `check` is the C06 oracle for this layer type: it gets the decoded
// layer (nil on error) and returns the name of the first field that violates the round trip.
func rt(kind string, l gopacket.SerializableLayer, p []byte, wf bool, check func(d gopacket.Layer) string) string {
	lt, _ := layerTypeOf(kind)
	buf := gopacket.NewSerializeBuffer()
	if err := gopacket.SerializeLayers(buf, rtOpts, l, gopacket.Payload(p)); err != nil {
		lib.Stat(kind + ":rt:ser-err")
		if wf {
			lib.Finding("C06", "lppp:roundtrip:ser-error", kind+": serialising a well-formed layer fails")
		}
		return "ser-err"
	}
	out := append([]byte(nil), buf.Bytes()...)
	t, derr := decodeWith(lt, exact(out))
	dreply := t.render(derr)
	again := "none"
	if derr == nil && t.added != nil {
		if sl, ok := t.added.(gopacket.SerializableLayer); ok {
			buf2 := gopacket.NewSerializeBuffer()
			if err := gopacket.SerializeLayers(buf2, rtOpts, sl, gopacket.Payload(t.added.LayerPayload())); err != nil {
				again = "err"
			} else if bytes.Equal(buf2.Bytes(), out) {
				again = "same"
			} else {
				again = "diff"
			}
		}
	}
	if wf {
		lib.Stat(kind + ":rt:wf")
		lib.Nontrivial()
		trunc := false
		for _, a := range t.acts {
			if a == "trunc" {
				trunc = true
			}
		}
		switch {
		case derr != nil || t.added == nil:
			lib.Finding("C06", "lppp:roundtrip:error", kind+": decoding the serialised well-formed layer fails")
		case trunc:
			lib.Finding("C06", "lppp:roundtrip:Truncated", kind+": truncation flag set on a round trip")
		default:
			if f := check(t.added); f != "" {
				lib.Finding("C06", "lppp:roundtrip:"+f, kind+"."+f+" changed on a round trip")
			} else if !bytes.Equal(t.added.LayerPayload(), p) {
				lib.Finding("C06", "lppp:roundtrip:Payload", fmt.Sprintf("%s payload changed on a round trip (%d -> %d bytes)", kind, len(p), len(t.added.LayerPayload())))
			} else if again != "same" {
				lib.Finding("C06", "lppp:roundtrip:reserialize", kind+": serialising the decoded layer again gives "+again)
			}
		}
	} else {
		lib.Stat(kind + ":rt:not-wf")
	}
	return "ok bytes=" + lib.Hex(out) + " | " + dreply + " | again=" + again
}

func rtPPP(l *layers.PPP, p []byte) string {
	want := *l
	// in-range PPP protocol numbers (RFC 1661 §2): high byte even, low byte odd
	wf := (want.PPPType>>8)&1 == 0 && want.PPPType&1 == 1
	return rt("ppp", l, p, wf, func(d gopacket.Layer) string {
		g, ok := d.(*layers.PPP)
		switch {
		case !ok:
			return "type"
		case g.PPPType != want.PPPType:
			return "PPPType"
		case g.HasPPTPHeader != want.HasPPTPHeader:
			return "HasPPTPHeader"
		}
		return ""
	})
}

func rtPPPoE(l *layers.PPPoE, p []byte) string {
	want := *l
	wf := want.Version <= 15 && want.Type <= 15 && len(p) <= 65535
	return rt("pppoe", l, p, wf, func(d gopacket.Layer) string {
		g, ok := d.(*layers.PPPoE)
		switch {
		case !ok:
			return "type"
		case g.Version != want.Version:
			return "Version"
		case g.Type != want.Type:
			return "Type"
		case g.Code != want.Code:
			return "Code"
		case g.SessionId != want.SessionId:
			return "SessionId"
		case int(g.Length) != len(p):
			return "Length"
		}
		return ""
	})
}

func rtMPLS(l *layers.MPLS, p []byte) string {
	want := *l
	wf := want.Label < 1<<20 && want.TrafficClass <= 7
	return rt("mpls", l, p, wf, func(d gopacket.Layer) string {
		g, ok := d.(*layers.MPLS)
		switch {
		case !ok:
			return "type"
		case g.Label != want.Label:
			return "Label"
		case g.TrafficClass != want.TrafficClass:
			return "TrafficClass"
		case g.StackBottom != want.StackBottom:
			return "StackBottom"
		case g.TTL != want.TTL:
			return "TTL"
		}
		return ""
	})
}

func opRt(kind string, a []string) string {
	if len(a) < 2 {
		return "bad-op"
	}
	p, okp := parsePayload(a[len(a)-1])
	fields := a[:len(a)-1]
	if !okp {
		return "bad-op"
	}
	var run func() string
	switch kind {
	case "ppp":
		if len(fields) != 2 {
			return "bad-op"
		}
		f, ok := parsePPP(fields)
		if !ok {
			return "bad-op"
		}
		run = func() string { return rtPPP(f(), p) }
	case "pppoe":
		if len(fields) != 5 {
			return "bad-op"
		}
		f, ok := parsePPPoE(fields)
		if !ok {
			return "bad-op"
		}
		run = func() string { return rtPPPoE(f(), p) }
	case "mpls":
		if len(fields) != 4 {
			return "bad-op"
		}
		f, ok := parseMPLS(fields)
		if !ok {
			return "bad-op"
		}
		run = func() string { return rtMPLS(f(), p) }
	default:
		return "bad-op"
	}
	r, pk := protect(run)
	if pk {
		lib.Finding("C07", "lppp:ser-panic:"+lastSite, "round trip panicked: "+lastMsg)
	}
	return r
}

func opRtDec(kind string, data []byte) string {
	lt, ok := layerTypeOf(kind)
	if !ok {
		return "bad-op"
	}
	return guarded("decode+round trip", func() string {
		t, err := decodeWith(lt, exact(data))
		if err != nil || t.added == nil {
			return "dec-err"
		}
		lib.Stat(kind + ":rtdec")
		switch l := t.added.(type) {
		case *layers.PPP:
			return rtPPP(l, l.Payload)
		case *layers.PPPoE:
			return rtPPPoE(l, l.Payload)
		case *layers.MPLS:
			return rtMPLS(l, l.Payload)
		}
		return "dec-err"
	})
}

// ---------------------------------------------------------------- flows

func opFlow(data []byte) string {
	return guarded("PPP.LinkFlow", func() string {
		t, err := decodeWith(layers.LayerTypePPP, exact(data))
		l, ok := t.added.(*layers.PPP)
		if err != nil || !ok {
			return "err"
		}
		f := l.LinkFlow()
		src, dst := f.Endpoints()
		rs, rd := f.Reverse().Endpoints()
		// PPP has no addresses: the flow must carry the empty source and destination, whatever the bytes
		if f.EndpointType() != layers.EndpointPPP || len(src.Raw()) != 0 || len(dst.Raw()) != 0 {
			lib.Finding("C17", "lppp:flow-bytes", "PPP LinkFlow carries address bytes although PPP has none")
		}
		if f != layers.PPPFlow || src != layers.PPPEndpoint || dst != layers.PPPEndpoint {
			lib.Finding("C17", "lppp:flow-bytes", "PPP LinkFlow is not the PPPFlow singleton / its endpoints are not PPPEndpoint")
		}
		// the two directions of a PPP conversation are the same frame format: mutually reversed = equal
		if f.Reverse() != f || f.Reverse().Reverse() != f {
			lib.Finding("C17", "lppp:flow-reverse", "PPP LinkFlow is not its own reverse")
		}
		if f.Reverse().FastHash() != f.FastHash() {
			lib.Finding("C17", "lppp:flow-hash", "the two directions of one conversation have different FastHash")
		}
		var ll gopacket.LinkLayer = l // *PPP must implement LinkLayer (LinkFlow)
		_ = ll
		lib.Stat("ppp:flow")
		lib.Nontrivial()
		return fmt.Sprintf("ok et=%d src=%s dst=%s rsrc=%s rdst=%s sym=%s", int(f.EndpointType()),
			lib.Hex(src.Raw()), lib.Hex(dst.Raw()), lib.Hex(rs.Raw()), lib.Hex(rd.Raw()), b01(f.Reverse() == f))
	})
}

// ---------------------------------------------------------------- tables

func opNltTab() string {
	var rows []string
	type row struct {
		k int
		v string
	}
	var rs []row
	for i := 0; i < 65536; i++ {
		if d := layers.PPPTypeMetadata[i].DecodeWith; d != nil {
			rs = append(rs, row{i, decoderName(d)})
		}
	}
	sort.Slice(rs, func(a, b int) bool { return rs[a].k < rs[b].k })
	for _, r := range rs {
		rows = append(rows, fmt.Sprintf("ppp:%d=%s", r.k, r.v))
	}
	rs = nil
	for i := 0; i < 256; i++ {
		if d := layers.PPPoECodeMetadata[i].DecodeWith; d != nil {
			rs = append(rs, row{i, decoderName(d)})
		}
	}
	for _, r := range rs {
		rows = append(rows, fmt.Sprintf("code:%d=%s", r.k, r.v))
	}
	mp := "other"
	if _, ok := layers.MPLSPayloadDecoder.(layers.ProtocolGuessingDecoder); ok {
		mp = "guess"
	}
	lib.Stat("nlttab")
	return fmt.Sprintf("ok %s lt=%d,%d,%d ep=%d mplspayload=%s", strings.Join(rows, ","), int(layers.LayerTypePPP), int(layers.LayerTypePPPoE),
		int(layers.LayerTypeMPLS), int(layers.EndpointPPP), mp)
}

// ---------------------------------------------------------------- dispatcher

func exec(a []string) string {
	if len(a) < 2 || a[0] != "lppp" {
		return "bad-op"
	}
	switch a[1] {
	case "dec":
		if len(a) != 6 {
			return "bad-op"
		}
		extra, ok1 := lib.Atoi(a[3])
		foreign, ok2 := lib.UnHex(a[4])
		data, ok3 := lib.UnHex(a[5])
		if !ok1 || !ok2 || !ok3 || extra < 0 {
			return "bad-op"
		}
		return opDec(a[2], extra, foreign, data)
	case "guess":
		if len(a) != 5 {
			return "bad-op"
		}
		extra, ok1 := lib.Atoi(a[2])
		foreign, ok2 := lib.UnHex(a[3])
		data, ok3 := lib.UnHex(a[4])
		if !ok1 || !ok2 || !ok3 || extra < 0 {
			return "bad-op"
		}
		return opGuess(extra, foreign, data)
	case "pkt":
		if len(a) != 7 {
			return "bad-op"
		}
		extra, ok1 := lib.Atoi(a[4])
		foreign, ok2 := lib.UnHex(a[5])
		data, ok3 := lib.UnHex(a[6])
		if !ok1 || !ok2 || !ok3 || extra < 0 {
			return "bad-op"
		}
		return opPkt(a[2], a[3], extra, foreign, data)
	case "ser":
		if len(a) < 4 {
			return "bad-op"
		}
		return opSer(a[2], a[3:])
	case "rt":
		if len(a) < 4 {
			return "bad-op"
		}
		return opRt(a[2], a[3:])
	case "rtdec":
		if len(a) != 4 {
			return "bad-op"
		}
		data, ok := lib.UnHex(a[3])
		if !ok {
			return "bad-op"
		}
		return opRtDec(a[2], data)
	case "flow":
		if len(a) != 3 {
			return "bad-op"
		}
		data, ok := lib.UnHex(a[2])
		if !ok {
			return "bad-op"
		}
		return opFlow(data)
	case "nlttab":
		if len(a) != 2 {
			return "bad-op"
		}
		return opNltTab()
	}
	return "bad-op"
}

func main() {
	reset()
	lib.Main(lib.Engine{Name: "lppp", Gen: gen, Reset: reset, Exec: exec})
}
