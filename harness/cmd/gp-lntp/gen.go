package main

import (
	"fmt"
	"go/ast"
	goparser "go/parser"
	"go/token"
	"os"
	"path/filepath"
	"sort"
	"strconv"

	"github.com/gopacket/gopacket"
	"github.com/gopacket/gopacket/layers"
	"verif/harness/lib"
)

// ---------------------------------------------------------------- fixtures

// literals collects every `[]byte{…}` literal (all elements literal) from the repository's own
// layers/*_test.go files.
func literals() [][]byte {
	repo := os.Getenv("VERIF_REPO")
	if repo == "" {
		repo = "/repo"
	}
	files, _ := filepath.Glob(filepath.Join(repo, "layers", "*_test.go"))
	sort.Strings(files)
	var out [][]byte
	fset := token.NewFileSet()
	for _, fn := range files {
		f, err := goparser.ParseFile(fset, fn, nil, 0)
		if err != nil {
			continue
		}
		ast.Inspect(f, func(n ast.Node) bool {
			cl, ok := n.(*ast.CompositeLit)
			if !ok {
				return true
			}
			at, ok := cl.Type.(*ast.ArrayType)
			if !ok || at.Len != nil {
				return true
			}
			id, ok := at.Elt.(*ast.Ident)
			if !ok || (id.Name != "byte" && id.Name != "uint8") {
				return true
			}
			b := make([]byte, 0, len(cl.Elts))
			for _, e := range cl.Elts {
				bl, ok := e.(*ast.BasicLit)
				if !ok {
					return true
				}
				switch bl.Kind {
				case token.INT:
					v, err := strconv.ParseUint(bl.Value, 0, 8)
					if err != nil {
						return true
					}
					b = append(b, byte(v))
				case token.CHAR:
					s, err := strconv.Unquote(bl.Value)
					if err != nil || len(s) != 1 {
						return true
					}
					b = append(b, s[0])
				default:
					return true
				}
			}
			if len(b) >= 4 && len(b) <= 1600 {
				out = append(out, b)
			}
			return true
		})
	}
	return out
}

type fixtures struct{ ntp, vrrp [][]byte }

func (f *fixtures) of(kind string) [][]byte {
	if kind == "ntp" {
		return f.ntp
	}
	return f.vrrp
}

// harvest decodes every test literal of the repository with several first decoders (recovery on) and
// keeps the bytes (contents ++ payload) of every NTP / VRRP layer found in them.
func harvest(fx *fixtures) {
	seen := map[string]bool{}
	add := func(dst *[][]byte, b []byte) {
		if len(b) > 600 {
			b = b[:600]
		}
		k := string(b)
		if !seen[k] {
			seen[k] = true
			*dst = append(*dst, append([]byte(nil), b...))
		}
	}
	firsts := []gopacket.Decoder{layers.LayerTypeEthernet, layers.LayerTypeIPv4, layers.LayerTypeUDP, layers.LayerTypeNTP, layers.LayerTypeVRRP}
	for _, lit := range literals() {
		for _, first := range firsts {
			func() {
				defer func() { recover() }()
				p := gopacket.NewPacket(lit, first, gopacket.DecodeOptions{})
				for _, l := range p.Layers() {
					all := append(append([]byte(nil), l.LayerContents()...), l.LayerPayload()...)
					switch l.LayerType() {
					case layers.LayerTypeNTP:
						add(&fx.ntp, all)
					case layers.LayerTypeVRRP:
						add(&fx.vrrp, all)
					}
				}
			}()
		}
	}
}

func vrrpBytes(verType, vrid, prio, count, auth, adv byte, cksum uint16, naddr int, trailing int, r *lib.Rand) []byte {
	b := []byte{verType, vrid, prio, count, auth, adv, byte(cksum >> 8), byte(cksum)}
	b = append(b, r.Bytes(4*naddr)...)
	return append(b, r.Bytes(trailing)...)
}

// built fixtures: NTP packets produced by the repository's own serializer; VRRP packets built by hand
// (the layer has no serializer).
func built(r *lib.Rand, fx *fixtures) {
	ser := func(ls ...gopacket.SerializableLayer) (out []byte) {
		defer func() { // a panicking serializer must not kill the generator: the executor's monitors report it
			if recover() != nil {
				out = nil
			}
		}()
		b := gopacket.NewSerializeBuffer()
		if err := gopacket.SerializeLayers(b, gopacket.SerializeOptions{FixLengths: true, ComputeChecksums: true}, ls...); err != nil {
			return nil
		}
		return append([]byte(nil), b.Bytes()...)
	}
	ntp := func(li, vn, mode int, ext int) *layers.NTP {
		return &layers.NTP{LeapIndicator: layers.NTPLeapIndicator(li), Version: layers.NTPVersion(vn), Mode: layers.NTPMode(mode),
			Stratum: layers.NTPStratum(r.Intn(17)), Poll: layers.NTPLog2Seconds(r.Intn(18)), Precision: layers.NTPLog2Seconds(-r.Intn(30)),
			RootDelay: layers.NTPFixed16Seconds(r.U64()), RootDispersion: layers.NTPFixed16Seconds(r.U64()), ReferenceID: layers.NTPReferenceID(r.U64()),
			ReferenceTimestamp: layers.NTPTimestamp(r.U64()), OriginTimestamp: layers.NTPTimestamp(r.U64()),
			ReceiveTimestamp: layers.NTPTimestamp(r.U64()), TransmitTimestamp: layers.NTPTimestamp(r.U64()), ExtensionBytes: r.Bytes(ext)}
	}
	for _, ext := range []int{0, 1, 4, 12, 16, 20, 24, 28, 40, 100} { // 20 = key id + MD5 digest, 24 = key id + SHA1, 16.. = extension fields
		fx.ntp = append(fx.ntp, ser(ntp(0, 4, 3, ext)), ser(ntp(3, 3, 4, ext)), ser(ntp(r.Intn(4), r.Intn(8), r.Intn(8), ext)))
	}
	fx.ntp = append(fx.ntp, ser(ntp(3, 7, 7, 0)), ser(ntp(0, 0, 0, 0)), ser(ntp(1, 4, 6, 468)))
	fx.ntp = append(fx.ntp, append(make([]byte, 48), r.Bytes(3)...), append(bytesOf(0xff, 48), 0xff))

	for _, n := range []int{1, 2, 3, 7, 20, 254, 255} {
		for _, tr := range []int{0, 8, 1} {
			fx.vrrp = append(fx.vrrp, vrrpBytes(0x21, byte(r.Intn(256)), 100, byte(n), 0, 1, uint16(r.Intn(65536)), n, tr, r))
		}
	}
	fx.vrrp = append(fx.vrrp, vrrpBytes(0x31, 1, 255, 1, 1, 1, 0xffff, 1, 0, r)) // "version 3"
	fx.vrrp = append(fx.vrrp, vrrpBytes(0x21, 1, 0, 1, 2, 255, 0, 1, 8, r))
	fx.vrrp = append(fx.vrrp, vrrpBytes(0xf1, 255, 255, 2, 255, 255, 0xffff, 2, 0, r))
}

func bytesOf(v byte, n int) []byte {
	b := make([]byte, n)
	for i := range b {
		b[i] = v
	}
	return b
}

func hx(b []byte) string { return lib.Hex(b) }

func setByte(b []byte, off int, v int) []byte {
	c := append([]byte(nil), b...)
	if off < len(c) {
		c[off] = byte(v)
	}
	return c
}

// ---------------------------------------------------------------- generator

func gen(r *lib.Rand, tier string, emit func(string)) {
	thorough := tier == "thorough"
	emit("reset")
	emit("lntp strtab")

	fx := &fixtures{}
	built(r, fx)
	harvest(fx)
	for _, k := range kinds { // drop fixtures the (possibly broken) serializers could not build; never leave a kind empty
		var keep [][]byte
		for _, f := range fx.of(k) {
			if len(f) >= 4 {
				keep = append(keep, f)
			}
		}
		if k == "ntp" {
			if len(keep) == 0 {
				keep = [][]byte{append([]byte{0x23, 2, 6, 0xec}, make([]byte, 44)...)}
			}
			fx.ntp = keep
		} else {
			if len(keep) == 0 {
				keep = [][]byte{{0x21, 1, 100, 1, 0, 1, 0xba, 0x52, 192, 168, 0, 1}}
			}
			fx.vrrp = keep
		}
	}
	foreignOf := func(n int) []byte { return r.Bytes(n) }
	for _, k := range kinds {
		fs := fx.of(k)
		for i := len(fs) - 1; i > 0; i-- { // seeded shuffle: different seeds favour different fixtures
			j := r.Intn(i + 1)
			fs[i], fs[j] = fs[j], fs[i]
		}
	}
	lim := func(n, quick int) int {
		if !thorough && n > quick {
			return quick
		}
		return n
	}

	limC := func(quick, thor int) int {
		if thorough {
			return thor
		}
		return quick
	}

	// A. every fixture through every decode path
	for _, k := range kinds {
		fs := fx.of(k)
		for i := 0; i < lim(len(fs), 60); i++ {
			f := fs[i]
			emit("reset")
			emit(fmt.Sprintf("lntp dec %s 0 - %s", k, hx(f)))
			n := 1 + r.Intn(40)
			emit(fmt.Sprintf("lntp dec %s %d %s %s", k, n, hx(foreignOf(n)), hx(f)))
			emit(fmt.Sprintf("lntp pb %s %s", k, hx(f)))
			emit(fmt.Sprintf("lntp pkt %s copy 0 - %s", k, hx(f)))
			emit(fmt.Sprintf("lntp pkt %s nocopy %d %s %s", k, n, hx(foreignOf(n)), hx(f)))
			emit(fmt.Sprintf("lntp pkt %s lazy 0 - %s", k, hx(f)))
			emit(fmt.Sprintf("lntp dlp %s %s", k, hx(f)))
			emit(fmt.Sprintf("lntp dlp other %s", hx(f)))
			emit(fmt.Sprintf("lntp dlp zero %s", hx(f)))
			emit(fmt.Sprintf("lntp rtdec ntp %s", hx(f)))
			// the same bytes as the other type of this engine
			for _, k2 := range kinds {
				if k2 != k {
					emit(fmt.Sprintf("lntp dec %s %d %s %s", k2, n, hx(foreignOf(n)), hx(f)))
					emit(fmt.Sprintf("lntp dlp %s %s", k2, hx(f)))
				}
			}
		}
	}

	// B. truncations 0…len of each fixture (all for short ones, head and tail otherwise), with spare capacity
	for _, k := range kinds {
		fs := fx.of(k)
		for i := 0; i < lim(len(fs), 30); i++ {
			f := fs[i]
			emit("reset")
			for n := 0; n <= len(f); n++ {
				if !(n <= 64 || n >= len(f)-2 || (thorough && len(f) <= 600) || r.Chance(3)) {
					continue
				}
				t := f[:n]
				c := r.Intn(60)
				emit(fmt.Sprintf("lntp dec %s %d %s %s", k, c, hx(foreignOf(c)), hx(t)))
				if n <= 12 || (n >= 46 && n <= 50) || r.Chance(20) {
					emit(fmt.Sprintf("lntp pb %s %s", k, hx(t)))
					emit(fmt.Sprintf("lntp pkt %s nocopy %d %s %s", k, c, hx(foreignOf(c)), hx(t)))
					emit(fmt.Sprintf("lntp pkt %s copy 0 - %s", k, hx(t)))
					emit(fmt.Sprintf("lntp redlp %s %s", k, hx(t)))
					emit(fmt.Sprintf("lntp redec %s %s", k, hx(t)))
				}
			}
		}
	}

	// C. single-field mutations to boundary values
	// NTP: every value of each of the first four bytes (LI/VN/Mode bit packing, Stratum, signed Poll and Precision);
	// boundary values of every other header byte
	for i := 0; i < len(fx.ntp) && i < limC(3, 8); i++ {
		f := fx.ntp[i]
		if len(f) < 48 {
			continue
		}
		emit("reset")
		for off := 0; off < 4; off++ {
			for v := 0; v < 256; v++ {
				if !thorough && i > 0 && !(v < 4 || v > 251 || v == 0x7f || v == 0x80 || r.Chance(10)) {
					continue
				}
				m := setByte(f, off, v)
				emit("lntp redec ntp " + hx(m))
				emit("lntp rtdec ntp " + hx(m))
			}
		}
		for off := 4; off < 48; off++ {
			for _, v := range []int{0, 1, 0x7f, 0x80, 0xff} {
				m := setByte(f, off, v)
				emit("lntp redec ntp " + hx(m))
				if r.Chance(30) {
					emit("lntp rtdec ntp " + hx(m))
				}
			}
		}
	}
	// NTP: all-zero / all-ones fields, lengths around 48 and around 48+20
	emit("reset")
	for _, n := range []int{47, 48, 49, 51, 52, 64, 67, 68, 69, 72} {
		for _, v := range []byte{0x00, 0xff, 0x80, 0x7f} {
			m := bytesOf(v, n)
			emit("lntp redec ntp " + hx(m))
			emit("lntp rtdec ntp " + hx(m))
			emit("lntp pb ntp " + hx(m))
		}
	}
	// VRRP: every value of byte 0 (version/type nibbles) and of the count byte, against inputs of several lengths
	for i := 0; i < len(fx.vrrp) && i < limC(4, 10); i++ {
		f := fx.vrrp[i]
		if len(f) < 8 {
			continue
		}
		emit("reset")
		for v := 0; v < 256; v++ {
			m := setByte(f, 0, v)
			emit("lntp redec vrrp " + hx(m))
			if v&0x0f == 1 || r.Chance(10) {
				emit("lntp pb vrrp " + hx(m))
				emit("lntp redlp vrrp " + hx(m))
			}
		}
		avail := (len(f) - 8) / 4
		for v := 0; v < 256; v++ {
			if !thorough && !(v <= 8 || v >= 250 || (v >= avail-2 && v <= avail+2) || r.Chance(10)) {
				continue
			}
			m := setByte(f, 3, v)
			c := r.Intn(40)
			emit(fmt.Sprintf("lntp dec vrrp %d %s %s", c, hx(foreignOf(c)), hx(m)))
			emit("lntp redec vrrp " + hx(m))
			if r.Chance(30) {
				emit("lntp pb vrrp " + hx(m))
				emit(fmt.Sprintf("lntp pkt vrrp nocopy %d %s %s", c, hx(foreignOf(c)), hx(m)))
				emit("lntp redlp vrrp " + hx(m))
			}
		}
		for off := 1; off < 8; off++ {
			if off == 3 {
				continue
			}
			for _, v := range []int{0, 1, 2, 3, 0x7f, 0x80, 0xff} {
				emit("lntp redec vrrp " + hx(setByte(f, off, v)))
			}
		}
	}
	// VRRP: the (count, length) grid around the exact length 8+4*count — with spare capacity that WOULD cover the
	// announced addresses (a decoder checking against cap instead of len reads foreign bytes)
	{
		emit("reset")
		counts := []int{0, 1, 2, 3, 4, 5, 16, 63, 64, 127, 128, 200, 254, 255}
		if thorough {
			counts = nil
			for c := 0; c < 256; c++ {
				counts = append(counts, c)
			}
		}
		for _, c := range counts {
			need := 8 + 4*c
			for _, n := range []int{need - 5, need - 4, need - 1, need, need + 1, need + 8} {
				if n < 8 {
					continue
				}
				d := vrrpBytes(0x21, 7, 100, byte(c), 0, 1, 0x1234, 0, 0, r)
				d = append(d, r.Bytes(n-8)...)
				sp := 0
				if n < need {
					sp = need - n + r.Intn(4)
				}
				emit(fmt.Sprintf("lntp dec vrrp %d %s %s", sp, hx(foreignOf(sp)), hx(d)))
				emit("lntp redec vrrp " + hx(d))
				if r.Chance(40) {
					emit(fmt.Sprintf("lntp pkt vrrp nocopy %d %s %s", sp, hx(foreignOf(sp)), hx(d)))
					emit("lntp redlp vrrp " + hx(d))
				}
			}
		}
	}

	// D. stale-state sequences: ordered pairs…quintuples into the same objects (direct and via the parser)
	nseq := 200
	if thorough {
		nseq = 4000
	}
	pick := func(k string) []byte {
		fs := fx.of(k)
		f := fs[r.Intn(len(fs))]
		switch r.Intn(9) {
		case 0:
			return f[:r.Intn(len(f)+1)] // truncated (maybe an error)
		case 1:
			if k == "vrrp" && len(f) >= 8 {
				return setByte(f, 3, r.Pick([]int{0, 1, 2, 5, 255})) // count changed: error paths 2 and 3, shorter/longer lists
			}
			return f[:r.Intn(49)%(len(f)+1)]
		case 2:
			if k == "vrrp" && len(f) >= 8 {
				return setByte(f, 0, r.Intn(256)) // type nibble: first late error path
			}
			return f[:r.Intn(4)]
		case 3:
			return r.Bytes(r.Intn(60))
		case 4:
			if k == "ntp" && len(f) >= 48 {
				return f[:48+r.Intn(len(f)-47)] // shorter extension bytes
			}
		}
		return f
	}
	for c := 0; c < nseq; c++ {
		emit("reset")
		n := 2 + r.Intn(4)
		for i := 0; i < n; i++ {
			k := kinds[r.Intn(2)]
			f := pick(k)
			if len(f) > 400 {
				f = f[:400]
			}
			emit(fmt.Sprintf("lntp redec %s %s", k, hx(f)))
			emit(fmt.Sprintf("lntp redlp %s %s", k, hx(f)))
		}
	}

	// E. serialisation (NTP): in-range and out-of-range layer values, all four option sets, buffer histories
	psizes := []int{0, 0, 0, 1, 2, 3, 17, 101, 1480, 1499, 1500, 1501, 1520}
	hists := []string{"fresh", "dirty165", "dirty90", "dirty255", "sized0", "sized8", "sized60", "sized3000"}
	nser := 500
	if thorough {
		nser = 15000
	}
	payloadTok := func(n int) string {
		if n > 200 && r.Chance(70) {
			return fmt.Sprintf("z%dx%02x", n, r.Intn(256))
		}
		return hx(r.Bytes(n))
	}
	u64 := func() uint64 {
		switch r.Intn(6) {
		case 0:
			return 0
		case 1:
			return ^uint64(0)
		case 2:
			return 1 << uint(r.Intn(64))
		}
		return r.U64()
	}
	u32 := func() uint64 { return u64() & 0xffffffff }
	i8 := func() int {
		switch r.Intn(5) {
		case 0:
			return r.Pick([]int{-128, -1, 0, 127})
		}
		return r.Intn(256) - 128
	}
	ntpFields := func() string {
		li, vn, mode := r.Intn(4), r.Intn(8), r.Intn(8)
		if r.Chance(20) { // out of range: silently masked by the serializer
			switch r.Intn(3) {
			case 0:
				li = 4 + r.Intn(252)
			case 1:
				vn = 8 + r.Intn(248)
			case 2:
				mode = 8 + r.Intn(248)
			}
		}
		if r.Chance(10) {
			li, vn, mode = r.Pick([]int{0, 3}), r.Pick([]int{0, 7}), r.Pick([]int{0, 7})
		}
		ext := r.Pick([]int{0, 0, 0, 1, 4, 12, 16, 20, 24, 28, 100, r.Intn(64), 1500})
		return fmt.Sprintf("%d %d %d %d %d %d %d %d %d %d %d %d %d %s", li, vn, mode, r.Intn(256), i8(), i8(), u32(), u32(), u32(), u64(), u64(), u64(), u64(), hx(r.Bytes(ext)))
	}
	for c := 0; c < nser; c++ {
		emit("reset")
		n := r.Pick(psizes)
		if r.Chance(15) {
			n = r.Intn(1600)
		}
		nf := ntpFields()
		emit(fmt.Sprintf("lntp ser ntp %d %d %s %s %s", r.Intn(2), r.Intn(2), hists[r.Intn(len(hists))], nf, payloadTok(n)))
		if r.Chance(80) {
			emit(fmt.Sprintf("lntp rt ntp %s -", nf))
		}
		if r.Chance(25) {
			emit(fmt.Sprintf("lntp rt ntp %s %s", nf, payloadTok(n)))
		}
	}
	// every {fix,csum} x every history on fixed shapes
	for _, shape := range []string{
		"0 4 3 0 6 -20 0 0 0 0 0 0 15654936612925431808 -",                              // a client request
		"3 7 7 255 127 -128 4294967295 4294967295 4294967295 18446744073709551615 18446744073709551615 18446744073709551615 18446744073709551615 ffffffff", // every field at its maximum
		"0 4 4 2 10 -24 1234 5678 3232235521 1 2 3 4 0000000100112233445566778899aabbccddeeff", // key id + 16-byte digest
		"255 255 255 0 0 0 0 0 0 0 0 0 0 -",                                                // bit fields out of range
	} {
		for _, n := range []int{0, 5, 1500} {
			for fix := 0; fix < 2; fix++ {
				for cs := 0; cs < 2; cs++ {
					emit("reset")
					for _, h := range hists {
						emit(fmt.Sprintf("lntp ser ntp %d %d %s %s %s", fix, cs, h, shape, payloadTok(n)))
					}
				}
			}
		}
	}
	// exhaustive first byte: every (LI, VN, Mode) in range
	emit("reset")
	for li := 0; li < 4; li++ {
		for vn := 0; vn < 8; vn++ {
			for mode := 0; mode < 8; mode++ {
				emit(fmt.Sprintf("lntp rt ntp %d %d %d 1 %d %d 1 2 3 4 5 6 7 - -", li, vn, mode, i8(), i8()))
			}
		}
	}
	// every Poll value
	emit("reset")
	for v := -128; v < 128; v++ {
		emit(fmt.Sprintf("lntp rt ntp 0 4 3 1 %d %d 1 2 3 4 5 6 7 aa -", v, -v-1))
	}
	// payloads / extension bytes beyond 64 KiB (no length field in the header: every size is allowed)
	big := []int{65535, 65536, 65537, 70000}
	if !thorough {
		big = []int{65537}
	}
	for _, n := range big {
		emit("reset")
		emit(fmt.Sprintf("lntp ser ntp 1 1 dirty165 0 4 3 0 6 -20 0 0 0 0 0 0 1 aabb z%dx5a", n))
		emit(fmt.Sprintf("lntp rt ntp 0 4 3 0 6 -20 0 0 0 0 0 0 1 aabb z%dx5a", n))
		emit(fmt.Sprintf("lntp rtdec ntp %s", hx(append(make([]byte, 48), bytesOf(0x5a, n)...))))
	}

	// F. malformed stream: random bytes of every small length, as both types
	nmal := 300
	if thorough {
		nmal = 10000
	}
	for c := 0; c < nmal; c++ {
		emit("reset")
		n := r.Intn(80)
		if r.Chance(10) {
			n = r.Intn(1100)
		}
		d := r.Bytes(n)
		if n >= 8 && r.Chance(60) { // plausible VRRP: type 1, small count
			d[0] = d[0]&0xf0 | 1
			d[3] = byte(r.Intn(6))
		}
		sp := r.Intn(20)
		for _, k := range kinds {
			emit(fmt.Sprintf("lntp dec %s %d %s %s", k, sp, hx(foreignOf(sp)), hx(d)))
			emit(fmt.Sprintf("lntp dlp %s %s", k, hx(d)))
			if r.Chance(30) {
				emit(fmt.Sprintf("lntp pkt %s nocopy %d %s %s", k, sp, hx(foreignOf(sp)), hx(d)))
				emit(fmt.Sprintf("lntp pb %s %s", k, hx(d)))
			}
		}
		emit(fmt.Sprintf("lntp rtdec ntp %s", hx(d)))
	}
	// unparseable ops: both sides answer bad-op
	emit("reset")
	emit("lntp dec ntp x - 00")
	emit("lntp dec fddi 0 - 00")
	emit("lntp ser ntp 1 1 fresh 1 2 3")
	emit("lntp ser vrrp 1 1 fresh 1 2 3 4 5 6 7 8 9 10 11 12 13 - -")
	emit("lntp rt ntp 0 4 3 0 200 0 0 0 0 0 0 0 0 - -")
	emit("lntp rtdec vrrp 2101640100010000c0a80001")
	emit("lntp nonsense")
}
