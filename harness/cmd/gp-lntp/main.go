// gp-lntp: correspondence adapter + monitors for engine `lntp`
// (layers/ntp.go: NTP.DecodeFromBytes, SerializeTo, CanDecode, NextLayerType, Payload, decodeNTP;
// layers/vrrp.go: VRRPv2.DecodeFromBytes, CanDecode, NextLayerType, Payload, decodeVRRP, the two
// String methods; and the DecodingLayerParser over these two layers).
//
// Properties served: C19 (no panics), C05 (no stale state / capacity independence / packet path =
// preallocated path incl. the truncation flag), C06 (round trip, NTP), C07 (serializer totality,
// buffer independence, idempotence, NTP).  VRRPv2 has no SerializeTo; neither layer exposes a flow
// (C17 has no instance here).
package main

import (
	"bytes"
	"errors"
	"fmt"
	"os"
	"runtime/debug"
	"strings"

	"github.com/gopacket/gopacket"
	"github.com/gopacket/gopacket/layers"
	"verif/harness/lib"
)

// ---------------------------------------------------------------- state of one case

type codec interface {
	gopacket.DecodingLayer
	gopacket.Layer
}

var (
	cur     map[string]codec // objects re-used by `redec`
	pNtp    *layers.NTP      // objects owned by the DecodingLayerParsers
	pVrrp   *layers.VRRPv2
	parsers map[string]*gopacket.DecodingLayerParser
)

var kinds = []string{"ntp", "vrrp"}

func newObj(kind string) codec {
	switch kind {
	case "ntp":
		return &layers.NTP{}
	case "vrrp":
		return &layers.VRRPv2{}
	}
	return nil
}

func layerTypeOf(kind string) gopacket.LayerType {
	switch kind {
	case "ntp":
		return layers.LayerTypeNTP
	case "vrrp":
		return layers.LayerTypeVRRP
	case "other":
		return layers.LayerTypeEthernet // a type outside the parser's set
	}
	return gopacket.LayerTypeZero
}

func reset() {
	cur = map[string]codec{}
	for _, k := range kinds {
		cur[k] = newObj(k)
	}
	newParser()
}

func newParser() {
	pNtp, pVrrp = &layers.NTP{}, &layers.VRRPv2{}
	parsers = map[string]*gopacket.DecodingLayerParser{}
	for _, k := range []string{"ntp", "vrrp", "other", "zero"} {
		p := gopacket.NewDecodingLayerParser(layerTypeOf(k), pNtp, pVrrp)
		p.IgnorePanic = true // let panics through (C19: "a layer parser that lets panics through")
		parsers[k] = p
	}
}

type feedback struct{ truncated bool }

func (f *feedback) SetTruncated() { f.truncated = true }

func b01(b bool) string {
	if b {
		return "1"
	}
	return "0"
}

func render(l gopacket.Layer) string {
	switch l := l.(type) {
	case *layers.NTP:
		return fmt.Sprintf("li=%d vn=%d mode=%d stratum=%d poll=%d prec=%d rdelay=%d rdisp=%d refid=%d refts=%d orig=%d recv=%d xmit=%d ext=%s contents=%s payload=%s next=%d app=%s",
			uint8(l.LeapIndicator), uint8(l.Version), uint8(l.Mode), uint8(l.Stratum), int8(l.Poll), int8(l.Precision),
			uint32(l.RootDelay), uint32(l.RootDispersion), uint32(l.ReferenceID), uint64(l.ReferenceTimestamp),
			uint64(l.OriginTimestamp), uint64(l.ReceiveTimestamp), uint64(l.TransmitTimestamp), lib.Hex(l.ExtensionBytes),
			lib.Hex(l.LayerContents()), lib.Hex(l.LayerPayload()), int(l.NextLayerType()), lib.Hex(l.Payload()))
	case *layers.VRRPv2:
		ips := "none"
		if len(l.IPAddress) > 0 {
			xs := make([]string, len(l.IPAddress))
			for i, ip := range l.IPAddress {
				xs[i] = lib.Hex(ip)
			}
			ips = strings.Join(xs, ",")
		}
		return fmt.Sprintf("ver=%d type=%d vrid=%d prio=%d count=%d auth=%d adv=%d cksum=%d ips=%s contents=%s payload=%s next=%d app=%s",
			l.Version, uint8(l.Type), l.VirtualRtrID, l.Priority, l.CountIPAddr, uint8(l.AuthType), l.AdverInt, l.Checksum, ips,
			lib.Hex(l.LayerContents()), lib.Hex(l.LayerPayload()), int(l.NextLayerType()), lib.Hex(l.Payload()))
	}
	return "?"
}

// differingField names the first public field (incl. Contents/Payload) in which two layers differ.
func differingField(a, b gopacket.Layer) string {
	switch x := a.(type) {
	case *layers.NTP:
		y, ok := b.(*layers.NTP)
		switch {
		case !ok:
			return "type"
		case x.LeapIndicator != y.LeapIndicator:
			return "LeapIndicator"
		case x.Version != y.Version:
			return "Version"
		case x.Mode != y.Mode:
			return "Mode"
		case x.Stratum != y.Stratum:
			return "Stratum"
		case x.Poll != y.Poll:
			return "Poll"
		case x.Precision != y.Precision:
			return "Precision"
		case x.RootDelay != y.RootDelay:
			return "RootDelay"
		case x.RootDispersion != y.RootDispersion:
			return "RootDispersion"
		case x.ReferenceID != y.ReferenceID:
			return "ReferenceID"
		case x.ReferenceTimestamp != y.ReferenceTimestamp:
			return "ReferenceTimestamp"
		case x.OriginTimestamp != y.OriginTimestamp:
			return "OriginTimestamp"
		case x.ReceiveTimestamp != y.ReceiveTimestamp:
			return "ReceiveTimestamp"
		case x.TransmitTimestamp != y.TransmitTimestamp:
			return "TransmitTimestamp"
		case !bytes.Equal(x.ExtensionBytes, y.ExtensionBytes):
			return "ExtensionBytes"
		case !bytes.Equal(x.Contents, y.Contents):
			return "Contents"
		case !bytes.Equal(x.BaseLayer.Payload, y.BaseLayer.Payload):
			return "Payload"
		}
	case *layers.VRRPv2:
		y, ok := b.(*layers.VRRPv2)
		switch {
		case !ok:
			return "type"
		case x.Version != y.Version:
			return "Version"
		case x.Type != y.Type:
			return "Type"
		case x.VirtualRtrID != y.VirtualRtrID:
			return "VirtualRtrID"
		case x.Priority != y.Priority:
			return "Priority"
		case x.CountIPAddr != y.CountIPAddr:
			return "CountIPAddr"
		case x.AuthType != y.AuthType:
			return "AuthType"
		case x.AdverInt != y.AdverInt:
			return "AdverInt"
		case x.Checksum != y.Checksum:
			return "Checksum"
		case len(x.IPAddress) != len(y.IPAddress):
			return "IPAddress"
		case !bytes.Equal(x.Contents, y.Contents):
			return "Contents"
		case !bytes.Equal(x.BaseLayer.Payload, y.BaseLayer.Payload):
			return "Payload"
		}
		for i := range x.IPAddress {
			if !bytes.Equal(x.IPAddress[i], y.IPAddress[i]) {
				return "IPAddress"
			}
		}
	default:
		return "type"
	}
	return ""
}

// inBuf places data at the start of a backing array with `len(foreign)` spare bytes of capacity holding
// the foreign bytes, and returns the slice data[:len] with cap = len + len(foreign).
func inBuf(data, foreign []byte) []byte {
	back := make([]byte, len(data)+len(foreign))
	copy(back, data)
	copy(back[len(data):], foreign)
	return back[:len(data)]
}

func exact(data []byte) []byte { // cap == len
	c := make([]byte, len(data))
	copy(c, data)
	return c[:len(data):len(data)]
}

func isOurSite(site string) bool {
	return strings.HasPrefix(site, "layers/ntp.go") || strings.HasPrefix(site, "layers/vrrp.go") ||
		strings.HasPrefix(site, "layers/base.go")
}

// protect is lib.Protect with a panic-site extraction that also works when the repository under test
// is a scratch tree (VERIF_REPO): the site is the top-most stack frame inside the repository.
var lastSite, lastMsg string

func protect(f func() string) (reply string, panicked bool) {
	defer func() {
		if v := recover(); v != nil {
			lastMsg = fmt.Sprint(v)
			lastSite = siteOf(string(debug.Stack()))
			reply = "panic " + lib.PanicKind(v)
			panicked = true
		}
	}()
	return f(), false
}

func siteOf(stack string) string {
	root := os.Getenv("VERIF_REPO")
	if root == "" {
		root = "/repo"
	}
	root = strings.TrimRight(root, "/") + "/"
	for _, l := range strings.Split(stack, "\n") {
		l = strings.TrimSpace(l)
		if !strings.Contains(l, ".go:") {
			continue
		}
		f := strings.Fields(l)[0]
		if strings.HasPrefix(f, root) {
			return f[len(root):]
		}
		if j := strings.LastIndex(f, "gopacket/"); j >= 0 && !strings.Contains(f, "/verif/") {
			return f[j+len("gopacket/"):]
		}
	}
	return "?"
}

// guarded runs f; a panic is reported as a C19 finding with its site and returned as "panic <kind>".
func guarded(what string, f func() string) string {
	reply, panicked := protect(f)
	if panicked {
		lib.Finding("C19", "lntp:panic:"+lastSite, what+" panicked: "+lastMsg)
		lib.Stat("panic")
	}
	return reply
}

// ---------------------------------------------------------------- decode ops

// decInto: DecodeFromBytes into obj; the reply renders the receiver on an error too (what the failed call left).
func decInto(obj codec, data []byte) (string, error, bool) {
	fb := &feedback{}
	err := obj.DecodeFromBytes(data, fb)
	if err != nil {
		return "err trunc=" + b01(fb.truncated) + " | " + render(obj), err, fb.truncated
	}
	return "ok " + render(obj) + " trunc=" + b01(fb.truncated), nil, fb.truncated
}

func statDec(kind string, obj codec, data []byte, err error, trunc bool) {
	if err != nil {
		switch {
		case kind == "vrrp" && len(data) >= 8 && data[0]&0x0f != 1:
			lib.Stat("vrrp:dec:err-type")
		case kind == "vrrp" && len(data) >= 8 && data[3] == 0:
			lib.Stat("vrrp:dec:err-count0")
		case kind == "vrrp" && len(data) >= 8:
			lib.Stat("vrrp:dec:err-short-for-count")
		default:
			lib.Stat(kind + ":dec:err-short")
		}
		return
	}
	lib.Stat(kind + ":dec:ok")
	lib.Nontrivial()
	switch l := obj.(type) {
	case *layers.NTP:
		switch n := len(l.ExtensionBytes); {
		case n == 0:
			lib.Stat("ntp:dec:ext-0")
		case n == 20:
			lib.Stat("ntp:dec:ext-20(keyid+digest)")
		default:
			lib.Stat("ntp:dec:ext-other")
		}
		if l.Poll < 0 || l.Precision < 0 {
			lib.Stat("ntp:dec:negative-log2")
		}
	case *layers.VRRPv2:
		switch n := len(l.IPAddress); {
		case n == 1:
			lib.Stat("vrrp:dec:1-address")
		case n == 255:
			lib.Stat("vrrp:dec:255-addresses")
		default:
			lib.Stat("vrrp:dec:n-addresses")
		}
		if len(data) > 8+4*len(l.IPAddress) {
			lib.Stat("vrrp:dec:trailing-auth-data")
		}
	}
}

func opDec(kind string, extra int, foreign, data []byte) string {
	if len(foreign) != extra || newObj(kind) == nil {
		return "bad-op"
	}
	return guarded(kind+".DecodeFromBytes", func() string {
		obj := newObj(kind)
		cur[kind] = obj
		reply, err, tr := decInto(obj, inBuf(data, foreign))
		statDec(kind, obj, data, err, tr)
		if got := obj.CanDecode(); got != gopacket.LayerClass(layerTypeOf(kind)) {
			lib.Finding("C05", "lntp:candecode:"+kind, "CanDecode is not the layer's own type")
		}
		// C05/C04 oracle: the same bytes in a buffer with cap == len
		ref := newObj(kind)
		refReply, _, _ := decInto(ref, exact(data))
		if reply != refReply {
			lib.Finding("C05", "lntp:cap-dependent", kind+" decode depends on spare capacity / foreign bytes: "+reply+" vs "+refReply)
		}
		if extra > 0 {
			lib.Stat(kind + ":dec:spare-cap")
		}
		return reply
	})
}

func opRedec(kind string, data []byte) string {
	if newObj(kind) == nil {
		return "bad-op"
	}
	return guarded(kind+".DecodeFromBytes", func() string {
		obj := cur[kind]
		reply, err, tr := decInto(obj, exact(data))
		statDec(kind, obj, data, err, tr)
		lib.Stat(kind + ":redec")
		fresh := newObj(kind)
		fb := &feedback{}
		ferr := fresh.DecodeFromBytes(exact(data), fb)
		if (ferr != nil) != (err != nil) {
			lib.Finding("C05", "lntp:stale:error", kind+": reused object and fresh object disagree on the error")
		} else {
			if err == nil {
				if f := differingField(obj, fresh); f != "" {
					lib.Finding("C05", "lntp:stale:"+f, kind+"."+f+" differs between a reused and a fresh object")
				}
			}
			if fb.truncated != tr {
				lib.Finding("C05", "lntp:stale:Truncated", kind+": truncation flag differs between a reused and a fresh object")
			}
		}
		return reply
	})
}

// ---------------------------------------------------------------- serialize ops (NTP)

func mkBuffer(hist string) (gopacket.SerializeBuffer, bool) {
	switch {
	case hist == "fresh":
		return gopacket.NewSerializeBuffer(), true
	case strings.HasPrefix(hist, "dirty"):
		v, ok := lib.Atoi(hist[5:])
		if !ok || v < 0 || v > 255 {
			return nil, false
		}
		b := gopacket.NewSerializeBuffer()
		s, _ := b.AppendBytes(64)
		for i := range s {
			s[i] = byte(v)
		}
		s, _ = b.PrependBytes(64)
		for i := range s {
			s[i] = byte(v)
		}
		b.Clear()
		return b, true
	case strings.HasPrefix(hist, "sized"):
		n, ok := lib.Atoi(hist[5:])
		if !ok || n < 0 || n >= 100000 {
			return nil, false
		}
		return gopacket.NewSerializeBufferExpectedSize(n, n), true
	}
	return nil, false
}

func parsePayload(s string) ([]byte, bool) {
	if strings.HasPrefix(s, "z") {
		parts := strings.Split(s[1:], "x")
		if len(parts) != 2 {
			return nil, false
		}
		n, ok := lib.Atoi(parts[0])
		v, ok2 := lib.UnHex(parts[1])
		if !ok || !ok2 || len(v) != 1 || n < 0 || n > 200000 {
			return nil, false
		}
		return bytes.Repeat(v, n), true
	}
	return lib.UnHex(s)
}

func parseBool(s string) (bool, bool) {
	switch s {
	case "1":
		return true, true
	case "0":
		return false, true
	}
	return false, false
}

// decimal unsigned below 2^bits
func atouBits(s string, bits uint) (uint64, bool) {
	if len(s) == 0 || s[0] == '+' || s[0] == '-' {
		return 0, false
	}
	n, ok := lib.Atou(s)
	if !ok || (bits < 64 && n >= 1<<bits) {
		return 0, false
	}
	return n, true
}

func atoiInt8(s string) (int8, bool) {
	if len(s) == 0 || s[0] == '+' {
		return 0, false
	}
	n, ok := lib.Atoi(s)
	if !ok || n < -128 || n > 127 || s == "-0" {
		return 0, false
	}
	return int8(n), true
}

func putPayload(b gopacket.SerializeBuffer, p []byte) {
	gopacket.Payload(p).SerializeTo(b, gopacket.SerializeOptions{})
}

// serOnce serialises layer l over payload p into buffer b; returns (bytes, error?) and converts a
// panic into a C07 finding.
func serOnce(l gopacket.SerializableLayer, b gopacket.SerializeBuffer, p []byte, opts gopacket.SerializeOptions) (out []byte, failed bool, panicked bool) {
	reply, pk := protect(func() string {
		putPayload(b, p)
		if err := l.SerializeTo(b, opts); err != nil {
			return "err"
		}
		return "ok"
	})
	if pk {
		lib.Finding("C07", "lntp:ser-panic:"+lastSite, "SerializeTo panicked: "+lastMsg)
		return nil, false, true
	}
	if reply == "err" {
		return nil, true, false
	}
	return append([]byte(nil), b.Bytes()...), false, false
}

// serMonitors: the C07 oracles on the real code for one (layer, payload, options).
// mk must return a NEW layer object with the same public field values on every call.
func serMonitors(name string, mk func() gopacket.SerializableLayer, p []byte, opts gopacket.SerializeOptions, got []byte, gotErr bool) {
	// (a) buffer independence: fresh, dirty 0xA5 / 0x5A, pre-sized
	for _, h := range []string{"fresh", "dirty165", "dirty90", "sized7", "sized2000"} {
		b, _ := mkBuffer(h)
		out, failed, pk := serOnce(mk(), b, p, opts)
		if pk {
			return
		}
		if failed != gotErr || (!failed && !bytes.Equal(out, got)) {
			lib.Finding("C07", "lntp:dirty-buffer", name+": output differs between buffer histories ("+h+")")
			return
		}
	}
	// (b) idempotence: the same (possibly mutated) object again over the same payload
	l := mk()
	o1, f1, pk := serOnce(l, gopacket.NewSerializeBuffer(), p, opts)
	if pk {
		return
	}
	o2, f2, pk := serOnce(l, gopacket.NewSerializeBuffer(), p, opts)
	if pk {
		return
	}
	if f1 != f2 || !bytes.Equal(o1, o2) {
		what := "bytes differ"
		if f1 != f2 {
			what = fmt.Sprintf("first call error=%v, second call error=%v", f1, f2)
		}
		lib.Finding("C07", "lntp:not-idempotent", name+": serialising the same layer twice differs: "+what)
	}
}

// parseNtp: li vn mode stratum poll prec rdelay rdisp refid refts orig recv xmit ext
func parseNtp(a []string) (func() *layers.NTP, bool) {
	if len(a) != 14 {
		return nil, false
	}
	li, ok1 := atouBits(a[0], 8)
	vn, ok2 := atouBits(a[1], 8)
	mode, ok3 := atouBits(a[2], 8)
	st, ok4 := atouBits(a[3], 8)
	poll, ok5 := atoiInt8(a[4])
	prec, ok6 := atoiInt8(a[5])
	rde, ok7 := atouBits(a[6], 32)
	rdi, ok8 := atouBits(a[7], 32)
	rid, ok9 := atouBits(a[8], 32)
	rts, ok10 := atouBits(a[9], 64)
	ots, ok11 := atouBits(a[10], 64)
	cts, ok12 := atouBits(a[11], 64)
	xts, ok13 := atouBits(a[12], 64)
	ext, ok14 := lib.UnHex(a[13])
	if !(ok1 && ok2 && ok3 && ok4 && ok5 && ok6 && ok7 && ok8 && ok9 && ok10 && ok11 && ok12 && ok13 && ok14) {
		return nil, false
	}
	return func() *layers.NTP {
		return &layers.NTP{LeapIndicator: layers.NTPLeapIndicator(li), Version: layers.NTPVersion(vn), Mode: layers.NTPMode(mode),
			Stratum: layers.NTPStratum(st), Poll: layers.NTPLog2Seconds(poll), Precision: layers.NTPLog2Seconds(prec),
			RootDelay: layers.NTPFixed16Seconds(rde), RootDispersion: layers.NTPFixed16Seconds(rdi), ReferenceID: layers.NTPReferenceID(rid),
			ReferenceTimestamp: layers.NTPTimestamp(rts), OriginTimestamp: layers.NTPTimestamp(ots), ReceiveTimestamp: layers.NTPTimestamp(cts),
			TransmitTimestamp: layers.NTPTimestamp(xts), ExtensionBytes: append([]byte{}, ext...)}
	}, true
}

func opSer(kind string, a []string) string {
	// fix csum hist <14 fields> payload
	if kind != "ntp" || len(a) != 18 {
		return "bad-op"
	}
	fix, ok1 := parseBool(a[0])
	csum, ok2 := parseBool(a[1])
	b, ok3 := mkBuffer(a[2])
	p, ok4 := parsePayload(a[17])
	f, ok5 := parseNtp(a[3:17])
	if !(ok1 && ok2 && ok3 && ok4 && ok5) {
		return "bad-op"
	}
	opts := gopacket.SerializeOptions{FixLengths: fix, ComputeChecksums: csum}
	mk := func() gopacket.SerializableLayer { return f() }
	l := mk()
	out, failed, pk := serOnce(l, b, p, opts)
	if pk {
		return "panic " + lib.PanicKind(lastMsg)
	}
	serMonitors(kind, mk, p, opts, out, failed)
	if a[2] != "fresh" {
		lib.Stat("ser:buf:" + strings.TrimRight(a[2], "0123456789"))
	}
	lib.Stat(fmt.Sprintf("ser:opts:fix%s-csum%s", a[0], a[1]))
	if failed {
		lib.Stat(kind + ":ser:err")
		return "err"
	}
	lib.Stat(kind + ":ser:ok")
	if len(p) > 0 {
		lib.Stat(kind + ":ser:over-payload")
	}
	lib.Nontrivial()
	return "ok bytes=" + lib.Hex(out)
}

// ---------------------------------------------------------------- round trip (NTP)

var rtOpts = gopacket.SerializeOptions{FixLengths: true, ComputeChecksums: true}

func copyNtp(x *layers.NTP) *layers.NTP {
	c := *x
	c.ExtensionBytes = append([]byte{}, x.ExtensionBytes...)
	return &c
}

// wfNtp: is the layer inside the round-trip claim (the three bit fields fit their widths; every other
// field's Go type is its range).
func wfNtp(x *layers.NTP) bool { return x.LeapIndicator <= 3 && x.Version <= 7 && x.Mode <= 7 }

// publicDiff compares the public protocol fields only (≈ of the property: Contents/Payload are ignored).
func publicDiff(a, b *layers.NTP) string {
	ca, cb := copyNtp(a), copyNtp(b)
	ca.BaseLayer, cb.BaseLayer = layers.BaseLayer{}, layers.BaseLayer{}
	return differingField(ca, cb)
}

// rt: SerializeLayers(layer, payload) with fix+csum, decode, serialise the decoded layer again.
// NTP is a leaf (application) layer: NextLayerType is Zero, LayerPayload/Payload() are always empty and
// SerializeTo appends the extension bytes BEHIND whatever the buffer holds, so the round-trip claim of the
// property is the one over the empty payload.  Over a non-empty payload p the bytes are header ++ p ++ ext
// and decode as ExtensionBytes = p ++ ext: that weaker, exact statement is checked as well.
func rt(l *layers.NTP, p []byte, decoded bool) string {
	wf, want := wfNtp(l), copyNtp(l)
	buf := gopacket.NewSerializeBuffer()
	if err := gopacket.SerializeLayers(buf, rtOpts, l, gopacket.Payload(p)); err != nil {
		lib.Stat("ntp:rt:ser-err")
		if wf {
			lib.Finding("C06", "lntp:roundtrip:ser-error", "ntp: serialising a well-formed layer fails")
		}
		return "ser-err"
	}
	out := append([]byte(nil), buf.Bytes()...)
	d := &layers.NTP{}
	dreply, derr, dtr := decInto(d, exact(out))
	again := "none"
	if derr == nil {
		buf2 := gopacket.NewSerializeBuffer()
		pl := d.LayerPayload()
		if err := gopacket.SerializeLayers(buf2, rtOpts, d, gopacket.Payload(pl)); err != nil {
			again = "err"
		} else if bytes.Equal(buf2.Bytes(), out) {
			again = "same"
		} else {
			again = "diff"
		}
	}
	// C06 oracle (independent statement of the property for this layer)
	if wf {
		if len(p) == 0 {
			lib.Stat("ntp:rt:wf")
		} else {
			lib.Stat("ntp:rt:wf-over-payload")
			want.ExtensionBytes = append(append([]byte{}, p...), want.ExtensionBytes...)
		}
		lib.Nontrivial()
		switch {
		case derr != nil:
			lib.Finding("C06", "lntp:roundtrip:error", "ntp: decoding the serialised well-formed layer fails")
		case dtr:
			lib.Finding("C06", "lntp:roundtrip:Truncated", "ntp: truncation flag set on a round trip")
		case publicDiff(d, want) != "":
			lib.Finding("C06", "lntp:roundtrip:"+publicDiff(d, want), "ntp."+publicDiff(d, want)+" changed on a round trip")
		case len(d.LayerPayload()) != 0 || len(d.Payload()) != 0:
			lib.Finding("C06", "lntp:roundtrip:Payload", "ntp: a payload appeared on a round trip")
		case again != "same":
			lib.Finding("C06", "lntp:roundtrip:reserialize", "ntp: serialising the decoded layer again gives "+again)
		}
	} else if decoded {
		// every decoded layer must be inside the claim
		lib.Finding("C06", "lntp:roundtrip:decoded-not-wf", "ntp: a decoded layer is outside the well-formedness predicate")
	} else {
		lib.Stat("ntp:rt:not-wf")
	}
	return "ok bytes=" + lib.Hex(out) + " | " + dreply + " | again=" + again
}

func opRt(kind string, a []string) string {
	if kind != "ntp" || len(a) != 15 {
		return "bad-op"
	}
	p, ok := parsePayload(a[14])
	f, ok2 := parseNtp(a[:14])
	if !ok || !ok2 {
		return "bad-op"
	}
	r, pk := protect(func() string { return rt(f(), p, false) })
	if pk {
		lib.Finding("C07", "lntp:ser-panic:"+lastSite, "round trip panicked: "+lastMsg)
	}
	return r
}

func opRtDec(kind string, data []byte) string {
	if kind != "ntp" {
		return "bad-op"
	}
	return guarded("decode+round trip", func() string {
		l := &layers.NTP{}
		if err := l.DecodeFromBytes(exact(data), &feedback{}); err != nil {
			return "dec-err"
		}
		lib.Stat("ntp:rtdec")
		return rt(l, l.LayerPayload(), true)
	})
}

// ---------------------------------------------------------------- tracing PacketBuilder

type tracer struct {
	acts  []string
	tail  string
	added gopacket.Layer
}

func (t *tracer) SetTruncated() { t.acts = append(t.acts, "trunc") }
func (t *tracer) AddLayer(l gopacket.Layer) {
	t.acts = append(t.acts, fmt.Sprintf("add:%d", int(l.LayerType())))
	t.added = l
}
func (t *tracer) SetLinkLayer(gopacket.LinkLayer)               { t.acts = append(t.acts, "link") }
func (t *tracer) SetNetworkLayer(gopacket.NetworkLayer)         { t.acts = append(t.acts, "net") }
func (t *tracer) SetTransportLayer(gopacket.TransportLayer)     { t.acts = append(t.acts, "transport") }
func (t *tracer) SetApplicationLayer(gopacket.ApplicationLayer) { t.acts = append(t.acts, "app") }
func (t *tracer) SetErrorLayer(gopacket.ErrorLayer)             { t.acts = append(t.acts, "errlayer") }
func (t *tracer) DumpPacketData()                               {}
func (t *tracer) DecodeOptions() *gopacket.DecodeOptions        { return &gopacket.DecodeOptions{} }
func (t *tracer) NextDecoder(next gopacket.Decoder) error {
	switch d := next.(type) {
	case gopacket.LayerType:
		t.tail = fmt.Sprintf("lt:%d", int(d))
	case nil:
		t.tail = "nil"
	default:
		t.tail = "other"
	}
	return nil
}

func opPb(kind string, data []byte) string {
	if newObj(kind) == nil {
		return "bad-op"
	}
	dec := layerTypeOf(kind)
	return guarded("decode function of "+kind, func() string {
		t := &tracer{}
		err := dec.Decode(exact(data), t)
		tail := t.tail
		if err != nil {
			tail = "fail"
		} else if tail == "" {
			tail = "done"
		}
		acts := "-"
		if len(t.acts) > 0 {
			acts = strings.Join(t.acts, ",")
		}
		lib.Stat("pb:" + kind + ":" + strings.SplitN(tail, ":", 2)[0])
		s := "acts=" + acts + " tail=" + tail
		// C05 oracle: the registered decoder and a direct fresh DecodeFromBytes agree on error, truncation flag and layer
		ref := newObj(kind)
		fb := &feedback{}
		rerr := ref.DecodeFromBytes(exact(data), fb)
		sawTrunc := false
		for _, a := range t.acts {
			if a == "trunc" {
				sawTrunc = true
			}
		}
		if (rerr != nil) != (err != nil) {
			lib.Finding("C05", "lntp:pkt-differs", kind+": the registered decoder and a direct DecodeFromBytes disagree on the error")
		} else if sawTrunc != fb.truncated {
			lib.Finding("C05", "lntp:pkt-trunc-differs", kind+": the registered decoder and a direct DecodeFromBytes disagree on the truncation flag")
		}
		if t.added != nil {
			s += " | " + render(t.added)
			if rerr != nil || differingField(t.added, ref) != "" {
				lib.Finding("C05", "lntp:pkt-differs", kind+": layer added by the registered decoder differs from a direct fresh DecodeFromBytes")
			}
			lib.Nontrivial()
		}
		return s
	})
}

// ---------------------------------------------------------------- NewPacket / DecodingLayerParser

func opPkt(kind, mode string, extra int, foreign, data []byte) string {
	if len(foreign) != extra || (mode != "copy" && mode != "nocopy" && mode != "lazy") || newObj(kind) == nil {
		return "bad-op"
	}
	first := layerTypeOf(kind)
	if len(data) == 0 {
		return "empty"
	}
	build := func(skipRecovery bool) (gopacket.Packet, []gopacket.Layer) {
		opts := gopacket.DecodeOptions{SkipDecodeRecovery: skipRecovery}
		in := exact(data)
		switch mode {
		case "nocopy":
			opts.NoCopy = true
			in = inBuf(data, foreign)
		case "lazy":
			opts.Lazy = true
		}
		p := gopacket.NewPacket(in, first, opts)
		return p, p.Layers()
	}
	var p gopacket.Packet
	var ls []gopacket.Layer
	_, panicked := protect(func() string { p, ls = build(true); return "" })
	if panicked {
		if isOurSite(lastSite) {
			lib.Finding("C19", "lntp:panic:"+lastSite, "NewPacket(SkipDecodeRecovery) panicked in this layer: "+lastMsg)
			return "panic " + lib.PanicKind(lastMsg)
		}
		lib.Stat("pkt:later-layer-panic:" + lastSite)
		p, ls = build(false)
	}
	lib.Stat("pkt:" + kind + ":" + mode)
	ptr := p.Metadata().Truncated
	// C05 oracle: the packet's truncation flag and first layer equal a direct fresh decode (both layers are
	// leaves: no later layer can contribute to the flag)
	ref := newObj(kind)
	fb := &feedback{}
	rerr := ref.DecodeFromBytes(exact(data), fb)
	if fb.truncated != ptr {
		lib.Finding("C05", "lntp:pkt-trunc-differs", "NewPacket("+mode+") and a direct DecodeFromBytes of "+kind+" disagree on the truncation flag")
	}
	if len(ls) == 0 || ls[0].LayerType() != first {
		if rerr == nil {
			lib.Finding("C05", "lntp:pkt-differs", "NewPacket("+mode+") has no "+kind+" layer although a direct DecodeFromBytes succeeds")
		}
		return "fail trunc=" + b01(ptr)
	}
	if rerr != nil || differingField(ls[0], ref) != "" {
		lib.Finding("C05", "lntp:pkt-differs", "first layer built by NewPacket("+mode+") differs from a direct fresh DecodeFromBytes")
	}
	if kind == "ntp" && (p.ApplicationLayer() == nil || p.ApplicationLayer().LayerType() != first) {
		lib.Finding("C05", "lntp:pkt-differs", "NewPacket("+mode+"): the NTP layer is not the packet's application layer")
	}
	if p.ErrorLayer() != nil || len(ls) != 1 {
		lib.Finding("C05", "lntp:pkt-differs", "NewPacket("+mode+"): a leaf layer is followed by another layer / an error layer")
	}
	lib.Nontrivial()
	return "ok " + render(ls[0]) + " trunc=" + b01(ptr)
}

func opDlp(re bool, kind string, data []byte) string {
	parser, ok := parsers[kind]
	if !ok {
		return "bad-op"
	}
	if !re {
		newParser()
		parser = parsers[kind]
	}
	first := layerTypeOf(kind)
	return guarded("DecodingLayerParser.DecodeLayers", func() string {
		var decoded []gopacket.LayerType
		err := parser.DecodeLayers(exact(data), &decoded)
		code := 0
		var unsup gopacket.UnsupportedLayerType
		if errors.As(err, &unsup) {
			code = 2
		} else if err != nil {
			code = 1
		}
		ds := make([]string, len(decoded))
		for i, t := range decoded {
			ds[i] = lib.Itoa(int(t))
		}
		dec := "-"
		if len(ds) > 0 {
			dec = strings.Join(ds, ",")
		}
		lib.Stat(fmt.Sprintf("dlp:%s:layers=%d:code=%d", kind, len(decoded), code))
		if len(decoded) >= 1 {
			lib.Nontrivial()
		}
		// C05 oracle: the run equals the leading run of NewPacket's layers with equal fields and truncation flag
		if len(data) > 0 && (kind == "ntp" || kind == "vrrp") {
			var pl []gopacket.Layer
			var ptr bool
			_, pk := protect(func() string {
				pk := gopacket.NewPacket(exact(data), first, gopacket.DecodeOptions{})
				pl = pk.Layers()
				ptr = pk.Metadata().Truncated
				return ""
			})
			if !pk {
				objs := map[gopacket.LayerType]gopacket.Layer{layers.LayerTypeNTP: pNtp, layers.LayerTypeVRRP: pVrrp}
				for i, t := range decoded {
					if i >= len(pl) || pl[i].LayerType() != t {
						lib.Finding("C05", "lntp:dlp-differs", "parser run is not a prefix of the packet's layers")
						break
					}
					if f := differingField(pl[i], objs[t]); f != "" {
						lib.Finding("C05", "lntp:dlp-differs", "parser's layer differs from the packet's: "+f)
					}
				}
				if len(decoded) == 0 && len(pl) > 0 && pl[0].LayerType() == first {
					lib.Finding("C05", "lntp:dlp-differs", "the packet has a layer the parser did not report")
				}
				// both layers are leaves: the packet's flag is this layer's contribution, so the flags must be EQUAL
				if parser.Truncated != ptr {
					lib.Finding("C05", "lntp:dlp-trunc-differs", fmt.Sprintf("%s: parser.Truncated=%v, packet Truncated=%v", kind, parser.Truncated, ptr))
				}
			}
		}
		return fmt.Sprintf("code=%d decoded=%s trunc=%s | %s | %s", code, dec, b01(parser.Truncated), render(pNtp), render(pVrrp))
	})
}

// strtab: the two String methods of vrrp.go over all 256 values (1 = "VRRPv2 Advertisement" / "No Authentication",
// 2 = "Reserved", 0 = "").
func opStrTab() string {
	code := func(s string) int {
		switch s {
		case "":
			return 0
		case "VRRPv2 Advertisement", "No Authentication":
			return 1
		case "Reserved":
			return 2
		}
		return 9
	}
	rows := func(f func(v int) string) string {
		var xs []string
		for v := 0; v < 256; v++ {
			if c := code(f(v)); c != 0 {
				xs = append(xs, fmt.Sprintf("%d:%d", v, c))
			}
		}
		if len(xs) == 0 {
			return "-"
		}
		return strings.Join(xs, ",")
	}
	lib.Stat("strtab")
	return "ok type=" + rows(func(v int) string { return layers.VRRPv2Type(v).String() }) +
		" auth=" + rows(func(v int) string { return layers.VRRPv2AuthType(v).String() })
}

// ---------------------------------------------------------------- dispatcher

func exec(a []string) string {
	if len(a) < 2 || a[0] != "lntp" {
		return "bad-op"
	}
	switch a[1] {
	case "dec":
		if len(a) != 6 {
			return "bad-op"
		}
		extra, ok1 := lib.Atoi(a[3])
		foreign, ok2 := lib.UnHex(a[4])
		data, ok3 := lib.UnHex(a[5])
		if !ok1 || !ok2 || !ok3 || extra < 0 || strings.HasPrefix(a[3], "+") || strings.HasPrefix(a[3], "-") {
			return "bad-op"
		}
		return opDec(a[2], extra, foreign, data)
	case "redec":
		if len(a) != 4 {
			return "bad-op"
		}
		data, ok := lib.UnHex(a[3])
		if !ok {
			return "bad-op"
		}
		return opRedec(a[2], data)
	case "ser":
		if len(a) < 4 {
			return "bad-op"
		}
		return opSer(a[2], a[3:])
	case "rt":
		if len(a) < 4 {
			return "bad-op"
		}
		return opRt(a[2], a[3:])
	case "rtdec":
		if len(a) != 4 {
			return "bad-op"
		}
		data, ok := lib.UnHex(a[3])
		if !ok {
			return "bad-op"
		}
		return opRtDec(a[2], data)
	case "pb":
		if len(a) != 4 {
			return "bad-op"
		}
		data, ok := lib.UnHex(a[3])
		if !ok {
			return "bad-op"
		}
		return opPb(a[2], data)
	case "pkt":
		if len(a) != 7 {
			return "bad-op"
		}
		extra, ok1 := lib.Atoi(a[4])
		foreign, ok2 := lib.UnHex(a[5])
		data, ok3 := lib.UnHex(a[6])
		if !ok1 || !ok2 || !ok3 || extra < 0 || strings.HasPrefix(a[4], "+") || strings.HasPrefix(a[4], "-") {
			return "bad-op"
		}
		return opPkt(a[2], a[3], extra, foreign, data)
	case "dlp", "redlp":
		if len(a) != 4 {
			return "bad-op"
		}
		data, ok := lib.UnHex(a[3])
		if !ok {
			return "bad-op"
		}
		return opDlp(a[1] == "redlp", a[2], data)
	case "strtab":
		if len(a) != 2 {
			return "bad-op"
		}
		return opStrTab()
	}
	return "bad-op"
}

func main() {
	reset()
	lib.Main(lib.Engine{Name: "lntp", Gen: gen, Reset: reset, Exec: exec})
}
