// gp-lmld: correspondence adapter + monitors for engine `lmld`
// (layers/mldv1.go: MLDv1Message.DecodeFromBytes / SerializeTo / NextLayerType, the query/report/done wrapper
// types with CanDecode / IsGeneralQuery, decodeMLDv1MulticastListenerQuery/Report/Done, the selection of these
// layers by ICMPv6.NextLayerType, and the DecodingLayerParser over {ICMPv6, query, report, done}).
//
// Properties served: C19 (no panics), C05 (no stale state / capacity independence / packet path =
// preallocated path), C06 (round trip), C07 (serializer totality, buffer independence, idempotence).
// None of the MLD layers exposes a flow (C17 has no instance here).
package main

import (
	"bytes"
	"errors"
	"fmt"
	"net"
	"strconv"
	"strings"
	"time"

	"github.com/gopacket/gopacket"
	"github.com/gopacket/gopacket/layers"
	"verif/harness/lib"
)

// ---------------------------------------------------------------- state of one case

type codec interface {
	gopacket.Layer
	gopacket.DecodingLayer
	gopacket.SerializableLayer
}

var (
	cur     map[string]codec // objects re-used by `redec`
	pIc     *layers.ICMPv6   // objects owned by the DecodingLayerParsers
	pQ      *layers.MLDv1MulticastListenerQueryMessage
	pR      *layers.MLDv1MulticastListenerReportMessage
	pD      *layers.MLDv1MulticastListenerDoneMessage
	parsers map[string]*gopacket.DecodingLayerParser
)

var kinds = []string{"query", "report", "done"}
var firsts = []string{"icmp6", "query", "report", "done"}

func newObj(kind string) codec {
	switch kind {
	case "query":
		return &layers.MLDv1MulticastListenerQueryMessage{}
	case "report":
		return &layers.MLDv1MulticastListenerReportMessage{}
	case "done":
		return &layers.MLDv1MulticastListenerDoneMessage{}
	}
	return nil
}

// msgOf returns the embedded MLDv1Message of one of the three wrapper types.
func msgOf(l interface{}) *layers.MLDv1Message {
	switch x := l.(type) {
	case *layers.MLDv1MulticastListenerQueryMessage:
		return &x.MLDv1Message
	case *layers.MLDv1MulticastListenerReportMessage:
		return &x.MLDv1Message
	case *layers.MLDv1MulticastListenerDoneMessage:
		return &x.MLDv1Message
	}
	return nil
}

func layerTypeOf(kind string) gopacket.LayerType {
	switch kind {
	case "icmp6":
		return layers.LayerTypeICMPv6
	case "query":
		return layers.LayerTypeMLDv1MulticastListenerQuery
	case "report":
		return layers.LayerTypeMLDv1MulticastListenerReport
	}
	return layers.LayerTypeMLDv1MulticastListenerDone
}

func kindOfType(t gopacket.LayerType) string {
	switch t {
	case layers.LayerTypeMLDv1MulticastListenerQuery:
		return "query"
	case layers.LayerTypeMLDv1MulticastListenerReport:
		return "report"
	case layers.LayerTypeMLDv1MulticastListenerDone:
		return "done"
	}
	return ""
}

func reset() {
	cur = map[string]codec{}
	for _, k := range kinds {
		cur[k] = newObj(k)
	}
	newParser()
}

func newParser() {
	pIc = &layers.ICMPv6{}
	pQ = &layers.MLDv1MulticastListenerQueryMessage{}
	pR = &layers.MLDv1MulticastListenerReportMessage{}
	pD = &layers.MLDv1MulticastListenerDoneMessage{}
	parsers = map[string]*gopacket.DecodingLayerParser{}
	for _, k := range firsts {
		p := gopacket.NewDecodingLayerParser(layerTypeOf(k), pIc, pQ, pR, pD)
		p.IgnorePanic = true // let panics through (C19: "a layer parser that lets panics through")
		parsers[k] = p
	}
}

type feedback struct{ truncated bool }

func (f *feedback) SetTruncated() { f.truncated = true }

func b01(b bool) string {
	if b {
		return "1"
	}
	return "0"
}

func render(l gopacket.Layer) string {
	switch x := l.(type) {
	case *layers.ICMPv6:
		return fmt.Sprintf("tc=%d ck=%d contents=%s payload=%s next=%d", uint16(x.TypeCode), x.Checksum,
			lib.Hex(x.Contents), lib.Hex(x.Payload), int(x.NextLayerType()))
	}
	m := msgOf(l)
	if m == nil {
		return "?"
	}
	gq := net.IPv6zero.Equal(m.MulticastAddress)
	if q, ok := l.(*layers.MLDv1MulticastListenerQueryMessage); ok {
		gq = q.IsGeneralQuery()
		if q.IsSpecificQuery() == gq {
			gq = !gq // cannot happen; would show up as a mismatch
		}
	}
	return fmt.Sprintf("mrd=%d addr=%s gq=%s contents=%s payload=%s next=%d", int64(m.MaximumResponseDelay),
		lib.Hex(m.MulticastAddress), b01(gq), lib.Hex(m.Contents), lib.Hex(m.Payload), int(m.NextLayerType()))
}

// differingField names the first public field (incl. Contents/Payload) in which two layers differ.
func differingField(a, b gopacket.Layer) string {
	if a.LayerType() != b.LayerType() {
		return "type"
	}
	if x, ok := a.(*layers.ICMPv6); ok {
		y := b.(*layers.ICMPv6)
		switch {
		case x.TypeCode != y.TypeCode:
			return "TypeCode"
		case x.Checksum != y.Checksum:
			return "Checksum"
		case !bytes.Equal(x.Contents, y.Contents):
			return "Contents"
		case !bytes.Equal(x.Payload, y.Payload):
			return "Payload"
		}
		return ""
	}
	x, y := msgOf(a), msgOf(b)
	switch {
	case x == nil || y == nil:
		return "type"
	case x.MaximumResponseDelay != y.MaximumResponseDelay:
		return "MaximumResponseDelay"
	case !bytes.Equal(x.MulticastAddress, y.MulticastAddress):
		return "MulticastAddress"
	case !bytes.Equal(x.Contents, y.Contents):
		return "Contents"
	case !bytes.Equal(x.Payload, y.Payload):
		return "Payload"
	}
	return ""
}

// inBuf places data at the start of a backing array with `len(foreign)` spare bytes of capacity holding
// the foreign bytes, and returns the slice data[:len] with cap = len + len(foreign).
func inBuf(data, foreign []byte) []byte {
	back := make([]byte, len(data)+len(foreign))
	copy(back, data)
	copy(back[len(data):], foreign)
	return back[:len(data)]
}

func exact(data []byte) []byte { // cap == len
	c := make([]byte, len(data))
	copy(c, data)
	return c[:len(data):len(data)]
}

func isOurSite(site string) bool {
	return strings.HasPrefix(site, "layers/mldv1.go") || strings.HasPrefix(site, "layers/base.go") ||
		strings.HasPrefix(site, "layers/icmp6.go")
}

// guarded runs f; a panic is reported as a C19 finding with its site and returned as "panic <kind>".
func guarded(what string, f func() string) string {
	reply, panicked := lib.Protect(f)
	if panicked {
		lib.Finding("C19", "lmld:panic:"+lib.LastPanicSite, what+" panicked: "+lib.LastPanicMsg)
		lib.Stat("panic")
	}
	return reply
}

// ---------------------------------------------------------------- decode ops

// decInto: DecodeFromBytes into obj; the reply renders the receiver on an error too (what the failed call left).
func decInto(obj codec, data []byte) (string, error, bool) {
	fb := &feedback{}
	err := obj.DecodeFromBytes(data, fb)
	if err != nil {
		return "err trunc=" + b01(fb.truncated) + " | " + render(obj), err, fb.truncated
	}
	return "ok " + render(obj) + " trunc=" + b01(fb.truncated), nil, fb.truncated
}

func statDec(kind string, obj codec, err error) {
	if err != nil {
		lib.Stat(kind + ":dec:err")
		return
	}
	lib.Stat(kind + ":dec:ok")
	lib.Nontrivial()
	m := msgOf(obj)
	if len(m.Payload) > 0 {
		lib.Stat(kind + ":dec:with-payload")
	}
	if net.IPv6zero.Equal(m.MulticastAddress) {
		lib.Stat(kind + ":dec:general")
	}
	if m.MaximumResponseDelay == 65535*time.Millisecond {
		lib.Stat(kind + ":dec:max-delay")
	}
}

func opDec(kind string, extra int, foreign, data []byte) string {
	if len(foreign) != extra || newObj(kind) == nil {
		return "bad-op"
	}
	return guarded(kind+".DecodeFromBytes", func() string {
		obj := newObj(kind)
		cur[kind] = obj
		reply, err, _ := decInto(obj, inBuf(data, foreign))
		statDec(kind, obj, err)
		if got := obj.CanDecode(); got != gopacket.LayerClass(layerTypeOf(kind)) || obj.LayerType() != layerTypeOf(kind) {
			lib.Finding("C05", "lmld:candecode:"+kind, "CanDecode / LayerType is not the layer's own type")
		}
		// C05/C04 oracle: the same bytes in a buffer with cap == len
		ref := newObj(kind)
		refReply, _, _ := decInto(ref, exact(data))
		if reply != refReply {
			lib.Finding("C05", "lmld:cap-dependent", kind+" decode depends on spare capacity / foreign bytes: "+reply+" vs "+refReply)
		}
		if extra > 0 {
			lib.Stat(kind + ":dec:spare-cap")
		}
		return reply
	})
}

func opRedec(kind string, data []byte) string {
	if newObj(kind) == nil {
		return "bad-op"
	}
	return guarded(kind+".DecodeFromBytes", func() string {
		obj := cur[kind]
		reply, err, tr := decInto(obj, exact(data))
		statDec(kind, obj, err)
		lib.Stat(kind + ":redec")
		fresh := newObj(kind)
		fb := &feedback{}
		ferr := fresh.DecodeFromBytes(exact(data), fb)
		if (ferr != nil) != (err != nil) {
			lib.Finding("C05", "lmld:stale:error", kind+": reused object and fresh object disagree on the error")
		} else {
			if err == nil {
				if f := differingField(obj, fresh); f != "" {
					lib.Finding("C05", "lmld:stale:"+f, kind+"."+f+" differs between a reused and a fresh object")
				}
			}
			if fb.truncated != tr {
				lib.Finding("C05", "lmld:stale:Truncated", kind+": truncation flag differs between a reused and a fresh object")
			}
		}
		return reply
	})
}

// ---------------------------------------------------------------- serialize ops

func mkBuffer(hist string) (gopacket.SerializeBuffer, bool) {
	switch {
	case hist == "fresh":
		return gopacket.NewSerializeBuffer(), true
	case strings.HasPrefix(hist, "dirty"):
		v, ok := lib.Atoi(hist[5:])
		if !ok || v < 0 || v > 255 {
			return nil, false
		}
		b := gopacket.NewSerializeBuffer()
		s, _ := b.AppendBytes(64)
		for i := range s {
			s[i] = byte(v)
		}
		s, _ = b.PrependBytes(64)
		for i := range s {
			s[i] = byte(v)
		}
		b.Clear()
		return b, true
	case strings.HasPrefix(hist, "sized"):
		n, ok := lib.Atoi(hist[5:])
		if !ok || n < 0 || n >= 100000 {
			return nil, false
		}
		return gopacket.NewSerializeBufferExpectedSize(n, n), true
	}
	return nil, false
}

func parsePayload(s string) ([]byte, bool) {
	if strings.HasPrefix(s, "z") {
		parts := strings.Split(s[1:], "x")
		if len(parts) != 2 {
			return nil, false
		}
		n, ok := lib.Atoi(parts[0])
		v, ok2 := lib.UnHex(parts[1])
		if !ok || !ok2 || len(v) != 1 || n < 0 || n > 200000 {
			return nil, false
		}
		return bytes.Repeat(v, n), true
	}
	return lib.UnHex(s)
}

func parseBool(s string) (bool, bool) {
	switch s {
	case "1":
		return true, true
	case "0":
		return false, true
	}
	return false, false
}

// parseDur: a decimal int64 (no leading '+', as Lean's String.toInt?)
func parseDur(s string) (time.Duration, bool) {
	if s == "" || s[0] == '+' {
		return 0, false
	}
	v, err := strconv.ParseInt(s, 10, 64)
	if err != nil {
		return 0, false
	}
	return time.Duration(v), true
}

func putPayload(b gopacket.SerializeBuffer, p []byte) {
	gopacket.Payload(p).SerializeTo(b, gopacket.SerializeOptions{})
}

// serOnce serialises layer l over payload p into buffer b; returns (bytes, error?) and converts a
// panic into a C07 finding.
func serOnce(l gopacket.SerializableLayer, b gopacket.SerializeBuffer, p []byte, opts gopacket.SerializeOptions) (out []byte, failed bool, panicked bool) {
	reply, pk := lib.Protect(func() string {
		putPayload(b, p)
		if err := l.SerializeTo(b, opts); err != nil {
			return "err"
		}
		return "ok"
	})
	if pk {
		lib.Finding("C07", "lmld:ser-panic:"+lib.LastPanicSite, "SerializeTo panicked: "+lib.LastPanicMsg)
		return nil, false, true
	}
	if reply == "err" {
		return nil, true, false
	}
	return append([]byte(nil), b.Bytes()...), false, false
}

// serMonitors: the C07 oracles on the real code for one (layer, payload, options).
// mk must return a NEW layer object with the same public field values on every call.
func serMonitors(name string, mk func() codec, p []byte, opts gopacket.SerializeOptions, got []byte, gotErr bool) {
	// (a) buffer independence: fresh, dirty 0xA5 / 0x5A, pre-sized
	for _, h := range []string{"fresh", "dirty165", "dirty90", "sized7", "sized2000"} {
		b, _ := mkBuffer(h)
		out, failed, pk := serOnce(mk(), b, p, opts)
		if pk {
			return
		}
		if failed != gotErr || (!failed && !bytes.Equal(out, got)) {
			lib.Finding("C07", "lmld:dirty-buffer", name+": output differs between buffer histories ("+h+")")
			return
		}
	}
	// (b) idempotence: the same object again over the same payload; the receiver must not be changed either
	l := mk()
	o1, f1, pk := serOnce(l, gopacket.NewSerializeBuffer(), p, opts)
	if pk {
		return
	}
	o2, f2, pk := serOnce(l, gopacket.NewSerializeBuffer(), p, opts)
	if pk {
		return
	}
	if f1 != f2 || !bytes.Equal(o1, o2) {
		what := "bytes differ"
		if f1 != f2 {
			what = fmt.Sprintf("first call error=%v, second call error=%v", f1, f2)
		}
		lib.Finding("C07", "lmld:not-idempotent", name+": serialising the same layer twice differs: "+what)
	}
	if f := differingField(l, mk()); f != "" {
		lib.Finding("C07", "lmld:not-idempotent", name+": SerializeTo changed the receiver's "+f)
	}
}

// mkMsg builds a constructor of layers of the given kind with the given public field values.
func mkMsg(kind string, d time.Duration, addr []byte, nilAddr bool) func() codec {
	return func() codec {
		l := newObj(kind)
		m := msgOf(l)
		m.MaximumResponseDelay = d
		if !nilAddr {
			m.MulticastAddress = append(net.IP{}, addr...)
		}
		return l
	}
}

func opSer(kind string, a []string) string {
	// fix csum hist mrd addr payload
	if len(a) != 6 || newObj(kind) == nil {
		return "bad-op"
	}
	fix, ok1 := parseBool(a[0])
	csum, ok2 := parseBool(a[1])
	b, ok3 := mkBuffer(a[2])
	d, ok4 := parseDur(a[3])
	addr, ok5 := lib.UnHex(a[4])
	p, ok6 := parsePayload(a[5])
	if !(ok1 && ok2 && ok3 && ok4 && ok5 && ok6) {
		return "bad-op"
	}
	opts := gopacket.SerializeOptions{FixLengths: fix, ComputeChecksums: csum}
	mk := mkMsg(kind, d, addr, len(addr) == 0 && len(p)%2 == 0) // the empty address is nil for even payload sizes, a non-nil empty slice otherwise
	l := mk()
	out, failed, pk := serOnce(l, b, p, opts)
	if pk {
		return "panic " + lib.PanicKind(lib.LastPanicMsg)
	}
	serMonitors(kind, mk, p, opts, out, failed)
	if a[2] != "fresh" {
		lib.Stat("ser:buf:" + strings.TrimRight(a[2], "0123456789"))
	}
	lib.Stat(fmt.Sprintf("ser:opts:fix%s-csum%s", a[0], a[1]))
	lib.Stat(fmt.Sprintf("ser:addrlen:%d", len(addr)))
	if failed {
		switch {
		case d < 0:
			lib.Stat(kind + ":ser:err:negative")
		case d/time.Millisecond > 65535:
			lib.Stat(kind + ":ser:err:too-large")
		default:
			lib.Stat(kind + ":ser:err:address")
		}
		return "err"
	}
	lib.Stat(kind + ":ser:ok")
	lib.Nontrivial()
	return "ok bytes=" + lib.Hex(out)
}

// ---------------------------------------------------------------- round trip

var rtOpts = gopacket.SerializeOptions{FixLengths: true, ComputeChecksums: true}

// wfMsg: is the layer inside the round-trip claim (whole milliseconds 0…65535, a 16-byte address).
func wfMsg(m *layers.MLDv1Message) bool {
	return m.MaximumResponseDelay >= 0 && m.MaximumResponseDelay%time.Millisecond == 0 &&
		m.MaximumResponseDelay/time.Millisecond <= 65535 && len(m.MulticastAddress) == 16
}

// publicDiff compares the public protocol fields only (≈ of the property: Contents/Payload are ignored).
func publicDiff(a, b *layers.MLDv1Message) string {
	switch {
	case a.MaximumResponseDelay != b.MaximumResponseDelay:
		return "MaximumResponseDelay"
	case !bytes.Equal(a.MulticastAddress, b.MulticastAddress):
		return "MulticastAddress"
	}
	return ""
}

// rt: SerializeLayers(layer, payload) with fix+csum, decode, serialise the decoded layer again.
func rt(kind string, l codec, p []byte, decoded bool) string {
	want := *msgOf(l)
	want.MulticastAddress = append(net.IP{}, want.MulticastAddress...)
	wf := wfMsg(&want)
	buf := gopacket.NewSerializeBuffer()
	if err := gopacket.SerializeLayers(buf, rtOpts, l, gopacket.Payload(p)); err != nil {
		lib.Stat(kind + ":rt:ser-err")
		if wf {
			lib.Finding("C06", "lmld:roundtrip:ser-error", kind+": serialising a well-formed layer fails")
		}
		return "ser-err"
	}
	out := append([]byte(nil), buf.Bytes()...)
	d := newObj(kind)
	dreply, derr, dtr := decInto(d, exact(out))
	again := "none"
	if derr == nil {
		buf2 := gopacket.NewSerializeBuffer()
		pl := d.LayerPayload()
		if err := gopacket.SerializeLayers(buf2, rtOpts, d, gopacket.Payload(pl)); err != nil {
			again = "err"
		} else if bytes.Equal(buf2.Bytes(), out) {
			again = "same"
		} else {
			again = "diff"
		}
	}
	// C06 oracle (independent statement of the property for this layer)
	if wf {
		lib.Stat(kind + ":rt:wf")
		lib.Nontrivial()
		switch {
		case derr != nil:
			lib.Finding("C06", "lmld:roundtrip:error", kind+": decoding the serialised well-formed layer fails")
		case dtr:
			lib.Finding("C06", "lmld:roundtrip:Truncated", kind+": truncation flag set on a round trip")
		case publicDiff(msgOf(d), &want) != "":
			lib.Finding("C06", "lmld:roundtrip:"+publicDiff(msgOf(d), &want), kind+"."+publicDiff(msgOf(d), &want)+" changed on a round trip")
		case !bytes.Equal(d.LayerPayload(), p):
			lib.Finding("C06", "lmld:roundtrip:Payload", kind+": payload changed on a round trip")
		case again != "same":
			lib.Finding("C06", "lmld:roundtrip:reserialize", kind+": serialising the decoded layer again gives "+again)
		}
	} else if decoded {
		// every decoded layer must be inside the claim
		lib.Finding("C06", "lmld:roundtrip:decoded-not-wf", kind+": a decoded layer is outside the well-formedness predicate")
	} else {
		lib.Stat(kind + ":rt:not-wf")
	}
	return "ok bytes=" + lib.Hex(out) + " | " + dreply + " | again=" + again
}

func opRt(kind string, a []string) string {
	// mrd addr payload
	if len(a) != 3 || newObj(kind) == nil {
		return "bad-op"
	}
	d, ok1 := parseDur(a[0])
	addr, ok2 := lib.UnHex(a[1])
	p, ok3 := parsePayload(a[2])
	if !(ok1 && ok2 && ok3) {
		return "bad-op"
	}
	l := mkMsg(kind, d, addr, false)()
	r, pk := lib.Protect(func() string { return rt(kind, l, p, false) })
	if pk {
		lib.Finding("C07", "lmld:ser-panic:"+lib.LastPanicSite, "round trip panicked: "+lib.LastPanicMsg)
	}
	return r
}

func opRtDec(kind string, data []byte) string {
	if newObj(kind) == nil {
		return "bad-op"
	}
	return guarded("decode+round trip", func() string {
		l := newObj(kind)
		if err := l.DecodeFromBytes(exact(data), &feedback{}); err != nil {
			return "dec-err"
		}
		lib.Stat(kind + ":rtdec")
		return rt(kind, l, l.LayerPayload(), true)
	})
}

// ---------------------------------------------------------------- tracing PacketBuilder

type tracer struct {
	acts  []string
	tail  string
	added gopacket.Layer
}

func (t *tracer) SetTruncated() { t.acts = append(t.acts, "trunc") }
func (t *tracer) AddLayer(l gopacket.Layer) {
	t.acts = append(t.acts, fmt.Sprintf("add:%d", int(l.LayerType())))
	t.added = l
}
func (t *tracer) SetLinkLayer(gopacket.LinkLayer)               { t.acts = append(t.acts, "link") }
func (t *tracer) SetNetworkLayer(gopacket.NetworkLayer)         { t.acts = append(t.acts, "net") }
func (t *tracer) SetTransportLayer(gopacket.TransportLayer)     { t.acts = append(t.acts, "transport") }
func (t *tracer) SetApplicationLayer(gopacket.ApplicationLayer) { t.acts = append(t.acts, "app") }
func (t *tracer) SetErrorLayer(gopacket.ErrorLayer)             { t.acts = append(t.acts, "errlayer") }
func (t *tracer) DumpPacketData()                               {}
func (t *tracer) DecodeOptions() *gopacket.DecodeOptions        { return &gopacket.DecodeOptions{} }
func (t *tracer) NextDecoder(next gopacket.Decoder) error {
	switch d := next.(type) {
	case gopacket.LayerType:
		t.tail = fmt.Sprintf("lt:%d", int(d))
	case nil:
		t.tail = "nil"
	default:
		t.tail = "other"
	}
	return nil
}

func freshOf(kind string) (gopacket.Layer, gopacket.DecodingLayer) {
	if kind == "icmp6" {
		l := &layers.ICMPv6{}
		return l, l
	}
	l := newObj(kind)
	return l, l
}

func opPb(kind string, data []byte) string {
	if kind != "icmp6" && newObj(kind) == nil {
		return "bad-op"
	}
	dec := layerTypeOf(kind)
	return guarded("decode function of "+kind, func() string {
		t := &tracer{}
		err := dec.Decode(exact(data), t)
		tail := t.tail
		if err != nil {
			tail = "fail"
		} else if tail == "" {
			tail = "done"
		}
		acts := "-"
		if len(t.acts) > 0 {
			acts = strings.Join(t.acts, ",")
		}
		lib.Stat("pb:" + kind + ":" + strings.SplitN(tail, ":", 2)[0])
		s := "acts=" + acts + " tail=" + tail
		if t.added != nil {
			s += " | " + render(t.added)
			// C05 oracle: the layer added to the packet = a direct fresh DecodeFromBytes
			ref, refDec := freshOf(kind)
			if rerr := refDec.DecodeFromBytes(exact(data), &feedback{}); rerr != nil || differingField(t.added, ref) != "" {
				lib.Finding("C05", "lmld:pkt-differs", kind+": layer added by the registered decoder differs from a direct fresh DecodeFromBytes")
			}
			lib.Nontrivial()
		}
		return s
	})
}

// ---------------------------------------------------------------- NewPacket / DecodingLayerParser

func opPkt(kind, mode string, extra int, foreign, data []byte) string {
	if len(foreign) != extra || (mode != "copy" && mode != "nocopy" && mode != "lazy") || (kind != "icmp6" && newObj(kind) == nil) {
		return "bad-op"
	}
	first := layerTypeOf(kind)
	if len(data) == 0 {
		return "empty"
	}
	build := func(skipRecovery bool) (gopacket.Packet, []gopacket.Layer) {
		opts := gopacket.DecodeOptions{SkipDecodeRecovery: skipRecovery}
		in := exact(data)
		switch mode {
		case "nocopy":
			opts.NoCopy = true
			in = inBuf(data, foreign)
		case "lazy":
			opts.Lazy = true
		}
		p := gopacket.NewPacket(in, first, opts)
		return p, p.Layers()
	}
	var p gopacket.Packet
	var ls []gopacket.Layer
	_, panicked := lib.Protect(func() string { p, ls = build(true); return "" })
	if panicked {
		if isOurSite(lib.LastPanicSite) {
			lib.Finding("C19", "lmld:panic:"+lib.LastPanicSite, "NewPacket(SkipDecodeRecovery) panicked in this layer: "+lib.LastPanicMsg)
			return "panic " + lib.PanicKind(lib.LastPanicMsg)
		}
		// a decoder of ANOTHER layer behind ICMPv6 panicked (other engines' business): observe with recovery on
		lib.Stat("pkt:later-layer-panic:" + lib.LastPanicSite)
		p, ls = build(false)
	}
	lib.Stat("pkt:" + kind + ":" + mode)
	if len(ls) == 0 || ls[0].LayerType() != first {
		return "fail"
	}
	// oracle: the first layer equals a direct fresh decode
	ref, refDec := freshOf(kind)
	if err := refDec.DecodeFromBytes(exact(data), &feedback{}); err != nil || differingField(ls[0], ref) != "" {
		lib.Finding("C05", "lmld:pkt-differs", "first layer built by NewPacket("+mode+") differs from a direct fresh DecodeFromBytes")
	}
	lib.Nontrivial()
	if kind != "icmp6" {
		// read-only renderers on the decoded packet (no pointer dereference in MLDv1Message.String; total for every value)
		_, pk := lib.Protect(func() string { _ = p.String(); _ = p.Dump(); return "" })
		if pk {
			lib.Finding("C19", "lmld:panic:"+lib.LastPanicSite, "Packet.String/Dump panicked: "+lib.LastPanicMsg)
		}
		return "ok " + render(ls[0])
	}
	// ICMPv6 first: which layer did the type byte select, and is it what a direct decode of the payload gives?
	ic := ls[0].(*layers.ICMPv6)
	mld := "other"
	if k := kindOfType(ic.NextLayerType()); k != "" {
		lib.Stat("pkt6:selects:" + k)
		switch {
		case len(ic.Payload) == 0:
			mld = "none"
		case len(ls) >= 2 && ls[1].LayerType() == ic.NextLayerType():
			mld = render(ls[1])
			ref := newObj(k)
			if err := ref.DecodeFromBytes(exact(ic.Payload), &feedback{}); err != nil || differingField(ls[1], ref) != "" {
				lib.Finding("C05", "lmld:pkt-differs", "MLD layer behind ICMPv6 differs from a direct fresh DecodeFromBytes of the ICMPv6 payload")
			}
			if len(ls) != 2 || p.ErrorLayer() != nil {
				lib.Finding("C05", "lmld:pkt-differs", "layers behind a decoded MLDv1 message")
			}
		default:
			mld = "fail"
			if p.ErrorLayer() == nil {
				lib.Finding("C05", "lmld:pkt-differs", "MLD layer missing behind ICMPv6 although no error layer is reported")
			}
		}
	} else {
		lib.Stat("pkt6:selects:other")
	}
	return "ok " + render(ic) + " | mld: " + mld
}

func opDlp(re bool, kind string, data []byte) string {
	if kind != "icmp6" && newObj(kind) == nil {
		return "bad-op"
	}
	if !re {
		newParser()
	}
	parser := parsers[kind]
	first := layerTypeOf(kind)
	return guarded("DecodingLayerParser.DecodeLayers", func() string {
		var decoded []gopacket.LayerType
		err := parser.DecodeLayers(exact(data), &decoded)
		code := 0
		var unsup gopacket.UnsupportedLayerType
		if errors.As(err, &unsup) {
			code = 2
		} else if err != nil {
			code = 1
		}
		ds := make([]string, len(decoded))
		for i, t := range decoded {
			ds[i] = lib.Itoa(int(t))
		}
		dec := "-"
		if len(ds) > 0 {
			dec = strings.Join(ds, ",")
		}
		lib.Stat(fmt.Sprintf("dlp:%s:layers=%d:code=%d", kind, len(decoded), code))
		if len(decoded) >= 1 {
			lib.Nontrivial()
		}
		// C05 oracle: the run equals the leading run of NewPacket's layers with equal fields
		if len(data) > 0 {
			var pl []gopacket.Layer
			var ptr bool
			_, pk := lib.Protect(func() string {
				pk := gopacket.NewPacket(exact(data), first, gopacket.DecodeOptions{})
				pl = pk.Layers()
				ptr = pk.Metadata().Truncated
				return ""
			})
			if !pk {
				objs := map[gopacket.LayerType]gopacket.Layer{layers.LayerTypeICMPv6: pIc, layers.LayerTypeMLDv1MulticastListenerQuery: pQ,
					layers.LayerTypeMLDv1MulticastListenerReport: pR, layers.LayerTypeMLDv1MulticastListenerDone: pD}
				for i, t := range decoded {
					if i >= len(pl) || pl[i].LayerType() != t {
						lib.Finding("C05", "lmld:dlp-differs", "parser run is not a prefix of the packet's layers")
						break
					}
					if f := differingField(pl[i], objs[t]); f != "" {
						lib.Finding("C05", "lmld:dlp-differs", "parser's layer differs from the packet's: "+f)
					}
				}
				// these layers set the truncation flag only together with an error, and a packet accumulates the flags
				// of later layers too, so only "parser truncated => packet truncated" is demanded
				if parser.Truncated && !ptr {
					lib.Finding("C05", "lmld:dlp-differs", "parser reports truncation, the packet does not")
				}
			}
		}
		return fmt.Sprintf("code=%d decoded=%s trunc=%s | %s | %s | %s | %s", code, dec, b01(parser.Truncated), render(pIc), render(pQ), render(pR), render(pD))
	})
}

// ---------------------------------------------------------------- dispatcher

func exec(a []string) string {
	if len(a) < 2 || a[0] != "lmld" {
		return "bad-op"
	}
	switch a[1] {
	case "dec":
		if len(a) != 6 {
			return "bad-op"
		}
		extra, ok1 := lib.Atoi(a[3])
		foreign, ok2 := lib.UnHex(a[4])
		data, ok3 := lib.UnHex(a[5])
		if !ok1 || !ok2 || !ok3 || extra < 0 {
			return "bad-op"
		}
		return opDec(a[2], extra, foreign, data)
	case "redec":
		if len(a) != 4 {
			return "bad-op"
		}
		data, ok := lib.UnHex(a[3])
		if !ok {
			return "bad-op"
		}
		return opRedec(a[2], data)
	case "ser":
		if len(a) < 4 {
			return "bad-op"
		}
		return opSer(a[2], a[3:])
	case "rt":
		if len(a) < 4 {
			return "bad-op"
		}
		return opRt(a[2], a[3:])
	case "rtdec":
		if len(a) != 4 {
			return "bad-op"
		}
		data, ok := lib.UnHex(a[3])
		if !ok {
			return "bad-op"
		}
		return opRtDec(a[2], data)
	case "pb":
		if len(a) != 4 {
			return "bad-op"
		}
		data, ok := lib.UnHex(a[3])
		if !ok {
			return "bad-op"
		}
		return opPb(a[2], data)
	case "pkt":
		if len(a) != 7 {
			return "bad-op"
		}
		extra, ok1 := lib.Atoi(a[4])
		foreign, ok2 := lib.UnHex(a[5])
		data, ok3 := lib.UnHex(a[6])
		if !ok1 || !ok2 || !ok3 || extra < 0 {
			return "bad-op"
		}
		return opPkt(a[2], a[3], extra, foreign, data)
	case "dlp", "redlp":
		if len(a) != 4 {
			return "bad-op"
		}
		data, ok := lib.UnHex(a[3])
		if !ok {
			return "bad-op"
		}
		return opDlp(a[1] == "redlp", a[2], data)
	}
	return "bad-op"
}

func main() {
	reset()
	lib.Main(lib.Engine{Name: "lmld", Gen: gen, Reset: reset, Exec: exec})
}
