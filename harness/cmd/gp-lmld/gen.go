package main

import (
	"fmt"
	"go/ast"
	goparser "go/parser"
	"go/token"
	"net"
	"os"
	"path/filepath"
	"sort"
	"strconv"
	"time"

	"github.com/gopacket/gopacket"
	"github.com/gopacket/gopacket/layers"
	"verif/harness/lib"
)

// ---------------------------------------------------------------- fixtures

// literals collects every `[]byte{…}` literal (all elements literal) from the repository's own
// layers/*_test.go files.
func literals() [][]byte {
	repo := os.Getenv("VERIF_REPO")
	if repo == "" {
		repo = "/repo"
	}
	files, _ := filepath.Glob(filepath.Join(repo, "layers", "*_test.go"))
	sort.Strings(files)
	var out [][]byte
	fset := token.NewFileSet()
	for _, fn := range files {
		f, err := goparser.ParseFile(fset, fn, nil, 0)
		if err != nil {
			continue
		}
		ast.Inspect(f, func(n ast.Node) bool {
			cl, ok := n.(*ast.CompositeLit)
			if !ok {
				return true
			}
			at, ok := cl.Type.(*ast.ArrayType)
			if !ok || at.Len != nil {
				return true
			}
			id, ok := at.Elt.(*ast.Ident)
			if !ok || (id.Name != "byte" && id.Name != "uint8") {
				return true
			}
			b := make([]byte, 0, len(cl.Elts))
			for _, e := range cl.Elts {
				bl, ok := e.(*ast.BasicLit)
				if !ok {
					return true
				}
				switch bl.Kind {
				case token.INT:
					v, err := strconv.ParseUint(bl.Value, 0, 8)
					if err != nil {
						return true
					}
					b = append(b, byte(v))
				case token.CHAR:
					s, err := strconv.Unquote(bl.Value)
					if err != nil || len(s) != 1 {
						return true
					}
					b = append(b, s[0])
				default:
					return true
				}
			}
			if len(b) >= 4 && len(b) <= 1600 {
				out = append(out, b)
			}
			return true
		})
	}
	return out
}

// fixtures: bodies of MLDv1 messages (what the MLD decoders get) and whole ICMPv6 messages (header + body).
type fixtures struct{ mld, icmp [][]byte }

// harvest decodes every test literal of the repository as Ethernet (recovery on) and keeps every ICMPv6 message
// found (contents ++ payload) and, for the three MLDv1 types, its body.
func harvest(fx *fixtures) {
	seen := map[string]bool{}
	add := func(dst *[][]byte, b []byte) {
		if len(b) > 200 {
			b = b[:200]
		}
		k := string(b)
		if !seen[k] {
			seen[k] = true
			*dst = append(*dst, append([]byte(nil), b...))
		}
	}
	for _, lit := range literals() {
		for _, first := range []gopacket.Decoder{layers.LayerTypeEthernet, layers.LayerTypeIPv6} {
			func() {
				defer func() { recover() }()
				p := gopacket.NewPacket(lit, first, gopacket.DecodeOptions{})
				for _, l := range p.Layers() {
					ic, ok := l.(*layers.ICMPv6)
					if !ok {
						continue
					}
					add(&fx.icmp, append(append([]byte(nil), ic.Contents...), ic.Payload...))
					switch ic.TypeCode.Type() {
					case layers.ICMPv6TypeMLDv1MulticastListenerQueryMessage, layers.ICMPv6TypeMLDv1MulticastListenerReportMessage,
						layers.ICMPv6TypeMLDv1MulticastListenerDoneMessage:
						add(&fx.mld, ic.Payload)
					}
				}
			}()
		}
	}
}

var addrs = []net.IP{
	net.ParseIP("::"), net.ParseIP("ff02::1"), net.ParseIP("ff02::db8:1122:3344"), net.ParseIP("ff05::1:3"),
	net.ParseIP("::ffff:224.0.0.1"), net.ParseIP("ffff:ffff:ffff:ffff:ffff:ffff:ffff:ffff"), net.ParseIP("::1"),
}

// built fixtures: messages produced by the repository's own serializers.
func built(r *lib.Rand, fx *fixtures) {
	ser := func(ls ...gopacket.SerializableLayer) (out []byte) {
		defer func() { // a panicking serializer must not kill the generator: the executor's monitors report it
			if recover() != nil {
				out = nil
			}
		}()
		b := gopacket.NewSerializeBuffer()
		if err := gopacket.SerializeLayers(b, gopacket.SerializeOptions{FixLengths: true}, ls...); err != nil {
			return nil
		}
		return append([]byte(nil), b.Bytes()...)
	}
	delays := []time.Duration{0, time.Millisecond, 10 * time.Second, 32767 * time.Millisecond, 32768 * time.Millisecond, 65535 * time.Millisecond}
	for i, a := range addrs {
		d := delays[i%len(delays)]
		m := layers.MLDv1Message{MaximumResponseDelay: d, MulticastAddress: a}
		for _, n := range []int{0, 1, 4, 7} {
			pl := gopacket.Payload(r.Bytes(n))
			q := ser(&layers.MLDv1MulticastListenerQueryMessage{MLDv1Message: m}, pl)
			rp := ser(&layers.MLDv1MulticastListenerReportMessage{MLDv1Message: m}, pl)
			dn := ser(&layers.MLDv1MulticastListenerDoneMessage{MLDv1Message: m}, pl)
			fx.mld = append(fx.mld, q, rp, dn)
			for j, body := range [][]byte{q, rp, dn} {
				if body != nil {
					fx.icmp = append(fx.icmp, append([]byte{byte(130 + j), 0, byte(r.Intn(256)), byte(r.Intn(256))}, body...))
				}
			}
		}
	}
	// an IPv4 multicast address given as 4 bytes (To16 maps it) and random addresses
	fx.mld = append(fx.mld, ser(&layers.MLDv1MulticastListenerReportMessage{MLDv1Message: layers.MLDv1Message{MaximumResponseDelay: 1500 * time.Millisecond, MulticastAddress: net.IP{224, 0, 0, 251}}}))
	for i := 0; i < 6; i++ {
		fx.mld = append(fx.mld, ser(&layers.MLDv1MulticastListenerQueryMessage{MLDv1Message: layers.MLDv1Message{
			MaximumResponseDelay: time.Duration(r.Intn(65536)) * time.Millisecond, MulticastAddress: net.IP(r.Bytes(16))}}, gopacket.Payload(r.Bytes(r.Intn(6)))))
	}
}

func hx(b []byte) string { return lib.Hex(b) }

func setByte(b []byte, off int, v int) []byte {
	c := append([]byte(nil), b...)
	if off < len(c) {
		c[off] = byte(v)
	}
	return c
}

// ---------------------------------------------------------------- generator

func gen(r *lib.Rand, tier string, emit func(string)) {
	thorough := tier == "thorough"
	emit("reset")

	fx := &fixtures{}
	built(r, fx)
	harvest(fx)
	clean := func(fs [][]byte, min int, dflt []byte) [][]byte { // drop fixtures the (possibly broken) serializers could not build
		var keep [][]byte
		for _, f := range fs {
			if len(f) >= min {
				keep = append(keep, f)
			}
		}
		if len(keep) == 0 {
			keep = [][]byte{dflt}
		}
		for i := len(keep) - 1; i > 0; i-- { // seeded shuffle: different seeds favour different fixtures
			j := r.Intn(i + 1)
			keep[i], keep[j] = keep[j], keep[i]
		}
		return keep
	}
	dflt := append([]byte{0x27, 0x10, 0, 0, 0xff, 0x02}, make([]byte, 14)...)
	fx.mld = clean(fx.mld, 4, dflt)
	fx.icmp = clean(fx.icmp, 4, append([]byte{131, 0, 0x12, 0x34}, dflt...))
	foreignOf := func(n int) []byte { return r.Bytes(n) }
	lim := func(n, quick int) int {
		if !thorough && n > quick {
			return quick
		}
		return n
	}

	// A. every fixture through every decode path, as every kind
	for i := 0; i < lim(len(fx.mld), 50); i++ {
		f := fx.mld[i]
		emit("reset")
		for _, k := range kinds {
			n := 1 + r.Intn(40)
			emit(fmt.Sprintf("lmld dec %s 0 - %s", k, hx(f)))
			emit(fmt.Sprintf("lmld dec %s %d %s %s", k, n, hx(foreignOf(n)), hx(f)))
			emit(fmt.Sprintf("lmld pb %s %s", k, hx(f)))
			emit(fmt.Sprintf("lmld pkt %s copy 0 - %s", k, hx(f)))
			emit(fmt.Sprintf("lmld pkt %s nocopy %d %s %s", k, n, hx(foreignOf(n)), hx(f)))
			emit(fmt.Sprintf("lmld pkt %s lazy 0 - %s", k, hx(f)))
			emit(fmt.Sprintf("lmld dlp %s %s", k, hx(f)))
			emit(fmt.Sprintf("lmld rtdec %s %s", k, hx(f)))
		}
	}
	for i := 0; i < lim(len(fx.icmp), 60); i++ {
		f := fx.icmp[i]
		emit("reset")
		n := 1 + r.Intn(40)
		emit(fmt.Sprintf("lmld pb icmp6 %s", hx(f)))
		emit(fmt.Sprintf("lmld pkt icmp6 copy 0 - %s", hx(f)))
		emit(fmt.Sprintf("lmld pkt icmp6 nocopy %d %s %s", n, hx(foreignOf(n)), hx(f)))
		emit(fmt.Sprintf("lmld pkt icmp6 lazy 0 - %s", hx(f)))
		emit(fmt.Sprintf("lmld dlp icmp6 %s", hx(f)))
		emit(fmt.Sprintf("lmld redlp icmp6 %s", hx(f)))
	}

	// B. every truncation 0…len of each fixture, with spare capacity
	for i := 0; i < lim(len(fx.mld), 30); i++ {
		f := fx.mld[i]
		emit("reset")
		k := kinds[r.Intn(3)]
		for n := 0; n <= len(f); n++ {
			t := f[:n]
			c := r.Intn(30)
			emit(fmt.Sprintf("lmld dec %s %d %s %s", k, c, hx(foreignOf(c)), hx(t)))
			emit(fmt.Sprintf("lmld redec %s %s", k, hx(t)))
			if n <= 4 || n >= 18 || r.Chance(25) || thorough {
				emit(fmt.Sprintf("lmld pb %s %s", k, hx(t)))
				emit(fmt.Sprintf("lmld pkt %s nocopy %d %s %s", k, c, hx(foreignOf(c)), hx(t)))
				emit(fmt.Sprintf("lmld redlp %s %s", k, hx(t)))
			}
		}
	}
	for i := 0; i < lim(len(fx.icmp), 30); i++ {
		f := fx.icmp[i]
		emit("reset")
		for n := 0; n <= len(f); n++ {
			if !(n <= 8 || n >= 20 || thorough || r.Chance(30)) {
				continue
			}
			t := f[:n]
			c := r.Intn(30)
			emit(fmt.Sprintf("lmld pkt icmp6 nocopy %d %s %s", c, hx(foreignOf(c)), hx(t)))
			emit(fmt.Sprintf("lmld redlp icmp6 %s", hx(t)))
			if r.Chance(30) {
				emit(fmt.Sprintf("lmld pb icmp6 %s", hx(t)))
				emit(fmt.Sprintf("lmld pkt icmp6 lazy 0 - %s", hx(t)))
			}
		}
	}

	// C. single-field mutations to boundary values
	// the 16-bit delay and the reserved word
	words := [][2]int{{0, 0}, {0, 1}, {0, 0xff}, {1, 0}, {0x27, 0x10}, {0x7f, 0xff}, {0x80, 0}, {0x80, 1}, {0xff, 0xfe}, {0xff, 0xff}}
	for i := 0; i < lim(len(fx.mld), 12); i++ {
		f := fx.mld[i]
		if len(f) < 20 {
			continue
		}
		emit("reset")
		k := kinds[r.Intn(3)]
		for _, off := range []int{0, 2} {
			for _, w := range words {
				m := setByte(setByte(f, off, w[0]), off+1, w[1])
				emit(fmt.Sprintf("lmld redec %s %s", k, hx(m)))
				emit(fmt.Sprintf("lmld rtdec %s %s", k, hx(m)))
			}
		}
		// all-zero / all-ones / one-bit addresses (IsGeneralQuery)
		for _, fill := range []int{0, 0xff} {
			m := append([]byte(nil), f...)
			for j := 4; j < 20; j++ {
				m[j] = byte(fill)
			}
			emit(fmt.Sprintf("lmld redec %s %s", k, hx(m)))
			emit(fmt.Sprintf("lmld rtdec query %s", hx(m)))
			for j := 4; j < 20; j++ {
				if thorough || j == 4 || j == 15 || j == 19 || r.Chance(20) {
					emit(fmt.Sprintf("lmld redec query %s", hx(setByte(m, j, 1<<uint(r.Intn(8))))))
				}
			}
		}
	}
	// every value of each body byte over three backgrounds (sampled in quick)
	for _, bg := range [][]byte{make([]byte, 20), {0xff, 0xff, 0xff, 0xff, 0xff, 0xff, 0xff, 0xff, 0xff, 0xff, 0xff, 0xff, 0xff, 0xff, 0xff, 0xff, 0xff, 0xff, 0xff, 0xff, 0xaa}, r.Bytes(23)} {
		emit("reset")
		for off := 0; off < 20; off++ {
			for v := 0; v < 256; v++ {
				if !thorough && !(v < 2 || v > 253 || (off < 4 && v&(v-1) == 0) || r.Chance(3)) {
					continue
				}
				m := setByte(bg, off, v)
				k := kinds[r.Intn(3)]
				emit(fmt.Sprintf("lmld redec %s %s", k, hx(m)))
				if thorough || r.Chance(30) {
					emit(fmt.Sprintf("lmld rtdec %s %s", k, hx(m)))
				}
			}
		}
	}
	// every 16-bit delay value (thorough) / boundary region + sample (quick)
	{
		emit("reset")
		base := append([]byte{0, 0, 0, 0}, net.ParseIP("ff02::2")...)
		for v := 0; v < 65536; v++ {
			if thorough || v < 8 || v > 65530 || (v >= 32764 && v <= 32772) || r.Chance(1) && r.Chance(20) {
				emit(fmt.Sprintf("lmld rtdec report %s", hx(setByte(setByte(base, 0, v>>8), 1, v&0xff))))
			}
		}
	}

	// D. stale-state sequences: ordered pairs…sextuples into the same objects (direct and via the parser);
	// lengths around the 20-byte body matter (the unpatched query type kept the previous payload at exactly 20)
	nseq := 250
	if thorough {
		nseq = 5000
	}
	lens := []int{0, 1, 19, 20, 20, 20, 21, 24, 28, 40}
	pick := func() []byte {
		f := fx.mld[r.Intn(len(fx.mld))]
		switch r.Intn(8) {
		case 0:
			return f[:r.Intn(len(f)+1)] // truncated (maybe an error)
		case 1, 2:
			n := r.Pick(lens)
			b := r.Bytes(n)
			copy(b, f)
			return b
		case 3:
			return r.Bytes(r.Intn(40))
		case 4:
			if len(f) >= 20 {
				return f[:20]
			}
		}
		return f
	}
	for c := 0; c < nseq; c++ {
		emit("reset")
		n := 2 + r.Intn(5)
		for i := 0; i < n; i++ {
			k := kinds[r.Intn(3)]
			if r.Chance(50) {
				k = "query"
			}
			f := pick()
			emit(fmt.Sprintf("lmld redec %s %s", k, hx(f)))
			if r.Chance(60) {
				emit(fmt.Sprintf("lmld redlp %s %s", k, hx(f)))
			}
			if r.Chance(40) {
				t := r.Pick([]int{130, 130, 131, 132, 143, 128, r.Intn(256)})
				emit(fmt.Sprintf("lmld redlp icmp6 %s", hx(append([]byte{byte(t), 0, 0xab, 0xcd}, f...))))
			}
		}
	}

	// E. serialisation: in-range and out-of-range layer values, all four option sets, buffer histories
	psizes := []int{0, 1, 2, 3, 17, 18, 19, 101, 1480, 1499, 1500, 1501, 1520}
	hists := []string{"fresh", "dirty165", "dirty90", "dirty255", "sized0", "sized8", "sized20", "sized60", "sized3000"}
	nser := 700
	if thorough {
		nser = 20000
	}
	payloadTok := func(n int) string {
		if n > 200 && r.Chance(70) {
			return fmt.Sprintf("z%dx%02x", n, r.Intn(256))
		}
		return hx(r.Bytes(n))
	}
	const ms = int64(time.Millisecond)
	durTok := func() string {
		var v int64
		switch r.Intn(12) {
		case 0:
			v = int64(r.Pick([]int{0, 1, 999999, 1000000, 1000001}))
		case 1:
			v = 65535*ms + int64(r.Pick([]int{-1, 0, 1, 999999, 1000000, 1000001}))
		case 2:
			v = -int64(r.Pick([]int{1, 2, 999999, 1000000, 1000001, 65535000000}))
		case 3:
			v = []int64{9223372036854775807, -9223372036854775808, -9223372036854775807, 9223372036854775806, 1 << 32, 1<<32 - 1, 1 << 48}[r.Intn(7)]
		case 4:
			v = int64(r.Intn(65536))*ms + int64(r.Intn(1000000)) // not a whole number of milliseconds
		case 5:
			v = int64(r.U64()) // anything
		default:
			v = int64(r.Intn(65536)) * ms
		}
		return strconv.FormatInt(v, 10)
	}
	addrTok := func() string {
		switch r.Intn(10) {
		case 0:
			return "-"
		case 1:
			return hx(r.Bytes(4))
		case 2:
			return hx(r.Bytes(r.Pick([]int{1, 2, 3, 5, 8, 12, 15, 17, 20, 32, 40})))
		case 3:
			return hx(addrs[r.Intn(len(addrs))])
		}
		return hx(r.Bytes(16))
	}
	for c := 0; c < nser; c++ {
		emit("reset")
		n := r.Pick(psizes)
		if r.Chance(25) {
			n = r.Intn(1600)
		}
		k := kinds[r.Intn(3)]
		d, a := durTok(), addrTok()
		emit(fmt.Sprintf("lmld ser %s %d %d %s %s %s %s", k, r.Intn(2), r.Intn(2), hists[r.Intn(len(hists))], d, a, payloadTok(n)))
		if r.Chance(80) {
			emit(fmt.Sprintf("lmld rt %s %s %s %s", k, d, a, payloadTok(r.Pick(psizes))))
		}
		if r.Chance(30) {
			emit(fmt.Sprintf("lmld rt %s %s %s %s", kinds[r.Intn(3)], durTok(), hx(r.Bytes(16)), payloadTok(r.Intn(30))))
		}
	}
	// every {fix,csum} x every history on fixed shapes
	for _, shape := range []string{
		"10000000000 ff0200000000000000000db811223344", // 10 s, a multicast group
		"0 00000000000000000000000000000000",            // general query
		"65535000000 e00000fb",                          // largest delay, 4-byte IPv4 address (mapped by To16)
		"65536000000 ff0200000000000000000db811223344", // delay too large: error after PrependBytes
		"-1 ff0200000000000000000db811223344",          // negative delay: error
		"1500000 ff02",                                  // invalid address length: error after 4 bytes were written
		"1500000 -",                                     // no address
	} {
		for _, n := range []int{0, 5, 1500} {
			for fix := 0; fix < 2; fix++ {
				for cs := 0; cs < 2; cs++ {
					emit("reset")
					for _, h := range hists {
						emit(fmt.Sprintf("lmld ser %s %d %d %s %s %s", kinds[r.Intn(3)], fix, cs, h, shape, payloadTok(n)))
					}
				}
			}
		}
	}
	// payloads beyond 64 KiB (the body has no length field; ICMPv6/IPv6 in front delimit it)
	big := []int{65535, 65536, 65537, 70000}
	if !thorough {
		big = []int{65537}
	}
	for _, n := range big {
		emit("reset")
		emit(fmt.Sprintf("lmld ser report 1 1 dirty165 10000000000 ff0200000000000000000db811223344 z%dx5a", n))
		for _, k := range kinds {
			emit(fmt.Sprintf("lmld rt %s 10000000000 ff0200000000000000000db811223344 z%dx5a", k, n))
		}
	}

	// F. the selection of the layer by the ICMPv6 type byte: every type x body lengths around 20
	for _, n := range []int{0, 1, 19, 20, 21, 24, 28, 44} {
		emit("reset")
		body := r.Bytes(n)
		for t := 0; t < 256; t++ {
			if !thorough && !(t >= 126 && t <= 145) && !r.Chance(6) {
				continue
			}
			m := append([]byte{byte(t), byte(r.Intn(2) * r.Intn(256)), 0, 0}, body...)
			c := r.Intn(12)
			emit(fmt.Sprintf("lmld pkt icmp6 nocopy %d %s %s", c, hx(foreignOf(c)), hx(m)))
			emit(fmt.Sprintf("lmld redlp icmp6 %s", hx(m)))
			if t >= 128 && t <= 145 {
				emit(fmt.Sprintf("lmld pb icmp6 %s", hx(m)))
				emit(fmt.Sprintf("lmld pkt icmp6 copy 0 - %s", hx(m)))
			}
		}
	}

	// G. malformed stream: random bytes of every small length, as every type
	nmal := 300
	if thorough {
		nmal = 10000
	}
	for c := 0; c < nmal; c++ {
		emit("reset")
		n := r.Intn(44)
		if r.Chance(10) {
			n = r.Intn(1100)
		}
		d := r.Bytes(n)
		sp := r.Intn(30)
		for _, k := range kinds {
			emit(fmt.Sprintf("lmld dec %s %d %s %s", k, sp, hx(foreignOf(sp)), hx(d)))
			emit(fmt.Sprintf("lmld dlp %s %s", k, hx(d)))
			emit(fmt.Sprintf("lmld rtdec %s %s", k, hx(d)))
			if r.Chance(30) {
				emit(fmt.Sprintf("lmld pkt %s nocopy %d %s %s", k, sp, hx(foreignOf(sp)), hx(d)))
				emit(fmt.Sprintf("lmld pb %s %s", k, hx(d)))
			}
		}
		if n >= 1 {
			d[0] = byte(r.Pick([]int{130, 131, 132, int(d[0])}))
		}
		emit(fmt.Sprintf("lmld pkt icmp6 nocopy %d %s %s", sp, hx(foreignOf(sp)), hx(d)))
		emit(fmt.Sprintf("lmld dlp icmp6 %s", hx(d)))
	}
	// unparseable ops: both sides answer bad-op
	emit("reset")
	emit("lmld dec query x - 00")
	emit("lmld dec mldv3 0 - 00")
	emit("lmld ser report 1 1 fresh 1 2")
	emit("lmld ser report 1 1 fresh 99999999999999999999 - -")
	emit("lmld nonsense")
}
