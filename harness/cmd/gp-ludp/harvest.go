package main

// `gp-ludp harvest <repo>` : harvest UDP datagrams from the []byte literals of the
// repository's own layers/*_test.go files (decode each literal as every plausible first
// layer; keep the exact bytes that were handed to the UDP decoder plus the enclosing IP
// addresses).  Output = fixtures.txt lines `<pseudo> <hex>`; embedded into the generator.

import (
	"fmt"
	"go/ast"
	"go/parser"
	"go/token"
	"os"
	"path/filepath"
	"sort"
	"strconv"

	"github.com/gopacket/gopacket"
	"github.com/gopacket/gopacket/layers"
	"verif/harness/lib"
)

func literalBytes(cl *ast.CompositeLit) ([]byte, bool) {
	at, ok := cl.Type.(*ast.ArrayType)
	if !ok || at.Len != nil {
		return nil, false
	}
	id, ok := at.Elt.(*ast.Ident)
	if !ok || (id.Name != "byte" && id.Name != "uint8") {
		return nil, false
	}
	out := make([]byte, 0, len(cl.Elts))
	for _, e := range cl.Elts {
		bl, ok := e.(*ast.BasicLit)
		if !ok || (bl.Kind != token.INT && bl.Kind != token.CHAR) {
			return nil, false
		}
		if bl.Kind == token.CHAR {
			s, err := strconv.Unquote(bl.Value)
			if err != nil || len(s) != 1 {
				return nil, false
			}
			out = append(out, s[0])
			continue
		}
		v, err := strconv.ParseUint(bl.Value, 0, 8)
		if err != nil {
			return nil, false
		}
		out = append(out, byte(v))
	}
	return out, true
}

func harvest(repo string) {
	files, _ := filepath.Glob(filepath.Join(repo, "layers", "*_test.go"))
	more, _ := filepath.Glob(filepath.Join(repo, "*_test.go"))
	files = append(files, more...)
	sort.Strings(files)
	seen := map[string]bool{}
	var lines []string
	firsts := []gopacket.Decoder{layers.LinkTypeEthernet, layers.LayerTypeIPv4, layers.LayerTypeIPv6,
		layers.LinkTypeLinuxSLL, layers.LinkTypeLoop, layers.LinkTypeNull, layers.LinkTypeRaw, layers.LinkTypePPP}
	fset := token.NewFileSet()
	for _, fn := range files {
		f, err := parser.ParseFile(fset, fn, nil, 0)
		if err != nil {
			continue
		}
		ast.Inspect(f, func(n ast.Node) bool {
			cl, ok := n.(*ast.CompositeLit)
			if !ok {
				return true
			}
			data, ok := literalBytes(cl)
			if !ok || len(data) < 8 || len(data) > 4000 {
				return true
			}
			for _, first := range firsts {
				func() {
					defer func() { recover() }()
					p := gopacket.NewPacket(data, first, gopacket.DecodeOptions{})
					ls := p.Layers()
					for i, l := range ls {
						if l.LayerType() != layers.LayerTypeUDP || i == 0 {
							continue
						}
						raw := ls[i-1].LayerPayload()
						if len(raw) == 0 || len(raw) > 2000 {
							continue
						}
						pseudo := "none"
						for j := i - 1; j >= 0; j-- {
							if ip, ok := ls[j].(*layers.IPv4); ok {
								pseudo = "v4:" + lib.Hex(ip.SrcIP) + ":" + lib.Hex(ip.DstIP)
								break
							}
							if ip, ok := ls[j].(*layers.IPv6); ok {
								pseudo = "v6:" + lib.Hex(ip.SrcIP) + ":" + lib.Hex(ip.DstIP)
								break
							}
						}
						h := lib.Hex(raw)
						if !seen[h] {
							seen[h] = true
							lines = append(lines, pseudo+" "+h)
						}
					}
				}()
			}
			return true
		})
	}
	sort.Strings(lines)
	for _, l := range lines {
		fmt.Println(l)
	}
	fmt.Fprintf(os.Stderr, "harvested %d UDP datagrams from %d test files\n", len(lines), len(files))
}
