package main

import (
	"fmt"
	"strings"

	"verif/harness/lib"
)

type fixture struct {
	pseudo string
	data   []byte
}

func loadFixtures() []fixture {
	var out []fixture
	for _, l := range strings.Split(fixturesTxt, "\n") {
		f := strings.Fields(l)
		if len(f) != 2 {
			continue
		}
		b, ok := lib.UnHex(f[1])
		if !ok {
			continue
		}
		out = append(out, fixture{f[0], b})
	}
	return out
}

func hx(b []byte) string { return lib.Hex(b) }

func be16(v int) []byte { return []byte{byte(v >> 8), byte(v)} }

func withLen(d []byte, l int) []byte {
	c := append([]byte(nil), d...)
	if len(c) >= 6 {
		c[4], c[5] = byte(l>>8), byte(l)
	}
	return c
}

// mkDatagram builds header+payload with the given Length field value.
func mkDatagram(sp, dp, length, csum int, payload []byte) []byte {
	d := append(be16(sp), be16(dp)...)
	d = append(d, be16(length)...)
	d = append(d, be16(csum)...)
	return append(d, payload...)
}

var interestingPorts = []int{0, 1, 53, 67, 68, 123, 546, 547, 623, 666, 1000, 1812, 2123, 2152, 2222, 3784, 3868, 4789, 5060, 5082, 5083, 6081, 6343, 44818, 65535, 4000, 35181}

func randPort(r *lib.Rand) int {
	if r.Chance(40) {
		return r.Pick(interestingPorts)
	}
	return r.Intn(65536)
}

// non-decodable-next ports (payload type) so that NewPacket results are fully predictable
func plainPort(r *lib.Rand) int { return r.Pick([]int{0, 1, 7, 4000, 35181, 65535, 9999, 40000}) }

func randPseudo(r *lib.Rand) string {
	switch r.Intn(10) {
	case 0:
		return "none"
	case 1, 2, 3, 4:
		return "v4:" + hx(r.Bytes(4)) + ":" + hx(r.Bytes(4))
	case 5:
		// v4-mapped 16-byte form and a plain 4-byte one
		m := append(append(make([]byte, 10), 0xff, 0xff), r.Bytes(4)...)
		return "v4:" + hx(m) + ":" + hx(r.Bytes(4))
	case 6:
		return "v4:" + hx(r.Bytes(r.Pick([]int{0, 3, 5, 16}))) + ":" + hx(r.Bytes(4)) // mostly invalid
	case 7, 8:
		return "v6:" + hx(r.Bytes(16)) + ":" + hx(r.Bytes(16))
	default:
		return "v6:" + hx(r.Bytes(r.Pick([]int{0, 4, 15, 17}))) + ":" + hx(r.Bytes(16)) // invalid
	}
}

func validPseudo(r *lib.Rand, v6 bool) string {
	if v6 {
		return "v6:" + hx(r.Bytes(16)) + ":" + hx(r.Bytes(16))
	}
	return "v4:" + hx(r.Bytes(4)) + ":" + hx(r.Bytes(4))
}

func payloadTok(r *lib.Rand, n int) string {
	if n == 0 {
		return "-"
	}
	if n > 200 {
		return fmt.Sprintf("pat:%d:%d:%d", n, r.Intn(256), r.Intn(256))
	}
	return hx(r.Bytes(n))
}

func payloadSize(r *lib.Rand, big bool) int {
	if big {
		return r.Pick([]int{65526, 65527, 65528, 65529, 65535, 65536, 65537, 70000, 131064, 131080})
	}
	switch r.Intn(12) {
	case 0:
		return 0
	case 1:
		return 1
	case 2:
		return 2
	case 3:
		return 3 + 2*r.Intn(20) // odd
	case 4, 5:
		return 1480 + r.Intn(41)
	case 6:
		return 8 + r.Intn(64)
	default:
		return r.Intn(100)
	}
}

var bufHists = []string{"fresh", "dirty165", "dirty90", "dirty255", "dirty0", "sized0_0", "sized8_0", "sized7_3", "sized100_100", "sized2000_0"}

// ones-complement helpers used only to CRAFT inputs whose checksum folds to zero
func osum(b []byte, s uint32) uint32 {
	for i := 0; i+1 < len(b); i += 2 {
		s += uint32(b[i])<<8 | uint32(b[i+1])
	}
	if len(b)%2 == 1 {
		s += uint32(b[len(b)-1]) << 8
	}
	return s
}

func fold16(s uint32) uint32 {
	for s > 0xffff {
		s = (s >> 16) + (s & 0xffff)
	}
	return s
}

// craftZero returns (src4,dst4,sp,dp,payload) whose UDP/IPv4 checksum computes to 0 (emitted as 0xffff).
func craftZero(r *lib.Rand) (s4, d4 []byte, sp, dp int, payload []byte) {
	s4, d4 = r.Bytes(4), r.Bytes(4)
	sp, dp = randPort(r), randPort(r)
	n := 2 * (1 + r.Intn(20))
	payload = r.Bytes(n)
	payload[n-2], payload[n-1] = 0, 0
	hdr := mkDatagram(sp, dp, n+8, 0, payload)
	s := osum(s4, 0)
	s = osum(d4, s)
	s += 17 + uint32(n+8)
	s = fold16(osum(hdr, s))
	x := 0xffff - s
	payload[n-2], payload[n-1] = byte(x>>8), byte(x)
	return
}

func gen(r *lib.Rand, tier string, emit func(string)) {
	thorough := tier == "thorough"
	fx := loadFixtures()
	containers := []string{"map", "sparse", "array"}
	ci := 0
	cont := func() string { ci++; return containers[ci%3] }

	// ---- 1. fixtures: whole, every truncation, header mutations, spare capacity
	for _, f := range fx {
		h := hx(f.data)
		emit("reset")
		emit("ludp dec 0 - " + h)
		emit("ludp redec " + h)
		emit("ludp dlp " + cont() + " " + h)
		for fl := 0; fl < 16; fl++ {
			emit(fmt.Sprintf("ludp pkt %d 0 - %s", fl, h))
		}
		emit("ludp pkt 2 16 " + hx(r.Bytes(16)) + " " + h)
		emit("ludp verify " + f.pseudo + " " + h)
		emit("ludp verify none " + h)
		emit("ludp setports")
		// reverse direction of the same conversation
		if len(f.data) >= 8 {
			rev := append([]byte(nil), f.data...)
			copy(rev[0:2], f.data[2:4])
			copy(rev[2:4], f.data[0:2])
			emit("ludp flowpair " + h + " " + hx(rev))
			emit("ludp flowpair " + h + " " + h)
		}
		// round trip of the decoded field values over the decoded payload
		if len(f.data) >= 8 && f.pseudo != "none" {
			l := int(f.data[4])<<8 | int(f.data[5])
			end := len(f.data)
			if l >= 8 && l < end {
				end = l
			}
			emit(fmt.Sprintf("ludp rt %s %d %d %d %d %s", f.pseudo, int(f.data[0])<<8|int(f.data[1]), int(f.data[2])<<8|int(f.data[3]), l, int(f.data[6])<<8|int(f.data[7]), hx(f.data[8:end])))
		}
		// every truncation, decoded into the object that just held the full datagram (stale state)
		step := 1
		if len(f.data) > 300 && !thorough {
			step = 7
		}
		for t := 0; t <= len(f.data); t++ {
			if t > 24 && t < len(f.data)-8 && t%step != 0 {
				continue
			}
			emit("reset")
			emit("ludp dec 0 - " + h)
			emit("ludp redec " + hx(f.data[:t]))
			emit("ludp dlp " + cont() + " " + h)
			emit("ludp dlp " + containers[ci%3] + " " + hx(f.data[:t]))
			emit(fmt.Sprintf("ludp pkt %d 0 - %s", r.Intn(16), hx(f.data[:t])))
			// the truncated datagram sits in a larger buffer whose tail still holds the rest (NoCopy)
			emit(fmt.Sprintf("ludp dec %d %s %s", len(f.data)-t, hx(f.data[t:]), hx(f.data[:t])))
			emit(fmt.Sprintf("ludp pkt 2 %d %s %s", len(f.data)-t, hx(f.data[t:]), hx(f.data[:t])))
		}
		// Length field boundary values
		for _, l := range []int{0, 1, 7, 8, 9, len(f.data) - 1, len(f.data), len(f.data) + 1, 0x7fff, 0x8000, 0xffff} {
			if l < 0 {
				continue
			}
			m := withLen(f.data, l)
			emit("reset")
			emit("ludp dec 0 - " + hx(m))
			emit("ludp redec " + h)
			emit("ludp redec " + hx(m))
			emit(fmt.Sprintf("ludp pkt %d 0 - %s", r.Intn(16), hx(m)))
			emit(fmt.Sprintf("ludp dec 8 %s %s", hx(r.Bytes(8)), hx(m)))
			emit("ludp dlp " + cont() + " " + hx(m))
		}
		// single header byte mutations
		for i := 0; i < 8 && i < len(f.data); i++ {
			for _, v := range []byte{0x00, 0x01, 0x7f, 0x80, 0xff} {
				m := append([]byte(nil), f.data...)
				m[i] = v
				emit("reset")
				emit("ludp dec 0 - " + hx(m))
				emit("ludp verify " + f.pseudo + " " + hx(m))
				emit(fmt.Sprintf("ludp pkt %d 0 - %s", r.Intn(16), hx(m)))
			}
		}
	}

	// ---- 2. exhaustive small scope: every datagram length 0..14 x Length field values x spare capacity
	for n := 0; n <= 14; n++ {
		for _, l := range []int{0, 1, 2, 7, 8, 9, 10, 11, 12, 13, 14, 15, 255, 256, 0xffff} {
			d := make([]byte, n)
			for i := range d {
				d[i] = byte(0x10 + i)
			}
			d = withLen(d, l)
			for _, extra := range []int{0, 1, 8} {
				emit("reset")
				emit(fmt.Sprintf("ludp dec %d %s %s", extra, hx(r.Bytes(extra)), hx(d)))
				emit("ludp setports")
				emit(fmt.Sprintf("ludp pkt %d %d %s %s", (n+l+extra)%16, extra, hx(r.Bytes(extra)), hx(d)))
				emit("ludp dlp " + cont() + " " + hx(d))
			}
		}
	}

	// ---- 3. ordered pairs / triples decoded into the same object (stale state)
	shapes := func() [][]byte {
		p := r.Bytes(12)
		return [][]byte{
			{}, {1, 2, 3}, r.Bytes(7), // short
			mkDatagram(53, 4000, 3, 0, p),              // Length 1..7 error
			mkDatagram(4000, 53, 8, 0x1234, nil),       // exact, empty payload
			mkDatagram(1, 2, 20, 0, p),                 // exact
			mkDatagram(65535, 0, 14, 9, p),             // trailing bytes
			mkDatagram(7, 7, 400, 0xffff, p),           // truncated
			mkDatagram(123, 123, 0, 0, p),              // jumbo form
			mkDatagram(9, 10, 0, 0, nil),               // jumbo form, empty
			mkDatagram(40000, 40001, 9, 1, []byte{0xee}),
		}
	}()
	for i, a := range shapes {
		for j, b := range shapes {
			emit("reset")
			emit("ludp dec 0 - " + hx(a))
			emit("ludp redec " + hx(b))
			emit("ludp redec " + hx(a))
			c := cont()
			emit("ludp dlp " + c + " " + hx(a))
			emit("ludp dlp " + c + " " + hx(b))
			if (i+j)%3 == 0 {
				k := shapes[(i*7+j*3)%len(shapes)]
				emit("ludp redec " + hx(k))
				emit("ludp dlp " + c + " " + hx(k))
			}
		}
	}

	// ---- 4. NextLayerType: every destination port, every source port, overrides
	emit("reset")
	for p := 0; p < 65536; p++ {
		emit(fmt.Sprintf("ludp nlt 4000 %d", p))
	}
	emit("reset")
	for p := 0; p < 65536; p++ {
		emit(fmt.Sprintf("ludp nlt %d 4001", p))
	}
	npairs := 400
	if thorough {
		npairs = 20000
	}
	emit("reset")
	for i := 0; i < npairs; i++ {
		emit(fmt.Sprintf("ludp nlt %d %d", randPort(r), randPort(r)))
	}
	for c := 0; c < 40; c++ {
		emit("reset")
		var ps []int
		for k := 0; k < 1+r.Intn(4); k++ {
			p := randPort(r)
			ps = append(ps, p)
			emit(fmt.Sprintf("ludp regport %d %d", p, r.Pick([]int{2, 107, 45, 0, 9999, 117})))
		}
		if r.Chance(50) { // re-register: most recent wins
			emit(fmt.Sprintf("ludp regport %d %d", ps[0], r.Pick([]int{2, 107, 44})))
		}
		for _, p := range ps {
			emit(fmt.Sprintf("ludp nlt 4000 %d", p))
			emit(fmt.Sprintf("ludp nlt %d 4000", p))
			emit(fmt.Sprintf("ludp nlt %d 53", p))
			emit(fmt.Sprintf("ludp nlt 53 %d", p))
			d := mkDatagram(4000, p, 12, 0, []byte{1, 2, 3, 4})
			emit("ludp dec 0 - " + hx(d))
			emit("ludp pkt 0 0 - " + hx(d))
		}
	}

	// ---- 5. serialisation: all four option sets, buffer histories, payload sizes, pseudo headers
	nser := 700
	if thorough {
		nser = 12000
	}
	for c := 0; c < nser; c++ {
		n := payloadSize(r, c%12 == 0)
		pl := payloadTok(r, n)
		ps := randPseudo(r)
		sp, dp, ln, ck := randPort(r), randPort(r), r.Pick([]int{0, 7, 8, n + 8, r.Intn(65536)}) % 65536, r.Pick([]int{0, 0xffff, r.Intn(65536)})
		emit("reset")
		for o := 0; o < 4; o++ {
			if n > 2000 && o != (c/12)%4 {
				continue // big payloads: one option set per case
			}
			h := r.Pick([]int{0, 1, 2, 3, 4, 5, 6, 7, 8, 9})
			emit(fmt.Sprintf("ludp ser %d %d %s %s %d %d %d %d %s", o&1, o>>1, bufHists[h], ps, sp, dp, ln, ck, pl))
			emit("ludp reser " + bufHists[(h+1+r.Intn(9))%10])
			if n <= 2000 {
				emit("ludp reser fresh")
			}
		}
	}
	// checksum that computes to zero → must be emitted as 0xffff
	nz := 40
	if thorough {
		nz = 1000
	}
	for c := 0; c < nz; c++ {
		s4, d4, sp, dp, payload := craftZero(r)
		emit("reset")
		ps := "v4:" + hx(s4) + ":" + hx(d4)
		emit(fmt.Sprintf("ludp ser 1 1 %s %s %d %d 0 0 %s", bufHists[r.Intn(10)], ps, sp, dp, hx(payload)))
		emit("ludp reser dirty165")
		emit(fmt.Sprintf("ludp rt %s %d %d 0 0 %s", ps, sp, dp, hx(payload)))
		emit(fmt.Sprintf("ludp verify %s %s", ps, hx(mkDatagram(sp, dp, len(payload)+8, 0xffff, payload))))
	}

	// ---- 6. round trips: in-range construction
	nrt := 500
	if thorough {
		nrt = 10000
	}
	for c := 0; c < nrt; c++ {
		big := c%10 == 0
		n := payloadSize(r, big)
		v6 := r.Chance(40) || n+8 > 65535 && r.Chance(80)
		ps := validPseudo(r, v6)
		if r.Chance(5) {
			ps = randPseudo(r)
		}
		emit("reset")
		emit(fmt.Sprintf("ludp rt %s %d %d %d %d %s", ps, randPort(r), randPort(r), r.Intn(65536), r.Intn(65536), payloadTok(r, n)))
	}

	// ---- 7. flows: both directions, unrelated datagrams
	nfl := 200
	if thorough {
		nfl = 5000
	}
	for c := 0; c < nfl; c++ {
		sp, dp := randPort(r), randPort(r)
		pa, pb := r.Bytes(r.Intn(6)), r.Bytes(r.Intn(6))
		a := mkDatagram(sp, dp, len(pa)+8, r.Intn(65536), pa)
		b := mkDatagram(dp, sp, len(pb)+8, r.Intn(65536), pb)
		emit("reset")
		emit("ludp flowpair " + hx(a) + " " + hx(b))
		if r.Chance(40) {
			x := mkDatagram(randPort(r), dp, 8, 0, nil)
			emit("ludp flowpair " + hx(a) + " " + hx(x))
		}
		emit("ludp dec 0 - " + hx(a))
		emit("ludp redec " + hx(b))
	}

	// ---- 8. random / malformed stream
	nrand := 1500
	if thorough {
		nrand = 40000
	}
	for c := 0; c < nrand; c++ {
		var d []byte
		switch r.Intn(4) {
		case 0:
			d = r.Bytes(r.Intn(24))
		case 1:
			n := r.Intn(40)
			d = mkDatagram(plainPort(r), plainPort(r), r.Pick([]int{0, 1, 7, 8, n + 8, n + 7, n + 9, r.Intn(65536)}), r.Intn(65536), r.Bytes(n))
		case 2:
			n := r.Intn(40)
			d = mkDatagram(randPort(r), randPort(r), n+8, r.Intn(65536), r.Bytes(n))
		default:
			n := r.Pick([]int{1472, 1480, 1500, 2000, 9000})
			d = mkDatagram(plainPort(r), plainPort(r), r.Pick([]int{0, n + 8, n, 65535}), 0, r.Bytes(n))
		}
		extra := r.Pick([]int{0, 0, 1, 4, 64})
		emit("reset")
		emit(fmt.Sprintf("ludp dec %d %s %s", extra, hx(r.Bytes(extra)), hx(d)))
		emit("ludp redec " + hx(r.Bytes(r.Intn(12))))
		emit("ludp redec " + hx(d))
		emit(fmt.Sprintf("ludp pkt %d %d %s %s", r.Intn(16), extra, hx(r.Bytes(extra)), hx(d)))
		emit("ludp dlp " + cont() + " " + hx(d))
		if r.Chance(30) {
			emit("ludp verify " + randPseudo(r) + " " + hx(d))
		}
	}
	// unparseable ops answer bad-op on both sides
	emit("reset")
	emit("ludp dec 1 - 00")
	emit("ludp dec 0 - zz")
	emit("ludp frob")
	emit("ludp ser 1 1 fresh v5:00:00 1 2 3 4 -")
	emit("ludp reser fresh")
}
