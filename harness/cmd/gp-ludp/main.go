// gp-ludp: correspondence adapter + monitors for engine `ludp` (layers/udp.go).
// Properties served: C19 (no panic), C05 (no stale state / capacity independence),
// C06 (round trip), C07 (serialisation total / buffer independent / idempotent), C17 (flows).
package main

import (
	"bytes"
	_ "embed"
	"fmt"
	"net"
	"os"
	"path/filepath"
	"reflect"
	"runtime"
	"runtime/debug"
	"strconv"
	"strings"
	"time"

	"github.com/gopacket/gopacket"
	"github.com/gopacket/gopacket/layers"
	"verif/harness/lib"
)

//go:embed fixtures.txt
var fixturesTxt string

// ---------------------------------------------------------------- panic sites

var (
	lastSite, lastMsg string
	repoRoot          = func() string {
		// directory of the gopacket module actually linked in (may be a scratch worktree)
		f := runtime.FuncForPC(reflect.ValueOf(gopacket.NewPacket).Pointer())
		if f == nil {
			return ""
		}
		file, _ := f.FileLine(f.Entry())
		return filepath.Dir(file) + "/"
	}()
)

// protect runs f; a panic becomes ("panic <kind>", true) and lastSite = top-most frame inside
// the gopacket module, relative to its root (e.g. layers/udp.go:44).
func protect(f func() string) (reply string, panicked bool) {
	defer func() {
		if v := recover(); v != nil {
			lastMsg = fmt.Sprint(v)
			lastSite = "?"
			for _, l := range strings.Split(string(debug.Stack()), "\n") {
				l = strings.TrimSpace(l)
				if repoRoot != "" && strings.HasPrefix(l, repoRoot) {
					lastSite = strings.Fields(strings.TrimPrefix(l, repoRoot))[0]
					break
				}
			}
			reply = "panic " + lib.PanicKind(v)
			panicked = true
		}
	}()
	return f(), false
}

// ---------------------------------------------------------------- canonical rendering

func fnv32(b []byte) uint32 {
	h := uint32(2166136261)
	for _, c := range b {
		h = (h ^ uint32(c)) * 16777619
	}
	return h
}

// rb renders a byte string: hex up to 128 bytes, else prefix + length + FNV-1a/32.
func rb(b []byte) string {
	if len(b) <= 128 {
		return lib.Hex(b)
	}
	return lib.Hex(b[:16]) + ".." + strconv.Itoa(len(b)) + "h" + strconv.FormatUint(uint64(fnv32(b)), 10)
}

func flowParts(u *layers.UDP) (typ int, src, dst []byte) {
	f := u.TransportFlow()
	s, d := f.Endpoints()
	return int(f.EndpointType()), s.Raw(), d.Raw()
}

func render(u *layers.UDP) string {
	_, s, d := flowParts(u)
	return fmt.Sprintf("src=%d dst=%d len=%d csum=%d sport=%s dport=%s contents=%s payload=%s",
		uint16(u.SrcPort), uint16(u.DstPort), u.Length, u.Checksum, rb(s), rb(d), rb(u.Contents), rb(u.Payload))
}

func flowStr(u *layers.UDP) string {
	t, s, d := flowParts(u)
	return fmt.Sprintf("%d:%s:%s", t, rb(s), rb(d))
}

func b01(b bool) string {
	if b {
		return "1"
	}
	return "0"
}

type fb struct{ trunc bool }

func (f *fb) SetTruncated() { f.trunc = true }

// ---------------------------------------------------------------- token parsing

func bytesTok(s string) ([]byte, bool) {
	if s == "-" {
		return []byte{}, true
	}
	if strings.HasPrefix(s, "pat:") {
		p := strings.Split(s, ":")
		if len(p) != 4 {
			return nil, false
		}
		n, ok1 := lib.Atoi(p[1])
		a, ok2 := lib.Atoi(p[2])
		b, ok3 := lib.Atoi(p[3])
		if !ok1 || !ok2 || !ok3 || n < 0 || a < 0 || b < 0 || n > 200000 {
			return nil, false
		}
		out := make([]byte, n)
		for i := range out {
			out[i] = byte((a + i*b) % 256)
		}
		return out, true
	}
	return lib.UnHex(s)
}

type pseudo struct {
	kind     string // none v4 v6
	src, dst []byte
}

func pseudoTok(s string) (pseudo, bool) {
	if s == "none" {
		return pseudo{kind: "none"}, true
	}
	p := strings.Split(s, ":")
	if len(p) != 3 || (p[0] != "v4" && p[0] != "v6") {
		return pseudo{}, false
	}
	a, ok1 := bytesTok(p[1])
	b, ok2 := bytesTok(p[2])
	if !ok1 || !ok2 {
		return pseudo{}, false
	}
	return pseudo{p[0], a, b}, true
}

func (p pseudo) attach(u *layers.UDP) {
	switch p.kind {
	case "v4":
		u.SetNetworkLayerForChecksum(&layers.IPv4{SrcIP: net.IP(append([]byte(nil), p.src...)), DstIP: net.IP(append([]byte(nil), p.dst...))})
	case "v6":
		u.SetNetworkLayerForChecksum(&layers.IPv6{SrcIP: net.IP(append([]byte(nil), p.src...)), DstIP: net.IP(append([]byte(nil), p.dst...))})
	}
}

func u16Tok(s string) (uint16, bool) {
	n, ok := lib.Atoi(s)
	if !ok || n < 0 || n > 65535 {
		return 0, false
	}
	return uint16(n), true
}

func boolTok(s string) (bool, bool) {
	switch s {
	case "1":
		return true, true
	case "0":
		return false, true
	}
	return false, false
}

// bufTok builds a serialize buffer with the named history.
func bufTok(s string, plen int) (gopacket.SerializeBuffer, bool) {
	switch {
	case s == "fresh":
		return gopacket.NewSerializeBuffer(), true
	case strings.HasPrefix(s, "sized"):
		p := strings.Split(s[5:], "_")
		if len(p) != 2 {
			return nil, false
		}
		a, ok1 := lib.Atoi(p[0])
		b, ok2 := lib.Atoi(p[1])
		if !ok1 || !ok2 || a < 0 || b < 0 || a > 200000 || b > 200000 {
			return nil, false
		}
		return gopacket.NewSerializeBufferExpectedSize(a, b), true
	case strings.HasPrefix(s, "dirty"):
		v, ok := lib.Atoi(s[5:])
		if !ok || v < 0 || v > 255 {
			return nil, false
		}
		buf := gopacket.NewSerializeBuffer()
		x, _ := buf.AppendBytes(24)
		for i := range x {
			x[i] = byte(v)
		}
		y, _ := buf.PrependBytes(plen + 40)
		for i := range y {
			y[i] = byte(v)
		}
		buf.Clear()
		return buf, true
	}
	return nil, false
}

// ---------------------------------------------------------------- state

var (
	cur        *layers.UDP
	dlpUDP     *layers.UDP
	dlpParser  *gopacket.DecodingLayerParser
	origLT     = map[uint16]gopacket.LayerType{}
	serObj     *layers.UDP
	serPayload []byte
	serOpts    gopacket.SerializeOptions
	serFirst   []byte
	watchdog   *time.Timer
)

func reset() {
	cur = &layers.UDP{}
	dlpUDP, dlpParser = nil, nil
	for p, t := range origLT {
		layers.RegisterUDPPortLayerType(layers.UDPPort(p), t) // observably the default again
	}
	origLT = map[uint16]gopacket.LayerType{}
	serObj, serPayload, serFirst = nil, nil, nil
}

func exactCopy(data []byte) []byte {
	d := make([]byte, len(data)) // cap == len
	copy(d, data)
	return d
}

func withForeign(data, foreign []byte) []byte {
	buf := make([]byte, len(data)+len(foreign))
	copy(buf, data)
	copy(buf[len(data):], foreign)
	return buf[:len(data)]
}

func fieldDiffs(a, b *layers.UDP) []string {
	var out []string
	if a.SrcPort != b.SrcPort {
		out = append(out, "SrcPort")
	}
	if a.DstPort != b.DstPort {
		out = append(out, "DstPort")
	}
	if a.Length != b.Length {
		out = append(out, "Length")
	}
	if a.Checksum != b.Checksum {
		out = append(out, "Checksum")
	}
	if !bytes.Equal(a.Contents, b.Contents) {
		out = append(out, "Contents")
	}
	if !bytes.Equal(a.Payload, b.Payload) {
		out = append(out, "Payload")
	}
	_, as, ad := flowParts(a)
	_, bs, bd := flowParts(b)
	if !bytes.Equal(as, bs) || !bytes.Equal(ad, bd) {
		out = append(out, "TransportFlow")
	}
	return out
}

func showDec(u *layers.UDP, err error, trunc bool) string {
	pre := "ok "
	if err != nil {
		pre = "err "
	}
	return pre + render(u) + " trunc=" + b01(trunc) + " next=" + strconv.Itoa(int(u.NextLayerType())) + " flow=" + flowStr(u)
}

// directDecode runs DecodeFromBytes on u; a panic is reported (C19) and returned as reply.
func directDecode(u *layers.UDP, d []byte, f *fb) (err error, panicReply string) {
	rep, panicked := protect(func() string {
		err = u.DecodeFromBytes(d, f)
		return ""
	})
	if panicked {
		lib.Finding("C19", "ludp:panic:"+lastSite, "UDP.DecodeFromBytes panicked ("+lastMsg+") on "+rb(d))
		return nil, rep
	}
	return err, ""
}

// decodeMonitors: property oracles on one successfully executed direct decode.
func decodeMonitors(u *layers.UDP, data []byte, err error, trunc bool) {
	// C05/C04: the result must not depend on capacity / bytes beyond len: decode an exact copy
	ref := &layers.UDP{}
	rf := &fb{}
	rerr, prep := directDecode(ref, exactCopy(data), rf)
	if prep == "" {
		if (rerr != nil) != (err != nil) || rf.trunc != trunc || (err == nil && len(fieldDiffs(u, ref)) > 0) {
			lib.Finding("C05", "ludp:cap-dependent", "decode result depends on spare capacity / foreign bytes for "+rb(data))
		}
	}
	if err == nil {
		// C17: the flow carries exactly the port bytes of the input
		t, s, d := flowParts(u)
		if len(data) >= 4 && (!bytes.Equal(s, data[0:2]) || !bytes.Equal(d, data[2:4]) || t != int(layers.EndpointUDPPort)) {
			lib.Finding("C17", "ludp:flow-bytes", "TransportFlow endpoints differ from the port bytes of "+rb(data))
		}
		if uint16(u.SrcPort) != uint16(data[0])<<8|uint16(data[1]) || uint16(u.DstPort) != uint16(data[2])<<8|uint16(data[3]) {
			lib.Finding("C17", "ludp:port-fields", "SrcPort/DstPort differ from the port bytes of "+rb(data))
		}
		// independent statement of the decode contract (C06 direction: contents ++ payload is a prefix of the input)
		if !bytes.HasPrefix(data, append(append([]byte(nil), u.Contents...), u.Payload...)) {
			lib.Finding("C05", "ludp:contents-payload-not-prefix", "Contents++Payload is not a prefix of the input "+rb(data))
		}
		// C01: read-only renderers never panic
		_, panicked := protect(func() string {
			_ = gopacket.LayerString(u)
			_ = gopacket.LayerDump(u)
			_ = gopacket.LayerGoString(u)
			return ""
		})
		if panicked {
			lib.Finding("C01", "ludp:render-panic:"+lastSite, "LayerString/Dump/GoString panicked on a decoded UDP layer")
		}
	}
}

func staleMonitor(prop string, reused *layers.UDP, data []byte, err error, trunc bool) {
	ref := &layers.UDP{}
	rf := &fb{}
	rerr, prep := directDecode(ref, exactCopy(data), rf)
	if prep != "" {
		return
	}
	if (rerr != nil) != (err != nil) {
		lib.Finding(prop, "ludp:stale:error", "reused layer object and fresh one disagree on the error for "+rb(data))
		return
	}
	if rf.trunc != trunc {
		lib.Finding(prop, "ludp:stale:Truncated", "reused layer object and fresh one disagree on truncation for "+rb(data))
	}
	if err == nil {
		for _, f := range fieldDiffs(reused, ref) {
			lib.Finding(prop, "ludp:stale:"+f, "field "+f+" differs between reused and fresh layer object for "+rb(data))
		}
	}
}

// ---------------------------------------------------------------- serialisation helpers

type serOut struct {
	err      bool
	panicked string
	bytes    []byte
}

func doSerialize(u *layers.UDP, buf gopacket.SerializeBuffer, payload []byte, opts gopacket.SerializeOptions) serOut {
	var out serOut
	rep, panicked := protect(func() string {
		bs, err := buf.PrependBytes(len(payload))
		if err != nil {
			out.err = true
			return ""
		}
		copy(bs, payload)
		if err := u.SerializeTo(buf, opts); err != nil {
			out.err = true
			return ""
		}
		out.bytes = append([]byte(nil), buf.Bytes()...)
		return ""
	})
	if panicked {
		out.panicked = rep
		lib.Finding("C07", "ludp:ser-panic:"+lastSite, "UDP.SerializeTo panicked: "+lastMsg)
	}
	return out
}

func showSer(o serOut, u *layers.UDP) string {
	if o.panicked != "" {
		return o.panicked
	}
	if o.err {
		return "err"
	}
	return fmt.Sprintf("ok %s len=%d csum=%d", rb(o.bytes), u.Length, u.Checksum)
}

func cloneUDP(u *layers.UDP, ps pseudo) *layers.UDP {
	c := &layers.UDP{SrcPort: u.SrcPort, DstPort: u.DstPort, Length: u.Length, Checksum: u.Checksum}
	ps.attach(c)
	return c
}

var serPseudo pseudo

// fits: the datagram is representable (where the protocol allows): jumbograms need IPv6.
func fits(ps pseudo, plen int) bool { return ps.kind == "v6" || plen+8 <= 65535 }

func pseudoValid(ps pseudo) bool {
	switch ps.kind {
	case "v4":
		return net.IP(ps.src).To4() != nil && net.IP(ps.dst).To4() != nil
	case "v6":
		return len(ps.src) == 16 && len(ps.dst) == 16
	}
	return false
}

// ---------------------------------------------------------------- exec

func exec(a []string) string {
	if watchdog != nil {
		watchdog.Stop()
	}
	watchdog = time.AfterFunc(60*time.Second, func() {
		fmt.Fprintln(os.Stderr, "fatal error: watchdog: op did not finish: "+strings.Join(a, " ")[:40])
		os.Exit(3)
	})
	defer watchdog.Stop()
	if len(a) < 2 || a[0] != "ludp" {
		return "bad-op"
	}
	switch a[1] {
	case "dec":
		if len(a) != 5 {
			return "bad-op"
		}
		e, ok1 := lib.Atoi(a[2])
		foreign, ok2 := bytesTok(a[3])
		data, ok3 := bytesTok(a[4])
		if !ok1 || !ok2 || !ok3 || e != len(foreign) {
			return "bad-op"
		}
		before := append([]byte(nil), data...)
		d := withForeign(data, foreign)
		u := &layers.UDP{}
		f := &fb{}
		err, prep := directDecode(u, d, f)
		if prep != "" {
			return prep
		}
		cur = u
		if !bytes.Equal(d, before) || !bytes.Equal(d[:cap(d)][len(d):], foreign) {
			lib.Finding("C02", "ludp:decode-writes-input", "DecodeFromBytes modified its input buffer")
		}
		decodeMonitors(u, d, err, f.trunc)
		statDecode("dec", data, err, f.trunc, u)
		if e > 0 {
			lib.Stat("dec:spare-capacity")
		}
		return showDec(u, err, f.trunc)
	case "redec":
		if len(a) != 3 {
			return "bad-op"
		}
		data, ok := bytesTok(a[2])
		if !ok {
			return "bad-op"
		}
		d := exactCopy(data)
		f := &fb{}
		err, prep := directDecode(cur, d, f)
		if prep != "" {
			return prep
		}
		staleMonitor("C05", cur, data, err, f.trunc)
		statDecode("redec", data, err, f.trunc, cur)
		return showDec(cur, err, f.trunc)
	case "dlp":
		if len(a) != 4 {
			return "bad-op"
		}
		data, ok := bytesTok(a[3])
		if !ok || (a[2] != "map" && a[2] != "sparse" && a[2] != "array") {
			return "bad-op"
		}
		if dlpParser == nil {
			dlpUDP = &layers.UDP{}
			dlpParser = gopacket.NewDecodingLayerParser(layers.LayerTypeUDP, dlpUDP)
			switch a[2] {
			case "sparse":
				dlpParser.SetDecodingLayerContainer(gopacket.DecodingLayerSparse(nil).Put(dlpUDP))
			case "array":
				dlpParser.SetDecodingLayerContainer(gopacket.DecodingLayerArray(nil).Put(dlpUDP))
			}
			dlpParser.IgnorePanic = true // let panics through (C19)
			dlpParser.IgnoreUnsupported = true
		}
		d := exactCopy(data)
		var decoded []gopacket.LayerType
		var err error
		rep, panicked := protect(func() string {
			err = dlpParser.DecodeLayers(d, &decoded)
			return ""
		})
		if panicked {
			lib.Finding("C19", "ludp:panic:"+lastSite, "DecodingLayerParser (IgnorePanic) panicked on "+rb(d))
			return rep
		}
		staleMonitor("C05", dlpUDP, data, err, dlpParser.Truncated)
		lib.Stat("dlp:" + a[2])
		pre := "ok "
		if err != nil {
			pre = "err "
		}
		return pre + render(dlpUDP) + " trunc=" + b01(dlpParser.Truncated) + " decoded=" + strconv.Itoa(len(decoded))
	case "pkt":
		if len(a) != 6 {
			return "bad-op"
		}
		fl, ok0 := lib.Atoi(a[2])
		e, ok1 := lib.Atoi(a[3])
		foreign, ok2 := bytesTok(a[4])
		data, ok3 := bytesTok(a[5])
		if !ok0 || !ok1 || !ok2 || !ok3 || e != len(foreign) || fl < 0 || fl > 15 {
			return "bad-op"
		}
		return execPkt(fl, data, foreign)
	case "nlt":
		if len(a) != 4 {
			return "bad-op"
		}
		sp, ok1 := u16Tok(a[2])
		dp, ok2 := u16Tok(a[3])
		if !ok1 || !ok2 {
			return "bad-op"
		}
		u := &layers.UDP{SrcPort: layers.UDPPort(sp), DstPort: layers.UDPPort(dp)}
		lt := u.NextLayerType()
		if lt != gopacket.LayerTypePayload {
			lib.Stat("nlt:known-port")
		}
		return "ok " + strconv.Itoa(int(lt))
	case "regport":
		if len(a) != 4 {
			return "bad-op"
		}
		p, ok1 := u16Tok(a[2])
		t, ok2 := lib.Atoi(a[3])
		if !ok1 || !ok2 || t < 0 {
			return "bad-op"
		}
		if _, seen := origLT[p]; !seen {
			origLT[p] = layers.UDPPort(p).LayerType()
		}
		layers.RegisterUDPPortLayerType(layers.UDPPort(p), gopacket.LayerType(t))
		lib.Stat("regport")
		return "ok"
	case "setports":
		if len(a) != 2 {
			return "bad-op"
		}
		cur.SetInternalPortsForTesting()
		return "ok " + render(cur) + " flow=" + flowStr(cur)
	case "flowpair":
		if len(a) != 4 {
			return "bad-op"
		}
		da, ok1 := bytesTok(a[2])
		db, ok2 := bytesTok(a[3])
		if !ok1 || !ok2 {
			return "bad-op"
		}
		ua, ub := &layers.UDP{}, &layers.UDP{}
		ea, p1 := directDecode(ua, exactCopy(da), &fb{})
		if p1 != "" {
			return p1
		}
		eb, p2 := directDecode(ub, exactCopy(db), &fb{})
		if p2 != "" {
			return p2
		}
		if ea != nil || eb != nil {
			return "err"
		}
		fa, fbw := ua.TransportFlow(), ub.TransportFlow()
		rev := fbw == fa.Reverse()
		swapped := bytes.Equal(da[0:2], db[2:4]) && bytes.Equal(da[2:4], db[0:2])
		if swapped != rev {
			lib.Finding("C17", "ludp:flow-not-reversed", "flows of the two directions are mutually reversed iff the ports are swapped — violated")
		}
		if rev && fa.FastHash() != fbw.FastHash() {
			lib.Finding("C17", "ludp:flow-hash-asym", "FastHash differs between the two directions")
		}
		if rev && (fa.Reverse().Reverse() != fa) {
			lib.Finding("C17", "ludp:flow-reverse-twice", "Reverse twice is not the identity")
		}
		if rev {
			lib.Stat("flowpair:reversed")
			lib.Nontrivial()
		} else {
			lib.Stat("flowpair:unrelated")
		}
		return "ok rev=" + b01(rev)
	case "ser":
		if len(a) != 11 {
			return "bad-op"
		}
		fix, ok1 := boolTok(a[2])
		cs, ok2 := boolTok(a[3])
		ps, ok3 := pseudoTok(a[5])
		sp, ok4 := u16Tok(a[6])
		dp, ok5 := u16Tok(a[7])
		ln, ok6 := u16Tok(a[8])
		ck, ok7 := u16Tok(a[9])
		payload, ok8 := bytesTok(a[10])
		if !(ok1 && ok2 && ok3 && ok4 && ok5 && ok6 && ok7 && ok8) {
			return "bad-op"
		}
		buf, ok := bufTok(a[4], len(payload))
		if !ok {
			return "bad-op"
		}
		opts := gopacket.SerializeOptions{FixLengths: fix, ComputeChecksums: cs}
		u := &layers.UDP{SrcPort: layers.UDPPort(sp), DstPort: layers.UDPPort(dp), Length: ln, Checksum: ck}
		ps.attach(u)
		o := doSerialize(u, buf, payload, opts)
		serObj, serPayload, serOpts, serPseudo, serFirst = nil, nil, opts, ps, nil
		if o.panicked == "" && !o.err {
			serObj, serPayload, serFirst = u, payload, o.bytes
			serMonitors(a[4], sp, dp, ln, ck, ps, payload, opts, o)
			lib.Nontrivial()
		}
		statSer(a[4], ps, payload, opts, o, u)
		return showSer(o, u)
	case "reser":
		if len(a) != 3 || serObj == nil {
			return "bad-op"
		}
		buf, ok := bufTok(a[2], len(serPayload))
		if !ok {
			return "bad-op"
		}
		o := doSerialize(serObj, buf, serPayload, serOpts)
		if o.panicked == "" && (o.err || !bytes.Equal(o.bytes, serFirst)) {
			lib.Finding("C07", "ludp:not-idempotent", "serialising the same UDP layer again gives different bytes / an error")
		}
		lib.Stat("reser")
		return showSer(o, serObj)
	case "rt":
		if len(a) != 8 {
			return "bad-op"
		}
		ps, ok3 := pseudoTok(a[2])
		sp, ok4 := u16Tok(a[3])
		dp, ok5 := u16Tok(a[4])
		ln, ok6 := u16Tok(a[5])
		ck, ok7 := u16Tok(a[6])
		payload, ok8 := bytesTok(a[7])
		if !(ok3 && ok4 && ok5 && ok6 && ok7 && ok8) {
			return "bad-op"
		}
		return execRT(ps, sp, dp, ln, ck, payload)
	case "verify":
		if len(a) != 4 {
			return "bad-op"
		}
		ps, ok1 := pseudoTok(a[2])
		data, ok2 := bytesTok(a[3])
		if !ok1 || !ok2 {
			return "bad-op"
		}
		u := &layers.UDP{}
		err, prep := directDecode(u, exactCopy(data), &fb{})
		if prep != "" {
			return prep
		}
		if err != nil {
			return "err"
		}
		ps.attach(u)
		var verr error
		var res gopacket.ChecksumVerificationResult
		rep, panicked := protect(func() string {
			verr, res = u.VerifyChecksum()
			return ""
		})
		if panicked {
			lib.Finding("C01", "ludp:verify-panic:"+lastSite, "UDP.VerifyChecksum panicked")
			return rep
		}
		if verr != nil {
			lib.Stat("verify:err")
			return "verr"
		}
		lib.Stat("verify:valid=" + b01(res.Valid))
		return fmt.Sprintf("ok valid=%s correct=%d actual=%d", b01(res.Valid), res.Correct, res.Actual)
	}
	return "bad-op"
}

func statDecode(op string, data []byte, err error, trunc bool, u *layers.UDP) {
	switch {
	case len(data) < 8:
		lib.Stat(op + ":short<8")
	case err != nil:
		lib.Stat(op + ":length-1..7-error")
	case u.Length == 0:
		lib.Stat(op + ":jumbo-length0")
		lib.Nontrivial()
	case trunc:
		lib.Stat(op + ":truncated")
		lib.Nontrivial()
	case int(u.Length) < len(data):
		lib.Stat(op + ":trailing-bytes")
		lib.Nontrivial()
	default:
		lib.Stat(op + ":exact")
		if len(u.Payload) > 0 {
			lib.Nontrivial()
		}
	}
}

func statSer(hist string, ps pseudo, payload []byte, opts gopacket.SerializeOptions, o serOut, u *layers.UDP) {
	lib.Stat(fmt.Sprintf("ser:fix=%s,csum=%s", b01(opts.FixLengths), b01(opts.ComputeChecksums)))
	lib.Stat("ser:pseudo=" + ps.kind)
	switch {
	case strings.HasPrefix(hist, "dirty"):
		lib.Stat("ser:buf=dirty")
	case strings.HasPrefix(hist, "sized"):
		lib.Stat("ser:buf=sized")
	default:
		lib.Stat("ser:buf=fresh")
	}
	switch {
	case o.panicked != "":
		lib.Stat("ser:panic")
	case o.err:
		lib.Stat("ser:err")
	default:
		if opts.ComputeChecksums && u.Checksum == 0xffff {
			lib.Stat("ser:csum-emitted-ffff")
		}
		if opts.FixLengths && u.Length == 0 {
			lib.Stat("ser:jumbo")
		}
		if opts.FixLengths && ps.kind != "v6" && len(payload)+8 > 65535 {
			lib.Stat("ser:length-wrapped")
		}
	}
	switch n := len(payload); {
	case n == 0:
		lib.Stat("ser:payload=0")
	case n == 1:
		lib.Stat("ser:payload=1")
	case n >= 1480 && n <= 1520:
		lib.Stat("ser:payload=1480..1520")
	case n > 65527:
		lib.Stat("ser:payload>65527")
	case n%2 == 1:
		lib.Stat("ser:payload=odd")
	default:
		lib.Stat("ser:payload=even")
	}
}

// serMonitors: C07 oracles around one successful SerializeTo.
func serMonitors(hist string, sp, dp, ln, ck uint16, ps pseudo, payload []byte, opts gopacket.SerializeOptions, first serOut) {
	mk := func() *layers.UDP {
		u := &layers.UDP{SrcPort: layers.UDPPort(sp), DstPort: layers.UDPPort(dp), Length: ln, Checksum: ck}
		ps.attach(u)
		return u
	}
	// same layer value into a brand-new buffer: bytes must not depend on the buffer's history
	ref := doSerialize(mk(), gopacket.NewSerializeBuffer(), payload, opts)
	if ref.panicked == "" && (ref.err || !bytes.Equal(ref.bytes, first.bytes)) {
		lib.Finding("C07", "ludp:dirty-buffer", "output differs between a fresh buffer and buffer history "+hist)
	}
	// … and into a buffer full of 0xA5 / 0x5A that was cleared
	for _, h := range []string{"dirty165", "dirty90"} {
		b, _ := bufTok(h, len(payload))
		o := doSerialize(mk(), b, payload, opts)
		if o.panicked == "" && (o.err || !bytes.Equal(o.bytes, first.bytes)) {
			lib.Finding("C07", "ludp:dirty-buffer", "output differs between buffer history "+hist+" and "+h)
		}
	}
	// the mutated layer serialised again (on a copy, so the op sequence stays in step with the model)
	c := *serObj
	again := doSerialize(&c, gopacket.NewSerializeBuffer(), payload, opts)
	if again.panicked == "" && (again.err || !bytes.Equal(again.bytes, first.bytes)) {
		lib.Finding("C07", "ludp:not-idempotent", "serialising the mutated UDP layer again gives different bytes")
	}
	// every requested byte is written: the 8 header bytes are a function of the fields
	if len(first.bytes) != len(payload)+8 || !bytes.Equal(first.bytes[8:], payload) {
		lib.Finding("C07", "ludp:payload-clobbered", "SerializeTo changed the payload bytes or the length")
	} else {
		h := first.bytes[:8]
		if uint16(h[0])<<8|uint16(h[1]) != sp || uint16(h[2])<<8|uint16(h[3]) != dp ||
			uint16(h[4])<<8|uint16(h[5]) != serObj.Length || uint16(h[6])<<8|uint16(h[7]) != serObj.Checksum {
			lib.Finding("C07", "ludp:header-bytes", "header bytes are not the big-endian fields of the (mutated) layer")
		}
	}
}

func execPkt(fl int, data, foreign []byte) string {
	opts := gopacket.DecodeOptions{Lazy: fl&1 != 0, NoCopy: fl&2 != 0, Pool: fl&4 != 0, DecodeStreamsAsDatagrams: fl&8 != 0, SkipDecodeRecovery: true}
	// baseline: direct decode of an exact copy into a fresh object
	ud := &layers.UDP{}
	fd := &fb{}
	errD, prep := directDecode(ud, exactCopy(data), fd)
	if prep != "" {
		return prep
	}
	d := withForeign(data, foreign)
	var (
		ls    []gopacket.Layer
		tl    gopacket.TransportLayer
		el    gopacket.ErrorLayer
		trunc bool
		pooled gopacket.PooledPacket
	)
	rep, panicked := protect(func() string {
		p := gopacket.NewPacket(d, layers.LayerTypeUDP, opts)
		ls = p.Layers()
		tl = p.TransportLayer()
		el = p.ErrorLayer()
		trunc = p.Metadata().Truncated
		if pp, ok := p.(gopacket.PooledPacket); ok {
			pooled = pp
		}
		return ""
	})
	if pooled != nil {
		defer pooled.Dispose() // only after everything below has been read
	}
	exact := errD != nil || len(ud.Payload) == 0 || ud.NextLayerType() == gopacket.LayerTypePayload
	ruleTail := func() string {
		switch {
		case errD != nil:
			return " n=2 second=fail"
		case len(ud.Payload) == 0:
			return " n=1 second=-"
		case ud.NextLayerType() == gopacket.LayerTypePayload:
			return " n=2 second=payload"
		}
		return " n=+ second=?"
	}
	pre := func(e bool) string {
		if e {
			return "err "
		}
		return "ok "
	}
	lib.Stat(fmt.Sprintf("pkt:flags=%d", fl))
	if panicked {
		if strings.HasPrefix(lastSite, "layers/udp.go") || strings.HasPrefix(lastSite, "packet.go") || exact {
			lib.Finding("C19", "ludp:panic:"+lastSite, "NewPacket(SkipDecodeRecovery) panicked in the UDP step ("+lastMsg+") on "+rb(data))
			return rep
		}
		// a panic inside the NEXT layer's decoder is that layer's engine's business
		lib.Stat("pkt:next-layer-panic:" + lastSite)
		return pre(errD != nil) + render(ud) + " trunc=" + b01(fd.trunc) + " tl=1" + ruleTail()
	}
	if len(ls) == 0 {
		// packet.go: a lazy packet never calls the first decoder on empty data (C03's business)
		if !(opts.Lazy && len(data) == 0) {
			lib.Finding("C05", "ludp:pkt-no-layer", "decodeUDP added no layer for "+rb(data))
		}
		return "ok nolayer"
	}
	l0, ok := ls[0].(*layers.UDP)
	if !ok {
		lib.Finding("C05", "ludp:pkt-first-layer", "first layer of NewPacket(LayerTypeUDP) is not *UDP")
		return "ok bad-first"
	}
	// C05: packet decoding == direct decoding into a fresh layer (fields, contents, payload)
	if diffs := fieldDiffs(l0, ud); len(diffs) > 0 {
		sig := "ludp:pkt-vs-direct:" + diffs[0]
		if opts.NoCopy || opts.Pool {
			sig = "ludp:cap-dependent"
		}
		lib.Finding("C05", sig, fmt.Sprintf("NewPacket(flags=%d) UDP layer differs from direct DecodeFromBytes in %v for %s", fl, diffs, rb(data)))
	}
	if fd.trunc && !trunc {
		lib.Finding("C05", "ludp:pkt-truncated-lost", "UDP truncation not reflected in packet metadata")
	}
	// C01 clause: error layer non-nil and last iff something failed
	if errD != nil && (el == nil || ls[len(ls)-1] != gopacket.Layer(el)) {
		lib.Finding("C01", "ludp:error-layer", "UDP decode error but the packet's error layer is missing or not last")
	}
	tail := ruleTail()
	tr := fd.trunc
	if exact {
		second := "-"
		if len(ls) >= 2 {
			switch ls[1].LayerType() {
			case gopacket.LayerTypePayload:
				second = "payload"
			case gopacket.LayerTypeDecodeFailure:
				second = "fail"
			default:
				second = "other"
			}
		}
		tail = fmt.Sprintf(" n=%d second=%s", len(ls), second)
		tr = trunc
	}
	return pre(el != nil && exact || errD != nil) + render(l0) + " trunc=" + b01(tr) + " tl=" + b01(tl != nil && gopacket.Layer(tl) == ls[0]) + tail
}

func execRT(ps pseudo, sp, dp, ln, ck uint16, payload []byte) string {
	opts := gopacket.SerializeOptions{FixLengths: true, ComputeChecksums: true}
	u := &layers.UDP{SrcPort: layers.UDPPort(sp), DstPort: layers.UDPPort(dp), Length: ln, Checksum: ck}
	ps.attach(u)
	o := doSerialize(u, gopacket.NewSerializeBuffer(), payload, opts)
	if o.panicked != "" {
		return o.panicked
	}
	if o.err {
		if pseudoValid(ps) {
			lib.Finding("C06", "ludp:roundtrip:serialize-error", "SerializeTo failed on an in-range layer with a valid network layer")
		}
		lib.Stat("rt:ser-err")
		return "err"
	}
	wire := o.bytes
	d := &layers.UDP{}
	f := &fb{}
	err, prep := directDecode(d, exactCopy(wire), f)
	if prep != "" {
		return prep
	}
	ok := fits(ps, len(payload))
	if ok {
		lib.Stat("rt:fits")
		lib.Nontrivial()
		if err != nil {
			lib.Finding("C06", "ludp:roundtrip:error", "decoding the serialised datagram returned an error")
		} else {
			if f.trunc {
				lib.Finding("C06", "ludp:roundtrip:Truncated", "decoding the serialised datagram set the truncation flag")
			}
			if d.SrcPort != u.SrcPort || uint16(d.SrcPort) != sp {
				lib.Finding("C06", "ludp:roundtrip:SrcPort", "SrcPort changed in the round trip")
			}
			if d.DstPort != u.DstPort || uint16(d.DstPort) != dp {
				lib.Finding("C06", "ludp:roundtrip:DstPort", "DstPort changed in the round trip")
			}
			if d.Length != u.Length {
				lib.Finding("C06", "ludp:roundtrip:Length", "Length differs from the fixed length")
			}
			if d.Checksum != u.Checksum {
				lib.Finding("C06", "ludp:roundtrip:Checksum", "Checksum differs from the computed checksum")
			}
			if !bytes.Equal(d.Payload, payload) {
				lib.Finding("C06", "ludp:roundtrip:Payload", "payload changed in the round trip")
			}
		}
	} else {
		lib.Stat("rt:oversize-not-claimed")
	}
	if len(payload) > 65527 {
		lib.Stat("rt:payload>65527")
	}
	// once more: serialise the decoded layer over its payload
	same := false
	{
		d2 := &layers.UDP{SrcPort: d.SrcPort, DstPort: d.DstPort, Length: d.Length, Checksum: d.Checksum}
		ps.attach(d2)
		o2 := doSerialize(d2, gopacket.NewSerializeBuffer(), d.Payload, opts)
		same = o2.panicked == "" && !o2.err && bytes.Equal(o2.bytes, wire)
		if ok && err == nil && !same {
			lib.Finding("C06", "ludp:reserialize-differs", "serialising the decoded layer again does not reproduce the bytes")
		}
	}
	pre := "ok "
	if err != nil {
		pre = "err "
	}
	return pre + render(d) + " trunc=" + b01(f.trunc) + " refix=" + b01(same)
}

func main() {
	if len(os.Args) >= 3 && os.Args[1] == "harvest" {
		harvest(os.Args[2])
		return
	}
	lib.Main(lib.Engine{Name: "ludp", Gen: gen, Reset: reset, Exec: exec})
}
